import TflModel.Model.Dykstra
import TflModel.Lemmas.Idx
import TflModel.Lemmas.DykstraExec
import TflModel.Lemmas.Trapezoid
import Mathlib.Tactic.Ring
import Mathlib.Tactic.Linarith
/-!
# C08 — iterative (Dykstra) projection: feasible ⇒ unchanged, exact group projections,
Dykstra bookkeeping

Model: `Tfl.Lat.dykstraPass / dykstraIter` over the group list `Tfl.Lat.groups` (the
`_project_partial_*` functions), see `Model/Dykstra.lean`.

Proved (for every group list, every iteration count, every kernel):
* T2 `dykstra_fixpoint`: if every group map fixes `w`, the whole loop returns `w` with all
  `last_change` tensors zero — for every number of iterations; re-projecting does not move it.
* T3 `dykstra_telescoping`: along every pass `w − Σ_g last_change_g` is invariant (for ANY maps).
* T1 (stencil level): each stencil map — pair (monotonicity/unimodality), 2×2 square (Edgeworth),
  pair (trapezoid), the two triangles (monotonic dominance, joint monotonicity), range quadruple and
  corner triple (range dominance) — lands in its half-space, fixes it, and satisfies the
  variational inequality `Σ_v (x_v − P x_v)(y_v − P x_v) ≤ 0` for every feasible `y`, i.e. it IS the
  Euclidean projection onto that half-space; `monoGroup_pair` ties the tensor-level monotonicity
  group map to `pairProj` (stencils of one group are disjoint by parity) and `monoGroup_fix` shows a
  monotone kernel is fixed by it; the ties of the other groups to their stencil maps are exercised
  by the correspondence of every run, not proved.
* T2 for ALL group kinds and on the EXECUTABLE loop the driver runs (`dykstraIterT`,
  `projectByDykstraT`): `groups_fix` (a kernel feasible for the configuration — `FeasibleD`: pair
  directions incl. unimodality, `EdgeOK`, `TrapOK`, monotonic / range dominance, joint monotonicity —
  is fixed on the box by every group map), `projectByDykstraT_fixpoint` / `_feasible` /
  `_fixpoint_normal` / `dykstraT_fixpoint_state` (unchanged for every iteration count; locality of
  every group map is proved in `Lemmas/DykstraExec.lean`, `groups_local`), `projectByDykstraT_twice`.
* T3 on the executable loop: `dykstraIterT_telescoping`, `projectByDykstraT_telescoping`;
  `projectByDykstraT_agree` ties the table loop to the function-level loop on the box.
NOT proved (said in DESIGN.md): that the iterates converge (Boyle–Dykstra 1986). The
"violation → 0" and "limit is the nearest point" clauses are `C08_limit_partial`: tested every run
against a QP solver, not proved.
-/
namespace Tfl.C08
open Tfl Tfl.Lat

/-- the part of C08 that is NOT a theorem here: convergence of the iterates to the nearest point -/
def C08_limit_partial : Prop :=
  ∀ (ps : List (W → W)) (w : W), ∃ limit : W, ∀ idx, ∀ ε : ℚ, 0 < ε → ∃ n0 : Nat, ∀ n, n0 ≤ n →
    |(dykstraIter ps n (w, ps.map (fun _ => fun _ => 0))).1 idx - limit idx| < ε

/-! ### T2: feasible ⇒ unchanged -/
theorem visit_fix (P : W → W) (w : W) (h : P w = w) : visit P w (fun _ => 0) = (w, fun _ => 0) := by
  have hr : (fun idx => w idx - (fun _ => (0 : ℚ)) idx) = w := by funext idx; simp
  simp only [visit, hr, h]
  congr 1
  funext idx; simp

theorem dykstraPass_fix (ps : List (W → W)) (w : W) (h : ∀ P ∈ ps, P w = w) :
    dykstraPass ps w (ps.map (fun _ => fun _ => 0)) = (w, ps.map (fun _ => fun _ => 0)) := by
  induction ps with
  | nil => rfl
  | cons P r ih =>
    simp only [dykstraPass, List.map_cons, List.headD_cons, List.tail_cons,
      visit_fix P w (h P (List.mem_cons_self ..))]
    rw [ih (fun Q hQ => h Q (List.mem_cons_of_mem _ hQ))]

/-- **C08-T2.** A kernel fixed by every group projection (in particular every feasible kernel,
see the `*_fix` stencil lemmas) is returned unchanged by the Dykstra loop, with all roll-back
tensors still zero, for EVERY number of iterations; hence projecting a result again that is
itself fixed does not move it. -/
theorem dykstra_fixpoint (ps : List (W → W)) (w : W) (h : ∀ P ∈ ps, P w = w) (n : Nat) :
    dykstraIter ps n (w, ps.map (fun _ => fun _ => 0)) = (w, ps.map (fun _ => fun _ => 0)) := by
  induction n with
  | zero => rfl
  | succ n ih => simp only [dykstraIter, dykstraPass_fix ps w h]; exact ih

/-! ### T3: telescoping invariant, for any maps -/
def csum (cs : List W) (idx : Idx) : ℚ := rsum (cs.map (fun c => c idx))

theorem dykstraPass_length (ps : List (W → W)) (w : W) (cs : List W) :
    (dykstraPass ps w cs).2.length = ps.length := by
  induction ps generalizing w cs with
  | nil => rfl
  | cons P r ih => simp [dykstraPass, ih]

/-- **C08-T3.** One pass over the groups keeps `w − Σ_g last_change_g` pointwise invariant,
whatever the group maps are (Dykstra's bookkeeping: each visit rolls back exactly what it
recorded). -/
theorem dykstra_telescoping (ps : List (W → W)) (w : W) (cs : List W) (hl : cs.length = ps.length)
    (idx : Idx) :
    (dykstraPass ps w cs).1 idx - csum (dykstraPass ps w cs).2 idx = w idx - csum cs idx := by
  induction ps generalizing w cs with
  | nil =>
    have : cs = [] := List.eq_nil_of_length_eq_zero (by simpa using hl)
    subst this; rfl
  | cons P r ih =>
    cases cs with
    | nil => simp at hl
    | cons c cr =>
      have hl' : cr.length = r.length := by simpa using hl
      have := ih (visit P w c).1 cr hl'
      simp only [dykstraPass, List.headD_cons, List.tail_cons, csum, List.map_cons, rsum] at this ⊢
      simp only [visit] at this ⊢
      linarith

theorem dykstraIter_telescoping (ps : List (W → W)) (n : Nat) (w : W) (cs : List W)
    (hl : cs.length = ps.length) (idx : Idx) :
    (dykstraIter ps n (w, cs)).1 idx - csum (dykstraIter ps n (w, cs)).2 idx = w idx - csum cs idx := by
  induction n generalizing w cs with
  | zero => rfl
  | succ n ih =>
    simp only [dykstraIter]
    rw [ih _ _ (by rw [dykstraPass_length]), dykstra_telescoping ps w cs hl]

/-! ### T1: the stencil maps are exact Euclidean projections onto their half-spaces -/

/-- pair `(a, b)`, constraint `a ≤ b`: `_project_partial_monotonicity` (increasing pair) -/
def pairProj (a b : ℚ) : ℚ × ℚ := (min a ((a + b) / 2), max b ((a + b) / 2))
theorem pairProj_lands (a b : ℚ) : (pairProj a b).1 ≤ (pairProj a b).2 := by
  simp only [pairProj, min_def, max_def]; split_ifs <;> linarith
theorem pairProj_fix (a b : ℚ) (h : a ≤ b) : pairProj a b = (a, b) := by
  have h1 : min a ((a + b) / 2) = a := min_eq_left (by linarith)
  have h2 : max b ((a + b) / 2) = b := max_eq_left (by linarith)
  simp only [pairProj, h1, h2]
theorem pairProj_vi (a b y1 y2 : ℚ) (hy : y1 ≤ y2) :
    (a - (pairProj a b).1) * (y1 - (pairProj a b).1) + (b - (pairProj a b).2) * (y2 - (pairProj a b).2) ≤ 0 := by
  by_cases hab : a ≤ b
  · rw [pairProj_fix a b hab]; simp
  · have hlt := not_le.mp hab
    have h1 : min a ((a + b) / 2) = (a + b) / 2 := min_eq_right (by linarith)
    have h2 : max b ((a + b) / 2) = (a + b) / 2 := max_eq_right (by linarith)
    simp only [pairProj, h1, h2]
    nlinarith [mul_nonneg (show (0:ℚ) ≤ (a - b) / 2 by linarith) (show (0:ℚ) ≤ y2 - y1 by linarith)]

/-- 2×2 square `(p,q,r,s) = (L[i][j], L[i][j+1], L[i+1][j], L[i+1][j+1])`: `_project_partial_edgeworth` -/
def sqProj (p q r s : ℚ) : ℚ × ℚ × ℚ × ℚ :=
  let c := max (((r - p) - (s - q)) / 4) 0
  (p + c, q - c, r - c, s + c)
theorem sqProj_lands (p q r s : ℚ) :
    ((sqProj p q r s).2.2.1 - (sqProj p q r s).1) - ((sqProj p q r s).2.2.2 - (sqProj p q r s).2.1) ≤ 0 := by
  simp only [sqProj, max_def]; split_ifs <;> linarith
theorem sqProj_fix (p q r s : ℚ) (h : (r - p) - (s - q) ≤ 0) : sqProj p q r s = (p, q, r, s) := by
  have : max (((r - p) - (s - q)) / 4) 0 = 0 := max_eq_right (by linarith)
  simp [sqProj, this]
theorem sqProj_vi (p q r s y1 y2 y3 y4 : ℚ) (hy : (y3 - y1) - (y4 - y2) ≤ 0) :
    (p - (sqProj p q r s).1) * (y1 - (sqProj p q r s).1) + (q - (sqProj p q r s).2.1) * (y2 - (sqProj p q r s).2.1)
      + (r - (sqProj p q r s).2.2.1) * (y3 - (sqProj p q r s).2.2.1)
      + (s - (sqProj p q r s).2.2.2) * (y4 - (sqProj p q r s).2.2.2) ≤ 0 := by
  simp only [sqProj, max_def]
  split_ifs with h
  · nlinarith
  · nlinarith [mul_nonneg (show (0:ℚ) ≤ ((r - p) - (s - q)) / 4 from le_of_lt (not_le.mp h))
      (show (0:ℚ) ≤ -((y3 - y1) - (y4 - y2)) by linarith)]

/-- triangle with apex `m` that must be at least the midpoint of `(a, b)`:
`_project_partial_monotonic_dominance` (group bit 1) and `_project_partial_joint_monotonicity` (bit 1) -/
def triUp (a b m : ℚ) : ℚ × ℚ × ℚ :=
  let c := max (((a + b) / 2 - m) / 3) 0
  (a - c, b - c, m + 2 * c)
theorem triUp_lands (a b m : ℚ) :
    ((triUp a b m).1 + (triUp a b m).2.1) / 2 ≤ (triUp a b m).2.2 := by
  simp only [triUp, max_def]; split_ifs <;> linarith
theorem triUp_fix (a b m : ℚ) (h : (a + b) / 2 ≤ m) : triUp a b m = (a, b, m) := by
  have : max (((a + b) / 2 - m) / 3) 0 = 0 := max_eq_right (by linarith)
  simp [triUp, this]
theorem triUp_vi (a b m y1 y2 y3 : ℚ) (hy : (y1 + y2) / 2 ≤ y3) :
    (a - (triUp a b m).1) * (y1 - (triUp a b m).1) + (b - (triUp a b m).2.1) * (y2 - (triUp a b m).2.1)
      + (m - (triUp a b m).2.2) * (y3 - (triUp a b m).2.2) ≤ 0 := by
  simp only [triUp, max_def]
  split_ifs with h
  · nlinarith
  · nlinarith [mul_nonneg (show (0:ℚ) ≤ ((a + b) / 2 - m) / 3 from le_of_lt (not_le.mp h))
      (show (0:ℚ) ≤ -((y1 + y2) / 2 - y3) by linarith)]

/-- triangle with apex `m` that must be at most the midpoint of `(a, b)` (group bit 0) -/
def triDown (a b m : ℚ) : ℚ × ℚ × ℚ :=
  let c := min (((a + b) / 2 - m) / 3) 0
  (a - c, b - c, m + 2 * c)
theorem triDown_lands (a b m : ℚ) :
    (triDown a b m).2.2 ≤ ((triDown a b m).1 + (triDown a b m).2.1) / 2 := by
  simp only [triDown, min_def]; split_ifs <;> linarith
theorem triDown_fix (a b m : ℚ) (h : m ≤ (a + b) / 2) : triDown a b m = (a, b, m) := by
  have : min (((a + b) / 2 - m) / 3) 0 = 0 := min_eq_right (by linarith)
  simp [triDown, this]
theorem triDown_vi (a b m y1 y2 y3 : ℚ) (hy : y3 ≤ (y1 + y2) / 2) :
    (a - (triDown a b m).1) * (y1 - (triDown a b m).1) + (b - (triDown a b m).2.1) * (y2 - (triDown a b m).2.1)
      + (m - (triDown a b m).2.2) * (y3 - (triDown a b m).2.2) ≤ 0 := by
  simp only [triDown, min_def]
  split_ifs with h
  · nlinarith [mul_nonneg (show (0:ℚ) ≤ -(((a + b) / 2 - m) / 3) by linarith)
      (show (0:ℚ) ≤ (y1 + y2) / 2 - y3 by linarith)]
  · nlinarith

/-- range-dominance quadruple (interior vertex): dominant range `(d0, d1)` must be at least the
weak range `(k0, k1)`: `(k1 − k0) − (d1 − d0) ≤ 0` -/
def quadProj (k0 k1 d0 d1 : ℚ) : ℚ × ℚ × ℚ × ℚ :=
  let c := max (((k1 - k0) - (d1 - d0)) / 4) 0
  (k0 + c, k1 - c, d0 - c, d1 + c)
theorem quadProj_lands (k0 k1 d0 d1 : ℚ) :
    ((quadProj k0 k1 d0 d1).2.1 - (quadProj k0 k1 d0 d1).1)
      - ((quadProj k0 k1 d0 d1).2.2.2 - (quadProj k0 k1 d0 d1).2.2.1) ≤ 0 := by
  simp only [quadProj, max_def]; split_ifs <;> linarith
theorem quadProj_vi (k0 k1 d0 d1 y1 y2 y3 y4 : ℚ) (hy : (y2 - y1) - (y4 - y3) ≤ 0) :
    (k0 - (quadProj k0 k1 d0 d1).1) * (y1 - (quadProj k0 k1 d0 d1).1)
      + (k1 - (quadProj k0 k1 d0 d1).2.1) * (y2 - (quadProj k0 k1 d0 d1).2.1)
      + (d0 - (quadProj k0 k1 d0 d1).2.2.1) * (y3 - (quadProj k0 k1 d0 d1).2.2.1)
      + (d1 - (quadProj k0 k1 d0 d1).2.2.2) * (y4 - (quadProj k0 k1 d0 d1).2.2.2) ≤ 0 := by
  simp only [quadProj, max_def]
  split_ifs with h
  · nlinarith
  · nlinarith [mul_nonneg (show (0:ℚ) ≤ ((k1 - k0) - (d1 - d0)) / 4 from le_of_lt (not_le.mp h))
      (show (0:ℚ) ≤ -((y2 - y1) - (y4 - y3)) by linarith)]

/-- range-dominance corner: the shared corner `z` stays, `(k − z) − (d − z) ≤ 0` i.e. `k ≤ d` -/
def cornerProj (k d : ℚ) : ℚ × ℚ :=
  let c := max ((k - d) / 2) 0
  (k - c, d + c)
theorem cornerProj_lands (k d : ℚ) : (cornerProj k d).1 ≤ (cornerProj k d).2 := by
  simp only [cornerProj, max_def]; split_ifs <;> linarith
theorem cornerProj_vi (k d y1 y2 : ℚ) (hy : y1 ≤ y2) :
    (k - (cornerProj k d).1) * (y1 - (cornerProj k d).1) + (d - (cornerProj k d).2) * (y2 - (cornerProj k d).2) ≤ 0 := by
  simp only [cornerProj, max_def]
  split_ifs with h
  · nlinarith
  · nlinarith [mul_nonneg (show (0:ℚ) ≤ (k - d) / 2 from le_of_lt (not_le.mp h)) (show (0:ℚ) ≤ y2 - y1 by linarith)]

/-! ### tie between the tensor-level group maps and the stencil maps -/

/-- `monoGroup` acts on each pair `(k, k+1)` of its group exactly as `pairProj` -/
theorem monoGroup_pair (size : Nat) (d g : Nat) (w : W) (idx : Idx) (hd : d < idx.length)
    (hg : inGroup g size (coord idx d) = true) :
    let nxt := setc idx d (coord idx d + 1)
    (monoGroup size true 0 d g w idx, monoGroup size true 0 d g w nxt) = pairProj (w idx) (w nxt) := by
  intro nxt
  have hk : coord nxt d = coord idx d + 1 := coord_setc_same _ hd
  have hng : inGroup g size (coord idx d + 1) = false := by
    simp only [inGroup, Bool.and_eq_true, decide_eq_true_eq, beq_iff_eq] at hg
    simp only [inGroup, Bool.and_eq_false_iff, decide_eq_false_iff_not, beq_eq_false_iff_ne]
    omega
  have hback : setc nxt d (coord nxt d - 1) = idx := by
    rw [hk]; simp only [nxt, setc_setc_same, Nat.add_sub_cancel]; exact setc_coord_self hd
  have hback' : setc nxt d (coord idx d) = idx := by
    simp only [nxt, setc_setc_same]; exact setc_coord_self hd
  simp only [monoGroup, hg, if_true, pairKind, hk, hng, Bool.false_eq_true, if_false,
    Nat.add_sub_cancel, pairProj]
  simp only [show (1 : Nat) ≤ coord idx d + 1 by omega, hg, true_and, if_true, hback']
  rfl

/-- a kernel monotone along `d` is fixed by both monotonicity groups of that dimension -/
theorem monoGroup_fix (sizes : List Nat) (d g : Nat) (hd : d < sizes.length) (w : W)
    (hw : MonoAx sizes d w) : AgreeOn sizes (monoGroup (sizes.getD d 0) true 0 d g w) w := by
  intro idx hr
  have hl : d < idx.length := by rw [hr.1]; exact hd
  simp only [monoGroup, pairKind, if_true]
  split
  · rename_i hg
    have : coord idx d + 1 < sizes.getD d 0 := by
      simp only [inGroup, Bool.and_eq_true, decide_eq_true_eq] at hg; exact hg.1.2
    have := hw idx hr hd this
    exact min_eq_left (by linarith)
  · split
    · rename_i _ hg
      have h1 : 1 ≤ coord idx d := hg.1
      have hin : InRange sizes (setc idx d (coord idx d - 1)) :=
        inRange_setc hr (by have := hr.2 d hd; omega)
      have := hw _ hin hd (by rw [coord_setc_same _ hl]; have := hr.2 d hd; omega)
      rw [coord_setc_same _ hl, setc_setc_same, show coord idx d - 1 + 1 = coord idx d by omega,
        setc_coord_self hl] at this
      exact max_eq_left (by linarith)
    · rfl

/-! ### non-vacuity -/
example : pairProj 3 1 = (2, 2) := by decide +kernel
example : sqProj 0 0 4 0 = (1, -1, 3, 1) := by decide +kernel
example : (dykstraIter [fun w => w] 5 ((fun _ => 7), [fun _ => 0])).1 [] = 7 := by
  rw [show ([fun _ => (0 : ℚ)] : List W) = [fun w : W => w].map (fun _ => fun _ => 0) from rfl,
    dykstra_fixpoint _ _ (by simp)]

/-! ### feasible kernels are fixed (on the box) by every group map -/

/-- a kernel satisfying the trust's Edgeworth inequalities is fixed by all four Edgeworth groups -/
theorem edgeworthGroup_fix (sizes : List Nat) (tr : Trust) (g0 g1 : Nat) (w : W) (hw : EdgeOK sizes tr w) :
    AgreeOn sizes (edgeworthGroup (sizes.getD tr.main 0) (sizes.getD tr.cond 0) tr g0 g1 w) w := by
  intro idx hr
  simp only [edgeworthGroup]
  cases h0 : stencilBase g0 (sizes.getD tr.main 0) (coord idx tr.main) with
  | none => rfl
  | some i0 =>
    cases h1 : stencilBase g1 (sizes.getD tr.cond 0) (rev (sizes.getD tr.cond 0) tr.pos (coord idx tr.cond)) with
    | none => rfl
    | some j0 =>
      have hi := (stencilBase_some h0).1
      have hj := (stencilBase_some h1).1
      simp only
      have hd : (gat w tr.main tr.cond (i0 + 1) (rev (sizes.getD tr.cond 0) tr.pos j0) idx
            - gat w tr.main tr.cond i0 (rev (sizes.getD tr.cond 0) tr.pos j0) idx)
          - (gat w tr.main tr.cond (i0 + 1) (rev (sizes.getD tr.cond 0) tr.pos (j0 + 1)) idx
            - gat w tr.main tr.cond i0 (rev (sizes.getD tr.cond 0) tr.pos (j0 + 1)) idx) ≤ 0 := by
        cases hp : tr.pos with
        | true =>
          have := hw idx hr i0 j0 hi hj
          simp only [hp, if_true, eviol] at this
          simpa [rev] using this
        | false =>
          have := hw idx hr i0 (sizes.getD tr.cond 0 - 2 - j0) hi (by omega)
          simp only [hp, Bool.false_eq_true, if_false, eviol] at this
          have e1 : sizes.getD tr.cond 0 - 2 - j0 + 1 = sizes.getD tr.cond 0 - 1 - j0 := by omega
          have e2 : sizes.getD tr.cond 0 - 1 - (j0 + 1) = sizes.getD tr.cond 0 - 2 - j0 := by omega
          rw [e1] at this
          simp only [rev, Bool.false_eq_true, if_false, e2]
          linarith
      rw [max_eq_right (by linarith)]
      split_ifs <;> simp


/-- the two trapezoid inequalities of a feasible kernel, read on the (possibly reversed) layer list
the group projection works with -/
theorem trap_lines {sizes : List Nat} {tr : Trust} (hwf : TrustWF sizes tr) {w : W} (hw : TrapOK sizes tr w)
    {idx : Idx} (hr : InRange sizes idx) {j0 : Nat} (hj : j0 + 1 < sizes.getD tr.cond 0) :
    gat w tr.main tr.cond 0 (rev (sizes.getD tr.cond 0) tr.pos (j0 + 1)) idx
        ≤ gat w tr.main tr.cond 0 (rev (sizes.getD tr.cond 0) tr.pos j0) idx ∧
      gat w tr.main tr.cond (sizes.getD tr.main 0 - 1) (rev (sizes.getD tr.cond 0) tr.pos j0) idx
        ≤ gat w tr.main tr.cond (sizes.getD tr.main 0 - 1) (rev (sizes.getD tr.cond 0) tr.pos (j0 + 1)) idx := by
  obtain ⟨hm, hc, hne⟩ := hwf
  have hM : 0 < sizes.getD tr.main 0 := inRange_pos hr hm
  have key : ∀ (x y : Nat), x < sizes.getD tr.main 0 → y + 1 < sizes.getD tr.cond 0 →
      InRange sizes (setc (setc idx tr.main x) tr.cond y) ∧
      coord (setc (setc idx tr.main x) tr.cond y) tr.main = x ∧
      coord (setc (setc idx tr.main x) tr.cond y) tr.cond = y ∧
      setc (setc (setc idx tr.main x) tr.cond y) tr.cond (y + 1) = setc (setc idx tr.main x) tr.cond (y + 1) := by
    intro x y hx hy
    refine ⟨inRange_setc (inRange_setc hr hx) (by omega), ?_, ?_, setc_setc_same _ _ _ _⟩
    · rw [coord_setc_ne _ (Ne.symm hne), coord_setc_same _ (by rw [hr.1]; exact hm)]
    · rw [coord_setc_same _ (by rw [length_setc, hr.1]; exact hc)]
  unfold TrapOK at hw
  simp only [gat]
  cases hp : tr.pos with
  | true =>
    simp only [hp, if_true] at hw
    simp only [rev, if_true]
    obtain ⟨a1, a2, a3, a4⟩ := key 0 j0 hM hj
    obtain ⟨b1, b2, b3, b4⟩ := key (sizes.getD tr.main 0 - 1) j0 (by omega) hj
    have h1 := hw.1 _ a1 a2 (by rw [a3]; exact hj)
    have h2 := hw.2 _ b1 b2 (by rw [b3]; exact hj)
    rw [a3, a4] at h1
    rw [b3, b4] at h2
    exact ⟨h1, h2⟩
  | false =>
    simp only [hp, Bool.false_eq_true, if_false] at hw
    simp only [rev, Bool.false_eq_true, if_false]
    have hj' : sizes.getD tr.cond 0 - 1 - (j0 + 1) + 1 < sizes.getD tr.cond 0 := by omega
    have e : sizes.getD tr.cond 0 - 1 - (j0 + 1) + 1 = sizes.getD tr.cond 0 - 1 - j0 := by omega
    obtain ⟨a1, a2, a3, a4⟩ := key 0 _ hM hj'
    obtain ⟨b1, b2, b3, b4⟩ := key (sizes.getD tr.main 0 - 1) _ (by omega) hj'
    have h1 := hw.1 _ a1 a2 (by rw [a3]; exact hj')
    have h2 := hw.2 _ b1 b2 (by rw [b3]; exact hj')
    rw [a3, a4, e] at h1
    rw [b3, b4, e] at h2
    exact ⟨h1, h2⟩

/-- a kernel satisfying the trust's trapezoid inequalities is fixed by both trapezoid groups -/
theorem trapezoidGroup_fix (sizes : List Nat) (tr : Trust) (g : Nat) (hwf : TrustWF sizes tr) (w : W)
    (hw : TrapOK sizes tr w) :
    AgreeOn sizes (trapezoidGroup (sizes.getD tr.main 0) (sizes.getD tr.cond 0) tr g w) w := by
  intro idx hr
  simp only [trapezoidGroup]
  cases h1 : stencilBase g (sizes.getD tr.cond 0) (rev (sizes.getD tr.cond 0) tr.pos (coord idx tr.cond)) with
  | none => rfl
  | some j0 =>
    obtain ⟨l1, l2⟩ := trap_lines hwf hw hr (stencilBase_some h1).1
    simp only
    rw [max_eq_right (by linarith), max_eq_right (by linarith)]
    split_ifs <;> simp


/-- monotonic dominance of `dom` over `weak` (the two triangle inequalities of every 2×2 cell, as
`lattice_lib.assert_constraints` checks them): `L[i+1][j] ≥ (L[i][j] + L[i+1][j+1])/2 ≥ L[i][j+1]` -/
def MonoDomOK (sizes : List Nat) (dom weak : Nat) (w : W) : Prop :=
  ∀ idx, InRange sizes idx → ∀ i j, i + 1 < sizes.getD dom 0 → j + 1 < sizes.getD weak 0 →
    (gat w dom weak i j idx + gat w dom weak (i + 1) (j + 1) idx) / 2 ≤ gat w dom weak (i + 1) j idx ∧
    gat w dom weak i (j + 1) idx ≤ (gat w dom weak i j idx + gat w dom weak (i + 1) (j + 1) idx) / 2

/-- joint monotonicity in `(d1, d2)`: `L[i+1][j+1] ≥ (L[i+1][j] + L[i][j+1])/2 ≥ L[i][j]` -/
def JointMonoOK (sizes : List Nat) (d1 d2 : Nat) (w : W) : Prop :=
  ∀ idx, InRange sizes idx → ∀ i j, i + 1 < sizes.getD d1 0 → j + 1 < sizes.getD d2 0 →
    (gat w d1 d2 (i + 1) j idx + gat w d1 d2 i (j + 1) idx) / 2 ≤ gat w d1 d2 (i + 1) (j + 1) idx ∧
    gat w d1 d2 i j idx ≤ (gat w d1 d2 (i + 1) j idx + gat w d1 d2 i (j + 1) idx) / 2

/-- range dominance of `dom` over `weak`: at every vertex `(i, j)` the range along the weak
dimension does not exceed the range along the dominant one -/
def RangeDomOK (sizes : List Nat) (dom weak : Nat) (w : W) : Prop :=
  ∀ idx, InRange sizes idx → ∀ i j, i < sizes.getD dom 0 → j < sizes.getD weak 0 →
    (gat w dom weak i (sizes.getD weak 0 - 1) idx - gat w dom weak i 0 idx)
      - (gat w dom weak (sizes.getD dom 0 - 1) j idx - gat w dom weak 0 j idx) ≤ 0

theorem monoDomGroup_fix (sizes : List Nat) (dom weak g0 g1 : Nat) (g2 : Bool) (w : W)
    (hw : MonoDomOK sizes dom weak w) :
    AgreeOn sizes (monoDomGroup (sizes.getD dom 0) (sizes.getD weak 0) dom weak g0 g1 g2 w) w := by
  intro idx hr
  simp only [monoDomGroup]
  cases h0 : stencilBase g0 (sizes.getD dom 0) (coord idx dom) with
  | none => rfl
  | some i0 =>
    cases h1 : stencilBase g1 (sizes.getD weak 0) (coord idx weak) with
    | none => rfl
    | some j0 =>
      obtain ⟨l1, l2⟩ := hw idx hr i0 j0 (stencilBase_some h0).1 (stencilBase_some h1).1
      simp only
      rw [max_eq_right (by linarith), min_eq_right (by linarith)]
      split_ifs <;> simp

theorem jointMonoGroup_fix (sizes : List Nat) (d1 d2 g0 g1 : Nat) (g2 : Bool) (w : W)
    (hw : JointMonoOK sizes d1 d2 w) :
    AgreeOn sizes (jointMonoGroup (sizes.getD d1 0) (sizes.getD d2 0) d1 d2 g0 g1 g2 w) w := by
  intro idx hr
  simp only [jointMonoGroup]
  cases h0 : stencilBase g0 (sizes.getD d1 0) (coord idx d1) with
  | none => rfl
  | some i0 =>
    cases h1 : stencilBase g1 (sizes.getD d2 0) (coord idx d2) with
    | none => rfl
    | some j0 =>
      obtain ⟨l1, l2⟩ := hw idx hr i0 j0 (stencilBase_some h0).1 (stencilBase_some h1).1
      simp only
      rw [max_eq_right (by linarith), min_eq_right (by linarith)]
      split_ifs <;> simp

theorem rangeDomGroup_fix (sizes : List Nat) (dom weak i j : Nat) (hi : i < sizes.getD dom 0)
    (hj : j < sizes.getD weak 0) (w : W) (hw : RangeDomOK sizes dom weak w) :
    AgreeOn sizes (rangeDomGroup (sizes.getD dom 0) (sizes.getD weak 0) dom weak i j w) w := by
  intro idx hr
  have l := hw idx hr i j hi hj
  simp only [rangeDomGroup]
  rw [max_eq_right (by linarith), max_eq_right (by linarith)]
  split_ifs <;> simp

/-- the direction `_project_partial_monotonicity` enforces on every adjacent pair of dimension `d`
(increasing everywhere for a monotone dimension; valley / peak halves for unimodality) holds -/
def PairsOK (sizes : List Nat) (mono : Bool) (unimod : Int) (d : Nat) (w : W) : Prop :=
  ∀ idx, InRange sizes idx → coord idx d + 1 < sizes.getD d 0 →
    match pairKind mono unimod (sizes.getD d 0) (coord idx d) with
    | .incr => w idx ≤ w (setc idx d (coord idx d + 1))
    | .decr => w (setc idx d (coord idx d + 1)) ≤ w idx
    | .none => True

theorem pairsOK_of_mono {sizes : List Nat} {d : Nat} (hd : d < sizes.length) {w : W} (unimod : Int)
    (hw : MonoAx sizes d w) : PairsOK sizes true unimod d w := by
  intro idx hr hlt
  simp only [pairKind, if_true]
  exact hw idx hr hd hlt

/-- monotone AND unimodal dimensions: a kernel whose adjacent pairs all have the enforced direction
is fixed by both monotonicity groups (generalises `monoGroup_fix`) -/
theorem monoGroup_fix_pairs (sizes : List Nat) (mono : Bool) (unimod : Int) (d g : Nat)
    (hd : d < sizes.length) (w : W) (hw : PairsOK sizes mono unimod d w) :
    AgreeOn sizes (monoGroup (sizes.getD d 0) mono unimod d g w) w := by
  intro idx hr
  have hl : d < idx.length := by rw [hr.1]; exact hd
  simp only [monoGroup]
  split_ifs with h1 h2
  · have := hw idx hr (inGroup_lt h1)
    cases hk : pairKind mono unimod (sizes.getD d 0) (coord idx d) with
    | incr => rw [hk] at this; exact min_eq_left (by linarith)
    | decr => rw [hk] at this; exact max_eq_left (by linarith)
    | none => rfl
  · have hlt := inGroup_lt h2.2
    have hin : InRange sizes (setc idx d (coord idx d - 1)) := inRange_setc hr (by omega)
    have := hw _ hin (by rw [coord_setc_same _ hl]; exact hlt)
    rw [coord_setc_same _ hl, setc_setc_same, show coord idx d - 1 + 1 = coord idx d by omega,
      setc_coord_self hl] at this
    cases hk : pairKind mono unimod (sizes.getD d 0) (coord idx d - 1) with
    | incr => rw [hk] at this; exact max_eq_left (by linarith)
    | decr => rw [hk] at this; exact min_eq_left (by linarith)
    | none => rfl
  · rfl


/-- `w` satisfies, on the box, every constraint `project_by_dykstra` projects onto for the
configuration `c` (monotone / unimodal pair directions, Edgeworth, trapezoid, monotonic dominance,
range dominance, joint monotonicity) -/
structure FeasibleD (c : DCfg) (w : W) : Prop where
  pairs : ∀ d, d < c.sizes.length → PairsOK c.sizes (c.mono.getD d false) (c.unimod.getD d 0) d w
  edge : ∀ tr ∈ c.edgeworth, EdgeOK c.sizes tr w
  trap : ∀ tr ∈ c.trapezoid, TrapOK c.sizes tr w
  mdom : ∀ p ∈ c.monoDom, MonoDomOK c.sizes p.1 p.2 w
  rdom : ∀ p ∈ c.rangeDom, RangeDomOK c.sizes p.1 p.2 w
  jmono : ∀ p ∈ c.jointMono, JointMonoOK c.sizes p.1 p.2 w

/-- **C08-T2 (all group kinds).** A feasible kernel is fixed on the box by EVERY group projection
the loop visits. (`hwf`: trapezoid trusts name two different dimensions of the lattice — what
`verify_hyperparameters` guarantees.) -/
theorem groups_fix (c : DCfg) (w : W) (hwf : ∀ tr ∈ c.trapezoid, TrustWF c.sizes tr) (hf : FeasibleD c w) :
    ∀ P ∈ groups c, AgreeOn c.sizes (P w) w := by
  intro P hP
  simp only [groups, List.mem_append, List.mem_flatMap, List.mem_range] at hP
  rcases hP with ((((hP | hP) | hP) | hP) | hP) | hP
  · obtain ⟨d, hd, hP⟩ := hP
    split_ifs at hP
    · cases hP
    · obtain ⟨g, _, rfl⟩ := List.mem_map.mp hP
      exact monoGroup_fix_pairs c.sizes _ _ d g hd w (hf.pairs d hd)
  · obtain ⟨tr, htr, hP⟩ := hP
    obtain ⟨g, _, rfl⟩ := List.mem_map.mp hP
    exact edgeworthGroup_fix c.sizes tr g.1 g.2 w (hf.edge tr htr)
  · obtain ⟨tr, htr, hP⟩ := hP
    obtain ⟨g, _, rfl⟩ := List.mem_map.mp hP
    exact trapezoidGroup_fix c.sizes tr g (hwf tr htr) w (hf.trap tr htr)
  · obtain ⟨p, hp, hP⟩ := hP
    obtain ⟨g, _, rfl⟩ := List.mem_map.mp hP
    exact monoDomGroup_fix c.sizes p.1 p.2 g.1 g.2.1 g.2.2 w (hf.mdom p hp)
  · obtain ⟨p, hp, i, hi, hP⟩ := hP
    obtain ⟨j, hj, rfl⟩ := List.mem_map.mp hP
    exact rangeDomGroup_fix c.sizes p.1 p.2 i j hi (List.mem_range.mp hj) w (hf.rdom p hp)
  · obtain ⟨p, hp, hP⟩ := hP
    obtain ⟨g, _, rfl⟩ := List.mem_map.mp hP
    exact jointMonoGroup_fix c.sizes p.1 p.2 g.1 g.2.1 g.2.2 w (hf.jmono p hp)

/-! ### T2 on the executable loop (`dykstraIterT` / `projectByDykstraT`, what the driver runs) -/

/-- **C08-T2, executable, whole state.** On a normalised table (`t = tabulate sizes t.get`; every
table the loop itself produces is) that every group map fixes on the box, the table loop returns
LITERALLY the same state — same table, all `last_change` tables zero — for every iteration count. -/
theorem dykstraT_fixpoint_state (sizes : List Nat) (ps : List (W → W)) (t : Table)
    (ht : t = tabulate sizes t.get) (h : ∀ P ∈ ps, AgreeOn sizes (P t.get) t.get) (n : Nat) :
    dykstraIterT sizes ps n (t, ps.map (fun _ => zeroT sizes)) = (t, ps.map (fun _ => zeroT sizes)) :=
  dykstraIterT_fix sizes ps t ht h n

/-- **C08-T2, executable.** If every group map of the configuration fixes the table's kernel on the
box, `project_by_dykstra` returns the same kernel values, for EVERY number of iterations and any
table representation (locality of all group maps is `groups_local`, not a hypothesis). -/
theorem projectByDykstraT_fixpoint (c : DCfg) (n : Nat) (t : Table)
    (h : ∀ P ∈ groups c, AgreeOn c.sizes (P t.get) t.get) :
    Table.vals c.sizes (projectByDykstraT c n t) = Table.vals c.sizes t := by
  unfold projectByDykstraT
  split_ifs
  · rfl
  · exact dykstraIterT_fix_any c.sizes (groups c) t (groups_local c) h n

/-- normalised table: the result is literally the input table -/
theorem projectByDykstraT_fixpoint_normal (c : DCfg) (n : Nat) (t : Table) (ht : t = tabulate c.sizes t.get)
    (h : ∀ P ∈ groups c, AgreeOn c.sizes (P t.get) t.get) : projectByDykstraT c n t = t := by
  unfold projectByDykstraT
  split_ifs
  · rfl
  · simp only [dykstraIterT_fix c.sizes (groups c) t ht h n]

/-- **C08-T2, executable, feasible ⇒ unchanged.** A kernel satisfying every constraint of the
configuration passes through the executable `project_by_dykstra` unchanged (values on the box),
for every iteration count. -/
theorem projectByDykstraT_feasible (c : DCfg) (n : Nat) (t : Table)
    (hwf : ∀ tr ∈ c.trapezoid, TrustWF c.sizes tr) (hf : FeasibleD c t.get) :
    Table.vals c.sizes (projectByDykstraT c n t) = Table.vals c.sizes t :=
  projectByDykstraT_fixpoint c n t (groups_fix c t.get hwf hf)

/-- **C08-T2, executable, projecting twice.** If the result of a run is fixed by every group map
(e.g. it is feasible), projecting it again — any iteration count — does not move it. -/
theorem projectByDykstraT_twice (c : DCfg) (n m : Nat) (t : Table)
    (h : ∀ P ∈ groups c, AgreeOn c.sizes (P (projectByDykstraT c n t).get) (projectByDykstraT c n t).get) :
    Table.vals c.sizes (projectByDykstraT c m (projectByDykstraT c n t))
      = Table.vals c.sizes (projectByDykstraT c n t) :=
  projectByDykstraT_fixpoint c m _ h

/-! ### T3 on the executable loop -/

theorem rsum_agreeL {sizes : List Nat} {ts : List Table} {cs : List W} (h : AgreeL sizes ts cs) {idx : Idx}
    (hr : InRange sizes idx) : rsum (ts.map (fun t => t.get idx)) = csum cs idx := by
  induction h with
  | nil => rfl
  | cons h _ ih => simp only [List.map_cons, rsum, csum] at ih ⊢; rw [h idx hr, ih]

theorem agreeL_refl (sizes : List Nat) (ts : List Table) : AgreeL sizes ts (ts.map Table.get) := by
  induction ts with
  | nil => exact List.Forall₂.nil
  | cons t ts ih => exact List.Forall₂.cons (AgreeOn.refl _ _) ih

/-- **C08-T3, executable.** For local group maps the table loop keeps `t − Σ_g last_change_g`
invariant on every vertex of the box, over any number of passes and from any state. -/
theorem dykstraIterT_telescoping (sizes : List Nat) (ps : List (W → W)) (hloc : ∀ P ∈ ps, Local sizes P)
    (n : Nat) (t : Table) (ts : List Table) (hl : ts.length = ps.length) (idx : Idx) (hr : InRange sizes idx) :
    (dykstraIterT sizes ps n (t, ts)).1.get idx
        - rsum ((dykstraIterT sizes ps n (t, ts)).2.map (fun c => c.get idx))
      = t.get idx - rsum (ts.map (fun c => c.get idx)) := by
  obtain ⟨h1, h2⟩ := dykstraIterT_agree sizes ps hloc n (AgreeOn.refl sizes t.get) (agreeL_refl sizes ts)
  rw [h1 idx hr, rsum_agreeL h2 hr, rsum_agreeL (agreeL_refl sizes ts) hr]
  exact dykstraIter_telescoping ps n t.get (ts.map Table.get) (by simpa using hl) idx

/-- **C08-T3 for `project_by_dykstra` itself**: with the real group schedule and the initial zero
`last_change` tables, after `n` passes `result − Σ_g last_change_g` is the input, on every vertex. -/
theorem projectByDykstraT_telescoping (c : DCfg) (n : Nat) (t : Table) (idx : Idx) (hr : InRange c.sizes idx) :
    (dykstraIterT c.sizes (groups c) n (t, (groups c).map (fun _ => zeroT c.sizes))).1.get idx
        - rsum ((dykstraIterT c.sizes (groups c) n (t, (groups c).map (fun _ => zeroT c.sizes))).2.map
            (fun l => l.get idx))
      = t.get idx := by
  rw [dykstraIterT_telescoping c.sizes (groups c) (groups_local c) n t _ (by simp) idx hr]
  have : rsum (((groups c).map (fun _ => zeroT c.sizes)).map (fun l => l.get idx)) = 0 := by
    generalize groups c = ps
    induction ps with
    | nil => rfl
    | cons P r ih =>
      have hz : (zeroT c.sizes).get idx = 0 := by simp only [zeroT, get_tabulate' _ hr]
      simp only [List.map_cons, rsum, ih, hz, add_zero]
  rw [this, sub_zero]

/-- the executable loop computes, on the box, exactly the function-level loop of the bookkeeping
theorems (model-internal tie, any iteration count) -/
theorem projectByDykstraT_agree (c : DCfg) (n : Nat) (t : Table) :
    AgreeOn c.sizes (dykstraIterT c.sizes (groups c) n (t, (groups c).map (fun _ => zeroT c.sizes))).1.get
      (dykstraIter (groups c) n (t.get, (groups c).map (fun _ => fun _ => 0))).1 :=
  (dykstraIterT_agree c.sizes (groups c) (groups_local c) n (AgreeOn.refl _ _) (agreeL_zero c.sizes _)).1


/-! ### non-vacuity of the executable statements -/

theorem agreeOn_of_map_eq {sizes : List Nat} {f g : W} (h : (allIdx sizes).map f = (allIdx sizes).map g) :
    AgreeOn sizes f g := fun idx hr => List.map_inj_left.mp h idx (mem_allIdx.mpr hr)

/-- 3×3 lattice (both group parities occur), monotone in dimension 0, Edgeworth trust of 0 conditional on 1 -/
def cEx : DCfg := { sizes := [3, 3], mono := [true, false], edgeworth := [⟨0, 1, true⟩] }
def tEx : Table := Table.ofVals [3, 3] [0, 0, 0, 1, 2, 3, 2, 4, 6]

example : (groups cEx).length = 6 := by decide +kernel
/-- every group of `cEx` fixes `tEx`, hence EVERY iteration count returns it unchanged -/
example (n : Nat) : Table.vals [3, 3] (projectByDykstraT cEx n tEx) = [0, 0, 0, 1, 2, 3, 2, 4, 6] := by
  have hall : (groups cEx).all (fun P =>
      decide ((allIdx [3, 3]).map (P tEx.get) = (allIdx [3, 3]).map tEx.get)) = true := by decide +kernel
  have h : ∀ P ∈ groups cEx, AgreeOn cEx.sizes (P tEx.get) tEx.get := fun P hP =>
    agreeOn_of_map_eq (of_decide_eq_true (List.all_eq_true.mp hall P hP))
  have := projectByDykstraT_fixpoint cEx n tEx h
  rw [show cEx.sizes = [3, 3] from rfl] at this
  rw [this]; decide +kernel
/-- an infeasible kernel IS moved by the same loop (the hypothesis is not vacuous) -/
example : Table.vals [3, 3] (projectByDykstraT cEx 1 (Table.ofVals [3, 3] [1, 0, 0, 0, 0, 0, 0, 0, 0]))
    = [1/2, 0, 0, 1/4, 0, 0, 1/4, 0, 0] := by decide +kernel
/-- `FeasibleD` is inhabited: the kernel `idx ↦ idx₀` on a monotone 1-D lattice -/
example : FeasibleD { sizes := [3], mono := [true] } (fun idx => (coord idx 0 : ℚ)) := by
  refine ⟨?_, by simp, by simp, by simp, by simp, by simp⟩
  intro d hd idx hr hlt
  have hd0 : d = 0 := by simpa using hd
  subst hd0
  have hl : 0 < idx.length := by rw [hr.1]; simp
  simp only [List.getD_cons_zero, pairKind, if_true, coord_setc_same _ hl]
  push_cast; linarith


end Tfl.C08
