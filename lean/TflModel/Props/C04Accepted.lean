import TflModel.Props.C04
import TflModel.Lemmas.VerifyPwl
/-!
# C04 for ACCEPTED configurations: `AllPos lengths` and `CfgOk` are discharged

Every theorem of Props/C04.lean assumes `AllPos L` (all piece lengths positive: the projections
divide by them — in ℚ the model would return `x / 0 = 0` where the real code returns NaN) and
`CfgOk c` (codes in {-1, 0, 1}, `output_min ≤ output_max`). Both are PROVED here for whatever the
constructor models accept (`Tfl.Verify.verifyPwl`, Model/Verify.lean, tied to the real
constructors by the tables of C16):

* the constraints class `PWLCalibrationConstraints(monotonicity, convexity, lengths, output_min,
  output_max)` — model `pwlConstraints`: list lengths are all positive since fix e215d06
  (`PWLCalibrationConstraints(convexity=1, lengths=[0, 0, 1])` was accepted and returned NaN:
  F-C16-aa);
* the layer `PWLCalibration(input_keypoints, …)` — model `pwlCalibration`: the lengths its `build()`
  hands to the constraint are the differences of the strictly increasing keypoints.

`PwlCfg.toProj` is the wiring of `PWLCalibration.build()` / of the constraint object:
`convert_all_constraints(output_min, output_max, clamp_min, clamp_max)` and the integer codes of the
canonical monotonicity / convexity. The first group of restated theorems has no hypothesis besides
acceptance and "the projection returned" (`projectAll … = .ok out`).

**Totality (second half of the file).** The projection of an accepted configuration raises in exactly
one case: a clamp is requested for a bound that is set while the monotonicity is `none` — the known
finding F-C16-m (accepted at construction, `ValueError("Clamping is not implemented for non monotonic
functions")` at the first projection). `ClampWithoutMono c clampMin clampMax` is that case, stated on
the accepted configuration; `constraints_returns_iff` / `layer_returns_iff` prove that the projection
returns **iff** it does not hold (and returns `.error .valueError` when it does), for every kernel
of the shape the layer builds, and the `*_total_*` theorems restate the clauses in the form
`∃ out, projectAll … = .ok out ∧ out.2.length = hs.length ∧ <clauses>`.
-/
namespace Tfl.C04
open Tfl Tfl.PwlProj Tfl.Verify

/-- the projection configuration an accepted validation result is wired to -/
def toProj (c : PwlCfg) (clampMin clampMax : Bool) : Cfg :=
  let r := convertAllConstraints c.lo c.hi clampMin clampMax
  ⟨monoOf c.mono, monoOf c.conv, r.1, r.2.1, r.2.2.1, r.2.2.2⟩

/-- **accepted ⇒ `CfgOk`** for every raw argument of `pwl_calibration_lib.verify_hyperparameters` -/
theorem accepted_cfgOk {kp omin omax mono conv cyc kpt lengths : Val} {c : PwlCfg}
    (h : verifyPwl kp omin omax mono conv cyc kpt lengths = .ok c) (clampMin clampMax : Bool) :
    CfgOk (toProj c clampMin clampMax) := by
  obtain ⟨_, _, hb, hm, hcv⟩ := verifyPwl_spec h
  exact wired_cfgOk (monoOf c.mono) (monoOf c.conv) hm hcv c.lo c.hi clampMin clampMax hb

/-- **accepted by `PWLCalibrationConstraints.__init__` ⇒ `AllPos lengths`** (list lengths) -/
theorem constraints_allPos (r : RawPwlC) (c : PwlCfg) (h : pwlConstraints r = .ok c) (L : List Rat)
    (hL : c.lengths = some L) : AllPos L :=
  (verifyPwl_spec h).2.1 L hL

/-- the lib part of an accepted layer configuration -/
theorem pwlCalibration_lib {r : RawPwl} {c : PwlCfg} (h : pwlCalibration r = .ok c) :
    verifyPwl r.kp r.omin r.omax r.mono r.conv r.cyclic r.kptype = .ok c := by
  simp only [pwlCalibration, bind, Except.bind] at h
  split at h
  · cases h
  · rename_i c' hc'
    split at h
    · cases h
    · split at h
      · cases h
      · split at h
        · cases h
        · split at h
          · cases h
          · split at h
            · cases h
            · split at h
              · cases h
              · simp only [pure, Except.pure, Except.ok.injEq] at h
                subst h; exact hc'

/-- **accepted by `PWLCalibration.__init__` ⇒ `AllPos`** of the piece lengths `k[i+1] - k[i]` the
layer's `build()` hands to its constraint -/
theorem layer_allPos (r : RawPwl) (c : PwlCfg) (h : pwlCalibration r = .ok c) (ks : List Rat)
    (hk : c.keypoints = some ks) : AllPos (pieceLengths ks) :=
  (verifyPwl_spec (pwlCalibration_lib h)).1 ks hk

/-- **C04 T1 + T3 for the constraints class, hypotheses discharged.** For every configuration
accepted by `PWLCalibrationConstraints.__init__` with list lengths `L`, every clamp wiring, every
kernel column `(b, hs)` and every iteration count: whenever the constraint returns, the heights
have the sign of the monotonicity exactly (the keypoint outputs are sorted) and every keypoint
output lies within the configured bounds. -/
theorem constraints_monotone_and_bounds (r : RawPwlC) (c : PwlCfg) (h : pwlConstraints r = .ok c)
    (L : List Rat) (hL : c.lengths = some L) (clampMin clampMax : Bool) (it : Nat) (b : Rat) (hs : List Rat)
    (out : Rat × List Rat) (hp : projectAll (toProj c clampMin clampMax) L it b hs = .ok out) :
    let cfg := toProj c clampMin clampMax
    ((cfg.mono = 1 → (∀ x ∈ out.2, 0 ≤ x) ∧ (outputs out.1 out.2).Pairwise (fun x y => x ≤ y)) ∧
     (cfg.mono = -1 → (∀ x ∈ out.2, x ≤ 0) ∧ (outputs out.1 out.2).Pairwise (fun x y => y ≤ x))) ∧
    (∀ y ∈ outputs out.1 out.2, (cfg.minC ≠ .none → cfg.omin ≤ y) ∧ (cfg.maxC ≠ .none → y ≤ cfg.omax)) := by
  intro cfg
  have hc := accepted_cfgOk h clampMin clampMax
  have hl := constraints_allPos r c h L hL
  exact ⟨monotone_exact cfg hc L hl it b hs out hp, bounds_hold cfg hc L hl it b hs out hp⟩

/-- **C04 T2 for the constraints class, hypotheses discharged**: with monotonicity, or with
convexity alone and no bounds, consecutive slopes `height / length` of the result are ordered
exactly — the statement that is FALSE of the real code (NaN) when a length is 0, which acceptance
now excludes. -/
theorem constraints_convex_exact (r : RawPwlC) (c : PwlCfg) (h : pwlConstraints r = .ok c)
    (L : List Rat) (hL : c.lengths = some L) (clampMin clampMax : Bool) (it : Nat) (b : Rat) (hs : List Rat)
    (out : Rat × List Rat) (hp : projectAll (toProj c clampMin clampMax) L it b hs = .ok out)
    (hcase : (toProj c clampMin clampMax).mono ≠ 0 ∨
      ((toProj c clampMin clampMax).minC = .none ∧ (toProj c clampMin clampMax).maxC = .none)) :
    out.2.length = hs.length ∧
    ((toProj c clampMin clampMax).conv = 1 → Slopes (fun a b => a ≤ b) out.2 L) ∧
    ((toProj c clampMin clampMax).conv = -1 → Slopes (fun a b => b ≤ a) out.2 L) :=
  convex_exact _ (accepted_cfgOk h clampMin clampMax) L (constraints_allPos r c h L hL) it b hs out hp hcase

/-- **C04 T1 + T2 + T3 for the layer, hypotheses discharged.** For every configuration accepted by
`PWLCalibration.__init__` (keypoints `ks`), the constraint its `build()` installs — lengths
`pieceLengths ks`, the layer's clamp flags — returns, whenever it returns, heights of the
configured sign, ordered slopes (in the cases of T2) and keypoint outputs within the bounds. -/
theorem layer_monotone_convex_bounds (r : RawPwl) (c : PwlCfg) (h : pwlCalibration r = .ok c)
    (ks : List Rat) (hk : c.keypoints = some ks) (it : Nat) (b : Rat) (hs : List Rat) (out : Rat × List Rat)
    (hp : projectAll (toProj c r.clampMin.truthy r.clampMax.truthy) (pieceLengths ks) it b hs = .ok out) :
    let cfg := toProj c r.clampMin.truthy r.clampMax.truthy
    ((cfg.mono = 1 → (∀ x ∈ out.2, 0 ≤ x) ∧ (outputs out.1 out.2).Pairwise (fun x y => x ≤ y)) ∧
     (cfg.mono = -1 → (∀ x ∈ out.2, x ≤ 0) ∧ (outputs out.1 out.2).Pairwise (fun x y => y ≤ x))) ∧
    (∀ y ∈ outputs out.1 out.2, (cfg.minC ≠ .none → cfg.omin ≤ y) ∧ (cfg.maxC ≠ .none → y ≤ cfg.omax)) ∧
    ((cfg.mono ≠ 0 ∨ (cfg.minC = .none ∧ cfg.maxC = .none)) →
      (cfg.conv = 1 → Slopes (fun a b => a ≤ b) out.2 (pieceLengths ks)) ∧
      (cfg.conv = -1 → Slopes (fun a b => b ≤ a) out.2 (pieceLengths ks))) := by
  intro cfg
  have hc := accepted_cfgOk (pwlCalibration_lib h) r.clampMin.truthy r.clampMax.truthy
  have hl := layer_allPos r c h ks hk
  exact ⟨monotone_exact cfg hc _ hl it b hs out hp, bounds_hold cfg hc _ hl it b hs out hp,
    fun hcase => (convex_exact cfg hc _ hl it b hs out hp hcase).2⟩

/-- **C04 T5 (feasible ⇒ unchanged) for the constraints class, hypotheses discharged** -/
theorem constraints_feasible_unchanged (r : RawPwlC) (c : PwlCfg) (h : pwlConstraints r = .ok c)
    (L : List Rat) (hL : c.lengths = some L) (clampMin clampMax : Bool) (it : Nat) (b : Rat) (hs : List Rat)
    (hlen : (toProj c clampMin clampMax).conv ≠ 0 → L.length = hs.length)
    (hmono : MonoOk (toProj c clampMin clampMax).mono hs) (hconv : ConvOk (toProj c clampMin clampMax).conv hs L)
    (hbnd : BoundsOk (toProj c clampMin clampMax) b hs) (hcl : ClampOk (toProj c clampMin clampMax) b hs) :
    projectAll (toProj c clampMin clampMax) L it b hs = .ok (b, hs) :=
  (feasible_unchanged _ (accepted_cfgOk h clampMin clampMax) L (constraints_allPos r c h L hL) it b hs hlen
    hmono hconv hbnd hcl).1

/-- non-vacuity / **F-C16-aa**: `PWLCalibrationConstraints(monotonicity=1, convexity=1,
lengths=[1, 2], output_min=0, output_max=1)` is accepted, wired to the increasing convex bounded
configuration, and its lengths are `[1, 2]`; with `lengths=[0, 0, 1]` the constructor rejects. -/
theorem accepted_example :
    let r : RawPwlC := ⟨.a (.int 1), .a (.int 1), .s false [.a (.flt 1), .a (.flt 2)], .a (.flt 0), .a (.flt 1)⟩
    (pwlConstraints r).toOption.map (fun c => (c.lengths, (toProj c false false).mono, (toProj c false false).conv))
      = some (some [1, 2], 1, 1) ∧
    outcome (pwlConstraints { r with lengths := .s false [.a (.flt 0), .a (.flt 0), .a (.flt 1)] }) = 1 := by
  decide +kernel

/-! ## totality: accepted ⇒ the projection returns, F-C16-m excluded explicitly -/

/-- **the F-C16-m case**, on an accepted configuration and the clamp flags of the call:
monotonicity `none` (code 0) and a clamp requested for a bound that is set
(`convert_all_constraints` ignores a clamp flag whose bound is `None`). -/
def ClampWithoutMono (c : PwlCfg) (clampMin clampMax : Bool) : Prop :=
  monoOf c.mono = 0 ∧ ((clampMin = true ∧ c.lo ≠ none) ∨ (clampMax = true ∧ c.hi ≠ none))

instance (c : PwlCfg) (a b : Bool) : Decidable (ClampWithoutMono c a b) := by
  unfold ClampWithoutMono; infer_instance

/-- `ClampWithoutMono` is exactly the negation of the projection-level condition `ClampNeedsMono` -/
theorem toProj_clampNeedsMono_iff (c : PwlCfg) (clampMin clampMax : Bool) :
    ClampNeedsMono (toProj c clampMin clampMax) ↔ ¬ ClampWithoutMono c clampMin clampMax := by
  unfold ClampNeedsMono ClampWithoutMono toProj
  cases hlo : c.lo <;> cases hhi : c.hi <;> cases clampMin <;> cases clampMax <;>
    simp [convertAllConstraints, convertConstraints]

/-- the raw form of the same condition for the layer: `clampRequested r` (Model/Verify.lean) -/
theorem clampWithoutMono_iff_clampRequested (r : RawPwl) (c : PwlCfg) (h : pwlCalibration r = .ok c) :
    ClampWithoutMono c r.clampMin.truthy r.clampMax.truthy ↔ (monoOf c.mono = 0 ∧ clampRequested r = true) := by
  obtain ⟨k, lo, hi, m, cv, ls, -, hlo, hhi, -, -, -, -, -, rfl⟩ := verifyPwl_inv (pwlCalibration_lib h)
  have key : ∀ (v : Val) (o : Option Rat), boundOf v = .ok o → (o ≠ none ↔ v.isNone = false) := by
    intro v o hv
    unfold boundOf at hv
    split at hv
    · cases hv; simp [Val.isNone]
    · rename_i x hx
      cases hn : x.toNum with
      | error e => rw [hn] at hv; cases hv
      | ok q =>
        rw [hn] at hv; cases hv
        cases x <;> simp [Val.isNone] at hx ⊢
    · cases hv
  unfold ClampWithoutMono clampRequested
  simp only [key _ _ hlo, key _ _ hhi]
  cases r.clampMin.truthy <;> cases r.clampMax.truthy <;> cases r.omin.isNone <;> cases r.omax.isNone <;> simp

/-- **F-C16-m, proved as the only failure** (constraints class, list lengths `L`, kernel column with
one height per length): the projection returns **iff** no clamp is requested without monotonicity;
otherwise it is `ValueError`, for every kernel and iteration count. -/
theorem constraints_returns_iff (r : RawPwlC) (c : PwlCfg) (h : pwlConstraints r = .ok c)
    (L : List Rat) (clampMin clampMax : Bool) (it : Nat) (b : Rat) (hs : List Rat) (hshape : hs.length = L.length) :
    ((∃ out, projectAll (toProj c clampMin clampMax) L it b hs = .ok out) ↔ ¬ ClampWithoutMono c clampMin clampMax) ∧
    (ClampWithoutMono c clampMin clampMax → projectAll (toProj c clampMin clampMax) L it b hs = .error .valueError) := by
  have hc := accepted_cfgOk h clampMin clampMax
  refine ⟨?_, fun hcw => ?_⟩
  · rw [← toProj_clampNeedsMono_iff]
    exact projectAll_ok_iff _ hc L it b hs (fun _ _ => hshape.symm)
  · by_contra hne
    have : ¬ ClampNeedsMono (toProj c clampMin clampMax) := by
      rw [toProj_clampNeedsMono_iff]; exact fun hn => hn hcw
    apply this
    intro hm
    constructor <;> intro e
    · exact hne (projectAll_clamp_without_mono _ hm (Or.inl e) L it b hs)
    · exact hne (projectAll_clamp_without_mono _ hm (Or.inr e) L it b hs)

/-- **C04 T1 + T3 for the constraints class, total form.** For every configuration accepted by
`PWLCalibrationConstraints.__init__` with list lengths `L`, every clamp wiring that is not the F-C16-m
case, every kernel column `(b, hs)` with one height per length and every iteration count, the
constraint RETURNS a column of the same shape whose heights have the sign of the monotonicity exactly
and whose keypoint outputs all lie within the configured bounds. -/
theorem constraints_total_monotone_and_bounds (r : RawPwlC) (c : PwlCfg) (h : pwlConstraints r = .ok c)
    (L : List Rat) (hL : c.lengths = some L) (clampMin clampMax : Bool)
    (hfm : ¬ ClampWithoutMono c clampMin clampMax) (it : Nat) (b : Rat) (hs : List Rat)
    (hshape : hs.length = L.length) :
    let cfg := toProj c clampMin clampMax
    ∃ out, projectAll cfg L it b hs = .ok out ∧ out.2.length = hs.length ∧
    ((cfg.mono = 1 → (∀ x ∈ out.2, 0 ≤ x) ∧ (outputs out.1 out.2).Pairwise (fun x y => x ≤ y)) ∧
     (cfg.mono = -1 → (∀ x ∈ out.2, x ≤ 0) ∧ (outputs out.1 out.2).Pairwise (fun x y => y ≤ x))) ∧
    (∀ y ∈ outputs out.1 out.2, (cfg.minC ≠ .none → cfg.omin ≤ y) ∧ (cfg.maxC ≠ .none → y ≤ cfg.omax)) := by
  intro cfg
  obtain ⟨out, hp⟩ := ((constraints_returns_iff r c h L clampMin clampMax it b hs hshape).1).mpr hfm
  have hc := accepted_cfgOk h clampMin clampMax
  have hl := constraints_allPos r c h L hL
  have hr := constraints_monotone_and_bounds r c h L hL clampMin clampMax it b hs out hp
  exact ⟨out, hp, (projectAll_spec _ hc L hl it b hs out hp).1, hr.1, hr.2⟩

/-- **C04 T2 for the constraints class, total form** (monotonicity set, or convexity alone without
bounds): the constraint returns and consecutive slopes `height / length` are ordered exactly. -/
theorem constraints_total_convex_exact (r : RawPwlC) (c : PwlCfg) (h : pwlConstraints r = .ok c)
    (L : List Rat) (hL : c.lengths = some L) (clampMin clampMax : Bool)
    (hfm : ¬ ClampWithoutMono c clampMin clampMax) (it : Nat) (b : Rat) (hs : List Rat)
    (hshape : hs.length = L.length)
    (hcase : (toProj c clampMin clampMax).mono ≠ 0 ∨
      ((toProj c clampMin clampMax).minC = .none ∧ (toProj c clampMin clampMax).maxC = .none)) :
    ∃ out, projectAll (toProj c clampMin clampMax) L it b hs = .ok out ∧ out.2.length = hs.length ∧
    ((toProj c clampMin clampMax).conv = 1 → Slopes (fun a b => a ≤ b) out.2 L) ∧
    ((toProj c clampMin clampMax).conv = -1 → Slopes (fun a b => b ≤ a) out.2 L) := by
  obtain ⟨out, hp⟩ := ((constraints_returns_iff r c h L clampMin clampMax it b hs hshape).1).mpr hfm
  exact ⟨out, hp, constraints_convex_exact r c h L hL clampMin clampMax it b hs out hp hcase⟩

/-- the kernel column `build()` creates for keypoints `ks`: `len(ks) - is_cyclic` rows, i.e. one
bias and `len(ks) - 1 - is_cyclic` heights -/
def BuiltShape (c : PwlCfg) (ks hs : List Rat) : Prop :=
  hs.length + 1 + (if c.cyclic then 1 else 0) = ks.length

/-- the lengths of the layer match the kernel whenever the convexity projection reads them
(`is_cyclic` is accepted only with convexity `none`) -/
theorem layer_lengths_match (r : RawPwl) (c : PwlCfg) (h : pwlCalibration r = .ok c) (ks hs : List Rat)
    (hsh : BuiltShape c ks hs) (clampMin clampMax : Bool) :
    (toProj c clampMin clampMax).conv ≠ 0 → 2 ≤ hs.length → (pieceLengths ks).length = hs.length := by
  intro hcv _
  rw [length_pieceLengths]
  unfold BuiltShape at hsh
  by_cases hcy : c.cyclic = true
  · exact absurd (verifyPwl_cyclic (pwlCalibration_lib h) hcy).2 hcv
  · simp only [hcy] at hsh
    have : (if false = true then 1 else 0) = 0 := rfl
    simp at hsh
    omega

/-- **F-C16-m, proved as the only failure of the layer's constraint.** For every configuration accepted
by `PWLCalibration.__init__` (keypoints `ks`) and every kernel column of the shape `build()` creates,
the installed constraint returns **iff** the layer does not request a clamp without monotonicity
(`clampRequested r` with monotonicity `none`); in that case it is `ValueError` for every kernel. -/
theorem layer_returns_iff (r : RawPwl) (c : PwlCfg) (h : pwlCalibration r = .ok c) (ks : List Rat)
    (it : Nat) (b : Rat) (hs : List Rat) (hsh : BuiltShape c ks hs) :
    let cfg := toProj c r.clampMin.truthy r.clampMax.truthy
    ((∃ out, projectAll cfg (pieceLengths ks) it b hs = .ok out) ↔
        ¬ (monoOf c.mono = 0 ∧ clampRequested r = true)) ∧
    ((monoOf c.mono = 0 ∧ clampRequested r = true) →
        projectAll cfg (pieceLengths ks) it b hs = .error .valueError) := by
  intro cfg
  have hc := accepted_cfgOk (pwlCalibration_lib h) r.clampMin.truthy r.clampMax.truthy
  rw [← clampWithoutMono_iff_clampRequested r c h]
  refine ⟨?_, fun hcw => ?_⟩
  · rw [← toProj_clampNeedsMono_iff]
    exact projectAll_ok_iff _ hc _ it b hs (layer_lengths_match r c h ks hs hsh _ _)
  · by_contra hne
    have : ¬ ClampNeedsMono cfg := by
      rw [toProj_clampNeedsMono_iff]; exact fun hn => hn hcw
    apply this
    intro hm
    constructor <;> intro e
    · exact hne (projectAll_clamp_without_mono _ hm (Or.inl e) _ it b hs)
    · exact hne (projectAll_clamp_without_mono _ hm (Or.inr e) _ it b hs)

/-- **C04 T1 + T2 + T3 for the layer, total form.** For every configuration accepted by
`PWLCalibration.__init__` that is not the F-C16-m case, every kernel column of the built shape and
every iteration count, the constraint `build()` installs RETURNS a column of the same shape with
heights of the configured sign, keypoint outputs within the bounds and (in the cases of T2) ordered
slopes. -/
theorem layer_total_monotone_convex_bounds (r : RawPwl) (c : PwlCfg) (h : pwlCalibration r = .ok c)
    (ks : List Rat) (hk : c.keypoints = some ks)
    (hfm : ¬ (monoOf c.mono = 0 ∧ clampRequested r = true)) (it : Nat) (b : Rat) (hs : List Rat)
    (hsh : BuiltShape c ks hs) :
    let cfg := toProj c r.clampMin.truthy r.clampMax.truthy
    ∃ out, projectAll cfg (pieceLengths ks) it b hs = .ok out ∧ out.2.length = hs.length ∧
    ((cfg.mono = 1 → (∀ x ∈ out.2, 0 ≤ x) ∧ (outputs out.1 out.2).Pairwise (fun x y => x ≤ y)) ∧
     (cfg.mono = -1 → (∀ x ∈ out.2, x ≤ 0) ∧ (outputs out.1 out.2).Pairwise (fun x y => y ≤ x))) ∧
    (∀ y ∈ outputs out.1 out.2, (cfg.minC ≠ .none → cfg.omin ≤ y) ∧ (cfg.maxC ≠ .none → y ≤ cfg.omax)) ∧
    ((cfg.mono ≠ 0 ∨ (cfg.minC = .none ∧ cfg.maxC = .none)) →
      (cfg.conv = 1 → Slopes (fun a b => a ≤ b) out.2 (pieceLengths ks)) ∧
      (cfg.conv = -1 → Slopes (fun a b => b ≤ a) out.2 (pieceLengths ks))) := by
  intro cfg
  obtain ⟨out, hp⟩ := ((layer_returns_iff r c h ks it b hs hsh).1).mpr hfm
  have hc := accepted_cfgOk (pwlCalibration_lib h) r.clampMin.truthy r.clampMax.truthy
  have hl := layer_allPos r c h ks hk
  have hr := layer_monotone_convex_bounds r c h ks hk it b hs out hp
  exact ⟨out, hp, (projectAll_spec _ hc _ hl it b hs out hp).1, hr.1, hr.2.1, hr.2.2⟩

/-- **C04 T4 (clamps hit exactly) for the layer, total form.** Accepted layer with monotonicity and
without convexity, iterations ≥ 1, any kernel of the built shape: the constraint returns and a clamped
bound is attained — it is one of the keypoint outputs and no output lies beyond it. -/
theorem layer_total_clamp_hit (r : RawPwl) (c : PwlCfg) (h : pwlCalibration r = .ok c)
    (ks : List Rat) (hk : c.keypoints = some ks) (it : Nat) (hit : 1 ≤ it) (b : Rat) (hs : List Rat)
    (hsh : BuiltShape c ks hs)
    (hm : (toProj c r.clampMin.truthy r.clampMax.truthy).mono ≠ 0)
    (hcv : (toProj c r.clampMin.truthy r.clampMax.truthy).conv = 0) :
    let cfg := toProj c r.clampMin.truthy r.clampMax.truthy
    ∃ out, projectAll cfg (pieceLengths ks) it b hs = .ok out ∧
    (cfg.minC = .clamped → cfg.omin ∈ outputs out.1 out.2 ∧ ∀ y ∈ outputs out.1 out.2, cfg.omin ≤ y) ∧
    (cfg.maxC = .clamped → cfg.omax ∈ outputs out.1 out.2 ∧ ∀ y ∈ outputs out.1 out.2, y ≤ cfg.omax) := by
  intro cfg
  have hfm : ¬ (monoOf c.mono = 0 ∧ clampRequested r = true) := fun hh => hm hh.1
  obtain ⟨out, hp⟩ := ((layer_returns_iff r c h ks it b hs hsh).1).mpr hfm
  have hc := accepted_cfgOk (pwlCalibration_lib h) r.clampMin.truthy r.clampMax.truthy
  have hl := layer_allPos r c h ks hk
  have hne : hs ≠ [] := by
    have h2 := (verifyPwl_keypoints (pwlCalibration_lib h) ks hk).1
    have hcy : c.cyclic = false := by
      by_contra hcy
      have : c.cyclic = true := by simpa using hcy
      exact hm (verifyPwl_cyclic (pwlCalibration_lib h) this).1
    unfold BuiltShape at hsh
    simp only [hcy] at hsh
    intro e
    rw [e] at hsh
    simp at hsh
    omega
  exact ⟨out, hp, clamp_hit_min_max cfg hc hcv hm _ hl it hit b hs hne out hp⟩

/-- **a fixed `missing_output_value` outside the bounds is ACCEPTED** (by design, not a finding):
`PWLCalibration(input_keypoints=[0, 1, 3], output_min=0, output_max=1, monotonicity='increasing',
impute_missing=True, missing_input_value=-1, missing_output_value=5)` passes the constructor model — it
never compares `missing_output_value` with the bounds — and the imputed output is 5
(`missing_output_fixed_is_value`). So "within the bounds" cannot be claimed for fixed values from
acceptance; without `impute_missing` the same argument is rejected. -/
theorem fixed_missing_output_accepted :
    let r : RawPwl := ⟨.s false [.a (.flt 0), .a (.flt 1), .a (.flt 3)], .a (.flt 0), .a (.flt 1), .a (.int 1),
      .a (.str .none_), .a (.int 0), .a (.int 1), .a (.flt (-1)), .a (.flt 5), .a (.str .fixed), .a (.int 0), .a (.int 0),
      .a (.str .other)⟩
    outcome (pwlCalibration r) = 0 ∧ missingOutputOf (some 5) (some 0) (some 1) 0 = 5 ∧
    outcome (pwlCalibration { r with impute := .a (.int 0) }) = 1 := by
  decide +kernel

/-- non-vacuity of the totality statements and **F-C16-m reproduced**: `PWLCalibration(input_keypoints=
[0, 1, 3], output_min=0, output_max=2, monotonicity=…, clamp_min=True)` — accepted for both
monotonicities; with `'increasing'` the projection of the kernel `[5, -1, 4]` returns `[0, 0, 2]`
(clamp met, bounds met), with `'none'` it is the `ValueError` of the finding. -/
theorem totality_example :
    let base : RawPwl := ⟨.s false [.a (.flt 0), .a (.flt 1), .a (.flt 3)], .a (.flt 0), .a (.flt 2), .a (.int 0),
      .a (.str .none_), .a (.int 0), .a (.int 0), .a .none, .a .none, .a (.str .fixed), .a (.int 1), .a (.int 0),
      .a (.str .other)⟩
    let inc : RawPwl := { base with mono := .a (.str .increasing) }
    (pwlCalibration inc).toOption.map (fun c =>
      projectAll (toProj c inc.clampMin.truthy inc.clampMax.truthy) (pieceLengths [0, 1, 3]) 8 5 [-1, 4])
        = some (.ok (0, [0, 2])) ∧
    (pwlCalibration base).toOption.map (fun c => (decide (monoOf c.mono = 0), clampRequested base,
      projectAll (toProj c base.clampMin.truthy base.clampMax.truthy) (pieceLengths [0, 1, 3]) 8 5 [-1, 4]))
        = some (true, true, .error .valueError) ∧
    outcome (pwlCalibration inc) = 0 ∧ outcome (pwlCalibration base) = 0 := by
  decide +kernel

end Tfl.C04
