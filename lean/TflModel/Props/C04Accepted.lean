import TflModel.Props.C04
import TflModel.Lemmas.VerifyPwl
/-!
# C04 for ACCEPTED configurations: `AllPos lengths` and `CfgOk` are discharged

Every theorem of Props/C04.lean assumes `AllPos L` (all piece lengths positive: the projections
divide by them — in ℚ the model would return `x / 0 = 0` where the real code returns NaN) and
`CfgOk c` (codes in {-1, 0, 1}, `output_min ≤ output_max`). Both are PROVED here for whatever the
constructor models accept (`Tfl.Verify.verifyPwl`, Model/Verify.lean, tied to the real
constructors by the tables of C16):

* the constraints class `PWLCalibrationConstraints(monotonicity, convexity, lengths, output_min,
  output_max)` — model `pwlConstraints`: list lengths are all positive since fix e215d06
  (`PWLCalibrationConstraints(convexity=1, lengths=[0, 0, 1])` was accepted and returned NaN:
  F-C16-aa);
* the layer `PWLCalibration(input_keypoints, …)` — model `pwlCalibration`: the lengths its `build()`
  hands to the constraint are the differences of the strictly increasing keypoints.

`PwlCfg.toProj` is the wiring of `PWLCalibration.build()` / of the constraint object:
`convert_all_constraints(output_min, output_max, clamp_min, clamp_max)` and the integer codes of the
canonical monotonicity / convexity. The restated theorems have no hypothesis besides acceptance
and "the projection returned" (`projectAll … = .ok out`; it raises only for clamps without
monotonicity, finding F-C16-m).
-/
namespace Tfl.C04
open Tfl Tfl.PwlProj Tfl.Verify

/-- the projection configuration an accepted validation result is wired to -/
def toProj (c : PwlCfg) (clampMin clampMax : Bool) : Cfg :=
  let r := convertAllConstraints c.lo c.hi clampMin clampMax
  ⟨monoOf c.mono, monoOf c.conv, r.1, r.2.1, r.2.2.1, r.2.2.2⟩

/-- **accepted ⇒ `CfgOk`** for every raw argument of `pwl_calibration_lib.verify_hyperparameters` -/
theorem accepted_cfgOk {kp omin omax mono conv cyc kpt lengths : Val} {c : PwlCfg}
    (h : verifyPwl kp omin omax mono conv cyc kpt lengths = .ok c) (clampMin clampMax : Bool) :
    CfgOk (toProj c clampMin clampMax) := by
  obtain ⟨_, _, hb, hm, hcv⟩ := verifyPwl_spec h
  exact wired_cfgOk (monoOf c.mono) (monoOf c.conv) hm hcv c.lo c.hi clampMin clampMax hb

/-- **accepted by `PWLCalibrationConstraints.__init__` ⇒ `AllPos lengths`** (list lengths) -/
theorem constraints_allPos (r : RawPwlC) (c : PwlCfg) (h : pwlConstraints r = .ok c) (L : List Rat)
    (hL : c.lengths = some L) : AllPos L :=
  (verifyPwl_spec h).2.1 L hL

/-- the lib part of an accepted layer configuration -/
theorem pwlCalibration_lib {r : RawPwl} {c : PwlCfg} (h : pwlCalibration r = .ok c) :
    verifyPwl r.kp r.omin r.omax r.mono r.conv r.cyclic r.kptype = .ok c := by
  simp only [pwlCalibration, bind, Except.bind] at h
  split at h
  · cases h
  · rename_i c' hc'
    split at h
    · cases h
    · split at h
      · cases h
      · split at h
        · cases h
        · split at h
          · cases h
          · split at h
            · cases h
            · split at h
              · cases h
              · simp only [pure, Except.pure, Except.ok.injEq] at h
                subst h; exact hc'

/-- **accepted by `PWLCalibration.__init__` ⇒ `AllPos`** of the piece lengths `k[i+1] - k[i]` the
layer's `build()` hands to its constraint -/
theorem layer_allPos (r : RawPwl) (c : PwlCfg) (h : pwlCalibration r = .ok c) (ks : List Rat)
    (hk : c.keypoints = some ks) : AllPos (pieceLengths ks) :=
  (verifyPwl_spec (pwlCalibration_lib h)).1 ks hk

/-- **C04 T1 + T3 for the constraints class, hypotheses discharged.** For every configuration
accepted by `PWLCalibrationConstraints.__init__` with list lengths `L`, every clamp wiring, every
kernel column `(b, hs)` and every iteration count: whenever the constraint returns, the heights
have the sign of the monotonicity exactly (the keypoint outputs are sorted) and every keypoint
output lies within the configured bounds. -/
theorem constraints_monotone_and_bounds (r : RawPwlC) (c : PwlCfg) (h : pwlConstraints r = .ok c)
    (L : List Rat) (hL : c.lengths = some L) (clampMin clampMax : Bool) (it : Nat) (b : Rat) (hs : List Rat)
    (out : Rat × List Rat) (hp : projectAll (toProj c clampMin clampMax) L it b hs = .ok out) :
    let cfg := toProj c clampMin clampMax
    ((cfg.mono = 1 → (∀ x ∈ out.2, 0 ≤ x) ∧ (outputs out.1 out.2).Pairwise (fun x y => x ≤ y)) ∧
     (cfg.mono = -1 → (∀ x ∈ out.2, x ≤ 0) ∧ (outputs out.1 out.2).Pairwise (fun x y => y ≤ x))) ∧
    (∀ y ∈ outputs out.1 out.2, (cfg.minC ≠ .none → cfg.omin ≤ y) ∧ (cfg.maxC ≠ .none → y ≤ cfg.omax)) := by
  intro cfg
  have hc := accepted_cfgOk h clampMin clampMax
  have hl := constraints_allPos r c h L hL
  exact ⟨monotone_exact cfg hc L hl it b hs out hp, bounds_hold cfg hc L hl it b hs out hp⟩

/-- **C04 T2 for the constraints class, hypotheses discharged**: with monotonicity, or with
convexity alone and no bounds, consecutive slopes `height / length` of the result are ordered
exactly — the statement that is FALSE of the real code (NaN) when a length is 0, which acceptance
now excludes. -/
theorem constraints_convex_exact (r : RawPwlC) (c : PwlCfg) (h : pwlConstraints r = .ok c)
    (L : List Rat) (hL : c.lengths = some L) (clampMin clampMax : Bool) (it : Nat) (b : Rat) (hs : List Rat)
    (out : Rat × List Rat) (hp : projectAll (toProj c clampMin clampMax) L it b hs = .ok out)
    (hcase : (toProj c clampMin clampMax).mono ≠ 0 ∨
      ((toProj c clampMin clampMax).minC = .none ∧ (toProj c clampMin clampMax).maxC = .none)) :
    out.2.length = hs.length ∧
    ((toProj c clampMin clampMax).conv = 1 → Slopes (fun a b => a ≤ b) out.2 L) ∧
    ((toProj c clampMin clampMax).conv = -1 → Slopes (fun a b => b ≤ a) out.2 L) :=
  convex_exact _ (accepted_cfgOk h clampMin clampMax) L (constraints_allPos r c h L hL) it b hs out hp hcase

/-- **C04 T1 + T2 + T3 for the layer, hypotheses discharged.** For every configuration accepted by
`PWLCalibration.__init__` (keypoints `ks`), the constraint its `build()` installs — lengths
`pieceLengths ks`, the layer's clamp flags — returns, whenever it returns, heights of the
configured sign, ordered slopes (in the cases of T2) and keypoint outputs within the bounds. -/
theorem layer_monotone_convex_bounds (r : RawPwl) (c : PwlCfg) (h : pwlCalibration r = .ok c)
    (ks : List Rat) (hk : c.keypoints = some ks) (it : Nat) (b : Rat) (hs : List Rat) (out : Rat × List Rat)
    (hp : projectAll (toProj c r.clampMin.truthy r.clampMax.truthy) (pieceLengths ks) it b hs = .ok out) :
    let cfg := toProj c r.clampMin.truthy r.clampMax.truthy
    ((cfg.mono = 1 → (∀ x ∈ out.2, 0 ≤ x) ∧ (outputs out.1 out.2).Pairwise (fun x y => x ≤ y)) ∧
     (cfg.mono = -1 → (∀ x ∈ out.2, x ≤ 0) ∧ (outputs out.1 out.2).Pairwise (fun x y => y ≤ x))) ∧
    (∀ y ∈ outputs out.1 out.2, (cfg.minC ≠ .none → cfg.omin ≤ y) ∧ (cfg.maxC ≠ .none → y ≤ cfg.omax)) ∧
    ((cfg.mono ≠ 0 ∨ (cfg.minC = .none ∧ cfg.maxC = .none)) →
      (cfg.conv = 1 → Slopes (fun a b => a ≤ b) out.2 (pieceLengths ks)) ∧
      (cfg.conv = -1 → Slopes (fun a b => b ≤ a) out.2 (pieceLengths ks))) := by
  intro cfg
  have hc := accepted_cfgOk (pwlCalibration_lib h) r.clampMin.truthy r.clampMax.truthy
  have hl := layer_allPos r c h ks hk
  exact ⟨monotone_exact cfg hc _ hl it b hs out hp, bounds_hold cfg hc _ hl it b hs out hp,
    fun hcase => (convex_exact cfg hc _ hl it b hs out hp hcase).2⟩

/-- **C04 T5 (feasible ⇒ unchanged) for the constraints class, hypotheses discharged** -/
theorem constraints_feasible_unchanged (r : RawPwlC) (c : PwlCfg) (h : pwlConstraints r = .ok c)
    (L : List Rat) (hL : c.lengths = some L) (clampMin clampMax : Bool) (it : Nat) (b : Rat) (hs : List Rat)
    (hlen : (toProj c clampMin clampMax).conv ≠ 0 → L.length = hs.length)
    (hmono : MonoOk (toProj c clampMin clampMax).mono hs) (hconv : ConvOk (toProj c clampMin clampMax).conv hs L)
    (hbnd : BoundsOk (toProj c clampMin clampMax) b hs) (hcl : ClampOk (toProj c clampMin clampMax) b hs) :
    projectAll (toProj c clampMin clampMax) L it b hs = .ok (b, hs) :=
  (feasible_unchanged _ (accepted_cfgOk h clampMin clampMax) L (constraints_allPos r c h L hL) it b hs hlen
    hmono hconv hbnd hcl).1

/-- non-vacuity / **F-C16-aa**: `PWLCalibrationConstraints(monotonicity=1, convexity=1,
lengths=[1, 2], output_min=0, output_max=1)` is accepted, wired to the increasing convex bounded
configuration, and its lengths are `[1, 2]`; with `lengths=[0, 0, 1]` the constructor rejects. -/
theorem accepted_example :
    let r : RawPwlC := ⟨.a (.int 1), .a (.int 1), .s false [.a (.flt 1), .a (.flt 2)], .a (.flt 0), .a (.flt 1)⟩
    (pwlConstraints r).toOption.map (fun c => (c.lengths, (toProj c false false).mono, (toProj c false false).conv))
      = some (some [1, 2], 1, 1) ∧
    outcome (pwlConstraints { r with lengths := .s false [.a (.flt 0), .a (.flt 0), .a (.flt 1)] }) = 1 := by
  decide +kernel

end Tfl.C04
