import TflModel.Props.C11
import TflModel.Model.Alt
/-!
# C11 (continued): layers whose structure is derived from a seed

Audit row 7.  `rtl_structure_deterministic` / `random_ensemble_deterministic` of Props/C11.lean are
congruences (equal arguments give equal results: true of any function).  What the property asks is
about a REBUILD: the layer rebuilt from `get_config()` runs `_get_rtl_structure` AGAIN, at another
time, in another state of the process; it must arrive at the same structure, and then — given the
original weights — at the same outputs.

Model.  `RTL.get_config()` stores `num_lattices`, `lattice_rank`, `avoid_intragroup_interaction` and
`random_seed` (`RtlStored`).  `_get_rtl_structure` (rtl_layer.py:509-628) creates
`np.random.RandomState(self.random_seed)` and shuffles twice.  For an INTEGER seed the generator is a
fixed function of the seed: `perm s n total` are the permutations its two `shuffle` calls apply to a
list of `n` and then of `total` elements — an uninterpreted but FIXED function parameter of the
theorems.  For `random_seed=None` NumPy seeds the generator from the operating system: the two
permutations are an INPUT of each build (`ext`, the state of the world), not a function of anything
stored.

* `rtl_rebuild_structure`: for a stored config with `seed = some s` the structure is a function of
  (stored config, input shapes): it does not depend on the state of the world at the build — so the
  original layer and the rebuilt one have the same structure.
* `rtl_rebuild_outputs`: hence, with the original weights (the same lattice layer per group),
  `RTL.call` (model `Tfl.Alt.rtlCall`) returns identical outputs on every input.
* `rtl_seed_none_not_a_function` (finding F-C11-i): for `seed = none` there are two builds of the SAME
  stored config on the same input shapes with different structures, and with the same weights
  different outputs: the hypothesis `seed = some s` cannot be dropped.  The real code agreed until
  fix 3372acf (`RTL(random_seed=None)` rebuilt from its config had an equal config and a different
  `_rtl_structure`); since then the constructor draws and STORES a concrete seed, so every stored
  config has `seed = some s` (harness stream `structure`, clause `outputs_equal`, arg `random_seed=None`).
* random ensembles (`lattices='random'`): `set_random_lattice_ensemble` WRITES the drawn structure
  into `model_config.lattices`, which `get_config` stores — the rebuilt model reads the stored list
  and does not draw again, whatever the seed (no theorem needed: it is the `lattices` row of the
  key table, `table_rows_ok`); the seed only matters for two SEPARATE calls of the setter
  (`random_ensemble_deterministic`, a congruence).  The harness compares both.
-/
namespace Tfl.C11
open Tfl Tfl.Configs Tfl.Ensembles

variable {Seed : Type}

/-- what `RTL.get_config()` stores of the inputs of `_get_rtl_structure` -/
structure RtlStored (Seed : Type) where
  numLattices : Nat
  rank : Nat
  avoid : Bool
  /-- `random_seed`: an integer, or `None` -/
  seed : Option Seed
  deriving DecidableEq

/-- the two shuffles of ONE build.  `perm s n total`: what `np.random.RandomState(s)` does — a fixed
function of the integer seed `s` and of the lengths of the two shuffled lists.  `ext`: the draws of a
generator seeded from the operating system (`random_seed=None`), an input of the build. -/
def rtlPerms (perm : Seed → Nat → Nat → List Nat × List Nat) (c : RtlStored Seed) (n : Nat)
    (ext : List Nat × List Nat) : List Nat × List Nat :=
  match c.seed with
  | some s => perm s n (c.numLattices * c.rank)
  | none => ext

/-- `_get_rtl_structure` of a layer with the stored config `c`, built on inputs with the group sizes
`inc` / `unc`, in a state of the world `ext` -/
def rtlBuild (perm : Seed → Nat → Nat → List Nat × List Nat) (c : RtlStored Seed) (inc unc : List Nat)
    (ext : List Nat × List Nat) : Except Err (Structure × Bool) :=
  let p := rtlPerms perm c (rtlInputs inc unc).length ext
  rtlStructureOf inc unc c.numLattices c.rank c.avoid p.1 p.2

/-- **C11-T3 (RTL, rebuild).** With an integer `random_seed` the structure is a function of the
stored config and the input shapes ALONE: whatever the generator `perm`, the original build (state of
the world `ext`) and the build of a layer reconstructed from an equal config (state `ext'`) give the
same structure. -/
theorem rtl_rebuild_structure (perm : Seed → Nat → Nat → List Nat × List Nat) (c c' : RtlStored Seed)
    (hcfg : c' = c) (s : Seed) (hs : c.seed = some s) (inc unc : List Nat) (ext ext' : List Nat × List Nat) :
    rtlBuild perm c' inc unc ext' = rtlBuild perm c inc unc ext := by
  subst hcfg
  simp only [rtlBuild, rtlPerms, hs]

/-- the forward pass of a built RTL layer (`separate_outputs=False`): the groups of its structure,
group `i` feeding the lattice layer `lattices i` — the layer's weights — through `Tfl.Alt.rtlCall` -/
def rtlForward (st : Structure) (lattices : Nat → List (List Rat) → Except Err (List Rat)) (average : Bool)
    (x : List Rat) : Except Err (List Rat) :=
  Tfl.Alt.rtlCall (st.zipIdx.map (fun g => ⟨g.1.1, g.1.2, lattices g.2⟩)) average x

/-- what a layer with stored config `c`, built in the state `ext` and holding the weights `lattices`,
computes on `x` (`none`-like errors of the build are passed on) -/
def rtlLayerOutput (perm : Seed → Nat → Nat → List Nat × List Nat) (c : RtlStored Seed) (inc unc : List Nat)
    (ext : List Nat × List Nat) (lattices : Nat → List (List Rat) → Except Err (List Rat)) (average : Bool)
    (x : List Rat) : Except Err (List Rat) :=
  match rtlBuild perm c inc unc ext with
  | .ok st => rtlForward st.1 lattices average x
  | .error e => .error e

/-- **C11 (RTL, rebuilt layer with the original weights computes identical outputs).** For every
stored config with an integer seed, every generator, every pair of build states, the same weights and
EVERY input: the rebuilt layer returns exactly what the original returns. -/
theorem rtl_rebuild_outputs (perm : Seed → Nat → Nat → List Nat × List Nat) (c c' : RtlStored Seed)
    (hcfg : c' = c) (s : Seed) (hs : c.seed = some s) (inc unc : List Nat) (ext ext' : List Nat × List Nat)
    (lattices : Nat → List (List Rat) → Except Err (List Rat)) (average : Bool) (x : List Rat) :
    rtlLayerOutput perm c' inc unc ext' lattices average x = rtlLayerOutput perm c inc unc ext lattices average x := by
  simp only [rtlLayerOutput, rtl_rebuild_structure perm c c' hcfg s hs inc unc ext ext']

/-- the stored config of the counter-witness: 2 lattices of rank 2, no seed -/
def seedNone : RtlStored Nat := ⟨2, 2, false, none⟩

/-- weights of the counter-witness: every group's lattice layer returns the first input of each unit -/
def firstInput : Nat → List (List Rat) → Except Err (List Rat) := fun _ ins => .ok (ins.map (fun u => u.headD 0))

/-- `lattice.sort(key=monotonicity)` leaves a lattice of unconstrained inputs alone -/
theorem sortLattice_zero (l : List RtlInput) (h : ∀ a ∈ l, a.mono = 0) : sortLattice l = l := by
  unfold sortLattice
  apply List.mergeSort_of_pairwise
  rw [List.pairwise_iff_forall_sublist]
  intro a b hab
  have ha := h a (hab.subset (by simp))
  have hb := h b (hab.subset (by simp))
  simp [ha, hb]

/-- the structure of 2 lattices of rank 2 over one key with three features, for two pairs of shuffles -/
theorem structure_of_shuffles :
    rtlStructureOf [] [3] 2 2 false [0, 1, 2] [0, 1, 2, 3] = .ok ([([0, 0], [[0, 1], [2, 0]])], false) ∧
    rtlStructureOf [] [3] 2 2 false [2, 1, 0] [3, 1, 2, 0] = .ok ([([0, 0], [[2, 1], [0, 2]])], false) := by
  have h1 : ¬ (2 * 2 < (rtlInputs [] [3]).length) := by decide +kernel
  have h2 : ¬ ((rtlInputs [] [3]).length = 0) := by decide +kernel
  constructor
  · have hc : chunks 2 2 (rtlSlots [] [3] 2 2 false [0, 1, 2] [0, 1, 2, 3] (maxRtlSwaps + 1)).1 =
        [[⟨0, 0, 0⟩, ⟨0, 0, 1⟩], [⟨0, 0, 2⟩, ⟨0, 0, 0⟩]] := by decide +kernel
    have hp : (rtlSlots [] [3] 2 2 false [0, 1, 2] [0, 1, 2, 3] (maxRtlSwaps + 1)).2 = false := by decide +kernel
    simp only [rtlStructureOf, rtlStructure, if_neg h1, if_neg h2, hc, hp]
    have g : groupLattices [[(⟨0, 0, 0⟩ : RtlInput), ⟨0, 0, 1⟩], [⟨0, 0, 2⟩, ⟨0, 0, 0⟩]] =
        [([0, 0], [[0, 1], [2, 0]])] := by
      simp only [groupLattices, List.foldl]
      rw [sortLattice_zero _ (by decide), sortLattice_zero _ (by decide)]
      decide
    rw [g, List.mergeSort_singleton]
  · have hc : chunks 2 2 (rtlSlots [] [3] 2 2 false [2, 1, 0] [3, 1, 2, 0] (maxRtlSwaps + 1)).1 =
        [[⟨0, 0, 2⟩, ⟨0, 0, 1⟩], [⟨0, 0, 0⟩, ⟨0, 0, 2⟩]] := by decide +kernel
    have hp : (rtlSlots [] [3] 2 2 false [2, 1, 0] [3, 1, 2, 0] (maxRtlSwaps + 1)).2 = false := by decide +kernel
    simp only [rtlStructureOf, rtlStructure, if_neg h1, if_neg h2, hc, hp]
    have g : groupLattices [[(⟨0, 0, 2⟩ : RtlInput), ⟨0, 0, 1⟩], [⟨0, 0, 0⟩, ⟨0, 0, 2⟩]] =
        [([0, 0], [[2, 1], [0, 2]])] := by
      simp only [groupLattices, List.foldl]
      rw [sortLattice_zero _ (by decide), sortLattice_zero _ (by decide)]
      decide
    rw [g, List.mergeSort_singleton]

/-- **F-C11-i (model level): `random_seed=None` is NOT inside the theorem.** The same stored config
(equal `get_config()`), the same input shapes (one key with three features) and two builds whose
OS-seeded generators drew different shuffles: different structures, and with the same weights
different outputs on the input `(1, 2, 3)` — for any `perm` whatsoever.  This is what the real
`RTL(random_seed=None)` did when it was rebuilt from its config before fix 3372acf (which stores a drawn seed). -/
theorem rtl_seed_none_not_a_function (perm : Nat → Nat → Nat → List Nat × List Nat) :
    rtlBuild perm seedNone [] [3] ([0, 1, 2], [0, 1, 2, 3]) ≠ rtlBuild perm seedNone [] [3] ([2, 1, 0], [3, 1, 2, 0]) ∧
    rtlLayerOutput perm seedNone [] [3] ([0, 1, 2], [0, 1, 2, 3]) firstInput false [1, 2, 3] = .ok [1, 3] ∧
    rtlLayerOutput perm seedNone [] [3] ([2, 1, 0], [3, 1, 2, 0]) firstInput false [1, 2, 3] = .ok [3, 1] := by
  obtain ⟨e1, e2⟩ := structure_of_shuffles
  refine ⟨?_, ?_, ?_⟩
  · simp only [rtlBuild, rtlPerms, seedNone, e1, e2]
    decide
  · simp only [rtlLayerOutput, rtlBuild, rtlPerms, seedNone, e1]
    decide +kernel
  · simp only [rtlLayerOutput, rtlBuild, rtlPerms, seedNone, e2]
    decide +kernel

/-- the same build with an integer seed does not depend on the state of the world (non-vacuity of
`rtl_rebuild_structure`: the build succeeds and the structure has two lattices) -/
example : ∀ ext : List Nat × List Nat,
    rtlBuild (fun (_ : Nat) _ _ => ([2, 1, 0], [3, 1, 2, 0])) ⟨2, 2, false, some 7⟩ [] [3] ext =
      .ok ([([0, 0], [[2, 1], [0, 2]])], false) := by
  intro ext
  simp only [rtlBuild, rtlPerms, structure_of_shuffles.2]

end Tfl.C11
