import TflModel.Lemmas.Alt
import TflModel.Lemmas.CondReal
import TflModel.Props.C05
/-!
# C15 — conditional calibration and CDF functions are bounded and monotone by construction

Model: `Tfl.Alt` (`Model/Alt.lean`): `pwlFn1` / `pwlFnRow` (`pwl_calibration_fn`, one unit / all units
of one example), `layerCall` (`CDF.call`), `cdfFn` (`cdf_fn`).

Hypotheses of the `pwl_calibration_fn` theorems, for ANY functions `sm`, `sg`:
* `SoftmaxLike sm` — `sm` preserves lengths and returns positive weights summing to one (what the
  exact softmax does; the float32 softmax of |parameters| ≳ 10³ underflows to zeros: finding F-C15-b),
* `SigmoidLike sg` — `sg` is monotone with values in `[0, 1]`,
* `ValidPwl cfg n outRow.length` — exactly what `_verify_pwl_calibration` accepts
  (`C15_T1_verify_gives_valid`: it follows from `verifyPwlFn … = .ok ()`, including
  `keypoint_input_min < keypoint_input_max` since fix ff5f96e of finding F-C15-d); `C15_T1_call_bounded`
  states the bound directly for every successful call `pwlFnRow … = .ok ys`,
* `inRow.length + 1 = n` — `inRow` is the padded logit row the code feeds to the input softmax.
The proofs go through C14/T2 (`paired_eq`: the function is the `PWLCalibration` layer holding the
derived keypoints and weights) and C05's theorems about that layer.
-/
namespace Tfl.C15
open Tfl Tfl.Alt

section pwl
variable (cfg : PwlFnCfg) (sm : List ℚ → List ℚ) (sg : ℚ → ℚ) (inRow outRow : List ℚ) (n : Nat)

/-- away from the missing value the function is the interpolation -/
theorem pwlFn1_not_missing (x : ℚ) (hx : cfg.missingInput ≠ some x) :
    pwlFn1 cfg sm sg inRow outRow x
      = calibrated cfg (keypointDeltas cfg sm inRow) (kernelOutputs cfg sm sg outRow) x := by
  unfold pwlFn1
  cases hm : cfg.missingInput with
  | none => simp
  | some v =>
    have hne : x ≠ v := fun e => hx (by rw [hm, e])
    cases missingOut cfg sg outRow <;> simp [hne]

/-- the interpolation itself (before the missing-value switch) is within the output bounds at EVERY input -/
theorem calibrated_bounded (hsm : SoftmaxLike sm) (hsg : SigmoidLike sg) (hv : ValidPwl cfg n outRow.length)
    (hin : inRow.length + 1 = n) (x : ℚ) :
    cfg.outMin ≤ calibrated cfg (keypointDeltas cfg sm inRow) (kernelOutputs cfg sm sg outRow) x ∧
      calibrated cfg (keypointDeltas cfg sm inRow) (kernelOutputs cfg sm sg outRow) x ≤ cfg.outMax := by
  rw [paired_eq cfg sm sg inRow outRow n hv x]
  exact C05.pwl_bounded (paired_wf cfg sm sg inRow outRow n hsm hv hin) cfg.outMin cfg.outMax
    (fun j hj => paired_outputs_bounded cfg sm sg inRow outRow n hsm hsg hv hin j hj) x

/-- **C15/T1, bounds.** For every parameter vector (any `inRow`, `outRow`), every softmax-like and
sigmoid-like function and EVERY input `x` (also the missing value), the output lies in
`[keypoint_output_min, keypoint_output_max]` — provided a user-fixed `missing_output_value`, which is
returned verbatim (`C15_T1_missing`), was chosen inside that range. `hmo` is NOT implied by acceptance
(by design upstream, see `fixed_missing_output_outside_range_accepted`); the hypothesis-free forms are
`C15_T1_bounded_calibrated`, `C15_T1_bounded_derived_missing` and `C15_T1_fixed_missing_exact`. -/
theorem C15_T1_bounded (hsm : SoftmaxLike sm) (hsg : SigmoidLike sg) (hv : ValidPwl cfg n outRow.length)
    (hin : inRow.length + 1 = n)
    (hmo : ∀ v, cfg.missingOutput = some v → cfg.outMin ≤ v ∧ v ≤ cfg.outMax) (x : ℚ) :
    cfg.outMin ≤ pwlFn1 cfg sm sg inRow outRow x ∧ pwlFn1 cfg sm sg inRow outRow x ≤ cfg.outMax := by
  have hc := calibrated_bounded cfg sm sg inRow outRow n hsm hsg hv hin x
  unfold pwlFn1
  cases hm : cfg.missingInput with
  | none => simpa using hc
  | some v =>
    cases hmv : cfg.missingOutput with
    | some mo =>
      simp only [missingOut, hm, hmv]
      split_ifs
      · exact hmo mo hmv
      · exact hc
    | none =>
      simp only [missingOut, hm, hmv]
      split_ifs
      · have h0 := hsg.lo (outRow.getLastD 0)
        have h1 := hsg.hi (outRow.getLastD 0)
        have hr := hv.outRange
        constructor <;> nlinarith
      · exact hc

/-- **C15/T1, monotone.** With `monotonicity='increasing'` the output is non-decreasing in the input
for ALL pairs `x ≤ y` (on, between, outside the keypoints), neither being the missing value. -/
theorem C15_T1_monotone (hsm : SoftmaxLike sm) (hv : ValidPwl cfg n outRow.length)
    (hin : inRow.length + 1 = n) (hinc : cfg.increasing = true) (x y : ℚ) (hxy : x ≤ y)
    (hx : cfg.missingInput ≠ some x) (hy : cfg.missingInput ≠ some y) :
    pwlFn1 cfg sm sg inRow outRow x ≤ pwlFn1 cfg sm sg inRow outRow y := by
  rw [pwlFn1_not_missing cfg sm sg inRow outRow x hx, pwlFn1_not_missing cfg sm sg inRow outRow y hy,
    paired_eq cfg sm sg inRow outRow n hv x, paired_eq cfg sm sg inRow outRow n hv y]
  exact C05.pwl_monotone_increasing (paired_wf cfg sm sg inRow outRow n hsm hv hin)
    (fun j hj => paired_outputs_monotone cfg sm sg inRow outRow n hsm hv hin hinc j hj) x y hxy

/-- **C15/T1, clamp_min.** With `clamp_min` the output is EXACTLY `keypoint_output_min` at the first
keypoint `keypoint_input_min` (and everywhere to its left). -/
theorem C15_T1_clamp_min (hsm : SoftmaxLike sm) (hv : ValidPwl cfg n outRow.length)
    (hin : inRow.length + 1 = n) (hcm : cfg.clampMin = true) (x : ℚ) (hx : x ≤ cfg.inMin)
    (hxm : cfg.missingInput ≠ some x) :
    pwlFn1 cfg sm sg inRow outRow x = cfg.outMin := by
  have hwf := paired_wf cfg sm sg inRow outRow n hsm hv hin
  rw [pwlFn1_not_missing cfg sm sg inRow outRow x hxm, paired_eq cfg sm sg inRow outRow n hv x,
    C05.pwl_constant_left hwf x (by rw [(paired_keypoints cfg sm inRow outRow n hsm hv hin).1]; exact hx)]
  exact paired_first_output cfg sm sg inRow outRow n hsm hv hcm

/-- **C15/T1, clamp_max.** With `clamp_max` the output is EXACTLY `keypoint_output_max` at the last
keypoint `keypoint_input_max` (and everywhere to its right). -/
theorem C15_T1_clamp_max (hsm : SoftmaxLike sm) (hv : ValidPwl cfg n outRow.length)
    (hin : inRow.length + 1 = n) (hcm : cfg.clampMax = true) (x : ℚ) (hx : cfg.inMax ≤ x)
    (hxm : cfg.missingInput ≠ some x) :
    pwlFn1 cfg sm sg inRow outRow x = cfg.outMax := by
  have hwf := paired_wf cfg sm sg inRow outRow n hsm hv hin
  rw [pwlFn1_not_missing cfg sm sg inRow outRow x hxm, paired_eq cfg sm sg inRow outRow n hv x,
    C05.pwl_constant_right hwf x (by rw [(paired_keypoints cfg sm inRow outRow n hsm hv hin).2]; exact hx)]
  exact paired_last_output cfg sm sg inRow outRow n hsm hv hin hcm

/-- **C15/T1, cyclic.** With `is_cyclic` the outputs at (and beyond) both end keypoints coincide. -/
theorem C15_T1_cyclic (hsm : SoftmaxLike sm) (hv : ValidPwl cfg n outRow.length)
    (hin : inRow.length + 1 = n) (hc : cfg.cyclic = true) (x y : ℚ) (hx : x ≤ cfg.inMin)
    (hy : cfg.inMax ≤ y) (hxm : cfg.missingInput ≠ some x) (hym : cfg.missingInput ≠ some y) :
    pwlFn1 cfg sm sg inRow outRow x = pwlFn1 cfg sm sg inRow outRow y := by
  have hwf := paired_wf cfg sm sg inRow outRow n hsm hv hin
  have hk := paired_keypoints cfg sm inRow outRow n hsm hv hin
  rw [pwlFn1_not_missing cfg sm sg inRow outRow x hxm, pwlFn1_not_missing cfg sm sg inRow outRow y hym,
    paired_eq cfg sm sg inRow outRow n hv x, paired_eq cfg sm sg inRow outRow n hv y]
  exact (C05.pwl_cyclic_equal_ends hwf (by simp [layerCfg, hc])).2 x y (by rw [hk.1]; exact hx)
    (by rw [hk.2]; exact hy)

/-- **C15/T1, missing.** The missing input value maps to the missing output: the user's
`missing_output_value` when given, otherwise `keypoint_output_min + sigmoid(last parameter) ·
(keypoint_output_max − keypoint_output_min)` — whatever the other parameters are. -/
theorem C15_T1_missing (v : ℚ) (hm : cfg.missingInput = some v) :
    pwlFn1 cfg sm sg inRow outRow v =
      match cfg.missingOutput with
      | some mo => mo
      | none => cfg.outMin + sg (outRow.getLastD 0) * (cfg.outMax - cfg.outMin) := by
  unfold pwlFn1
  cases hmv : cfg.missingOutput <;> simp [missingOut, hm, hmv]

/-! ### the bounds clause and the missing output, precisely

`C15_T1_bounded` above carries `hmo` (a user-fixed `missing_output_value` lies inside the output range).
Acceptance does NOT imply it and is not meant to: `_verify_pwl_calibration` never compares
`missing_output_value` with the output range, and upstream's own
`conditional_pwl_calibration_test.py` calls `pwl_calibration_fn` with the default range `[0, 1]` and
`missing_output_value=3.0` and EXPECTS the output `3.0`. So the property's bounds clause is about
calibrated (non-missing) inputs and about the DERIVED missing output; a fixed missing output is
returned verbatim. The three theorems below say exactly that, without `hmo`. -/

/-- **C15/T1, bounds at every non-missing input** — no hypothesis about `missing_output_value`. -/
theorem C15_T1_bounded_calibrated (hsm : SoftmaxLike sm) (hsg : SigmoidLike sg)
    (hv : ValidPwl cfg n outRow.length) (hin : inRow.length + 1 = n) (x : ℚ)
    (hx : cfg.missingInput ≠ some x) :
    cfg.outMin ≤ pwlFn1 cfg sm sg inRow outRow x ∧ pwlFn1 cfg sm sg inRow outRow x ≤ cfg.outMax := by
  rw [pwlFn1_not_missing cfg sm sg inRow outRow x hx]
  exact calibrated_bounded cfg sm sg inRow outRow n hsm hsg hv hin x

/-- **C15/T1, bounds at EVERY input (the missing value included) when the missing output is derived**
(`missing_output_value=None`: `keypoint_output_min + sigmoid(last parameter)·range`) or when there is no
missing value at all. -/
theorem C15_T1_bounded_derived_missing (hsm : SoftmaxLike sm) (hsg : SigmoidLike sg)
    (hv : ValidPwl cfg n outRow.length) (hin : inRow.length + 1 = n) (hnone : cfg.missingOutput = none)
    (x : ℚ) :
    cfg.outMin ≤ pwlFn1 cfg sm sg inRow outRow x ∧ pwlFn1 cfg sm sg inRow outRow x ≤ cfg.outMax :=
  C15_T1_bounded cfg sm sg inRow outRow n hsm hsg hv hin (fun v hvv => by rw [hnone] at hvv; cases hvv) x

/-- **C15/T1, a FIXED `missing_output_value` is returned verbatim** at the missing input value — whatever
the parameters — and therefore lies inside `[keypoint_output_min, keypoint_output_max]` **iff** the
configured value does. -/
theorem C15_T1_fixed_missing_exact (v mo : ℚ) (hm : cfg.missingInput = some v)
    (hmo : cfg.missingOutput = some mo) :
    pwlFn1 cfg sm sg inRow outRow v = mo ∧
    ((cfg.outMin ≤ pwlFn1 cfg sm sg inRow outRow v ∧ pwlFn1 cfg sm sg inRow outRow v ≤ cfg.outMax) ↔
      (cfg.outMin ≤ mo ∧ mo ≤ cfg.outMax)) := by
  have e : pwlFn1 cfg sm sg inRow outRow v = mo := by
    rw [C15_T1_missing cfg sm sg inRow outRow v hm, hmo]
  exact ⟨e, by rw [e]⟩

/-- **C15/T1, bookkeeping.** For every clamp / cyclic / missing combination that
`_verify_pwl_calibration` accepts, `output_param_size` parameters produce — after the front padding,
the clamp padding, the cyclic closing and the dropped entries — exactly one kernel entry per keypoint,
i.e. as many as interpolation weights: `weights * kernel_outputs` is an elementwise product of
equally long vectors. -/
theorem C15_T1_output_param_size (hsm : SoftmaxLike sm) (hv : ValidPwl cfg n outRow.length)
    (hin : inRow.length + 1 = n) (x : ℚ) :
    (kernelOutputs cfg sm sg outRow).length = n ∧
      (Alt.interpWeights x (keypointsOf cfg (keypointDeltas cfg sm inRow)) (keypointDeltas cfg sm inRow)).length = n := by
  refine ⟨kernelOutputs_length cfg sm sg outRow n hsm.len hv, ?_⟩
  rw [keypointsOf_eq]
  simp [Alt.interpWeights, PwlEval.length_cumsumExcl, deltas_length cfg sm inRow hsm, hin]

/-- **the hypotheses follow from the verification**: whatever `_verify_pwl_calibration` accepts is
`ValidPwl` — in particular `keypoint_input_min < keypoint_input_max` (no zero-length pieces). -/
theorem C15_T1_verify_gives_valid (inLast : Option Nat) (r3 : Bool) (rows outLast cols : Nat)
    (h : verifyPwlFn cfg inLast r3 rows outLast cols = .ok ()) :
    ValidPwl cfg (numKeypoints inLast) outLast :=
  verify_ok_valid cfg inLast r3 rows outLast cols h

/-- **C15/T1, bounds, whole call.** Every output of every SUCCESSFUL call (all units of one example; the
parameter rows of a tensor are equally long) lies in `[keypoint_output_min, keypoint_output_max]`: no
hypothesis beyond what the call itself verified. -/
theorem C15_T1_call_bounded (hsm : SoftmaxLike sm) (hsg : SigmoidLike sg)
    (inParams : Option (List (List ℚ))) (r3 : Bool) (outParams : List (List ℚ)) (xs ys : List ℚ)
    (hin : ∀ rows, inParams = some rows → ∀ r ∈ rows, r.length = (rows.headD []).length)
    (hout : ∀ r ∈ outParams, r.length = (outParams.headD []).length)
    (hmo : ∀ v, cfg.missingOutput = some v → cfg.outMin ≤ v ∧ v ≤ cfg.outMax)
    (h : pwlFnRow cfg sm sg inParams r3 outParams xs = .ok ys) :
    ∀ y ∈ ys, cfg.outMin ≤ y ∧ y ≤ cfg.outMax := by
  unfold pwlFnRow at h
  simp only [bind, Except.bind] at h
  split at h
  · cases h
  · rename_i v hver
    have hv := verify_ok_valid cfg _ r3 _ _ _ hver
    split_ifs at h with hc
    simp only [pure, Except.pure, Except.ok.injEq] at h
    have hc' : (inputRows cfg inParams).length = cfg.units ∧ (tileUnits cfg.units outParams).length = cfg.units := by
      constructor <;> by_contra hne <;> exact hc (by simp [hne])
    intro y hy
    rw [← h] at hy
    simp only [List.mem_map, List.mem_range] at hy
    obtain ⟨u, hu, rfl⟩ := hy
    have hi_mem : (inputRows cfg inParams).getD u [] ∈ inputRows cfg inParams := by
      rw [List.getD_eq_getElem?_getD, List.getElem?_eq_getElem (by rw [hc'.1]; exact hu), Option.getD_some]
      exact List.getElem_mem _
    have ho_mem : (tileUnits cfg.units outParams).getD u [] ∈ outParams := by
      apply mem_tileUnits cfg.units
      rw [List.getD_eq_getElem?_getD, List.getElem?_eq_getElem (by rw [hc'.2]; exact hu), Option.getD_some]
      exact List.getElem_mem _
    have hv' : ValidPwl cfg (numKeypoints (inParams.map (fun r => (r.headD []).length)))
        ((tileUnits cfg.units outParams).getD u []).length := by rw [hout _ ho_mem]; exact hv
    generalize (inputRows cfg inParams).getD u [] = inRow at hi_mem ⊢
    apply C15_T1_bounded cfg sm sg inRow _ _ hsm hsg hv' _ hmo
    cases inParams with
    | none =>
      simp only [inputRows, List.mem_replicate] at hi_mem
      rw [hi_mem.2]; rfl
    | some rows =>
      simp only [inputRows, List.mem_map] at hi_mem
      obtain ⟨r, hr, hr2⟩ := hi_mem
      rw [← hr2]
      simp [numKeypoints, hin rows rfl r (mem_tileUnits _ _ _ hr)]

/-! ### from the function the driver runs (`pwlFnRow`, all units of one example) to `pwlFn1` per unit -/

/-- the input unit `u` sees: a single input column is tiled over the units -/
theorem tileInputs_single (units : Nat) (x : ℚ) (u : Nat) (hu : u < units) :
    getR (tileInputs units [x]) u = x := by
  unfold tileInputs getR
  rw [List.getD_eq_getElem?_getD, List.getElem?_replicate]
  simp [hu]

theorem tileInputs_many (units : Nat) (xs : List ℚ) (h : xs.length ≠ 1) : tileInputs units xs = xs := by
  unfold tileInputs
  split
  · simp at h
  · rfl

/-- **the bridge (row 36).** Whenever the whole call returns, it returns one output per unit, and output
`u` IS `pwlFn1` on unit `u`'s own padded input-logit row and output-parameter row (after the tiling of
size-1 unit axes) at unit `u`'s input — with exactly the hypotheses the one-unit theorems need
(`ValidPwl`, `inRow.length + 1 = n`) already established by the call's own verification. Hence
`C15_T1_monotone / clamp_min / clamp_max / cyclic / missing / bounded_*` apply to every entry of the
result the driver op `alt.pwlfn` prints. -/
theorem pwlFnRow_entries (inParams : Option (List (List ℚ))) (r3 : Bool) (outParams : List (List ℚ))
    (xs ys : List ℚ)
    (hin : ∀ rows, inParams = some rows → ∀ r ∈ rows, r.length = (rows.headD []).length)
    (hout : ∀ r ∈ outParams, r.length = (outParams.headD []).length)
    (h : pwlFnRow cfg sm sg inParams r3 outParams xs = .ok ys) :
    ys.length = cfg.units ∧ ∀ u, u < cfg.units →
      getR ys u = pwlFn1 cfg sm sg ((inputRows cfg inParams).getD u []) ((tileUnits cfg.units outParams).getD u [])
        (getR (tileInputs cfg.units xs) u) ∧
      ValidPwl cfg (numKeypoints (inParams.map (fun r => (r.headD []).length)))
        ((tileUnits cfg.units outParams).getD u []).length ∧
      ((inputRows cfg inParams).getD u []).length + 1 = numKeypoints (inParams.map (fun r => (r.headD []).length)) := by
  unfold pwlFnRow at h
  simp only [bind, Except.bind] at h
  split at h
  · cases h
  · rename_i v hver
    have hv := verify_ok_valid cfg _ r3 _ _ _ hver
    split_ifs at h with hc
    simp only [pure, Except.pure, Except.ok.injEq] at h
    have hc' : (inputRows cfg inParams).length = cfg.units ∧ (tileUnits cfg.units outParams).length = cfg.units := by
      constructor <;> by_contra hne <;> exact hc (by simp [hne])
    refine ⟨by rw [← h]; simp, fun u hu => ⟨?_, ?_, ?_⟩⟩
    · rw [← h]
      unfold getR
      rw [List.getD_eq_getElem?_getD, List.getElem?_map, List.getElem?_range hu]
      rfl
    · have ho_mem : (tileUnits cfg.units outParams).getD u [] ∈ outParams := by
        apply mem_tileUnits cfg.units
        rw [List.getD_eq_getElem?_getD, List.getElem?_eq_getElem (by rw [hc'.2]; exact hu), Option.getD_some]
        exact List.getElem_mem _
      rw [hout _ ho_mem]; exact hv
    · have hi_mem : (inputRows cfg inParams).getD u [] ∈ inputRows cfg inParams := by
        rw [List.getD_eq_getElem?_getD, List.getElem?_eq_getElem (by rw [hc'.1]; exact hu), Option.getD_some]
        exact List.getElem_mem _
      generalize (inputRows cfg inParams).getD u [] = inRow at hi_mem ⊢
      cases inParams with
      | none =>
        simp only [inputRows, List.mem_replicate] at hi_mem
        rw [hi_mem.2]; rfl
      | some rows =>
        simp only [inputRows, List.mem_map] at hi_mem
        obtain ⟨r, hr, hr2⟩ := hi_mem
        rw [← hr2]
        simp [numKeypoints, hin rows rfl r (mem_tileUnits _ _ _ hr)]

/-- **C15/T1, bounds, whole call, WITHOUT a hypothesis on `missing_output_value`.** Every output of every
successful call lies in `[keypoint_output_min, keypoint_output_max]` — except that a unit whose input
equals `missing_input_value` returns the user-fixed `missing_output_value` verbatim when one is
configured (`C15_T1_fixed_missing_exact`; inside the range iff that value is). -/
theorem C15_T1_call_bounded_or_fixed_missing (hsm : SoftmaxLike sm) (hsg : SigmoidLike sg)
    (inParams : Option (List (List ℚ))) (r3 : Bool) (outParams : List (List ℚ)) (xs ys : List ℚ)
    (hin : ∀ rows, inParams = some rows → ∀ r ∈ rows, r.length = (rows.headD []).length)
    (hout : ∀ r ∈ outParams, r.length = (outParams.headD []).length)
    (h : pwlFnRow cfg sm sg inParams r3 outParams xs = .ok ys) (u : Nat) (hu : u < cfg.units) :
    (cfg.outMin ≤ getR ys u ∧ getR ys u ≤ cfg.outMax) ∨
    (∃ mo, cfg.missingOutput = some mo ∧ cfg.missingInput = some (getR (tileInputs cfg.units xs) u) ∧
      getR ys u = mo) := by
  obtain ⟨-, he⟩ := pwlFnRow_entries cfg sm sg inParams r3 outParams xs ys hin hout h
  obtain ⟨e, hv, hl⟩ := he u hu
  rw [e]
  by_cases hx : cfg.missingInput = some (getR (tileInputs cfg.units xs) u)
  · cases hmo : cfg.missingOutput with
    | none =>
      exact Or.inl (C15_T1_bounded_derived_missing cfg sm sg _ _ _ hsm hsg hv hl hmo _)
    | some mo =>
      exact Or.inr ⟨mo, rfl, hx, (C15_T1_fixed_missing_exact cfg sm sg _ _ _ mo hx hmo).1⟩
  · exact Or.inl (C15_T1_bounded_calibrated cfg sm sg _ _ _ hsm hsg hv hl _ hx)

/-- **C15/T1, monotone, whole call.** Two calls with the same parameters: if unit `u`'s input does not
decrease (neither being the missing value) and `monotonicity='increasing'`, unit `u`'s output does not
decrease — for every unit, every parameter tensor, all pairs of inputs. -/
theorem C15_T1_call_monotone (hsm : SoftmaxLike sm)
    (inParams : Option (List (List ℚ))) (r3 : Bool) (outParams : List (List ℚ)) (xs xs' ys ys' : List ℚ)
    (hin : ∀ rows, inParams = some rows → ∀ r ∈ rows, r.length = (rows.headD []).length)
    (hout : ∀ r ∈ outParams, r.length = (outParams.headD []).length)
    (hinc : cfg.increasing = true)
    (h : pwlFnRow cfg sm sg inParams r3 outParams xs = .ok ys)
    (h' : pwlFnRow cfg sm sg inParams r3 outParams xs' = .ok ys') (u : Nat) (hu : u < cfg.units)
    (hxy : getR (tileInputs cfg.units xs) u ≤ getR (tileInputs cfg.units xs') u)
    (hx : cfg.missingInput ≠ some (getR (tileInputs cfg.units xs) u))
    (hy : cfg.missingInput ≠ some (getR (tileInputs cfg.units xs') u)) :
    getR ys u ≤ getR ys' u := by
  obtain ⟨e, hv, hl⟩ := (pwlFnRow_entries cfg sm sg inParams r3 outParams xs ys hin hout h).2 u hu
  obtain ⟨e', -, -⟩ := (pwlFnRow_entries cfg sm sg inParams r3 outParams xs' ys' hin hout h').2 u hu
  rw [e, e']
  exact C15_T1_monotone cfg sm sg _ _ _ hsm hv hl hinc _ _ hxy hx hy

/-- **C15/T1, clamps, whole call.** With `clamp_min` (`clamp_max`) every unit whose input is at or left of
`keypoint_input_min` (at or right of `keypoint_input_max`) returns EXACTLY `keypoint_output_min`
(`keypoint_output_max`). -/
theorem C15_T1_call_clamps (hsm : SoftmaxLike sm)
    (inParams : Option (List (List ℚ))) (r3 : Bool) (outParams : List (List ℚ)) (xs ys : List ℚ)
    (hin : ∀ rows, inParams = some rows → ∀ r ∈ rows, r.length = (rows.headD []).length)
    (hout : ∀ r ∈ outParams, r.length = (outParams.headD []).length)
    (h : pwlFnRow cfg sm sg inParams r3 outParams xs = .ok ys) (u : Nat) (hu : u < cfg.units)
    (hxm : cfg.missingInput ≠ some (getR (tileInputs cfg.units xs) u)) :
    (cfg.clampMin = true → getR (tileInputs cfg.units xs) u ≤ cfg.inMin → getR ys u = cfg.outMin) ∧
    (cfg.clampMax = true → cfg.inMax ≤ getR (tileInputs cfg.units xs) u → getR ys u = cfg.outMax) := by
  obtain ⟨e, hv, hl⟩ := (pwlFnRow_entries cfg sm sg inParams r3 outParams xs ys hin hout h).2 u hu
  rw [e]
  exact ⟨fun hc hx => C15_T1_clamp_min cfg sm sg _ _ _ hsm hv hl hc _ hx hxm,
    fun hc hx => C15_T1_clamp_max cfg sm sg _ _ _ hsm hv hl hc _ hx hxm⟩

/-- **C15/T1, cyclic, whole call.** With `is_cyclic`, a unit fed an input at or left of
`keypoint_input_min` in one call and at or right of `keypoint_input_max` in another (same parameters)
returns the same value. -/
theorem C15_T1_call_cyclic (hsm : SoftmaxLike sm)
    (inParams : Option (List (List ℚ))) (r3 : Bool) (outParams : List (List ℚ)) (xs xs' ys ys' : List ℚ)
    (hin : ∀ rows, inParams = some rows → ∀ r ∈ rows, r.length = (rows.headD []).length)
    (hout : ∀ r ∈ outParams, r.length = (outParams.headD []).length)
    (hcy : cfg.cyclic = true)
    (h : pwlFnRow cfg sm sg inParams r3 outParams xs = .ok ys)
    (h' : pwlFnRow cfg sm sg inParams r3 outParams xs' = .ok ys') (u : Nat) (hu : u < cfg.units)
    (hx : getR (tileInputs cfg.units xs) u ≤ cfg.inMin) (hy : cfg.inMax ≤ getR (tileInputs cfg.units xs') u)
    (hxm : cfg.missingInput ≠ some (getR (tileInputs cfg.units xs) u))
    (hym : cfg.missingInput ≠ some (getR (tileInputs cfg.units xs') u)) :
    getR ys u = getR ys' u := by
  obtain ⟨e, hv, hl⟩ := (pwlFnRow_entries cfg sm sg inParams r3 outParams xs ys hin hout h).2 u hu
  obtain ⟨e', -, -⟩ := (pwlFnRow_entries cfg sm sg inParams r3 outParams xs' ys' hin hout h').2 u hu
  rw [e, e']
  exact C15_T1_cyclic cfg sm sg _ _ _ hsm hv hl hcy _ _ hx hy hxm hym

/-- **C15/T1, missing, whole call.** A unit whose input equals `missing_input_value` returns the missing
output (fixed value, or derived from ITS OWN last output parameter). -/
theorem C15_T1_call_missing (inParams : Option (List (List ℚ))) (r3 : Bool) (outParams : List (List ℚ))
    (xs ys : List ℚ)
    (hin : ∀ rows, inParams = some rows → ∀ r ∈ rows, r.length = (rows.headD []).length)
    (hout : ∀ r ∈ outParams, r.length = (outParams.headD []).length)
    (h : pwlFnRow cfg sm sg inParams r3 outParams xs = .ok ys) (u : Nat) (hu : u < cfg.units)
    (hm : cfg.missingInput = some (getR (tileInputs cfg.units xs) u)) :
    getR ys u =
      match cfg.missingOutput with
      | some mo => mo
      | none => cfg.outMin + sg (((tileUnits cfg.units outParams).getD u []).getLastD 0) * (cfg.outMax - cfg.outMin) := by
  obtain ⟨e, -, -⟩ := (pwlFnRow_entries cfg sm sg inParams r3 outParams xs ys hin hout h).2 u hu
  rw [e]
  exact C15_T1_missing cfg sm sg _ _ _ hm

end pwl

/-! ## T3 — documented call forms -/

/-- **C15/T3.** Omitted interior keypoint parameters (`keypoint_input_parameters=None`, two fixed
keypoints) are accepted: whenever the verification passes, the call returns one output per unit.
(WHEN the verification passes is `C15_T3_accepted_iff`; `C15_T3_none_accepted_forms` is this theorem
with the acceptance derived from the values and the call form.) -/
theorem C15_T3_none_accepted (cfg : PwlFnCfg) (sm : List ℚ → List ℚ) (sg : ℚ → ℚ) (r3 : Bool)
    (outParams : List (List ℚ)) (xs : List ℚ) (hu : 1 ≤ cfg.units) (hr2 : r3 = false → outParams.length = 1)
    (h : verifyPwlFn cfg none r3 outParams.length (outParams.headD []).length xs.length = .ok ()) :
    ∃ ys, pwlFnRow cfg sm sg none r3 outParams xs = .ok ys ∧ ys.length = cfg.units := by
  have hlen : (tileUnits cfg.units outParams).length = cfg.units := by
    unfold verifyPwlFn at h
    split_ifs at h with h1 h2 h3 h4 h5 h6 h7 h8 h9 h10
    cases r3 with
    | true =>
      have h8' : outParams.length = 1 ∨ outParams.length = cfg.units := by
        simp only [Bool.true_and, decide_eq_true_eq, not_and, not_not] at h8
        by_cases h1' : outParams.length = 1
        · exact Or.inl h1'
        · exact Or.inr (h8 h1')
      unfold tileUnits
      split
      · rename_i r
        split_ifs with hgt
        · simp
        · simp at h8' ⊢; omega
      · rename_i hne1
        rcases h8' with h1' | hu'
        · match outParams, h1' with
          | [r], _ => exact absurd rfl (hne1 r)
        · exact hu'
    | false =>
      have h7' : cfg.units ≤ 1 := by simpa using h7
      have hl := hr2 rfl
      match outParams, hl with
      | [r], _ =>
        have : ¬ cfg.units > 1 := by omega
        simp [tileUnits, this]; omega
  have e : pwlFnRow cfg sm sg none r3 outParams xs = .ok ((List.range cfg.units).map fun u =>
      pwlFn1 cfg sm sg ((inputRows cfg none).getD u []) ((tileUnits cfg.units outParams).getD u [])
        (getR (tileInputs cfg.units xs) u)) := by
    unfold pwlFnRow
    simp only [Option.map_none, h, bind, Except.bind, inputRows, List.length_replicate, hlen, ne_eq,
      not_true_eq_false, or_self, if_false, pure, Except.pure]
  refine ⟨_, e, ?_⟩
  rw [List.length_map, List.length_range]

/-- two keypoints, `None` interior parameters, every mode: the model accepts (non-vacuity of T3) -/
example : verifyPwlFn ⟨0, 1, 0, 1, 2, true, true, false, false, some (-1), none⟩ none true 2 2 1 = .ok () := by
  decide +kernel

/-! ### WHICH call forms are accepted: `_verify_pwl_calibration` as an iff

The docstring of `pwl_calibration_fn` lists six shapes for `keypoint_output_parameters`:
`(1, P)`, `(batch, P)`, `(1, 1, P)`, `(batch, 1, P)`, `(1, units, P)`, `(batch, units, P)` and says the
shapes "need to be broadcast friendly with `(batch_size, units, 1)`: `(1 or batch_size, 1 or units, P)`".
The two rank-2 shapes are accepted **only for `units == 1`**: for `units > 1` the verification raises
`ValueError("keypoint_output_parameters should be 3 dimensional when units > 1")` — a deliberate check
with its own message, pinned by upstream's `conditional_pwl_calibration_test.test_suite_raises` (the call
with `units=3` and the rank-2 `kernel_4` must raise). So this is the documented behaviour read together
with the stated broadcast rule, not a finding; `FormOk` states the accepted forms and
`C15_T3_accepted_iff` proves that nothing else is accepted and nothing accepted is rejected. -/

/-- the value checks of `_verify_pwl_calibration` (independent of the tensor shapes) -/
def ConfigOk (cfg : PwlFnCfg) (inLast : Option Nat) : Prop :=
  cfg.inMin < cfg.inMax ∧
  (cfg.increasing = false → cfg.clampMin = false ∧ cfg.clampMax = false) ∧
  cfg.outMin ≤ cfg.outMax ∧
  (cfg.increasing = true → cfg.cyclic = false) ∧
  (cfg.missingOutput.isSome = true → cfg.missingInput.isSome = true) ∧
  0 < outputParamSize cfg inLast

/-- the accepted call forms: rank-2 output parameters only for one unit; a rank-3 unit axis of size 1 or
`units`; the last axis `output_param_size`; one input column or one per unit -/
def FormOk (cfg : PwlFnCfg) (inLast : Option Nat) (outRank3 : Bool) (outRows outLast inputCols : Nat) : Prop :=
  (outRank3 = false → cfg.units ≤ 1) ∧
  (outRank3 = true → outRows = 1 ∨ outRows = cfg.units) ∧
  (outLast : Int) = outputParamSize cfg inLast ∧
  (inputCols ≤ 1 ∨ inputCols = cfg.units)

theorem ite_ok_or_valueError {c : Prop} [Decidable c] {a : Except Err Unit}
    (ha : a = .ok () ∨ a = .error .valueError) :
    (if c then .error .valueError else a) = .ok () ∨ (if c then .error .valueError else a) = .error .valueError := by
  by_cases h : c
  · rw [if_pos h]; exact Or.inr rfl
  · rw [if_neg h]; exact ha

/-- **C15/T3, the accepted call forms, exactly.** `_verify_pwl_calibration` accepts **iff** the values are
consistent (`ConfigOk`) and the call form is one of `FormOk`; every rejection is a `ValueError`. -/
theorem C15_T3_accepted_iff (cfg : PwlFnCfg) (inLast : Option Nat) (r3 : Bool) (rows outLast cols : Nat) :
    (verifyPwlFn cfg inLast r3 rows outLast cols = .ok () ↔
      ConfigOk cfg inLast ∧ FormOk cfg inLast r3 rows outLast cols) ∧
    (verifyPwlFn cfg inLast r3 rows outLast cols = .ok () ∨
      verifyPwlFn cfg inLast r3 rows outLast cols = .error .valueError) := by
  refine ⟨⟨fun h => ?_, fun h => ?_⟩, ?_⟩
  · unfold verifyPwlFn at h
    split_ifs at h with h1 h2 h3 h4 h5 h6 h7 h8 h9 h10
    refine ⟨⟨not_le.mp h1, ?_, not_lt.mp h3, ?_, ?_, by omega⟩, ?_, ?_, not_not.mp h9, ?_⟩
    · intro hi
      simp only [hi, Bool.not_false, Bool.true_and, Bool.or_eq_true, not_or] at h2
      exact ⟨by simpa using h2.1, by simpa using h2.2⟩
    · intro hi; simpa [hi] using h4
    · intro ho
      simp only [ho, Bool.true_and] at h5
      cases hm : cfg.missingInput <;> simp [hm] at h5 ⊢
    · intro hr; simpa [hr] using h7
    · intro hr
      simp only [hr, Bool.true_and, decide_eq_true_eq, not_and, not_not] at h8
      by_cases h1' : rows = 1
      · exact Or.inl h1'
      · exact Or.inr (h8 h1')
    · simp only [Bool.and_eq_true, decide_eq_true_eq, not_and, not_not] at h10
      by_cases hc : cols > 1
      · exact Or.inr (h10 hc)
      · exact Or.inl (by omega)
  · obtain ⟨⟨c1, c2, c3, c4, c5, c6⟩, f1, f2, f3, f4⟩ := h
    unfold verifyPwlFn
    have n1 : ¬ cfg.inMin ≥ cfg.inMax := not_le.mpr c1
    have n2 : ¬ ((!cfg.increasing && (cfg.clampMin || cfg.clampMax)) = true) := by
      cases hi : cfg.increasing
      · obtain ⟨a, b⟩ := c2 hi; simp [a, b]
      · simp
    have n3 : ¬ cfg.outMin > cfg.outMax := not_lt.mpr c3
    have n4 : ¬ ((cfg.increasing && cfg.cyclic) = true) := by
      cases hi : cfg.increasing
      · simp
      · simp [c4 hi]
    have n5 : ¬ ((cfg.missingOutput.isSome && cfg.missingInput.isNone) = true) := by
      cases ho : cfg.missingOutput.isSome
      · simp
      · have := c5 ho
        cases hm : cfg.missingInput <;> simp [hm] at this ⊢
    have n6 : ¬ outputParamSize cfg inLast ≤ 0 := by omega
    have n7 : ¬ ((decide (cfg.units > 1) && !r3) = true) := by
      cases hr : r3
      · have := f1 hr; simp; omega
      · simp
    have n8 : ¬ ((r3 && decide (rows ≠ 1 ∧ rows ≠ cfg.units)) = true) := by
      cases hr : r3
      · simp
      · rcases f2 hr with e | e <;> simp [e]
    have n9 : ¬ ((outLast : Int) ≠ outputParamSize cfg inLast) := not_not.mpr f3
    have n10 : ¬ ((decide (cols > 1) && decide (cols ≠ cfg.units)) = true) := by
      rcases f4 with e | e
      · have : ¬ cols > 1 := by omega
        simp [this]
      · simp [e]
    rw [if_neg n1, if_neg n2, if_neg n3, if_neg n4, if_neg n5, if_neg n6, if_neg n7, if_neg n8, if_neg n9,
      if_neg n10]
  · unfold verifyPwlFn
    repeat' apply ite_ok_or_valueError
    exact Or.inl rfl

/-- **C15/T3, the six documented shapes of `keypoint_output_parameters`** (one example of the batch; `P` =
`output_param_size`; consistent values; one input column or one per unit): the rank-3 shapes with a unit
axis of size 1 or `units` are accepted for EVERY number of units; the rank-2 shapes `(1, P)` / `(batch, P)`
are accepted iff `units ≤ 1`, and rejected with a `ValueError` for `units > 1` ("should be 3 dimensional
when units > 1"). -/
theorem C15_T3_documented_output_forms (cfg : PwlFnCfg) (inLast : Option Nat) (P cols : Nat)
    (hc : ConfigOk cfg inLast) (hP : (P : Int) = outputParamSize cfg inLast)
    (hcols : cols ≤ 1 ∨ cols = cfg.units) :
    verifyPwlFn cfg inLast true 1 P cols = .ok () ∧
    verifyPwlFn cfg inLast true cfg.units P cols = .ok () ∧
    (verifyPwlFn cfg inLast false 1 P cols = .ok () ↔ cfg.units ≤ 1) ∧
    (1 < cfg.units → verifyPwlFn cfg inLast false 1 P cols = .error .valueError) := by
  have iff := fun r3 rows => (C15_T3_accepted_iff cfg inLast r3 rows P cols).1
  refine ⟨(iff true 1).mpr ⟨hc, by simp, fun _ => Or.inl rfl, hP, hcols⟩,
    (iff true cfg.units).mpr ⟨hc, by simp, fun _ => Or.inr rfl, hP, hcols⟩,
    ⟨fun h => ((iff false 1).mp h).2.1 rfl, fun h => (iff false 1).mpr ⟨hc, fun _ => h, by simp, hP, hcols⟩⟩,
    fun hu => ?_⟩
  rcases (C15_T3_accepted_iff cfg inLast false 1 P cols).2 with h | h
  · have := ((iff false 1).mp h).2.1 rfl; omega
  · exact h

/-- **C15/T3, omitted interior keypoint parameters, with the acceptance DERIVED.** For consistent values,
`keypoint_input_parameters=None` and any accepted form of the output parameters (`FormOk` with two
keypoints), the call returns one output per unit — no acceptance hypothesis. -/
theorem C15_T3_none_accepted_forms (cfg : PwlFnCfg) (sm : List ℚ → List ℚ) (sg : ℚ → ℚ) (r3 : Bool)
    (outParams : List (List ℚ)) (xs : List ℚ) (hu : 1 ≤ cfg.units) (hr2 : r3 = false → outParams.length = 1)
    (hc : ConfigOk cfg none)
    (hf : FormOk cfg none r3 outParams.length (outParams.headD []).length xs.length) :
    ∃ ys, pwlFnRow cfg sm sg none r3 outParams xs = .ok ys ∧ ys.length = cfg.units :=
  C15_T3_none_accepted cfg sm sg r3 outParams xs hu hr2
    ((C15_T3_accepted_iff cfg none r3 outParams.length (outParams.headD []).length xs.length).1.mpr ⟨hc, hf⟩)

/-- non-vacuity: `units = 3`, clamps, derived missing output, `None` interior parameters — `ConfigOk`, the
rank-3 forms accepted, the rank-2 form rejected -/
example :
    let cfg : PwlFnCfg := ⟨0, 1, 0, 1, 3, true, true, false, false, some (-1), none⟩
    verifyPwlFn cfg none true 1 2 1 = .ok () ∧ verifyPwlFn cfg none true 3 2 3 = .ok () ∧
    verifyPwlFn cfg none false 1 2 1 = .error .valueError := by decide +kernel

/-- **a fixed `missing_output_value` outside the output range is ACCEPTED and returned (by design).** The
call of upstream's `conditional_pwl_calibration_test.py`: default ranges `[0, 1]`, four keypoints,
`missing_input_value=-1`, `missing_output_value=3` — the verification passes and the output at the
missing input is `3 > keypoint_output_max`. Hence `hmo` of `C15_T1_bounded` does not follow from
acceptance, and the bounds clause is `C15_T1_bounded_calibrated` / `_derived_missing` /
`_call_bounded_or_fixed_missing`. -/
theorem fixed_missing_output_outside_range_accepted :
    let cfg : PwlFnCfg := ⟨0, 1, 0, 1, 1, false, false, false, false, some (-1), some 3⟩
    verifyPwlFn cfg (some 2) false 1 4 1 = .ok () ∧
    pwlFnRow cfg (fun l => l.map (fun _ => 1/3)) (fun _ => 1/2) (some [[0, 0]]) false [[0, 0, 0, 0]] [-1] = .ok [3] ∧
    pwlFnRow cfg (fun l => l.map (fun _ => 1/3)) (fun _ => 1/2) (some [[0, 0]]) false [[0, 0, 0, 0]] [1/2]
      = .ok [1/2] := by decide +kernel

/-- **C15/T3, unit broadcast (fixed finding F-C15-c, ab7779b).** The documented form
`(batch, 1, output_param_size)` — ONE parameter row for all `units > 1` — is accepted exactly when the
tiled `(batch, units, output_param_size)` tensor is, and returns the same outputs: broadcasting over
units is tiling, for every configuration, parameter row and input. -/
theorem C15_T3_unit_broadcast_eq_tiling (cfg : PwlFnCfg) (sm : List ℚ → List ℚ) (sg : ℚ → ℚ)
    (inParams : Option (List (List ℚ))) (row : List ℚ) (xs : List ℚ) (hu : 1 < cfg.units) :
    pwlFnRow cfg sm sg inParams true [row] xs
      = pwlFnRow cfg sm sg inParams true (List.replicate cfg.units row) xs := by
  have hne : ∀ r, List.replicate cfg.units row ≠ [r] := by
    intro r e
    have := congrArg List.length e
    simp at this; omega
  have ht : tileUnits cfg.units (List.replicate cfg.units row) = List.replicate cfg.units row := by
    unfold tileUnits
    split
    · rename_i r heq; exact absurd heq (hne r)
    · rfl
  have hh : (List.replicate cfg.units row).headD [] = row := by
    cases hcu : cfg.units with
    | zero => omega
    | succ m => simp [List.replicate_succ]
  have hv : verifyPwlFn cfg (inParams.map (fun r => (r.headD []).length)) true [row].length
        ([row].headD []).length xs.length
      = verifyPwlFn cfg (inParams.map (fun r => (r.headD []).length)) true
        (List.replicate cfg.units row).length ((List.replicate cfg.units row).headD []).length xs.length := by
    rw [hh]
    unfold verifyPwlFn
    have hd : decide ([row].length ≠ 1 ∧ [row].length ≠ cfg.units)
        = decide ((List.replicate cfg.units row).length ≠ 1 ∧ (List.replicate cfg.units row).length ≠ cfg.units) := by
      apply decide_eq_decide.mpr
      simp
    rw [hd]
    rfl
  unfold pwlFnRow
  rw [hv, ht]
  simp [tileUnits, hu]

/-- the form is indeed accepted (non-vacuity): two units, three keypoints, one `(1, 1, 3)` row -/
example : pwlFnRow ⟨0, 1, 0, 1, 2, false, false, false, false, none, none⟩ (fun l => l.map (fun _ => 1/2))
    (fun _ => 1/2) (some [[1/2]]) true [[0, 1/4, 1]] [1/2] = .ok [1/2, 1/2] := by decide +kernel

/-- **C15/T3, zero input range (fixed finding F-C15-d, ff5f96e).** `keypoint_input_min ≥
keypoint_input_max` is rejected up front with a `ValueError`, whatever else is passed: no call reaches
the division by a zero piece length. -/
theorem C15_T3_zero_input_range_rejected (cfg : PwlFnCfg) (sm : List ℚ → List ℚ) (sg : ℚ → ℚ)
    (inParams : Option (List (List ℚ))) (r3 : Bool) (outParams : List (List ℚ)) (xs : List ℚ)
    (h : cfg.inMax ≤ cfg.inMin) :
    pwlFnRow cfg sm sg inParams r3 outParams xs = .error .valueError := by
  unfold pwlFnRow verifyPwlFn
  simp [h, bind, Except.bind]

/-- **C15/T3, no keypoints (fixed finding F-C15-e, 575725d / 4d4b844).** A `CDF` layer without
keypoints (or units) and a `cdf_fn` call with `num_functions = 0` are rejected with a `ValueError`
instead of returning NaN. -/
theorem C15_T3_zero_keypoints_rejected (a : Activation) (σ : ℚ → ℚ) (red : Reduction) (f U : Nat)
    (scale : List ℚ) (scaling : Option (List (List (List ℚ)))) (kernel : List (List (List ℚ))) (W : Nat)
    (x : List ℚ) :
    layerCall a σ red f U scale kernel 0 W x = .error .valueError ∧
      (f ≠ 0 → cdfFn a σ red f U scaling kernel 0 W x = .error .valueError) := by
  constructor
  · simp [layerCall, bind, Except.bind]
  · intro hf
    unfold cdfFn
    rw [verifyCdf_no_keypoints _ _ _ _ _ hf]
    rfl

/-- **C15/T3, sparsity factor below 1 (fixed finding F-C14-a, 1677739 / 75478be).** `CDF(sparsity_factor=f)`
and `cdf_fn(…, sparsity_factor=f)` with `f < 1` (zero or negative; `layerCallZ` / `cdfFnZ` take the factor as
the Python `int`) are rejected with a `ValueError` — before the fixes factor 0 was a `ZeroDivisionError` —
and without keypoints both reject for EVERY integer factor. -/
theorem C15_T3_bad_sparsity_rejected (a : Activation) (σ : ℚ → ℚ) (red : Reduction) (f : Int) (U : Nat)
    (scale : List ℚ) (scaling : Option (List (List (List ℚ)))) (kernel : List (List (List ℚ))) (K W : Nat)
    (x : List ℚ) :
    (f < 1 → layerCallZ a σ red f U scale kernel K W x = .error .valueError ∧
      cdfFnZ a σ red f U scaling kernel K W x = .error .valueError) ∧
    layerCallZ a σ red f U scale kernel 0 W x = .error .valueError ∧
      cdfFnZ a σ red f U scaling kernel 0 W x = .error .valueError := by
  refine ⟨fun hf => ⟨layerCallZ_lt hf .., cdfFnZ_lt hf ..⟩, ?_, ?_⟩
  · simp [layerCallZ, bind, Except.bind]
  · by_cases hf : f < 1
    · exact cdfFnZ_lt hf ..
    · have hf1 : 1 ≤ f := by omega
      rw [cdfFnZ_pos hf1]
      exact (C15_T3_zero_keypoints_rejected a σ red f.toNat U scale scaling kernel W x).2 (by omega)

/-! ## T2 — CDF layer and `cdf_fn`: outputs in `[0, 1]`, non-decreasing in every input

`entry out r u` is entry `(r, u)` of the returned tensor (`(input_dim / factor, units)` for `'none'`,
a single row of `units` entries for `'mean'`). `σ` is ANY monotone function into `[0, 1]` for the
sigmoid activation; `relu6 / 6` is modelled exactly. The only hypothesis about the configuration is a
successful return (`= .ok out`): the verification of the current tree guarantees at least one basis
function (`C15_T3_zero_keypoints_rejected`) and matching shapes. -/

/-- **C15/T2, bounds (layer).** Every output of `CDF.call` ('mean' / 'none') lies in `[0, 1]`, for every
kernel, every input scaling (any sign), every input. -/
theorem C15_T2_layer_bounded (a : Activation) (σ : ℚ → ℚ) (hσ : SigmoidLike σ) (red : Reduction) (f U : Nat)
    (scale : List ℚ) (kernel : List (List (List ℚ))) (K W : Nat) (x : List ℚ) (out : List (List ℚ))
    (h : layerCall a σ red f U scale kernel K W x = .ok out) :
    ∀ row ∈ out, ∀ v ∈ row, 0 ≤ v ∧ v ≤ 1 := by
  apply entries_of_mem
  intro r u
  obtain ⟨hver, -, hout⟩ := layerCall_ok h
  obtain ⟨hK, hrows, -⟩ := verifyCdf_ok hver
  rw [hout, layerCdfs_eq]
  exact reduceStage_bounds red f x.length U W _ (fun i j => cdfEntry_bounds a σ hσ K hK _) hrows r u

/-- **C15/T2, bounds (function).** Every output of `cdf_fn` ('mean' / 'none') lies in `[0, 1]`, for every
location and scaling parameter tensor (any sign, any broadcast shape, or none). -/
theorem C15_T2_fn_bounded (a : Activation) (σ : ℚ → ℚ) (hσ : SigmoidLike σ) (red : Reduction) (f U : Nat)
    (scaling : Option (List (List (List ℚ)))) (loc : List (List (List ℚ))) (K W : Nat) (x : List ℚ)
    (out : List (List ℚ)) (h : cdfFn a σ red f U scaling loc K W x = .ok out) :
    ∀ row ∈ out, ∀ v ∈ row, 0 ≤ v ∧ v ≤ 1 := by
  apply entries_of_mem
  intro r u
  obtain ⟨hver, hout⟩ := cdfFn_ok h
  obtain ⟨hK, hrows, -⟩ := verifyCdf_ok hver
  rw [hout, fnCdfs_eq]
  exact reduceStage_bounds red f x.length U W _ (fun i j => cdfEntry_bounds a σ hσ K hK _) hrows r u

/-- **C15/T2, monotone (layer).** With non-negative input scaling, raising any inputs (`x ≤ x'`
coordinatewise — in particular ONE input, `C15_T2_layer_monotone_one_input`) does not lower any
output entry, for ALL such pairs. -/
theorem C15_T2_layer_monotone (a : Activation) (σ : ℚ → ℚ) (hσ : SigmoidLike σ) (red : Reduction) (f U : Nat)
    (scale : List ℚ) (kernel : List (List (List ℚ))) (K W : Nat) (x x' : List ℚ) (out out' : List (List ℚ))
    (hs : ∀ i, 0 ≤ bgetR scale i) (hl : x.length = x'.length) (hle : ∀ i, getR x i ≤ getR x' i)
    (h : layerCall a σ red f U scale kernel K W x = .ok out)
    (h' : layerCall a σ red f U scale kernel K W x' = .ok out') (r u : Nat) :
    entry out r u ≤ entry out' r u := by
  obtain ⟨-, -, hout⟩ := layerCall_ok h
  obtain ⟨-, -, hout'⟩ := layerCall_ok h'
  rw [hout, hout', layerCdfs_eq, layerCdfs_eq, ← hl]
  apply reduceStage_mono
  intro i j _ _
  apply cdfEntry_mono a σ hσ
  intro k
  exact mul_le_mul_of_nonneg_left (by linarith [hle i]) (hs i)

/-- **C15/T2, monotone (function).** The same for `cdf_fn` when every (broadcast) scaling entry is
non-negative — e.g. after `scaling_exp_transform_multiplier`, or `scaling_parameters=None`. -/
theorem C15_T2_fn_monotone (a : Activation) (σ : ℚ → ℚ) (hσ : SigmoidLike σ) (red : Reduction) (f U : Nat)
    (scaling : Option (List (List (List ℚ)))) (loc : List (List (List ℚ))) (K W : Nat) (x x' : List ℚ)
    (out out' : List (List ℚ)) (hs : ∀ sc, scaling = some sc → ∀ i k j, 0 ≤ bget3 sc i k j)
    (hl : x.length = x'.length) (hle : ∀ i, getR x i ≤ getR x' i)
    (h : cdfFn a σ red f U scaling loc K W x = .ok out)
    (h' : cdfFn a σ red f U scaling loc K W x' = .ok out') (r u : Nat) :
    entry out r u ≤ entry out' r u := by
  obtain ⟨-, hout⟩ := cdfFn_ok h
  obtain ⟨-, hout'⟩ := cdfFn_ok h'
  rw [hout, hout', fnCdfs_eq, fnCdfs_eq, ← hl]
  apply reduceStage_mono
  intro i j _ _
  apply cdfEntry_mono a σ hσ
  intro k
  unfold fnPre
  cases hsc : scaling with
  | none => simp only; linarith [hle i]
  | some sc =>
    simp only
    exact mul_le_mul_of_nonneg_right (by linarith [hle i]) (hs sc hsc i k j)

/-- **C15/T2, monotone in ONE input.** Raising input `d` alone (any amount, any other inputs). -/
theorem C15_T2_layer_monotone_one_input (a : Activation) (σ : ℚ → ℚ) (hσ : SigmoidLike σ) (red : Reduction)
    (f U : Nat) (scale : List ℚ) (kernel : List (List (List ℚ))) (K W : Nat) (x : List ℚ) (d : Nat) (v : ℚ)
    (out out' : List (List ℚ)) (hs : ∀ i, 0 ≤ bgetR scale i) (hv : getR x d ≤ v)
    (h : layerCall a σ red f U scale kernel K W x = .ok out)
    (h' : layerCall a σ red f U scale kernel K W (x.set d v) = .ok out') (r u : Nat) :
    entry out r u ≤ entry out' r u := by
  apply C15_T2_layer_monotone a σ hσ red f U scale kernel K W x (x.set d v) out out' hs (by simp) _ h h'
  intro i
  rw [getR_set]
  split_ifs with hc
  · rw [hc.1]; exact hv
  · exact le_rfl

/-- **C15/T2, the NonNeg constraint.** Whatever raw value an optimizer step assigned to a learned input
scaling, after the `NonNeg` constraint of `input_scaling_monotonicity='increasing'` every scaling entry
is non-negative … -/
theorem C15_T2_constraint_makes_scaling_nonneg (raw : List ℚ) (i : Nat) :
    0 ≤ bgetR (constrainedScale true raw) i := by
  simpa [constrainedScale] using nonNeg_nonneg raw i

/-- … hence the constrained layer is monotone for EVERY raw scaling. -/
theorem C15_T2_constrained_layer_monotone (a : Activation) (σ : ℚ → ℚ) (hσ : SigmoidLike σ) (red : Reduction)
    (f U : Nat) (raw : List ℚ) (kernel : List (List (List ℚ))) (K W : Nat) (x x' : List ℚ)
    (out out' : List (List ℚ)) (hl : x.length = x'.length) (hle : ∀ i, getR x i ≤ getR x' i)
    (h : layerCall a σ red f U (constrainedScale true raw) kernel K W x = .ok out)
    (h' : layerCall a σ red f U (constrainedScale true raw) kernel K W x' = .ok out') (r u : Nat) :
    entry out r u ≤ entry out' r u :=
  C15_T2_layer_monotone a σ hσ red f U _ kernel K W x x' out out'
    (C15_T2_constraint_makes_scaling_nonneg raw) hl hle h h' r u

/-- **C15/T2 from the `int` entry points.** Whatever integer `sparsity_factor` the caller passes: if the
layer / the function returns at all, the factor was `≥ 1` and the output lies in `[0, 1]` (the statements
above apply to `f.toNat`; likewise the monotonicity theorems). -/
theorem C15_T2_bounded_int (a : Activation) (σ : ℚ → ℚ) (hσ : SigmoidLike σ) (red : Reduction) (f : Int) (U : Nat)
    (scale : List ℚ) (scaling : Option (List (List (List ℚ)))) (kernel : List (List (List ℚ))) (K W : Nat)
    (x : List ℚ) (out : List (List ℚ)) :
    (layerCallZ a σ red f U scale kernel K W x = .ok out → 1 ≤ f ∧ ∀ row ∈ out, ∀ v ∈ row, 0 ≤ v ∧ v ≤ 1) ∧
    (cdfFnZ a σ red f U scaling kernel K W x = .ok out → 1 ≤ f ∧ ∀ row ∈ out, ∀ v ∈ row, 0 ≤ v ∧ v ≤ 1) := by
  constructor
  · intro h
    obtain ⟨hf, h'⟩ := layerCallZ_ok h
    exact ⟨hf, C15_T2_layer_bounded a σ hσ red f.toNat U scale kernel K W x out h'⟩
  · intro h
    obtain ⟨hf, h'⟩ := cdfFnZ_ok h
    exact ⟨hf, C15_T2_fn_bounded a σ hσ red f.toNat U scaling kernel K W x out h'⟩

/-- **C15/T2, monotone, from the `int` entry points.** -/
theorem C15_T2_layer_monotone_int (a : Activation) (σ : ℚ → ℚ) (hσ : SigmoidLike σ) (red : Reduction) (f : Int)
    (U : Nat) (scale : List ℚ) (kernel : List (List (List ℚ))) (K W : Nat) (x x' : List ℚ)
    (out out' : List (List ℚ)) (hs : ∀ i, 0 ≤ bgetR scale i) (hl : x.length = x'.length)
    (hle : ∀ i, getR x i ≤ getR x' i)
    (h : layerCallZ a σ red f U scale kernel K W x = .ok out)
    (h' : layerCallZ a σ red f U scale kernel K W x' = .ok out') (r u : Nat) :
    entry out r u ≤ entry out' r u :=
  C15_T2_layer_monotone a σ hσ red f.toNat U scale kernel K W x x' out out' hs hl hle
    (layerCallZ_ok h).2 (layerCallZ_ok h').2 r u

theorem C15_T2_fn_monotone_int (a : Activation) (σ : ℚ → ℚ) (hσ : SigmoidLike σ) (red : Reduction) (f : Int)
    (U : Nat) (scaling : Option (List (List (List ℚ)))) (loc : List (List (List ℚ))) (K W : Nat) (x x' : List ℚ)
    (out out' : List (List ℚ)) (hs : ∀ sc, scaling = some sc → ∀ i k j, 0 ≤ bget3 sc i k j)
    (hl : x.length = x'.length) (hle : ∀ i, getR x i ≤ getR x' i)
    (h : cdfFnZ a σ red f U scaling loc K W x = .ok out)
    (h' : cdfFnZ a σ red f U scaling loc K W x' = .ok out') (r u : Nat) :
    entry out r u ≤ entry out' r u :=
  C15_T2_fn_monotone a σ hσ red f.toNat U scaling loc K W x x' out out' hs hl hle
    (cdfFnZ_ok h).2 (cdfFnZ_ok h').2 r u

/-- **Counter-witness (why non-negative scaling is a hypothesis).** `input_scaling_type='fixed'` with a
negative `input_scaling_init` (or `input_scaling_monotonicity='none'`) is not constrained: the layer is
then decreasing. -/
theorem negative_fixed_scaling_is_decreasing :
    layerCall .relu6 id .mean 1 1 [-1] [[[0]]] 1 1 [-3] = .ok [[1/2]] ∧
    layerCall .relu6 id .mean 1 1 [-1] [[[0]]] 1 1 [0] = .ok [[0]] := by decide +kernel

/-! ### the geometric mean (over ℝ) -/

/-- column `u` of the stage before the reduction, as reals -/
def realColumn (m : List (List ℚ)) (u : Nat) : List ℝ := m.map (fun row => ((getR row u : ℚ) : ℝ))

/-- `reduction='geometric_mean'` of output unit `u`: `exp(mean_r log(m[r][u] + ε))`, `ε = 1e-3` in the
layer, `1e-8` in `cdf_fn` -/
noncomputable def geoColumn (ε : ℝ) (m : List (List ℚ)) (u : Nat) : ℝ := CondReal.geoMean ε (realColumn m u)

/-- any `(input_dim, W)` matrix with entries in `[0, 1]`, reshaped by the sparsity factor: the
geometric mean of a column lies in `[ε, 1 + ε]` -/
theorem geoColumn_bounds (ε : ℝ) (hε : 0 < ε) (f I U W : Nat) (g : Nat → Nat → ℚ)
    (hg : ∀ i j, 0 ≤ g i j ∧ g i j ≤ 1) (hrows : 0 < (if f ≠ 1 then I / f else I)) (u : Nat) :
    ε ≤ geoColumn ε (sparsify f I U (matOf I W g)) u ∧ geoColumn ε (sparsify f I U (matOf I W g)) u ≤ 1 + ε := by
  unfold geoColumn realColumn
  apply CondReal.geoMean_bounds ε hε
  · intro e
    have := congrArg List.length e
    rw [List.length_map, length_sparsify, List.length_nil] at this
    omega
  · intro v hv
    simp only [List.mem_map] at hv
    obtain ⟨row, hrow, rfl⟩ := hv
    obtain ⟨r, hr1, hr2⟩ := List.getElem_of_mem hrow
    have hb := entry_sparsify_bounds f I U W g hg r u
    unfold entry at hb
    rw [List.getD_eq_getElem?_getD, List.getElem?_eq_getElem hr1, Option.getD_some, hr2] at hb
    exact ⟨by exact_mod_cast hb.1, by exact_mod_cast hb.2⟩

/-- entrywise larger matrices give larger geometric means -/
theorem geoColumn_mono (ε : ℝ) (hε : 0 < ε) (f I U W : Nat) (g g' : Nat → Nat → ℚ)
    (hg0 : ∀ i j, 0 ≤ g i j) (hg : ∀ i j, i < I → j < W → g i j ≤ g' i j) (u : Nat) :
    geoColumn ε (sparsify f I U (matOf I W g)) u ≤ geoColumn ε (sparsify f I U (matOf I W g')) u := by
  unfold geoColumn realColumn
  apply CondReal.geoMean_mono ε hε
  · rw [List.forall₂_map_left_iff, List.forall₂_map_right_iff, List.forall₂_iff_get]
    refine ⟨by simp [length_sparsify], ?_⟩
    intro r h1 h2
    have hm := entry_sparsify_mono f I U W g g' hg r u
    unfold entry at hm
    rw [List.getD_eq_getElem?_getD, List.getElem?_eq_getElem h1, Option.getD_some,
      List.getD_eq_getElem?_getD, List.getElem?_eq_getElem h2, Option.getD_some] at hm
    simp only [List.get_eq_getElem]
    exact_mod_cast hm
  · intro v hv
    simp only [List.mem_map] at hv
    obtain ⟨row, hrow, rfl⟩ := hv
    obtain ⟨r, hr1, hr2⟩ := List.getElem_of_mem hrow
    rcases entry_sparsify_cases f I U W g r u with h | ⟨i, j, _, _, h, _⟩
    · unfold entry at h
      rw [List.getD_eq_getElem?_getD, List.getElem?_eq_getElem hr1, Option.getD_some, hr2] at h
      rw [h]; norm_num
    · unfold entry at h
      rw [List.getD_eq_getElem?_getD, List.getElem?_eq_getElem hr1, Option.getD_some, hr2] at h
      rw [h]; exact_mod_cast hg0 i j

/-- **C15/T2, geometric mean: bounds.** For every `ε > 0` the geometric-mean reduction of the layer
(any scaling, kernel, input; `relu6` exactly, sigmoid for any `σ` into `[0, 1]`) lies in `[ε, 1 + ε]` —
the documented epsilon of the property. -/
theorem C15_T2_geometric_mean_bounded (ε : ℝ) (hε : 0 < ε) (a : Activation) (σ : ℚ → ℚ) (hσ : SigmoidLike σ)
    (f U : Nat) (scale : List ℚ) (kernel : List (List (List ℚ))) (K W : Nat) (x : List ℚ)
    (hver : verifyCdf f x.length U K W kernel.length = .ok ()) (u : Nat) :
    ε ≤ geoColumn ε (sparsify f x.length U (layerCdfs a σ scale kernel K W x)) u ∧
      geoColumn ε (sparsify f x.length U (layerCdfs a σ scale kernel K W x)) u ≤ 1 + ε := by
  obtain ⟨hK, hrows, -⟩ := verifyCdf_ok hver
  rw [layerCdfs_eq]
  exact geoColumn_bounds ε hε f x.length U W _ (fun i j => cdfEntry_bounds a σ hσ K hK _) hrows u

/-- **C15/T2, geometric mean: bounds (function).** The same for `cdf_fn`, any scaling tensor or none. -/
theorem C15_T2_fn_geometric_mean_bounded (ε : ℝ) (hε : 0 < ε) (a : Activation) (σ : ℚ → ℚ) (hσ : SigmoidLike σ)
    (f U : Nat) (scaling : Option (List (List (List ℚ)))) (loc : List (List (List ℚ))) (K W : Nat) (x : List ℚ)
    (hver : verifyCdf f x.length U K W loc.length = .ok ()) (u : Nat) :
    ε ≤ geoColumn ε (sparsify f x.length U (fnCdfs a σ scaling loc K W x)) u ∧
      geoColumn ε (sparsify f x.length U (fnCdfs a σ scaling loc K W x)) u ≤ 1 + ε := by
  obtain ⟨hK, hrows, -⟩ := verifyCdf_ok hver
  rw [fnCdfs_eq]
  exact geoColumn_bounds ε hε f x.length U W _ (fun i j => cdfEntry_bounds a σ hσ K hK _) hrows u

/-- **C15/T2, geometric mean: monotone.** With non-negative scaling the geometric-mean reduction is
non-decreasing in every input, for ALL pairs `x ≤ x'`. -/
theorem C15_T2_geometric_mean_monotone (ε : ℝ) (hε : 0 < ε) (a : Activation) (σ : ℚ → ℚ) (hσ : SigmoidLike σ)
    (f U : Nat) (scale : List ℚ) (kernel : List (List (List ℚ))) (K W : Nat) (x x' : List ℚ)
    (hver : verifyCdf f x.length U K W kernel.length = .ok ())
    (hs : ∀ i, 0 ≤ bgetR scale i) (hl : x.length = x'.length) (hle : ∀ i, getR x i ≤ getR x' i) (u : Nat) :
    geoColumn ε (sparsify f x.length U (layerCdfs a σ scale kernel K W x)) u
      ≤ geoColumn ε (sparsify f x'.length U (layerCdfs a σ scale kernel K W x')) u := by
  obtain ⟨hK, hrows, -⟩ := verifyCdf_ok hver
  rw [layerCdfs_eq, layerCdfs_eq, ← hl]
  exact geoColumn_mono ε hε f x.length U W _ _ (fun i j => (cdfEntry_bounds a σ hσ K hK _).1)
    (fun i j _ _ => cdfEntry_mono a σ hσ K _ _
      (fun k => mul_le_mul_of_nonneg_left (by linarith [hle i]) (hs i))) u

/-- **C15/T2, geometric mean: monotone (function)**, for non-negative (broadcast) scaling or none. -/
theorem C15_T2_fn_geometric_mean_monotone (ε : ℝ) (hε : 0 < ε) (a : Activation) (σ : ℚ → ℚ) (hσ : SigmoidLike σ)
    (f U : Nat) (scaling : Option (List (List (List ℚ)))) (loc : List (List (List ℚ))) (K W : Nat) (x x' : List ℚ)
    (hver : verifyCdf f x.length U K W loc.length = .ok ())
    (hs : ∀ sc, scaling = some sc → ∀ i k j, 0 ≤ bget3 sc i k j)
    (hl : x.length = x'.length) (hle : ∀ i, getR x i ≤ getR x' i) (u : Nat) :
    geoColumn ε (sparsify f x.length U (fnCdfs a σ scaling loc K W x)) u
      ≤ geoColumn ε (sparsify f x'.length U (fnCdfs a σ scaling loc K W x')) u := by
  obtain ⟨hK, hrows, -⟩ := verifyCdf_ok hver
  rw [fnCdfs_eq, fnCdfs_eq, ← hl]
  apply geoColumn_mono ε hε f x.length U W _ _ (fun i j => (cdfEntry_bounds a σ hσ K hK _).1)
  intro i j _ _
  apply cdfEntry_mono a σ hσ
  intro k
  unfold fnPre
  cases hsc : scaling with
  | none => simp only; linarith [hle i]
  | some sc =>
    simp only
    exact mul_le_mul_of_nonneg_right (by linarith [hle i]) (hs sc hsc i k j)

/-! ### non-vacuity -/

/-- the hypotheses on `sm` / `sg` are satisfiable: uniform weights, a clipped ramp -/
example : SoftmaxLike (fun l => l.map (fun _ => 1 / (l.length : ℚ))) := by
  refine ⟨fun l => by simp, ?_, ?_⟩
  · intro l w hw
    simp only [List.mem_map] at hw
    obtain ⟨a, ha, rfl⟩ := hw
    have : 0 < l.length := List.length_pos_iff.mpr (List.ne_nil_of_mem ha)
    positivity
  · intro l hne
    have hp : (0 : ℚ) < (l.length : ℚ) := by exact_mod_cast List.length_pos_iff.mpr hne
    have : ∀ (c : ℚ) (m : List ℚ), rsum (m.map (fun _ => c)) = c * (m.length : ℚ) := by
      intro c m
      induction m with
      | nil => simp
      | cons a t ih => simp only [List.map_cons, rsum, ih, List.length_cons]; push_cast; ring
    rw [this]; field_simp
example : SigmoidLike (fun z => max 0 (min z 1)) :=
  ⟨fun a b h => max_le_max le_rfl (min_le_min h le_rfl), fun z => le_max_left _ _,
    fun z => max_le (by norm_num) (min_le_right _ _)⟩
example : layerCall .relu6 id .none 2 2 [2] [[[0]], [[1]], [[1/2]], [[0]]] 1 1 [1, 2, 1, 4]
    = .ok [[1/3, 1/3], [1/6, 1]] := by decide +kernel

end Tfl.C15
