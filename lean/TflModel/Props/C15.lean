import TflModel.Lemmas.Alt
import TflModel.Lemmas.CondReal
import TflModel.Props.C05
/-!
# C15 — conditional calibration and CDF functions are bounded and monotone by construction

Model: `Tfl.Alt` (`Model/Alt.lean`): `pwlFn1` / `pwlFnRow` (`pwl_calibration_fn`, one unit / all units
of one example), `layerCall` (`CDF.call`), `cdfFn` (`cdf_fn`).

Hypotheses of the `pwl_calibration_fn` theorems, for ANY functions `sm`, `sg`:
* `SoftmaxLike sm` — `sm` preserves lengths and returns positive weights summing to one (what the
  exact softmax does; the float32 softmax of |parameters| ≳ 10³ underflows to zeros: finding F-C15-b),
* `SigmoidLike sg` — `sg` is monotone with values in `[0, 1]`,
* `ValidPwl cfg n outRow.length` — exactly what `_verify_pwl_calibration` accepts
  (`C15_T1_verify_gives_valid`: it follows from `verifyPwlFn … = .ok ()`, including
  `keypoint_input_min < keypoint_input_max` since fix ff5f96e of finding F-C15-d); `C15_T1_call_bounded`
  states the bound directly for every successful call `pwlFnRow … = .ok ys`,
* `inRow.length + 1 = n` — `inRow` is the padded logit row the code feeds to the input softmax.
The proofs go through C14/T2 (`paired_eq`: the function is the `PWLCalibration` layer holding the
derived keypoints and weights) and C05's theorems about that layer.
-/
namespace Tfl.C15
open Tfl Tfl.Alt

section pwl
variable (cfg : PwlFnCfg) (sm : List ℚ → List ℚ) (sg : ℚ → ℚ) (inRow outRow : List ℚ) (n : Nat)

/-- away from the missing value the function is the interpolation -/
theorem pwlFn1_not_missing (x : ℚ) (hx : cfg.missingInput ≠ some x) :
    pwlFn1 cfg sm sg inRow outRow x
      = calibrated cfg (keypointDeltas cfg sm inRow) (kernelOutputs cfg sm sg outRow) x := by
  unfold pwlFn1
  cases hm : cfg.missingInput with
  | none => simp
  | some v =>
    have hne : x ≠ v := fun e => hx (by rw [hm, e])
    cases missingOut cfg sg outRow <;> simp [hne]

/-- the interpolation itself (before the missing-value switch) is within the output bounds at EVERY input -/
theorem calibrated_bounded (hsm : SoftmaxLike sm) (hsg : SigmoidLike sg) (hv : ValidPwl cfg n outRow.length)
    (hin : inRow.length + 1 = n) (x : ℚ) :
    cfg.outMin ≤ calibrated cfg (keypointDeltas cfg sm inRow) (kernelOutputs cfg sm sg outRow) x ∧
      calibrated cfg (keypointDeltas cfg sm inRow) (kernelOutputs cfg sm sg outRow) x ≤ cfg.outMax := by
  rw [paired_eq cfg sm sg inRow outRow n hv x]
  exact C05.pwl_bounded (paired_wf cfg sm sg inRow outRow n hsm hv hin) cfg.outMin cfg.outMax
    (fun j hj => paired_outputs_bounded cfg sm sg inRow outRow n hsm hsg hv hin j hj) x

/-- **C15/T1, bounds.** For every parameter vector (any `inRow`, `outRow`), every softmax-like and
sigmoid-like function and EVERY input `x` (also the missing value), the output lies in
`[keypoint_output_min, keypoint_output_max]` — provided a user-fixed `missing_output_value`, which is
returned verbatim (`C15_T1_missing`), was chosen inside that range. -/
theorem C15_T1_bounded (hsm : SoftmaxLike sm) (hsg : SigmoidLike sg) (hv : ValidPwl cfg n outRow.length)
    (hin : inRow.length + 1 = n)
    (hmo : ∀ v, cfg.missingOutput = some v → cfg.outMin ≤ v ∧ v ≤ cfg.outMax) (x : ℚ) :
    cfg.outMin ≤ pwlFn1 cfg sm sg inRow outRow x ∧ pwlFn1 cfg sm sg inRow outRow x ≤ cfg.outMax := by
  have hc := calibrated_bounded cfg sm sg inRow outRow n hsm hsg hv hin x
  unfold pwlFn1
  cases hm : cfg.missingInput with
  | none => simpa using hc
  | some v =>
    cases hmv : cfg.missingOutput with
    | some mo =>
      simp only [missingOut, hm, hmv]
      split_ifs
      · exact hmo mo hmv
      · exact hc
    | none =>
      simp only [missingOut, hm, hmv]
      split_ifs
      · have h0 := hsg.lo (outRow.getLastD 0)
        have h1 := hsg.hi (outRow.getLastD 0)
        have hr := hv.outRange
        constructor <;> nlinarith
      · exact hc

/-- **C15/T1, monotone.** With `monotonicity='increasing'` the output is non-decreasing in the input
for ALL pairs `x ≤ y` (on, between, outside the keypoints), neither being the missing value. -/
theorem C15_T1_monotone (hsm : SoftmaxLike sm) (hv : ValidPwl cfg n outRow.length)
    (hin : inRow.length + 1 = n) (hinc : cfg.increasing = true) (x y : ℚ) (hxy : x ≤ y)
    (hx : cfg.missingInput ≠ some x) (hy : cfg.missingInput ≠ some y) :
    pwlFn1 cfg sm sg inRow outRow x ≤ pwlFn1 cfg sm sg inRow outRow y := by
  rw [pwlFn1_not_missing cfg sm sg inRow outRow x hx, pwlFn1_not_missing cfg sm sg inRow outRow y hy,
    paired_eq cfg sm sg inRow outRow n hv x, paired_eq cfg sm sg inRow outRow n hv y]
  exact C05.pwl_monotone_increasing (paired_wf cfg sm sg inRow outRow n hsm hv hin)
    (fun j hj => paired_outputs_monotone cfg sm sg inRow outRow n hsm hv hin hinc j hj) x y hxy

/-- **C15/T1, clamp_min.** With `clamp_min` the output is EXACTLY `keypoint_output_min` at the first
keypoint `keypoint_input_min` (and everywhere to its left). -/
theorem C15_T1_clamp_min (hsm : SoftmaxLike sm) (hv : ValidPwl cfg n outRow.length)
    (hin : inRow.length + 1 = n) (hcm : cfg.clampMin = true) (x : ℚ) (hx : x ≤ cfg.inMin)
    (hxm : cfg.missingInput ≠ some x) :
    pwlFn1 cfg sm sg inRow outRow x = cfg.outMin := by
  have hwf := paired_wf cfg sm sg inRow outRow n hsm hv hin
  rw [pwlFn1_not_missing cfg sm sg inRow outRow x hxm, paired_eq cfg sm sg inRow outRow n hv x,
    C05.pwl_constant_left hwf x (by rw [(paired_keypoints cfg sm inRow outRow n hsm hv hin).1]; exact hx)]
  exact paired_first_output cfg sm sg inRow outRow n hsm hv hcm

/-- **C15/T1, clamp_max.** With `clamp_max` the output is EXACTLY `keypoint_output_max` at the last
keypoint `keypoint_input_max` (and everywhere to its right). -/
theorem C15_T1_clamp_max (hsm : SoftmaxLike sm) (hv : ValidPwl cfg n outRow.length)
    (hin : inRow.length + 1 = n) (hcm : cfg.clampMax = true) (x : ℚ) (hx : cfg.inMax ≤ x)
    (hxm : cfg.missingInput ≠ some x) :
    pwlFn1 cfg sm sg inRow outRow x = cfg.outMax := by
  have hwf := paired_wf cfg sm sg inRow outRow n hsm hv hin
  rw [pwlFn1_not_missing cfg sm sg inRow outRow x hxm, paired_eq cfg sm sg inRow outRow n hv x,
    C05.pwl_constant_right hwf x (by rw [(paired_keypoints cfg sm inRow outRow n hsm hv hin).2]; exact hx)]
  exact paired_last_output cfg sm sg inRow outRow n hsm hv hin hcm

/-- **C15/T1, cyclic.** With `is_cyclic` the outputs at (and beyond) both end keypoints coincide. -/
theorem C15_T1_cyclic (hsm : SoftmaxLike sm) (hv : ValidPwl cfg n outRow.length)
    (hin : inRow.length + 1 = n) (hc : cfg.cyclic = true) (x y : ℚ) (hx : x ≤ cfg.inMin)
    (hy : cfg.inMax ≤ y) (hxm : cfg.missingInput ≠ some x) (hym : cfg.missingInput ≠ some y) :
    pwlFn1 cfg sm sg inRow outRow x = pwlFn1 cfg sm sg inRow outRow y := by
  have hwf := paired_wf cfg sm sg inRow outRow n hsm hv hin
  have hk := paired_keypoints cfg sm inRow outRow n hsm hv hin
  rw [pwlFn1_not_missing cfg sm sg inRow outRow x hxm, pwlFn1_not_missing cfg sm sg inRow outRow y hym,
    paired_eq cfg sm sg inRow outRow n hv x, paired_eq cfg sm sg inRow outRow n hv y]
  exact (C05.pwl_cyclic_equal_ends hwf (by simp [layerCfg, hc])).2 x y (by rw [hk.1]; exact hx)
    (by rw [hk.2]; exact hy)

/-- **C15/T1, missing.** The missing input value maps to the missing output: the user's
`missing_output_value` when given, otherwise `keypoint_output_min + sigmoid(last parameter) ·
(keypoint_output_max − keypoint_output_min)` — whatever the other parameters are. -/
theorem C15_T1_missing (v : ℚ) (hm : cfg.missingInput = some v) :
    pwlFn1 cfg sm sg inRow outRow v =
      match cfg.missingOutput with
      | some mo => mo
      | none => cfg.outMin + sg (outRow.getLastD 0) * (cfg.outMax - cfg.outMin) := by
  unfold pwlFn1
  cases hmv : cfg.missingOutput <;> simp [missingOut, hm, hmv]

/-- **C15/T1, bookkeeping.** For every clamp / cyclic / missing combination that
`_verify_pwl_calibration` accepts, `output_param_size` parameters produce — after the front padding,
the clamp padding, the cyclic closing and the dropped entries — exactly one kernel entry per keypoint,
i.e. as many as interpolation weights: `weights * kernel_outputs` is an elementwise product of
equally long vectors. -/
theorem C15_T1_output_param_size (hsm : SoftmaxLike sm) (hv : ValidPwl cfg n outRow.length)
    (hin : inRow.length + 1 = n) (x : ℚ) :
    (kernelOutputs cfg sm sg outRow).length = n ∧
      (Alt.interpWeights x (keypointsOf cfg (keypointDeltas cfg sm inRow)) (keypointDeltas cfg sm inRow)).length = n := by
  refine ⟨kernelOutputs_length cfg sm sg outRow n hsm.len hv, ?_⟩
  rw [keypointsOf_eq]
  simp [Alt.interpWeights, PwlEval.length_cumsumExcl, deltas_length cfg sm inRow hsm, hin]

/-- **the hypotheses follow from the verification**: whatever `_verify_pwl_calibration` accepts is
`ValidPwl` — in particular `keypoint_input_min < keypoint_input_max` (no zero-length pieces). -/
theorem C15_T1_verify_gives_valid (inLast : Option Nat) (r3 : Bool) (rows outLast cols : Nat)
    (h : verifyPwlFn cfg inLast r3 rows outLast cols = .ok ()) :
    ValidPwl cfg (numKeypoints inLast) outLast :=
  verify_ok_valid cfg inLast r3 rows outLast cols h

/-- **C15/T1, bounds, whole call.** Every output of every SUCCESSFUL call (all units of one example; the
parameter rows of a tensor are equally long) lies in `[keypoint_output_min, keypoint_output_max]`: no
hypothesis beyond what the call itself verified. -/
theorem C15_T1_call_bounded (hsm : SoftmaxLike sm) (hsg : SigmoidLike sg)
    (inParams : Option (List (List ℚ))) (r3 : Bool) (outParams : List (List ℚ)) (xs ys : List ℚ)
    (hin : ∀ rows, inParams = some rows → ∀ r ∈ rows, r.length = (rows.headD []).length)
    (hout : ∀ r ∈ outParams, r.length = (outParams.headD []).length)
    (hmo : ∀ v, cfg.missingOutput = some v → cfg.outMin ≤ v ∧ v ≤ cfg.outMax)
    (h : pwlFnRow cfg sm sg inParams r3 outParams xs = .ok ys) :
    ∀ y ∈ ys, cfg.outMin ≤ y ∧ y ≤ cfg.outMax := by
  unfold pwlFnRow at h
  simp only [bind, Except.bind] at h
  split at h
  · cases h
  · rename_i v hver
    have hv := verify_ok_valid cfg _ r3 _ _ _ hver
    split_ifs at h with hc
    simp only [pure, Except.pure, Except.ok.injEq] at h
    have hc' : (inputRows cfg inParams).length = cfg.units ∧ (tileUnits cfg.units outParams).length = cfg.units := by
      constructor <;> by_contra hne <;> exact hc (by simp [hne])
    intro y hy
    rw [← h] at hy
    simp only [List.mem_map, List.mem_range] at hy
    obtain ⟨u, hu, rfl⟩ := hy
    have hi_mem : (inputRows cfg inParams).getD u [] ∈ inputRows cfg inParams := by
      rw [List.getD_eq_getElem?_getD, List.getElem?_eq_getElem (by rw [hc'.1]; exact hu), Option.getD_some]
      exact List.getElem_mem _
    have ho_mem : (tileUnits cfg.units outParams).getD u [] ∈ outParams := by
      apply mem_tileUnits cfg.units
      rw [List.getD_eq_getElem?_getD, List.getElem?_eq_getElem (by rw [hc'.2]; exact hu), Option.getD_some]
      exact List.getElem_mem _
    have hv' : ValidPwl cfg (numKeypoints (inParams.map (fun r => (r.headD []).length)))
        ((tileUnits cfg.units outParams).getD u []).length := by rw [hout _ ho_mem]; exact hv
    generalize (inputRows cfg inParams).getD u [] = inRow at hi_mem ⊢
    apply C15_T1_bounded cfg sm sg inRow _ _ hsm hsg hv' _ hmo
    cases inParams with
    | none =>
      simp only [inputRows, List.mem_replicate] at hi_mem
      rw [hi_mem.2]; rfl
    | some rows =>
      simp only [inputRows, List.mem_map] at hi_mem
      obtain ⟨r, hr, hr2⟩ := hi_mem
      rw [← hr2]
      simp [numKeypoints, hin rows rfl r (mem_tileUnits _ _ _ hr)]

end pwl

/-! ## T3 — documented call forms -/

/-- **C15/T3.** Omitted interior keypoint parameters (`keypoint_input_parameters=None`, two fixed
keypoints) are accepted: whenever the verification passes, the call returns one output per unit. -/
theorem C15_T3_none_accepted (cfg : PwlFnCfg) (sm : List ℚ → List ℚ) (sg : ℚ → ℚ) (r3 : Bool)
    (outParams : List (List ℚ)) (xs : List ℚ) (hu : 1 ≤ cfg.units) (hr2 : r3 = false → outParams.length = 1)
    (h : verifyPwlFn cfg none r3 outParams.length (outParams.headD []).length xs.length = .ok ()) :
    ∃ ys, pwlFnRow cfg sm sg none r3 outParams xs = .ok ys ∧ ys.length = cfg.units := by
  have hlen : (tileUnits cfg.units outParams).length = cfg.units := by
    unfold verifyPwlFn at h
    split_ifs at h with h1 h2 h3 h4 h5 h6 h7 h8 h9 h10
    cases r3 with
    | true =>
      have h8' : outParams.length = 1 ∨ outParams.length = cfg.units := by
        simp only [Bool.true_and, decide_eq_true_eq, not_and, not_not] at h8
        by_cases h1' : outParams.length = 1
        · exact Or.inl h1'
        · exact Or.inr (h8 h1')
      unfold tileUnits
      split
      · rename_i r
        split_ifs with hgt
        · simp
        · simp at h8' ⊢; omega
      · rename_i hne1
        rcases h8' with h1' | hu'
        · match outParams, h1' with
          | [r], _ => exact absurd rfl (hne1 r)
        · exact hu'
    | false =>
      have h7' : cfg.units ≤ 1 := by simpa using h7
      have hl := hr2 rfl
      match outParams, hl with
      | [r], _ =>
        have : ¬ cfg.units > 1 := by omega
        simp [tileUnits, this]; omega
  have e : pwlFnRow cfg sm sg none r3 outParams xs = .ok ((List.range cfg.units).map fun u =>
      pwlFn1 cfg sm sg ((inputRows cfg none).getD u []) ((tileUnits cfg.units outParams).getD u [])
        (getR (tileInputs cfg.units xs) u)) := by
    unfold pwlFnRow
    simp only [Option.map_none, h, bind, Except.bind, inputRows, List.length_replicate, hlen, ne_eq,
      not_true_eq_false, or_self, if_false, pure, Except.pure]
  refine ⟨_, e, ?_⟩
  rw [List.length_map, List.length_range]

/-- two keypoints, `None` interior parameters, every mode: the model accepts (non-vacuity of T3) -/
example : verifyPwlFn ⟨0, 1, 0, 1, 2, true, true, false, false, some (-1), none⟩ none true 2 2 1 = .ok () := by
  decide +kernel

/-- **C15/T3, unit broadcast (fixed finding F-C15-c, ab7779b).** The documented form
`(batch, 1, output_param_size)` — ONE parameter row for all `units > 1` — is accepted exactly when the
tiled `(batch, units, output_param_size)` tensor is, and returns the same outputs: broadcasting over
units is tiling, for every configuration, parameter row and input. -/
theorem C15_T3_unit_broadcast_eq_tiling (cfg : PwlFnCfg) (sm : List ℚ → List ℚ) (sg : ℚ → ℚ)
    (inParams : Option (List (List ℚ))) (row : List ℚ) (xs : List ℚ) (hu : 1 < cfg.units) :
    pwlFnRow cfg sm sg inParams true [row] xs
      = pwlFnRow cfg sm sg inParams true (List.replicate cfg.units row) xs := by
  have hne : ∀ r, List.replicate cfg.units row ≠ [r] := by
    intro r e
    have := congrArg List.length e
    simp at this; omega
  have ht : tileUnits cfg.units (List.replicate cfg.units row) = List.replicate cfg.units row := by
    unfold tileUnits
    split
    · rename_i r heq; exact absurd heq (hne r)
    · rfl
  have hh : (List.replicate cfg.units row).headD [] = row := by
    cases hcu : cfg.units with
    | zero => omega
    | succ m => simp [List.replicate_succ]
  have hv : verifyPwlFn cfg (inParams.map (fun r => (r.headD []).length)) true [row].length
        ([row].headD []).length xs.length
      = verifyPwlFn cfg (inParams.map (fun r => (r.headD []).length)) true
        (List.replicate cfg.units row).length ((List.replicate cfg.units row).headD []).length xs.length := by
    rw [hh]
    unfold verifyPwlFn
    have hd : decide ([row].length ≠ 1 ∧ [row].length ≠ cfg.units)
        = decide ((List.replicate cfg.units row).length ≠ 1 ∧ (List.replicate cfg.units row).length ≠ cfg.units) := by
      apply decide_eq_decide.mpr
      simp
    rw [hd]
    rfl
  unfold pwlFnRow
  rw [hv, ht]
  simp [tileUnits, hu]

/-- the form is indeed accepted (non-vacuity): two units, three keypoints, one `(1, 1, 3)` row -/
example : pwlFnRow ⟨0, 1, 0, 1, 2, false, false, false, false, none, none⟩ (fun l => l.map (fun _ => 1/2))
    (fun _ => 1/2) (some [[1/2]]) true [[0, 1/4, 1]] [1/2] = .ok [1/2, 1/2] := by decide +kernel

/-- **C15/T3, zero input range (fixed finding F-C15-d, ff5f96e).** `keypoint_input_min ≥
keypoint_input_max` is rejected up front with a `ValueError`, whatever else is passed: no call reaches
the division by a zero piece length. -/
theorem C15_T3_zero_input_range_rejected (cfg : PwlFnCfg) (sm : List ℚ → List ℚ) (sg : ℚ → ℚ)
    (inParams : Option (List (List ℚ))) (r3 : Bool) (outParams : List (List ℚ)) (xs : List ℚ)
    (h : cfg.inMax ≤ cfg.inMin) :
    pwlFnRow cfg sm sg inParams r3 outParams xs = .error .valueError := by
  unfold pwlFnRow verifyPwlFn
  simp [h, bind, Except.bind]

/-- **C15/T3, no keypoints (fixed finding F-C15-e, 575725d / 4d4b844).** A `CDF` layer without
keypoints (or units) and a `cdf_fn` call with `num_functions = 0` are rejected with a `ValueError`
instead of returning NaN. -/
theorem C15_T3_zero_keypoints_rejected (a : Activation) (σ : ℚ → ℚ) (red : Reduction) (f U : Nat)
    (scale : List ℚ) (scaling : Option (List (List (List ℚ)))) (kernel : List (List (List ℚ))) (W : Nat)
    (x : List ℚ) :
    layerCall a σ red f U scale kernel 0 W x = .error .valueError ∧
      (f ≠ 0 → cdfFn a σ red f U scaling kernel 0 W x = .error .valueError) := by
  constructor
  · simp [layerCall, bind, Except.bind]
  · intro hf
    unfold cdfFn
    rw [verifyCdf_no_keypoints _ _ _ _ _ hf]
    rfl

/-- **C15/T3, sparsity factor below 1 (fixed finding F-C14-a, 1677739 / 75478be).** `CDF(sparsity_factor=f)`
and `cdf_fn(…, sparsity_factor=f)` with `f < 1` (zero or negative; `layerCallZ` / `cdfFnZ` take the factor as
the Python `int`) are rejected with a `ValueError` — before the fixes factor 0 was a `ZeroDivisionError` —
and without keypoints both reject for EVERY integer factor. -/
theorem C15_T3_bad_sparsity_rejected (a : Activation) (σ : ℚ → ℚ) (red : Reduction) (f : Int) (U : Nat)
    (scale : List ℚ) (scaling : Option (List (List (List ℚ)))) (kernel : List (List (List ℚ))) (K W : Nat)
    (x : List ℚ) :
    (f < 1 → layerCallZ a σ red f U scale kernel K W x = .error .valueError ∧
      cdfFnZ a σ red f U scaling kernel K W x = .error .valueError) ∧
    layerCallZ a σ red f U scale kernel 0 W x = .error .valueError ∧
      cdfFnZ a σ red f U scaling kernel 0 W x = .error .valueError := by
  refine ⟨fun hf => ⟨layerCallZ_lt hf .., cdfFnZ_lt hf ..⟩, ?_, ?_⟩
  · simp [layerCallZ, bind, Except.bind]
  · by_cases hf : f < 1
    · exact cdfFnZ_lt hf ..
    · have hf1 : 1 ≤ f := by omega
      rw [cdfFnZ_pos hf1]
      exact (C15_T3_zero_keypoints_rejected a σ red f.toNat U scale scaling kernel W x).2 (by omega)

/-! ## T2 — CDF layer and `cdf_fn`: outputs in `[0, 1]`, non-decreasing in every input

`entry out r u` is entry `(r, u)` of the returned tensor (`(input_dim / factor, units)` for `'none'`,
a single row of `units` entries for `'mean'`). `σ` is ANY monotone function into `[0, 1]` for the
sigmoid activation; `relu6 / 6` is modelled exactly. The only hypothesis about the configuration is a
successful return (`= .ok out`): the verification of the current tree guarantees at least one basis
function (`C15_T3_zero_keypoints_rejected`) and matching shapes. -/

/-- **C15/T2, bounds (layer).** Every output of `CDF.call` ('mean' / 'none') lies in `[0, 1]`, for every
kernel, every input scaling (any sign), every input. -/
theorem C15_T2_layer_bounded (a : Activation) (σ : ℚ → ℚ) (hσ : SigmoidLike σ) (red : Reduction) (f U : Nat)
    (scale : List ℚ) (kernel : List (List (List ℚ))) (K W : Nat) (x : List ℚ) (out : List (List ℚ))
    (h : layerCall a σ red f U scale kernel K W x = .ok out) :
    ∀ row ∈ out, ∀ v ∈ row, 0 ≤ v ∧ v ≤ 1 := by
  apply entries_of_mem
  intro r u
  obtain ⟨hver, -, hout⟩ := layerCall_ok h
  obtain ⟨hK, hrows, -⟩ := verifyCdf_ok hver
  rw [hout, layerCdfs_eq]
  exact reduceStage_bounds red f x.length U W _ (fun i j => cdfEntry_bounds a σ hσ K hK _) hrows r u

/-- **C15/T2, bounds (function).** Every output of `cdf_fn` ('mean' / 'none') lies in `[0, 1]`, for every
location and scaling parameter tensor (any sign, any broadcast shape, or none). -/
theorem C15_T2_fn_bounded (a : Activation) (σ : ℚ → ℚ) (hσ : SigmoidLike σ) (red : Reduction) (f U : Nat)
    (scaling : Option (List (List (List ℚ)))) (loc : List (List (List ℚ))) (K W : Nat) (x : List ℚ)
    (out : List (List ℚ)) (h : cdfFn a σ red f U scaling loc K W x = .ok out) :
    ∀ row ∈ out, ∀ v ∈ row, 0 ≤ v ∧ v ≤ 1 := by
  apply entries_of_mem
  intro r u
  obtain ⟨hver, hout⟩ := cdfFn_ok h
  obtain ⟨hK, hrows, -⟩ := verifyCdf_ok hver
  rw [hout, fnCdfs_eq]
  exact reduceStage_bounds red f x.length U W _ (fun i j => cdfEntry_bounds a σ hσ K hK _) hrows r u

/-- **C15/T2, monotone (layer).** With non-negative input scaling, raising any inputs (`x ≤ x'`
coordinatewise — in particular ONE input, `C15_T2_layer_monotone_one_input`) does not lower any
output entry, for ALL such pairs. -/
theorem C15_T2_layer_monotone (a : Activation) (σ : ℚ → ℚ) (hσ : SigmoidLike σ) (red : Reduction) (f U : Nat)
    (scale : List ℚ) (kernel : List (List (List ℚ))) (K W : Nat) (x x' : List ℚ) (out out' : List (List ℚ))
    (hs : ∀ i, 0 ≤ bgetR scale i) (hl : x.length = x'.length) (hle : ∀ i, getR x i ≤ getR x' i)
    (h : layerCall a σ red f U scale kernel K W x = .ok out)
    (h' : layerCall a σ red f U scale kernel K W x' = .ok out') (r u : Nat) :
    entry out r u ≤ entry out' r u := by
  obtain ⟨-, -, hout⟩ := layerCall_ok h
  obtain ⟨-, -, hout'⟩ := layerCall_ok h'
  rw [hout, hout', layerCdfs_eq, layerCdfs_eq, ← hl]
  apply reduceStage_mono
  intro i j _ _
  apply cdfEntry_mono a σ hσ
  intro k
  exact mul_le_mul_of_nonneg_left (by linarith [hle i]) (hs i)

/-- **C15/T2, monotone (function).** The same for `cdf_fn` when every (broadcast) scaling entry is
non-negative — e.g. after `scaling_exp_transform_multiplier`, or `scaling_parameters=None`. -/
theorem C15_T2_fn_monotone (a : Activation) (σ : ℚ → ℚ) (hσ : SigmoidLike σ) (red : Reduction) (f U : Nat)
    (scaling : Option (List (List (List ℚ)))) (loc : List (List (List ℚ))) (K W : Nat) (x x' : List ℚ)
    (out out' : List (List ℚ)) (hs : ∀ sc, scaling = some sc → ∀ i k j, 0 ≤ bget3 sc i k j)
    (hl : x.length = x'.length) (hle : ∀ i, getR x i ≤ getR x' i)
    (h : cdfFn a σ red f U scaling loc K W x = .ok out)
    (h' : cdfFn a σ red f U scaling loc K W x' = .ok out') (r u : Nat) :
    entry out r u ≤ entry out' r u := by
  obtain ⟨-, hout⟩ := cdfFn_ok h
  obtain ⟨-, hout'⟩ := cdfFn_ok h'
  rw [hout, hout', fnCdfs_eq, fnCdfs_eq, ← hl]
  apply reduceStage_mono
  intro i j _ _
  apply cdfEntry_mono a σ hσ
  intro k
  unfold fnPre
  cases hsc : scaling with
  | none => simp only; linarith [hle i]
  | some sc =>
    simp only
    exact mul_le_mul_of_nonneg_right (by linarith [hle i]) (hs sc hsc i k j)

/-- **C15/T2, monotone in ONE input.** Raising input `d` alone (any amount, any other inputs). -/
theorem C15_T2_layer_monotone_one_input (a : Activation) (σ : ℚ → ℚ) (hσ : SigmoidLike σ) (red : Reduction)
    (f U : Nat) (scale : List ℚ) (kernel : List (List (List ℚ))) (K W : Nat) (x : List ℚ) (d : Nat) (v : ℚ)
    (out out' : List (List ℚ)) (hs : ∀ i, 0 ≤ bgetR scale i) (hv : getR x d ≤ v)
    (h : layerCall a σ red f U scale kernel K W x = .ok out)
    (h' : layerCall a σ red f U scale kernel K W (x.set d v) = .ok out') (r u : Nat) :
    entry out r u ≤ entry out' r u := by
  apply C15_T2_layer_monotone a σ hσ red f U scale kernel K W x (x.set d v) out out' hs (by simp) _ h h'
  intro i
  rw [getR_set]
  split_ifs with hc
  · rw [hc.1]; exact hv
  · exact le_rfl

/-- **C15/T2, the NonNeg constraint.** Whatever raw value an optimizer step assigned to a learned input
scaling, after the `NonNeg` constraint of `input_scaling_monotonicity='increasing'` every scaling entry
is non-negative … -/
theorem C15_T2_constraint_makes_scaling_nonneg (raw : List ℚ) (i : Nat) :
    0 ≤ bgetR (constrainedScale true raw) i := by
  simpa [constrainedScale] using nonNeg_nonneg raw i

/-- … hence the constrained layer is monotone for EVERY raw scaling. -/
theorem C15_T2_constrained_layer_monotone (a : Activation) (σ : ℚ → ℚ) (hσ : SigmoidLike σ) (red : Reduction)
    (f U : Nat) (raw : List ℚ) (kernel : List (List (List ℚ))) (K W : Nat) (x x' : List ℚ)
    (out out' : List (List ℚ)) (hl : x.length = x'.length) (hle : ∀ i, getR x i ≤ getR x' i)
    (h : layerCall a σ red f U (constrainedScale true raw) kernel K W x = .ok out)
    (h' : layerCall a σ red f U (constrainedScale true raw) kernel K W x' = .ok out') (r u : Nat) :
    entry out r u ≤ entry out' r u :=
  C15_T2_layer_monotone a σ hσ red f U _ kernel K W x x' out out'
    (C15_T2_constraint_makes_scaling_nonneg raw) hl hle h h' r u

/-- **C15/T2 from the `int` entry points.** Whatever integer `sparsity_factor` the caller passes: if the
layer / the function returns at all, the factor was `≥ 1` and the output lies in `[0, 1]` (the statements
above apply to `f.toNat`; likewise the monotonicity theorems). -/
theorem C15_T2_bounded_int (a : Activation) (σ : ℚ → ℚ) (hσ : SigmoidLike σ) (red : Reduction) (f : Int) (U : Nat)
    (scale : List ℚ) (scaling : Option (List (List (List ℚ)))) (kernel : List (List (List ℚ))) (K W : Nat)
    (x : List ℚ) (out : List (List ℚ)) :
    (layerCallZ a σ red f U scale kernel K W x = .ok out → 1 ≤ f ∧ ∀ row ∈ out, ∀ v ∈ row, 0 ≤ v ∧ v ≤ 1) ∧
    (cdfFnZ a σ red f U scaling kernel K W x = .ok out → 1 ≤ f ∧ ∀ row ∈ out, ∀ v ∈ row, 0 ≤ v ∧ v ≤ 1) := by
  constructor
  · intro h
    obtain ⟨hf, h'⟩ := layerCallZ_ok h
    exact ⟨hf, C15_T2_layer_bounded a σ hσ red f.toNat U scale kernel K W x out h'⟩
  · intro h
    obtain ⟨hf, h'⟩ := cdfFnZ_ok h
    exact ⟨hf, C15_T2_fn_bounded a σ hσ red f.toNat U scaling kernel K W x out h'⟩

/-- **C15/T2, monotone, from the `int` entry points.** -/
theorem C15_T2_layer_monotone_int (a : Activation) (σ : ℚ → ℚ) (hσ : SigmoidLike σ) (red : Reduction) (f : Int)
    (U : Nat) (scale : List ℚ) (kernel : List (List (List ℚ))) (K W : Nat) (x x' : List ℚ)
    (out out' : List (List ℚ)) (hs : ∀ i, 0 ≤ bgetR scale i) (hl : x.length = x'.length)
    (hle : ∀ i, getR x i ≤ getR x' i)
    (h : layerCallZ a σ red f U scale kernel K W x = .ok out)
    (h' : layerCallZ a σ red f U scale kernel K W x' = .ok out') (r u : Nat) :
    entry out r u ≤ entry out' r u :=
  C15_T2_layer_monotone a σ hσ red f.toNat U scale kernel K W x x' out out' hs hl hle
    (layerCallZ_ok h).2 (layerCallZ_ok h').2 r u

theorem C15_T2_fn_monotone_int (a : Activation) (σ : ℚ → ℚ) (hσ : SigmoidLike σ) (red : Reduction) (f : Int)
    (U : Nat) (scaling : Option (List (List (List ℚ)))) (loc : List (List (List ℚ))) (K W : Nat) (x x' : List ℚ)
    (out out' : List (List ℚ)) (hs : ∀ sc, scaling = some sc → ∀ i k j, 0 ≤ bget3 sc i k j)
    (hl : x.length = x'.length) (hle : ∀ i, getR x i ≤ getR x' i)
    (h : cdfFnZ a σ red f U scaling loc K W x = .ok out)
    (h' : cdfFnZ a σ red f U scaling loc K W x' = .ok out') (r u : Nat) :
    entry out r u ≤ entry out' r u :=
  C15_T2_fn_monotone a σ hσ red f.toNat U scaling loc K W x x' out out' hs hl hle
    (cdfFnZ_ok h).2 (cdfFnZ_ok h').2 r u

/-- **Counter-witness (why non-negative scaling is a hypothesis).** `input_scaling_type='fixed'` with a
negative `input_scaling_init` (or `input_scaling_monotonicity='none'`) is not constrained: the layer is
then decreasing. -/
theorem negative_fixed_scaling_is_decreasing :
    layerCall .relu6 id .mean 1 1 [-1] [[[0]]] 1 1 [-3] = .ok [[1/2]] ∧
    layerCall .relu6 id .mean 1 1 [-1] [[[0]]] 1 1 [0] = .ok [[0]] := by decide +kernel

/-! ### the geometric mean (over ℝ) -/

/-- column `u` of the stage before the reduction, as reals -/
def realColumn (m : List (List ℚ)) (u : Nat) : List ℝ := m.map (fun row => ((getR row u : ℚ) : ℝ))

/-- `reduction='geometric_mean'` of output unit `u`: `exp(mean_r log(m[r][u] + ε))`, `ε = 1e-3` in the
layer, `1e-8` in `cdf_fn` -/
noncomputable def geoColumn (ε : ℝ) (m : List (List ℚ)) (u : Nat) : ℝ := CondReal.geoMean ε (realColumn m u)

/-- any `(input_dim, W)` matrix with entries in `[0, 1]`, reshaped by the sparsity factor: the
geometric mean of a column lies in `[ε, 1 + ε]` -/
theorem geoColumn_bounds (ε : ℝ) (hε : 0 < ε) (f I U W : Nat) (g : Nat → Nat → ℚ)
    (hg : ∀ i j, 0 ≤ g i j ∧ g i j ≤ 1) (hrows : 0 < (if f ≠ 1 then I / f else I)) (u : Nat) :
    ε ≤ geoColumn ε (sparsify f I U (matOf I W g)) u ∧ geoColumn ε (sparsify f I U (matOf I W g)) u ≤ 1 + ε := by
  unfold geoColumn realColumn
  apply CondReal.geoMean_bounds ε hε
  · intro e
    have := congrArg List.length e
    rw [List.length_map, length_sparsify, List.length_nil] at this
    omega
  · intro v hv
    simp only [List.mem_map] at hv
    obtain ⟨row, hrow, rfl⟩ := hv
    obtain ⟨r, hr1, hr2⟩ := List.getElem_of_mem hrow
    have hb := entry_sparsify_bounds f I U W g hg r u
    unfold entry at hb
    rw [List.getD_eq_getElem?_getD, List.getElem?_eq_getElem hr1, Option.getD_some, hr2] at hb
    exact ⟨by exact_mod_cast hb.1, by exact_mod_cast hb.2⟩

/-- entrywise larger matrices give larger geometric means -/
theorem geoColumn_mono (ε : ℝ) (hε : 0 < ε) (f I U W : Nat) (g g' : Nat → Nat → ℚ)
    (hg0 : ∀ i j, 0 ≤ g i j) (hg : ∀ i j, i < I → j < W → g i j ≤ g' i j) (u : Nat) :
    geoColumn ε (sparsify f I U (matOf I W g)) u ≤ geoColumn ε (sparsify f I U (matOf I W g')) u := by
  unfold geoColumn realColumn
  apply CondReal.geoMean_mono ε hε
  · rw [List.forall₂_map_left_iff, List.forall₂_map_right_iff, List.forall₂_iff_get]
    refine ⟨by simp [length_sparsify], ?_⟩
    intro r h1 h2
    have hm := entry_sparsify_mono f I U W g g' hg r u
    unfold entry at hm
    rw [List.getD_eq_getElem?_getD, List.getElem?_eq_getElem h1, Option.getD_some,
      List.getD_eq_getElem?_getD, List.getElem?_eq_getElem h2, Option.getD_some] at hm
    simp only [List.get_eq_getElem]
    exact_mod_cast hm
  · intro v hv
    simp only [List.mem_map] at hv
    obtain ⟨row, hrow, rfl⟩ := hv
    obtain ⟨r, hr1, hr2⟩ := List.getElem_of_mem hrow
    rcases entry_sparsify_cases f I U W g r u with h | ⟨i, j, _, _, h, _⟩
    · unfold entry at h
      rw [List.getD_eq_getElem?_getD, List.getElem?_eq_getElem hr1, Option.getD_some, hr2] at h
      rw [h]; norm_num
    · unfold entry at h
      rw [List.getD_eq_getElem?_getD, List.getElem?_eq_getElem hr1, Option.getD_some, hr2] at h
      rw [h]; exact_mod_cast hg0 i j

/-- **C15/T2, geometric mean: bounds.** For every `ε > 0` the geometric-mean reduction of the layer
(any scaling, kernel, input; `relu6` exactly, sigmoid for any `σ` into `[0, 1]`) lies in `[ε, 1 + ε]` —
the documented epsilon of the property. -/
theorem C15_T2_geometric_mean_bounded (ε : ℝ) (hε : 0 < ε) (a : Activation) (σ : ℚ → ℚ) (hσ : SigmoidLike σ)
    (f U : Nat) (scale : List ℚ) (kernel : List (List (List ℚ))) (K W : Nat) (x : List ℚ)
    (hver : verifyCdf f x.length U K W kernel.length = .ok ()) (u : Nat) :
    ε ≤ geoColumn ε (sparsify f x.length U (layerCdfs a σ scale kernel K W x)) u ∧
      geoColumn ε (sparsify f x.length U (layerCdfs a σ scale kernel K W x)) u ≤ 1 + ε := by
  obtain ⟨hK, hrows, -⟩ := verifyCdf_ok hver
  rw [layerCdfs_eq]
  exact geoColumn_bounds ε hε f x.length U W _ (fun i j => cdfEntry_bounds a σ hσ K hK _) hrows u

/-- **C15/T2, geometric mean: bounds (function).** The same for `cdf_fn`, any scaling tensor or none. -/
theorem C15_T2_fn_geometric_mean_bounded (ε : ℝ) (hε : 0 < ε) (a : Activation) (σ : ℚ → ℚ) (hσ : SigmoidLike σ)
    (f U : Nat) (scaling : Option (List (List (List ℚ)))) (loc : List (List (List ℚ))) (K W : Nat) (x : List ℚ)
    (hver : verifyCdf f x.length U K W loc.length = .ok ()) (u : Nat) :
    ε ≤ geoColumn ε (sparsify f x.length U (fnCdfs a σ scaling loc K W x)) u ∧
      geoColumn ε (sparsify f x.length U (fnCdfs a σ scaling loc K W x)) u ≤ 1 + ε := by
  obtain ⟨hK, hrows, -⟩ := verifyCdf_ok hver
  rw [fnCdfs_eq]
  exact geoColumn_bounds ε hε f x.length U W _ (fun i j => cdfEntry_bounds a σ hσ K hK _) hrows u

/-- **C15/T2, geometric mean: monotone.** With non-negative scaling the geometric-mean reduction is
non-decreasing in every input, for ALL pairs `x ≤ x'`. -/
theorem C15_T2_geometric_mean_monotone (ε : ℝ) (hε : 0 < ε) (a : Activation) (σ : ℚ → ℚ) (hσ : SigmoidLike σ)
    (f U : Nat) (scale : List ℚ) (kernel : List (List (List ℚ))) (K W : Nat) (x x' : List ℚ)
    (hver : verifyCdf f x.length U K W kernel.length = .ok ())
    (hs : ∀ i, 0 ≤ bgetR scale i) (hl : x.length = x'.length) (hle : ∀ i, getR x i ≤ getR x' i) (u : Nat) :
    geoColumn ε (sparsify f x.length U (layerCdfs a σ scale kernel K W x)) u
      ≤ geoColumn ε (sparsify f x'.length U (layerCdfs a σ scale kernel K W x')) u := by
  obtain ⟨hK, hrows, -⟩ := verifyCdf_ok hver
  rw [layerCdfs_eq, layerCdfs_eq, ← hl]
  exact geoColumn_mono ε hε f x.length U W _ _ (fun i j => (cdfEntry_bounds a σ hσ K hK _).1)
    (fun i j _ _ => cdfEntry_mono a σ hσ K _ _
      (fun k => mul_le_mul_of_nonneg_left (by linarith [hle i]) (hs i))) u

/-- **C15/T2, geometric mean: monotone (function)**, for non-negative (broadcast) scaling or none. -/
theorem C15_T2_fn_geometric_mean_monotone (ε : ℝ) (hε : 0 < ε) (a : Activation) (σ : ℚ → ℚ) (hσ : SigmoidLike σ)
    (f U : Nat) (scaling : Option (List (List (List ℚ)))) (loc : List (List (List ℚ))) (K W : Nat) (x x' : List ℚ)
    (hver : verifyCdf f x.length U K W loc.length = .ok ())
    (hs : ∀ sc, scaling = some sc → ∀ i k j, 0 ≤ bget3 sc i k j)
    (hl : x.length = x'.length) (hle : ∀ i, getR x i ≤ getR x' i) (u : Nat) :
    geoColumn ε (sparsify f x.length U (fnCdfs a σ scaling loc K W x)) u
      ≤ geoColumn ε (sparsify f x'.length U (fnCdfs a σ scaling loc K W x')) u := by
  obtain ⟨hK, hrows, -⟩ := verifyCdf_ok hver
  rw [fnCdfs_eq, fnCdfs_eq, ← hl]
  apply geoColumn_mono ε hε f x.length U W _ _ (fun i j => (cdfEntry_bounds a σ hσ K hK _).1)
  intro i j _ _
  apply cdfEntry_mono a σ hσ
  intro k
  unfold fnPre
  cases hsc : scaling with
  | none => simp only; linarith [hle i]
  | some sc =>
    simp only
    exact mul_le_mul_of_nonneg_right (by linarith [hle i]) (hs sc hsc i k j)

/-! ### non-vacuity -/

/-- the hypotheses on `sm` / `sg` are satisfiable: uniform weights, a clipped ramp -/
example : SoftmaxLike (fun l => l.map (fun _ => 1 / (l.length : ℚ))) := by
  refine ⟨fun l => by simp, ?_, ?_⟩
  · intro l w hw
    simp only [List.mem_map] at hw
    obtain ⟨a, ha, rfl⟩ := hw
    have : 0 < l.length := List.length_pos_iff.mpr (List.ne_nil_of_mem ha)
    positivity
  · intro l hne
    have hp : (0 : ℚ) < (l.length : ℚ) := by exact_mod_cast List.length_pos_iff.mpr hne
    have : ∀ (c : ℚ) (m : List ℚ), rsum (m.map (fun _ => c)) = c * (m.length : ℚ) := by
      intro c m
      induction m with
      | nil => simp
      | cons a t ih => simp only [List.map_cons, rsum, ih, List.length_cons]; push_cast; ring
    rw [this]; field_simp
example : SigmoidLike (fun z => max 0 (min z 1)) :=
  ⟨fun a b h => max_le_max le_rfl (min_le_min h le_rfl), fun z => le_max_left _ _,
    fun z => max_le (by norm_num) (min_le_right _ _)⟩
example : layerCall .relu6 id .none 2 2 [2] [[[0]], [[1]], [[1/2]], [[0]]] 1 1 [1, 2, 1, 4]
    = .ok [[1/3, 1/3], [1/6, 1]] := by decide +kernel

end Tfl.C15
