import TflModel.Props.C03System
import TflModel.Props.C10Pwl
import TflModel.Props.C10Constraint
/-!
# C03 — the initial state of a premade model, DERIVED from the initializer models of C10

`Props/C03System.lean` proves C03 for every accepted configuration from ANY initial weights that meet
the weight-level predicate `InitInv` (feasible, a categorical kernel only within its bounds). This file
closes the gap to C10: per layer kind that `premade_lib` builds, the weights the initializer the premade
code REALLY passes produce (`Model/Initializers.lean`) meet the matching component of `InitInv`; the
composite `fresh_initInv` assembles them for the state `fresh g P D` built from initializer outputs, and
`C03_from_fresh_model` restates the headline theorem with NO initial-state hypothesis.

Initializers, as `premade_lib.py` picks them (`_output_range` gives `(output_min, output_max,
output_init_min, output_init_max)`):

* input PWL calibrators — `UniformOutputInitializer(output_init_min, output_init_max, monotonicity,
  keypoints=input_keypoints)`: equal SLOPES over the input keypoints (`pwlLinearInit … (some kps)`);
  `missing_output` = midpoint of the layer's own init bounds; `interpolation_logits` (learned interior
  keypoints) = `log(gaps / range)`, i.e. softmax row = `gaps / range`;
* categorical calibrators — `RandomUniform(output_init_min, output_init_max)`: ANY values in the range;
* `Lattice` of calibrated lattice / explicit ensembles — `LinearInitializer(sizes, monotonicities,
  unimodalities, output_init_min, output_init_max)` (`linearInitT`);
* `RTL(all_vertices)` — `'random_monotonic_initializer'` on `(init_min, init_max)` (`randomMonotonicInitT`,
  every per-level shuffle, every sample);
* Kronecker-factored (`KroneckerFactoredLattice` and `RTL(kronecker_factored)`) —
  `KFLRandomMonotonicInitializer` on `kfl_lib.default_init_params(output_min, output_max)` +
  `ScaleInitializer(output_min, output_max)` (`kflInit`, `scaleInit`, `biasInit`);
* `Linear` of calibrated linear and the linear combination — `Constant(1 / n)`, bias `Constant(0)`;
* output calibrator — `Constant(np.ediff1d(output_initialization, to_begin=output_initialization[0]))`:
  keypoint outputs = `output_initialization` itself.

The only hypothesis that is NOT a consequence of acceptance is `InitRange`: the initialisation range of
the layers that produce the MODEL OUTPUT comes from the user's `output_initialization`, and nothing in
`verify_config` relates it to `output_min / output_max` or asks it to be ascending (finding F-C03-g,
reproduced on the real code: `design_probes/c03init_probe.py`; model side `out_of_range_init_violates`,
`descending_output_initialization_violates`).
-/
namespace Tfl.C03
open Tfl Tfl.Premade Tfl.Poset Tfl.Linear

/-! ## ranges -/

/-- the initialisation range `[a, b]` handed to an initializer is a non-empty interval inside the
layer's output bounds -/
structure RangeIn (lo hi : Option ℚ) (a b : ℚ) : Prop where
  le : a ≤ b
  lo : ∀ l, lo = some l → l ≤ a
  hi : ∀ h, hi = some h → b ≤ h

/-- `LayerOutputRange.INPUT_TO_LATTICE` / `INPUT_TO_FINAL_CALIBRATION`: the initialisation range IS the
pair of output bounds -/
theorem rangeIn_of_bounds (l h : ℚ) (hle : l ≤ h) : RangeIn (some l) (some h) l h :=
  ⟨hle, fun _ e => by cases e; exact le_refl _, fun _ e => by cases e; exact le_refl _⟩

theorem inB_of_range {lo hi : Option ℚ} {a b y : ℚ} (hr : RangeIn lo hi a b) (h1 : a ≤ y) (h2 : y ≤ b) :
    inB lo hi y :=
  ⟨fun l hl => le_trans (hr.lo l hl) h1, fun h hh => le_trans h2 (hr.hi h hh)⟩

/-- the midpoint of the init bounds `PWLCalibration.__init__` derives from its own output bounds (the
initial `missing_output`) lies within the bounds -/
theorem missing_init_inB (lo hi : Option ℚ) (hb : ∀ l h, lo = some l → hi = some h → l ≤ h) :
    inB lo hi (((Init.pwlInitBounds lo hi).1 + (Init.pwlInitBounds lo hi).2) / 2) := by
  obtain ⟨h1, h2, h3⟩ := C10.pwl_init_bounds_spec lo hi hb
  exact ⟨fun l hl => by have := h2 l hl; linarith, fun h hh => by have := h3 h hh; linarith⟩

/-! ## PWL calibrators -/

theorem initDiffs_eq : ∀ l : List ℚ, Init.diffs l = PwlEval.diffs l
  | [] => rfl
  | [_] => rfl
  | _ :: b :: t => by simp only [Init.diffs, PwlEval.diffs, initDiffs_eq (b :: t)]

theorem getR_outputs_succ : ∀ (hs : List ℚ) (acc : ℚ) (j : Nat), j < hs.length →
    getR (PwlProj.outputs acc hs) (j + 1) = getR (PwlProj.outputs acc hs) j + getR hs j
  | [], _, _, h => by simp at h
  | x :: t, acc, 0, _ => by simp [PwlProj.outputs, PwlProj.cumsumFrom, getR]
  | x :: t, acc, j + 1, h => by
    have := getR_outputs_succ t (acc + x) j (by simpa using h)
    simpa [PwlProj.outputs, PwlProj.cumsumFrom, getR] using this

theorem getR_mem {l : List ℚ} {j : Nat} (hj : j < l.length) : getR l j ∈ l := by
  simp only [getR, List.getD_eq_getElem?_getD, List.getElem?_eq_getElem hj, Option.getD_some]
  exact List.getElem_mem hj

/-- a PWL unit whose kernel column is `bias :: heights` with the right number of heights, heights of
the configured sign, every keypoint output and the missing output within the bounds, is feasible -/
theorem pwlFeas_of_heights {mono : Int} {lo hi : Option ℚ} {cfgE : PwlEval.Cfg} {s : CalW} {b0 : ℚ} {hs : List ℚ}
    (hk : s.kernel = b0 :: hs) (hcyc : cfgE.isCyclic = false) (h2 : 2 ≤ cfgE.inputKeypoints.length)
    (hinc : PwlEval.StrictIncr cfgE.inputKeypoints) (hlen : hs.length + 1 = cfgE.inputKeypoints.length)
    (hws : cfgE.learned = true →
      s.ws.length + 1 = cfgE.inputKeypoints.length ∧ (∀ w ∈ s.ws, 0 < w) ∧ rsum s.ws = 1)
    (hup : mono = 1 → ∀ h ∈ hs, 0 ≤ h) (hdn : mono = -1 → ∀ h ∈ hs, h ≤ 0)
    (hbnd : ∀ y ∈ PwlProj.outputs b0 hs, inB lo hi y) (hmo : inB lo hi s.missingOut) :
    PwlFeas mono lo hi cfgE s := by
  have hKO : PwlEval.keypointsOutputs cfgE s.kernel = PwlProj.outputs b0 hs := by
    rw [hk]; exact keypointsOutputs_eq cfgE hcyc b0 hs
  have hlenKO : (PwlProj.outputs b0 hs).length = cfgE.inputKeypoints.length := by
    simp only [PwlProj.outputs, List.length_cons, cumsumFrom_length]; exact hlen
  refine ⟨⟨h2, hinc, ?_, fun hl => (hws hl).1, fun hl => (hws hl).2.1, fun hl => (hws hl).2.2⟩, ?_, ?_, ?_, hmo⟩
  · rw [hk, hcyc]
    simp only [List.length_cons, Bool.false_eq_true, if_false, add_zero]
    exact hlen
  · intro h1 j hj
    rw [hKO, getR_outputs_succ hs b0 j (by omega)]
    have := hup h1 _ (getR_mem (l := hs) (j := j) (by omega))
    linarith
  · intro h1 j hj
    rw [hKO, getR_outputs_succ hs b0 j (by omega)]
    have := hdn h1 _ (getR_mem (l := hs) (j := j) (by omega))
    linarith
  · intro j hj
    rw [hKO]
    exact hbnd _ (getR_mem (by omega))

/-- the softmax row of the initial `interpolation_logits = log(gaps / range)`: `gaps / range` -/
def logitsInit (kps : List ℚ) : List ℚ :=
  (Init.diffs kps).map (fun l => l * (1 / rsum (Init.diffs kps)))

theorem rsum_pos_of_pos : ∀ (l : List ℚ), l ≠ [] → (∀ x ∈ l, 0 < x) → 0 < rsum l
  | [], h, _ => absurd rfl h
  | [x], _, hp => by simpa [rsum] using hp x (by simp)
  | x :: y :: t, _, hp => by
    have h1 := hp x (by simp)
    have h2 := rsum_pos_of_pos (y :: t) (by simp) (fun z hz => hp z (List.mem_cons_of_mem _ hz))
    simp only [rsum] at h2 ⊢
    linarith

theorem diffs_facts (kps : List ℚ) (h2 : 2 ≤ kps.length) (hinc : PwlEval.StrictIncr kps) :
    (Init.diffs kps).length + 1 = kps.length ∧ (∀ l ∈ Init.diffs kps, 0 < l) ∧ Init.diffs kps ≠ [] := by
  have hpos : ∀ l ∈ Init.diffs kps, 0 < l := by rw [initDiffs_eq]; exact PwlEval.diffs_pos hinc
  match kps, h2 with
  | a :: b :: t, _ =>
    have hl : (Init.diffs (a :: b :: t)).length = (b :: t).length := by
      rw [initDiffs_eq]; exact PwlEval.length_diffs a (b :: t)
    refine ⟨by rw [hl]; simp, hpos, ?_⟩
    intro e; rw [e] at hl; simp at hl

theorem logitsInit_spec (kps : List ℚ) (h2 : 2 ≤ kps.length) (hinc : PwlEval.StrictIncr kps) :
    (logitsInit kps).length + 1 = kps.length ∧ (∀ w ∈ logitsInit kps, 0 < w) ∧ rsum (logitsInit kps) = 1 := by
  obtain ⟨hl, hpos, hne⟩ := diffs_facts kps h2 hinc
  have hs := rsum_pos_of_pos _ hne hpos
  refine ⟨by simpa [logitsInit] using hl, ?_, ?_⟩
  · intro w hw
    obtain ⟨l, hl', rfl⟩ := List.mem_map.mp hw
    exact mul_pos (hpos l hl') (by positivity)
  · rw [logitsInit, Init.rsum_map_mul]
    field_simp

/-- the fresh weights of one unit of an input PWL calibrator, as the premade builders initialise it:
equal slopes over the input keypoints on the range `[a, b]` (`UniformOutputInitializer(a, b, mono,
keypoints)`), the softmax row of the initial logits, `missing_output` = midpoint of the init bounds -/
def pwlFresh (mono : Int) (lo hi : Option ℚ) (kps : List ℚ) (a b : ℚ) : CalW :=
  { kernel := (Init.pwlLinearInit kps.length a b mono (some kps)).1 ::
      (Init.pwlLinearInit kps.length a b mono (some kps)).2,
    ws := logitsInit kps,
    missingOut := ((Init.pwlInitBounds lo hi).1 + (Init.pwlInitBounds lo hi).2) / 2 }

/-- **`InitInv`, PWL component (from C10 T3 equal slopes).** For every monotonicity, bounds, input
keypoints (strictly increasing, at least two, fixed or learned interior) and every initialisation
range inside the bounds, the fresh PWL unit is feasible: sorted in the configured direction, every
keypoint output and the missing output within the bounds. -/
theorem pwl_fresh_feas (mono : Int) (lo hi : Option ℚ) (cfgE : PwlEval.Cfg) (a b : ℚ)
    (hb : ∀ l h, lo = some l → hi = some h → l ≤ h) (hcyc : cfgE.isCyclic = false)
    (h2 : 2 ≤ cfgE.inputKeypoints.length) (hinc : PwlEval.StrictIncr cfgE.inputKeypoints)
    (hr : RangeIn lo hi a b) :
    PwlFeas mono lo hi cfgE (pwlFresh mono lo hi cfgE.inputKeypoints a b) := by
  set kps := cfgE.inputKeypoints with hkps
  obtain ⟨hl, hpos, hne⟩ := diffs_facts kps h2 hinc
  obtain ⟨he, hsum, hnn⟩ := Init.pwl_equal_slopes kps.length a b hr.le kps hpos hne
  set inc := (Init.pwlLinearInit kps.length a b 1 (some kps)).2 with hincdef
  have hlen : inc.length + 1 = kps.length := by rw [he]; simpa using hl
  have hws := logitsInit_spec kps h2 hinc
  by_cases hm : mono = -1
  · have hneg : ∀ h ∈ inc.map (fun h => -h), h ≤ 0 := by
      intro v hv
      obtain ⟨x, hx, rfl⟩ := List.mem_map.mp hv
      have := hnn x hx; linarith
    have hs : rsum (inc.map (fun h => -h)) = a - b := by rw [Init.rsum_map_neg, hsum]; ring
    refine pwlFeas_of_heights (b0 := b) (hs := inc.map (fun h => -h)) ?_ hcyc h2 hinc (by simpa using hlen)
      (fun _ => hws) (fun h1 => by omega) (fun _ => hneg) ?_ (missing_init_inB lo hi hb)
    · simp only [pwlFresh]; rw [C10.pwlLinearInit_eq, if_pos hm]
    · intro y hy
      have := C10.outputs_between_neg b _ hneg y hy
      rw [hs] at this
      exact inB_of_range hr (by linarith) this.2
  · refine pwlFeas_of_heights (b0 := a) (hs := inc) ?_ hcyc h2 hinc hlen
      (fun _ => hws) (fun _ => hnn) (fun h1 => absurd h1 hm) ?_ (missing_init_inB lo hi hb)
    · simp only [pwlFresh]; rw [C10.pwlLinearInit_eq, if_neg hm]
    · intro y hy
      have := C10.outputs_between a inc hnn y hy
      rw [hsum] at this
      exact inB_of_range hr this.1 (by linarith)

/-- non-vacuity: decreasing calibrator with bounds `[0, 2]`, keypoints `[0, 1, 3]`, range `[0, 2]`: the
fresh kernel is `[2, -2/3, -4/3]`, the softmax row `[1/3, 2/3]`, `missing_output = 1` -/
example : (pwlFresh (-1) (some 0) (some 2) [0, 1, 3] 0 2).kernel = [2, -2/3, -4/3] ∧
    (pwlFresh (-1) (some 0) (some 2) [0, 1, 3] 0 2).ws = [1/3, 2/3] ∧
    (pwlFresh (-1) (some 0) (some 2) [0, 1, 3] 0 2).missingOut = 1 := by decide +kernel

/-! ## categorical calibrators -/

/-- **`InitInv`, categorical component.** `RandomUniform(a, b)` draws one value of `[a, b]` per bucket:
whatever the draws, the kernel is within the bounds when the range is (`CatInit`; NOT the ordering
pairs — finding F-C03-b, which is why `InitInv` only asks for the bounds). -/
theorem cat_fresh_init (c : Calibrator) (u : List ℚ) (a b : ℚ) (hlen : u.length = c.numBuckets)
    (hu : ∀ x ∈ u, a ≤ x ∧ x ≤ b) (hr : RangeIn c.outMin c.outMax a b) : CatInit c u :=
  ⟨hlen, fun j hj => by
    have hm : getV u j ∈ u := getR_mem (l := u) hj
    exact inB_of_range hr (hu _ hm).1 (hu _ hm).2⟩

/-- a categorical calibrator with three buckets and bounds `[0, 1]` -/
def exCat3 : Calibrator :=
  { (default : Calibrator) with categorical := true, numBuckets := 3, outMin := some 0, outMax := some 1 }

example : CatInit exCat3 [1/2, 0, 1] :=
  cat_fresh_init exCat3 _ 0 1 rfl (by decide +kernel) (rangeIn_of_bounds 0 1 (by norm_num))

/-! ## `Linear` kernels: `Constant(1 / n)` -/

/-- `keras.initializers.Constant([1.0 / n] * n)`, bias `Constant(0)` -/
def linFresh (n : Nat) : LinW := { w := List.replicate n (1 / (n : ℚ)), b := 0 }

theorem getV_replicate_nonneg (n : Nat) (c : ℚ) (hc : 0 ≤ c) (i : Nat) : 0 ≤ getV (List.replicate n c) i := by
  by_cases hi : i < n
  · simp [getV, List.getD_eq_getElem?_getD, hi, hc]
  · rw [getV_of_le (by simpa using Nat.le_of_not_lt hi)]

/-- **`InitInv`, `Linear` / linear-combination component.** The constant `1/n` kernel is non-negative
everywhere (so every monotonicity sign holds) and sums to one (what `normalization_order = 1` asks);
for `n = 0` the empty column is below the norm guard. -/
theorem lin_fresh_ok (n : Nat) (monos : List Nat) :
    LinOk monos (linFresh n).w ∧ (∀ i, 0 ≤ getV (linFresh n).w i) ∧ NormOk n (linFresh n).w := by
  have hc : (0 : ℚ) ≤ 1 / (n : ℚ) := by positivity
  have hnn := getV_replicate_nonneg n _ hc
  refine ⟨fun i _ => hnn i, hnn, by simp [linFresh], hnn, ?_⟩
  by_cases h0 : n = 0
  · right; subst h0; simp [linFresh, norm1, normEps]
  · left
    have : (n : ℚ) ≠ 0 := by exact_mod_cast h0
    simp only [linFresh, Init.rsum_replicate]
    field_simp

example : (linFresh 4).w = [1/4, 1/4, 1/4, 1/4] ∧ rsum (linFresh 4).w = 1 := by decide +kernel

/-! ## output calibrator: `Constant(np.ediff1d(output_initialization, to_begin=output_initialization[0]))` -/

/-- `output_initialization` is ascending (weakly) -/
def Ascending : List ℚ → Prop
  | a :: b :: t => a ≤ b ∧ Ascending (b :: t)
  | _ => True

theorem diffs_nonneg_of_ascending : ∀ (l : List ℚ), Ascending l → ∀ h ∈ Init.diffs l, 0 ≤ h
  | [], _, h, hh => by simp [Init.diffs] at hh
  | [_], _, h, hh => by simp [Init.diffs] at hh
  | a :: b :: t, hasc, h, hh => by
    simp only [Init.diffs, List.mem_cons] at hh
    rcases hh with rfl | hh
    · have := hasc.1; linarith
    · exact diffs_nonneg_of_ascending (b :: t) hasc.2 h hh

theorem cumsumFrom_diffs : ∀ (t : List ℚ) (a : ℚ), PwlProj.cumsumFrom a (Init.diffs (a :: t)) = t
  | [], _ => rfl
  | b :: t, a => by
    simp only [Init.diffs, PwlProj.cumsumFrom]
    rw [show a + (b - a) = b by ring, cumsumFrom_diffs t b]

/-- fresh state of the output calibrator; its `missingOut` entry is not a weight of the real layer (no
`impute_missing`), it is set to the value the layer would use -/
def outFresh (oc : OutCal) (oi : List ℚ) : CalW :=
  { kernel := oi.headD 0 :: Init.diffs oi,
    missingOut := ((Init.pwlInitBounds oc.outMin oc.outMax).1 + (Init.pwlInitBounds oc.outMin oc.outMax).2) / 2 }

/-- **`InitInv`, output-calibrator component.** The kernel `ediff1d(output_initialization)` has the
keypoint outputs `output_initialization` themselves: the fresh output calibrator is feasible
(increasing, within the bounds) as soon as `output_initialization` is ascending and lies within
`[output_min, output_max]` — the two facts `verify_config` does NOT check (finding F-C03-g). -/
theorem out_fresh_feas (oc : OutCal) (oi : List ℚ) (h2 : 2 ≤ oc.numKeypoints) (hlen : oi.length = oc.numKeypoints)
    (hb : ∀ l h, oc.outMin = some l → oc.outMax = some h → l ≤ h)
    (hasc : Ascending oi) (hin : ∀ y ∈ oi, inB oc.outMin oc.outMax y) :
    PwlFeas 1 oc.outMin oc.outMax (outCfg oc) (outFresh oc oi) := by
  match oi, hlen with
  | [], hlen => simp at hlen; omega
  | y0 :: t, hlen =>
    have hl : (Init.diffs (y0 :: t)).length = t.length := by
      rw [initDiffs_eq]; exact PwlEval.length_diffs y0 t
    refine pwlFeas_of_heights (b0 := y0) (hs := Init.diffs (y0 :: t)) rfl rfl
      (by simpa [outCfg, linspace01_length] using h2) (linspace01_strictIncr _ h2)
      (by simp only [outCfg, linspace01_length, hl]; simpa using hlen)
      (fun h => by cases h) (fun _ => diffs_nonneg_of_ascending _ hasc) (fun h => by omega) ?_
      (missing_init_inB _ _ hb)
    intro y hy
    rw [PwlProj.outputs, cumsumFrom_diffs] at hy
    exact hin y hy

example : (outFresh ⟨3, some 0, some 1⟩ [0, 1/4, 1]).kernel = [0, 1/4, 3/4] := by decide +kernel

/-! ## all-vertices lattices: `LinearInitializer` (calibrated lattice, explicit ensembles) -/

/-- fresh all-vertices unit: `LinearInitializer(lattice_sizes, monotonicities, unimodalities, a, b)` -/
def latFresh (b : Block) (lo hi : ℚ) : BlkW :=
  { table := Init.linearInitT b.sizes (latCfgOf b).mono b.unimod lo hi }

/-- **`InitInv`, all-vertices lattice with the linear initializer (from C10 T1).** For every block whose
axis lists `Lattice.__init__` accepts (`LinWF`: one entry per axis, sizes ≥ 2, unimodal axes of size ≥ 3
and not monotone) and every initialisation range inside the bounds, the fresh kernel is non-decreasing
along every monotone axis and within the bounds. -/
theorem lat_fresh_feas (b : Block) (lo hi : ℚ) (hwf : Init.LinWF b.sizes (latCfgOf b).mono b.unimod)
    (hr : RangeIn b.outMin b.outMax lo hi) : LatFeas b (latFresh b lo hi).table.get := by
  have hag := agreeOn_tabulate b.sizes (Init.linearInit b.sizes (latCfgOf b).mono b.unimod lo hi)
  refine ⟨fun d hd hm => ?_, fun idx hidx => ?_⟩
  · refine MonoAx.congr hag.symm (C10.linear_init_monoAx b.sizes _ _ lo hi hr.le d ?_)
    unfold Init.effMonos
    split
    · simp [List.getD_eq_getElem?_getD, hd]
    · exact latCfgOf_mono b d hm
  · have h1 := (Init.linearInit_min_max b.sizes _ _ lo hi hwf hr.le).1 idx hidx
    have e : (latFresh b lo hi).table.get idx = Init.linearInit b.sizes (latCfgOf b).mono b.unimod lo hi idx :=
      hag idx hidx
    rw [e]
    exact inB_of_range hr h1.1 h1.2

/-! ## all-vertices lattices of an RTL layer: `'random_monotonic_initializer'` -/

/-- fresh all-vertices unit of an RTL layer: the random monotonic initializer with the recorded shuffles
`perms` and uniform draws `sample` -/
def rtlFresh (b : Block) (perms : List (List Idx)) (sample : List ℚ) : BlkW :=
  match Init.randomMonotonicInitT b.sizes perms sample with
  | .ok t => { table := t }
  | .error _ => default

/-- **`InitInv`, RTL lattice with the random monotonic initializer (from C10 T2).** Whatever the
shuffles inside the BFS levels and whatever the draws from `[lo, hi]`: the fresh kernel is non-decreasing
along EVERY axis and within the bounds. (`randomMonotonicInit … = .ok w` is not a restriction:
`C10.random_monotonic_init_total`.) -/
theorem rtl_fresh_feas (b : Block) (perms : List (List Idx)) (sample : List ℚ) (lo hi : ℚ)
    (hpos : ∀ s ∈ b.sizes, 0 < s) (hs : ∀ v ∈ sample, lo ≤ v ∧ v ≤ hi)
    (hok : ∃ w, Init.randomMonotonicInit b.sizes perms sample = .ok w)
    (hr : RangeIn b.outMin b.outMax lo hi) : LatFeas b (rtlFresh b perms sample).table.get := by
  obtain ⟨w, hw⟩ := hok
  obtain ⟨hm, hrg⟩ := C10.random_monotonic_init_monotone_and_in_range b.sizes hpos perms sample lo hi hs w hw
  have e : (rtlFresh b perms sample).table = tabulate b.sizes w := by
    simp [rtlFresh, Init.randomMonotonicInitT, hw, Except.map]
  rw [e]
  have hag := agreeOn_tabulate b.sizes w
  refine ⟨fun d _ _ => MonoAx.congr hag.symm (hm d), fun idx hidx => ?_⟩
  rw [hag idx hidx]
  exact inB_of_range hr (hrg idx hidx).1 (hrg idx hidx).2

/-! ## Kronecker-factored units -/

/-- fresh Kronecker-factored unit: `KFLRandomMonotonicInitializer` on `default_init_params(output_min,
output_max)` with the recorded draws, `ScaleInitializer`, the bias initializer -/
def kflFresh (b : Block) (samples : List (List (List ℚ))) : BlkW :=
  { kfl := ⟨Init.kflInit (kflMonos b) (Init.scaleInit b.numTerms b.outMin b.outMax) samples,
      Init.scaleInit b.numTerms b.outMin b.outMax⟩,
    bias := Init.biasInit b.outMin b.outMax }

theorem kflInitTerm_length (ms : List Bool) (s : ℚ) (smp : List (List ℚ)) (h : smp.length = ms.length) :
    (Init.kflInitTerm ms s smp).length = ms.length := by
  unfold Init.kflInitTerm
  split <;> simp [h]

theorem kflInit_dims (ms : List Bool) : ∀ (sc : List ℚ) (samples : List (List (List ℚ))),
    (∀ smp ∈ samples, smp.length = ms.length) → ∀ kt ∈ Init.kflInit ms sc samples, kt.length = ms.length
  | [], _, _, kt, h => by simp [Init.kflInit] at h
  | _ :: _, [], _, kt, h => by simp [Init.kflInit] at h
  | s :: ss, smp :: rest, hs, kt, h => by
    simp only [Init.kflInit, List.mem_cons] at h
    rcases h with rfl | h
    · exact kflInitTerm_length ms s smp (hs smp (by simp))
    · exact kflInit_dims ms ss rest (fun x hx => hs x (List.mem_cons_of_mem _ hx)) kt h

/-- **`InitInv`, Kronecker-factored component (from C10 T4).** Kernel from the KFL random monotonic
initializer (any draws from the default range), scale from the scale initializer: the premises of C07
hold for the fresh unit, one kernel row per axis. -/
theorem kfl_fresh_feas (b : Block) (samples : List (List (List ℚ)))
    (hlh : ∀ l h, b.outMin = some l → b.outMax = some h → l ≤ h) (hrank : b.monos.length = b.sizes.length)
    (hs : ∀ smp ∈ samples, Init.SamplesOk (b.sizes.headD 0) (kflMonos b)
      (Init.kflDefaultInitParams b.outMin b.outMax).1 (Init.kflDefaultInitParams b.outMin b.outMax).2 smp) :
    KflFeas b (kflFresh b samples).kfl := by
  obtain ⟨hK, hS⟩ := C10.kfl_init_meets_C07_premises (b.sizes.headD 0) (kflMonos b) b.outMin b.outMax hlh
    b.numTerms samples hs
  refine ⟨hK, hS, fun kt hkt => ?_⟩
  rw [kflInit_dims (kflMonos b) _ samples (fun smp h => (hs smp h).1) kt hkt]
  simp [kflMonos, hrank]

/-! ## the composite: the state built from initializer outputs -/

/-- everything the initializers of one model read besides the layer graph: ranges, recorded draws,
`output_initialization` -/
structure InitData where
  /-- `(output_init_min, output_init_max)` of the calibrator of a feature (`_output_range`) -/
  calRange : Nat → ℚ × ℚ := fun _ => (0, 1)
  /-- the `RandomUniform` draws of categorical unit `(feature, unit)`, one per bucket -/
  catDraw : Nat → Nat → List ℚ := fun _ _ => []
  /-- `(output_init_min, output_init_max)` of the lattice layers (`LayerOutputRange.MODEL_OUTPUT`:
  min / max of `output_initialization`; `(0, 1)` below an output calibrator) -/
  blkRange : ℚ × ℚ := (0, 1)
  /-- RTL: the per-level shuffles and the uniform sample of lattice `j` -/
  rmPerms : Nat → List (List Idx) := fun _ => []
  rmSample : Nat → List ℚ := fun _ => []
  /-- KFL: the uniform draws of unit `j` (terms → axes → vertices) -/
  kflSamples : Nat → List (List (List ℚ)) := fun _ => []
  /-- `output_initialization` (keypoint outputs of the output calibrator) -/
  outInit : List ℚ := []

/-- number of inputs of the `Linear` layer of a calibrated linear model -/
def linN (g : LayerGraph) : Nat :=
  ((g.blocks.find? (fun b => b.kind == .linear)).map (fun b => b.inputs.length)).getD 0

/-- **the freshly built model**: every variable holds what its initializer returns -/
def fresh (g : LayerGraph) (P : Params) (D : InitData) : Assign
  | .cal f u =>
    if (calOf g f).categorical then ({ kernel := D.catDraw f u } : CalW)
    else pwlFresh (calOf g f).mono (calOf g f).outMin (calOf g f).outMax (P.kpsOf f) (D.calRange f).1 (D.calRange f).2
  | .blk j =>
    match g.blocks[j]? with
    | some b =>
      (match b.kind with
       | .kfl => kflFresh b (D.kflSamples j)
       | .lattice => if g.rtl then rtlFresh b (D.rmPerms j) (D.rmSample j) else latFresh b D.blkRange.1 D.blkRange.2
       | .linear => (default : BlkW))
    | none => (default : BlkW)
  | .lin => linFresh (linN g)
  | .comb => linFresh g.blocks.length
  | .out =>
    match g.outCal with
    | some oc => outFresh oc D.outInit
    | none => (default : CalW)

/-- **the one real restriction (finding F-C03-g)**: the initialisation ranges lie inside the output
bounds of the layers they initialise, and `output_initialization` is ascending and within the model's
output bounds. For calibrators feeding a lattice (`INPUT_TO_LATTICE`) or an output calibrator
(`INPUT_TO_FINAL_CALIBRATION`) the range IS the pair of bounds (`rangeIn_of_bounds`); for the layers that
produce the model output it is min / max of the user's `output_initialization`, which `verify_config`
relates neither to `output_min / output_max` nor to any order. -/
structure InitRange (g : LayerGraph) (D : InitData) : Prop where
  cal : ∀ c ∈ g.calibrators, RangeIn c.outMin c.outMax (D.calRange c.feature).1 (D.calRange c.feature).2
  blk : ∀ b ∈ g.blocks, b.kind = .lattice → RangeIn b.outMin b.outMax D.blkRange.1 D.blkRange.2
  out : ∀ oc, g.outCal = some oc → Ascending D.outInit ∧ ∀ y ∈ D.outInit, inB oc.outMin oc.outMax y

/-- facts about the recorded draws (true of everything the random generators can return: one uniform
draw per bucket / vertex inside the range, shuffles the loop accepts) and about the axis lists of the
all-vertices blocks (`LinWF`: what `Lattice.__init__` checks — one entry per axis, unimodal axes of
size ≥ 3 and not monotone; `Props/C10Accepted.lean` derives it from acceptance); `outLen`:
`len(output_initialization)` IS the number of keypoints of the output calibrator -/
structure FreshOk (g : LayerGraph) (D : InitData) : Prop where
  catDraw : ∀ c ∈ g.calibrators, c.categorical = true → ∀ u, u < c.units →
    (D.catDraw c.feature u).length = c.numBuckets ∧
    ∀ x ∈ D.catDraw c.feature u, (D.calRange c.feature).1 ≤ x ∧ x ≤ (D.calRange c.feature).2
  latWF : g.rtl = false → ∀ b ∈ g.blocks, b.kind = .lattice → Init.LinWF b.sizes (latCfgOf b).mono b.unimod
  rm : g.rtl = true → ∀ j b, g.blocks[j]? = some b → b.kind = .lattice →
    (∃ w, Init.randomMonotonicInit b.sizes (D.rmPerms j) (D.rmSample j) = .ok w) ∧
    ∀ v ∈ D.rmSample j, D.blkRange.1 ≤ v ∧ v ≤ D.blkRange.2
  kfl : ∀ j b, g.blocks[j]? = some b → b.kind = .kfl →
    ∀ smp ∈ D.kflSamples j, Init.SamplesOk (b.sizes.headD 0) (kflMonos b)
      (Init.kflDefaultInitParams b.outMin b.outMax).1 (Init.kflDefaultInitParams b.outMin b.outMax).2 smp
  outLen : ∀ oc, g.outCal = some oc → D.outInit.length = oc.numKeypoints

/-- shape facts of the graphs the builders return (proved: `buildSpec_shape`) -/
structure Shape (g : LayerGraph) : Prop where
  /-- the `Linear` layer of a calibrated linear model has `linN g` inputs -/
  linLen : ∀ b ∈ g.blocks, b.kind = .linear → b.inputs.length = linN g
  /-- a Kronecker-factored block has one monotonicity per axis -/
  rank : ∀ b ∈ g.blocks, b.kind = .kfl → b.monos.length = b.sizes.length

theorem mkLattice_rank (c : ModelConfig) (ins : List (Nat × Nat)) :
    (mkLattice c ins).monos.length = (mkLattice c ins).sizes.length := by
  rw [mkLattice_monos, mkLattice_sizes_length, List.length_map]

/-- **every graph the builders return has the shape the fresh state assumes** (all four model shapes) -/
theorem buildSpec_shape {c : ModelConfig} {g : LayerGraph} (h : buildSpec c = .ok g)
    (hdraw : c.kind = .ensemble → c.rtl = true → RtlDraws rtlIncreasing c) : Shape g := by
  cases hk : c.kind with
  | lattice =>
    obtain ⟨_, cals, _, rfl⟩ := buildSpec_lattice h hk
    refine ⟨fun b hb hl => ?_, fun b hb _ => ?_⟩ <;> (simp only [List.mem_singleton] at hb; subst hb)
    · exact absurd hl (mkLattice_kind _ _)
    · exact mkLattice_rank _ _
  | linear =>
    obtain ⟨_, cals, _, rfl⟩ := buildSpec_linear h hk
    refine ⟨fun b hb hl => ?_, fun b hb hl => ?_⟩ <;> (simp only [List.mem_singleton] at hb; subst hb)
    · simp [linN, mkLinear_kind]
    · rw [mkLinear_kind] at hl; cases hl
  | ensemble =>
    cases hr : c.rtl with
    | false =>
      obtain ⟨_, cals, _, _, _, rfl⟩ := buildSpec_explicit h hk hr
      refine ⟨fun b hb hl => ?_, fun b hb _ => ?_⟩ <;>
        (simp only [List.mem_map] at hb; obtain ⟨row, _, rfl⟩ := hb)
      · exact absurd hl (mkLattice_kind _ _)
      · exact mkLattice_rank _ _
    | true =>
      obtain ⟨_, cals, bs, _, _, hbs, _, rfl⟩ := buildSpec_rtl h hk hr
      have hd := hdraw hk hr
      obtain ⟨s, cap, hs, rfl⟩ := rtlBlocks_inv hbs
      have hlen := rtlFlat_length c rtlIncreasing
      obtain ⟨_, hfacts⟩ := rtlStructure_facts _ _ _ _ _ _ _ _ s cap (by rw [← hlen]; exact hd.pos)
        (by rw [← hlen]; exact hd.p1) hd.p2 hs
      refine ⟨fun b hb hl => ?_, fun b hb _ => ?_⟩ <;>
        (simp only [List.mem_flatMap, List.mem_map] at hb; obtain ⟨grp, hg, lat, hlat, rfl⟩ := hb)
      · exact absurd hl (mkRtlBlock_kind _ _ _ _)
      · obtain ⟨_, hmono, _⟩ := hfacts grp hg lat hlat
        simp only [mkRtlBlock, hmono, List.length_map]

/-- **`InitInv` holds for the freshly built model** — every layer kind the premade builders create:
PWL and categorical calibrators, all-vertices lattices (linear initializer; random monotonic initializer
inside an RTL layer), Kronecker-factored lattices, the `Linear` layer, the linear combination, the
output calibrator. Closes the DESIGN §8 limit "C03's `InitInv` … is NOT derived from C10's initializer
models". -/
theorem fresh_initInv {g : LayerGraph} {P : Params} (hA : Accepted g P) (hB : Built g) (hS : Shape g)
    (D : InitData) (hR : InitRange g D) (hF : FreshOk g D) : ∀ v, InitInv g P v (fresh g P D v)
  | .cal f u => by
    intro c hc hcf hu
    subst hcf
    have hcal := calOf_mem hB hc
    refine ⟨fun hcat => ?_, fun hcat => ?_⟩
    · have e : fresh g P D (.cal c.feature u) = ({ kernel := D.catDraw c.feature u } : CalW) := by
        simp [fresh, hcal, hcat]; rfl
      rw [e]
      obtain ⟨h1, h2⟩ := hF.catDraw c hc hcat u hu
      exact cat_fresh_init c _ _ _ h1 h2 (hR.cal c hc)
    · have e : fresh g P D (.cal c.feature u) = pwlFresh c.mono c.outMin c.outMax (P.kpsOf c.feature)
          (D.calRange c.feature).1 (D.calRange c.feature).2 := by
        simp [fresh, hcal, hcat]; rfl
      rw [e]
      obtain ⟨_, _, _, h2k, hinc⟩ := hA.pwl c hc hcat
      exact pwl_fresh_feas c.mono c.outMin c.outMax (pwlCfg c (P.kpsOf c.feature)) _ _ (hA.calB c hc) rfl h2k hinc
        (hR.cal c hc)
  | .blk j => by
    show Inv g P (.blk j) (fresh g P D (.blk j))
    intro b hb
    have hmem : b ∈ g.blocks := List.mem_of_getElem? hb
    refine ⟨fun hk => ?_, fun hk => ?_⟩
    · by_cases hrtl : g.rtl = true
      · have e : fresh g P D (.blk j) = rtlFresh b (D.rmPerms j) (D.rmSample j) := by
          simp [fresh, hb, hk, hrtl]; rfl
        rw [e]
        obtain ⟨hok, hs⟩ := hF.rm hrtl j b hb hk
        exact rtl_fresh_feas b _ _ _ _ (fun s hs' => by have := (hA.lat b hmem hk).2.1 s hs'; omega) hs hok
          (hR.blk b hmem hk)
      · have e : fresh g P D (.blk j) = latFresh b D.blkRange.1 D.blkRange.2 := by
          simp [fresh, hb, hk, hrtl]; rfl
        rw [e]
        exact lat_fresh_feas b _ _ (hF.latWF (by simpa using hrtl) b hmem hk) (hR.blk b hmem hk)
    · have e : fresh g P D (.blk j) = kflFresh b (D.kflSamples j) := by
        simp [fresh, hb, hk]; rfl
      rw [e]
      exact kfl_fresh_feas b _ (hA.kfl b hmem hk).2.2 (hS.rank b hmem hk) (hF.kfl j b hb hk)
  | .lin => by
    show Inv g P .lin (fresh g P D .lin)
    intro b hb hk
    obtain ⟨h1, _, h3⟩ := lin_fresh_ok (linN g) b.monos
    exact ⟨h1, fun _ => by rw [hS.linLen b hb hk]; exact h3⟩
  | .comb => by
    show Inv g P .comb (fresh g P D .comb)
    intro n ub _
    obtain ⟨_, h2, h3⟩ := lin_fresh_ok g.blocks.length []
    exact ⟨h2, fun _ => h3⟩
  | .out => by
    show Inv g P .out (fresh g P D .out)
    intro oc ho
    have e : fresh g P D .out = outFresh oc D.outInit := by simp [fresh, ho]; rfl
    rw [e]
    obtain ⟨h2, hb⟩ := hA.out oc ho
    exact out_fresh_feas oc D.outInit h2 (hF.outLen oc ho) hb (hR.out oc ho).1 (hR.out oc ho).2

/-! ## the headline theorem without an initial-state hypothesis -/

/-- **C03 from the freshly built model.** For EVERY accepted configuration (all model shapes, as in
`C03_systemOf`), start at the INITIALIZED state `fresh g P D` — every weight is what the initializer the
premade code passes returns, for ANY recorded draws `D` — and run ANY history of arbitrary updates each
followed by the models of the real constraint objects: the concrete composite is monotone in every
constrained feature and (under `Nondegenerate`) within the output bounds at every input, missing values
included. No hypothesis on the initial weights is left; `InitRange` (finding F-C03-g: the user's
`output_initialization` inside the output bounds and ascending) and `FreshOk` (the draws are draws) speak
about the ARGUMENTS of the initializers. The other hypotheses are those of `C03_systemOf`. -/
theorem C03_from_fresh_model (c : ModelConfig) (g : LayerGraph) (hb : buildSpec c = .ok g) (P : Params)
    (hacc : layersAccept g P = true) (htrap : trapClass g = true)
    (hdraw : c.kind = .ensemble → c.rtl = true → RtlDraws rtlIncreasing c)
    (D : InitData) (hR : InitRange g D) (hF : FreshOk g D) (n : Nat) (w : Assign)
    (hr : Reaches (Step g P) (fresh g P D) n w) (hhist : 0 < n ∨ NoCategoricalPairs g) :
    (∀ f rq, f < c.features.length → ReqOf (featAt c f).mono rq → MonoClause c g (realise g P w) f rq) ∧
    (Nondegenerate g (realise g P w) → ∀ x : List ℚ, ValidInputs g x →
      inB c.outMin c.outMax (forward g (realise g P w) x)) :=
  C03_systemOf c g hb P hacc htrap hdraw (fresh g P D)
    (fresh_initInv (accepted_of_checks hacc htrap) (buildSpec_built hb) (buildSpec_shape hb hdraw) D hR hF)
    n w hr hhist

/-- **the freshly built model itself** (no training step at all) is monotone and bounded — when no
categorical feature carries ordering pairs (their `RandomUniform` kernels ignore the pairs: F-C03-b). -/
theorem C03_fresh_model_itself (c : ModelConfig) (g : LayerGraph) (hb : buildSpec c = .ok g) (P : Params)
    (hacc : layersAccept g P = true) (htrap : trapClass g = true)
    (hdraw : c.kind = .ensemble → c.rtl = true → RtlDraws rtlIncreasing c)
    (D : InitData) (hR : InitRange g D) (hF : FreshOk g D) (hno : NoCategoricalPairs g) :
    (∀ f rq, f < c.features.length → ReqOf (featAt c f).mono rq →
      MonoClause c g (realise g P (fresh g P D)) f rq) ∧
    (Nondegenerate g (realise g P (fresh g P D)) → ∀ x : List ℚ, ValidInputs g x →
      inB c.outMin c.outMax (forward g (realise g P (fresh g P D)) x)) :=
  C03_from_fresh_model c g hb P hacc htrap hdraw D hR hF 0 _ (.init _) (Or.inr hno)

/-! ## `InitRange` from the configuration: the initialisation ranges `_output_range` really returns -/

/-- `(output_init_min, output_init_max)` of the layer in front of the optional output calibrator
(`_output_range`, `MODEL_OUTPUT` / `INPUT_TO_FINAL_CALIBRATION`); `m`, `M` = `np.min` / `np.max` of
`output_initialization`. (Kronecker-factored lattices take `kfl_lib.default_init_params` instead: that
is what `kflFresh` uses.) -/
def finalInitRange (c : ModelConfig) (m M : ℚ) : ℚ × ℚ := if c.outCalib then (0, 1) else (m, M)

/-- `(output_init_min, output_init_max)` of the input calibrator of feature `i`: `INPUT_TO_LATTICE`
(`[0, lattice_size - 1]`) in lattice models, the final range in a calibrated linear model -/
def calInitRange (c : ModelConfig) (m M : ℚ) (i : Nat) : ℚ × ℚ :=
  match c.kind with
  | .linear => finalInitRange c m M
  | _ => (0, ((featAt c i).latticeSize : ℚ) - 1)

theorem finalBounds (c : ModelConfig) (f : Feature) :
    outputRange (finalRange c) c f = if c.outCalib then (some 0, some 1) else (c.outMin, c.outMax) := by
  unfold finalRange; split_ifs <;> rfl

/-- the output bounds of every layer of a graph the builders return, by model shape -/
theorem buildSpec_ranges {c : ModelConfig} {g : LayerGraph} (h : buildSpec c = .ok g) :
    (∀ c' ∈ g.calibrators,
      (c.kind = .linear → c'.outMin = (outputRange (finalRange c) c default).1 ∧
        c'.outMax = (outputRange (finalRange c) c default).2) ∧
      (c.kind ≠ .linear → c'.outMin = some 0 ∧ c'.outMax = some (((featAt c c'.feature).latticeSize : ℚ) - 1))) ∧
    (∀ b ∈ g.blocks, b.kind ≠ .linear → b.outMin = (outputRange (finalRange c) c default).1 ∧
      b.outMax = (outputRange (finalRange c) c default).2) ∧
    g.outCal = mkOutCal c := by
  have toLat : ∀ {units : Nat → Nat} {l : List Nat} {cals : List Calibrator},
      mapMExcept (fun i => mkCalibrator c .toLattice i (units i)) l = .ok cals → ∀ c' ∈ cals,
        c'.outMin = some 0 ∧ c'.outMax = some (((featAt c c'.feature).latticeSize : ℚ) - 1) := by
    intro units l cals hm c' hc'
    obtain ⟨i, _, hi⟩ := forall₂_of_mem_right (mapMExcept_ok hm) hc'
    obtain ⟨e1, _, _, e2, e3⟩ := mkCalibrator_basic hi
    rw [e1, e2, e3]; exact ⟨rfl, rfl⟩
  cases hk : c.kind with
  | lattice =>
    obtain ⟨_, cals, hc, rfl⟩ := buildSpec_lattice h hk
    refine ⟨fun c' hc' => ⟨fun e => (by cases e), fun _ => toLat (units := fun _ => 1) hc c' hc'⟩, ?_, rfl⟩
    intro b hb _
    simp only [List.mem_singleton] at hb; subst hb
    exact mkLattice_bounds _ _
  | linear =>
    obtain ⟨_, cals, hc, rfl⟩ := buildSpec_linear h hk
    refine ⟨fun c' hc' => ⟨fun _ => ?_, fun e => absurd rfl e⟩, ?_, rfl⟩
    · obtain ⟨i, _, hi⟩ := forall₂_of_mem_right (mapMExcept_ok hc) hc'
      obtain ⟨_, _, _, e2, e3⟩ := mkCalibrator_basic hi
      rw [e2, e3, finalBounds, finalBounds]; exact ⟨rfl, rfl⟩
    · intro b hb hl
      simp only [List.mem_singleton] at hb; subst hb
      exact absurd (mkLinear_kind _ _) hl
  | ensemble =>
    cases hr : c.rtl with
    | false =>
      obtain ⟨_, cals, _, hc, _, rfl⟩ := buildSpec_explicit h hk hr
      refine ⟨fun c' hc' => ⟨fun e => (by cases e), fun _ => toLat hc c' hc'⟩, ?_, rfl⟩
      intro b hb _
      simp only [List.mem_map] at hb
      obtain ⟨row, _, rfl⟩ := hb
      exact mkLattice_bounds _ _
    | true =>
      obtain ⟨_, cals, bs, _, hc, hbs, _, rfl⟩ := buildSpec_rtl h hk hr
      refine ⟨fun c' hc' => ⟨fun e => (by cases e), fun _ => toLat hc c' hc'⟩, ?_, rfl⟩
      obtain ⟨s, cap, _, rfl⟩ := rtlBlocks_inv hbs
      intro b hb _
      simp only [List.mem_flatMap, List.mem_map] at hb
      obtain ⟨grp, _, lat, _, rfl⟩ := hb
      exact ⟨rfl, rfl⟩

/-- what `InitRange` asks of the USER's `output_initialization` (`m`, `M` its minimum and maximum): without
output calibration its range lies inside `[output_min, output_max]`; with output calibration the list
is ascending and every entry lies inside `[output_min, output_max]` -/
structure OutInitOk (c : ModelConfig) (m M : ℚ) (oi : List ℚ) : Prop where
  le : m ≤ M
  lo : c.outCalib = false → ∀ l, c.outMin = some l → l ≤ m
  hi : c.outCalib = false → ∀ h, c.outMax = some h → M ≤ h
  cal : c.outCalib = true → Ascending oi ∧ ∀ y ∈ oi, inB c.outMin c.outMax y

/-- **`InitRange` for the ranges the premade code computes.** With the ranges `_output_range` returns
(`calInitRange`, `finalInitRange`) every calibrator feeding a lattice or an output calibrator and every
layer below an output calibrator is initialised exactly on its bounds; only the layers producing the
model output depend on the user's `output_initialization` (`OutInitOk`). -/
theorem initRange_of_config {c : ModelConfig} {g : LayerGraph} (hb : buildSpec c = .ok g) {P : Params}
    (hA : Accepted g P) (D : InitData) (m M : ℚ) (hcal : D.calRange = calInitRange c m M)
    (hblk : D.blkRange = finalInitRange c m M) (ho : OutInitOk c m M D.outInit) : InitRange g D := by
  obtain ⟨hC, hBk, hO⟩ := buildSpec_ranges hb
  have hfin : ∀ (lo hi : Option ℚ), lo = (outputRange (finalRange c) c default).1 →
      hi = (outputRange (finalRange c) c default).2 →
      RangeIn lo hi (finalInitRange c m M).1 (finalInitRange c m M).2 := by
    intro lo hi e1 e2
    rw [finalBounds] at e1 e2
    unfold finalInitRange
    by_cases hoc : c.outCalib = true
    · simp only [hoc, if_true] at e1 e2 ⊢
      rw [e1, e2]; exact rangeIn_of_bounds 0 1 (by norm_num)
    · have hoc' : c.outCalib = false := by simpa using hoc
      simp only [hoc', Bool.false_eq_true, if_false] at e1 e2 ⊢
      rw [e1, e2]; exact ⟨ho.le, ho.lo hoc', ho.hi hoc'⟩
  refine ⟨fun c' hc' => ?_, fun b hbm hk => ?_, fun oc hoc => ?_⟩
  · rw [hcal]
    by_cases hk : c.kind = .linear
    · obtain ⟨e1, e2⟩ := (hC c' hc').1 hk
      simp only [calInitRange, hk]
      exact hfin _ _ e1 e2
    · obtain ⟨e1, e2⟩ := (hC c' hc').2 hk
      have : calInitRange c m M c'.feature = (0, ((featAt c c'.feature).latticeSize : ℚ) - 1) := by
        unfold calInitRange; cases hkk : c.kind <;> first | rfl | exact absurd hkk hk
      rw [this, e1, e2]
      exact rangeIn_of_bounds _ _ (hA.calB c' hc' _ _ e1 e2)
  · rw [hblk]
    obtain ⟨e1, e2⟩ := hBk b hbm (by rw [hk]; decide)
    exact hfin _ _ e1 e2
  · rw [hO] at hoc
    obtain ⟨e1, e2, e3⟩ := mkOutCal_some hoc
    rw [e1, e2]; exact ho.cal e3

/-- **C03 from the freshly built model, hypotheses about the CONFIGURATION only.** As
`C03_from_fresh_model`, with the initialisation ranges `_output_range` computes: besides acceptance and
the documented exclusions of `C03_systemOf`, the only premise is `OutInitOk` — the user's
`output_initialization` lies inside the output bounds (and is ascending under output calibration),
finding F-C03-g — plus `FreshOk` (the recorded draws are draws). -/
theorem C03_from_fresh_model_config (c : ModelConfig) (g : LayerGraph) (hb : buildSpec c = .ok g) (P : Params)
    (hacc : layersAccept g P = true) (htrap : trapClass g = true)
    (hdraw : c.kind = .ensemble → c.rtl = true → RtlDraws rtlIncreasing c)
    (D : InitData) (m M : ℚ) (hcal : D.calRange = calInitRange c m M) (hblk : D.blkRange = finalInitRange c m M)
    (ho : OutInitOk c m M D.outInit) (hF : FreshOk g D) (n : Nat) (w : Assign)
    (hr : Reaches (Step g P) (fresh g P D) n w) (hhist : 0 < n ∨ NoCategoricalPairs g) :
    (∀ f rq, f < c.features.length → ReqOf (featAt c f).mono rq → MonoClause c g (realise g P w) f rq) ∧
    (Nondegenerate g (realise g P w) → ∀ x : List ℚ, ValidInputs g x →
      inB c.outMin c.outMax (forward g (realise g P w) x)) :=
  C03_from_fresh_model c g hb P hacc htrap hdraw D
    (initRange_of_config hb (accepted_of_checks hacc htrap) D m M hcal hblk ho) hF n w hr hhist

/-! ## `FreshOk.latWF` from the configuration when no feature is unimodal -/

theorem featAt_unimod0 (c : ModelConfig) (hu : ∀ f ∈ c.features, f.unimodality = 0) (i : Nat) :
    (featAt c i).unimodality = 0 := by
  unfold featAt
  by_cases hi : i < c.features.length
  · exact hu _ (getD_mem c.features default hi)
  · rw [List.getD_eq_getElem?_getD, List.getElem?_eq_none (by omega)]; rfl

/-- the all-vertices block `build_lattice_layer` creates, without unimodal features, has axis lists the
linear initializer accepts (`LinWF`) -/
theorem mkLattice_linWF (c : ModelConfig) (ins : List (Nat × Nat)) (hk : (mkLattice c ins).kind = .lattice)
    (hne : (mkLattice c ins).sizes ≠ []) (hs2 : ∀ n ∈ (mkLattice c ins).sizes, 2 ≤ n)
    (hu : ∀ f ∈ c.features, f.unimodality = 0) :
    Init.LinWF (mkLattice c ins).sizes (latCfgOf (mkLattice c ins)).mono (mkLattice c ins).unimod := by
  have hkfl : c.kfl = false := by
    cases h : c.kfl with
    | false => rfl
    | true => simp [mkLattice, h] at hk
  have hun : (mkLattice c ins).unimod = ins.map (fun p => (featAt c p.1).unimodality) := by
    simp [mkLattice, hkfl]
  have hzero : ∀ d, (mkLattice c ins).unimod.getD d 0 = 0 := by
    intro d
    rw [hun]
    by_cases hd : d < ins.length
    · rw [getD_map' _ _ _ default _ hd]; exact featAt_unimod0 c hu _
    · rw [List.getD_eq_getElem?_getD, List.getElem?_eq_none (by simpa using Nat.le_of_not_lt hd)]; rfl
  refine ⟨?_, fun d hd => hs2 _ (getD_mem _ 0 hd), ?_, ?_, fun d _ h => absurd (hzero d) h,
    fun d h => h.2 (hzero d)⟩
  · cases h : (mkLattice c ins).sizes with
    | nil => exact absurd h hne
    | cons a t => simp
  · simp [latCfgOf, mkLattice_rank]
  · rw [hun, mkLattice_sizes_length]; simp

/-- **`FreshOk.latWF` is a consequence of acceptance when no feature carries a unimodality** (calibrated
lattice and explicit / random-resolved ensembles; an RTL layer uses the random monotonic initializer, a
calibrated linear model has no lattice) -/
theorem latWF_of_config {c : ModelConfig} {g : LayerGraph} (hb : buildSpec c = .ok g) {P : Params}
    (hA : Accepted g P) (hu : ∀ f ∈ c.features, f.unimodality = 0) :
    g.rtl = false → ∀ b ∈ g.blocks, b.kind = .lattice → Init.LinWF b.sizes (latCfgOf b).mono b.unimod := by
  intro hrtl b hbm hkind
  obtain ⟨hne, hs2, _, _⟩ := hA.lat b hbm hkind
  cases hk : c.kind with
  | lattice =>
    obtain ⟨_, cals, _, rfl⟩ := buildSpec_lattice hb hk
    simp only [List.mem_singleton] at hbm; subst hbm
    exact mkLattice_linWF c _ hkind hne hs2 hu
  | linear =>
    obtain ⟨_, cals, _, rfl⟩ := buildSpec_linear hb hk
    simp only [List.mem_singleton] at hbm; subst hbm
    rw [mkLinear_kind] at hkind; cases hkind
  | ensemble =>
    cases hr : c.rtl with
    | false =>
      obtain ⟨_, cals, _, _, _, rfl⟩ := buildSpec_explicit hb hk hr
      simp only [List.mem_map] at hbm
      obtain ⟨row, _, rfl⟩ := hbm
      exact mkLattice_linWF c _ hkind hne hs2 hu
    | true =>
      obtain ⟨_, cals, bs, _, _, _, _, rfl⟩ := buildSpec_rtl hb hk hr
      cases hrtl

/-! ## finding F-C03-g, model side: what `InitRange` excludes really fails -/

/-- **F-C03-g (range)**: `CalibratedLinearConfig(output_min=0, output_max=1, output_initialization=[-2, 2])`
— accepted by `verify_config` — initialises the input calibrators on `[-2, 2]`: the fresh PWL unit is
NOT feasible (its first keypoint output is `-2 < output_min`); the real fresh model predicts `-2` and
`2` with bounds `[0, 1]` (`design_probes/c03init_probe.py`). -/
theorem out_of_range_init_violates :
    ¬ PwlFeas 1 (some 0) (some 1) ⟨[0, 1, 2], false, false, false, none⟩
      (pwlFresh 1 (some 0) (some 1) [0, 1, 2] (-2) 2) := by
  intro h
  have := (h.bnd 0 (by decide)).1 0 rfl
  revert this
  decide +kernel

/-- **F-C03-g (order)**: `output_calibration=True, output_initialization=[2, -2]` — accepted — gives an
output calibrator whose fresh kernel `[2, -4]` DEcreases although the layer is built with
`monotonicity=1`: the fresh unit is not feasible; the real fresh model decreases in an increasing
feature (predictions `2` at the low corner, `-2` at the high corner). -/
theorem descending_output_initialization_violates :
    ¬ PwlFeas 1 none none (outCfg ⟨2, none, none⟩) (outFresh ⟨2, none, none⟩ [2, -2]) := by
  intro h
  have := h.inc rfl 0 (by decide)
  revert this
  decide +kernel

/-! ## non-vacuity -/

/-- the linear initializer on the example block of `Props/C03.lean` (sizes [2, 2], both axes monotone,
bounds [0, 1]): vertex values 0, 1/2, 1/2, 1 -/
example : (latFresh blkEx 0 1).table = Table.ofVals [2, 2] [0, 1/2, 1/2, 1] := by decide +kernel

theorem blkEx_linWF : Init.LinWF blkEx.sizes (latCfgOf blkEx).mono blkEx.unimod := by
  refine ⟨by decide, fun d hd => ?_, rfl, rfl, fun d hd h => ?_, fun d h => ?_⟩
  · have : d = 0 ∨ d = 1 := by simp [blkEx] at hd; omega
    rcases this with rfl | rfl <;> decide
  · have : d = 0 ∨ d = 1 := by simp [blkEx] at hd; omega
    rcases this with rfl | rfl <;> exact absurd rfl h
  · rcases d with _ | _ | d <;> exact h.2 rfl

example : LatFeas blkEx (latFresh blkEx 0 1).table.get :=
  lat_fresh_feas blkEx 0 1 blkEx_linWF (rangeIn_of_bounds 0 1 (by norm_num))

/-- a 2 × 3 RTL lattice with recorded shuffles and draws from `[0, 1]` -/
def blkRtlEx : Block :=
  { kind := .lattice, inputs := [(0, 0), (1, 0)], sizes := [2, 3], monos := [1, 0], outMin := some 0, outMax := some 1 }

example : LatFeas blkRtlEx
    (rtlFresh blkRtlEx [[[1, 0], [0, 1]], [[0, 2], [1, 1]], [[1, 2]]] [5/8, 1/8, 1/2, 1/4, 1, 3/8]).table.get := by
  refine rtl_fresh_feas blkRtlEx _ _ 0 1 (by decide) ?_ ?_ (rangeIn_of_bounds 0 1 (by norm_num))
  · intro v hv
    simp only [List.mem_cons, List.not_mem_nil, or_false] at hv
    rcases hv with rfl | rfl | rfl | rfl | rfl | rfl <;> norm_num
  · have : (Init.randomMonotonicInit blkRtlEx.sizes [[[1, 0], [0, 1]], [[0, 2], [1, 1]], [[1, 2]]]
        [5/8, 1/8, 1/2, 1/4, 1, 3/8]).toOption.isSome = true := by decide +kernel
    cases h : Init.randomMonotonicInit blkRtlEx.sizes [[[1, 0], [0, 1]], [[0, 2], [1, 1]], [[1, 2]]]
        [5/8, 1/8, 1/2, 1/4, 1, 3/8] with
    | ok w => exact ⟨w, rfl⟩
    | error e => rw [h] at this; cases this

/-- a Kronecker-factored unit (two axes of size 3, first monotone, bounds [0, 1], one term) -/
def blkKflEx : Block :=
  { kind := .kfl, inputs := [(0, 0), (1, 0)], sizes := [3, 3], monos := [1, 0], outMin := some 0, outMax := some 1,
    numTerms := 1 }

example : KflFeas blkKflEx (kflFresh blkKflEx [[[1/2, 1/4, 1], [1/3, 1, 0]]]).kfl := by
  refine kfl_fresh_feas blkKflEx _ (fun l h e1 e2 => by cases e1; cases e2; norm_num) rfl ?_
  intro smp hsmp
  simp only [List.mem_singleton] at hsmp
  subst hsmp
  refine ⟨rfl, ?_⟩
  intro col hc
  simp only [List.mem_cons, List.not_mem_nil, or_false] at hc
  rcases hc with rfl | rfl
  · refine ⟨rfl, fun x hx => ?_⟩
    simp only [List.mem_cons, List.not_mem_nil, or_false] at hx
    rcases hx with rfl | rfl | rfl <;> simp [Init.kflDefaultInitParams, blkKflEx] <;> norm_num
  · refine ⟨rfl, fun x hx => ?_⟩
    simp only [List.mem_cons, List.not_mem_nil, or_false] at hx
    rcases hx with rfl | rfl | rfl <;> norm_num [Init.kflDefaultInitParams, blkKflEx]

/-- initializer arguments of the example model `cfgEx` (`INPUT_TO_LATTICE` ranges `[0, 1]`, lattice
range `[0, 1]`, two uniform draws for the categorical kernel) -/
def exD : InitData := { catDraw := fun _ _ => [3/4, 1/4] }

/-- the fresh example model: PWL kernel `[0, 1]`, categorical kernel AGAINST its pair (0, 1), linear
lattice kernel -/
example : (fresh gEx exP exD (.cal 0 0) : CalW).kernel = [0, 1] ∧ (fresh gEx exP exD (.cal 1 0) : CalW).kernel = [3/4, 1/4] ∧
    (fresh gEx exP exD (.blk 0) : BlkW).table = Table.ofVals [2, 2] [0, 1/2, 1/2, 1] := by
  refine ⟨?_, ?_, ?_⟩ <;> decide +kernel

theorem exInitRange : InitRange gEx exD := by
  refine ⟨fun c hc => ?_, fun b hb _ => ?_, fun oc h => (by cases h)⟩
  · simp only [gEx, List.mem_cons, List.not_mem_nil, or_false] at hc
    rcases hc with rfl | rfl <;> exact rangeIn_of_bounds 0 1 (by norm_num)
  · simp only [gEx, List.mem_singleton] at hb
    subst hb
    exact rangeIn_of_bounds 0 1 (by norm_num)

theorem exFreshOk : FreshOk gEx exD := by
  refine ⟨fun c hc hcat u _ => ?_, fun _ b hb _ => ?_, fun h => (by cases h), fun j b hb hk => ?_,
    fun oc h => (by cases h)⟩
  · simp only [gEx, List.mem_cons, List.not_mem_nil, or_false] at hc
    rcases hc with rfl | rfl
    · cases hcat
    · refine ⟨rfl, fun x hx => ?_⟩
      simp only [exD, List.mem_cons, List.not_mem_nil, or_false] at hx
      rcases hx with rfl | rfl <;> norm_num [exD]
  · simp only [gEx, List.mem_singleton] at hb
    subst hb
    exact blkEx_linWF
  · have hmem : b ∈ gEx.blocks := List.mem_of_getElem? hb
    simp only [gEx, List.mem_singleton] at hmem
    subst hmem; cases hk

/-- **`C03_from_fresh_model` is not vacuous**: the example model, started at its FRESH weights (the
categorical kernel `[3/4, 1/4]` violates the pair (0, 1)), after one step of the real constraints is
non-decreasing in feature 0, ordered along the category pair and within [0, 1] -/
example : MonoClause cfgEx gEx (realise gEx exP exAfter) 0 .inc ∧
    MonoClause cfgEx gEx (realise gEx exP exAfter) 1 (.pair 0 1) ∧
    ∀ x, ValidInputs gEx x → inB (some 0) (some 1) (forward gEx (realise gEx exP exAfter) x) := by
  obtain ⟨h1, h2⟩ := C03_from_fresh_model cfgEx gEx buildSpec_cfgEx exP exAccepted.1 exAccepted.2
    (fun h => by cases h) exD exInitRange exFreshOk 1 exAfter (exReaches _) (Or.inl Nat.one_pos)
  refine ⟨h1 0 .inc (by simp [cfgEx]) (.inc true), h1 1 (.pair 0 1) (by simp [cfgEx]) (.pair _ _ 0 1 (by simp)), ?_⟩
  apply h2
  exact ⟨(fun b hb hk _ => by simp only [gEx, List.mem_singleton] at hb; subst hb; cases hk),
    (fun ub e => by cases e)⟩

/-- the initializer arguments `exD` ARE the ranges `_output_range` computes for `cfgEx` with
`output_initialization = [0, 1]`, and `[0, 1]` lies inside the output bounds `[0, 1]` -/
theorem exD_ranges : exD.calRange = calInitRange cfgEx 0 1 ∧ exD.blkRange = finalInitRange cfgEx 0 1 ∧
    OutInitOk cfgEx 0 1 exD.outInit := by
  refine ⟨?_, rfl, ⟨by norm_num, fun _ l hl => ?_, fun _ h hh => ?_, fun h => (by cases h)⟩⟩
  · funext i
    have hs : (featAt cfgEx i).latticeSize = 2 := by
      rcases i with _ | _ | i <;> rfl
    have hk : cfgEx.kind = .lattice := rfl
    simp only [calInitRange, hk, hs, exD]
    norm_num
  · simp only [cfgEx, Option.some.injEq] at hl; rw [← hl]
  · simp only [cfgEx, Option.some.injEq] at hh; rw [← hh]

/-- **`C03_from_fresh_model_config` is not vacuous** (same conclusion, hypotheses about the configuration) -/
example : MonoClause cfgEx gEx (realise gEx exP exAfter) 0 .inc ∧
    MonoClause cfgEx gEx (realise gEx exP exAfter) 1 (.pair 0 1) := by
  obtain ⟨h1, _⟩ := C03_from_fresh_model_config cfgEx gEx buildSpec_cfgEx exP exAccepted.1 exAccepted.2
    (fun h => by cases h) exD 0 1 exD_ranges.1 exD_ranges.2.1 exD_ranges.2.2 exFreshOk 1 exAfter (exReaches _)
    (Or.inl Nat.one_pos)
  exact ⟨h1 0 .inc (by simp [cfgEx]) (.inc true), h1 1 (.pair 0 1) (by simp [cfgEx]) (.pair _ _ 0 1 (by simp))⟩

end Tfl.C03
