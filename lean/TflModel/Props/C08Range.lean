import TflModel.Props.C08
import TflModel.Lemmas.DykstraConvRangeHyper
/-!
# C08 — what holds for the RANGE DOMINANCE groups of `project_by_dykstra`

DESIGN §8 Limits, bullet "Dykstra: convergence is proved (C08) for every family except range
dominance". This file settles exactly how far the range-dominance step
(`_project_partial_range_dominance`, model `rangeDomGroup`) is a Euclidean projection:

* **every vertex, all sizes ≥ 2** — `rangeDomGroup_lands`, `rangeDomGroup_removes_violation`: after
  the step the constraint of the visited vertex `(i, j)` holds in every slice; its value is exactly
  `min (old value) 0`. (Feasibility of the step; `rangeDomGroup_fix` of `Props/C08.lean` is the
  fixed-point half.)
* **every vertex except the two doubled corners `(0, N−1)` and `(M−1, 0)`** —
  `rangeDomGroup_eq_halfspace`, `rangeDomGroup_lands_halfspace`, `rangeDomGroup_vi`: the step IS the
  half-space projection `hyperplaneGroup [dom, weak] false (rdStencil …)` already used for joint
  unimodality, hence lands in its constraint set and satisfies the box-sum variational inequality
  `Σ (w − P w)(y − P w) ≤ 0` for every real kernel `y` of the set: the exact Euclidean projection —
  the facts the Boyle–Dykstra theorem (`Lemmas/DykstraConv*.lean`) asks of a group.
* **the two doubled corners** — `rdStep_doubled_corner` (all sizes), `rangeDom_doubled_corners_expand`
  (machine-checked 2×2 instances, replayed on the real `_project_partial_range_dominance`:
  `design_probes/c08range/probe.py`): the step leaves the doubly weighted corner alone and moves the
  two other entries by `diff / 2`; it lands on the hyperplane but the squared distance to the
  FEASIBLE zero kernel grows from 1 to 3 — the step is not even non-expansive towards feasible
  points, so it is not the projection (in any of the equivalent senses) and no Fejér / Boyle–Dykstra
  argument applies to a schedule that contains it. Every configuration with a range dominance
  schedules both doubled corners (`rangeDom_schedule_has_doubled_corners`), so the side condition
  `c.rd = []` of `accepted_converges` CANNOT be dropped with the present proof technique; what
  remains true for such configurations is feasible ⇒ unchanged / idempotence (`Props/C08.lean`:
  `projectByDykstraT_feasible`, `projectByDykstraT_twice`) and the per-visit feasibility above.
-/
namespace Tfl.C08
open Tfl Tfl.Lat Tfl.DykConv

/-- what `verify_hyperparameters` guarantees of a range-dominance pair: two different dimensions of
the lattice, both of size ≥ 2 -/
structure RdWF (sizes : List Nat) (dom weak : Nat) : Prop where
  hdom : dom < sizes.length
  hweak : weak < sizes.length
  hne : dom ≠ weak
  hM : 2 ≤ sizes.getD dom 0
  hN : 2 ≤ sizes.getD weak 0

theorem RdWF.grid {sizes : List Nat} {dom weak : Nat} (h : RdWF sizes dom weak) {idx : Idx}
    (hr : InRange sizes idx) : GridOK dom weak idx :=
  ⟨by rw [hr.1]; exact h.hdom, by rw [hr.1]; exact h.hweak, h.hne⟩

/-- the constraint of vertex `(i, j)` in the slice of `idx` (one conjunct of `RangeDomOK`) -/
def RangeDomAt (sizes : List Nat) (dom weak i j : Nat) (w : W) (idx : Idx) : Prop :=
  (gat w dom weak i (sizes.getD weak 0 - 1) idx - gat w dom weak i 0 idx)
    - (gat w dom weak (sizes.getD dom 0 - 1) j idx - gat w dom weak 0 j idx) ≤ 0

/-- `RangeDomOK` (the feasibility predicate of `FeasibleD.rdom`) is the conjunction of `RangeDomAt` -/
theorem rangeDomOK_iff (sizes : List Nat) (dom weak : Nat) (w : W) :
    RangeDomOK sizes dom weak w ↔ ∀ idx, InRange sizes idx → ∀ i j, i < sizes.getD dom 0 →
      j < sizes.getD weak 0 → RangeDomAt sizes dom weak i j w idx := Iff.rfl

/-- **C08, range dominance, feasibility of the step — exact form.** For every pair accepted by the
constructor, every vertex `(i, j)` (the doubled corners included), every kernel and every slice: the
value of the visited constraint after the step is `min (value before) 0` — the step removes exactly
the violation and does nothing to a satisfied constraint. -/
theorem rangeDomGroup_removes_violation {sizes : List Nat} {dom weak : Nat} (hwf : RdWF sizes dom weak)
    (i j : Nat) (w : W) {idx : Idx} (hr : InRange sizes idx) :
    rdDiff (sizes.getD dom 0) (sizes.getD weak 0) i j (fun x y =>
        gat (rangeDomGroup (sizes.getD dom 0) (sizes.getD weak 0) dom weak i j w) dom weak x y idx)
      = min (rdDiff (sizes.getD dom 0) (sizes.getD weak 0) i j (fun x y => gat w dom weak x y idx)) 0 := by
  have e : (fun x y => gat (rangeDomGroup (sizes.getD dom 0) (sizes.getD weak 0) dom weak i j w) dom weak x y idx)
      = rdStep (sizes.getD dom 0) (sizes.getD weak 0) i j (fun x y => gat w dom weak x y idx) :=
    funext fun x => funext fun y => gat_rangeDomGroup _ _ dom weak i j w (hwf.grid hr) x y
  rw [e, rdStep_diff hwf.hM hwf.hN]

/-- **C08, range dominance: the step's output satisfies the constraint of its group** — all sizes,
every vertex, every kernel, every slice of the other dimensions (closes the "feasibility only" part
of DESIGN §4/C08 T6, which was stated but only `_fix` was proved). -/
theorem rangeDomGroup_lands {sizes : List Nat} {dom weak : Nat} (hwf : RdWF sizes dom weak)
    (i j : Nat) (w : W) {idx : Idx} (hr : InRange sizes idx) :
    RangeDomAt sizes dom weak i j
      (rangeDomGroup (sizes.getD dom 0) (sizes.getD weak 0) dom weak i j w) idx := by
  have h := rangeDomGroup_removes_violation hwf i j w hr
  have h' : rdDiff (sizes.getD dom 0) (sizes.getD weak 0) i j (fun x y =>
      gat (rangeDomGroup (sizes.getD dom 0) (sizes.getD weak 0) dom weak i j w) dom weak x y idx) ≤ 0 := by
    rw [h]; exact min_le_right _ _
  exact h'

/-- non-vacuity: on the 3×2×2 lattice with the pair `(0, 2)`, the step at the doubled corner `(0, 1)`
from a violating kernel: the visited constraint goes from `2` to `0` in the slice of `[0, 1, 0]` -/
example : RdWF [3, 2, 2] 0 2 ∧
    rdDiff 3 2 0 1 (fun x y => gat (fun idx => if idx = [0, 1, 1] then 1 else 0) 0 2 x y [0, 1, 0]) = 2 ∧
    rdDiff 3 2 0 1 (fun x y => gat (rangeDomGroup 3 2 0 2 0 1
      (fun idx => if idx = [0, 1, 1] then 1 else 0)) 0 2 x y [0, 1, 0]) = 0 := by
  refine ⟨⟨by decide, by decide, by decide, by decide, by decide⟩, by decide +kernel, by decide +kernel⟩

/-! ### every vertex but the doubled corners: the exact Euclidean projection -/

/-- `(i, j)` is one of the two corners where one grid position enters the constraint twice -/
def Doubled (M N i j : Nat) : Prop := (i = 0 ∧ j = N - 1) ∨ (i = M - 1 ∧ j = 0)

instance (M N i j : Nat) : Decidable (Doubled M N i j) := by unfold Doubled; infer_instance

/-- the constraint of vertex `(i, j)` in the slice of `idx`, for a real kernel -/
def RangeDomAtR (sizes : List Nat) (dom weak i j : Nat) (y : Idx → ℝ) (idx : Idx) : Prop :=
  (y (setc (setc idx dom i) weak (sizes.getD weak 0 - 1)) - y (setc (setc idx dom i) weak 0))
    - (y (setc (setc idx dom (sizes.getD dom 0 - 1)) weak j) - y (setc (setc idx dom 0) weak j)) ≤ 0

/-- the constraint set of the group in the framework's form (`HyperF` of the stencil) is the set of
real kernels satisfying the vertex's inequality in every slice -/
theorem hyperF_rdStencil_iff (sizes : List Nat) (dom weak i j : Nat) (y : Idx → ℝ) :
    HyperF sizes [dom, weak] false (rdStencil (sizes.getD dom 0) (sizes.getD weak 0) i j) y ↔
      ∀ idx, InRange sizes idx → RangeDomAtR sizes dom weak i j y idx := by
  have e : ∀ idx, juDotR [dom, weak] (rdStencil (sizes.getD dom 0) (sizes.getD weak 0) i j) y idx
      = (y (setc (setc idx dom i) weak (sizes.getD weak 0 - 1)) - y (setc (setc idx dom i) weak 0))
        - (y (setc (setc idx dom (sizes.getD dom 0 - 1)) weak j) - y (setc (setc idx dom 0) weak j)) := by
    intro idx
    unfold rdStencil juDotR
    split_ifs with h
    · rcases h with ⟨rfl, rfl⟩ | ⟨rfl, rfl⟩ <;>
        simp only [List.map, List.sum_cons, List.sum_nil, setcs] <;> push_cast <;> ring
    · simp only [List.map, List.sum_cons, List.sum_nil, setcs]; push_cast; ring
  simp only [HyperF, JuQ, Bool.false_eq_true, if_false, e, RangeDomAtR]

/-- **the tie (tensor level).** At a non-doubled vertex the model's range-dominance group map equals,
on the box, the half-space projection `hyperplaneGroup` of the vertex's stencil. -/
theorem rangeDomGroup_eq_halfspace {sizes : List Nat} {dom weak : Nat} (hwf : RdWF sizes dom weak)
    {i j : Nat} (hnd : ¬ Doubled (sizes.getD dom 0) (sizes.getD weak 0) i j) (w : W) :
    AgreeOn sizes (rangeDomGroup (sizes.getD dom 0) (sizes.getD weak 0) dom weak i j w)
      (hyperplaneGroup [dom, weak] false (rdStencil (sizes.getD dom 0) (sizes.getD weak 0) i j) w) :=
  fun _ hr => rangeDomGroup_eq_hyperplaneGroup hwf.hM hwf.hN (fun h => hnd (Or.inl h))
    (fun h => hnd (Or.inr h)) dom weak w (hwf.grid hr)

/-- **C08, range dominance, non-doubled vertex: lands in the group's constraint set** (the
framework's `HyperF` form; `hyperF_rdStencil_iff` reads it as the vertex inequality in every slice) -/
theorem rangeDomGroup_lands_halfspace {sizes : List Nat} {dom weak : Nat} (hwf : RdWF sizes dom weak)
    {i j : Nat} (hi : i < sizes.getD dom 0) (hj : j < sizes.getD weak 0)
    (hnd : ¬ Doubled (sizes.getD dom 0) (sizes.getD weak 0) i j) (w : W) :
    ∀ idx, InRange sizes idx → RangeDomAtR sizes dom weak i j
      (fun idx => ((rangeDomGroup (sizes.getD dom 0) (sizes.getD weak 0) dom weak i j w idx : ℚ) : ℝ)) idx := by
  have hst := rdStencil_ok hwf.hM hwf.hN hi hj (fun h => hnd (Or.inl h)) (fun h => hnd (Or.inr h))
  have hn : [dom, weak].Nodup := by simp [hwf.hne]
  have hd : ∀ d ∈ [dom, weak], d < sizes.length := by
    intro d hdm
    simp only [List.mem_cons, List.not_mem_nil, or_false] at hdm
    rcases hdm with rfl | rfl
    · exact hwf.hdom
    · exact hwf.hweak
  have hl := hyperplaneGroup_lands (valley := false) hn hd hst w
  rw [hyperF_rdStencil_iff] at hl
  intro idx hr
  have := hl idx hr
  simp only [RangeDomAtR] at this ⊢
  have ha := rangeDomGroup_eq_halfspace hwf hnd w
  have q : ∀ x y, x < sizes.getD dom 0 → y < sizes.getD weak 0 →
      InRange sizes (setc (setc idx dom x) weak y) := fun x y hx hy =>
    inRange_setc (inRange_setc hr hx) hy
  rw [ha _ (q _ _ hi (by have := hwf.hN; omega)), ha _ (q _ _ hi (by have := hwf.hN; omega)),
    ha _ (q _ _ (by have := hwf.hM; omega) hj), ha _ (q _ _ (by have := hwf.hM; omega) hj)]
  exact this

/-- **C08, range dominance, non-doubled vertex: the variational inequality of the Euclidean
projection.** For every real kernel `y` satisfying the vertex's inequality in every slice,
`Σ_box (w − P w)(y − P w) ≤ 0` — together with `rangeDomGroup_lands_halfspace` this says `P w` is THE
nearest point of the group's (closed, convex) constraint set: the hypothesis the Boyle–Dykstra
theorem needs of a group, for all sizes and all vertices but the two doubled corners. -/
theorem rangeDomGroup_vi {sizes : List Nat} {dom weak : Nat} (hwf : RdWF sizes dom weak)
    {i j : Nat} (hi : i < sizes.getD dom 0) (hj : j < sizes.getD weak 0)
    (hnd : ¬ Doubled (sizes.getD dom 0) (sizes.getD weak 0) i j) (w : W) (y : Idx → ℝ)
    (hy : ∀ idx, InRange sizes idx → RangeDomAtR sizes dom weak i j y idx) :
    bsum sizes (fun idx =>
      ((w idx : ℝ) - ((rangeDomGroup (sizes.getD dom 0) (sizes.getD weak 0) dom weak i j w idx : ℚ) : ℝ))
        * (y idx - ((rangeDomGroup (sizes.getD dom 0) (sizes.getD weak 0) dom weak i j w idx : ℚ) : ℝ))) ≤ 0 := by
  have hst := rdStencil_ok hwf.hM hwf.hN hi hj (fun h => hnd (Or.inl h)) (fun h => hnd (Or.inr h))
  have hn : [dom, weak].Nodup := by simp [hwf.hne]
  have hd : ∀ d ∈ [dom, weak], d < sizes.length := by
    intro d hdm
    simp only [List.mem_cons, List.not_mem_nil, or_false] at hdm
    rcases hdm with rfl | rfl
    · exact hwf.hdom
    · exact hwf.hweak
  have hv := hyperplaneGroup_vi hn hd hst w y ((hyperF_rdStencil_iff sizes dom weak i j y).mpr hy)
  have ha := rangeDomGroup_eq_halfspace hwf hnd w
  rw [bsum_congr (sizes := sizes) (fun idx hr => by rw [ha idx hr])]
  exact hv

/-- non-vacuity of the three theorems above: the 3×3 lattice, pair `(0, 1)`, the inner vertex
`(1, 1)` and the cancelling corner `(0, 0)` are not doubled; `(0, 2)` and `(2, 0)` are -/
example : RdWF [3, 3] 0 1 ∧ ¬ Doubled 3 3 1 1 ∧ ¬ Doubled 3 3 0 0 ∧ ¬ Doubled 3 3 2 2 ∧
    Doubled 3 3 0 2 ∧ Doubled 3 3 2 0 := by
  refine ⟨⟨by decide, by decide, by decide, by decide, by decide⟩, by decide, by decide, by decide,
    by decide, by decide⟩

/-- the zero kernel satisfies every vertex inequality: the constraint sets are non-empty -/
example (sizes : List Nat) (dom weak i j : Nat) :
    ∀ idx, InRange sizes idx → RangeDomAtR sizes dom weak i j (fun _ => 0) idx := by
  intro idx _; simp [RangeDomAtR]

/-! ### the two doubled corners: feasible output, but not a projection -/

/-- **all sizes: what the step does at the doubled corner `(0, N−1)`.** From the unit grid at that
corner (violation `2`) the step returns the unit grid PLUS one at `(M−1, N−1)` and at `(0, 0)`: the
doubly weighted corner is not touched (the Euclidean projection would lower it by `2/3` and raise the
two others by `1/3`). -/
theorem rdStep_doubled_corner {M N : Nat} (hM : 2 ≤ M) (hN : 2 ≤ N) (a k : Nat) :
    rdStep M N 0 (N - 1) (fun a k => if a = 0 ∧ k = N - 1 then 1 else 0) a k
      = (if a = 0 ∧ k = N - 1 then 1 else 0) + (if a = M - 1 ∧ k = N - 1 then 1 else 0)
        + (if a = 0 ∧ k = 0 then 1 else 0) := by
  have m1 : M - 1 ≠ 0 := by omega
  have m2 : (0:Nat) ≠ M - 1 := by omega
  have n1 : N - 1 ≠ 0 := by omega
  have n2 : (0:Nat) ≠ N - 1 := by omega
  simp [rdStep, rdDiff, m1, m2, n1, n2]

/-- the kernel on the 2×2 lattice with `L[1][0] = −1` and 0 elsewhere -/
def wRdB : W := fun idx => if idx = [1, 0] then -1 else 0

/-- **counter-witness (both doubled corners, 2×2, pair `(0, 1)`).** From `wRd` (`L[0][1] = 1`) the
step at `(0, 1)` returns `(1, 1, 0, 1)`; from `wRdB` (`L[1][0] = −1`) the step at `(1, 0)` returns
`(−1, 0, −1, −1)` — the real `_project_partial_range_dominance` returns the same
(`design_probes/c08range/probe.py`). Both outputs are feasible for their vertex (`rangeDomGroup_lands`),
the zero kernel is feasible too, and the squared distance to it GROWS from 1 to 3: the step is not
non-expansive towards feasible points, hence not the Euclidean projection. This is why the side
condition "no range dominance" of `accepted_converges` stays. -/
theorem rangeDom_doubled_corners_expand :
    ((allIdx [2, 2]).map (rangeDomGroup 2 2 0 1 0 1 wRd) = [1, 1, 0, 1] ∧
      rsum ((allIdx [2, 2]).map (fun idx => (wRd idx - 0) * (wRd idx - 0))) = 1 ∧
      rsum ((allIdx [2, 2]).map (fun idx =>
        (rangeDomGroup 2 2 0 1 0 1 wRd idx - 0) * (rangeDomGroup 2 2 0 1 0 1 wRd idx - 0))) = 3) ∧
    ((allIdx [2, 2]).map (rangeDomGroup 2 2 0 1 1 0 wRdB) = [-1, 0, -1, -1] ∧
      rsum ((allIdx [2, 2]).map (fun idx => (wRdB idx - 0) * (wRdB idx - 0))) = 1 ∧
      rsum ((allIdx [2, 2]).map (fun idx =>
        (rangeDomGroup 2 2 0 1 1 0 wRdB idx - 0) * (rangeDomGroup 2 2 0 1 1 0 wRdB idx - 0))) = 3) := by
  decide +kernel

/-- **every configuration with a range dominance schedules both doubled corners.** For a pair `p`
of the configuration with both sizes ≥ 1 the group list of `project_by_dykstra` contains the step at
`(0, N−1)` and the step at `(M−1, 0)` — so no configuration with `rangeDom ≠ []` meets the
hypotheses of the convergence theorem. -/
theorem rangeDom_schedule_has_doubled_corners (c : DCfg) (p : Nat × Nat) (hp : p ∈ c.rangeDom)
    (hM : 1 ≤ sz c p.1) (hN : 1 ≤ sz c p.2) :
    rangeDomGroup (sz c p.1) (sz c p.2) p.1 p.2 0 (sz c p.2 - 1) ∈ groups c ∧
      rangeDomGroup (sz c p.1) (sz c p.2) p.1 p.2 (sz c p.1 - 1) 0 ∈ groups c := by
  have key : ∀ i j, i < sz c p.1 → j < sz c p.2 →
      rangeDomGroup (sz c p.1) (sz c p.2) p.1 p.2 i j ∈ groups c := by
    intro i j hi hj
    simp only [groups, List.mem_append, List.mem_flatMap, List.mem_range, List.mem_map]
    exact Or.inl (Or.inl (Or.inr ⟨p, hp, i, hi, j, hj, rfl⟩))
  exact ⟨key _ _ (by omega) (by omega), key _ _ (by omega) (by omega)⟩

/-- non-vacuity: the 2×2 configuration with both dimensions monotone and the range dominance `(0, 1)` -/
example : let c : DCfg := { sizes := [2, 2], mono := [true, true], rangeDom := [(0, 1)] }
    (0, 1) ∈ c.rangeDom ∧ 1 ≤ sz c 0 ∧ 1 ≤ sz c 1 ∧ dykstraActive c = true := by
  decide

/-! ### what the whole loop still guarantees with range dominance -/

/-- **C08 with range dominance, whole executable loop: feasible ⇒ unchanged, for every iteration
count** (instance of `projectByDykstraT_feasible`, whose `FeasibleD` includes `RangeDomOK`): the
property's first clause for the family, stated for range dominance together with any other family. -/
theorem rangeDom_feasible_unchanged (c : DCfg) (n : Nat) (t : Table)
    (hwf : ∀ tr ∈ c.trapezoid, TrustWF c.sizes tr) (hf : FeasibleD c t.get) :
    Table.vals c.sizes (projectByDykstraT c n t) = Table.vals c.sizes t :=
  projectByDykstraT_feasible c n t hwf hf

/-- non-vacuity on a configuration WITH range dominance: the kernel `L[a][k] = a` on the 2×2 lattice
(monotone in both dimensions, range 1 along the dominant and 0 along the weak dimension) passes
through 3 iterations unchanged; the violating `wRd` is moved by one iteration to a kernel that
satisfies every constraint of the configuration. -/
example : let c : DCfg := { sizes := [2, 2], mono := [true, true], rangeDom := [(0, 1)] }
    Table.vals [2, 2] (projectByDykstraT c 3 (Table.ofVals [2, 2] [0, 0, 1, 1])) = [0, 0, 1, 1] ∧
    Table.vals [2, 2] (projectByDykstraT c 1 (Table.ofVals [2, 2] [0, 1, 0, 0])) ≠ [0, 1, 0, 0] := by
  decide +kernel

/-- the 2×2 configuration with the single range dominance `(0, 1)` -/
def cRd : DCfg := { sizes := [2, 2], mono := [], rangeDom := [(0, 1)] }

/-- **machine-checked instance: with range dominance the loop's stationary result is feasible but NOT
the nearest feasible kernel** (the property does not claim "nearest" for this family; this shows the
claim would be false). From `(0, 1, 0, 0)` the executable model returns `(1/2, 1/2, 1/2, 1/2)` after
1, 2 and 5 iterations — the real `project_by_dykstra` returns the same for 1 … 3000 iterations
(`design_probes/c08range/iters.out`, `limit_vs_nearest.out`) —, squared distance 1 from the input; the
constant kernel `1/4` satisfies all four vertex constraints and is at squared distance 3/4. -/
theorem rangeDom_loop_result_not_nearest :
    (∀ n ∈ [1, 2, 5], Table.vals [2, 2] (projectByDykstraT cRd n (Table.ofVals [2, 2] [0, 1, 0, 0]))
        = [1/2, 1/2, 1/2, 1/2]) ∧
      (∀ i j, rdDiff 2 2 i j (fun _ _ => (1/4 : ℚ)) ≤ 0) ∧
      rsum ([0, 1, 0, 0].map (fun v : ℚ => (v - 1/2) * (v - 1/2))) = 1 ∧
      rsum ([0, 1, 0, 0].map (fun v : ℚ => (v - 1/4) * (v - 1/4))) = 3/4 := by
  refine ⟨by decide +kernel, fun i j => by simp [rdDiff], by decide +kernel, by decide +kernel⟩

end Tfl.C08
