import TflModel.Lemmas.LatticeExec
import TflModel.Lemmas.Trapezoid
import TflModel.Lemmas.InitializersFix
/-!
# feasible ⇒ unchanged, for EVERY stage of `finalize_constraints` and any trusts (C01 last clause)

`approxMono_fix` (Lemmas/InitializersFix.lean), `edgeworthOne_fix` (Lemmas/EdgeworthW.lean) and
`approxBounds_fix` (Lemmas/Bounds.lean) already exist; this file adds the trapezoid stage — in all
three modes of `_trapezoid_violation_update` (per element, max over the positions behind, running
max) — and the compositions `approxEdgeworth`, `approxTrapezoid`, `finalize`, `finalizeT`.
-/
namespace Tfl.Lat
open Tfl

/-- a stage that has an executable (table) version agreeing with it on the box is local -/
theorem local_of_tableVersion {sizes : List Nat} (S : W → W) (ST : Table → Table)
    (h : ∀ {t : Table} {f : W}, AgreeOn sizes t.get f → AgreeOn sizes (ST t).get (S f)) : Local sizes S := by
  intro f g hfg
  have h1 := h (t := tabulate sizes f) (f := f) (agreeOn_tabulate sizes f)
  have h2 := h (t := tabulate sizes f) (f := g) ((agreeOn_tabulate sizes f).trans hfg)
  exact h1.symm.trans h2

theorem edgeworthOne_local (sizes : List Nat) (tr : Trust) : Local sizes (edgeworthOne sizes tr) :=
  local_of_tableVersion _ (edgeworthOneT sizes tr) (fun h => edgeworthOneT_agree sizes tr h)

theorem approxEdgeworth_local (sizes : List Nat) (trs : List Trust) : Local sizes (approxEdgeworth sizes trs) :=
  local_of_tableVersion _ (approxEdgeworthT sizes trs) (fun h => approxEdgeworthT_agree sizes trs h)

theorem trapezoidOne_local (sizes : List Nat) (ew : List Trust) (tr : Trust) (hM : 0 < sizes.getD tr.main 0) :
    Local sizes (trapezoidOne sizes ew tr) :=
  local_of_tableVersion _ (trapezoidOneT sizes ew tr) (fun h => trapezoidOneT_agree sizes ew tr hM h)

theorem inRange_size_pos {sizes : List Nat} {idx : Idx} (hr : InRange sizes idx) {d : Nat} (hd : d < sizes.length) :
    0 < sizes.getD d 0 := Nat.lt_of_le_of_lt (Nat.zero_le _) (hr.2 d hd)

/-! ### Edgeworth stage -/

/-- **C01 last clause, Edgeworth stage (all trusts).** A kernel satisfying every listed Edgeworth
trust passes through `_approximately_project_edgeworth` unchanged. -/
theorem approxEdgeworth_fix (sizes : List Nat) (trs : List Trust) (w : W)
    (h : ∀ tr ∈ trs, EdgeOK sizes tr w) : approxEdgeworth sizes trs w = w := by
  unfold approxEdgeworth
  induction trs with
  | nil => rfl
  | cons t r ih =>
    simp only [List.foldl_cons]
    rw [edgeworthOne_fix sizes t w (h t (List.mem_cons_self ..))]
    exact ih (fun x hx => h x (List.mem_cons_of_mem _ hx))

/-! ### trapezoid stage -/

/-- the two trapezoid inequalities of a feasible kernel in the form the loop of
`_approximately_project_trapezoid` reads them: both "violations" of iteration `j` are `≤ 0` -/
theorem trap_diffs_nonpos {sizes : List Nat} {tr : Trust} (hwf : TrustWF sizes tr) {w : W}
    (hw : TrapOK sizes tr w) {b : Idx} (hr : InRange sizes b) {j : Nat} (hj : j + 1 < sizes.getD tr.cond 0) :
    lhsDiff w tr.main tr.cond (sizes.getD tr.cond 0) tr.pos j b ≤ 0 ∧
    rhsDiff w tr.main tr.cond (sizes.getD tr.main 0) (sizes.getD tr.cond 0) tr.pos j b ≤ 0 := by
  obtain ⟨hm, hc, hne⟩ := hwf
  have hM : 0 < sizes.getD tr.main 0 := inRange_size_pos hr hm
  have key : ∀ (x y : Nat), x < sizes.getD tr.main 0 → y + 1 < sizes.getD tr.cond 0 →
      InRange sizes (setc (setc b tr.main x) tr.cond y) ∧
      coord (setc (setc b tr.main x) tr.cond y) tr.main = x ∧
      coord (setc (setc b tr.main x) tr.cond y) tr.cond = y ∧
      setc (setc (setc b tr.main x) tr.cond y) tr.cond (y + 1) = setc (setc b tr.main x) tr.cond (y + 1) := by
    intro x y hx hy
    refine ⟨inRange_setc (inRange_setc hr hx) (by omega), ?_, ?_, setc_setc_same _ _ _ _⟩
    · rw [coord_setc_ne _ (Ne.symm hne), coord_setc_same _ (by rw [hr.1]; exact hm)]
    · rw [coord_setc_same _ (by rw [length_setc, hr.1]; exact hc)]
  unfold TrapOK at hw
  simp only [lhsDiff, rhsDiff, gat, jc, jn]
  cases hp : tr.pos with
  | true =>
    simp only [hp, if_true] at hw ⊢
    obtain ⟨a1, a2, a3, a4⟩ := key 0 j hM hj
    obtain ⟨b1, b2, b3, b4⟩ := key (sizes.getD tr.main 0 - 1) j (by omega) hj
    have h1 := hw.1 _ a1 a2 (by rw [a3]; exact hj)
    have h2 := hw.2 _ b1 b2 (by rw [b3]; exact hj)
    rw [a3, a4] at h1
    rw [b3, b4] at h2
    constructor <;> linarith
  | false =>
    simp only [hp, Bool.false_eq_true, if_false] at hw ⊢
    have hj' : sizes.getD tr.cond 0 - 2 - j + 1 < sizes.getD tr.cond 0 := by omega
    have e : sizes.getD tr.cond 0 - 2 - j + 1 = sizes.getD tr.cond 0 - 1 - j := by omega
    obtain ⟨a1, a2, a3, a4⟩ := key 0 _ hM hj'
    obtain ⟨b1, b2, b3, b4⟩ := key (sizes.getD tr.main 0 - 1) _ (by omega) hj'
    have h1 := hw.1 _ a1 a2 (by rw [a3]; exact hj')
    have h2 := hw.2 _ b1 b2 (by rw [b3]; exact hj')
    rw [a3, a4, e] at h1
    rw [b3, b4, e] at h2
    constructor <;> linarith

theorem trapScalar_zero (mode : TrapMode) (bs : List Idx) (f : Idx → ℚ) (h : ∀ b ∈ bs, f b ≤ 0) :
    trapScalar mode bs f 0 = 0 := by
  unfold trapScalar
  cases mode <;> simp only [maxOver_eq_zero bs f h, max_self]

theorem trapAmount_zero (mode : TrapMode) (own : ℚ) (h : own ≤ 0) : trapAmount mode own 0 = 0 := by
  unfold trapAmount
  cases mode <;> simp only [max_eq_right h]

/-- one loop iteration on a state that is (on the box) a feasible kernel with both carried updates
zero: the kernel is not moved and the carried updates stay zero — in every mode -/
theorem trapStep_fix (sizes : List Nat) (tr : Trust) (hwf : TrustWF sizes tr) (mode : TrapMode) (w : W)
    (hw : TrapOK sizes tr w) (hM : 0 < sizes.getD tr.main 0) {j : Nat} (hj : j + 1 < sizes.getD tr.cond 0)
    (s : TrapState) (hs : AgreeOn sizes s.w w) (hl : s.lhs = 0) (hr : s.rhs = 0) :
    AgreeOn sizes (trapStep (allIdx sizes) tr.main tr.cond (sizes.getD tr.main 0) (sizes.getD tr.cond 0)
        tr.pos mode s j).w w ∧
      (trapStep (allIdx sizes) tr.main tr.cond (sizes.getD tr.main 0) (sizes.getD tr.cond 0) tr.pos mode s j).lhs = 0 ∧
      (trapStep (allIdx sizes) tr.main tr.cond (sizes.getD tr.main 0) (sizes.getD tr.cond 0) tr.pos mode s j).rhs = 0 := by
  set M := sizes.getD tr.main 0
  set N := sizes.getD tr.cond 0
  have hjn := jn_lt tr.pos hj
  have hjc := jc_lt tr.pos hj
  have hM1 : M - 1 < M := by omega
  have hl1 : ∀ b, InRange sizes b → lhsDiff s.w tr.main tr.cond N tr.pos j b ≤ 0 := by
    intro b hb
    have : lhsDiff s.w tr.main tr.cond N tr.pos j b = lhsDiff w tr.main tr.cond N tr.pos j b := by
      simp only [lhsDiff, gat_agree hs hb hM hjn, gat_agree hs hb hM hjc]
    rw [this]; exact (trap_diffs_nonpos hwf hw hb hj).1
  have hlU : trapScalar mode (allIdx sizes) (lhsDiff s.w tr.main tr.cond N tr.pos j) s.lhs = 0 := by
    rw [hl]; exact trapScalar_zero _ _ _ (fun b hb => hl1 b (mem_allIdx.mp hb))
  -- first half-step
  have h1 : AgreeOn sizes
      (fun idx =>
        if coord idx tr.main = 0 ∧ coord idx tr.cond = jn N tr.pos j then
          s.w idx - trapAmount mode (lhsDiff s.w tr.main tr.cond N tr.pos j idx)
            (trapScalar mode (allIdx sizes) (lhsDiff s.w tr.main tr.cond N tr.pos j) s.lhs)
        else s.w idx) w := by
    intro idx hidx
    simp only [hlU, trapAmount_zero mode _ (hl1 idx hidx), sub_zero, ite_self]
    exact hs idx hidx
  have hr1 : ∀ (f : W), AgreeOn sizes f w → ∀ b, InRange sizes b →
      rhsDiff f tr.main tr.cond M N tr.pos j b ≤ 0 := by
    intro f hf b hb
    have : rhsDiff f tr.main tr.cond M N tr.pos j b = rhsDiff w tr.main tr.cond M N tr.pos j b := by
      simp only [rhsDiff, gat_agree hf hb hM1 hjn, gat_agree hf hb hM1 hjc]
    rw [this]; exact (trap_diffs_nonpos hwf hw hb hj).2
  have hrU := trapScalar_zero mode (allIdx sizes) _ (fun b hb => hr1 _ h1 b (mem_allIdx.mp hb))
  refine ⟨?_, hlU, ?_⟩
  · intro idx hidx
    simp only [trapStep]
    rw [hr, hrU, trapAmount_zero mode _ (hr1 _ h1 idx hidx), add_zero, ite_self]
    exact h1 idx hidx
  · simp only [trapStep]
    rw [hr]; exact hrU

/-- **C01 last clause, one trapezoid trust, every mode** (no Edgeworth trusts: per element; a matching
Edgeworth trust: running max; other Edgeworth trusts: max over the positions behind). A kernel
satisfying the trust's trapezoid inequalities passes through the loop unchanged. -/
theorem trapezoidOne_fix (sizes : List Nat) (ew : List Trust) (tr : Trust) (hwf : TrustWF sizes tr) (w : W)
    (hw : TrapOK sizes tr w) : AgreeOn sizes (trapezoidOne sizes ew tr w) w := by
  intro idx0 hr0
  have hM : 0 < sizes.getD tr.main 0 := inRange_size_pos hr0 hwf.1
  have key : ∀ (js : List Nat), (∀ j ∈ js, j + 1 < sizes.getD tr.cond 0) →
      ∀ (s : TrapState), AgreeOn sizes s.w w → s.lhs = 0 → s.rhs = 0 →
      AgreeOn sizes
        (js.foldl (trapStep (allIdx sizes) tr.main tr.cond (sizes.getD tr.main 0) (sizes.getD tr.cond 0) tr.pos
          (trapMode ew tr)) s).w w := by
    intro js
    induction js with
    | nil => intro _ s hs _ _; exact hs
    | cons j r ih =>
      intro hjs s hs hl hr
      simp only [List.foldl_cons]
      obtain ⟨a, b, c⟩ := trapStep_fix sizes tr hwf (trapMode ew tr) w hw hM (hjs j (List.mem_cons_self ..)) s hs hl hr
      exact ih (fun x hx => hjs x (List.mem_cons_of_mem _ hx)) _ a b c
  exact key _ (fun j hj => by have := List.mem_range.mp hj; omega) ⟨w, 0, 0⟩ (AgreeOn.refl _ _) rfl rfl idx0 hr0

/-- **C01 last clause, trapezoid stage (all trusts, any Edgeworth list deciding the modes).** -/
theorem approxTrapezoid_fix (sizes : List Nat) (ew : List Trust) (trs : List Trust)
    (hwf : ∀ tr ∈ trs, TrustWF sizes tr) (w : W) (h : ∀ tr ∈ trs, TrapOK sizes tr w) :
    AgreeOn sizes (approxTrapezoid sizes ew trs w) w := by
  intro idx0 hr0
  have key : ∀ (trs : List Trust), (∀ tr ∈ trs, TrustWF sizes tr) → (∀ tr ∈ trs, TrapOK sizes tr w) →
      ∀ acc, AgreeOn sizes acc w →
        AgreeOn sizes (trs.foldl (fun acc tr => trapezoidOne sizes ew tr acc) acc) w := by
    intro trs
    induction trs with
    | nil => intro _ _ acc ha; exact ha
    | cons t r ih =>
      intro hwf h acc ha
      simp only [List.foldl_cons]
      apply ih (fun x hx => hwf x (List.mem_cons_of_mem _ hx)) (fun x hx => h x (List.mem_cons_of_mem _ hx))
      have hM : 0 < sizes.getD t.main 0 := inRange_size_pos hr0 (hwf t (List.mem_cons_self ..)).1
      exact (trapezoidOne_local sizes ew t hM acc w ha).trans
        (trapezoidOne_fix sizes ew t (hwf t (List.mem_cons_self ..)) w (h t (List.mem_cons_self ..)))
  exact key trs hwf h w (AgreeOn.refl _ _) idx0 hr0

/-! ### the whole finalisation -/

/-- **C01 last clause for `finalize_constraints`** — every stage (monotonicity projection, Edgeworth,
trapezoid, bounds), ANY Edgeworth and trapezoid trusts (duplicates, matching, shared or monotone
conditional axes: no restriction). A kernel that is monotone along the monotone dimensions,
satisfies every trust inequality and lies within the bounds is returned unchanged on every vertex.
Only well-formedness facts are used: trapezoid trusts name two different dimensions of the lattice,
`output_min < output_max`. -/
theorem finalize_fix (c : Cfg) (hwf : ∀ tr ∈ c.trapezoid, TrustWF c.sizes tr) (hb : BoundsWF c.lo c.hi) (w : W)
    (hmono : ∀ d, d < c.sizes.length → c.mono.getD d false = true → MonoAx c.sizes d w)
    (hedge : ∀ tr ∈ c.edgeworth, EdgeOK c.sizes tr w)
    (htrap : ∀ tr ∈ c.trapezoid, TrapOK c.sizes tr w)
    (hin : ∀ idx, InRange c.sizes idx → (∀ l, c.lo = some l → l ≤ w idx) ∧ (∀ h, c.hi = some h → w idx ≤ h)) :
    AgreeOn c.sizes (finalize c w) w := by
  unfold finalize
  split
  · exact AgreeOn.refl _ _
  · have h1 := Tfl.Init.approxMono_fix c.sizes c.mono w hmono
    split
    · exact h1
    · intro idx0 hr0
      have hne : allIdx c.sizes ≠ [] := fun e => by
        have := mem_allIdx.mpr hr0; rw [e] at this; cases this
      have h2 : AgreeOn c.sizes (approxEdgeworth c.sizes c.edgeworth (approxMono c.sizes c.mono w)) w := by
        have := approxEdgeworth_local c.sizes c.edgeworth _ _ h1
        rwa [approxEdgeworth_fix c.sizes c.edgeworth w hedge] at this
      have hloc3 : AgreeOn c.sizes
          (approxTrapezoid c.sizes c.edgeworth c.trapezoid
            (approxEdgeworth c.sizes c.edgeworth (approxMono c.sizes c.mono w)))
          (approxTrapezoid c.sizes c.edgeworth c.trapezoid w) := by
        have hM : ∀ tr ∈ c.trapezoid, 0 < c.sizes.getD tr.main 0 :=
          fun tr htr => inRange_size_pos hr0 (hwf tr htr).1
        exact local_of_tableVersion _ (approxTrapezoidT c.sizes c.edgeworth c.trapezoid)
          (fun h => approxTrapezoidT_agree c.sizes c.edgeworth c.trapezoid hM h) _ _ h2
      have h3 := hloc3.trans (approxTrapezoid_fix c.sizes c.edgeworth c.trapezoid hwf w htrap)
      have h4 := approxBounds_local c.sizes c.lo c.hi _ _ h3
      rw [approxBounds_fix c.sizes c.lo c.hi hb w hne (fun l e idx hr => (hin idx hr).1 l e)
        (fun h e idx hr => (hin idx hr).2 h e)] at h4
      exact h4 idx0 hr0

/-- the same on the executable `finalizeT` that the driver runs: the table's values are unchanged -/
theorem finalizeT_fix (c : Cfg) (hwf : ∀ tr ∈ c.trapezoid, TrustWF c.sizes tr) (hb : BoundsWF c.lo c.hi) (t : Table)
    (hmono : ∀ d, d < c.sizes.length → c.mono.getD d false = true → MonoAx c.sizes d t.get)
    (hedge : ∀ tr ∈ c.edgeworth, EdgeOK c.sizes tr t.get)
    (htrap : ∀ tr ∈ c.trapezoid, TrapOK c.sizes tr t.get)
    (hin : ∀ idx, InRange c.sizes idx → (∀ l, c.lo = some l → l ≤ t.get idx) ∧ (∀ h, c.hi = some h → t.get idx ≤ h)) :
    AgreeOn c.sizes (finalizeT c t).get t.get := by
  intro idx0 hr0
  have hM : ∀ tr ∈ c.trapezoid, 0 < c.sizes.getD tr.main 0 :=
    fun tr htr => inRange_size_pos hr0 (hwf tr htr).1
  exact ((finalizeT_agree c hM (AgreeOn.refl _ t.get)).trans
    (finalize_fix c hwf hb t.get hmono hedge htrap hin)) idx0 hr0

end Tfl.Lat
