import TflModel.Model.LatticeEval
import Mathlib.Data.List.Basic
import Mathlib.Tactic.Linarith
import Mathlib.Tactic.Ring
import Mathlib.Algebra.Order.Field.Rat
import Mathlib.Data.Rat.Cast.Order
import Mathlib.Data.List.Perm.Basic
import Mathlib.Data.List.Nodup
/-!
# Lemmas for lattice evaluation (L1 PWL-1D, L2 tensor product of DESIGN.md)
-/
namespace Tfl.LatticeEval
open Tfl

/-! ## sums -/

@[simp] theorem rsum_nil : rsum [] = 0 := rfl
@[simp] theorem rsum_cons (a : ℚ) (l : List ℚ) : rsum (a :: l) = a + rsum l := rfl
theorem rsum_append (l₁ l₂ : List ℚ) : rsum (l₁ ++ l₂) = rsum l₁ + rsum l₂ := by
  induction l₁ with
  | nil => simp
  | cons a l ih => simp [ih]; ring

theorem rsum_map_mul_left {α : Type} (c : ℚ) (l : List α) (f : α → ℚ) :
    rsum (l.map (fun t => c * f t)) = c * rsum (l.map f) := by
  induction l with
  | nil => simp
  | cons a l ih => simp [ih]; ring
theorem rsum_map_add {α : Type} (l : List α) (f g : α → ℚ) :
    rsum (l.map (fun t => f t + g t)) = rsum (l.map f) + rsum (l.map g) := by
  induction l with
  | nil => simp
  | cons a l ih => simp [ih]; ring
theorem rsum_flatMap {α : Type} (l : List α) (g : α → List ℚ) :
    rsum (l.flatMap g) = rsum (l.map (fun a => rsum (g a))) := by
  induction l with
  | nil => simp
  | cons a l ih => simp [List.flatMap_cons, rsum_append, ih]
theorem rsum_map_le {α : Type} (l : List α) (f g : α → ℚ) (h : ∀ a ∈ l, f a ≤ g a) :
    rsum (l.map f) ≤ rsum (l.map g) := by
  induction l with
  | nil => simp
  | cons a l ih =>
    simp only [List.map_cons, rsum_cons]
    have := h a (by simp)
    have := ih (fun b hb => h b (by simp [hb]))
    linarith
theorem rsum_map_congr {α : Type} (l : List α) (f g : α → ℚ) (h : ∀ a ∈ l, f a = g a) :
    rsum (l.map f) = rsum (l.map g) := by
  rw [List.map_congr_left h]
theorem rsum_map_zero {α : Type} (l : List α) : rsum (l.map (fun _ => (0 : ℚ))) = 0 := by
  induction l with
  | nil => simp
  | cons a l ih => simp only [List.map_cons, rsum_cons, ih]; norm_num

/-- `Σ_{i<n} f i` -/
def sumR (n : Nat) (f : Nat → ℚ) : ℚ := rsum ((List.range n).map f)
@[simp] theorem sumR_zero (f : Nat → ℚ) : sumR 0 f = 0 := by simp [sumR]
theorem sumR_succ (n : Nat) (f : Nat → ℚ) : sumR (n + 1) f = sumR n f + f n := by
  simp [sumR, List.range_succ, rsum_append]
theorem sumR_le (n : Nat) (f g : Nat → ℚ) (h : ∀ i, i < n → f i ≤ g i) : sumR n f ≤ sumR n g :=
  rsum_map_le _ _ _ (fun i hi => h i (List.mem_range.mp hi))
theorem sumR_congr (n : Nat) (f g : Nat → ℚ) (h : ∀ i, i < n → f i = g i) : sumR n f = sumR n g :=
  rsum_map_congr _ _ _ (fun i hi => h i (List.mem_range.mp hi))
theorem sumR_add (n : Nat) (f g : Nat → ℚ) : sumR n (fun i => f i + g i) = sumR n f + sumR n g :=
  rsum_map_add _ _ _
theorem sumR_mul_left (n : Nat) (c : ℚ) (f : Nat → ℚ) : sumR n (fun i => c * f i) = c * sumR n f :=
  rsum_map_mul_left _ _ _
theorem sumR_const_zero (n : Nat) : sumR n (fun _ => 0) = 0 := rsum_map_zero _
theorem sumR_ite (n v : Nat) (hv : v < n) (f : Nat → ℚ) :
    sumR n (fun i => (if i = v then 1 else 0) * f i) = f v := by
  induction n with
  | zero => omega
  | succ n ih =>
    rw [sumR_succ]
    by_cases h : v = n
    · subst h
      have : sumR v (fun i => (if i = v then (1 : ℚ) else 0) * f i) = sumR v (fun _ => 0) := by
        apply sumR_congr
        intro i hi
        have : i ≠ v := by omega
        simp [this]
      rw [this, sumR_const_zero]; simp
    · have hn : n ≠ v := fun e => h e.symm
      rw [ih (by omega)]; simp [hn]
theorem sumR_swap (n m : Nat) (f : Nat → Nat → ℚ) :
    sumR n (fun i => sumR m (fun j => f i j)) = sumR m (fun j => sumR n (fun i => f i j)) := by
  induction n with
  | zero => simp [sumR_const_zero]
  | succ n ih =>
    rw [sumR_succ, ih, ← sumR_add]
    apply sumR_congr
    intro j _
    rw [sumR_succ]

/-! ## L1: the 1-D hat / ramp identities -/

theorem hat_nonneg (i : Nat) (x : ℚ) : 0 ≤ hat i x := by
  unfold hat; have := min_le_right (absR (x - (i : ℚ))) 1; linarith
theorem ramp_nonneg (i : Nat) (x : ℚ) : 0 ≤ ramp i x := le_max_right _ _
theorem ramp_mono (i : Nat) {x y : ℚ} (h : x ≤ y) : ramp i x ≤ ramp i y := by
  unfold ramp; exact max_le_max (min_le_min (by linarith) le_rfl) le_rfl

/-- key pointwise identity: `hat_(i+1) = ramp_i - ramp_(i+1)` for every x -/
theorem hat_succ_eq (i : Nat) (x : ℚ) : hat (i + 1) x = ramp i x - ramp (i + 1) x := by
  simp only [hat, ramp, absR, min_def, max_def]
  push_cast
  split_ifs <;> linarith
theorem hat_zero_eq (x : ℚ) (hx : 0 ≤ x) : hat 0 x = 1 - ramp 0 x := by
  simp only [hat, ramp, absR, min_def, max_def]
  push_cast
  split_ifs <;> linarith
theorem ramp_eq_zero (i : Nat) (x : ℚ) (hx : x ≤ i) : ramp i x = 0 := by
  simp only [ramp, min_def, max_def]
  split_ifs <;> linarith

/-- value of the hat weight at an integer point -/
theorem hat_nat (i v : Nat) : hat i (v : ℚ) = if i = v then 1 else 0 := by
  rcases Nat.lt_trichotomy i v with h | h | h
  · have h1 : (i : ℚ) + 1 ≤ v := by exact_mod_cast h
    have h2 : i ≠ v := by omega
    simp only [hat, absR, min_def, h2, if_false]
    split_ifs <;> linarith
  · subst h; simp [hat, absR]
  · have h1 : (v : ℚ) + 1 ≤ i := by exact_mod_cast h
    have h2 : i ≠ v := by omega
    simp only [hat, absR, min_def, h2, if_false]
    split_ifs <;> linarith

/-- 1-D interpolation exactly as the code computes it: `Σ_i (1 - min(|x - i|, 1)) · k_i` -/
def interpHat (n : Nat) (k : Nat → ℚ) (x : ℚ) : ℚ := sumR n (fun i => hat i x * k i)
/-- the PWL calibrator's bias + heights form -/
def interpRamp (n : Nat) (k : Nat → ℚ) (x : ℚ) : ℚ :=
  k 0 + sumR (n - 1) (fun i => (k (i + 1) - k i) * ramp i x)

/-- Abel summation -/
theorem interpHat_abel (n : Nat) (k : Nat → ℚ) (x : ℚ) (hx : 0 ≤ x) :
    interpHat (n + 1) k x
      = k 0 + sumR n (fun i => (k (i + 1) - k i) * ramp i x) - ramp n x * k n := by
  induction n with
  | zero => simp [interpHat, sumR_succ, hat_zero_eq x hx]; ring
  | succ n ih =>
    have : interpHat (n + 1 + 1) k x = interpHat (n + 1) k x + hat (n + 1) x * k (n + 1) := by
      simp only [interpHat]; rw [sumR_succ]
    rw [this, ih, hat_succ_eq, sumR_succ]
    ring

/-- L1: on the lattice range the hat form IS the PWL form -/
theorem interpHat_eq_interpRamp (n : Nat) (k : Nat → ℚ) (x : ℚ) (hn : 1 ≤ n) (hx : 0 ≤ x)
    (hx' : x ≤ (n : ℚ) - 1) : interpHat n k x = interpRamp n k x := by
  obtain ⟨m, rfl⟩ : ∃ m, n = m + 1 := ⟨n - 1, by omega⟩
  rw [interpHat_abel m k x hx, ramp_eq_zero m x (by push_cast at hx'; linarith)]
  simp [interpRamp]

theorem interpRamp_mono (n : Nat) (k : Nat → ℚ) (hk : ∀ i, i + 1 < n → k i ≤ k (i + 1))
    {x y : ℚ} (h : x ≤ y) : interpRamp n k x ≤ interpRamp n k y := by
  unfold interpRamp
  have := sumR_le (n - 1) (fun i => (k (i + 1) - k i) * ramp i x) (fun i => (k (i + 1) - k i) * ramp i y)
    (fun i hi => by
      have hk' : 0 ≤ k (i + 1) - k i := by have := hk i (by omega); linarith
      exact mul_le_mul_of_nonneg_left (ramp_mono i h) hk')
  linarith

/-- 1-D monotonicity for ALL pairs of points of the range (no floors, no cells) -/
theorem interpHat_mono (n : Nat) (k : Nat → ℚ) (hn : 1 ≤ n) (hk : ∀ i, i + 1 < n → k i ≤ k (i + 1))
    {x y : ℚ} (hx : 0 ≤ x) (h : x ≤ y) (hy : y ≤ (n : ℚ) - 1) : interpHat n k x ≤ interpHat n k y := by
  rw [interpHat_eq_interpRamp n k x hn hx (by linarith),
    interpHat_eq_interpRamp n k y hn (by linarith) hy]
  exact interpRamp_mono n k hk h

theorem interpHat_vertex (n : Nat) (k : Nat → ℚ) (v : Nat) (hv : v < n) :
    interpHat n k (v : ℚ) = k v := by
  unfold interpHat
  rw [sumR_congr n _ (fun i => (if i = v then 1 else 0) * k i) (fun i _ => by rw [hat_nat])]
  exact sumR_ite n v hv k

theorem interpHat_add (n : Nat) (k₁ k₂ : Nat → ℚ) (x : ℚ) :
    interpHat n (fun i => k₁ i + k₂ i) x = interpHat n k₁ x + interpHat n k₂ x := by
  unfold interpHat; rw [← sumR_add]; apply sumR_congr; intro i _; ring
theorem interpHat_smul (n : Nat) (c : ℚ) (k : Nat → ℚ) (x : ℚ) :
    interpHat n (fun i => c * k i) x = c * interpHat n k x := by
  unfold interpHat; rw [← sumR_mul_left]; apply sumR_congr; intro i _; ring
theorem interpHat_congr (n : Nat) (k₁ k₂ : Nat → ℚ) (x : ℚ) (h : ∀ i, i < n → k₁ i = k₂ i) :
    interpHat n k₁ x = interpHat n k₂ x := by
  unfold interpHat; apply sumR_congr; intro i hi; rw [h i hi]
theorem interpHat_le (n : Nat) (k₁ k₂ : Nat → ℚ) (x : ℚ) (h : ∀ i, i < n → k₁ i ≤ k₂ i) :
    interpHat n k₁ x ≤ interpHat n k₂ x := by
  unfold interpHat; apply sumR_le; intro i hi
  exact mul_le_mul_of_nonneg_left (h i hi) (hat_nonneg i x)

/-- the 1-D weights sum to one on the range -/
theorem interpHat_const (n : Nat) (c : ℚ) (x : ℚ) (hn : 1 ≤ n) (hx : 0 ≤ x) (hx' : x ≤ (n : ℚ) - 1) :
    interpHat n (fun _ => c) x = c := by
  rw [interpHat_eq_interpRamp n _ x hn hx hx']
  simp [interpRamp, sumR_const_zero]

/-- sum of the telescoping differences -/
theorem sumR_telescope (n : Nat) (k : Nat → ℚ) : sumR n (fun i => k (i + 1) - k i) = k n - k 0 := by
  induction n with
  | zero => simp
  | succ n ih => rw [sumR_succ, ih]; ring

/-- cell formula: between two neighbouring keypoints the interpolation is the chord -/
theorem interpHat_cell (n : Nat) (k : Nat → ℚ) (j : Nat) (x : ℚ) (hj : j + 1 < n)
    (h1 : (j : ℚ) ≤ x) (h2 : x ≤ (j : ℚ) + 1) :
    interpHat n k x = (1 - (x - j)) * k j + (x - j) * k (j + 1) := by
  have hx0 : 0 ≤ x := le_trans (by positivity) h1
  have hjn : (j : ℚ) + 1 + 1 ≤ n := by exact_mod_cast hj
  rw [interpHat_eq_interpRamp n k x (by omega) hx0 (by linarith)]
  unfold interpRamp
  obtain ⟨m, hm⟩ : ∃ m, n - 1 = j + 1 + m := ⟨n - 1 - (j + 1), by omega⟩
  rw [hm]
  -- split the sum at j
  have split : ∀ m, sumR (j + 1 + m) (fun i => (k (i + 1) - k i) * ramp i x)
      = sumR j (fun i => k (i + 1) - k i) + (k (j + 1) - k j) * (x - j) := by
    intro m
    induction m with
    | zero =>
      rw [Nat.add_zero, sumR_succ]
      congr 1
      · apply sumR_congr
        intro i hi
        have : (i : ℚ) + 1 ≤ j := by exact_mod_cast hi
        have : ramp i x = 1 := by
          simp only [ramp, min_def, max_def]; split_ifs <;> linarith
        rw [this]; ring
      · have : ramp j x = x - j := by
          simp only [ramp, min_def, max_def]; split_ifs <;> linarith
        rw [this]
    | succ m ih =>
      rw [← Nat.add_assoc, sumR_succ, ih]
      have : ramp (j + 1 + m) x = 0 := by
        apply ramp_eq_zero; push_cast; have : (0 : ℚ) ≤ m := by positivity
        linarith
      rw [this]; ring
  rw [split, sumR_telescope]; ring

/-! ## L2: tensor product — the flat outer-product form is iterated 1-D interpolation -/

/-- product of the 1-D hat weights of vertex `idx` at point `x` -/
def prodW : List ℚ → Idx → ℚ
  | xd :: xs, i :: t => hat i xd * prodW xs t
  | _, _ => 1
/-- flat form: `Σ_idx weight(idx) · K(idx)` over the row-major vertex list -/
def evalFlat (sizes : List Nat) (x : List ℚ) (K : W) : ℚ :=
  rsum ((allIdx sizes).map (fun idx => prodW x idx * K idx))
/-- iterated 1-D interpolation, axis by axis (the multilinear interpolant) -/
def evalRec : List Nat → List ℚ → W → ℚ
  | n :: ns, xd :: xs, K => interpHat n (fun i => evalRec ns xs (fun t => K (i :: t))) xd
  | _, _, K => K []

/-- every coordinate lies on the lattice: `0 ≤ x_d ≤ size_d - 1` (and the ranks agree) -/
def InRange : List Nat → List ℚ → Prop
  | n :: ns, xd :: xs => (0 ≤ xd ∧ xd ≤ (n : ℚ) - 1) ∧ InRange ns xs
  | [], [] => True
  | _, _ => False
/-- `K` is non-decreasing along axis `d` on the box `sizes` -/
def MonoAx (sizes : List Nat) (d : Nat) (K : W) : Prop :=
  ∀ idx ∈ allIdx sizes, coord idx d + 1 < sizes.getD d 0 → K idx ≤ K (setc idx d (coord idx d + 1))

theorem InRange.length_eq : ∀ {sizes : List Nat} {x : List ℚ}, InRange sizes x → x.length = sizes.length
  | [], [], _ => rfl
  | [], _ :: _, h => by simp [InRange] at h
  | _ :: _, [], h => by simp [InRange] at h
  | _ :: ns, _ :: xs, h => by simp [InRange.length_eq (sizes := ns) (x := xs) h.2]

theorem mem_allIdx_cons {n : Nat} {ns : List Nat} {i : Nat} {t : Idx} :
    (i :: t) ∈ allIdx (n :: ns) ↔ i < n ∧ t ∈ allIdx ns := by
  simp [allIdx, List.mem_flatMap, List.mem_map]
theorem mem_allIdx_nil {idx : Idx} : idx ∈ allIdx [] ↔ idx = [] := by simp [allIdx]
theorem allIdx_cons_exists {n : Nat} {ns : List Nat} {idx : Idx} (h : idx ∈ allIdx (n :: ns)) :
    ∃ i t, idx = i :: t ∧ i < n ∧ t ∈ allIdx ns := by
  simp only [allIdx, List.mem_flatMap, List.mem_map, List.mem_range] at h
  obtain ⟨i, hi, t, ht, rfl⟩ := h
  exact ⟨i, t, rfl, hi, ht⟩

theorem prodW_nonneg : ∀ (x : List ℚ) (idx : Idx), 0 ≤ prodW x idx
  | [], _ => by simp [prodW]
  | _ :: _, [] => by simp [prodW]
  | xd :: xs, i :: t => by
    simp only [prodW]; exact mul_nonneg (hat_nonneg i xd) (prodW_nonneg xs t)

/-- L2: the code's flat outer-product form equals iterated 1-D interpolation -/
theorem evalFlat_eq_evalRec : ∀ (sizes : List Nat) (x : List ℚ) (K : W), x.length = sizes.length →
    evalFlat sizes x K = evalRec sizes x K := by
  intro sizes
  induction sizes with
  | nil => intro x K h; cases x with
    | nil => simp [evalFlat, allIdx, prodW, evalRec]
    | cons a l => simp at h
  | cons n ns ih =>
    intro x K h
    cases x with
    | nil => simp at h
    | cons xd xs =>
      have hl : xs.length = ns.length := by simpa using h
      simp only [evalFlat, allIdx, evalRec, interpHat, sumR, List.map_flatMap, List.map_map]
      rw [rsum_flatMap]
      congr 1
      apply List.map_congr_left
      intro i _
      have := ih xs (fun t => K (i :: t)) hl
      simp only [evalFlat] at this
      rw [← this, ← rsum_map_mul_left]
      congr 1
      apply List.map_congr_left
      intro t _
      simp [prodW]; ring

theorem evalRec_le_of_le : ∀ (sizes : List Nat) (x : List ℚ) (K K' : W), x.length = sizes.length →
    (∀ idx ∈ allIdx sizes, K idx ≤ K' idx) → evalRec sizes x K ≤ evalRec sizes x K' := by
  intro sizes
  induction sizes with
  | nil => intro x K K' h hk; cases x with
    | nil => simpa [evalRec] using hk [] (by simp [allIdx])
    | cons a l => simp at h
  | cons n ns ih =>
    intro x K K' h hk
    cases x with
    | nil => simp at h
    | cons xd xs =>
      simp only [evalRec]
      apply interpHat_le
      intro i hi
      exact ih xs _ _ (by simpa using h) (fun t ht => hk (i :: t) (mem_allIdx_cons.mpr ⟨hi, ht⟩))

theorem evalRec_congr (sizes : List Nat) (x : List ℚ) (K K' : W) (h : x.length = sizes.length)
    (hk : ∀ idx ∈ allIdx sizes, K idx = K' idx) : evalRec sizes x K = evalRec sizes x K' :=
  le_antisymm (evalRec_le_of_le sizes x K K' h (fun i hi => (hk i hi).le))
    (evalRec_le_of_le sizes x K' K h (fun i hi => (hk i hi).ge))

theorem evalRec_add : ∀ (sizes : List Nat) (x : List ℚ) (K K' : W),
    evalRec sizes x (fun t => K t + K' t) = evalRec sizes x K + evalRec sizes x K'
  | [], _, _, _ => by simp [evalRec]
  | _ :: _, [], _, _ => by simp [evalRec]
  | n :: ns, xd :: xs, K, K' => by
    simp only [evalRec]
    rw [← interpHat_add]
    apply interpHat_congr
    intro i _
    exact evalRec_add ns xs (fun t => K (i :: t)) (fun t => K' (i :: t))
theorem evalRec_smul : ∀ (sizes : List Nat) (x : List ℚ) (c : ℚ) (K : W),
    evalRec sizes x (fun t => c * K t) = c * evalRec sizes x K
  | [], _, _, _ => by simp [evalRec]
  | _ :: _, [], _, _ => by simp [evalRec]
  | n :: ns, xd :: xs, c, K => by
    simp only [evalRec]
    rw [← interpHat_smul]
    apply interpHat_congr
    intro i _
    exact evalRec_smul ns xs c (fun t => K (i :: t))

/-- the weights sum to one on the range -/
theorem evalRec_const : ∀ (sizes : List Nat) (x : List ℚ) (c : ℚ), InRange sizes x →
    evalRec sizes x (fun _ => c) = c
  | [], [], _, _ => by simp [evalRec]
  | [], _ :: _, _, h => by simp [InRange] at h
  | _ :: _, [], _, h => by simp [InRange] at h
  | n :: ns, xd :: xs, c, h => by
    simp only [evalRec]
    have hn : 1 ≤ n := by
      have : (0 : ℚ) ≤ (n : ℚ) - 1 := le_trans h.1.1 h.1.2
      have : (1 : ℚ) ≤ n := by linarith
      exact_mod_cast this
    rw [interpHat_congr n _ (fun _ => c) xd (fun i _ => evalRec_const ns xs c h.2)]
    exact interpHat_const n c xd hn h.1.1 h.1.2

/-- vertex reproduction -/
theorem evalRec_vertex : ∀ (sizes : List Nat) (idx : Idx) (K : W), idx ∈ allIdx sizes →
    evalRec sizes (idx.map (fun (v : Nat) => (v : ℚ))) K = K idx := by
  intro sizes
  induction sizes with
  | nil => intro idx K h; rw [mem_allIdx_nil.mp h]; simp [evalRec]
  | cons n ns ih =>
    intro idx K h
    obtain ⟨i, t, rfl, hi, ht⟩ := allIdx_cons_exists h
    show evalRec (n :: ns) (((i : ℚ)) :: t.map (fun (v : Nat) => (v : ℚ))) K = K (i :: t)
    rw [evalRec, interpHat_vertex n _ i hi]
    exact ih t (fun t => K (i :: t)) ht

/-- cell formula along axis `d`: for `j ≤ x_d ≤ j+1` the value is the chord between the values at
`x_d = j` and `x_d = j+1` (all other coordinates arbitrary) -/
theorem evalRec_cell : ∀ (sizes : List Nat) (d : Nat) (x : List ℚ) (K : W) (j : Nat),
    x.length = sizes.length → j + 1 < sizes.getD d 0 → (j : ℚ) ≤ x.getD d 0 → x.getD d 0 ≤ (j : ℚ) + 1 →
    evalRec sizes x K = (1 - (x.getD d 0 - j)) * evalRec sizes (x.set d (j : ℚ)) K
      + (x.getD d 0 - j) * evalRec sizes (x.set d ((j : ℚ) + 1)) K := by
  intro sizes
  induction sizes with
  | nil => intro d x K j _ hj; simp at hj
  | cons n ns ih =>
    intro d x K j h hj h1 h2
    cases x with
    | nil => simp at h
    | cons xd xs =>
      cases d with
      | zero =>
        simp only [List.getD_cons_zero] at hj h1 h2 ⊢
        simp only [List.set_cons_zero, evalRec]
        rw [interpHat_cell n _ j xd hj h1 h2, interpHat_vertex n _ j (by omega)]
        have := interpHat_vertex n (fun i => evalRec ns xs (fun t => K (i :: t))) (j + 1) hj
        push_cast at this
        rw [this]
      | succ d =>
        simp only [List.getD_cons_succ] at hj h1 h2 ⊢
        simp only [List.set_cons_succ, evalRec]
        rw [← interpHat_smul, ← interpHat_smul, ← interpHat_add]
        apply interpHat_congr
        intro i _
        exact ih d xs (fun t => K (i :: t)) j (by simpa using h) hj h1 h2

theorem monoAx_zero {n : Nat} {ns : List Nat} {K : W} (h : MonoAx (n :: ns) 0 K) (i : Nat)
    (hi : i + 1 < n) (t : Idx) (ht : t ∈ allIdx ns) : K (i :: t) ≤ K ((i + 1) :: t) := by
  have := h (i :: t) (mem_allIdx_cons.mpr ⟨by omega, ht⟩) (by simpa [coord] using hi)
  simpa [coord, setc] using this
theorem monoAx_succ {n : Nat} {ns : List Nat} {d : Nat} {K : W} (h : MonoAx (n :: ns) (d + 1) K) (i : Nat)
    (hi : i < n) : MonoAx ns d (fun t => K (i :: t)) := by
  intro t ht hc
  have := h (i :: t) (mem_allIdx_cons.mpr ⟨hi, ht⟩) (by simpa [coord] using hc)
  simpa [coord, setc] using this

/-- T4 core: kernel non-decreasing along axis `d` ⇒ the interpolant is non-decreasing in `x_d` for
ALL pairs `x_d ≤ v` on the range of that axis (other coordinates equal and arbitrary) -/
theorem evalRec_mono_axis : ∀ (sizes : List Nat) (d : Nat) (x : List ℚ) (K : W) (v : ℚ),
    x.length = sizes.length → d < sizes.length → MonoAx sizes d K →
    0 ≤ x.getD d 0 → x.getD d 0 ≤ v → v ≤ (sizes.getD d 0 : ℚ) - 1 →
    evalRec sizes x K ≤ evalRec sizes (x.set d v) K := by
  intro sizes
  induction sizes with
  | nil => intro d x K v _ hd; simp at hd
  | cons n ns ih =>
    intro d x K v h hd hm h0 h1 h2
    cases x with
    | nil => simp at h
    | cons xd xs =>
      have hl : xs.length = ns.length := by simpa using h
      cases d with
      | zero =>
        simp only [List.getD_cons_zero] at h0 h1 h2
        simp only [List.set_cons_zero, evalRec]
        have hn : 1 ≤ n := by
          have : (1 : ℚ) ≤ n := by linarith
          exact_mod_cast this
        apply interpHat_mono n _ hn _ h0 h1 h2
        intro i hi
        exact evalRec_le_of_le ns xs _ _ hl (fun t ht => monoAx_zero hm i hi t ht)
      | succ d =>
        simp only [List.getD_cons_succ] at h0 h1 h2
        simp only [List.set_cons_succ, evalRec]
        apply interpHat_le
        intro i hi
        exact ih d xs (fun t => K (i :: t)) v hl (by simpa using hd) (monoAx_succ hm i hi) h0 h1 h2

/-- range: a convex combination stays between bounds of the vertex values -/
theorem evalRec_bounds (sizes : List Nat) (x : List ℚ) (K : W) (lo hi : ℚ) (hx : InRange sizes x)
    (hK : ∀ idx ∈ allIdx sizes, lo ≤ K idx ∧ K idx ≤ hi) :
    lo ≤ evalRec sizes x K ∧ evalRec sizes x K ≤ hi := by
  constructor
  · have := evalRec_le_of_le sizes x (fun _ => lo) K hx.length_eq (fun i hi => (hK i hi).1)
    rwa [evalRec_const sizes x lo hx] at this
  · have := evalRec_le_of_le sizes x K (fun _ => hi) hx.length_eq (fun i h => (hK i h).2)
    rwa [evalRec_const sizes x hi hx] at this

/-! ## the code paths of `compute_interpolation_weights` / `batch_outer_operation` -/

/-- right-nested outer product (what the left fold of `batch_outer_operation` computes) -/
def outerR : List (List ℚ) → List ℚ
  | [] => [1]
  | t :: ts => outer2 t (outerR ts)

theorem outer2_nil (b : List ℚ) : outer2 [] b = [] := rfl
theorem outer2_cons (u : ℚ) (a b : List ℚ) : outer2 (u :: a) b = b.map (fun v => u * v) ++ outer2 a b := by
  simp [outer2, List.flatMap_cons]
theorem outer2_append (a a' b : List ℚ) : outer2 (a ++ a') b = outer2 a b ++ outer2 a' b := by
  simp [outer2, List.flatMap_append]
theorem outer2_map_left (u : ℚ) (b c : List ℚ) :
    outer2 (b.map (fun v => u * v)) c = (outer2 b c).map (fun v => u * v) := by
  induction b with
  | nil => simp [outer2]
  | cons v b ih =>
    simp only [List.map_cons, outer2_cons, ih, List.map_append, List.map_map]
    congr 1
    apply List.map_congr_left
    intro w _
    simp [mul_assoc]
theorem outer2_assoc (a b c : List ℚ) : outer2 (outer2 a b) c = outer2 a (outer2 b c) := by
  induction a with
  | nil => simp [outer2]
  | cons u a ih => rw [outer2_cons, outer2_append, ih, outer2_cons, outer2_map_left]
theorem outer2_one (a : List ℚ) : outer2 a [1] = a := by
  induction a with
  | nil => rfl
  | cons u a ih => rw [outer2_cons, ih]; simp
theorem foldl_outer2 (ts : List (List ℚ)) (t : List ℚ) : ts.foldl outer2 t = outer2 t (outerR ts) := by
  induction ts generalizing t with
  | nil => simp [outerR, outer2_one]
  | cons s ss ih => simp only [List.foldl_cons, outerR]; rw [ih, outer2_assoc]
/-- the left fold of `batch_outer_operation` is the right-nested outer product -/
theorem batchOuter_eq_outerR (ws : List (List ℚ)) (h : ws ≠ []) : batchOuter ws = outerR ws := by
  cases ws with
  | nil => exact absurd rfl h
  | cons t ts => simp [batchOuter, outerR, foldl_outer2]

/-- outer-product ordering: the weight vector lists `prodW x idx` over `allIdx sizes` (row-major) -/
theorem outerR_oneD : ∀ (sizes : List Nat) (x : List ℚ), x.length = sizes.length →
    outerR (List.zipWith oneD sizes x) = (allIdx sizes).map (prodW x) := by
  intro sizes
  induction sizes with
  | nil => intro x h; cases x with
    | nil => simp [outerR, allIdx, prodW]
    | cons a l => simp at h
  | cons n ns ih =>
    intro x h
    cases x with
    | nil => simp at h
    | cons xd xs =>
      simp only [List.zipWith_cons_cons, outerR, ih xs (by simpa using h), outer2, oneD, allIdx,
        List.flatMap_map, List.map_flatMap, List.map_map]
      congr 1

theorem dot_map {α : Type} (l : List α) (f g : α → ℚ) :
    dot (l.map f) (l.map g) = rsum (l.map (fun a => f a * g a)) := by
  induction l with
  | nil => simp [dot]
  | cons a l ih => simp only [dot] at ih; simp [dot]

/-- a bucket (run of equal sizes) interpolated with one broadcast op = dimension by dimension -/
theorem bucketWeights_eq (chunk : List ℚ) (b : Nat × Nat) (hl : chunk.length = b.1) (hb : 1 ≤ b.1) :
    bucketWeights chunk b = chunk.map (oneD b.2) := by
  unfold bucketWeights
  split_ifs with h
  · rfl
  · have h1 : b.1 = 1 := by omega
    match chunk, hl with
    | [a], _ => simp
    | [], hl => simp at hl; omega
    | _ :: _ :: _, hl => simp at hl; omega

theorem bucket_aux : ∀ (rest : List Nat) (prev cur : Nat) (a b : List ℚ), 1 ≤ cur → a.length = cur →
    b.length = rest.length →
    ((splitBy ((bucketLoop prev cur rest).map (·.1)) (a ++ b)).zip (bucketLoop prev cur rest)).flatMap
        (fun cb => bucketWeights cb.1 cb.2)
      = a.map (oneD prev) ++ List.zipWith oneD rest b := by
  intro rest
  induction rest with
  | nil =>
    intro prev cur a b hc ha hb
    have : b = [] := List.length_eq_zero_iff.mp (by simpa using hb)
    subst this
    simp only [bucketLoop, List.map_cons, List.map_nil, splitBy, List.append_nil, List.zip_cons_cons,
      List.zip_nil_right, List.flatMap_cons, List.flatMap_nil, List.zipWith_nil_left]
    rw [List.take_of_length_le (by omega), bucketWeights_eq a (cur, prev) ha hc]
  | cons n ns ih =>
    intro prev cur a b hc ha hb
    match b, hb with
    | [], hb => simp at hb
    | y :: ys, hb =>
      have hys : ys.length = ns.length := by simpa using hb
      by_cases hn : n = prev
      · subst hn
        have := ih n (cur + 1) (a ++ [y]) ys (by omega) (by simp [ha]) hys
        simp only [bucketLoop, ne_eq, not_true_eq_false, if_false]
        rw [show a ++ y :: ys = (a ++ [y]) ++ ys by simp, this]
        simp
      · have := ih n 1 [y] ys (by omega) rfl hys
        simp only [bucketLoop, ne_eq, hn, not_false_eq_true, if_true, List.map_cons, splitBy,
          List.zip_cons_cons, List.flatMap_cons]
        rw [List.take_left' ha, List.drop_left' ha, show y :: ys = [y] ++ ys by rfl, this,
          bucketWeights_eq a (cur, prev) ha hc]
        simp

/-- general path: the bucketised single-tensor form = the list-of-tensors form -/
theorem generalWeightsTensor_eq (sizes : List Nat) (x : List ℚ) (h : x.length = sizes.length) :
    generalWeightsTensor sizes x = generalWeightsList sizes x := by
  match sizes, x, h with
  | [], [], _ => simp [generalWeightsTensor, generalWeightsList, bucketize, splitBy]
  | n :: ns, xd :: xs, h =>
    have := bucket_aux ns n 1 [xd] xs le_rfl rfl (by simpa using h)
    simpa [generalWeightsTensor, generalWeightsList, bucketize] using this

theorem oneD_two (y : ℚ) : oneD 2 y = [hat 0 y, hat 1 y] := by
  simp [oneD, List.range_succ]
theorem fast_clip_pt (xd : ℚ) :
    [clipV (1 - xd) 0 1, clipV xd 0 1] = oneD 2 (clipV xd 0 (((2 : Nat) : ℚ) - 1)) := by
  rw [oneD_two]
  simp only [hat, clipV, absR, min_def, max_def]
  push_cast
  congr 1
  · split_ifs <;> linarith
  · congr 1
    split_ifs <;> linarith
theorem fast_noclip_pt (xd : ℚ) (h0 : 0 ≤ xd) (h1 : xd ≤ 1) : [1 - xd, xd] = oneD 2 xd := by
  rw [oneD_two]
  simp only [hat, absR, min_def]
  push_cast
  congr 1
  · split_ifs <;> linarith
  · congr 1
    split_ifs <;> linarith

/-- all-2 fast path with clipping = general path on the clipped input, for EVERY input -/
theorem fastWeights_clip : ∀ (sizes : List Nat) (x : List ℚ), allTwo sizes = true → x.length = sizes.length →
    fastWeights true x = generalWeightsList sizes (clipOntoRange sizes x)
  | [], [], _, _ => by simp [fastWeights, generalWeightsList, clipOntoRange]
  | [], _ :: _, _, h => by simp at h
  | _ :: _, [], _, h => by simp at h
  | n :: ns, xd :: xs, h2, h => by
    have h2' : n = 2 ∧ allTwo ns = true := by simpa [allTwo] using h2
    have hn : n = 2 := h2'.1
    have hns : allTwo ns = true := h2'.2
    have ih := fastWeights_clip ns xs hns (by simpa using h)
    subst hn
    simp only [fastWeights, generalWeightsList, clipOntoRange, List.map_cons, List.zipWith_cons_cons,
      if_true] at ih ⊢
    rw [ih, fast_clip_pt]

/-- all-2 fast path without clipping = general path, on the range -/
theorem fastWeights_noclip : ∀ (sizes : List Nat) (x : List ℚ), allTwo sizes = true → InRange sizes x →
    fastWeights false x = generalWeightsList sizes x
  | [], [], _, _ => by simp [fastWeights, generalWeightsList]
  | [], _ :: _, _, h => by simp [InRange] at h
  | _ :: _, [], _, h => by simp [InRange] at h
  | n :: ns, xd :: xs, h2, h => by
    have h2' : n = 2 ∧ allTwo ns = true := by simpa [allTwo] using h2
    have hn : n = 2 := h2'.1
    have hns : allTwo ns = true := h2'.2
    have ih := fastWeights_noclip ns xs hns h.2
    subst hn
    have hx := h.1
    push_cast at hx
    simp only [fastWeights, generalWeightsList, List.map_cons, List.zipWith_cons_cons] at ih ⊢
    rw [ih]
    simp only [Bool.false_eq_true, if_false]
    rw [fast_noclip_pt xd hx.1 (by linarith)]

theorem length_clipOntoRange (sizes : List Nat) (x : List ℚ) (h : x.length = sizes.length) :
    (clipOntoRange sizes x).length = sizes.length := by
  simp [clipOntoRange, h]

/-- the clipped point lies on the lattice (sizes ≥ 1) -/
theorem inRange_clip : ∀ (sizes : List Nat) (x : List ℚ), x.length = sizes.length → (∀ n ∈ sizes, 1 ≤ n) →
    InRange sizes (clipOntoRange sizes x)
  | [], [], _, _ => by simp [clipOntoRange, InRange]
  | [], _ :: _, h, _ => by simp at h
  | _ :: _, [], h, _ => by simp at h
  | n :: ns, xd :: xs, h, hs => by
    have hn : (1 : ℚ) ≤ n := by exact_mod_cast hs n (by simp)
    have ih := inRange_clip ns xs (by simpa using h) (fun m hm => hs m (by simp [hm]))
    simp only [clipOntoRange, List.zipWith_cons_cons, InRange] at ih ⊢
    refine ⟨?_, ih⟩
    simp only [clipV, min_def, max_def]
    constructor <;> split_ifs <;> linarith

/-- clipping an in-range point is the identity -/
theorem clip_of_inRange : ∀ (sizes : List Nat) (x : List ℚ), InRange sizes x → clipOntoRange sizes x = x
  | [], [], _ => by simp [clipOntoRange]
  | [], _ :: _, h => by simp [InRange] at h
  | _ :: _, [], h => by simp [InRange] at h
  | n :: ns, xd :: xs, h => by
    have ih := clip_of_inRange ns xs h.2
    simp only [clipOntoRange, List.zipWith_cons_cons] at ih ⊢
    rw [ih]
    congr 1
    simp only [clipV, min_def, max_def]
    have := h.1
    split_ifs <;> linarith

theorem inRange_vertex : ∀ (sizes : List Nat) (idx : Idx), idx ∈ allIdx sizes →
    InRange sizes (idx.map (fun (v : Nat) => (v : ℚ))) := by
  intro sizes
  induction sizes with
  | nil => intro idx h; rw [mem_allIdx_nil.mp h]; simp [InRange]
  | cons n ns ih =>
    intro idx h
    obtain ⟨i, t, rfl, hi, ht⟩ := allIdx_cons_exists h
    show InRange (n :: ns) ((i : ℚ) :: t.map (fun (v : Nat) => (v : ℚ)))
    refine ⟨⟨by positivity, ?_⟩, ih t ht⟩
    have : (i : ℚ) + 1 ≤ n := by exact_mod_cast hi
    linarith

theorem clipOntoRange_set : ∀ (sizes : List Nat) (x : List ℚ) (d : Nat) (v : ℚ),
    clipOntoRange sizes (x.set d v)
      = (clipOntoRange sizes x).set d (clipV v 0 ((sizes.getD d 0 : ℚ) - 1))
  | [], _, _, _ => by simp [clipOntoRange]
  | _ :: _, [], _, _ => by simp [clipOntoRange]
  | n :: ns, xd :: xs, 0, v => by simp [clipOntoRange]
  | n :: ns, xd :: xs, d + 1, v => by
    have := clipOntoRange_set ns xs d v
    simp only [clipOntoRange] at this
    simp [clipOntoRange, this]

theorem clipOntoRange_getD : ∀ (sizes : List Nat) (x : List ℚ) (d : Nat), x.length = sizes.length →
    d < sizes.length →
    (clipOntoRange sizes x).getD d 0 = clipV (x.getD d 0) 0 ((sizes.getD d 0 : ℚ) - 1)
  | [], _, _, _, h => by simp at h
  | _ :: _, [], _, h, _ => by simp at h
  | n :: ns, xd :: xs, 0, _, _ => by simp [clipOntoRange]
  | n :: ns, xd :: xs, d + 1, h, hd => by
    have := clipOntoRange_getD ns xs d (by simpa using h) (by simpa using hd)
    simp only [clipOntoRange] at this
    simpa [clipOntoRange] using this

theorem interpHat_sub (n : Nat) (k₁ k₂ : Nat → ℚ) (x : ℚ) :
    interpHat n (fun i => k₁ i - k₂ i) x = interpHat n k₁ x - interpHat n k₂ x := by
  have := interpHat_add n (fun i => k₁ i - k₂ i) k₂ x
  simp only [sub_add_cancel] at this
  linarith

theorem interpRamp_diff (n : Nat) (k : Nat → ℚ) (a a' : ℚ) :
    interpRamp n k a' - interpRamp n k a
      = sumR (n - 1) (fun i => (k (i + 1) - k i) * (ramp i a' - ramp i a)) := by
  unfold interpRamp
  have : sumR (n - 1) (fun i => (k (i + 1) - k i) * (ramp i a' - ramp i a))
      = sumR (n - 1) (fun i => (k (i + 1) - k i) * ramp i a' + (-1) * ((k (i + 1) - k i) * ramp i a)) := by
    apply sumR_congr; intro i _; ring
  rw [this, sumR_add, sumR_mul_left]; ring

/-- T5 core (two axes): non-negative mixed second differences of the vertex values give
non-negative mixed second differences of the bilinear interpolant, for ALL point pairs -/
theorem edgeworth2 (n m : Nat) (G : Nat → Nat → ℚ)
    (hG : ∀ i j, i + 1 < n → j + 1 < m → G (i + 1) j - G i j ≤ G (i + 1) (j + 1) - G i (j + 1))
    {a a' b b' : ℚ} (ha0 : 0 ≤ a) (ha : a ≤ a') (ha1 : a' ≤ (n : ℚ) - 1)
    (hb0 : 0 ≤ b) (hb : b ≤ b') (hb1 : b' ≤ (m : ℚ) - 1) :
    interpHat n (fun i => interpHat m (G i) b) a' - interpHat n (fun i => interpHat m (G i) b) a
      ≤ interpHat n (fun i => interpHat m (G i) b') a' - interpHat n (fun i => interpHat m (G i) b') a := by
  have hn : 1 ≤ n := by
    have : (1 : ℚ) ≤ n := by linarith
    exact_mod_cast this
  have hm : 1 ≤ m := by
    have : (1 : ℚ) ≤ m := by linarith
    exact_mod_cast this
  rw [interpHat_eq_interpRamp n _ a' hn (by linarith) ha1, interpHat_eq_interpRamp n _ a hn ha0 (by linarith),
    interpHat_eq_interpRamp n _ a' hn (by linarith) ha1, interpHat_eq_interpRamp n _ a hn ha0 (by linarith),
    interpRamp_diff, interpRamp_diff]
  apply sumR_le
  intro i hi
  apply mul_le_mul_of_nonneg_right _ (by have := ramp_mono i ha; linarith)
  rw [← interpHat_sub, ← interpHat_sub]
  exact interpHat_mono m _ hm (fun j hj => hG i j (by omega) hj) hb0 hb hb1

theorem inRange_getD : ∀ (sizes : List Nat) (x : List ℚ) (d : Nat), InRange sizes x → d < sizes.length →
    0 ≤ x.getD d 0 ∧ x.getD d 0 ≤ (sizes.getD d 0 : ℚ) - 1
  | [], _, _, _, h => by simp at h
  | _ :: _, [], _, h, _ => by simp [InRange] at h
  | n :: ns, xd :: xs, 0, h, _ => by simpa using h.1
  | n :: ns, xd :: xs, d + 1, h, hd => by
    simpa using inRange_getD ns xs d h.2 (by simpa using hd)

theorem clipV_mono {a b lo hi : ℚ} (h : a ≤ b) : clipV a lo hi ≤ clipV b lo hi := by
  unfold clipV; exact min_le_min (max_le_max h le_rfl) le_rfl
theorem clipV_bounds (a : ℚ) {lo hi : ℚ} (h : lo ≤ hi) : lo ≤ clipV a lo hi ∧ clipV a lo hi ≤ hi := by
  unfold clipV; exact ⟨le_min (le_max_right _ _) h, min_le_right _ _⟩

/-- the second-difference (Edgeworth) condition between the two leading axes, for every position
`t` of the remaining axes -/
def Edgeworth01 (n m : Nat) (rest : List Nat) (K : W) : Prop :=
  ∀ i j t, i + 1 < n → j + 1 < m → t ∈ allIdx rest →
    K ((i + 1) :: j :: t) - K (i :: j :: t) ≤ K ((i + 1) :: (j + 1) :: t) - K (i :: (j + 1) :: t)

/-- T5 core: Edgeworth kernel ⇒ the effect of the main coordinate grows with the conditional one -/
theorem evalRec_edgeworth (n m : Nat) (rest : List Nat) (K : W) (zs : List ℚ) (hz : zs.length = rest.length)
    (hK : Edgeworth01 n m rest K) {a a' b b' : ℚ} (ha0 : 0 ≤ a) (ha : a ≤ a') (ha1 : a' ≤ (n : ℚ) - 1)
    (hb0 : 0 ≤ b) (hb : b ≤ b') (hb1 : b' ≤ (m : ℚ) - 1) :
    evalRec (n :: m :: rest) (a' :: b :: zs) K - evalRec (n :: m :: rest) (a :: b :: zs) K
      ≤ evalRec (n :: m :: rest) (a' :: b' :: zs) K - evalRec (n :: m :: rest) (a :: b' :: zs) K := by
  simp only [evalRec]
  apply edgeworth2 n m (fun i j => evalRec rest zs (fun t => K (i :: j :: t))) _ ha0 ha ha1 hb0 hb hb1
  intro i j hi hj
  have h := evalRec_le_of_le rest zs
    (fun t => K ((i + 1) :: j :: t) + K (i :: (j + 1) :: t))
    (fun t => K ((i + 1) :: (j + 1) :: t) + K (i :: j :: t)) hz
    (fun t ht => by have := hK i j t hi hj ht; linarith)
  rw [evalRec_add, evalRec_add] at h
  linarith

/-! ## simplex interpolation: sorting, weights, residuals -/

/-- descending by value -/
def SortedDesc (l : List (ℚ × Nat)) : Prop := l.Pairwise (fun p q => q.1 ≤ p.1)

theorem insertDesc_perm (p : ℚ × Nat) (l : List (ℚ × Nat)) : (insertDesc p l).Perm (p :: l) := by
  induction l with
  | nil => simp [insertDesc]
  | cons q qs ih =>
    simp only [insertDesc]
    split_ifs
    · exact (List.Perm.cons q ih).trans (List.Perm.swap p q qs)
    · exact List.Perm.refl _
theorem sortDesc_perm (l : List (ℚ × Nat)) : (sortDesc l).Perm l := by
  induction l with
  | nil => simp [sortDesc]
  | cons p l ih =>
    simp only [sortDesc, List.foldr_cons] at ih ⊢
    exact (insertDesc_perm p _).trans (List.Perm.cons p ih)
theorem insertDesc_sorted (p : ℚ × Nat) (l : List (ℚ × Nat)) (h : SortedDesc l) :
    SortedDesc (insertDesc p l) := by
  induction l with
  | nil => simp [insertDesc, SortedDesc]
  | cons q qs ih =>
    unfold SortedDesc at h ih ⊢
    rw [List.pairwise_cons] at h
    simp only [insertDesc]
    split_ifs with hlt
    · rw [List.pairwise_cons]
      refine ⟨?_, ih h.2⟩
      intro r hr
      rcases List.mem_cons.mp ((insertDesc_perm p qs).mem_iff.mp hr) with rfl | hr
      · exact hlt.le
      · exact h.1 r hr
    · rw [List.pairwise_cons]
      refine ⟨?_, List.pairwise_cons.mpr h⟩
      intro r hr
      rcases List.mem_cons.mp hr with rfl | hr
      · exact not_lt.mp hlt
      · exact le_trans (h.1 r hr) (not_lt.mp hlt)
theorem sortDesc_sorted (l : List (ℚ × Nat)) : SortedDesc (sortDesc l) := by
  induction l with
  | nil => simp [sortDesc, SortedDesc]
  | cons p l ih =>
    simp only [sortDesc, List.foldr_cons] at ih ⊢
    exact insertDesc_sorted p _ ih

/-- `pad_left(s, prev) - pad_right(s, 0)` -/
def wts (prev : ℚ) (vals : List ℚ) : List ℚ := List.zipWith (· - ·) (prev :: vals) (vals ++ [0])
theorem simplexWeights_eq (vals : List ℚ) : simplexWeights vals = wts 1 vals := rfl
theorem wts_nil (prev : ℚ) : wts prev [] = [prev - 0] := rfl
theorem wts_cons (prev s : ℚ) (vals : List ℚ) : wts prev (s :: vals) = (prev - s) :: wts s vals := rfl
/-- the simplex weights telescope: they always sum to the left pad -/
theorem rsum_wts (prev : ℚ) (vals : List ℚ) : rsum (wts prev vals) = prev := by
  induction vals generalizing prev with
  | nil => simp [wts_nil]
  | cons s vals ih => rw [wts_cons, rsum_cons, ih]; ring
theorem wts_nonneg (prev : ℚ) (vals : List ℚ) (h : (prev :: vals).Pairwise (fun a b => b ≤ a))
    (h0 : ∀ v ∈ prev :: vals, 0 ≤ v) : ∀ w ∈ wts prev vals, 0 ≤ w := by
  induction vals generalizing prev with
  | nil => intro w hw; simp [wts_nil] at hw; rw [hw]; exact h0 prev (by simp)
  | cons s vals ih =>
    intro w hw
    rw [wts_cons] at hw
    rw [List.pairwise_cons] at h
    rcases List.mem_cons.mp hw with rfl | hw
    · have := h.1 s (by simp); linarith
    · exact ih s h.2 (fun v hv => h0 v (List.mem_cons_of_mem _ hv)) w hw

theorem truncToInt_of_nonneg {x : ℚ} (h : 0 ≤ x) : truncToInt x = x.floor := by
  unfold truncToInt; rw [if_neg (not_lt.mpr h)]

/-- on the range, `x_d - min(trunc x_d, size_d - 2)` lies in `[0, 1]` and the lower corner in
`[0, size_d - 2]` -/
theorem resid_bounds (n : Nat) (x : ℚ) (hn : 2 ≤ n) (h0 : 0 ≤ x) (h1 : x ≤ (n : ℚ) - 1) :
    let l := min (truncToInt x) ((n : Int) - 2)
    0 ≤ l ∧ l ≤ (n : Int) - 2 ∧ 0 ≤ x - (l : ℚ) ∧ x - (l : ℚ) ≤ 1 := by
  intro l
  have hl : l = min x.floor ((n : Int) - 2) := by simp only [l, truncToInt_of_nonneg h0]
  have hf0 : 0 ≤ x.floor := Rat.le_floor_iff.mpr (by simpa using h0)
  have hfl := Rat.floor_le x
  have hfu := Rat.lt_floor_add_one x
  push_cast at hfu
  have hn' : (0 : Int) ≤ (n : Int) - 2 := by omega
  refine ⟨?_, ?_, ?_, ?_⟩
  · rw [hl]; exact le_min hf0 hn'
  · rw [hl]; exact min_le_right _ _
  · have : (l : ℚ) ≤ x.floor := by rw [hl]; exact_mod_cast min_le_left _ _
    linarith
  · rcases le_total x.floor ((n : Int) - 2) with h | h
    · rw [hl, min_eq_left h]; linarith
    · rw [hl, min_eq_right h]; push_cast; linarith

theorem inRange_allTwo_mem : ∀ (sizes : List Nat) (x : List ℚ), allTwo sizes = true → InRange sizes x →
    ∀ r ∈ x, 0 ≤ r ∧ r ≤ 1
  | [], [], _, _ => by simp
  | [], _ :: _, _, h => by simp [InRange] at h
  | _ :: _, [], _, h => by simp [InRange] at h
  | n :: ns, xd :: xs, h2, h => by
    have h2' : n = 2 ∧ allTwo ns = true := by simpa [allTwo] using h2
    intro r hr
    rcases List.mem_cons.mp hr with rfl | hr
    · have := h.1; rw [h2'.1] at this; push_cast at this; constructor <;> linarith
    · exact inRange_allTwo_mem ns xs h2'.2 h.2 r hr

theorem residual_mem : ∀ (sizes : List Nat) (x : List ℚ), (∀ n ∈ sizes, 2 ≤ n) → InRange sizes x →
    ∀ r ∈ residual x (lowerCorner sizes x), 0 ≤ r ∧ r ≤ 1
  | [], [], _, _ => by simp [residual, lowerCorner]
  | [], _ :: _, _, h => by simp [InRange] at h
  | _ :: _, [], _, h => by simp [InRange] at h
  | n :: ns, xd :: xs, hs, h => by
    intro r hr
    simp only [residual, lowerCorner, List.zipWith_cons_cons] at hr
    rcases List.mem_cons.mp hr with rfl | hr
    · have := resid_bounds n xd (hs n (by simp)) h.1.1 h.1.2
      exact ⟨this.2.2.1, this.2.2.2⟩
    · exact residual_mem ns xs (fun m hm => hs m (by simp [hm])) h.2 r hr

/-- the residuals the simplex code sorts lie in `[0, 1]` for every point of the lattice range -/
theorem simplexSplit_resid_mem (sizes : List Nat) (x : List ℚ) (hs : ∀ n ∈ sizes, 2 ≤ n)
    (h : InRange sizes x) : ∀ r ∈ (simplexSplit sizes x).2, 0 ≤ r ∧ r ≤ 1 := by
  unfold simplexSplit
  split_ifs with h2
  · exact inRange_allTwo_mem sizes x h2 h
  · exact residual_mem sizes x hs h

theorem mem_zipIdx_fst {l : List ℚ} {p : ℚ × Nat} (h : p ∈ l.zipIdx) : p.1 ∈ l := by
  have := List.mem_zipIdx (x := p.1) (i := p.2) (xs := l) (k := 0) (by simpa using h)
  rw [this.2.2]; exact List.getElem_mem _

/-- T3 core: the simplex weights of a residual vector in `[0,1]^d` are ≥ 0 and sum to 1 -/
theorem simplexWeights_convex (resid : List ℚ) (h : ∀ r ∈ resid, 0 ≤ r ∧ r ≤ 1) :
    (∀ w ∈ simplexWeights ((sortDesc resid.zipIdx).map (·.1)), 0 ≤ w) ∧
      rsum (simplexWeights ((sortDesc resid.zipIdx).map (·.1))) = 1 := by
  rw [simplexWeights_eq]
  refine ⟨?_, rsum_wts 1 _⟩
  have hmem : ∀ v ∈ (sortDesc resid.zipIdx).map (·.1), 0 ≤ v ∧ v ≤ 1 := by
    intro v hv
    obtain ⟨p, hp, rfl⟩ := List.mem_map.mp hv
    exact h _ (mem_zipIdx_fst ((sortDesc_perm _).mem_iff.mp hp))
  apply wts_nonneg
  · rw [List.pairwise_cons]
    refine ⟨fun v hv => (hmem v hv).2, ?_⟩
    rw [List.pairwise_map]
    exact sortDesc_sorted _
  · intro v hv
    rcases List.mem_cons.mp hv with rfl | hv
    · norm_num
    · exact (hmem v hv).1

/-! ## simplex interpolation: the walk along the chain of simplex vertices -/

/-- flat-index form of the code's `Σ_k weight_k · kernel[index_k]`: `I` is the running
`tf.cumsum` index, `prev` the previous sorted value (left pad 1) -/
def walkF (flat : List ℚ) (st : List Nat) : ℚ → Int → List (ℚ × Nat) → ℚ
  | prev, I, [] => prev * flat.getD I.toNat 0
  | prev, I, p :: rest =>
    (prev - p.1) * flat.getD I.toNat 0 + walkF flat st p.1 (I + ((st.getD p.2 0 : Nat) : Int)) rest

theorem dot_cons (a b : ℚ) (as bs : List ℚ) : dot (a :: as) (b :: bs) = a * b + dot as bs := rfl

/-- the code's pad / subtract / cumsum / gather / dot pipeline is the walk -/
theorem pipeline_eq_walkF (flat : List ℚ) (st : List Nat) (L : List (ℚ × Nat)) (prev : ℚ) (acc a : Int) :
    dot ((cumsumFrom acc (a :: L.map (fun p => ((st.getD p.2 0 : Nat) : Int)))).map
          (fun i => flat.getD i.toNat 0)) (wts prev (L.map (·.1)))
      = walkF flat st prev (acc + a) L := by
  induction L generalizing prev acc a with
  | nil => simp [cumsumFrom, wts_nil, walkF, dot]; ring
  | cons p rest ih =>
    simp only [List.map_cons, cumsumFrom, wts_cons, dot_cons, walkF]
    have := ih p.1 (acc + a) ((st.getD p.2 0 : Nat) : Int)
    simp only [cumsumFrom, List.map_cons] at this
    rw [this]; ring

theorem mapM_gatherAt_ok (flat : List ℚ) (is : List Int) (h : ∀ i ∈ is, 0 ≤ i ∧ i.toNat < flat.length) :
    is.mapM (gatherAt flat) = .ok (is.map (fun i => flat.getD i.toNat 0)) := by
  induction is with
  | nil => rfl
  | cons i is ih =>
    have hi := h i (by simp)
    rw [List.mapM_cons, ih (fun j hj => h j (by simp [hj]))]
    simp [gatherAt, hi, bind, Except.bind, pure, Except.pure]

/-- index-level walk: `P` is the current simplex vertex, each step raises coordinate `p.2` by one -/
def bump (P : Idx) (d : Nat) : Idx := setc P d (coord P d + 1)
def walkK (K : W) : ℚ → Idx → List (ℚ × Nat) → ℚ
  | prev, P, [] => prev * K P
  | prev, P, p :: rest => (prev - p.1) * K P + walkK K p.1 (bump P p.2) rest
def bumpAll (P : Idx) : List Nat → Idx
  | [] => P
  | d :: ds => bumpAll (bump P d) ds

/-- the walk is affine in the left pad, with slope `K P` -/
theorem walkK_prev (K : W) (prev prev' : ℚ) (P : Idx) (L : List (ℚ × Nat)) :
    walkK K prev' P L = walkK K prev P L + (prev' - prev) * K P := by
  cases L with
  | nil => simp [walkK]; ring
  | cons p rest => simp [walkK]; ring

/-- values 1 at the head are free steps -/
theorem walkK_one_cons (K : W) (P : Idx) (σ : Nat) (rest : List (ℚ × Nat)) :
    walkK K 1 P ((1, σ) :: rest) = walkK K 1 (bump P σ) rest := by
  simp [walkK]
/-- once all remaining values are 0 the walk stops -/
theorem walkK_zeros (K : W) (prev : ℚ) (P : Idx) (L : List (ℚ × Nat)) (h : ∀ p ∈ L, p.1 = 0) :
    walkK K prev P L = prev * K P := by
  induction L generalizing prev P with
  | nil => rfl
  | cons p rest ih =>
    have hp : p.1 = 0 := h p (by simp)
    simp only [walkK]
    rw [ih p.1 (bump P p.2) (fun q hq => h q (by simp [hq])), hp]; ring

/-- T3 core (vertices): all residuals in `{0, 1}` ⇒ the walk returns the kernel value at the
vertex reached by raising exactly the coordinates with residual 1 -/
theorem walkK_vertex (K : W) (P : Idx) (L : List (ℚ × Nat)) (hs : SortedDesc L)
    (h01 : ∀ p ∈ L, p.1 = 0 ∨ p.1 = 1) :
    walkK K 1 P L = K (bumpAll P ((L.filter (fun p => p.1 = 1)).map (·.2))) := by
  induction L generalizing P with
  | nil => simp [walkK, bumpAll]
  | cons p rest ih =>
    unfold SortedDesc at hs
    rw [List.pairwise_cons] at hs
    rcases h01 p (by simp) with h0 | h1
    · have hz : ∀ q ∈ p :: rest, q.1 = 0 := by
        intro q hq
        rcases List.mem_cons.mp hq with rfl | hq
        · exact h0
        · rcases h01 q (by simp [hq]) with h | h
          · exact h
          · have := hs.1 q hq; rw [h0, h] at this; norm_num at this
      rw [walkK_zeros K 1 P _ hz]
      have : (p :: rest).filter (fun p => p.1 = 1) = [] := by
        apply List.filter_eq_nil_iff.mpr
        intro q hq; rw [hz q hq]; simp
      rw [this]; simp [bumpAll]
    · obtain ⟨v, σ⟩ := p
      simp only at h1
      subst h1
      rw [walkK_one_cons, ih (bump P σ) hs.2 (fun q hq => h01 q (by simp [hq]))]
      simp [bumpAll]

/-- T3 core (axis-parallel edges): residuals in `{0,1}` except coordinate `d` with `0 < t < 1` ⇒ the
walk is the chord between the two neighbouring vertices along `d` -/
theorem walkK_edge (K : W) (P : Idx) (L : List (ℚ × Nat)) (d : Nat) (t : ℚ) (hs : SortedDesc L)
    (hnd : (L.map (·.2)).Nodup) (hd : (t, d) ∈ L) (ht0 : 0 < t) (ht1 : t < 1)
    (h01 : ∀ p ∈ L, p.2 ≠ d → p.1 = 0 ∨ p.1 = 1) :
    walkK K 1 P L = (1 - t) * K (bumpAll P ((L.filter (fun p => p.1 = 1)).map (·.2)))
      + t * K (bump (bumpAll P ((L.filter (fun p => p.1 = 1)).map (·.2))) d) := by
  induction L generalizing P with
  | nil => simp at hd
  | cons p rest ih =>
    unfold SortedDesc at hs
    rw [List.pairwise_cons] at hs
    simp only [List.map_cons, List.nodup_cons] at hnd
    by_cases hpd : p.2 = d
    · -- the head is the fractional coordinate: everything after it is 0
      have hp : p = (t, d) := by
        rcases List.mem_cons.mp hd with h | h
        · exact h.symm
        · exact absurd (List.mem_map.mpr ⟨(t, d), h, hpd.symm⟩) hnd.1
      subst hp
      have hz : ∀ q ∈ rest, q.1 = 0 := by
        intro q hq
        have hqd : q.2 ≠ d := fun e => hnd.1 (List.mem_map.mpr ⟨q, hq, e⟩)
        rcases h01 q (by simp [hq]) hqd with h | h
        · exact h
        · have := hs.1 q hq; simp only at this; rw [h] at this; linarith
      have hf : ((t, d) :: rest).filter (fun p => p.1 = 1) = [] := by
        apply List.filter_eq_nil_iff.mpr
        intro q hq
        rcases List.mem_cons.mp hq with rfl | hq
        · simp; exact ne_of_lt ht1
        · rw [hz q hq]; simp
      rw [hf]
      simp only [walkK, List.map_nil, bumpAll]
      rw [walkK_zeros K t _ rest hz]
    · have hd' : (t, d) ∈ rest := by
        rcases List.mem_cons.mp hd with h | h
        · exact absurd (by rw [← h]) hpd
        · exact h
      rcases h01 p (by simp) hpd with h0 | h1
      · have := hs.1 (t, d) hd'; simp only at this; rw [h0] at this; linarith
      · obtain ⟨v, σ⟩ := p
        simp only at h1
        subst h1
        rw [walkK_one_cons, ih (bump P σ) hs.2 hnd.2 hd' (fun q hq => h01 q (by simp [hq]))]
        simp [bumpAll]

/-- simplex monotonicity inside one ordering region: two residual vectors sorted by the SAME index
order, equal except that coordinate `d` is larger in the second; if `K` does not decrease when
coordinate `d` of a chain vertex is raised, the walk does not decrease. -/
theorem walkK_mono_region (K : W) (d : Nat) :
    ∀ (L L' : List (ℚ × Nat)) (prev : ℚ) (P : Idx), L.map (·.2) = L'.map (·.2) → (L.map (·.2)).Nodup →
    List.Forall₂ (fun p q => if p.2 = d then p.1 ≤ q.1 else p.1 = q.1) L L' →
    (∀ Q, K Q ≤ K (bump Q d)) → walkK K prev P L ≤ walkK K prev P L'
  | [], [], _, _, _, _, _, _ => le_rfl
  | [], _ :: _, _, _, h, _, _, _ => by simp at h
  | _ :: _, [], _, _, h, _, _, _ => by simp at h
  | p :: rest, q :: rest', prev, P, hσ, hnd, hf, hK => by
    simp only [List.map_cons, List.cons.injEq] at hσ
    simp only [List.map_cons, List.nodup_cons] at hnd
    rw [List.forall₂_cons] at hf
    simp only [walkK]
    rw [← hσ.1]
    have ih := walkK_mono_region K d rest rest' q.1 (bump P p.2) hσ.2 hnd.2 hf.2 hK
    by_cases hpd : p.2 = d
    · have hle : p.1 ≤ q.1 := by simpa [hpd] using hf.1
      have h1 := walkK_prev K p.1 q.1 (bump P p.2) rest
      have h2 := hK P
      rw [hpd] at h1 ih ⊢
      nlinarith [mul_nonneg (sub_nonneg.mpr hle) (sub_nonneg.mpr h2)]
    · have heq : p.1 = q.1 := by simpa [hpd] using hf.1
      rw [heq]; linarith

end Tfl.LatticeEval
