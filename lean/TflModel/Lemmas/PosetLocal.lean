import TflModel.Lemmas.Poset
/-!
# Locality of the partial-order sweeps

The sweeps of `internal_utils.py` read and write only the entries that occur in some pair (the NODES
of the pair set): two columns of the same length that agree on the nodes are mapped to columns that
agree on the nodes. Together with `approxProjectWith_inv` (entries outside the nodes keep their value)
this shows that two projections over DISJOINT node sets commute — used by
`Tfl.C06.accepted_stages_commute` (Props/C06Compose.lean): in an accepted Linear configuration the
monotonic- and the range-dominance stage of `linear_lib.project` can be run in either order.
-/
namespace Tfl.Poset

/-- same length and the same values on the nodes of `cs` -/
def Agree (cs : Pairs) (w w' : List Rat) : Prop :=
  w.length = w'.length ∧ ∀ k, IsNode cs k → getV w k = getV w' k

theorem Agree.rfl' {cs : Pairs} {w : List Rat} : Agree cs w w := ⟨rfl, fun _ _ => rfl⟩

theorem foldl_min_congr (w w' : List Rat) (l : List Nat) (a : Rat) (h : ∀ j ∈ l, getV w j = getV w' j) :
    l.foldl (fun m j => min m (getV w j)) a = l.foldl (fun m j => min m (getV w' j)) a := by
  induction l generalizing a with
  | nil => rfl
  | cons d l ih =>
    simp only [List.foldl_cons]
    rw [h d (List.mem_cons_self ..)]
    exact ih _ (fun j hj => h j (List.mem_cons_of_mem _ hj))

theorem foldl_max_congr (w w' : List Rat) (l : List Nat) (a : Rat) (h : ∀ j ∈ l, getV w j = getV w' j) :
    l.foldl (fun m j => max m (getV w j)) a = l.foldl (fun m j => max m (getV w' j)) a := by
  induction l generalizing a with
  | nil => rfl
  | cons d l ih =>
    simp only [List.foldl_cons]
    rw [h d (List.mem_cons_self ..)]
    exact ih _ (fun j hj => h j (List.mem_cons_of_mem _ hj))

theorem minStep_agree {cs : Pairs} {w w' : List Rat} (s : Rat) (h : Agree cs w w') (i : Nat) :
    Agree cs (minStep cs s w i) (minStep cs s w' i) := by
  refine ⟨by simpa using h.1, fun k hk => ?_⟩
  unfold minStep
  split
  · exact h.2 k hk
  · rename_i hne
    have hi : IsNode cs i := by
      rcases hg : lessThan cs i with _ | ⟨j, t⟩
      · simp [hg] at hne
      · exact ⟨(i, j), mem_lessThan.mp (by rw [hg]; simp), Or.inl rfl⟩
    have hm : minAt cs w i = minAt cs w' i := by
      unfold minAt
      rw [h.2 i hi]
      exact foldl_min_congr w w' _ _ (fun j hj => h.2 j ⟨(i, j), mem_lessThan.mp hj, Or.inr rfl⟩)
    rw [getV_set, getV_set, hm, h.2 i hi, h.1, h.2 k hk]

theorem maxStep_agree {cs : Pairs} {w w' : List Rat} (s : Rat) (h : Agree cs w w') (i : Nat) :
    Agree cs (maxStep cs s w i) (maxStep cs s w' i) := by
  refine ⟨by simpa using h.1, fun k hk => ?_⟩
  unfold maxStep
  split
  · exact h.2 k hk
  · rename_i hne
    have hi : IsNode cs i := by
      rcases hg : greaterThan cs i with _ | ⟨j, t⟩
      · simp [hg] at hne
      · exact ⟨(j, i), mem_greaterThan.mp (by rw [hg]; simp), Or.inr rfl⟩
    have hm : maxAt cs w i = maxAt cs w' i := by
      unfold maxAt
      rw [h.2 i hi]
      exact foldl_max_congr w w' _ _ (fun j hj => h.2 j ⟨(j, i), mem_greaterThan.mp hj, Or.inl rfl⟩)
    rw [getV_set, getV_set, hm, h.2 i hi, h.1, h.2 k hk]

theorem minProjection_agree {cs : Pairs} (o : List Nat) (s : Rat) {w w' : List Rat} (h : Agree cs w w') :
    Agree cs (minProjection cs o s w) (minProjection cs o s w') := by
  unfold minProjection
  generalize o.reverse = r
  induction r generalizing w w' with
  | nil => exact h
  | cons a r ih => exact ih (minStep_agree s h a)

theorem maxProjection_agree {cs : Pairs} (o : List Nat) (s : Rat) {w w' : List Rat} (h : Agree cs w w') :
    Agree cs (maxProjection cs o s w) (maxProjection cs o s w') := by
  unfold maxProjection
  induction o generalizing w w' with
  | nil => exact h
  | cons a r ih => exact ih (maxStep_agree s h a)

/-- **locality**: the approximate projection of two columns that agree on the nodes agrees on the nodes -/
theorem approxProjectWith_agree {cs : Pairs} (o : List Nat) {w w' : List Rat} (h : Agree cs w w') :
    Agree cs (approxProjectWith cs o w) (approxProjectWith cs o w') := by
  have ha := maxProjection_agree o 1 (minProjection_agree o (1/2) h)
  have hb := minProjection_agree o 1 (maxProjection_agree o (1/2) h)
  refine ⟨by simpa using h.1, fun k hk => ?_⟩
  simp only [approxProjectWith]
  rw [getV_avg2 _ _ (by simp), getV_avg2 _ _ (by simp), ha.2 k hk, hb.2 k hk]

theorem closed_true : Closed (fun _ => True) := ⟨fun _ _ _ _ => trivial, fun _ _ _ _ => trivial,
  fun _ _ _ _ _ _ _ => trivial⟩

/-- entries outside the nodes keep their value (no hypothesis on the values) -/
theorem approxProjectWith_outside (cs : Pairs) (o : List Nat) (w : List Rat) {k : Nat} (hk : ¬ IsNode cs k) :
    getV (approxProjectWith cs o w) k = getV w k :=
  (approxProjectWith_inv closed_true o (w := w) (fun _ _ => trivial)).2.2 k hk

theorem ext_getV {l l' : List Rat} (hl : l.length = l'.length) (h : ∀ k, getV l k = getV l' k) : l = l' := by
  apply List.ext_getElem hl
  intro k h1 h2
  have := h k
  simpa [getV, List.getD, h1, h2] using this

end Tfl.Poset
