import TflModel.Model.Kfl
import TflModel.Lemmas.Poset
import Mathlib.Tactic.Linarith
import Mathlib.Tactic.Ring
import Mathlib.Tactic.FieldSimp
import Mathlib.Algebra.Order.Field.Rat
import Mathlib.Algebra.Order.Field.Basic
/-! Lemmas about the Kronecker-factored lattice model (`Model/Kfl.lean`). -/
namespace Tfl.Kfl
open Tfl Tfl.Poset

/-! ## products with one factor taken out (C19) -/

theorem rprod_eraseIdx : ∀ (t : List Rat) (i : Nat), i < t.length →
    rprod t = getR t i * rprod (t.eraseIdx i)
  | [], i, h => by simp at h
  | x :: xs, 0, _ => by simp [rprod, getR]
  | x :: xs, i + 1, h => by
    have := rprod_eraseIdx xs i (by simpa using h)
    simp only [rprod, getR, List.eraseIdx_cons_succ, List.getD_cons_succ] at *
    rw [this]; ring

theorem rprod_set : ∀ (t : List Rat) (i : Nat) (v : Rat), i < t.length →
    rprod (t.set i v) = v * rprod (t.eraseIdx i)
  | [], i, _, h => by simp at h
  | x :: xs, 0, v, _ => by simp [rprod]
  | x :: xs, i + 1, v, h => by
    have := rprod_set xs i v (by simpa using h)
    simp only [rprod, List.set_cons_succ, List.eraseIdx_cons_succ] at *
    rw [this]; ring

theorem isZero_nonneg (x : Rat) : 0 ≤ isZero x := by unfold isZero; split <;> norm_num

theorem numZeros_nonneg : ∀ t : List Rat, 0 ≤ numZeros t
  | [] => by simp [numZeros, rsum]
  | x :: xs => by
    have := numZeros_nonneg xs
    have := isZero_nonneg x
    simp only [numZeros, List.map_cons, rsum] at *
    linarith

theorem numZeros_cons (x : Rat) (xs : List Rat) : numZeros (x :: xs) = isZero x + numZeros xs := by
  simp [numZeros, rsum]
theorem prodPlus_cons (x : Rat) (xs : List Rat) : prodPlus (x :: xs) = (x + isZero x) * prodPlus xs := by
  simp [prodPlus, rprod]

/-- no zero in the list: `prod(t + is_zero)` is the plain product -/
theorem prodPlus_of_numZeros_eq_zero : ∀ t : List Rat, numZeros t = 0 → prodPlus t = rprod t
  | [], _ => by simp [prodPlus, rprod]
  | x :: xs, h => by
    rw [numZeros_cons] at h
    have h1 := isZero_nonneg x
    have h2 := numZeros_nonneg xs
    have hx : isZero x = 0 := by linarith
    have hxs : numZeros xs = 0 := by linarith
    rw [prodPlus_cons, hx, prodPlus_of_numZeros_eq_zero xs hxs]; simp [rprod]

/-- some zero in the list: the plain product vanishes -/
theorem rprod_of_numZeros_ne_zero : ∀ t : List Rat, numZeros t ≠ 0 → rprod t = 0
  | [], h => by simp [numZeros, rsum] at h
  | x :: xs, h => by
    rw [numZeros_cons] at h
    by_cases hx : x = 0
    · simp [rprod, hx]
    · have : numZeros xs ≠ 0 := by
        intro h0; apply h; simp [isZero, hx, h0]
      simp [rprod, rprod_of_numZeros_ne_zero xs this]

theorem numZeros_eraseIdx : ∀ (t : List Rat) (i : Nat), i < t.length →
    numZeros t = isZero (getR t i) + numZeros (t.eraseIdx i)
  | [], i, h => by simp at h
  | x :: xs, 0, _ => by simp [numZeros_cons, getR]
  | x :: xs, i + 1, h => by
    have := numZeros_eraseIdx xs i (by simpa using h)
    simp only [numZeros_cons, getR, List.eraseIdx_cons_succ, List.getD_cons_succ] at *
    rw [this]; ring

theorem prodPlus_eraseIdx : ∀ (t : List Rat) (i : Nat), i < t.length →
    prodPlus t = (getR t i + isZero (getR t i)) * prodPlus (t.eraseIdx i)
  | [], i, h => by simp at h
  | x :: xs, 0, _ => by simp [prodPlus_cons, getR]
  | x :: xs, i + 1, h => by
    have := prodPlus_eraseIdx xs i (by simpa using h)
    simp only [prodPlus_cons, getR, List.eraseIdx_cons_succ, List.getD_cons_succ] at *
    rw [this]; ring

/-- the factor of `grad_fn` is the product of all the other entries, in every zero pattern -/
theorem gradFactor_eq (t : List Rat) (i : Nat) (hi : i < t.length) :
    gradFactor t i = rprod (t.eraseIdx i) := by
  unfold gradFactor
  simp only
  by_cases hz : getR t i = 0
  · -- zero at i: grad0 = 0; grad1 is the product of the others iff they are all non-zero
    have hnz := numZeros_eraseIdx t i hi
    have hpp := prodPlus_eraseIdx t i hi
    simp only [hz, isZero, if_true, zero_add, one_mul] at hnz hpp
    simp only [divNoNan, hz, if_true, isZero, mul_one, zero_add]
    by_cases h1 : numZeros (t.eraseIdx i) = 0
    · have : numZeros t = 1 := by rw [hnz, h1]; norm_num
      rw [if_pos this, one_mul, hpp, prodPlus_of_numZeros_eq_zero _ h1]
    · have : numZeros t ≠ 1 := by
        rw [hnz]; intro h; apply h1; linarith
      rw [if_neg this, zero_mul, rprod_of_numZeros_ne_zero _ h1]
  · simp only [divNoNan, hz, if_false, isZero, mul_zero, add_zero]
    rw [rprod_eraseIdx t i hi]
    field_simp

/-! ## hat weights -/

/-- the hat function `1 - min(|z|, 1)` -/
theorem hat_eq (z : Rat) : 1 - min (Rat.abs z) 1 = max 0 (1 - max z (-z)) := by
  rw [ratAbs_eq, abs_eq_max_neg]
  simp only [min_def, max_def]; split_ifs <;> linarith

theorem hat_nonneg (z : Rat) : 0 ≤ 1 - min (Rat.abs z) 1 := by
  rw [hat_eq]; exact le_max_left _ _

theorem hatFrom_length (x : Rat) : ∀ (n i : Nat), (hatFrom x i n).length = n
  | 0, _ => rfl
  | n + 1, i => by simp [hatFrom, hatFrom_length x n (i + 1)]

theorem hatFrom_nonneg (x : Rat) : ∀ (n i : Nat), ∀ v ∈ hatFrom x i n, 0 ≤ v
  | 0, _ => by simp [hatFrom]
  | n + 1, i => by
    intro v hv
    simp only [hatFrom, List.mem_cons] at hv
    rcases hv with rfl | hv
    · exact hat_nonneg _
    · exact hatFrom_nonneg x n (i + 1) v hv

/-- everything to the right of `x + 1` has weight zero -/
theorem dot_hatFrom_left (x : Rat) : ∀ (k : List Rat) (n i : Nat), x + 1 ≤ (i : Rat) →
    dot (hatFrom x i n) k = 0
  | _, 0, _, _ => by simp [hatFrom, dot]
  | [], n + 1, _, _ => by simp [hatFrom, dot]
  | k0 :: ks, n + 1, i, h => by
    have ih := dot_hatFrom_left x ks n (i + 1) (by push_cast; linarith)
    simp only [hatFrom, dot, ih, hat_eq, add_zero]
    have : max 0 (1 - max ((i : Rat) - x) (-((i : Rat) - x))) = 0 := by
      simp only [max_def]; split_ifs <;> linarith
    rw [this, zero_mul]

/-- total weight: at most one, and at most the head hat once `x` is left of the first vertex -/
theorem rsum_hatFrom_le (x : Rat) : ∀ (n i : Nat),
    rsum (hatFrom x i n) ≤ 1 ∧ (x ≤ (i : Rat) → rsum (hatFrom x i n) ≤ max 0 (1 - ((i : Rat) - x)))
  | 0, i => by
    simp only [hatFrom, rsum]
    exact ⟨by norm_num, fun _ => le_max_left _ _⟩
  | n + 1, i => by
    obtain ⟨ih1, ih2⟩ := rsum_hatFrom_le x n (i + 1)
    simp only [hatFrom, rsum, hat_eq]
    push_cast at ih2
    by_cases h1 : x ≤ (i : Rat)
    · have ih2' := ih2 (by linarith)
      have e : max 0 (1 - ((i : Rat) + 1 - x)) = 0 := by
        simp only [max_def]; split_ifs <;> linarith
      rw [e] at ih2'
      have e2 : max 0 (1 - max ((i : Rat) - x) (-((i : Rat) - x))) = max 0 (1 - ((i : Rat) - x)) := by
        simp only [max_def]; split_ifs <;> linarith
      rw [e2]
      have hm : max 0 (1 - ((i : Rat) - x)) ≤ 1 := by
        simp only [max_def]; split_ifs <;> linarith
      exact ⟨by linarith, fun _ => by linarith⟩
    · refine ⟨?_, fun h => absurd h h1⟩
      by_cases h2 : x ≤ (i : Rat) + 1
      · have ih2' := ih2 h2
        have e : max 0 (1 - ((i : Rat) + 1 - x)) = x - i := by
          simp only [max_def]; split_ifs <;> linarith
        have e2 : max 0 (1 - max ((i : Rat) - x) (-((i : Rat) - x))) = 1 - (x - i) := by
          simp only [max_def]; split_ifs <;> linarith
        rw [e] at ih2'; rw [e2]; linarith
      · have e2 : max 0 (1 - max ((i : Rat) - x) (-((i : Rat) - x))) = 0 := by
          simp only [max_def]; split_ifs <;> linarith
        rw [e2]; linarith

/-- inside the first cell only the two end points carry weight -/
theorem dot_hatFrom_cell (x : Rat) (k0 k1 : Rat) (ks : List Rat) (n i : Nat)
    (h0 : (i : Rat) ≤ x) (h1 : x ≤ (i : Rat) + 1) :
    dot (hatFrom x i (n + 2)) (k0 :: k1 :: ks) = (1 - (x - i)) * k0 + (x - i) * k1 := by
  have hz := dot_hatFrom_left x ks n (i + 2) (by push_cast; linarith)
  simp only [hatFrom, dot, hat_eq]
  have hz' : dot (hatFrom x (i + 1 + 1) n) ks = 0 := hz
  rw [hz']
  have e0 : max 0 (1 - max ((i : Rat) - x) (-((i : Rat) - x))) = 1 - (x - i) := by
    simp only [max_def]; split_ifs <;> linarith
  have e1 : max 0 (1 - max (((i + 1 : Nat) : Rat) - x) (-(((i + 1 : Nat) : Rat) - x))) = x - i := by
    push_cast; simp only [max_def]; split_ifs <;> linarith
  rw [e0, e1]; ring

/-- left of the head vertex + 1 … right of it the head hat is zero -/
theorem dot_hatFrom_shift (x : Rat) (k0 : Rat) (ks : List Rat) (n i : Nat) (h : (i : Rat) + 1 ≤ x) :
    dot (hatFrom x i (n + 1)) (k0 :: ks) = dot (hatFrom x (i + 1) n) ks := by
  simp only [hatFrom, dot, hat_eq]
  have e0 : max 0 (1 - max ((i : Rat) - x) (-((i : Rat) - x))) = 0 := by
    simp only [max_def]; split_ifs <;> linarith
  rw [e0]; ring

/-- non-decreasing list (adjacent form) -/
def Nondec : List Rat → Prop
  | [] => True
  | [_] => True
  | x :: y :: r => x ≤ y ∧ Nondec (y :: r)

theorem Nondec.tail {x : Rat} {l : List Rat} (h : Nondec (x :: l)) : Nondec l := by
  cases l with
  | nil => trivial
  | cons y r => exact h.2

/-- L1: interpolation of a non-decreasing column is non-decreasing on the lattice range -/
theorem dot_hatFrom_mono : ∀ (k : List Rat) (i : Nat) (x y : Rat), Nondec k →
    (i : Rat) ≤ x → x ≤ y → y ≤ (i : Rat) + (k.length : Rat) - 1 →
    dot (hatFrom x i k.length) k ≤ dot (hatFrom y i k.length) k
  | [], _, _, _, _, _, _, _ => by simp [hatFrom, dot]
  | [k0], i, x, y, _, h0, hxy, h1 => by
    have : x = y := by simp at h1; linarith
    subst this; exact le_refl _
  | k0 :: k1 :: ks, i, x, y, hk, h0, hxy, h1 => by
    have hlen : (k0 :: k1 :: ks).length = ks.length + 2 := by simp
    have hlen1 : (k1 :: ks).length = ks.length + 1 := by simp
    have h1' : y ≤ ((i + 1 : Nat) : Rat) + ((k1 :: ks).length : Rat) - 1 := by
      simp only [List.length_cons] at h1 ⊢; push_cast at h1 ⊢; linarith
    -- three cases split at the vertex i+1
    by_cases hx : (i : Rat) + 1 ≤ x
    · have hy : (i : Rat) + 1 ≤ y := le_trans hx hxy
      rw [hlen, dot_hatFrom_shift x k0 (k1 :: ks) _ i hx, dot_hatFrom_shift y k0 (k1 :: ks) _ i hy]
      have := dot_hatFrom_mono (k1 :: ks) (i + 1) x y hk.2 (by push_cast; linarith) hxy h1'
      rwa [hlen1] at this
    · have hx' : x ≤ (i : Rat) + 1 := le_of_lt (not_le.mp hx)
      by_cases hy : y ≤ (i : Rat) + 1
      · rw [hlen, dot_hatFrom_cell x k0 k1 ks _ i h0 hx', dot_hatFrom_cell y k0 k1 ks _ i (le_trans h0 hxy) hy]
        have := hk.1
        nlinarith
      · have hy' : (i : Rat) + 1 ≤ y := le_of_lt (not_le.mp hy)
        -- through the vertex i+1
        have step1 : dot (hatFrom x i (ks.length + 2)) (k0 :: k1 :: ks) ≤
            dot (hatFrom ((i : Rat) + 1) i (ks.length + 2)) (k0 :: k1 :: ks) := by
          rw [dot_hatFrom_cell x k0 k1 ks _ i h0 hx', dot_hatFrom_cell _ k0 k1 ks _ i (by linarith) (le_refl _)]
          have := hk.1
          nlinarith
        have step2 : dot (hatFrom ((i : Rat) + 1) i (ks.length + 2)) (k0 :: k1 :: ks) ≤
            dot (hatFrom y i (ks.length + 2)) (k0 :: k1 :: ks) := by
          rw [dot_hatFrom_shift _ k0 (k1 :: ks) _ i (le_refl _), dot_hatFrom_shift y k0 (k1 :: ks) _ i hy']
          have := dot_hatFrom_mono (k1 :: ks) (i + 1) ((i : Rat) + 1) y hk.2 (by push_cast; linarith) hy' h1'
          rwa [hlen1] at this
        rw [hlen]; exact le_trans step1 step2

/-! ## one interpolated factor -/

def Nonneg (k : List Rat) : Prop := ∀ v ∈ k, 0 ≤ v

theorem dot_nonneg : ∀ (w k : List Rat), Nonneg w → Nonneg k → 0 ≤ dot w k
  | [], _, _, _ => by simp [dot]
  | _ :: _, [], _, _ => by simp [dot]
  | a :: w, b :: k, hw, hk => by
    have ih := dot_nonneg w k (fun v hv => hw v (List.mem_cons_of_mem _ hv))
      (fun v hv => hk v (List.mem_cons_of_mem _ hv))
    have ha := hw a (List.mem_cons_self ..)
    have hb := hk b (List.mem_cons_self ..)
    simp only [dot]; nlinarith [mul_nonneg ha hb]

theorem dot_smul_right : ∀ (w k : List Rat) (c : Rat), dot w (k.map (c * ·)) = c * dot w k
  | [], k, c => by simp [dot]
  | a :: w, [], c => by simp [dot]
  | a :: w, b :: k, c => by
    have := dot_smul_right w k c
    simp only [dot, List.map_cons] at *
    rw [this]; ring

theorem maxAbs_nonneg : ∀ k : List Rat, 0 ≤ maxAbs k
  | [] => le_refl _
  | _ :: xs => le_trans (maxAbs_nonneg xs) (le_max_right _ _)

theorem rsum_nonneg : ∀ w : List Rat, Nonneg w → 0 ≤ rsum w
  | [], _ => by simp [rsum]
  | a :: w, hw => by
    have h1 := rsum_nonneg w (fun v hv => hw v (List.mem_cons_of_mem _ hv))
    have h2 := hw a (List.mem_cons_self ..)
    simp only [rsum]; linarith

theorem abs_dot_le : ∀ (w k : List Rat), Nonneg w → |dot w k| ≤ maxAbs k * rsum w
  | [], k, _ => by simp [dot, rsum]
  | a :: w, [], hw => by
    have := rsum_nonneg (a :: w) hw
    simp [dot, maxAbs]
  | a :: w, b :: k, hw => by
    have ih := abs_dot_le w k (fun v hv => hw v (List.mem_cons_of_mem _ hv))
    have ha := hw a (List.mem_cons_self ..)
    have hsum : 0 ≤ rsum w := rsum_nonneg w (fun v hv => hw v (List.mem_cons_of_mem _ hv))
    simp only [dot, maxAbs, rsum, ratAbs_eq]
    have hb : |b| ≤ max |b| (maxAbs k) := le_max_left _ _
    have hk : maxAbs k ≤ max |b| (maxAbs k) := le_max_right _ _
    have hM : 0 ≤ max |b| (maxAbs k) := le_trans (abs_nonneg b) hb
    calc |a * b + dot w k| ≤ |a * b| + |dot w k| := abs_add_le _ _
      _ ≤ a * max |b| (maxAbs k) + max |b| (maxAbs k) * rsum w := by
        rw [abs_mul, abs_of_nonneg ha]
        have := mul_le_mul_of_nonneg_left hb ha
        have := mul_le_mul_of_nonneg_right hk hsum
        linarith
      _ = max |b| (maxAbs k) * (a + rsum w) := by ring

/-- `InR`: the point is one the property speaks about — any point when `clip_inputs`, else in range -/
def InR (L : Nat) (clipI : Bool) (x : Rat) : Prop := clipI = true ∨ (0 ≤ x ∧ x ≤ (L : Rat) - 1)

theorem clipIn_range (L : Nat) (hL : 1 ≤ L) (c : Bool) (x : Rat) (h : InR L c x) :
    0 ≤ clipIn L c x ∧ clipIn L c x ≤ (L : Rat) - 1 := by
  have hL' : (1 : Rat) ≤ L := by exact_mod_cast hL
  unfold clipIn
  rcases h with h | h
  · simp only [h, if_true]
    refine ⟨le_min (le_max_right _ _) (by linarith), min_le_right _ _⟩
  · by_cases hc : c = true
    · simp only [hc, if_true]
      refine ⟨le_min (le_max_right _ _) (by linarith), min_le_right _ _⟩
    · simp only [hc]; exact h

theorem clipIn_mono (L : Nat) (c : Bool) {x y : Rat} (h : x ≤ y) : clipIn L c x ≤ clipIn L c y := by
  unfold clipIn
  split
  · exact min_le_min (max_le_max h le_rfl) le_rfl
  · exact h

/-- on the lattice range the size-2 fast path is the hat formula -/
theorem interpWeights_eq (L : Nat) (x : Rat) (h0 : 0 ≤ x) (h1 : x ≤ (L : Rat) - 1) :
    interpWeights L x = hatFrom x 0 L := by
  unfold interpWeights
  split
  · rename_i h2; subst h2
    simp only [hatFrom, hat_eq]
    push_cast at h1 ⊢
    have e0 : max 0 (1 - max ((0 : Rat) - x) (-((0 : Rat) - x))) = 1 - x := by
      simp only [max_def]; split_ifs <;> linarith
    have e1 : max 0 (1 - max ((1 : Rat) - x) (-((1 : Rat) - x))) = x := by
      simp only [max_def]; split_ifs <;> linarith
    rw [e0, e1]
  · rfl

theorem interp1_nonneg (L : Nat) (hL : 1 ≤ L) (c : Bool) (x : Rat) (k : List Rat) (hx : InR L c x)
    (hk : Nonneg k) : 0 ≤ interp1 L c x k := by
  obtain ⟨h0, h1⟩ := clipIn_range L hL c x hx
  unfold interp1
  rw [interpWeights_eq L _ h0 h1]
  exact dot_nonneg _ _ (hatFrom_nonneg _ _ _) hk

theorem abs_interp1_le (L : Nat) (hL : 1 ≤ L) (c : Bool) (x : Rat) (k : List Rat) (hx : InR L c x) :
    |interp1 L c x k| ≤ maxAbs k := by
  obtain ⟨h0, h1⟩ := clipIn_range L hL c x hx
  unfold interp1
  rw [interpWeights_eq L _ h0 h1]
  have h := abs_dot_le (hatFrom (clipIn L c x) 0 L) k (hatFrom_nonneg _ _ _)
  have hs := (rsum_hatFrom_le (clipIn L c x) L 0).1
  have hm := maxAbs_nonneg k
  nlinarith

/-- L1 for one factor, in the direction `σ`: `σ·k` non-decreasing ⇒ `σ·interp` non-decreasing -/
theorem interp1_mono (L : Nat) (hL : 1 ≤ L) (c : Bool) (σ : Rat) (x y : Rat) (k : List Rat)
    (hlen : k.length = L) (hk : Nondec (k.map (σ * ·))) (hx : InR L c x) (hy : InR L c y) (hxy : x ≤ y) :
    σ * interp1 L c x k ≤ σ * interp1 L c y k := by
  obtain ⟨hx0, hx1⟩ := clipIn_range L hL c x hx
  obtain ⟨hy0, hy1⟩ := clipIn_range L hL c y hy
  unfold interp1
  rw [interpWeights_eq L _ hx0 hx1, interpWeights_eq L _ hy0 hy1, ← dot_smul_right, ← dot_smul_right]
  have hl : (k.map (σ * ·)).length = L := by simp [hlen]
  have := dot_hatFrom_mono (k.map (σ * ·)) 0 (clipIn L c x) (clipIn L c y) hk (by simpa using hx0)
    (clipIn_mono L c hxy) (by rw [hl]; push_cast; linarith)
  rwa [hl] at this

/-! ## one term, all terms -/

theorem termProd_cons (L : Nat) (c : Bool) (x : Rat) (xs : List Rat) (k : List Rat) (ks : List (List Rat)) :
    termProd L c (x :: xs) (k :: ks) = interp1 L c x k * termProd L c xs ks := by
  simp [termProd, termFactors, rprod]
theorem termProd_nil_left (L : Nat) (c : Bool) (kt : List (List Rat)) : termProd L c [] kt = 1 := by
  simp [termProd, termFactors, rprod]
theorem termProd_nil_right (L : Nat) (c : Bool) (xs : List Rat) : termProd L c xs [] = 1 := by
  simp [termProd, termFactors, rprod]

def AllNonneg (kt : List (List Rat)) : Prop := ∀ k ∈ kt, Nonneg k

theorem termProd_nonneg (L : Nat) (hL : 1 ≤ L) (c : Bool) : ∀ (xs : List Rat) (kt : List (List Rat)),
    (∀ x ∈ xs, InR L c x) → AllNonneg kt → 0 ≤ termProd L c xs kt
  | [], kt, _, _ => by rw [termProd_nil_left]; norm_num
  | _ :: _, [], _, _ => by rw [termProd_nil_right]; norm_num
  | x :: xs, k :: ks, hx, hk => by
    rw [termProd_cons]
    exact mul_nonneg
      (interp1_nonneg L hL c x k (hx x (List.mem_cons_self ..)) (hk k (List.mem_cons_self ..)))
      (termProd_nonneg L hL c xs ks (fun v hv => hx v (List.mem_cons_of_mem _ hv))
        (fun v hv => hk v (List.mem_cons_of_mem _ hv)))

/-- premises of T1 for one term in direction `σ = sign(scale_t)`: every column non-negative,
`σ·column` non-decreasing (and of full length) on the monotone dimensions. Also says that
`monotonicities` has one entry per dimension. -/
def DimsOk (L : Nat) (σ : Rat) : List Bool → List (List Rat) → Prop
  | [], [] => True
  | m :: ms, k :: ks => (Nonneg k ∧ (m = true → k.length = L ∧ Nondec (k.map (σ * ·)))) ∧ DimsOk L σ ms ks
  | _, _ => False

theorem DimsOk.allNonneg {L : Nat} {σ : Rat} : ∀ {ms : List Bool} {kt : List (List Rat)},
    DimsOk L σ ms kt → AllNonneg kt
  | [], [], _ => by intro k hk; simp at hk
  | _ :: ms, k :: ks, h => by
    intro k' hk'
    rcases List.mem_cons.mp hk' with rfl | hk'
    · exact h.1.1
    · exact DimsOk.allNonneg h.2 k' hk'
  | [], _ :: _, h => by simp [DimsOk] at h
  | _ :: _, [], h => by simp [DimsOk] at h

theorem sgn_cases (s : Rat) : (0 < s ∧ sgn s = 1) ∨ (s < 0 ∧ sgn s = -1) ∨ (s = 0 ∧ sgn s = 0) := by
  unfold sgn
  rcases lt_trichotomy 0 s with h | h | h
  · left; simp [h]
  · right; right; subst h; simp
  · right; left; simp [h, not_lt.mpr (le_of_lt h)]

theorem eq_abs_mul_sgn (s : Rat) : s = |s| * sgn s := by
  rcases sgn_cases s with ⟨h, e⟩ | ⟨h, e⟩ | ⟨h, e⟩
  · rw [e, abs_of_pos h]; ring
  · rw [e, abs_of_neg h]; ring
  · rw [e, h]; simp

/-- T1 for one term: moving ONE monotone coordinate up moves `scale_t · Π_d interp_d` up -/
theorem termProd_mono (L : Nat) (hL : 1 ≤ L) (c : Bool) (s : Rat) : ∀ (d : Nat) (ms : List Bool)
    (kt : List (List Rat)) (xs : List Rat) (y : Rat), DimsOk L (sgn s) ms kt → ms.getD d false = true →
    (∀ x ∈ xs, InR L c x) → InR L c y → getR xs d ≤ y →
    s * termProd L c xs kt ≤ s * termProd L c (xs.set d y) kt
  | _, _, _, [], _, _, _, _, _, _ => by simp
  | _, [], [], _ :: _, _, _, hm, _, _, _ => by simp at hm
  | _, [], _ :: _, _ :: _, _, h, _, _, _, _ => by simp [DimsOk] at h
  | _, _ :: _, [], _ :: _, _, h, _, _, _, _ => by simp [DimsOk] at h
  | 0, m :: ms, k :: ks, x :: xs, y, h, hm, hx, hy, hxy => by
    simp only [List.getD_cons_zero] at hm
    simp only [getR, List.getD_cons_zero] at hxy
    obtain ⟨hlen, hnd⟩ := h.1.2 hm
    have hP := termProd_nonneg L hL c xs ks (fun v hv => hx v (List.mem_cons_of_mem _ hv)) (DimsOk.allNonneg h.2)
    have hi := interp1_mono L hL c (sgn s) x y k hlen hnd (hx x (List.mem_cons_self ..)) hy hxy
    simp only [List.set_cons_zero, termProd_cons]
    have hs := eq_abs_mul_sgn s
    have habs := abs_nonneg s
    calc s * (interp1 L c x k * termProd L c xs ks)
        = (|s| * sgn s) * (interp1 L c x k * termProd L c xs ks) := by rw [← hs]
      _ = (|s| * termProd L c xs ks) * (sgn s * interp1 L c x k) := by ring
      _ ≤ (|s| * termProd L c xs ks) * (sgn s * interp1 L c y k) :=
          mul_le_mul_of_nonneg_left hi (mul_nonneg habs hP)
      _ = (|s| * sgn s) * (interp1 L c y k * termProd L c xs ks) := by ring
      _ = s * (interp1 L c y k * termProd L c xs ks) := by rw [← hs]
  | d + 1, m :: ms, k :: ks, x :: xs, y, h, hm, hx, hy, hxy => by
    simp only [List.getD_cons_succ] at hm
    simp only [getR, List.getD_cons_succ] at hxy
    have ih := termProd_mono L hL c s d ms ks xs y h.2 hm (fun v hv => hx v (List.mem_cons_of_mem _ hv)) hy hxy
    have hi := interp1_nonneg L hL c x k (hx x (List.mem_cons_self ..)) h.1.1
    simp only [List.set_cons_succ, termProd_cons]
    nlinarith [mul_le_mul_of_nonneg_left ih hi]

/-- premises of T1 for all terms of a unit (entries beyond the shorter list are never read) -/
def KernelOk (L : Nat) (ms : List Bool) : List Rat → List (List (List Rat)) → Prop
  | s :: ss, kt :: ks => DimsOk L (sgn s) ms kt ∧ KernelOk L ms ss ks
  | _, _ => True

theorem rsum_scaled_mono (L : Nat) (hL : 1 ≤ L) (c : Bool) (ms : List Bool) (d : Nat) (xs : List Rat) (y : Rat)
    (hm : ms.getD d false = true) (hx : ∀ x ∈ xs, InR L c x) (hy : InR L c y) (hxy : getR xs d ≤ y) :
    ∀ (scale : List Rat) (K : List (List (List Rat))), KernelOk L ms scale K →
    rsum (scaled L c xs scale K) ≤ rsum (scaled L c (xs.set d y) scale K)
  | [], _, _ => by simp [scaled, rsum]
  | _ :: _, [], _ => by simp [scaled, rsum]
  | s :: ss, kt :: ks, h => by
    have h1 := termProd_mono L hL c s d ms kt xs y h.1 hm hx hy hxy
    have h2 := rsum_scaled_mono L hL c ms d xs y hm hx hy hxy ss ks h.2
    simp only [scaled, rsum]; linarith

theorem eval_mono (L : Nat) (hL : 1 ≤ L) (c : Bool) (ms : List Bool) (d : Nat) (xs : List Rat) (y : Rat)
    (hm : ms.getD d false = true) (hx : ∀ x ∈ xs, InR L c x) (hy : InR L c y) (hxy : getR xs d ≤ y)
    (scale : List Rat) (K : List (List (List Rat))) (bias : Rat) (h : KernelOk L ms scale K) :
    eval L c K scale bias xs ≤ eval L c K scale bias (xs.set d y) := by
  unfold eval
  have := rsum_scaled_mono L hL c ms d xs y hm hx hy hxy scale K h
  have hT : (0 : Rat) ≤ (K.length : Rat) := by exact_mod_cast Nat.zero_le _
  have := div_le_div_of_nonneg_right this hT
  linarith

/-! ## bounds -/

theorem maxOutput_cons (k : List Rat) (ks : List (List Rat)) : maxOutput (k :: ks) = maxAbs k * maxOutput ks := by
  simp [maxOutput, rprod]

theorem maxOutput_nonneg : ∀ kt : List (List Rat), 0 ≤ maxOutput kt
  | [] => by simp [maxOutput, rprod]
  | k :: ks => by rw [maxOutput_cons]; exact mul_nonneg (maxAbs_nonneg k) (maxOutput_nonneg ks)

theorem abs_termProd_le (L : Nat) (hL : 1 ≤ L) (c : Bool) : ∀ (xs : List Rat) (kt : List (List Rat)),
    xs.length = kt.length → (∀ x ∈ xs, InR L c x) → |termProd L c xs kt| ≤ maxOutput kt
  | [], [], _, _ => by simp [termProd_nil_left, maxOutput, rprod]
  | [], _ :: _, h, _ => by simp at h
  | _ :: _, [], h, _ => by simp at h
  | x :: xs, k :: ks, h, hx => by
    have ih := abs_termProd_le L hL c xs ks (by simpa using h) (fun v hv => hx v (List.mem_cons_of_mem _ hv))
    have h1 := abs_interp1_le L hL c x k (hx x (List.mem_cons_self ..))
    rw [termProd_cons, maxOutput_cons, abs_mul]
    exact mul_le_mul h1 ih (abs_nonneg _) (maxAbs_nonneg k)

theorem abs_rsum_scaled_le (L : Nat) (c : Bool) (xs : List Rat) (B : Rat) (hB : 0 ≤ B) :
    ∀ (scale : List Rat) (K : List (List (List Rat))), (∀ s ∈ scale, |s| ≤ B) →
    (∀ kt ∈ K, |termProd L c xs kt| ≤ 1) → |rsum (scaled L c xs scale K)| ≤ B * (K.length : Rat)
  | [], K, _, _ => by
    have hT : (0 : Rat) ≤ (K.length : Rat) := by exact_mod_cast Nat.zero_le _
    simp only [scaled, rsum, abs_zero]; exact mul_nonneg hB hT
  | _ :: _, [], _, _ => by simp [scaled, rsum]
  | s :: ss, kt :: ks, hs, hk => by
    have ih := abs_rsum_scaled_le L c xs B hB ss ks (fun v hv => hs v (List.mem_cons_of_mem _ hv))
      (fun v hv => hk v (List.mem_cons_of_mem _ hv))
    have h1 := hs s (List.mem_cons_self ..)
    have h2 := hk kt (List.mem_cons_self ..)
    have h3 : |s * termProd L c xs kt| ≤ B := by
      rw [abs_mul]
      calc |s| * |termProd L c xs kt| ≤ B * 1 := mul_le_mul h1 h2 (abs_nonneg _) hB
        _ = B := mul_one B
    simp only [scaled, rsum, List.length_cons]
    push_cast
    calc |s * termProd L c xs kt + rsum (scaled L c xs ss ks)|
        ≤ |s * termProd L c xs kt| + |rsum (scaled L c xs ss ks)| := abs_add_le _ _
      _ ≤ B + B * (ks.length : Rat) := add_le_add h3 ih
      _ = B * ((ks.length : Rat) + 1) := by ring

theorem rsum_scaled_nonneg (L : Nat) (c : Bool) (xs : List Rat) :
    ∀ (scale : List Rat) (K : List (List (List Rat))), (∀ s ∈ scale, 0 ≤ s) →
    (∀ kt ∈ K, 0 ≤ termProd L c xs kt) → 0 ≤ rsum (scaled L c xs scale K)
  | [], _, _, _ => by simp [scaled, rsum]
  | _ :: _, [], _, _ => by simp [scaled, rsum]
  | s :: ss, kt :: ks, hs, hk => by
    have ih := rsum_scaled_nonneg L c xs ss ks (fun v hv => hs v (List.mem_cons_of_mem _ hv))
      (fun v hv => hk v (List.mem_cons_of_mem _ hv))
    have := mul_nonneg (hs s (List.mem_cons_self ..)) (hk kt (List.mem_cons_self ..))
    simp only [scaled, rsum]; linarith

theorem rsum_scaled_nonpos (L : Nat) (c : Bool) (xs : List Rat) :
    ∀ (scale : List Rat) (K : List (List (List Rat))), (∀ s ∈ scale, s ≤ 0) →
    (∀ kt ∈ K, 0 ≤ termProd L c xs kt) → rsum (scaled L c xs scale K) ≤ 0
  | [], _, _, _ => by simp [scaled, rsum]
  | _ :: _, [], _, _ => by simp [scaled, rsum]
  | s :: ss, kt :: ks, hs, hk => by
    have ih := rsum_scaled_nonpos L c xs ss ks (fun v hv => hs v (List.mem_cons_of_mem _ hv))
      (fun v hv => hk v (List.mem_cons_of_mem _ hv))
    have := mul_nonneg (neg_nonneg.mpr (hs s (List.mem_cons_self ..))) (hk kt (List.mem_cons_self ..))
    simp only [scaled, rsum]; linarith

/-- two-sided: `|scale_t| ≤ (hi-lo)/2`, `|Π_d interp| ≤ 1`, bias = midpoint ⇒ output in `[lo, hi]` -/
theorem eval_two_sided (L : Nat) (c : Bool) (xs : List Rat) (lo hi : Rat) (hlh : lo ≤ hi)
    (scale : List Rat) (K : List (List (List Rat))) (hs : ∀ s ∈ scale, |s| ≤ (hi - lo) / 2)
    (hk : ∀ kt ∈ K, |termProd L c xs kt| ≤ 1) :
    lo ≤ eval L c K scale ((lo + hi) / 2) xs ∧ eval L c K scale ((lo + hi) / 2) xs ≤ hi := by
  have hB : 0 ≤ (hi - lo) / 2 := by linarith
  have h := abs_rsum_scaled_le L c xs _ hB scale K hs hk
  unfold eval
  have hq : |rsum (scaled L c xs scale K) / (K.length : Rat)| ≤ (hi - lo) / 2 := by
    rcases Nat.eq_zero_or_pos K.length with h0 | h0
    · rw [h0]; simpa using hB
    · have hT : (0 : Rat) < (K.length : Rat) := by exact_mod_cast h0
      rw [abs_div, abs_of_pos hT, div_le_iff₀ hT]; exact h
  obtain ⟨h1, h2⟩ := abs_le.mp hq
  constructor <;> linarith

/-! ## the sweeps of `_approximately_project_monotonicity` -/

def AllP (P : Rat → Prop) (l : List Rat) : Prop := ∀ v ∈ l, P v

theorem AllP.tail {P : Rat → Prop} {x : Rat} {l : List Rat} (h : AllP P (x :: l)) : AllP P l :=
  fun v hv => h v (List.mem_cons_of_mem _ hv)
theorem AllP.head {P : Rat → Prop} {x : Rat} {l : List Rat} (h : AllP P (x :: l)) : P x :=
  h x (List.mem_cons_self ..)
theorem AllP.cons {P : Rat → Prop} {x : Rat} {l : List Rat} (hx : P x) (h : AllP P l) : AllP P (x :: l) := by
  intro v hv
  rcases List.mem_cons.mp hv with rfl | hv
  · exact hx
  · exact h v hv

theorem cummaxFrom_length : ∀ (l : List Rat) (m : Rat), (cummaxFrom m l).length = l.length
  | [], _ => rfl
  | x :: xs, m => by simp [cummaxFrom, cummaxFrom_length xs]
theorem cummax_length (l : List Rat) : (cummax l).length = l.length := by
  cases l <;> simp [cummax, cummaxFrom_length]
theorem half_length (l : List Rat) : (half l).length = l.length := by
  simp [half, cummax_length]
theorem cumminBack_length : ∀ l : List Rat, (cumminBack l).length = l.length
  | [] => rfl
  | x :: xs => by
    have ih := cumminBack_length xs
    simp only [cumminBack]
    cases h : cumminBack xs with
    | nil => rw [h] at ih; simp only [List.length_nil, List.length_cons] at ih ⊢; omega
    | cons y ys => rw [h] at ih; simp only [List.length_cons] at ih ⊢; omega
theorem monoProj1_length (l : List Rat) : (monoProj1 l).length = l.length := by
  simp [monoProj1, cumminBack_length, half_length]

/-- the backward min sweep always ends non-decreasing: the monotonicity T2 needs -/
theorem cumminBack_nondec : ∀ l : List Rat, Nondec (cumminBack l)
  | [] => trivial
  | x :: xs => by
    have ih := cumminBack_nondec xs
    simp only [cumminBack]
    cases h : cumminBack xs with
    | nil => trivial
    | cons y ys => rw [h] at ih; exact ⟨min_le_right _ _, ih⟩

theorem cummaxFrom_allP {P : Rat → Prop} (hP : Closed P) : ∀ (l : List Rat) (m : Rat), P m → AllP P l →
    AllP P (cummaxFrom m l)
  | [], _, _, _ => by intro v hv; simp [cummaxFrom] at hv
  | x :: xs, m, hm, h => by
    have hx := hP.max x m h.head hm
    exact AllP.cons hx (cummaxFrom_allP hP xs _ hx h.tail)
theorem cummax_allP {P : Rat → Prop} (hP : Closed P) (l : List Rat) (h : AllP P l) : AllP P (cummax l) := by
  cases l with
  | nil => exact h
  | cons x xs => exact AllP.cons h.head (cummaxFrom_allP hP xs x h.head h.tail)

theorem zipAvg_allP {P : Rat → Prop} (hP : Closed P) : ∀ (a b : List Rat), AllP P a → AllP P b →
    AllP P (List.zipWith (fun a b => (a + b) / 2) a b)
  | [], _, _, _ => by intro v hv; simp at hv
  | _ :: _, [], _, _ => by intro v hv; simp at hv
  | x :: xs, y :: ys, ha, hb => by
    have := hP.conv (1 / 2) x y (by norm_num) (by norm_num) ha.head hb.head
    have e : (1 / 2 : Rat) * x + (1 - 1 / 2) * y = (x + y) / 2 := by ring
    rw [e] at this
    exact AllP.cons this (zipAvg_allP hP xs ys ha.tail hb.tail)

theorem cumminBack_allP {P : Rat → Prop} (hP : Closed P) : ∀ l : List Rat, AllP P l → AllP P (cumminBack l)
  | [], h => h
  | x :: xs, h => by
    have ih := cumminBack_allP hP xs h.tail
    simp only [cumminBack]
    cases e : cumminBack xs with
    | nil => exact AllP.cons h.head (by intro v hv; simp at hv)
    | cons y ys =>
      rw [e] at ih
      exact AllP.cons (hP.min x y h.head ih.head) ih

theorem monoProj1_allP {P : Rat → Prop} (hP : Closed P) (l : List Rat) (h : AllP P l) : AllP P (monoProj1 l) :=
  cumminBack_allP hP _ (zipAvg_allP hP _ _ h (cummax_allP hP l h))

theorem nondec_map_const (c : Rat) : ∀ l : List Rat, Nondec (l.map (fun _ => c))
  | [] => trivial
  | [_] => trivial
  | _ :: y :: r => ⟨le_refl _, nondec_map_const c (y :: r)⟩

theorem nondec_map_div (r : Rat) (hr : 0 ≤ r) : ∀ l : List Rat, Nondec l → Nondec (l.map (· / r))
  | [], _ => trivial
  | [_], _ => trivial
  | _ :: y :: l, h => ⟨div_le_div_of_nonneg_right h.1 hr, nondec_map_div r hr (y :: l) h.2⟩

/-- one dimension of one term after the projection: still non-negative, and `sign(scale)·column`
non-decreasing if the dimension is monotone -/
theorem projectDim_ok (s : Rat) (m : Bool) (k : List Rat) (hk : Nonneg k) :
    Nonneg (projectDim (sgn s) m k) ∧ (projectDim (sgn s) m k).length = k.length ∧
    (m = true → Nondec ((projectDim (sgn s) m k).map (sgn s * ·))) := by
  unfold projectDim
  rcases sgn_cases s with ⟨_, e⟩ | ⟨_, e⟩ | ⟨_, e⟩ <;> rw [e]
  · simp only [one_mul, List.map_id']
    refine ⟨?_, ?_, ?_⟩
    · split
      · exact monoProj1_allP (closed_ge 0) k hk
      · exact hk
    · split <;> simp [monoProj1_length]
    · intro hm; simp only [hm, if_true]; exact cumminBack_nondec _
  · have hv : AllP (fun x => x ≤ 0) (k.map (-1 * ·)) := by
      intro v hv; simp only [List.mem_map] at hv
      obtain ⟨a, ha, rfl⟩ := hv
      have := hk a ha; linarith
    refine ⟨?_, ?_, ?_⟩
    · intro v hv; simp only [List.mem_map] at hv
      obtain ⟨a, ha, rfl⟩ := hv
      have : a ≤ 0 := by
        split at ha
        · exact monoProj1_allP (closed_le 0) _ hv a ha
        · exact hv a ha
      linarith
    · split <;> simp [monoProj1_length]
    · intro hm; simp only [hm, if_true, List.map_map]
      have : ((fun x => -1 * x) ∘ fun x => -1 * x) = (id : Rat → Rat) := by funext x; simp
      rw [this, List.map_id]; exact cumminBack_nondec _
  · refine ⟨?_, ?_, ?_⟩
    · intro v hv; simp only [List.mem_map] at hv
      obtain ⟨a, _, rfl⟩ := hv; simp
    · split <;> simp [monoProj1_length]
    · intro _; simp only [List.map_map]
      have : ((fun x => (0 : Rat) * x) ∘ fun x => (0 : Rat) * x) = fun _ => (0 : Rat) := by funext x; simp
      rw [this]; exact nondec_map_const 0 _

/-! ## finalize_weight_constraints for one (unit, term) -/

/-- shape of one term's kernel: one column of `L` vertices per entry of `monotonicities` -/
def TermShape (L : Nat) (ms : List Bool) (kt : List (List Rat)) : Prop :=
  kt.length = ms.length ∧ ∀ k ∈ kt, k.length = L

theorem clipNonneg_allNonneg (kt : List (List Rat)) : AllNonneg (clipNonneg kt) := by
  intro k hk v hv
  simp only [clipNonneg, List.mem_map] at hk
  obtain ⟨k0, _, rfl⟩ := hk
  simp only [List.mem_map] at hv
  obtain ⟨a, _, rfl⟩ := hv
  exact le_max_right _ _

theorem clipNonneg_of_allNonneg : ∀ (kt : List (List Rat)), AllNonneg kt → clipNonneg kt = kt
  | [], _ => rfl
  | k :: ks, h => by
    have ih := clipNonneg_of_allNonneg ks (fun k' hk' => h k' (List.mem_cons_of_mem _ hk'))
    have hk : k.map (max · 0) = k := by
      have := h k (List.mem_cons_self ..)
      clear ih h
      induction k with
      | nil => rfl
      | cons a k ihk =>
        simp only [List.map_cons]
        rw [ihk (fun v hv => this v (List.mem_cons_of_mem _ hv)), max_eq_left (this a (List.mem_cons_self ..))]
    simp only [clipNonneg, List.map_cons] at ih ⊢
    rw [ih, hk]

theorem clipNonneg_shape (L : Nat) (ms : List Bool) (kt : List (List Rat)) (h : TermShape L ms kt) :
    TermShape L ms (clipNonneg kt) := by
  refine ⟨by simp [clipNonneg, h.1], ?_⟩
  intro k hk
  simp only [clipNonneg, List.mem_map] at hk
  obtain ⟨k0, hk0, rfl⟩ := hk
  simp [h.2 k0 hk0]

theorem projectMono_ok (L : Nat) (s : Rat) : ∀ (ms : List Bool) (kt : List (List Rat)),
    TermShape L ms kt → AllNonneg kt → DimsOk L (sgn s) ms (projectMono ms s kt)
  | [], [], _, _ => by simp [projectMono, DimsOk]
  | [], _ :: _, h, _ => by simp [TermShape] at h
  | _ :: _, [], h, _ => by simp [TermShape] at h
  | m :: ms, k :: ks, h, hn => by
    have hsh : TermShape L ms ks := ⟨by simpa using h.1, fun k' hk' => h.2 k' (List.mem_cons_of_mem _ hk')⟩
    have ih := projectMono_ok L s ms ks hsh (fun k' hk' => hn k' (List.mem_cons_of_mem _ hk'))
    obtain ⟨h1, h2, h3⟩ := projectDim_ok s m k (hn k (List.mem_cons_self ..))
    simp only [projectMono, List.zipWith_cons_cons, DimsOk] at ih ⊢
    exact ⟨⟨h1, fun hm => ⟨by rw [h2]; exact h.2 k (List.mem_cons_self ..), h3 hm⟩⟩, ih⟩

theorem dimsOk_scaleDown (L : Nat) (σ r : Rat) (hr : 0 < r) : ∀ (ms : List Bool) (kt : List (List Rat)),
    DimsOk L σ ms kt → DimsOk L σ ms (scaleDown r kt)
  | [], [], _ => by simp [scaleDown, DimsOk]
  | [], _ :: _, h => by simp [DimsOk] at h
  | _ :: _, [], h => by simp [DimsOk] at h
  | m :: ms, k :: ks, h => by
    have ih := dimsOk_scaleDown L σ r hr ms ks h.2
    simp only [scaleDown, List.map_cons, DimsOk] at ih ⊢
    refine ⟨⟨?_, fun hm => ⟨by simpa using (h.1.2 hm).1, ?_⟩⟩, ih⟩
    · intro v hv; simp only [List.mem_map] at hv
      obtain ⟨a, ha, rfl⟩ := hv
      exact div_nonneg (h.1.1 a ha) (le_of_lt hr)
    · have := nondec_map_div r (le_of_lt hr) _ (h.1.2 hm).2
      simp only [List.map_map] at this ⊢
      have e : ((fun x => σ * x) ∘ fun x => x / r) = ((fun x => x / r) ∘ fun x => σ * x) := by
        funext x; simp [mul_div_assoc]
      rw [e]; exact this

theorem maxAbs_map_div (r : Rat) (hr : 0 < r) : ∀ k : List Rat, maxAbs (k.map (· / r)) = maxAbs k / r
  | [] => by simp [maxAbs]
  | x :: xs => by
    simp only [List.map_cons, maxAbs, maxAbs_map_div r hr xs, ratAbs_eq, abs_div, abs_of_pos hr]
    exact max_div_div_right (le_of_lt hr) _ _

theorem maxOutput_scaleDown (r : Rat) (hr : 0 < r) : ∀ kt : List (List Rat),
    maxOutput (scaleDown r kt) = maxOutput kt / rpow r kt.length
  | [] => by simp [scaleDown, maxOutput, rprod, rpow]
  | k :: ks => by
    have ih := maxOutput_scaleDown r hr ks
    simp only [scaleDown, List.map_cons] at ih ⊢
    rw [maxOutput_cons, maxOutput_cons, ih, maxAbs_map_div r hr]
    simp only [List.length_cons, rpow]
    rw [div_mul_div_comm]

theorem rootOk_iff (r : Rat) (kt : List (List Rat)) :
    rootOk r kt = true ↔ 1 ≤ r ∧ fullFactor kt ≤ rpow r kt.length := by
  simp [rootOk]

theorem rpow_pos (r : Rat) (hr : 0 < r) : ∀ n, 0 < rpow r n
  | 0 => by simp [rpow]
  | n + 1 => by simp only [rpow]; exact mul_pos hr (rpow_pos r hr n)

/-- the root-factor division brings the largest product down to at most one -/
theorem maxOutput_scaleDown_le (r : Rat) (kt : List (List Rat)) (h : rootOk r kt = true) :
    maxOutput (scaleDown r kt) ≤ 1 := by
  obtain ⟨h1, h2⟩ := (rootOk_iff r kt).mp h
  have hr : 0 < r := by linarith
  rw [maxOutput_scaleDown r hr, div_le_one (rpow_pos r hr _)]
  exact le_trans (le_max_left _ _) h2

/-- `DimsOk` for direction `σ` gives `DimsOk` for direction `0` (a scale clipped to zero) -/
theorem dimsOk_zero (L : Nat) (σ : Rat) : ∀ (ms : List Bool) (kt : List (List Rat)),
    DimsOk L σ ms kt → DimsOk L 0 ms kt
  | [], [], _ => by simp [DimsOk]
  | [], _ :: _, h => by simp [DimsOk] at h
  | _ :: _, [], h => by simp [DimsOk] at h
  | m :: ms, k :: ks, h => by
    simp only [DimsOk] at h ⊢
    refine ⟨⟨h.1.1, fun hm => ⟨(h.1.2 hm).1, ?_⟩⟩, dimsOk_zero L σ ms ks h.2⟩
    have : (fun x : Rat => (0 : Rat) * x) = fun _ => (0 : Rat) := by funext x; simp
    rw [this]; exact nondec_map_const 0 k

/-! ## per-term result of `finalize_weight_constraints` -/

/-- bound-side premise on one term's kernel -/
def TermBoundOk (lo hi : Option Rat) (kt : List (List Rat)) : Prop :=
  match lo, hi with
  | none, none => True
  | some _, some _ => maxOutput kt ≤ 1
  | _, _ => AllNonneg kt

/-- what the harness/driver check about the factor of each term: shape + `rootOk` when two-sided -/
def TermValid (L : Nat) (ms : List Bool) (lo hi : Option Rat) (s r : Rat) (kt : List (List Rat)) : Prop :=
  TermShape L ms kt ∧ (lo.isSome = true → hi.isSome = true → rootOk r (monoStage ms s kt) = true)

theorem finalizeWeightTerm_dimsOk (L : Nat) (ms : List Bool) (lo hi : Option Rat) (s r : Rat)
    (kt : List (List Rat)) (hv : TermValid L ms lo hi s r kt) (hany : ms.any id = true) :
    DimsOk L (sgn s) ms (finalizeWeightTerm ms lo hi s r kt) := by
  have h1 : DimsOk L (sgn s) ms (monoStage ms s kt) := by
    unfold monoStage; rw [if_pos hany]
    exact projectMono_ok L s ms _ (clipNonneg_shape L ms kt hv.1) (clipNonneg_allNonneg kt)
  unfold finalizeWeightTerm
  simp only
  cases lo <;> cases hi <;> simp only [Option.isSome, Bool.or_false, Bool.or_true, Bool.false_eq_true, if_false, if_true, projectBounds]
  · exact h1
  · rw [clipNonneg_of_allNonneg _ (DimsOk.allNonneg h1)]; exact h1
  · rw [clipNonneg_of_allNonneg _ (DimsOk.allNonneg h1)]; exact h1
  · have hr := (rootOk_iff _ _).mp (hv.2 rfl rfl)
    exact dimsOk_scaleDown L _ r (by linarith [hr.1]) ms _ h1

theorem finalizeWeightTerm_boundOk (L : Nat) (ms : List Bool) (lo hi : Option Rat) (s r : Rat)
    (kt : List (List Rat)) (hv : TermValid L ms lo hi s r kt) :
    TermBoundOk lo hi (finalizeWeightTerm ms lo hi s r kt) := by
  unfold finalizeWeightTerm TermBoundOk
  simp only
  cases lo <;> cases hi <;> simp only [Option.isSome, Bool.or_false, Bool.or_true, Bool.false_eq_true, if_false, if_true, projectBounds]
  · exact clipNonneg_allNonneg _
  · exact clipNonneg_allNonneg _
  · exact maxOutput_scaleDown_le r _ (hv.2 rfl rfl)

/-! ## all terms of a unit; the two constraint objects -/

def BoundOkK (lo hi : Option Rat) (K : List (List (List Rat))) : Prop := ∀ kt ∈ K, TermBoundOk lo hi kt

/-- kernel-side premises, relative to the scale the layer is evaluated with -/
def KOk (L : Nat) (ms : List Bool) (lo hi : Option Rat) (st : State) : Prop :=
  (ms.any id = true → KernelOk L ms st.scale st.K) ∧ BoundOkK lo hi st.K

/-- scale-side premises -/
def SOk (lo hi : Option Rat) (scale : List Rat) : Prop :=
  match lo, hi with
  | none, none => True
  | some l, some h => ∀ s ∈ scale, |s| ≤ (h - l) / 2
  | some _, none => ∀ s ∈ scale, 0 ≤ s
  | none, some _ => ∀ s ∈ scale, s ≤ 0

/-- validity of the data a kernel-constraint call sees: shapes, one factor per term, `rootOk` -/
def RootsOk (L : Nat) (ms : List Bool) (lo hi : Option Rat) :
    List Rat → List Rat → List (List (List Rat)) → Prop
  | s :: ss, r :: rs, kt :: ks => TermValid L ms lo hi s r kt ∧ RootsOk L ms lo hi ss rs ks
  | [], [], [] => True
  | _, _, _ => False

theorem finalizeWeight_ok (L : Nat) (ms : List Bool) (lo hi : Option Rat) :
    ∀ (scale rs : List Rat) (K : List (List (List Rat))), RootsOk L ms lo hi scale rs K →
    (ms.any id = true → KernelOk L ms scale (finalizeWeight ms lo hi scale rs K)) ∧
    BoundOkK lo hi (finalizeWeight ms lo hi scale rs K)
  | [], [], [], _ => by
    refine ⟨fun _ => by simp [finalizeWeight, KernelOk], ?_⟩
    intro kt hkt; simp [finalizeWeight] at hkt
  | s :: ss, r :: rs, kt :: ks, h => by
    obtain ⟨ih1, ih2⟩ := finalizeWeight_ok L ms lo hi ss rs ks h.2
    refine ⟨fun hany => ?_, ?_⟩
    · simp only [finalizeWeight, KernelOk]
      exact ⟨finalizeWeightTerm_dimsOk L ms lo hi s r kt h.1 hany, ih1 hany⟩
    · intro kt' hkt'
      simp only [finalizeWeight, List.mem_cons] at hkt'
      rcases hkt' with rfl | hkt'
      · exact finalizeWeightTerm_boundOk L ms lo hi s r kt h.1
      · exact ih2 kt' hkt'
  | [], [], _ :: _, h => by simp [RootsOk] at h
  | [], _ :: _, _, h => by simp [RootsOk] at h
  | _ :: _, [], _, h => by simp [RootsOk] at h
  | _ :: _, _ :: _, [], h => by simp [RootsOk] at h

/-- T4 core: the constraint OBJECT (guard included) establishes the kernel-side premises for every
configuration — also when no dimension is monotone, also when nothing is configured -/
theorem kernelConstraint_ok (L : Nat) (ms : List Bool) (lo hi : Option Rat) (st : State) (rs : List Rat)
    (h : RootsOk L ms lo hi st.scale rs st.K) :
    KOk L ms lo hi { st with K := kernelConstraint ms lo hi st.scale rs st.K } := by
  unfold kernelConstraint KOk
  by_cases hg : (ms.any id || lo.isSome || hi.isSome) = true
  · simp only [hg, if_true]
    exact finalizeWeight_ok L ms lo hi st.scale rs st.K h
  · simp only [hg]
    simp only [Bool.or_eq_true, not_or, Bool.not_eq_true] at hg
    obtain ⟨⟨h1, h2⟩, h3⟩ := hg
    refine ⟨fun hany => (by rw [h1] at hany; cases hany), ?_⟩
    cases lo <;> cases hi <;> simp at h2 h3
    intro kt _; trivial

theorem finalizeScale1_sign (lo hi : Option Rat) (hlh : ∀ l h, lo = some l → hi = some h → l ≤ h) (s : Rat) :
    finalizeScale1 lo hi s = 0 ∨ sgn (finalizeScale1 lo hi s) = sgn s := by
  cases lo <;> cases hi
  · exact Or.inr rfl
  · show min s 0 = 0 ∨ sgn (min s 0) = sgn s
    rcases le_or_gt s 0 with h | h
    · right; rw [min_eq_left h]
    · left; exact min_eq_right (le_of_lt h)
  · show max s 0 = 0 ∨ sgn (max s 0) = sgn s
    rcases le_or_gt 0 s with h | h
    · right; rw [max_eq_left h]
    · left; exact max_eq_right (le_of_lt h)
  · rename_i l h
    show min (max s (-((h - l) / 2))) ((h - l) / 2) = 0 ∨ sgn (min (max s (-((h - l) / 2))) ((h - l) / 2)) = sgn s
    have hb : 0 ≤ (h - l) / 2 := by have := hlh l h rfl rfl; linarith
    rcases sgn_cases s with ⟨hs, e⟩ | ⟨hs, e⟩ | ⟨hs, e⟩
    · rcases eq_or_lt_of_le hb with h0 | h0
      · left; rw [← h0]; simp only [neg_zero, min_def, max_def]; split_ifs <;> linarith
      · right; rw [e]; unfold sgn
        have : 0 < min (max s (-((h - l) / 2))) ((h - l) / 2) := lt_min (lt_max_of_lt_left hs) h0
        simp [this]
    · rcases eq_or_lt_of_le hb with h0 | h0
      · left; rw [← h0]; simp only [neg_zero, min_def, max_def]; split_ifs <;> linarith
      · right; rw [e]; unfold sgn
        have h1 : min (max s (-((h - l) / 2))) ((h - l) / 2) < 0 :=
          lt_of_le_of_lt (min_le_left _ _) (max_lt hs (by linarith))
        simp [h1, not_lt.mpr (le_of_lt h1)]
    · left; rw [hs]; simp only [min_def, max_def]; split_ifs <;> linarith

theorem sgn_zero : sgn 0 = 0 := by simp [sgn]

/-- T2 core: clipping the scale never invalidates what the kernel projection established -/
theorem kernelOk_scaleConstraint (L : Nat) (ms : List Bool) (lo hi : Option Rat)
    (hlh : ∀ l h, lo = some l → hi = some h → l ≤ h) :
    ∀ (scale : List Rat) (K : List (List (List Rat))), KernelOk L ms scale K →
    KernelOk L ms (scaleConstraint lo hi scale) K
  | [], _, _ => by unfold scaleConstraint; split <;> simp [finalizeScale, KernelOk]
  | _ :: _, [], _ => by unfold scaleConstraint; split <;> simp [finalizeScale, KernelOk]
  | s :: ss, kt :: ks, h => by
    have ih := kernelOk_scaleConstraint L ms lo hi hlh ss ks h.2
    unfold scaleConstraint at ih ⊢
    split
    · rename_i hg
      simp only [hg, if_true] at ih
      simp only [finalizeScale, List.map_cons, KernelOk] at ih ⊢
      refine ⟨?_, ih⟩
      rcases finalizeScale1_sign lo hi hlh s with h0 | h0
      · rw [h0, sgn_zero]; exact dimsOk_zero L _ ms kt h.1
      · rw [h0]; exact h.1
    · exact h

theorem scaleConstraint_sOk (lo hi : Option Rat) (hlh : ∀ l h, lo = some l → hi = some h → l ≤ h)
    (scale : List Rat) : SOk lo hi (scaleConstraint lo hi scale) := by
  unfold scaleConstraint SOk
  cases lo <;> cases hi <;> simp only [Option.isSome, Bool.or_false, Bool.or_true, Bool.false_eq_true, if_false, if_true]
  · intro s hs
    simp only [finalizeScale, List.mem_map] at hs
    obtain ⟨a, _, rfl⟩ := hs
    exact min_le_right _ _
  · intro s hs
    simp only [finalizeScale, List.mem_map] at hs
    obtain ⟨a, _, rfl⟩ := hs
    exact le_max_right _ _
  · rename_i l h
    have hb : 0 ≤ (h - l) / 2 := by have := hlh l h rfl rfl; linarith
    intro s hs
    simp only [finalizeScale, List.mem_map] at hs
    obtain ⟨a, _, rfl⟩ := hs
    simp only [finalizeScale1]
    rw [abs_le]
    constructor
    · exact le_min (le_max_right _ _) (by linarith)
    · exact min_le_right _ _

/-! ## histories -/

/-- a constrained tail: only constraint calls, each kernel-constraint call on valid data -/
def ValidRun (L : Nat) (ms : List Bool) (lo hi : Option Rat) : State → List Op → Prop
  | _, [] => True
  | st, .consK rs :: ops =>
    RootsOk L ms lo hi st.scale rs st.K ∧ ValidRun L ms lo hi (step ms lo hi st (.consK rs)) ops
  | st, .consS :: ops => ValidRun L ms lo hi (step ms lo hi st .consS) ops
  | _, _ => False

def HasConsK (ops : List Op) : Prop := ∃ rs, Op.consK rs ∈ ops

theorem run_kOk (L : Nat) (ms : List Bool) (lo hi : Option Rat)
    (hlh : ∀ l h, lo = some l → hi = some h → l ≤ h) : ∀ (ops : List Op) (st : State),
    ValidRun L ms lo hi st ops → (KOk L ms lo hi st ∨ HasConsK ops) → KOk L ms lo hi (runOps ms lo hi st ops)
  | [], st, _, h => by
    rcases h with h | ⟨rs, h⟩
    · exact h
    · simp at h
  | .consK rs :: ops, st, hv, _ => by
    have := kernelConstraint_ok L ms lo hi st rs hv.1
    exact run_kOk L ms lo hi hlh ops _ hv.2 (Or.inl this)
  | .consS :: ops, st, hv, h => by
    refine run_kOk L ms lo hi hlh ops _ hv ?_
    rcases h with h | ⟨rs, h⟩
    · left
      exact ⟨fun hany => kernelOk_scaleConstraint L ms lo hi hlh st.scale st.K (h.1 hany), h.2⟩
    · right
      rcases List.mem_cons.mp h with h | h
      · cases h
      · exact ⟨rs, h⟩
  | .assignK _ :: _, _, hv, _ => by simp [ValidRun] at hv
  | .assignS _ :: _, _, hv, _ => by simp [ValidRun] at hv

theorem run_sOk (L : Nat) (ms : List Bool) (lo hi : Option Rat)
    (hlh : ∀ l h, lo = some l → hi = some h → l ≤ h) : ∀ (ops : List Op) (st : State),
    ValidRun L ms lo hi st ops → (SOk lo hi st.scale ∨ Op.consS ∈ ops) →
    SOk lo hi (runOps ms lo hi st ops).scale
  | [], st, _, h => by
    rcases h with h | h
    · exact h
    · simp at h
  | .consK rs :: ops, st, hv, h => by
    refine run_sOk L ms lo hi hlh ops _ hv.2 ?_
    rcases h with h | h
    · left; exact h
    · right
      rcases List.mem_cons.mp h with h | h
      · cases h
      · exact h
  | .consS :: ops, st, hv, _ =>
    run_sOk L ms lo hi hlh ops _ hv (Or.inl (scaleConstraint_sOk lo hi hlh st.scale))
  | .assignK _ :: _, _, hv, _ => by simp [ValidRun] at hv
  | .assignS _ :: _, _, hv, _ => by simp [ValidRun] at hv

/-! ## arbitrary runs: raw updates and constraint calls in ANY interleaving

`ValidRun` above only allows pure constraint runs. `RunValid` allows every run; the bookkeeping
`Track` (Model/Kfl.lean) says what the run leaves behind. -/

/-- the op is a constraint call (not a raw update) -/
def Op.isCons : Op → Bool
  | .consK _ => true
  | .consS => true
  | _ => false

/-- every kernel-constraint call of the run sees valid data (shapes, one factor per term, `rootOk`);
raw updates are unrestricted -/
def RunValid (L : Nat) (ms : List Bool) (lo hi : Option Rat) : State → List Op → Prop
  | _, [] => True
  | st, .consK rs :: ops =>
    RootsOk L ms lo hi st.scale rs st.K ∧ RunValid L ms lo hi (step ms lo hi st (.consK rs)) ops
  | st, .consS :: ops => RunValid L ms lo hi (step ms lo hi st .consS) ops
  | st, .assignK K :: ops => RunValid L ms lo hi (step ms lo hi st (.assignK K)) ops
  | st, .assignS s :: ops => RunValid L ms lo hi (step ms lo hi st (.assignS s)) ops

/-- EXACTLY which runs `ValidRun` (hence the theorems stated with it) covers: the runs without any
raw update whose kernel-constraint calls see valid data -/
theorem validRun_iff (L : Nat) (ms : List Bool) (lo hi : Option Rat) : ∀ (ops : List Op) (st : State),
    ValidRun L ms lo hi st ops ↔ (∀ op ∈ ops, Op.isCons op = true) ∧ RunValid L ms lo hi st ops
  | [], _ => by simp [ValidRun, RunValid]
  | .consK rs :: ops, st => by
    have ih := validRun_iff L ms lo hi ops (step ms lo hi st (.consK rs))
    simp only [ValidRun, RunValid, List.mem_cons, forall_eq_or_imp, Op.isCons, true_and, ih]
    tauto
  | .consS :: ops, st => by
    have ih := validRun_iff L ms lo hi ops (step ms lo hi st .consS)
    simp only [ValidRun, RunValid, List.mem_cons, forall_eq_or_imp, Op.isCons, true_and, ih]
  | .assignK K :: ops, st => by
    simp [ValidRun, Op.isCons]
  | .assignS s :: ops, st => by
    simp [ValidRun, Op.isCons]

theorem runOps_append (ms : List Bool) (lo hi : Option Rat) (st : State) (a b : List Op) :
    runOps ms lo hi st (a ++ b) = runOps ms lo hi (runOps ms lo hi st a) b := by
  simp [runOps, List.foldl_append]

theorem runValid_append (L : Nat) (ms : List Bool) (lo hi : Option Rat) : ∀ (a b : List Op) (st : State),
    RunValid L ms lo hi st (a ++ b) ↔
      RunValid L ms lo hi st a ∧ RunValid L ms lo hi (runOps ms lo hi st a) b
  | [], b, st => by simp [RunValid, runOps]
  | .consK rs :: a, b, st => by
    have ih := runValid_append L ms lo hi a b (step ms lo hi st (.consK rs))
    simp only [List.cons_append, RunValid, ih, runOps, List.foldl_cons, and_assoc]
  | .consS :: a, b, st => by
    have ih := runValid_append L ms lo hi a b (step ms lo hi st .consS)
    simp only [List.cons_append, RunValid, ih, runOps, List.foldl_cons]
  | .assignK K :: a, b, st => by
    have ih := runValid_append L ms lo hi a b (step ms lo hi st (.assignK K))
    simp only [List.cons_append, RunValid, ih, runOps, List.foldl_cons]
  | .assignS s :: a, b, st => by
    have ih := runValid_append L ms lo hi a b (step ms lo hi st (.assignS s))
    simp only [List.cons_append, RunValid, ih, runOps, List.foldl_cons]

theorem runTracked_fst (ms : List Bool) (lo hi : Option Rat) : ∀ (ops : List Op) (st : State) (tr : Track),
    (runTracked ms lo hi st tr ops).1 = runOps ms lo hi st ops
  | [], _, _ => rfl
  | op :: ops, st, tr => by
    simp only [runTracked, runOps, List.foldl_cons]
    exact runTracked_fst ms lo hi ops _ _

theorem runTracked_append (ms : List Bool) (lo hi : Option Rat) : ∀ (a b : List Op) (st : State) (tr : Track),
    runTracked ms lo hi st tr (a ++ b) =
      runTracked ms lo hi (runTracked ms lo hi st tr a).1 (runTracked ms lo hi st tr a).2 b
  | [], _, _, _ => rfl
  | op :: a, b, st, tr => by
    simp only [List.cons_append, runTracked]
    exact runTracked_append ms lo hi a b _ _

/-- all entries of one term's kernel are zero -/
def ZeroK (kt : List (List Rat)) : Prop := ∀ k ∈ kt, ∀ v ∈ k, v = 0

/-- a zero kernel is correctly oriented for every direction -/
theorem dimsOk_of_zeroK (L : Nat) (σ σ' : Rat) : ∀ (ms : List Bool) (kt : List (List Rat)),
    DimsOk L σ ms kt → ZeroK kt → DimsOk L σ' ms kt
  | [], [], _, _ => by simp [DimsOk]
  | [], _ :: _, h, _ => by simp [DimsOk] at h
  | _ :: _, [], h, _ => by simp [DimsOk] at h
  | m :: ms, k :: ks, h, hz => by
    simp only [DimsOk] at h ⊢
    refine ⟨⟨h.1.1, fun hm => ⟨(h.1.2 hm).1, ?_⟩⟩,
      dimsOk_of_zeroK L σ σ' ms ks h.2 (fun k' hk' => hz k' (List.mem_cons_of_mem _ hk'))⟩
    have : k.map (σ' * ·) = k.map (fun _ => (0 : Rat)) := by
      apply List.map_congr_left
      intro v hv; rw [hz k (List.mem_cons_self ..) v hv]; simp
    rw [this]; exact nondec_map_const 0 k

/-- direction `tf.sign(0) = 0`: the column is multiplied by zero (twice) -/
theorem projectDim_zero (m : Bool) (k : List Rat) : ∀ v ∈ projectDim 0 m k, v = 0 := by
  intro v hv
  unfold projectDim at hv
  simp only [List.mem_map] at hv
  obtain ⟨a, _, rfl⟩ := hv
  simp

theorem projectMono_zeroK (s : Rat) (hs : s = 0) : ∀ (ms : List Bool) (kt : List (List Rat)),
    ZeroK (projectMono ms s kt)
  | [], _ => by intro k hk; simp [projectMono] at hk
  | _ :: _, [] => by intro k hk; simp [projectMono] at hk
  | m :: ms, k :: ks => by
    intro k' hk'
    simp only [projectMono, List.zipWith_cons_cons, List.mem_cons] at hk'
    rcases hk' with rfl | hk'
    · subst hs; rw [sgn_zero]; exact projectDim_zero m k
    · exact projectMono_zeroK s hs ms ks k' hk'

theorem zeroK_scaleDown (r : Rat) (kt : List (List Rat)) (h : ZeroK kt) : ZeroK (scaleDown r kt) := by
  intro k hk v hv
  simp only [scaleDown, List.mem_map] at hk
  obtain ⟨k0, hk0, rfl⟩ := hk
  simp only [List.mem_map] at hv
  obtain ⟨a, ha, rfl⟩ := hv
  rw [h k0 hk0 a ha]; simp

theorem zeroK_clipNonneg (kt : List (List Rat)) (h : ZeroK kt) : ZeroK (clipNonneg kt) := by
  intro k hk v hv
  simp only [clipNonneg, List.mem_map] at hk
  obtain ⟨k0, hk0, rfl⟩ := hk
  simp only [List.mem_map] at hv
  obtain ⟨a, ha, rfl⟩ := hv
  rw [h k0 hk0 a ha]; simp

/-- a term whose scale is exactly zero when the kernel constraint runs (some dimension monotone)
gets its whole kernel ZEROED: it stays harmless whatever the scale becomes later -/
theorem finalizeWeightTerm_zeroK (ms : List Bool) (lo hi : Option Rat) (s r : Rat) (kt : List (List Rat))
    (hany : ms.any id = true) (hs : s = 0) : ZeroK (finalizeWeightTerm ms lo hi s r kt) := by
  have h1 : ZeroK (monoStage ms s kt) := by
    unfold monoStage; rw [if_pos hany]; exact projectMono_zeroK s hs ms _
  unfold finalizeWeightTerm
  simp only
  cases lo <;> cases hi <;> simp only [Option.isSome, Bool.or_false, Bool.or_true, Bool.false_eq_true, if_false, if_true, projectBounds]
  · exact h1
  · exact zeroK_clipNonneg _ h1
  · exact zeroK_clipNonneg _ h1
  · exact zeroK_scaleDown r _ h1

/-- what a kernel-constraint call that READ the scale `r` leaves behind on the monotone side: every
term oriented by `sign(r_t)`, and zeroed where `r_t = 0` -/
def KernelRef (L : Nat) (ms : List Bool) : List Rat → List (List (List Rat)) → Prop
  | r :: rs, kt :: ks => (DimsOk L (sgn r) ms kt ∧ (r = 0 → ZeroK kt)) ∧ KernelRef L ms rs ks
  | _, _ => True

theorem finalizeWeight_ref (L : Nat) (ms : List Bool) (lo hi : Option Rat) (hany : ms.any id = true) :
    ∀ (scale rs : List Rat) (K : List (List (List Rat))), RootsOk L ms lo hi scale rs K →
    KernelRef L ms scale (finalizeWeight ms lo hi scale rs K)
  | [], [], [], _ => by simp [KernelRef]
  | s :: ss, r :: rs, kt :: ks, h => by
    simp only [finalizeWeight, KernelRef]
    exact ⟨⟨finalizeWeightTerm_dimsOk L ms lo hi s r kt h.1 hany,
      fun hs => finalizeWeightTerm_zeroK ms lo hi s r kt hany hs⟩,
      finalizeWeight_ref L ms lo hi hany ss rs ks h.2⟩
  | [], [], _ :: _, h => by simp [RootsOk] at h
  | [], _ :: _, _, h => by simp [RootsOk] at h
  | _ :: _, [], _, h => by simp [RootsOk] at h
  | _ :: _, _ :: _, [], h => by simp [RootsOk] at h

/-- the orientation established for the scale `r` is still right for the scale `f` when every
term passes `signOk1` -/
theorem kernelRef_kernelOk (L : Nat) (ms : List Bool) : ∀ (r f : List Rat) (K : List (List (List Rat))),
    KernelRef L ms r K → signsOk r f = true → KernelOk L ms f K
  | [], [], _, _, _ => by simp [KernelOk]
  | [], _ :: _, _, _, h => by simp [signsOk] at h
  | _ :: _, [], _, _, h => by simp [signsOk] at h
  | _ :: _, _ :: _, [], _, _ => by simp [KernelOk]
  | r :: rs, f :: fs, kt :: ks, h, hs => by
    simp only [signsOk, Bool.and_eq_true] at hs
    simp only [KernelRef] at h
    simp only [KernelOk]
    refine ⟨?_, kernelRef_kernelOk L ms rs fs ks h.2 hs.2⟩
    have h1 := hs.1
    simp only [signOk1, Bool.or_eq_true, decide_eq_true_eq] at h1
    rcases h1 with (h0 | h0) | h0
    · exact dimsOk_of_zeroK L _ _ ms kt h.1.1 (h.1.2 h0)
    · rw [h0, sgn_zero]; exact dimsOk_zero L _ ms kt h.1.1
    · rw [h0]; exact h.1.1

theorem signOk1_refl (r : Rat) : signOk1 r r = true := by simp [signOk1]
theorem signsOk_refl : ∀ r : List Rat, signsOk r r = true
  | [] => rfl
  | r :: rs => by simp [signsOk, signOk1_refl, signsOk_refl rs]

theorem sgn_eq_zero (x : Rat) (h : sgn x = 0) : x = 0 := by
  rcases sgn_cases x with ⟨_, e⟩ | ⟨_, e⟩ | ⟨e, _⟩
  · rw [e] at h; norm_num at h
  · rw [e] at h; norm_num at h
  · exact e

/-- the scale constraint never turns an admissible sign pattern into an inadmissible one -/
theorem signsOk_scaleConstraint (lo hi : Option Rat) (hlh : ∀ l h, lo = some l → hi = some h → l ≤ h) :
    ∀ r f : List Rat, signsOk r f = true → signsOk r (scaleConstraint lo hi f) = true := by
  intro r f h
  unfold scaleConstraint
  split
  · induction r generalizing f with
    | nil => cases f with
      | nil => simp [finalizeScale, signsOk]
      | cons _ _ => simp [signsOk] at h
    | cons r rs ih => cases f with
      | nil => simp [signsOk] at h
      | cons f fs =>
        simp only [signsOk, Bool.and_eq_true] at h
        simp only [finalizeScale, List.map_cons, signsOk, Bool.and_eq_true]
        refine ⟨?_, ih fs h.2⟩
        have h1 := h.1
        simp only [signOk1, Bool.or_eq_true, decide_eq_true_eq] at h1 ⊢
        rcases finalizeScale1_sign lo hi hlh f with h0 | h0
        · exact Or.inl (Or.inr h0)
        · rcases h1 with (h1 | h1) | h1
          · exact Or.inl (Or.inl h1)
          · rw [h1, sgn_zero] at h0
            exact Or.inl (Or.inr (h1 ▸ sgn_eq_zero _ h0))
          · right; rw [h0, h1]
  · exact h

/-- kernel-side facts relative to the scale `r` the last kernel constraint read -/
def KRef (L : Nat) (ms : List Bool) (lo hi : Option Rat) (r : List Rat) (K : List (List (List Rat))) : Prop :=
  (ms.any id = true → KernelRef L ms r K) ∧ BoundOkK lo hi K

theorem kernelConstraint_ref (L : Nat) (ms : List Bool) (lo hi : Option Rat) (st : State) (rs : List Rat)
    (h : RootsOk L ms lo hi st.scale rs st.K) :
    KRef L ms lo hi st.scale (kernelConstraint ms lo hi st.scale rs st.K) := by
  refine ⟨fun hany => ?_, (kernelConstraint_ok L ms lo hi st rs h).2⟩
  unfold kernelConstraint
  simp only [hany, Bool.true_or, if_true]
  exact finalizeWeight_ref L ms lo hi hany st.scale rs st.K h

/-- invariant of the bookkeeping along any run -/
def TrackInv (L : Nat) (ms : List Bool) (lo hi : Option Rat) (st : State) (tr : Track) : Prop :=
  (∀ r, tr.ref = some r → KRef L ms lo hi r st.K) ∧ (tr.sFresh = true → SOk lo hi st.scale)

theorem trackInv_init (L : Nat) (ms : List Bool) (lo hi : Option Rat) (st : State) :
    TrackInv L ms lo hi st Track.init :=
  ⟨fun _ h => by simp [Track.init] at h, fun h => by simp [Track.init] at h⟩

theorem runTracked_inv (L : Nat) (ms : List Bool) (lo hi : Option Rat)
    (hlh : ∀ l h, lo = some l → hi = some h → l ≤ h) : ∀ (ops : List Op) (st : State) (tr : Track),
    RunValid L ms lo hi st ops → TrackInv L ms lo hi st tr →
    TrackInv L ms lo hi (runTracked ms lo hi st tr ops).1 (runTracked ms lo hi st tr ops).2
  | [], _, _, _, h => h
  | .consK rs :: ops, st, tr, hv, h => by
    refine runTracked_inv L ms lo hi hlh ops _ _ hv.2 ⟨fun r hr => ?_, h.2⟩
    simp only [trackStep, Option.some.injEq] at hr
    subst hr
    exact kernelConstraint_ref L ms lo hi st rs hv.1
  | .consS :: ops, st, tr, hv, h =>
    runTracked_inv L ms lo hi hlh ops _ _ hv ⟨h.1, fun _ => scaleConstraint_sOk lo hi hlh st.scale⟩
  | .assignK K :: ops, st, tr, hv, h =>
    runTracked_inv L ms lo hi hlh ops _ _ hv ⟨fun _ hr => by simp [trackStep] at hr, h.2⟩
  | .assignS s :: ops, st, tr, hv, h =>
    runTracked_inv L ms lo hi hlh ops _ _ hv ⟨h.1, fun hf => by simp [trackStep] at hf⟩

theorem trackInv_kOk (L : Nat) (ms : List Bool) (lo hi : Option Rat) (st : State) (tr : Track)
    (h : TrackInv L ms lo hi st tr) (hc : monoCovered tr st.scale = true) : KOk L ms lo hi st := by
  unfold monoCovered at hc
  cases hr : tr.ref with
  | none => rw [hr] at hc; cases hc
  | some r =>
    rw [hr] at hc
    obtain ⟨h1, h2⟩ := h.1 r hr
    exact ⟨fun hany => kernelRef_kernelOk L ms r st.scale st.K (h1 hany) hc, h2⟩

theorem trackInv_bound (L : Nat) (ms : List Bool) (lo hi : Option Rat) (st : State) (tr : Track)
    (h : TrackInv L ms lo hi st tr) (hc : boundCovered tr = true) :
    BoundOkK lo hi st.K ∧ SOk lo hi st.scale := by
  simp only [boundCovered, Bool.and_eq_true] at hc
  cases hr : tr.ref with
  | none => rw [hr] at hc; simp at hc
  | some r => exact ⟨(h.1 r hr).2, h.2 hc.2⟩

/-! ### readable (syntactic) sufficient conditions for the bookkeeping flags -/

def Op.touchesKRef : Op → Bool
  | .assignK _ => true
  | .consK _ => true
  | _ => false

def Op.isAssignS : Op → Bool
  | .assignS _ => true
  | _ => false

theorem runTracked_ref_keep (ms : List Bool) (lo hi : Option Rat) : ∀ (ops : List Op) (st : State) (tr : Track),
    (∀ op ∈ ops, Op.touchesKRef op = false) → (runTracked ms lo hi st tr ops).2.ref = tr.ref
  | [], _, _, _ => rfl
  | .consS :: ops, st, tr, h => by
    simp only [runTracked]
    rw [runTracked_ref_keep ms lo hi ops _ _ (fun op hop => h op (List.mem_cons_of_mem _ hop))]; rfl
  | .assignS s :: ops, st, tr, h => by
    simp only [runTracked]
    rw [runTracked_ref_keep ms lo hi ops _ _ (fun op hop => h op (List.mem_cons_of_mem _ hop))]; rfl
  | .assignK K :: ops, _, _, h => by
    have := h (.assignK K) (List.mem_cons_self ..); simp [Op.touchesKRef] at this
  | .consK rs :: ops, _, _, h => by
    have := h (.consK rs) (List.mem_cons_self ..); simp [Op.touchesKRef] at this

theorem runTracked_sFresh_keep (ms : List Bool) (lo hi : Option Rat) : ∀ (ops : List Op) (st : State) (tr : Track),
    (∀ op ∈ ops, Op.isAssignS op = false) → tr.sFresh = true → (runTracked ms lo hi st tr ops).2.sFresh = true
  | [], _, _, _, h => h
  | .consS :: ops, st, tr, h, _ => by
    simp only [runTracked]
    exact runTracked_sFresh_keep ms lo hi ops _ _ (fun op hop => h op (List.mem_cons_of_mem _ hop)) rfl
  | .consK rs :: ops, st, tr, h, hf => by
    simp only [runTracked]
    exact runTracked_sFresh_keep ms lo hi ops _ _ (fun op hop => h op (List.mem_cons_of_mem _ hop)) hf
  | .assignK K :: ops, st, tr, h, hf => by
    simp only [runTracked]
    exact runTracked_sFresh_keep ms lo hi ops _ _ (fun op hop => h op (List.mem_cons_of_mem _ hop)) hf
  | .assignS s :: ops, _, _, h, _ => by
    have := h (.assignS s) (List.mem_cons_self ..); simp [Op.isAssignS] at this

/-- the LAST kernel-constraint call comes after the last raw kernel update: `ref` is the scale it read -/
theorem trackOf_ref_of_last_consK (ms : List Bool) (lo hi : Option Rat) (st : State) (pre post : List Op)
    (rs : List Rat) (hpost : ∀ op ∈ post, Op.touchesKRef op = false) :
    (trackOf ms lo hi st (pre ++ .consK rs :: post)).ref = some (runOps ms lo hi st pre).scale := by
  unfold trackOf
  rw [runTracked_append]
  simp only [runTracked]
  rw [runTracked_ref_keep ms lo hi post _ _ hpost, runTracked_fst]
  rfl

/-- a scale-constraint call comes after the last raw scale update -/
theorem trackOf_sFresh_of_last_consS (ms : List Bool) (lo hi : Option Rat) (st : State) (pre post : List Op)
    (hpost : ∀ op ∈ post, Op.isAssignS op = false) :
    (trackOf ms lo hi st (pre ++ .consS :: post)).sFresh = true := by
  unfold trackOf
  rw [runTracked_append]
  simp only [runTracked]
  exact runTracked_sFresh_keep ms lo hi post _ _ hpost rfl

/-! ### the bookkeeping reads only the scale: the driver op `kfl.track` runs it without kernels -/

def Op.forget : Op → Op
  | .assignK _ => .assignK []
  | .consK _ => .consK []
  | .assignS s => .assignS s
  | .consS => .consS

theorem runTracked_forget (ms ms' : List Bool) (lo hi : Option Rat) : ∀ (ops : List Op) (st st' : State) (tr : Track),
    st'.scale = st.scale →
    (runTracked ms' lo hi st' tr (ops.map Op.forget)).2 = (runTracked ms lo hi st tr ops).2 ∧
    (runTracked ms' lo hi st' tr (ops.map Op.forget)).1.scale = (runTracked ms lo hi st tr ops).1.scale
  | [], _, _, _, h => ⟨rfl, h⟩
  | .assignK K :: ops, st, st', tr, h => by
    simp only [List.map_cons, Op.forget, runTracked, trackStep]
    exact runTracked_forget ms ms' lo hi ops _ _ _ h
  | .assignS s :: ops, st, st', tr, h => by
    simp only [List.map_cons, Op.forget, runTracked, trackStep]
    exact runTracked_forget ms ms' lo hi ops _ _ _ rfl
  | .consK rs :: ops, st, st', tr, h => by
    simp only [List.map_cons, Op.forget, runTracked, trackStep, h]
    exact runTracked_forget ms ms' lo hi ops _ _ _ h
  | .consS :: ops, st, st', tr, h => by
    simp only [List.map_cons, Op.forget, runTracked, trackStep]
    exact runTracked_forget ms ms' lo hi ops _ _ _ (by simp [step, h])

end Tfl.Kfl
