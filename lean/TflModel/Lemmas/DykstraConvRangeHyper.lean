import TflModel.Lemmas.DykstraConvRange
import TflModel.Lemmas.DykstraConvHyper
/-!
# Range dominance at a non-doubled vertex = the half-space group map `hyperplaneGroup`

For every vertex `(i, j)` other than the two doubled corners `(0, N−1)` and `(M−1, 0)` the model's
`rangeDomGroup` IS `hyperplaneGroup [dom, weak] false (rdStencil M N i j)` — the map
`v ↦ v − max(a·v, 0)/(a·a) · a` applied in every slice — so the facts the Boyle–Dykstra theorem asks
of a group (`hyperplaneGroup_lands / _fix / _vi` of `Lemmas/DykstraConvHyper.lean`: lands in the
constraint set, fixes it, box-sum variational inequality) hold for it.
-/
namespace Tfl.Lat
open Tfl Tfl.DykConv

theorem rd_max_div (d n : ℚ) (hn : 0 < n) : max (d / n) 0 = max d 0 / n := by
  rcases rd_corr_cases d n hn with ⟨h, e⟩ | ⟨h, e⟩
  · rw [e, max_eq_right h, zero_div]
  · rw [e, max_eq_left h.le]

/-- `a · w` over the stencil in the slice of `idx` is the violation `rdDiff` of the slice's grid -/
theorem rdStencil_viol (M N i j dom weak : Nat) (w : W) (idx : Idx) :
    rsum ((rdStencil M N i j).map (fun pc => (pc.2 : ℚ) * w (setcs idx [dom, weak] pc.1)))
      = rdDiff M N i j (fun x y => gat w dom weak x y idx) := by
  unfold rdStencil
  split_ifs with h
  · rcases h with ⟨rfl, rfl⟩ | ⟨rfl, rfl⟩ <;>
      simp only [List.map, rsum, setcs, rdDiff, gat] <;> push_cast <;> ring
  · simp only [List.map, rsum, setcs, rdDiff, gat]; push_cast; ring

/-- `a · a` of the stencil: 2 at the (cancelling) corners, 4 elsewhere -/
theorem rdStencil_sumsq {M N i j : Nat} (h1 : ¬ (i = 0 ∧ j = N - 1)) (h2 : ¬ (i = M - 1 ∧ j = 0)) :
    rsum ((rdStencil M N i j).map (fun pc => (pc.2 : ℚ) * (pc.2 : ℚ)))
      = if (i = 0 ∨ i = M - 1) ∧ (j = 0 ∨ j = N - 1) then 2 else 4 := by
  have e : ((i = 0 ∨ i = M - 1) ∧ (j = 0 ∨ j = N - 1)) ↔ ((i = 0 ∧ j = 0) ∨ (i = M - 1 ∧ j = N - 1)) := by
    constructor
    · rintro ⟨a | a, b | b⟩
      · exact Or.inl ⟨a, b⟩
      · exact absurd ⟨a, b⟩ h1
      · exact absurd ⟨a, b⟩ h2
      · exact Or.inr ⟨a, b⟩
    · rintro (⟨a, b⟩ | ⟨a, b⟩)
      · exact ⟨Or.inl a, Or.inl b⟩
      · exact ⟨Or.inr a, Or.inr b⟩
  unfold rdStencil
  rw [if_congr e rfl rfl]
  split_ifs <;> simp only [List.map, rsum] <;> push_cast <;> norm_num

/-- **the tie.** At every vertex but the doubled corners, in every slice (two distinct valid
dimensions), `rangeDomGroup` is the half-space projection `hyperplaneGroup` of its stencil. -/
theorem rangeDomGroup_eq_hyperplaneGroup {M N i j : Nat} (hM : 2 ≤ M) (hN : 2 ≤ N)
    (h1 : ¬ (i = 0 ∧ j = N - 1)) (h2 : ¬ (i = M - 1 ∧ j = 0)) (dom weak : Nat) (w : W) {idx : Idx}
    (hg : GridOK dom weak idx) :
    rangeDomGroup M N dom weak i j w idx
      = hyperplaneGroup [dom, weak] false (rdStencil M N i j) w idx := by
  have hL := gat_rangeDomGroup M N dom weak i j w hg (coord idx dom) (coord idx weak)
  rw [gat_self hg] at hL
  rw [hL, rdStep_normal hM hN h1 h2]
  simp only [hyperplaneGroup, coordsOf, List.map, Bool.false_eq_true, if_false]
  have hk : ∀ x f : ℚ, (match (rdStencil M N i j).lookup [coord idx dom, coord idx weak] with
      | some c => x - f * (c : ℚ)
      | none => x) = x - f * rdCoef M N i j (coord idx dom) (coord idx weak) :=
    fun x f => rdStencil_lookup hM hN h1 h2 _ _ x f
  have hm : rdMult M N i j (fun x y => gat w dom weak x y idx)
      = max (rdDiff M N i j (fun x y => gat w dom weak x y idx)) 0
          / (if (i = 0 ∨ i = M - 1) ∧ (j = 0 ∨ j = N - 1) then 2 else 4) := by
    unfold rdMult
    split_ifs
    · exact rd_max_div _ 2 (by norm_num)
    · exact rd_max_div _ 4 (by norm_num)
  rw [rdStencil_viol, rdStencil_sumsq h1 h2, gat_self hg, hm]
  cases hlk : List.lookup [coord idx dom, coord idx weak] (rdStencil M N i j) with
  | none =>
    simp only [hlk] at hk ⊢
    have := hk 0 (-1)
    have h0 : rdCoef M N i j (coord idx dom) (coord idx weak) = 0 := by linarith
    rw [h0, mul_zero, sub_zero]
  | some c =>
    simp only [hlk] at hk ⊢
    have := hk 0 (-1)
    have h0 : rdCoef M N i j (coord idx dom) (coord idx weak) = (c : ℚ) := by linarith
    rw [h0]

/-- the stencil is a legal `hyperplaneGroup` stencil: positions inside the lattice, pairwise
different, a non-zero coefficient -/
theorem rdStencil_ok {sizes : List Nat} {dom weak i j : Nat} (hM : 2 ≤ sizes.getD dom 0)
    (hN : 2 ≤ sizes.getD weak 0) (hi : i < sizes.getD dom 0) (hj : j < sizes.getD weak 0)
    (h1 : ¬ (i = 0 ∧ j = sizes.getD weak 0 - 1)) (h2 : ¬ (i = sizes.getD dom 0 - 1 ∧ j = 0)) :
    StencilOK sizes [dom, weak] (rdStencil (sizes.getD dom 0) (sizes.getD weak 0) i j) := by
  generalize hMM : sizes.getD dom 0 = M at *
  generalize hNN : sizes.getD weak 0 = N at *
  have pos : ∀ x y, x < M → y < N → PosOK sizes [dom, weak] [x, y] := fun x y hx hy =>
    List.Forall₂.cons (by rw [hMM]; exact hx) (List.Forall₂.cons (by rw [hNN]; exact hy) List.Forall₂.nil)
  unfold rdStencil
  split_ifs with h
  · refine ⟨?_, ?_, ⟨_, List.mem_cons_self .., by simp⟩⟩
    · intro pc hpc
      simp only [List.mem_cons, List.not_mem_nil, or_false] at hpc
      rcases hpc with rfl | rfl
      · exact pos _ _ (by omega) (by omega)
      · exact pos _ _ (by omega) (by omega)
    · simp only [List.map, List.nodup_cons, List.mem_cons, List.cons.injEq, List.not_mem_nil,
        and_true, or_false, not_false_eq_true, List.nodup_nil]
      omega
  · refine ⟨?_, ?_, ⟨_, List.mem_cons_self .., by simp⟩⟩
    · intro pc hpc
      simp only [List.mem_cons, List.not_mem_nil, or_false] at hpc
      rcases hpc with rfl | rfl | rfl | rfl
      · exact pos _ _ hi (by omega)
      · exact pos _ _ hi (by omega)
      · exact pos _ _ (by omega) hj
      · exact pos _ _ (by omega) hj
    · simp only [List.map, List.nodup_cons, List.mem_cons, List.cons.injEq, List.not_mem_nil,
        and_true, or_false, not_false_eq_true, List.nodup_nil]
      omega

end Tfl.Lat
