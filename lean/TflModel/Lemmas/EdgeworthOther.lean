import TflModel.Lemmas.EdgeworthW
/-! C01-T2(c): an Edgeworth sweep on grid `(m, c)` leaves the inequalities of every OTHER trust
`(m', c')` untouched, because it translates all points behind one grid point together
(`verify_hyperparameters`: no feature is both a main and a conditional feature). -/
namespace Tfl.Lat
open Tfl

/-- the two trusts act on different grids and never exchange the roles of an axis -/
def Compatible (tr tr' : Trust) : Prop :=
  tr'.cond ≠ tr.main ∧ tr'.main ≠ tr.cond ∧ ¬ (tr.main = tr'.main ∧ tr.cond = tr'.cond)

/-- a step that adds `V` exactly at the vertices with `coord m = a ∧ coord c = k` -/
def bump (m c a k : Nat) (V : ℚ) (w : W) : W :=
  fun idx => if coord idx m = a ∧ coord idx c = k then w idx + V else w idx

theorem estepPos_eq_bump (bs : List Idx) (m c : Nat) (w : W) (p : Nat × Nat) :
    estepPos bs m c w p = bump m c (p.1 + 1) (p.2 + 1) (maxOver bs (eviol w m c p.1 p.2)) w := rfl
theorem estepNeg_eq_bump (bs : List Idx) (m c : Nat) (w : W) (p : Nat × Nat) :
    estepNeg bs m c w p = bump m c p.1 p.2 (- maxOver bs (fun b => - eviol w m c p.1 p.2 b)) w := by
  funext idx; simp only [estepNeg, bump]; split <;> ring

theorem eviol_bump_other {m c m' c' : Nat} {b : Idx} (hm : m < b.length) (hc : c < b.length)
    (hm' : m' < b.length) (hc' : c' < b.length) (hmc' : m' ≠ c')
    (h1 : c' ≠ m) (h2 : m' ≠ c) (h3 : ¬ (m = m' ∧ c = c')) (a k : Nat) (V : ℚ) (w : W) (i' j' : Nat) :
    eviol (bump m c a k V w) m' c' i' j' b = eviol w m' c' i' j' b := by
  have cm : ∀ x y, coord (setc (setc b m' x) c' y) m = if m = m' then x else coord b m := by
    intro x y
    rw [coord_setc_ne _ h1]
    by_cases e : m = m'
    · subst e; simp [coord_setc_same _ hm]
    · simp [e, coord_setc_ne _ (Ne.symm e)]
  have cc : ∀ x y, coord (setc (setc b m' x) c' y) c = if c = c' then y else coord b c := by
    intro x y
    by_cases e : c = c'
    · subst e; simp [coord_setc_same _ (show c < (setc b m' x).length by simpa using hc)]
    · rw [coord_setc_ne _ (Ne.symm e), coord_setc_ne _ h2]; simp [e]
  simp only [eviol, gat, bump, cm, cc]
  by_cases e1 : m = m'
  · have e2 : c ≠ c' := fun e => h3 ⟨e1, e⟩
    simp only [e1, e2, if_true, if_false]
    split_ifs <;> ring
  · simp only [e1, if_false]
    by_cases e2 : c = c'
    · simp only [e2, if_true]
      split_ifs <;> ring
    · simp only [e2, if_false]
      split_ifs <;> ring

theorem edgeworthOne_keeps_other (sizes : List Nat) (tr tr' : Trust) (hwf : TrustWF sizes tr)
    (hwf' : TrustWF sizes tr') (hc : Compatible tr tr') (w : W) (h : EdgeOK sizes tr' w) :
    EdgeOK sizes tr' (edgeworthOne sizes tr w) := by
  have step : ∀ (a k : Nat) (V : ℚ) (w : W), EdgeOK sizes tr' w →
      EdgeOK sizes tr' (bump tr.main tr.cond a k V w) := by
    intro a k V w hw idx hr i j hi hj
    rw [eviol_bump_other (by rw [hr.1]; exact hwf.1) (by rw [hr.1]; exact hwf.2.1)
      (by rw [hr.1]; exact hwf'.1) (by rw [hr.1]; exact hwf'.2.1) hwf'.2.2 hc.1 hc.2.1 hc.2.2]
    exact hw idx hr i j hi hj
  have fpos : ∀ (ps : List (Nat × Nat)) (w : W), EdgeOK sizes tr' w →
      EdgeOK sizes tr' (ps.foldl (estepPos (allIdx sizes) tr.main tr.cond) w) := by
    intro ps
    induction ps with
    | nil => intro w hw; exact hw
    | cons q qs ih =>
      intro w hw
      simp only [List.foldl_cons]
      exact ih _ (by rw [estepPos_eq_bump]; exact step _ _ _ _ hw)
  have fneg : ∀ (ps : List (Nat × Nat)) (w : W), EdgeOK sizes tr' w →
      EdgeOK sizes tr' (ps.foldl (estepNeg (allIdx sizes) tr.main tr.cond) w) := by
    intro ps
    induction ps with
    | nil => intro w hw; exact hw
    | cons q qs ih =>
      intro w hw
      simp only [List.foldl_cons]
      exact ih _ (by rw [estepNeg_eq_bump]; exact step _ _ _ _ hw)
  rcases edgeworthOne_cases sizes tr w with ⟨_, e⟩ | ⟨_, e⟩
  · rw [e]; exact fpos _ _ h
  · rw [e]; exact fneg _ _ h

end Tfl.Lat
