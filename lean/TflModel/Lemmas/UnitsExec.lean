import TflModel.Lemmas.Units
/-!
# the executable multi-unit finalisation `finalizeUT` (driver op `un.finalize`) computes `finalizeU`

The theorems of C09 (`finalize_per_unit`, …) are about the function-level `finalizeU`; the driver runs
`finalizeUT` on tables over `sizes ++ [units]`. This file is the tie (model-internal, like
`finalizeT_agree` for one unit): every multi-unit stage is local on the box `sizes ++ [units]` and
tabulation is the identity there.
-/
namespace Tfl.Units
open Tfl Tfl.Lat

theorem unitIdx_subset {sizes : List Nat} {units u : Nat} {b : Idx} (hb : b ∈ unitIdx sizes units u) :
    InRange (sizes ++ [units]) b :=
  mem_allIdx.mp (List.mem_filter.mp hb).1

theorem maxViol_congr (sizes : List Nat) (units : Nat) (f g : Idx → ℚ)
    (h : ∀ b, InRange (sizes ++ [units]) b → f b = g b) (u : Nat) :
    maxViol sizes units f u = maxViol sizes units g u :=
  maxOver_congr _ _ _ (fun b hb => h b (unitIdx_subset hb))

theorem estepPosU_local (sizes : List Nat) (units m c : Nat) (hm : m < sizes.length) (hc : c < sizes.length)
    (p : Nat × Nat) (hi : p.1 + 1 < sizes.getD m 0) (hj : p.2 + 1 < sizes.getD c 0) :
    Local (sizes ++ [units]) (fun w => estepPosU sizes units m c w p) := by
  intro f g h idx hr
  have hi' : p.1 + 1 < (sizes ++ [units]).getD m 0 := by rw [getD_append_lt _ _ _ hm]; exact hi
  have hj' : p.2 + 1 < (sizes ++ [units]).getD c 0 := by rw [getD_append_lt _ _ _ hc]; exact hj
  have := maxViol_congr sizes units (eviol f m c p.1 p.2) (eviol g m c p.1 p.2)
    (fun b hb => eviol_agree h hb hi' hj') (unitOf sizes idx)
  simp only [estepPosU, this, h idx hr]

theorem estepNegU_local (sizes : List Nat) (units m c : Nat) (hm : m < sizes.length) (hc : c < sizes.length)
    (p : Nat × Nat) (hi : p.1 + 1 < sizes.getD m 0) (hj : p.2 + 1 < sizes.getD c 0) :
    Local (sizes ++ [units]) (fun w => estepNegU sizes units m c w p) := by
  intro f g h idx hr
  have hi' : p.1 + 1 < (sizes ++ [units]).getD m 0 := by rw [getD_append_lt _ _ _ hm]; exact hi
  have hj' : p.2 + 1 < (sizes ++ [units]).getD c 0 := by rw [getD_append_lt _ _ _ hc]; exact hj
  have := maxViol_congr sizes units (fun b => - eviol f m c p.1 p.2 b) (fun b => - eviol g m c p.1 p.2 b)
    (fun b hb => by rw [eviol_agree h hb hi' hj']) (unitOf sizes idx)
  simp only [estepNegU, this, h idx hr]

theorem edgeworthOneUT_agree (sizes : List Nat) (units : Nat) (tr : Trust) (hm : tr.main < sizes.length)
    (hc : tr.cond < sizes.length) {t : Table} {f : W} (h : AgreeOn (sizes ++ [units]) t.get f) :
    AgreeOn (sizes ++ [units]) (edgeworthOneUT sizes units tr t).get (edgeworthOneU sizes units tr f) := by
  unfold edgeworthOneUT edgeworthOneU foldStageT
  cases tr.pos
  · simp only [Bool.false_eq_true, if_false]
    exact foldl_runStage_agree' (sizes := sizes ++ [units]) (fun w p => estepNegU sizes units tr.main tr.cond w p) _
      (fun p hp => estepNegU_local sizes units _ _ hm hc p (mem_pairsLex_rev hp).1 (mem_pairsLex_rev hp).2) h
  · simp only [if_true]
    exact foldl_runStage_agree' (sizes := sizes ++ [units]) (fun w p => estepPosU sizes units tr.main tr.cond w p) _
      (fun p hp => estepPosU_local sizes units _ _ hm hc p (mem_pairsLex.mp (by simpa using hp)).1
        (mem_pairsLex.mp (by simpa using hp)).2) h

theorem approxEdgeworthUT_agree (sizes : List Nat) (units : Nat) (trs : List Trust)
    (htr : ∀ tr ∈ trs, tr.main < sizes.length ∧ tr.cond < sizes.length) :
    ∀ {t : Table} {f : W}, AgreeOn (sizes ++ [units]) t.get f →
      AgreeOn (sizes ++ [units]) (approxEdgeworthUT sizes units trs t).get (approxEdgeworthU sizes units trs f) := by
  unfold approxEdgeworthUT approxEdgeworthU
  induction trs with
  | nil => intro t f h; exact h
  | cons tr r ih =>
    intro t f h
    exact ih (fun x hx => htr x (List.mem_cons_of_mem _ hx))
      (edgeworthOneUT_agree sizes units tr (htr tr (List.mem_cons_self ..)).1 (htr tr (List.mem_cons_self ..)).2 h)

/-! ### trapezoid -/

theorem trapScalarU_congr (mode : TrapMode) (sizes : List Nat) (units : Nat) (f g : Idx → ℚ) (prior : List ℚ)
    (h : ∀ b, InRange (sizes ++ [units]) b → f b = g b) :
    trapScalarU mode sizes units f prior = trapScalarU mode sizes units g prior := by
  unfold trapScalarU
  apply List.map_congr_left
  intro u _
  exact trapScalar_congr mode _ f g _ (fun b hb => h b (unitIdx_subset hb))

theorem trapStepUT_agree (sizes : List Nat) (units m c : Nat) (hm : m < sizes.length) (hc : c < sizes.length)
    (pos : Bool) (mode : TrapMode) {j : Nat}
    (hM : 0 < sizes.getD m 0) (hj : j + 1 < sizes.getD c 0) (s : TrapStateUT) (S : TrapStateU)
    (hw : AgreeOn (sizes ++ [units]) s.t.get S.w) (hl : s.lhs = S.lhs) (hr : s.rhs = S.rhs) :
    AgreeOn (sizes ++ [units]) (trapStepUT sizes units m c (sizes.getD m 0) (sizes.getD c 0) pos mode s j).t.get
        (trapStepU sizes units m c (sizes.getD m 0) (sizes.getD c 0) pos mode S j).w ∧
      (trapStepUT sizes units m c (sizes.getD m 0) (sizes.getD c 0) pos mode s j).lhs =
        (trapStepU sizes units m c (sizes.getD m 0) (sizes.getD c 0) pos mode S j).lhs ∧
      (trapStepUT sizes units m c (sizes.getD m 0) (sizes.getD c 0) pos mode s j).rhs =
        (trapStepU sizes units m c (sizes.getD m 0) (sizes.getD c 0) pos mode S j).rhs := by
  set M := sizes.getD m 0
  set N := sizes.getD c 0
  have hMf : (sizes ++ [units]).getD m 0 = M := getD_append_lt _ _ _ hm
  have hNf : (sizes ++ [units]).getD c 0 = N := getD_append_lt _ _ _ hc
  have hjn : jn N pos j < (sizes ++ [units]).getD c 0 := by rw [hNf]; exact jn_lt pos hj
  have hjc : jc N pos j < (sizes ++ [units]).getD c 0 := by rw [hNf]; exact jc_lt pos hj
  have hM0 : 0 < (sizes ++ [units]).getD m 0 := by rw [hMf]; exact hM
  have hM1 : M - 1 < (sizes ++ [units]).getD m 0 := by rw [hMf]; omega
  have hl1 : ∀ b, InRange (sizes ++ [units]) b → lhsDiff s.t.get m c N pos j b = lhsDiff S.w m c N pos j b := by
    intro b hb
    simp only [lhsDiff, gat_agree hw hb hM0 hjn, gat_agree hw hb hM0 hjc]
  have hlU : trapScalarU mode sizes units (lhsDiff s.t.get m c N pos j) s.lhs =
      trapScalarU mode sizes units (lhsDiff S.w m c N pos j) S.lhs := by
    rw [hl]; exact trapScalarU_congr _ _ _ _ _ _ hl1
  have h1 : AgreeOn (sizes ++ [units])
      (tabulate (sizes ++ [units]) (fun idx =>
        if coord idx m = 0 ∧ coord idx c = jn N pos j then
          s.t.get idx - trapAmount mode (lhsDiff s.t.get m c N pos j idx)
            (getR (trapScalarU mode sizes units (lhsDiff s.t.get m c N pos j) s.lhs) (unitOf sizes idx))
        else s.t.get idx)).get
      (fun idx =>
        if coord idx m = 0 ∧ coord idx c = jn N pos j then
          S.w idx - trapAmount mode (lhsDiff S.w m c N pos j idx)
            (getR (trapScalarU mode sizes units (lhsDiff S.w m c N pos j) S.lhs) (unitOf sizes idx))
        else S.w idx) := by
    intro idx hidx
    rw [get_tabulate' _ hidx]
    simp only [hw idx hidx, hl1 idx hidx, hlU]
  have hr1 : ∀ (f g : W), AgreeOn (sizes ++ [units]) f g → ∀ b, InRange (sizes ++ [units]) b →
      rhsDiff f m c M N pos j b = rhsDiff g m c M N pos j b := by
    intro f g hfg b hb
    simp only [rhsDiff, gat_agree hfg hb hM1 hjn, gat_agree hfg hb hM1 hjc]
  have hrU := trapScalarU_congr mode sizes units _ _ S.rhs (hr1 _ _ h1)
  refine ⟨?_, hlU, ?_⟩
  · intro idx hidx
    simp only [trapStepUT, trapStepU]
    rw [get_tabulate' _ hidx]
    simp only [h1 idx hidx, hr1 _ _ h1 idx hidx, hr, hrU]
  · simp only [trapStepUT, trapStepU]
    rw [hr]; exact hrU

theorem trapezoidOneUT_agree (sizes : List Nat) (units : Nat) (edgeworth : List Trust) (tr : Trust)
    (hm : tr.main < sizes.length) (hc : tr.cond < sizes.length)
    (hM : 0 < sizes.getD tr.main 0) {t : Table} {f : W} (h : AgreeOn (sizes ++ [units]) t.get f) :
    AgreeOn (sizes ++ [units]) (trapezoidOneUT sizes units edgeworth tr t).get
      (trapezoidOneU sizes units edgeworth tr f) := by
  unfold trapezoidOneUT trapezoidOneU
  have key : ∀ (js : List Nat), (∀ j ∈ js, j + 1 < sizes.getD tr.cond 0) →
      ∀ (s : TrapStateUT) (S : TrapStateU), AgreeOn (sizes ++ [units]) s.t.get S.w → s.lhs = S.lhs → s.rhs = S.rhs →
      AgreeOn (sizes ++ [units])
        (js.foldl (trapStepUT sizes units tr.main tr.cond (sizes.getD tr.main 0) (sizes.getD tr.cond 0) tr.pos
          (trapMode edgeworth tr)) s).t.get
        (js.foldl (trapStepU sizes units tr.main tr.cond (sizes.getD tr.main 0) (sizes.getD tr.cond 0) tr.pos
          (trapMode edgeworth tr)) S).w := by
    intro js
    induction js with
    | nil => intro _ s S hw _ _; exact hw
    | cons j r ih =>
      intro hjs s S hw hl hr
      simp only [List.foldl_cons]
      obtain ⟨a, b, c⟩ := trapStepUT_agree sizes units tr.main tr.cond hm hc tr.pos (trapMode edgeworth tr) hM
        (hjs j (List.mem_cons_self ..)) s S hw hl hr
      exact ih (fun x hx => hjs x (List.mem_cons_of_mem _ hx)) _ _ a b c
  exact key _ (fun j hj => by have := List.mem_range.mp hj; omega) ⟨t, _, _⟩ ⟨f, _, _⟩ h rfl rfl

theorem approxTrapezoidUT_agree (sizes : List Nat) (units : Nat) (edgeworth trs : List Trust)
    (htr : ∀ tr ∈ trs, tr.main < sizes.length ∧ tr.cond < sizes.length)
    (hM : ∀ tr ∈ trs, 0 < sizes.getD tr.main 0) :
    ∀ {t : Table} {f : W}, AgreeOn (sizes ++ [units]) t.get f →
      AgreeOn (sizes ++ [units]) (approxTrapezoidUT sizes units edgeworth trs t).get
        (approxTrapezoidU sizes units edgeworth trs f) := by
  unfold approxTrapezoidUT approxTrapezoidU
  induction trs with
  | nil => intro t f h; exact h
  | cons tr r ih =>
    intro t f h
    exact ih (fun x hx => htr x (List.mem_cons_of_mem _ hx)) (fun x hx => hM x (List.mem_cons_of_mem _ hx))
      (trapezoidOneUT_agree sizes units edgeworth tr (htr tr (List.mem_cons_self ..)).1
        (htr tr (List.mem_cons_self ..)).2 (hM tr (List.mem_cons_self ..)) h)

/-! ### bounds -/

theorem reduceMinButLast_congr (sizes : List Nat) (units : Nat) (f g : W)
    (h : AgreeOn (sizes ++ [units]) f g) (u : Nat) :
    reduceMinButLast sizes units f u = reduceMinButLast sizes units g u := by
  unfold reduceMinButLast
  cases hl : unitIdx sizes units u with
  | nil => rfl
  | cons i is =>
    have hi : f i = g i := h i (unitIdx_subset (by rw [hl]; exact List.mem_cons_self ..))
    have hm : is.map f = is.map g :=
      List.map_congr_left (fun b hb => h b (unitIdx_subset (by rw [hl]; exact List.mem_cons_of_mem _ hb)))
    simp only [hi, hm]

theorem reduceMaxButLast_congr (sizes : List Nat) (units : Nat) (f g : W)
    (h : AgreeOn (sizes ++ [units]) f g) (u : Nat) :
    reduceMaxButLast sizes units f u = reduceMaxButLast sizes units g u := by
  unfold reduceMaxButLast
  cases hl : unitIdx sizes units u with
  | nil => rfl
  | cons i is =>
    have hi : f i = g i := h i (unitIdx_subset (by rw [hl]; exact List.mem_cons_self ..))
    have hm : is.map f = is.map g :=
      List.map_congr_left (fun b hb => h b (unitIdx_subset (by rw [hl]; exact List.mem_cons_of_mem _ hb)))
    simp only [hi, hm]

theorem unitOf_lt {sizes : List Nat} {units : Nat} {idx : Idx} (hr : InRange (sizes ++ [units]) idx) :
    unitOf sizes idx < units := by
  have := hr.2 sizes.length (by simp)
  simpa [unitOf, List.getD_eq_getElem?_getD] using this

theorem approxBoundsUT_agree (sizes : List Nat) (units : Nat) (lo hi : Option ℚ) {t : Table} {f : W}
    (h : AgreeOn (sizes ++ [units]) t.get f) :
    AgreeOn (sizes ++ [units]) (approxBoundsUT sizes units lo hi t).get (approxBoundsU sizes units lo hi f) := by
  intro idx hr
  unfold approxBoundsUT approxBoundsU
  rw [get_tabulate' _ hr]
  have hu := unitOf_lt hr
  have hk : ((List.range units).map (fun u =>
      boundsCoeffs lo hi (reduceMinButLast sizes units t.get u) (reduceMaxButLast sizes units t.get u))).getD
        (unitOf sizes idx) (0, 1, 0) =
      boundsCoeffs lo hi (reduceMinButLast sizes units f (unitOf sizes idx))
        (reduceMaxButLast sizes units f (unitOf sizes idx)) := by
    rw [List.getD_eq_getElem?_getD, List.getElem?_map, List.getElem?_range hu]
    simp only [Option.map_some, Option.getD_some, reduceMinButLast_congr sizes units _ _ h,
      reduceMaxButLast_congr sizes units _ _ h]
  simp only [hk, h idx hr]

/-- **model-internal tie for C09**: the executable multi-unit finalisation the driver runs
(`finalizeUT`, op `un.finalize`) computes, on every vertex of `sizes ++ [units]`, the function-level
`finalizeU` of the per-unit theorems. -/
theorem finalizeUT_agree (c : Cfg) (units : Nat)
    (htr : ∀ tr ∈ c.edgeworth ++ c.trapezoid, tr.main < c.sizes.length ∧ tr.cond < c.sizes.length)
    (hM : ∀ tr ∈ c.trapezoid, 0 < c.sizes.getD tr.main 0) {t : Table} {f : W}
    (h : AgreeOn (c.sizes ++ [units]) t.get f) :
    AgreeOn (c.sizes ++ [units]) (finalizeUT c units t).get (finalizeU c units f) := by
  unfold finalizeUT finalizeU
  split
  · exact h
  · split
    · exact approxMonoT_agree _ _ h
    · exact approxBoundsUT_agree _ _ _ _
        (approxTrapezoidUT_agree _ _ _ _ (fun tr htr' => htr tr (List.mem_append_right _ htr')) hM
          (approxEdgeworthUT_agree _ _ _ (fun tr htr' => htr tr (List.mem_append_left _ htr'))
            (approxMonoT_agree _ _ h)))

end Tfl.Units
