import TflModel.Model.Premade
import TflModel.Lemmas.LinearEval
import Mathlib.Tactic.Linarith
import Mathlib.Tactic.Ring
import Mathlib.Algebra.Order.Field.Basic
/-!
# Premade models (C03): what the per-layer theorems deliver, and how it composes

* `CalOk`, `LatOk`, `FnsOk` — EXACTLY the properties the per-layer theorems deliver for the functions
  realised by constrained weights (C04/C05 calibrators, C06 categorical, C01/C02 lattices, C07 KFL,
  C06/C20 linear layers).
* `Wired`, `Ranges`, `BoundsWired` — the structural facts about a `LayerGraph` the composition needs
  (a constrained feature meets only monotone calibrators / axes; calibrator output range = lattice
  input range; the last layer carries the model's output bounds).
* `forward_le` — composition of monotone maps along the graph; `forward_bounds` — output bounds.
-/
namespace Tfl.Premade
open Tfl Tfl.Poset Tfl.Linear

/-! ## per-layer properties -/

/-- `y ∈ [lo, hi]`, each side only when configured -/
def inB (lo hi : Option ℚ) (y : ℚ) : Prop := (∀ l, lo = some l → l ≤ y) ∧ (∀ h, hi = some h → y ≤ h)

/-- the inputs a calibrator accepts: every number for a PWL calibrator; for a categorical one a
category `0 ≤ k < num_buckets` or the `default_input_value` (anything else makes `tf.gather` raise
InvalidArgument on CPU) -/
def Calibrator.validIn (c : Calibrator) (x : ℚ) : Prop :=
  c.categorical = true → c.missing = some x ∨ ∃ k : Nat, k < c.numBuckets ∧ x = (k : ℚ)

/-- one calibrator unit after its constraints (C04 + C05, C06 + C05): monotone in the configured
direction on non-missing inputs, ordered on every configured category pair, range within the
output bounds at EVERY valid input (missing ones included). -/
structure CalOk (c : Calibrator) (fn : ℚ → ℚ) : Prop where
  inc : c.mono = 1 → ∀ x y, c.missing ≠ some x → c.missing ≠ some y → x ≤ y → fn x ≤ fn y
  dec : c.mono = -1 → ∀ x y, c.missing ≠ some x → c.missing ≠ some y → x ≤ y → fn y ≤ fn x
  pairs : ∀ p ∈ c.pairs, c.missing ≠ some (p.1 : ℚ) → c.missing ≠ some (p.2 : ℚ) →
    fn (p.1 : ℚ) ≤ fn (p.2 : ℚ)
  bounds : ∀ x, c.validIn x → inB c.outMin c.outMax (fn x)

/-- every coordinate lies on the lattice: `0 ≤ z_d ≤ size_d - 1` (and the ranks agree) -/
def InBox (sizes : List Nat) (z : List ℚ) : Prop :=
  z.length = sizes.length ∧
    ∀ d, d < sizes.length → 0 ≤ z.getD d 0 ∧ z.getD d 0 ≤ (sizes.getD d 0 : ℚ) - 1

/-- one lattice / KFL unit after its constraints (C01 + C02, C07), `clip_inputs = False`: on the
lattice's input range, non-decreasing along every axis marked monotone and within the output bounds. -/
structure LatOk (b : Block) (fn : List ℚ → ℚ) : Prop where
  mono : ∀ z d v, InBox b.sizes z → InBox b.sizes (z.set d v) → b.monos.getD d 0 = 1 →
    z.getD d 0 ≤ v → fn z ≤ fn (z.set d v)
  bounds : ∀ z, InBox b.sizes z → inB b.outMin b.outMax (fn z)

/-- sign pattern of a `Linear` kernel (C06): weight ≥ 0 on every axis marked 1 -/
def LinOk (monos : List Nat) (w : List ℚ) : Prop := ∀ i, monos.getD i 0 = 1 → 0 ≤ getV w i

/-- what `normalization_order = 1` on an all-increasing `Linear` delivers (C06): non-negative
weights that sum to one — UNLESS the clipped column was below the norm guard, in which case it is
returned as it is (finding F-C03-a). -/
def NormOk (n : Nat) (w : List ℚ) : Prop :=
  w.length = n ∧ (∀ i, 0 ≤ getV w i) ∧ (rsum w = 1 ∨ norm1 w < normEps)

structure FnsOk (g : LayerGraph) (F : Fns) : Prop where
  cal : ∀ c ∈ g.calibrators, ∀ u, u < c.units → CalOk c (F.cal c.feature u)
  lat : ∀ i b, g.blocks[i]? = some b → b.kind ≠ .linear → LatOk b (F.lat i)
  lin : ∀ b ∈ g.blocks, b.kind = .linear →
    LinOk b.monos F.linW ∧ (b.normalized = true → NormOk b.inputs.length F.linW)
  comb : ∀ n ub, g.combine = .linear n ub →
    (∀ i, 0 ≤ getV F.combW i) ∧ (n = true → NormOk g.blocks.length F.combW)
  out : ∀ oc, g.outCal = some oc →
    (∀ x y, x ≤ y → F.out x ≤ F.out y) ∧ ∀ x, inB oc.outMin oc.outMax (F.out x)

/-- **the excluding hypothesis of finding F-C03-a**: every normalised `Linear` really is a weighted
average, i.e. some weight stayed positive after clipping (so the norm guard did not skip the
normalisation). -/
structure Nondegenerate (g : LayerGraph) (F : Fns) : Prop where
  lin : ∀ b ∈ g.blocks, b.kind = .linear → b.normalized = true → rsum F.linW = 1
  comb : ∀ ub, g.combine = .linear true ub → rsum F.combW = 1

/-! ## structural facts about a graph -/

/-- what the configuration asks for one feature -/
inductive Req where
  | inc | dec | pair (a b : Nat)
  deriving DecidableEq, Repr

def calMeets (c : Calibrator) : Req → Prop
  | .inc => c.mono = 1
  | .dec => c.mono = -1
  | .pair a b => (a, b) ∈ c.pairs

/-- **feature `f` reaches the output only through monotone layers**: its calibrator(s) have the
requested direction / pair, and every lattice or linear axis it feeds is marked increasing. -/
structure Wired (g : LayerGraph) (f : Nat) (r : Req) : Prop where
  cal : ∀ c ∈ g.calibrators, c.feature = f → calMeets c r
  axis : ∀ b ∈ g.blocks, ∀ d, d < b.inputs.length → (b.inputs.getD d default).1 = f →
    b.monos.getD d 0 = 1

/-- every block input is a unit of an existing calibrator whose output range is the input range
of the lattice axis it feeds -/
structure Ranges (g : LayerGraph) : Prop where
  shape : ∀ b ∈ g.blocks, b.kind ≠ .linear → b.sizes.length = b.inputs.length
  feed : ∀ b ∈ g.blocks, ∀ d, d < b.inputs.length →
    ∃ c ∈ g.calibrators, c.feature = (b.inputs.getD d default).1 ∧ (b.inputs.getD d default).2 < c.units ∧
      (b.kind ≠ .linear → c.outMin = some 0 ∧ c.outMax = some ((b.sizes.getD d 0 : ℚ) - 1))

/-- the layer that produces the model output carries the model's output bounds -/
structure BoundsWired (lo hi : Option ℚ) (g : LayerGraph) : Prop where
  outCal : ∀ oc, g.outCal = some oc → oc.outMin = lo ∧ oc.outMax = hi
  nonempty : g.blocks ≠ []
  single : g.combine = .single → g.blocks.length = 1
  lat : g.outCal = none → ∀ b ∈ g.blocks, b.kind ≠ .linear → b.outMin = lo ∧ b.outMax = hi
  lin : g.outCal = none → ∀ b ∈ g.blocks, b.kind = .linear →
    (∀ d, d < b.inputs.length → ∀ c ∈ g.calibrators, c.feature = (b.inputs.getD d default).1 →
      c.outMin = lo ∧ c.outMax = hi) ∧
    ((lo.isSome ∨ hi.isSome) → b.normalized = true ∧ b.useBias = false)
  comb : g.outCal = none → ∀ n ub, g.combine = .linear n ub → (lo.isSome ∨ hi.isSome) →
    n = true ∧ ub = false

/-- every feature's input is one its calibrator accepts -/
def ValidInputs (g : LayerGraph) (x : List ℚ) : Prop :=
  ∀ c ∈ g.calibrators, c.validIn (x.getD c.feature 0)

/-! ## small list facts -/

theorem getD_set_self {α} (l : List α) (d : Nat) (v dflt : α) (h : d < l.length) :
    (l.set d v).getD d dflt = v := by
  simp [List.getD_eq_getElem?_getD, h]

theorem getD_set_ne {α} (l : List α) {d e : Nat} (v dflt : α) (h : d ≠ e) :
    (l.set d v).getD e dflt = l.getD e dflt := by
  simp [List.getD_eq_getElem?_getD, List.getElem?_set_ne h]

theorem set_getD_self (l : List ℚ) (d : Nat) : l.set d (l.getD d 0) = l := by
  apply List.ext_getElem (by simp)
  intro i h1 h2
  by_cases h : d = i
  · subst h; simp [List.getD_eq_getElem?_getD, h2]
  · simp [List.getElem_set_ne h]

theorem set_of_length_le {α} (l : List α) {d : Nat} (v : α) (h : l.length ≤ d) : l.set d v = l :=
  List.set_eq_of_length_le h

theorem clipInputs_nil (x : List ℚ) : clipInputs x [] [] = x := by
  induction x with
  | nil => rfl
  | cons a t ih => simp [clipInputs, clipBV, ih]

theorem call_nil (w : List ℚ) (b : Option ℚ) (x : List ℚ) : call w b [] [] x = dot w x + b.getD 0 := by
  simp [call, clipInputs_nil]

/-- the dot product with weights that are non-negative wherever the inputs differ -/
theorem dot_le_dot : ∀ (w z z' : List ℚ), z.length = z'.length →
    (∀ d, getV z d ≤ getV z' d) → (∀ d, getV z d ≠ getV z' d → 0 ≤ getV w d) → dot w z ≤ dot w z'
  | [], _, _, _, _, _ => by simp [dot]
  | _ :: _, [], [], _, _, _ => by simp [dot]
  | _ :: _, [], _ :: _, h, _, _ => by simp at h
  | _ :: _, _ :: _, [], h, _, _ => by simp at h
  | k :: ks, a :: as, b :: bs, hl, hle, hw => by
    have ih := dot_le_dot ks as bs (by simpa using hl) (fun d => by simpa [getV] using hle (d + 1))
      (fun d hd => by simpa [getV] using hw (d + 1) (by simpa [getV] using hd))
    have h0 : a ≤ b := by simpa [getV] using hle 0
    simp only [dot]
    by_cases hab : a = b
    · subst hab; linarith
    · have hk : 0 ≤ k := by simpa [getV] using hw 0 (by simpa [getV] using hab)
      nlinarith [mul_le_mul_of_nonneg_left h0 hk]

theorem rsum_le_rsum : ∀ (a b : List ℚ), List.Forall₂ (· ≤ ·) a b → rsum a ≤ rsum b
  | _, _, .nil => le_rfl
  | _, _, .cons h t => by simp only [rsum]; linarith [rsum_le_rsum _ _ t]

theorem forall₂_getV {a b : List ℚ} (h : List.Forall₂ (· ≤ ·) a b) (d : Nat) : getV a d ≤ getV b d := by
  induction h generalizing d with
  | nil => simp [getV]
  | cons h _ ih =>
    cases d with
    | zero => simpa [getV] using h
    | succ d => simpa [getV] using ih d

/-! ## a lattice function that is monotone axis by axis is monotone in several axes at once -/

/-- the first `k` coordinates from `z'`, the rest from `z` -/
def hyb (z z' : List ℚ) : Nat → List ℚ
  | 0 => z
  | k + 1 => (hyb z z' k).set k (z'.getD k 0)

theorem hyb_length (z z' : List ℚ) (k : Nat) : (hyb z z' k).length = z.length := by
  induction k with
  | zero => rfl
  | succ k ih => simp [hyb, ih]

theorem hyb_getD (z z' : List ℚ) (k d : Nat) (hd : d < z.length) :
    (hyb z z' k).getD d 0 = if d < k then z'.getD d 0 else z.getD d 0 := by
  induction k with
  | zero => simp [hyb]
  | succ k ih =>
    simp only [hyb]
    by_cases h : k = d
    · subst h
      rw [getD_set_self _ _ _ _ (by rw [hyb_length]; exact hd)]; simp
    · rw [getD_set_ne _ _ _ h, ih]
      by_cases h2 : d < k
      · simp [h2, Nat.lt_succ_of_lt h2]
      · have : ¬ d < k + 1 := by omega
        simp [h2, this]

theorem hyb_full (z z' : List ℚ) (hl : z.length = z'.length) : hyb z z' z.length = z' := by
  apply List.ext_getElem (by rw [hyb_length, hl])
  intro i h1 h2
  have hi : i < z.length := by rwa [hyb_length] at h1
  have := hyb_getD z z' z.length i hi
  simp only [hi, if_true] at this
  simpa [List.getD_eq_getElem?_getD, h1, h2] using this

theorem LatOk.mono_multi {b : Block} {fn : List ℚ → ℚ} (h : LatOk b fn) {z z' : List ℚ}
    (hz : InBox b.sizes z) (hz' : InBox b.sizes z') (hle : ∀ d, z.getD d 0 ≤ z'.getD d 0)
    (hax : ∀ d, d < z.length → z.getD d 0 ≠ z'.getD d 0 → b.monos.getD d 0 = 1) : fn z ≤ fn z' := by
  have hl : z.length = z'.length := by rw [hz.1, hz'.1]
  have key : ∀ k, k ≤ z.length → fn z ≤ fn (hyb z z' k) ∧ InBox b.sizes (hyb z z' k) := by
    intro k
    induction k with
    | zero => intro _; exact ⟨le_rfl, hz⟩
    | succ k ih =>
      intro hk
      obtain ⟨h1, h2⟩ := ih (by omega)
      have hkz : k < z.length := by omega
      have hcur : (hyb z z' k).getD k 0 = z.getD k 0 := by
        rw [hyb_getD _ _ _ _ hkz]; simp
      have hbox : InBox b.sizes (hyb z z' (k + 1)) := by
        refine ⟨by rw [hyb_length]; exact hz.1, fun d hd => ?_⟩
        have hdz : d < z.length := by rw [hz.1]; exact hd
        rw [hyb_getD _ _ _ _ hdz]
        split_ifs
        · exact hz'.2 d hd
        · exact hz.2 d hd
      refine ⟨?_, hbox⟩
      by_cases heq : z.getD k 0 = z'.getD k 0
      · have : hyb z z' (k + 1) = hyb z z' k := by
          simp only [hyb]; rw [← heq, ← hcur]; exact set_getD_self _ _
        rw [this]; exact h1
      · refine le_trans h1 ?_
        simp only [hyb] at hbox ⊢
        exact h.mono _ k _ h2 hbox (hax k hkz heq) (by rw [hcur]; exact hle k)
  have := (key z.length le_rfl).1
  rwa [hyb_full z z' hl] at this

/-! ## composition -/

theorem calInputs_length (F : Fns) (x : List ℚ) (ins : List (Nat × Nat)) :
    (calInputs F x ins).length = ins.length := by simp [calInputs]

theorem calInputs_getD (F : Fns) (x : List ℚ) (ins : List (Nat × Nat)) {d : Nat} (hd : d < ins.length) :
    (calInputs F x ins).getD d 0 =
      F.cal (ins.getD d default).1 (ins.getD d default).2 (x.getD (ins.getD d default).1 0) := by
  simp [calInputs, List.getD_eq_getElem?_getD, hd]

/-- calibrated inputs of a lattice block lie on the lattice -/
theorem calInputs_inBox {g : LayerGraph} {F : Fns} (hF : FnsOk g F) (hR : Ranges g) {b : Block}
    (hb : b ∈ g.blocks) (hk : b.kind ≠ .linear) (x : List ℚ) (hx : ValidInputs g x) :
    InBox b.sizes (calInputs F x b.inputs) := by
  have hs := hR.shape b hb hk
  refine ⟨by rw [calInputs_length, hs], fun d hd => ?_⟩
  have hd' : d < b.inputs.length := by rw [← hs]; exact hd
  obtain ⟨c, hc, hcf, hcu, hcb⟩ := hR.feed b hb d hd'
  obtain ⟨h0, h1⟩ := hcb hk
  have := (hF.cal c hc _ hcu).bounds (x.getD (b.inputs.getD d default).1 0) (by rw [← hcf]; exact hx c hc)
  rw [hcf] at this
  rw [calInputs_getD _ _ _ hd']
  exact ⟨this.1 0 h0, this.2 _ h1⟩

theorem blockOut_lat (F : Fns) (x : List ℚ) (i : Nat) {b : Block} (hk : b.kind ≠ .linear) :
    blockOut F x i b = F.lat i (calInputs F x b.inputs) := by
  unfold blockOut; cases hkk : b.kind <;> simp_all

theorem blockOut_lin (F : Fns) (x : List ℚ) (i : Nat) {b : Block} (hk : b.kind = .linear) :
    blockOut F x i b =
      call F.linW (if b.useBias then some F.linB else none) [] [] (calInputs F x b.inputs) := by
  unfold blockOut; simp [hk]

/-- pointwise `≤` of two lists of block outputs -/
theorem blockOutsFrom_le (F : Fns) (x x' : List ℚ) :
    ∀ (bs : List Block) (i : Nat), (∀ j b, bs[j]? = some b → blockOut F x (i + j) b ≤ blockOut F x' (i + j) b) →
      List.Forall₂ (· ≤ ·) (blockOutsFrom F x i bs) (blockOutsFrom F x' i bs)
  | [], _, _ => .nil
  | b :: bs, i, h => by
    refine .cons (by simpa using h 0 b rfl) (blockOutsFrom_le F x x' bs (i + 1) fun j b' hj => ?_)
    have := h (j + 1) b' (by simpa using hj)
    rwa [show i + (j + 1) = i + 1 + j by omega] at this

theorem blockOutsFrom_length (F : Fns) (x : List ℚ) : ∀ (bs : List Block) (i : Nat),
    (blockOutsFrom F x i bs).length = bs.length
  | [], _ => rfl
  | _ :: bs, i => by simp [blockOutsFrom, blockOutsFrom_length F x bs (i + 1)]

theorem blockOutsFrom_mem (F : Fns) (x : List ℚ) : ∀ (bs : List Block) (i : Nat) (y : ℚ),
    y ∈ blockOutsFrom F x i bs → ∃ j b, bs[j]? = some b ∧ y = blockOut F x (i + j) b
  | [], _, _, h => by simp [blockOutsFrom] at h
  | b :: bs, i, y, h => by
    simp only [blockOutsFrom, List.mem_cons] at h
    rcases h with h | h
    · exact ⟨0, b, rfl, by simpa using h⟩
    · obtain ⟨j, b', hj, hy⟩ := blockOutsFrom_mem F x bs (i + 1) y h
      exact ⟨j + 1, b', by simpa using hj, by rw [hy]; congr 1; omega⟩

/-- **composition of monotone maps.** If `x` and `x'` agree outside feature `f`, every calibrator
unit of `f` maps `x_f` below `x'_f`, and every axis fed by `f` is marked increasing, then the model
output at `x` is at most the output at `x'`. -/
theorem forward_le {g : LayerGraph} {F : Fns} (hF : FnsOk g F) (hR : Ranges g) (f : Nat)
    (haxis : ∀ b ∈ g.blocks, ∀ d, d < b.inputs.length → (b.inputs.getD d default).1 = f →
      b.monos.getD d 0 = 1)
    (x x' : List ℚ) (hx : ValidInputs g x) (hx' : ValidInputs g x')
    (hsame : ∀ j, j ≠ f → x.getD j 0 = x'.getD j 0)
    (hcal : ∀ c ∈ g.calibrators, c.feature = f → ∀ u, u < c.units →
      F.cal f u (x.getD f 0) ≤ F.cal f u (x'.getD f 0)) :
    forward g F x ≤ forward g F x' := by
  -- calibrated inputs of every block: pointwise ≤, different only on axes fed by `f`
  have hcoord : ∀ b ∈ g.blocks, ∀ d,
      (calInputs F x b.inputs).getD d 0 ≤ (calInputs F x' b.inputs).getD d 0 ∧
      ((calInputs F x b.inputs).getD d 0 ≠ (calInputs F x' b.inputs).getD d 0 →
        d < b.inputs.length ∧ b.monos.getD d 0 = 1) := by
    intro b hb d
    by_cases hd : d < b.inputs.length
    · rw [calInputs_getD _ _ _ hd, calInputs_getD _ _ _ hd]
      by_cases hf : (b.inputs.getD d default).1 = f
      · obtain ⟨c, hc, hcf, hcu, _⟩ := hR.feed b hb d hd
        rw [hf] at hcf ⊢
        exact ⟨hcal c hc hcf _ hcu, fun _ => ⟨hd, haxis b hb d hd hf⟩⟩
      · rw [hsame _ hf]; exact ⟨le_rfl, fun h => absurd rfl h⟩
    · have h1 : (calInputs F x b.inputs).getD d 0 = 0 := by
        rw [List.getD_eq_getElem?_getD, List.getElem?_eq_none (by rw [calInputs_length]; omega)]; rfl
      have h2 : (calInputs F x' b.inputs).getD d 0 = 0 := by
        rw [List.getD_eq_getElem?_getD, List.getElem?_eq_none (by rw [calInputs_length]; omega)]; rfl
      rw [h1, h2]; exact ⟨le_rfl, fun h => absurd rfl h⟩
  have hblocks : List.Forall₂ (· ≤ ·) (blockOutsFrom F x 0 g.blocks) (blockOutsFrom F x' 0 g.blocks) := by
    apply blockOutsFrom_le
    intro j b hj
    have hb : b ∈ g.blocks := List.mem_of_getElem? hj
    simp only [Nat.zero_add]
    by_cases hk : b.kind = .linear
    · rw [blockOut_lin _ _ _ hk, blockOut_lin _ _ _ hk, call_nil, call_nil]
      have := dot_le_dot F.linW _ _ (by rw [calInputs_length, calInputs_length])
        (fun d => (hcoord b hb d).1)
        (fun d hd => (hF.lin b hb hk).1 d ((hcoord b hb d).2 hd).2)
      linarith
    · have hlat := hF.lat j b hj hk
      rw [blockOut_lat _ _ _ hk, blockOut_lat _ _ _ hk]
      exact hlat.mono_multi (calInputs_inBox hF hR hb hk x hx) (calInputs_inBox hF hR hb hk x' hx')
        (fun d => (hcoord b hb d).1) (fun d _ hd => ((hcoord b hb d).2 hd).2)
  have hcomb : combineOut g F (blockOutsFrom F x 0 g.blocks) ≤ combineOut g F (blockOutsFrom F x' 0 g.blocks) := by
    unfold combineOut
    cases hc : g.combine with
    | single =>
      simp only
      generalize blockOutsFrom F x 0 g.blocks = ys at hblocks
      generalize blockOutsFrom F x' 0 g.blocks = ys' at hblocks
      cases hblocks with
      | nil => simp
      | cons h _ => simpa using h
    | average =>
      simp only
      rw [blockOutsFrom_length, blockOutsFrom_length]
      exact div_le_div_of_nonneg_right (rsum_le_rsum _ _ hblocks) (by exact_mod_cast Nat.zero_le _)
    | linear n ub =>
      simp only
      rw [call_nil, call_nil]
      have := dot_le_dot F.combW _ _ (by rw [blockOutsFrom_length, blockOutsFrom_length])
        (forall₂_getV hblocks) (fun d _ => (hF.comb n ub hc).1 d)
      linarith
  unfold forward
  cases ho : g.outCal with
  | none => simpa using hcomb
  | some oc => simpa using (hF.out oc ho).1 _ _ hcomb

/-! ## bounds -/

theorem inB_avg (lo hi : Option ℚ) : ∀ (ys : List ℚ), ys ≠ [] → (∀ y ∈ ys, inB lo hi y) →
    inB lo hi (rsum ys / (ys.length : ℚ)) := by
  intro ys hne hy
  have hpos : (0 : ℚ) < ys.length := by
    have : 0 < ys.length := List.length_pos_iff.mpr hne
    exact_mod_cast this
  have hlo : ∀ l, lo = some l → l * ys.length ≤ rsum ys := by
    intro l hl
    clear hpos hne
    induction ys with
    | nil => simp [rsum]
    | cons a t ih =>
      have := ih (fun y hy' => hy y (List.mem_cons_of_mem _ hy'))
      have ha := (hy a List.mem_cons_self).1 l hl
      simp only [rsum, List.length_cons]; push_cast; linarith
  have hhi : ∀ h, hi = some h → rsum ys ≤ h * ys.length := by
    intro h hh
    clear hpos hne hlo
    induction ys with
    | nil => simp [rsum]
    | cons a t ih =>
      have := ih (fun y hy' => hy y (List.mem_cons_of_mem _ hy'))
      have ha := (hy a List.mem_cons_self).2 h hh
      simp only [rsum, List.length_cons]; push_cast; linarith
  exact ⟨fun l hl => (le_div_iff₀ hpos).mpr (hlo l hl), fun h hh => (div_le_iff₀ hpos).mpr (hhi h hh)⟩

theorem dot_ge (l : ℚ) : ∀ (w ys : List ℚ), w.length = ys.length → (∀ i, 0 ≤ getV w i) →
    (∀ y ∈ ys, l ≤ y) → l * rsum w ≤ dot w ys
  | [], [], _, _, _ => by simp [dot, rsum]
  | [], _ :: _, h, _, _ => by simp at h
  | _ :: _, [], h, _, _ => by simp at h
  | a :: w, y :: ys, hl, hw, hy => by
    have ih := dot_ge l w ys (by simpa using hl) (fun i => by simpa [getV] using hw (i + 1))
      (fun y' h => hy y' (List.mem_cons_of_mem _ h))
    have ha : 0 ≤ a := by simpa [getV] using hw 0
    have h0 := hy y List.mem_cons_self
    simp only [dot, rsum]
    nlinarith [mul_le_mul_of_nonneg_left h0 ha]

theorem dot_le (h : ℚ) : ∀ (w ys : List ℚ), w.length = ys.length → (∀ i, 0 ≤ getV w i) →
    (∀ y ∈ ys, y ≤ h) → dot w ys ≤ h * rsum w
  | [], [], _, _, _ => by simp [dot, rsum]
  | [], _ :: _, hl, _, _ => by simp at hl
  | _ :: _, [], hl, _, _ => by simp at hl
  | a :: w, y :: ys, hl, hw, hy => by
    have ih := dot_le h w ys (by simpa using hl) (fun i => by simpa [getV] using hw (i + 1))
      (fun y' h' => hy y' (List.mem_cons_of_mem _ h'))
    have ha : 0 ≤ a := by simpa [getV] using hw 0
    have h0 := hy y List.mem_cons_self
    simp only [dot, rsum]
    nlinarith [mul_le_mul_of_nonneg_left h0 ha]

/-- a weighted average (non-negative weights summing to one) of values in `[lo, hi]` -/
theorem inB_dot (lo hi : Option ℚ) (w ys : List ℚ) (hlen : w.length = ys.length)
    (hw : ∀ i, 0 ≤ getV w i) (hs : rsum w = 1) (hy : ∀ y ∈ ys, inB lo hi y) : inB lo hi (dot w ys) := by
  constructor
  · intro l hl
    have := dot_ge l w ys hlen hw (fun y h => (hy y h).1 l hl)
    rwa [hs, mul_one] at this
  · intro h hh
    have := dot_le h w ys hlen hw (fun y h' => (hy y h').2 h hh)
    rwa [hs, mul_one] at this

theorem inB_none (y : ℚ) : inB none none y := ⟨fun _ h => (by cases h), fun _ h => (by cases h)⟩

theorem inB_of_unbounded {lo hi : Option ℚ} (h : ¬ (lo.isSome ∨ hi.isSome)) (y : ℚ) : inB lo hi y := by
  cases lo <;> cases hi <;> simp at h
  exact inB_none y

/-- **output bounds.** With the structural facts of the graph, the per-layer properties and the
excluding hypothesis of F-C03-a, the model output lies within `[lo, hi]` at EVERY input (missing
values included: the calibrators are bounded at every valid input). -/
theorem forward_bounds {g : LayerGraph} {F : Fns} (lo hi : Option ℚ) (hF : FnsOk g F) (hR : Ranges g)
    (hB : BoundsWired lo hi g) (hN : Nondegenerate g F) (x : List ℚ) (hx : ValidInputs g x) :
    inB lo hi (forward g F x) := by
  unfold forward
  cases ho : g.outCal with
  | some oc =>
    obtain ⟨e1, e2⟩ := hB.outCal oc ho
    simpa [e1, e2] using (hF.out oc ho).2 (combineOut g F (blockOutsFrom F x 0 g.blocks))
  | none =>
    simp only
    have hblk : ∀ y ∈ blockOutsFrom F x 0 g.blocks, inB lo hi y := by
      intro y hy
      obtain ⟨j, b, hj, rfl⟩ := blockOutsFrom_mem F x g.blocks 0 y hy
      have hb : b ∈ g.blocks := List.mem_of_getElem? hj
      simp only [Nat.zero_add]
      by_cases hk : b.kind = .linear
      · rw [blockOut_lin _ _ _ hk]
        by_cases hbd : lo.isSome ∨ hi.isSome
        · obtain ⟨hc, hn⟩ := hB.lin ho b hb hk
          obtain ⟨hnorm, hbias⟩ := hn hbd
          obtain ⟨hlen, hw, _⟩ := (hF.lin b hb hk).2 hnorm
          rw [call_nil, hbias]
          simp only [Bool.false_eq_true, if_false, Option.getD_none, add_zero]
          apply inB_dot lo hi _ _ (by rw [hlen, calInputs_length]) hw (hN.lin b hb hk hnorm)
          intro y hy
          obtain ⟨d, hd, rfl⟩ := List.mem_iff_getElem.mp hy
          have hd' : d < b.inputs.length := by rwa [calInputs_length] at hd
          obtain ⟨c, hcm, hcf, hcu, _⟩ := hR.feed b hb d hd'
          have hcb := hc d hd' c hcm hcf
          have := (hF.cal c hcm _ hcu).bounds (x.getD (b.inputs.getD d default).1 0) (by rw [← hcf]; exact hx c hcm)
          rw [hcb.1, hcb.2, hcf] at this
          have e := calInputs_getD F x b.inputs hd'
          rw [List.getD_eq_getElem?_getD, List.getElem?_eq_getElem hd, Option.getD_some] at e
          rw [e]; exact this
        · exact inB_of_unbounded hbd _
      · rw [blockOut_lat _ _ _ hk]
        obtain ⟨e1, e2⟩ := hB.lat ho b hb hk
        have := (hF.lat j b hj hk).bounds _ (calInputs_inBox hF hR hb hk x hx)
        rwa [e1, e2] at this
    unfold combineOut
    cases hc : g.combine with
    | single =>
      simp only
      have hl := hB.single hc
      have : (blockOutsFrom F x 0 g.blocks).length = 1 := by rw [blockOutsFrom_length]; exact hl
      obtain ⟨y, hbo⟩ := List.length_eq_one_iff.mp this
      rw [hbo]
      simpa using hblk y (by rw [hbo]; simp)
    | average =>
      simp only
      apply inB_avg lo hi _ _ hblk
      intro h
      have := congrArg List.length h
      rw [blockOutsFrom_length] at this
      exact hB.nonempty (List.length_eq_zero_iff.mp this)
    | linear n ub =>
      simp only
      by_cases hbd : lo.isSome ∨ hi.isSome
      · obtain ⟨hn, hub⟩ := hB.comb ho n ub hc hbd
        subst hn; subst hub
        obtain ⟨hlen, hw, _⟩ := (hF.comb true false hc).2 rfl
        rw [call_nil]
        simp only [Bool.false_eq_true, if_false, Option.getD_none, add_zero]
        exact inB_dot lo hi _ _ (by rw [hlen, blockOutsFrom_length]) hw (hN.comb false hc) hblk
      · exact inB_of_unbounded hbd _

end Tfl.Premade
