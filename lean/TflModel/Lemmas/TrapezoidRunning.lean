import TflModel.Lemmas.TrapezoidBump
/-! C01-T3 with the MATCHING Edgeworth trust present (`runningMax` mode — the most common
configuration in practice): `_trapezoid_violation_update` returns
`max(max(reduce_max(diff), 0), prior_update)`, so the scalar carried along the `for j` loop is
non-decreasing in `j`. One iteration is two `bump`s with the carried scalars; the loop is an
iteration over states `(w, U, R)`.

The new fact proved here: the matching Edgeworth trust (same grid `(m, c)`, same direction) survives
the WHOLE loop although intermediate states violate it (`gat_rmLoop`: closed form of every grid
value after `k` iterations; `eviol_rmLoop`: the resulting exact change of every Edgeworth square;
`rmLoop_edge_pos` / `rmLoop_edge_neg`). -/
namespace Tfl.Lat
open Tfl

/-! ### closed form of one iteration -/

/-- two translations: everything behind grid point `(0, y)` goes down by `U`, everything behind
`(M-1, y)` goes up by `R` -/
def bbStep (m c M y : Nat) (U R : ℚ) (w : W) : W := bump m c (M - 1) y R (bump m c 0 y (-U) w)

/-- the carried low-side scalar after iteration `j` from state `s` -/
def rmU (bs : List Idx) (m c N : Nat) (pos : Bool) (s : TrapState) (j : Nat) : ℚ :=
  max (maxOver bs (lhsDiff s.w m c N pos j)) s.lhs
/-- the carried high-side scalar after iteration `j` from state `s` -/
def rmR (bs : List Idx) (m c M N : Nat) (pos : Bool) (s : TrapState) (j : Nat) : ℚ :=
  max (maxOver bs (rhsDiff (bump m c 0 (jn N pos j) (- rmU bs m c N pos s j) s.w) m c M N pos j)) s.rhs

/-- one `runningMax` iteration, closed form on the state `(w, U, R)` -/
def rmStep (bs : List Idx) (m c M N : Nat) (pos : Bool) (s : TrapState) (j : Nat) : TrapState :=
  ⟨bbStep m c M (jn N pos j) (rmU bs m c N pos s j) (rmR bs m c M N pos s j) s.w,
    rmU bs m c N pos s j, rmR bs m c M N pos s j⟩

/-- in `runningMax` mode an iteration is exactly two `bump`s by the carried scalars -/
theorem trapStep_rm_eq (bs : List Idx) (m c M N : Nat) (pos : Bool) (s : TrapState) (j : Nat) :
    trapStep bs m c M N pos .runningMax s j = rmStep bs m c M N pos s j := by
  have h1 : (fun idx => if coord idx m = 0 ∧ coord idx c = jn N pos j then
        s.w idx - trapAmount .runningMax (lhsDiff s.w m c N pos j idx)
          (trapScalar .runningMax bs (lhsDiff s.w m c N pos j) s.lhs) else s.w idx) =
      bump m c 0 (jn N pos j) (- rmU bs m c N pos s j) s.w := by
    funext idx
    simp only [bump, trapAmount, trapScalar, rmU]
    split <;> ring
  simp only [trapStep]
  rw [h1]
  simp only [rmStep, bbStep, rmR, rmU, trapAmount, trapScalar, TrapState.mk.injEq, and_true]
  funext idx
  simp only [bump]
  split_ifs <;> ring

theorem rmU_nonneg (bs : List Idx) (m c N : Nat) (pos : Bool) (s : TrapState) (j : Nat) :
    0 ≤ rmU bs m c N pos s j := le_trans (maxOver_nonneg _ _) (le_max_left _ _)
theorem rmR_nonneg (bs : List Idx) (m c M N : Nat) (pos : Bool) (s : TrapState) (j : Nat) :
    0 ≤ rmR bs m c M N pos s j := le_trans (maxOver_nonneg _ _) (le_max_left _ _)
/-- the carried scalars never decrease -/
theorem rmU_ge_prior (bs : List Idx) (m c N : Nat) (pos : Bool) (s : TrapState) (j : Nat) :
    s.lhs ≤ rmU bs m c N pos s j := le_max_right _ _
theorem rmR_ge_prior (bs : List Idx) (m c M N : Nat) (pos : Bool) (s : TrapState) (j : Nat) :
    s.rhs ≤ rmR bs m c M N pos s j := le_max_right _ _

/-! ### the loop -/

/-- the loop state after the first `k` iterations (`runningMax` mode) -/
def rmLoop (bs : List Idx) (m c M N : Nat) (pos : Bool) (w : W) (k : Nat) : TrapState :=
  (List.range k).foldl (trapStep bs m c M N pos .runningMax) ⟨w, 0, 0⟩

theorem rmLoop_zero (bs : List Idx) (m c M N : Nat) (pos : Bool) (w : W) :
    rmLoop bs m c M N pos w 0 = ⟨w, 0, 0⟩ := rfl
theorem rmLoop_succ (bs : List Idx) (m c M N : Nat) (pos : Bool) (w : W) (k : Nat) :
    rmLoop bs m c M N pos w (k + 1) = rmStep bs m c M N pos (rmLoop bs m c M N pos w k) k := by
  simp [rmLoop, List.range_succ, List.foldl_append, trapStep_rm_eq]

/-- the weights after iteration `k`: two bumps by the NEW carried scalars -/
theorem rmLoop_w_succ (bs : List Idx) (m c M N : Nat) (pos : Bool) (w : W) (k : Nat) :
    (rmLoop bs m c M N pos w (k + 1)).w =
      bbStep m c M (jn N pos k) (rmLoop bs m c M N pos w (k + 1)).lhs (rmLoop bs m c M N pos w (k + 1)).rhs
        (rmLoop bs m c M N pos w k).w := by
  rw [rmLoop_succ]; rfl

/-- `U` is non-decreasing along the loop -/
theorem rmLoop_lhs_mono (bs : List Idx) (m c M N : Nat) (pos : Bool) (w : W) (k : Nat) :
    (rmLoop bs m c M N pos w k).lhs ≤ (rmLoop bs m c M N pos w (k + 1)).lhs := by
  rw [rmLoop_succ]; exact rmU_ge_prior _ _ _ _ _ _ _
/-- `R` is non-decreasing along the loop -/
theorem rmLoop_rhs_mono (bs : List Idx) (m c M N : Nat) (pos : Bool) (w : W) (k : Nat) :
    (rmLoop bs m c M N pos w k).rhs ≤ (rmLoop bs m c M N pos w (k + 1)).rhs := by
  rw [rmLoop_succ]; exact rmR_ge_prior _ _ _ _ _ _ _ _
theorem rmLoop_lhs_nonneg (bs : List Idx) (m c M N : Nat) (pos : Bool) (w : W) (k : Nat) :
    0 ≤ (rmLoop bs m c M N pos w k).lhs := by
  cases k with
  | zero => exact le_rfl
  | succ k => rw [rmLoop_succ]; exact rmU_nonneg _ _ _ _ _ _ _
theorem rmLoop_rhs_nonneg (bs : List Idx) (m c M N : Nat) (pos : Bool) (w : W) (k : Nat) :
    0 ≤ (rmLoop bs m c M N pos w k).rhs := by
  cases k with
  | zero => exact le_rfl
  | succ k => rw [rmLoop_succ]; exact rmR_nonneg _ _ _ _ _ _ _ _

/-- any property of kernels kept by every two-bump step with non-negative scalars is kept by the loop -/
theorem rmLoop_keeps (bs : List Idx) (m c M N : Nat) (pos : Bool) (Q : W → Prop)
    (hstep : ∀ j v (U R : ℚ), j + 1 < N → 0 ≤ U → 0 ≤ R → Q v → Q (bbStep m c M (jn N pos j) U R v))
    (w : W) (hw : Q w) : ∀ k, k ≤ N - 1 → Q (rmLoop bs m c M N pos w k).w := by
  intro k
  induction k with
  | zero => intro _; exact hw
  | succ k ih =>
    intro hk
    rw [rmLoop_w_succ]
    exact hstep k _ _ _ (by omega) (rmLoop_lhs_nonneg _ _ _ _ _ _ _ _) (rmLoop_rhs_nonneg _ _ _ _ _ _ _ _)
      (ih (by omega))

/-! ### grid values after `k` iterations -/

theorem gat_bump {m c : Nat} {b : Idx} (hg : GridOK m c b) (a0 y0 : Nat) (V : ℚ) (w : W) (a y : Nat) :
    gat (bump m c a0 y0 V w) m c a y b =
      if a = a0 ∧ y = y0 then gat w m c a y b + V else gat w m c a y b := by
  simp only [gat, bump, coord_grid_m hg, coord_grid_c hg]

/-- the iteration (counted from 1) that writes conditional layer `y`; layer `jc 0` is never written
and gets 0 -/
def tau (N : Nat) (pos : Bool) (y : Nat) : Nat := if pos then y else N - 1 - y

theorem tau_jn {N : Nat} (pos : Bool) {j y : Nat} (hj : j + 1 < N) (hy : y < N) :
    y = jn N pos j ↔ tau N pos y = j + 1 := by
  cases pos <;> simp [jn, tau]
  all_goals omega

/-- **closed form of the loop state.** After `k` iterations the value at grid point `(a, y)` (behind
position `b`) is the original one, minus `U_{τ y}` on row 0, plus `R_{τ y}` on row `M-1`, for the
layers already written (`τ y ≤ k`); `U_t`, `R_t` are the carried scalars after `t` iterations. -/
theorem gat_rmLoop (bs : List Idx) (m c M N : Nat) (pos : Bool) (w : W) {b : Idx} (hg : GridOK m c b)
    (a y : Nat) (hy : y < N) :
    ∀ k, k ≤ N - 1 →
      gat (rmLoop bs m c M N pos w k).w m c a y b = gat w m c a y b +
        (if tau N pos y ≤ k then
          (if a = M - 1 then (rmLoop bs m c M N pos w (tau N pos y)).rhs else 0) -
          (if a = 0 then (rmLoop bs m c M N pos w (tau N pos y)).lhs else 0)
         else 0) := by
  intro k
  induction k with
  | zero =>
    intro _
    by_cases h : tau N pos y ≤ 0
    · have h0 : tau N pos y = 0 := by omega
      simp only [h0, le_refl, if_true, rmLoop_zero]
      split_ifs <;> simp
    · simp only [h, if_false, rmLoop_zero, add_zero]
  | succ k ih =>
    intro hk
    have hjn := tau_jn pos (show k + 1 < N by omega) hy
    rw [rmLoop_w_succ, bbStep, gat_bump hg, gat_bump hg, ih (by omega)]
    by_cases h1 : tau N pos y ≤ k
    · have hne : ¬ y = jn N pos k := fun e => by have := hjn.mp e; omega
      have h1' : tau N pos y ≤ k + 1 := by omega
      simp only [hne, and_false, if_false, h1, h1', if_true]
    · by_cases h2 : tau N pos y = k + 1
      · have he : y = jn N pos k := hjn.mpr h2
        have h3 : ¬ (k + 1 ≤ k) := by omega
        simp only [h2, h3, if_false, le_refl, if_true, ← he, and_true]
        split_ifs <;> ring
      · have hne : ¬ y = jn N pos k := fun e => h2 (hjn.mp e)
        have h1' : ¬ tau N pos y ≤ k + 1 := by omega
        simp only [hne, and_false, if_false, h1, h1']

/-- the carried scalars "as seen after `k` iterations": 0 for layers not yet written -/
def lhsSeen (bs : List Idx) (m c M N : Nat) (pos : Bool) (w : W) (k t : Nat) : ℚ :=
  if t ≤ k then (rmLoop bs m c M N pos w t).lhs else 0
def rhsSeen (bs : List Idx) (m c M N : Nat) (pos : Bool) (w : W) (k t : Nat) : ℚ :=
  if t ≤ k then (rmLoop bs m c M N pos w t).rhs else 0

/-- **exact change of every Edgeworth square of the matching grid after `k` iterations**: squares on
row 0 change by `U_{τ jj} − U_{τ (jj+1)}`, squares touching row `M-1` by `R_{τ jj} − R_{τ (jj+1)}`
(both terms when `M = 2`), squares strictly in between are untouched. For direction + and
`jj < k` this is `U_{jj} − U_{jj+1} ≤ 0`; for `jj = k` it is `+U_k` (the intermediate violation);
for `jj > k` it is 0. -/
theorem eviol_rmLoop (bs : List Idx) (m c M N : Nat) (pos : Bool) (w : W) {b : Idx} (hg : GridOK m c b)
    {i jj : Nat} (hi : i + 1 < M) (hj : jj + 1 < N) {k : Nat} (hk : k ≤ N - 1) :
    eviol (rmLoop bs m c M N pos w k).w m c i jj b = eviol w m c i jj b +
      (if i = 0 then lhsSeen bs m c M N pos w k (tau N pos jj) - lhsSeen bs m c M N pos w k (tau N pos (jj + 1))
        else 0) +
      (if i + 1 = M - 1 then
        rhsSeen bs m c M N pos w k (tau N pos jj) - rhsSeen bs m c M N pos w k (tau N pos (jj + 1)) else 0) := by
  have e1 : ¬ (i + 1 = 0) := by omega
  have e2 : ¬ (i = M - 1) := by omega
  simp only [eviol, gat_rmLoop bs m c M N pos w hg _ _ (show jj < N by omega) k hk,
    gat_rmLoop bs m c M N pos w hg _ _ hj k hk, e1, e2, if_false, lhsSeen, rhsSeen]
  split_ifs <;> ring

end Tfl.Lat

namespace Tfl.Lat
open Tfl
variable {sizes : List Nat}

/-! ### what the carried scalars do to the matching Edgeworth trust -/

/-- direction +: after the WHOLE loop no square of the matching grid is more violated than before -/
theorem rmLoop_edge_pos (bs : List Idx) (m c M N : Nat) (w : W) {b : Idx} (hg : GridOK m c b)
    {i jj : Nat} (hi : i + 1 < M) (hj : jj + 1 < N) :
    eviol (rmLoop bs m c M N true w (N - 1)).w m c i jj b ≤ eviol w m c i jj b := by
  rw [eviol_rmLoop bs m c M N true w hg hi hj le_rfl]
  have t1 : tau N true jj = jj := by simp [tau]
  have t2 : tau N true (jj + 1) = jj + 1 := by simp [tau]
  have c1 : jj ≤ N - 1 := by omega
  have c2 : jj + 1 ≤ N - 1 := by omega
  have hl := rmLoop_lhs_mono bs m c M N true w jj
  have hr := rmLoop_rhs_mono bs m c M N true w jj
  simp only [lhsSeen, rhsSeen, t1, t2, c1, c2, if_true]
  split_ifs <;> linarith

/-- direction −: after the WHOLE loop no square of the matching grid is more violated than before -/
theorem rmLoop_edge_neg (bs : List Idx) (m c M N : Nat) (w : W) {b : Idx} (hg : GridOK m c b)
    {i jj : Nat} (hi : i + 1 < M) (hj : jj + 1 < N) :
    eviol w m c i jj b ≤ eviol (rmLoop bs m c M N false w (N - 1)).w m c i jj b := by
  rw [eviol_rmLoop bs m c M N false w hg hi hj le_rfl]
  have t1 : tau N false jj = (N - 2 - jj) + 1 := by simp [tau]; omega
  have t2 : tau N false (jj + 1) = N - 2 - jj := by simp [tau]; omega
  have c1 : (N - 2 - jj) + 1 ≤ N - 1 := by omega
  have c2 : N - 2 - jj ≤ N - 1 := by omega
  have hl := rmLoop_lhs_mono bs m c M N false w (N - 2 - jj)
  have hr := rmLoop_rhs_mono bs m c M N false w (N - 2 - jj)
  simp only [lhsSeen, rhsSeen, t1, t2, c1, c2, if_true]
  split_ifs <;> linarith

/-! ### the generic two-bump step: everything `mbStep` had -/

/-- monotonicity along every axis other than the conditional one is kept -/
theorem bbStep_mono (tr : Trust) (hwf : TrustWF sizes tr) (y : Nat) {U R : ℚ} (hU : 0 ≤ U) (hR : 0 ≤ R)
    {d : Nat} (hd : d < sizes.length) (hdc : d ≠ tr.cond) {w : W} (h : MonoAx sizes d w) :
    MonoAx sizes d (bbStep tr.main tr.cond (sizes.getD tr.main 0) y U R w) := by
  unfold bbStep
  by_cases e1 : d = tr.main
  · subst e1
    exact bump_rowM_mono_main hR hwf.1 (bump_row0_mono_main (by linarith) hwf.1 h)
  · rw [monoAx_iff_axisLe _ _ hd] at h ⊢
    exact bump_axisLe_behind e1 hdc (bump_axisLe_behind e1 hdc h)

/-- every Edgeworth trust on another grid is kept -/
theorem bbStep_edgeOK (tr tr' : Trust) (hwf : TrustWF sizes tr) (hwf' : TrustWF sizes tr')
    (hc : Compatible tr tr') (y : Nat) (U R : ℚ) {w : W} (h : EdgeOK sizes tr' w) :
    EdgeOK sizes tr' (bbStep tr.main tr.cond (sizes.getD tr.main 0) y U R w) := by
  have step : ∀ (a k : Nat) (V : ℚ) (w : W), EdgeOK sizes tr' w →
      EdgeOK sizes tr' (bump tr.main tr.cond a k V w) := by
    intro a k V w hw idx hr i j hi hj
    rw [eviol_bump_other (by rw [hr.1]; exact hwf.1) (by rw [hr.1]; exact hwf.2.1)
      (by rw [hr.1]; exact hwf'.1) (by rw [hr.1]; exact hwf'.2.1) hwf'.2.2 hc.1 hc.2.1 hc.2.2]
    exact hw idx hr i j hi hj
  unfold bbStep
  exact step _ _ _ _ (step _ _ _ _ h)

/-- trapezoid trusts with a different conditional axis are kept -/
theorem bbStep_trapOK_other (tr tr' : Trust) (hc1 : tr'.cond ≠ tr.main) (hc2 : tr'.cond ≠ tr.cond) (y : Nat)
    (U R : ℚ) {w : W} (h : TrapOK sizes tr' w) :
    TrapOK sizes tr' (bbStep tr.main tr.cond (sizes.getD tr.main 0) y U R w) := by
  unfold bbStep TrapOK at *
  split
  · rename_i hp; simp only [hp, if_true] at h
    exact ⟨bump_axisGe_behind hc1 hc2 (bump_axisGe_behind hc1 hc2 h.1),
      bump_axisLe_behind hc1 hc2 (bump_axisLe_behind hc1 hc2 h.2)⟩
  · rename_i hp; simp only [hp] at h
    exact ⟨bump_axisLe_behind hc1 hc2 (bump_axisLe_behind hc1 hc2 h.1),
      bump_axisGe_behind hc1 hc2 (bump_axisGe_behind hc1 hc2 h.2)⟩

theorem bbStep_off_column (m c M y : Nat) (U R : ℚ) (w : W) {idx : Idx} (h : coord idx c ≠ y) :
    bbStep m c M y U R w idx = w idx := by
  simp [bbStep, bump, h]
theorem bbStep_row0 (m c M y : Nat) (hM : 2 ≤ M) (U R : ℚ) (w : W) {idx : Idx} (h0 : coord idx m = 0)
    (hc : coord idx c = y) : bbStep m c M y U R w idx = w idx - U := by
  have : ¬ ((0 : Nat) = M - 1) := by omega
  simp only [bbStep, bump, h0, hc, this, false_and, if_false, true_and, if_true]
  ring
theorem bbStep_rowM (m c M y : Nat) (hM : 2 ≤ M) (U R : ℚ) (w : W) {idx : Idx} (h0 : coord idx m = M - 1)
    (hc : coord idx c = y) : bbStep m c M y U R w idx = w idx + R := by
  have : ¬ (M - 1 = 0) := by omega
  simp only [bbStep, bump, h0, hc, this, false_and, if_false, true_and, if_true]

/-- a pair of layers that does not contain the modified column is kept -/
theorem bbStep_pair_keep (tr : Trust) (hwf : TrustWF sizes tr) (y : Nat) (U R : ℚ) {w : W} {p : Nat}
    (h1 : y ≠ p) (h2 : y ≠ p + 1) (h : PairOK sizes tr w p) :
    PairOK sizes tr (bbStep tr.main tr.cond (sizes.getD tr.main 0) y U R w) p := by
  have key : ∀ idx, InRange sizes idx → coord idx tr.cond = p →
      bbStep tr.main tr.cond (sizes.getD tr.main 0) y U R w idx = w idx ∧
      bbStep tr.main tr.cond (sizes.getD tr.main 0) y U R w
          (setc idx tr.cond (coord idx tr.cond + 1)) = w (setc idx tr.cond (coord idx tr.cond + 1)) := by
    intro idx hr hc
    have hl : tr.cond < idx.length := by rw [hr.1]; exact hwf.2.1
    refine ⟨bbStep_off_column _ _ _ _ _ _ _ (by omega), bbStep_off_column _ _ _ _ _ _ _ ?_⟩
    rw [coord_setc_same _ hl]; omega
  unfold PairOK at *
  split
  · rename_i hp; simp only [hp, if_true] at h
    refine ⟨fun idx hr hP hlt => ?_, fun idx hr hP hlt => ?_⟩
    · rw [(key idx hr hP.2).1, (key idx hr hP.2).2]; exact h.1 idx hr hP hlt
    · rw [(key idx hr hP.2).1, (key idx hr hP.2).2]; exact h.2 idx hr hP hlt
  · rename_i hp; simp only [hp] at h
    refine ⟨fun idx hr hP hlt => ?_, fun idx hr hP hlt => ?_⟩
    · rw [(key idx hr hP.2).1, (key idx hr hP.2).2]; exact h.1 idx hr hP hlt
    · rw [(key idx hr hP.2).1, (key idx hr hP.2).2]; exact h.2 idx hr hP hlt

/-- a two-bump step whose scalars dominate every violation of its pair of layers establishes the
trapezoid inequalities of that pair -/
theorem bbStep_pair_establish (tr : Trust) (hwf : TrustWF sizes tr) (hM : 2 ≤ sizes.getD tr.main 0) {j : Nat}
    (hj : j + 1 < sizes.getD tr.cond 0) (w : W) {U R : ℚ}
    (hU : ∀ b, InRange sizes b → lhsDiff w tr.main tr.cond (sizes.getD tr.cond 0) tr.pos j b ≤ U)
    (hR : ∀ b, InRange sizes b →
      rhsDiff w tr.main tr.cond (sizes.getD tr.main 0) (sizes.getD tr.cond 0) tr.pos j b ≤ R) :
    PairOK sizes tr
      (bbStep tr.main tr.cond (sizes.getD tr.main 0) (jn (sizes.getD tr.cond 0) tr.pos j) U R w)
      (if tr.pos then j else sizes.getD tr.cond 0 - 2 - j) := by
  have hne : tr.main ≠ tr.cond := hwf.2.2
  have v0 := fun idx => bbStep_row0 tr.main tr.cond (sizes.getD tr.main 0)
    (jn (sizes.getD tr.cond 0) tr.pos j) hM U R w (idx := idx)
  have vM := fun idx => bbStep_rowM tr.main tr.cond (sizes.getD tr.main 0)
    (jn (sizes.getD tr.cond 0) tr.pos j) hM U R w (idx := idx)
  have voff := fun idx => bbStep_off_column tr.main tr.cond (sizes.getD tr.main 0)
    (jn (sizes.getD tr.cond 0) tr.pos j) U R w (idx := idx)
  unfold PairOK
  cases hp : tr.pos
  · -- direction −1: pair index jn = N-2-j, jc = jn + 1
    simp only [hp] at hU hR v0 vM voff
    simp only [Bool.false_eq_true, if_false]
    have hjn : jn (sizes.getD tr.cond 0) false j = sizes.getD tr.cond 0 - 2 - j := by simp [jn]
    have hjc : jc (sizes.getD tr.cond 0) false j = (sizes.getD tr.cond 0 - 2 - j) + 1 := by
      simp only [jc, Bool.false_eq_true, if_false]; omega
    refine ⟨fun idx hr hP hlt => ?_, fun idx hr hP hlt => ?_⟩
    · have hl : tr.cond < idx.length := by rw [hr.1]; exact hwf.2.1
      have hg := gridOK_of_inRange hwf hr
      rw [v0 idx hP.1 (by rw [hjn]; exact hP.2), voff _ (by rw [coord_setc_same _ hl, hjn]; omega)]
      have := hU idx hr
      simp only [lhsDiff, hjn, hjc] at this
      have e1 : gat w tr.main tr.cond 0 (sizes.getD tr.cond 0 - 2 - j) idx = w idx := by
        unfold gat; rw [setc_eq_self hg.1 hP.1, setc_eq_self hg.2.1 hP.2]
      have e2 : gat w tr.main tr.cond 0 (sizes.getD tr.cond 0 - 2 - j + 1) idx =
          w (setc idx tr.cond (coord idx tr.cond + 1)) := by
        unfold gat; rw [setc_eq_self hg.1 hP.1, hP.2]
      rw [e1, e2] at this
      linarith
    · have hl : tr.cond < idx.length := by rw [hr.1]; exact hwf.2.1
      have hg := gridOK_of_inRange hwf hr
      rw [vM idx hP.1 (by rw [hjn]; exact hP.2), voff _ (by rw [coord_setc_same _ hl, hjn]; omega)]
      have := hR idx hr
      simp only [rhsDiff, hjn, hjc] at this
      have e1 : gat w tr.main tr.cond (sizes.getD tr.main 0 - 1) (sizes.getD tr.cond 0 - 2 - j) idx = w idx := by
        unfold gat; rw [setc_eq_self hg.1 hP.1, setc_eq_self hg.2.1 hP.2]
      have e2 : gat w tr.main tr.cond (sizes.getD tr.main 0 - 1) (sizes.getD tr.cond 0 - 2 - j + 1) idx =
          w (setc idx tr.cond (coord idx tr.cond + 1)) := by
        unfold gat; rw [setc_eq_self hg.1 hP.1, hP.2]
      rw [e1, e2] at this
      linarith
  · -- direction +1: pair index jc = j, jn = j + 1
    simp only [hp] at hU hR v0 vM voff
    simp only [if_true]
    have hjn : jn (sizes.getD tr.cond 0) true j = j + 1 := by simp [jn]
    have hjc : jc (sizes.getD tr.cond 0) true j = j := by simp [jc]
    refine ⟨fun idx hr hP hlt => ?_, fun idx hr hP hlt => ?_⟩
    · have hl : tr.cond < idx.length := by rw [hr.1]; exact hwf.2.1
      have hg := gridOK_of_inRange hwf hr
      rw [voff idx (by rw [hjn, hP.2]; omega),
        v0 _ (by rw [coord_setc_ne _ (Ne.symm hne)]; exact hP.1) (by rw [coord_setc_same _ hl, hjn, hP.2])]
      have := hU idx hr
      simp only [lhsDiff, hjn, hjc] at this
      have e1 : gat w tr.main tr.cond 0 j idx = w idx := by
        unfold gat; rw [setc_eq_self hg.1 hP.1, setc_eq_self hg.2.1 hP.2]
      have e2 : gat w tr.main tr.cond 0 (j + 1) idx = w (setc idx tr.cond (coord idx tr.cond + 1)) := by
        unfold gat; rw [setc_eq_self hg.1 hP.1, hP.2]
      rw [e1, e2] at this
      linarith
    · have hl : tr.cond < idx.length := by rw [hr.1]; exact hwf.2.1
      have hg := gridOK_of_inRange hwf hr
      rw [voff idx (by rw [hjn, hP.2]; omega),
        vM _ (by rw [coord_setc_ne _ (Ne.symm hne)]; exact hP.1) (by rw [coord_setc_same _ hl, hjn, hP.2])]
      have := hR idx hr
      simp only [rhsDiff, hjn, hjc] at this
      have e1 : gat w tr.main tr.cond (sizes.getD tr.main 0 - 1) j idx = w idx := by
        unfold gat; rw [setc_eq_self hg.1 hP.1, setc_eq_self hg.2.1 hP.2]
      have e2 : gat w tr.main tr.cond (sizes.getD tr.main 0 - 1) (j + 1) idx =
          w (setc idx tr.cond (coord idx tr.cond + 1)) := by
        unfold gat; rw [setc_eq_self hg.1 hP.1, hP.2]
      rw [e1, e2] at this
      linarith

end Tfl.Lat

namespace Tfl.Lat
open Tfl
variable {sizes : List Nat}

/-! ### the loop of one trust at tensor level -/

/-- in `runningMax` mode the projection of one trust is the `rmLoop` -/
theorem trapezoidOne_rm (ew : List Trust) (tr : Trust) (hmode : trapMode ew tr = .runningMax) (w : W) :
    trapezoidOne sizes ew tr w =
      (rmLoop (allIdx sizes) tr.main tr.cond (sizes.getD tr.main 0) (sizes.getD tr.cond 0) tr.pos w
        (sizes.getD tr.cond 0 - 1)).w := by
  simp only [trapezoidOne, hmode]; rfl

/-- the new carried scalars dominate every violation of the pair of layers of the iteration -/
theorem rmLoop_dominates (tr : Trust) (hwf : TrustWF sizes tr) (hM : 2 ≤ sizes.getD tr.main 0) (w : W) (k : Nat) :
    (∀ b, InRange sizes b →
      lhsDiff (rmLoop (allIdx sizes) tr.main tr.cond (sizes.getD tr.main 0) (sizes.getD tr.cond 0) tr.pos w k).w
        tr.main tr.cond (sizes.getD tr.cond 0) tr.pos k b ≤
      (rmLoop (allIdx sizes) tr.main tr.cond (sizes.getD tr.main 0) (sizes.getD tr.cond 0) tr.pos w (k + 1)).lhs) ∧
    (∀ b, InRange sizes b →
      rhsDiff (rmLoop (allIdx sizes) tr.main tr.cond (sizes.getD tr.main 0) (sizes.getD tr.cond 0) tr.pos w k).w
        tr.main tr.cond (sizes.getD tr.main 0) (sizes.getD tr.cond 0) tr.pos k b ≤
      (rmLoop (allIdx sizes) tr.main tr.cond (sizes.getD tr.main 0) (sizes.getD tr.cond 0) tr.pos w (k + 1)).rhs) := by
  have hM0 : sizes.getD tr.main 0 - 1 ≠ 0 := by omega
  rw [rmLoop_succ]
  refine ⟨fun b hb => ?_, fun b hb => ?_⟩
  · exact le_trans (le_maxOver _ _ (mem_allIdx.mpr hb)) (le_max_left _ _)
  · have hg := gridOK_of_inRange hwf hb
    have h := le_trans (le_maxOver (allIdx sizes)
      (rhsDiff (bump tr.main tr.cond 0 (jn (sizes.getD tr.cond 0) tr.pos k)
        (- rmU (allIdx sizes) tr.main tr.cond (sizes.getD tr.cond 0) tr.pos
          (rmLoop (allIdx sizes) tr.main tr.cond (sizes.getD tr.main 0) (sizes.getD tr.cond 0) tr.pos w k) k)
        (rmLoop (allIdx sizes) tr.main tr.cond (sizes.getD tr.main 0) (sizes.getD tr.cond 0) tr.pos w k).w)
        tr.main tr.cond (sizes.getD tr.main 0) (sizes.getD tr.cond 0) tr.pos k) (mem_allIdx.mpr hb))
      (le_max_left _ (rmLoop (allIdx sizes) tr.main tr.cond (sizes.getD tr.main 0) (sizes.getD tr.cond 0) tr.pos w k).rhs)
    simp only [rhsDiff, gat_bump_row0_other _ hM0 hg] at h
    exact h

/-- each iteration establishes its own pair of layers and keeps the pairs already done -/
theorem rmLoop_pairs (tr : Trust) (hwf : TrustWF sizes tr) (hM : 2 ≤ sizes.getD tr.main 0) (w : W) :
    ∀ k, k ≤ sizes.getD tr.cond 0 - 1 → ∀ p, p + 1 < sizes.getD tr.cond 0 →
      doneAfter (sizes.getD tr.cond 0) tr.pos k p →
      PairOK sizes tr
        (rmLoop (allIdx sizes) tr.main tr.cond (sizes.getD tr.main 0) (sizes.getD tr.cond 0) tr.pos w k).w p := by
  intro k
  induction k with
  | zero =>
    intro _ p hp hd
    unfold doneAfter at hd
    cases hpos : tr.pos
    · simp only [hpos, Bool.false_eq_true, if_false] at hd; omega
    · simp only [hpos, if_true] at hd; omega
  | succ k ih =>
    intro hk p hp hd
    rw [rmLoop_w_succ]
    have hkN : k + 1 < sizes.getD tr.cond 0 := by omega
    obtain ⟨hU, hR⟩ := rmLoop_dominates tr hwf hM w k
    have hest' := bbStep_pair_establish tr hwf hM hkN _ hU hR
    unfold doneAfter at hd
    by_cases hpos : tr.pos = true
    · simp only [hpos, if_true] at hd hest'
      by_cases e : p = k
      · rw [e]; simpa only [hpos] using hest'
      · exact bbStep_pair_keep tr hwf _ _ _ (by simp only [jn, hpos, if_true]; omega)
          (by simp only [jn, hpos, if_true]; omega)
          (ih (by omega) p hp (by simp only [doneAfter, hpos, if_true]; omega))
    · have hpos' : tr.pos = false := by simpa using hpos
      simp only [hpos', Bool.false_eq_true, if_false] at hd hest'
      by_cases e : p = sizes.getD tr.cond 0 - 2 - k
      · rw [e]; simpa only [hpos'] using hest'
      · exact bbStep_pair_keep tr hwf _ _ _ (by simp only [jn, hpos', Bool.false_eq_true, if_false]; omega)
          (by simp only [jn, hpos', Bool.false_eq_true, if_false]; omega)
          (ih (by omega) p hp (by simp only [doneAfter, hpos', Bool.false_eq_true, if_false]; omega))

/-- **the matching Edgeworth trust survives the whole loop** -/
theorem rmLoop_keeps_matching (tr : Trust) (hwf : TrustWF sizes tr) (w : W) (h : EdgeOK sizes tr w) :
    EdgeOK sizes tr
      (rmLoop (allIdx sizes) tr.main tr.cond (sizes.getD tr.main 0) (sizes.getD tr.cond 0) tr.pos w
        (sizes.getD tr.cond 0 - 1)).w := by
  intro idx hr i j hi hj
  have hg := gridOK_of_inRange hwf hr
  have h0 := h idx hr i j hi hj
  cases hp : tr.pos
  · simp only [hp, Bool.false_eq_true, if_false] at h0 ⊢
    exact le_trans h0 (rmLoop_edge_neg _ _ _ _ _ w hg hi hj)
  · simp only [hp, if_true] at h0 ⊢
    exact le_trans (rmLoop_edge_pos _ _ _ _ _ w hg hi hj) h0

/-- **C01-T3 (`runningMax` mode: the matching Edgeworth trust is configured).** The projection of one
trapezoid trust establishes it from ANY input, keeps the matching Edgeworth trust if the input
satisfies it, keeps monotonicity along every axis except possibly its conditional axis, keeps every
Edgeworth trust on another grid and every trapezoid trust with another conditional axis. -/
theorem trapezoidOne_rm_spec (ew : List Trust) (tr : Trust) (hmode : trapMode ew tr = .runningMax)
    (hwf : TrustWF sizes tr) (hM : 2 ≤ sizes.getD tr.main 0) (w : W) :
    TrapOK sizes tr (trapezoidOne sizes ew tr w) ∧
    (EdgeOK sizes tr w → EdgeOK sizes tr (trapezoidOne sizes ew tr w)) ∧
    (∀ d, d < sizes.length → d ≠ tr.cond → MonoAx sizes d w → MonoAx sizes d (trapezoidOne sizes ew tr w)) ∧
    (∀ tr', TrustWF sizes tr' → Compatible tr tr' → EdgeOK sizes tr' w →
      EdgeOK sizes tr' (trapezoidOne sizes ew tr w)) ∧
    (∀ tr', tr'.cond ≠ tr.main → tr'.cond ≠ tr.cond → TrapOK sizes tr' w →
      TrapOK sizes tr' (trapezoidOne sizes ew tr w)) := by
  rw [trapezoidOne_rm ew tr hmode]
  refine ⟨?_, rmLoop_keeps_matching tr hwf w, fun d hd hdc hm => ?_, fun tr' hwf' hc he => ?_,
    fun tr' h1 h2 ht => ?_⟩
  · apply trapOK_of_pairs
    intro p hp
    apply rmLoop_pairs tr hwf hM w _ le_rfl p hp
    unfold doneAfter
    cases tr.pos
    · simp only [Bool.false_eq_true, if_false]; omega
    · simp only [if_true]; omega
  · exact rmLoop_keeps _ _ _ _ _ _ (MonoAx sizes d)
      (fun j v U R _ hU hR hv => bbStep_mono tr hwf _ hU hR hd hdc hv) w hm _ le_rfl
  · exact rmLoop_keeps _ _ _ _ _ _ (EdgeOK sizes tr')
      (fun j v U R _ _ _ hv => bbStep_edgeOK tr tr' hwf hwf' hc _ U R hv) w he _ le_rfl
  · exact rmLoop_keeps _ _ _ _ _ _ (TrapOK sizes tr')
      (fun j v U R _ _ _ hv => bbStep_trapOK_other tr tr' h1 h2 _ U R hv) w ht _ le_rfl

end Tfl.Lat

namespace Tfl.Lat
open Tfl
variable {sizes : List Nat}

/-! ### growth of the carried scalars; the rank-2 sub-case (monotone conditional axis allowed) -/

theorem maxOver_le (bs : List Idx) (f : Idx → ℚ) {X : ℚ} (hX : 0 ≤ X) (h : ∀ b ∈ bs, f b ≤ X) :
    maxOver bs f ≤ X := by
  unfold maxOver
  generalize (0 : ℚ) = a at hX
  induction bs generalizing a with
  | nil => exact hX
  | cons x xs ih =>
    simp only [List.foldl_cons]
    exact ih (fun b hb => h b (List.mem_cons_of_mem _ hb)) _ (max_le hX (h x (List.mem_cons_self ..)))

theorem tau_jn_eq {N : Nat} (pos : Bool) {j : Nat} (hj : j + 1 < N) : tau N pos (jn N pos j) = j + 1 := by
  cases pos <;> simp [jn, tau]
  omega
theorem tau_jc_eq {N : Nat} (pos : Bool) {j : Nat} (hj : j + 1 < N) : tau N pos (jc N pos j) = j := by
  cases pos <;> simp [jc, tau]
  omega

/-- the low-side violation seen by iteration `k` is the ORIGINAL one plus the carried scalar -/
theorem lhsDiff_rmLoop (bs : List Idx) (m c M N : Nat) (hM : 2 ≤ M) (pos : Bool) (w : W) {b : Idx}
    (hg : GridOK m c b) {k : Nat} (hk : k + 1 < N) :
    lhsDiff (rmLoop bs m c M N pos w k).w m c N pos k b =
      lhsDiff w m c N pos k b + (rmLoop bs m c M N pos w k).lhs := by
  have e0 : ¬ ((0 : Nat) = M - 1) := by omega
  have e1 : ¬ (k + 1 ≤ k) := by omega
  simp only [lhsDiff, gat_rmLoop bs m c M N pos w hg _ _ (jn_lt pos hk) k (by omega),
    gat_rmLoop bs m c M N pos w hg _ _ (jc_lt pos hk) k (by omega), tau_jn_eq pos hk, tau_jc_eq pos hk,
    e0, e1, le_refl, if_true, if_false]
  ring
/-- the high-side violation seen by iteration `k` is the ORIGINAL one plus the carried scalar -/
theorem rhsDiff_rmLoop (bs : List Idx) (m c M N : Nat) (hM : 2 ≤ M) (pos : Bool) (w : W) {b : Idx}
    (hg : GridOK m c b) {k : Nat} (hk : k + 1 < N) :
    rhsDiff (rmLoop bs m c M N pos w k).w m c M N pos k b =
      rhsDiff w m c M N pos k b + (rmLoop bs m c M N pos w k).rhs := by
  have e0 : ¬ (M - 1 = 0) := by omega
  have e1 : ¬ (k + 1 ≤ k) := by omega
  simp only [rhsDiff, gat_rmLoop bs m c M N pos w hg _ _ (jn_lt pos hk) k (by omega),
    gat_rmLoop bs m c M N pos w hg _ _ (jc_lt pos hk) k (by omega), tau_jn_eq pos hk, tau_jc_eq pos hk,
    e0, e1, le_refl, if_true, if_false]
  ring

/-- one iteration raises `U` by at most the largest ORIGINAL violation of its pair of layers -/
theorem rmLoop_lhs_step_le (bs : List Idx) (m c M N : Nat) (hM : 2 ≤ M) (pos : Bool) (w : W)
    (hbs : ∀ b ∈ bs, GridOK m c b) {k : Nat} (hk : k + 1 < N) :
    (rmLoop bs m c M N pos w (k + 1)).lhs ≤
      (rmLoop bs m c M N pos w k).lhs + maxOver bs (lhsDiff w m c N pos k) := by
  have hL := rmLoop_lhs_nonneg bs m c M N pos w k
  have hm := maxOver_nonneg bs (lhsDiff w m c N pos k)
  rw [rmLoop_succ]
  refine max_le (maxOver_le _ _ (by linarith) (fun b hb => ?_)) (by linarith)
  rw [lhsDiff_rmLoop bs m c M N hM pos w (hbs b hb) hk]
  have := le_maxOver bs (lhsDiff w m c N pos k) hb
  linarith
/-- one iteration raises `R` by at most the largest ORIGINAL violation of its pair of layers -/
theorem rmLoop_rhs_step_le (bs : List Idx) (m c M N : Nat) (hM : 2 ≤ M) (pos : Bool) (w : W)
    (hbs : ∀ b ∈ bs, GridOK m c b) {k : Nat} (hk : k + 1 < N) :
    (rmLoop bs m c M N pos w (k + 1)).rhs ≤
      (rmLoop bs m c M N pos w k).rhs + maxOver bs (rhsDiff w m c M N pos k) := by
  have hL := rmLoop_rhs_nonneg bs m c M N pos w k
  have hm := maxOver_nonneg bs (rhsDiff w m c M N pos k)
  have hM0 : M - 1 ≠ 0 := by omega
  rw [rmLoop_succ]
  refine max_le (maxOver_le _ _ (by linarith) (fun b hb => ?_)) (by linarith)
  have e : rhsDiff (bump m c 0 (jn N pos k) (- rmU bs m c N pos (rmLoop bs m c M N pos w k) k)
      (rmLoop bs m c M N pos w k).w) m c M N pos k b =
      rhsDiff (rmLoop bs m c M N pos w k).w m c M N pos k b := by
    simp only [rhsDiff, gat_bump_row0_other _ hM0 (hbs b hb)]
  rw [e, rhsDiff_rmLoop bs m c M N hM pos w (hbs b hb) hk]
  have := le_maxOver bs (rhsDiff w m c M N pos k) hb
  linarith

/-- in a rank-2 lattice nothing lies behind a grid point -/
theorem gat_rank2 {m c : Nat} {b b' : Idx} (hb : b.length = 2) (hb' : b'.length = 2) (hm : m < 2) (hc : c < 2)
    (hmc : m ≠ c) (w : W) (i j : Nat) : gat w m c i j b = gat w m c i j b' := by
  obtain ⟨x, y, rfl⟩ : ∃ x y, b = [x, y] := by
    match b, hb with
    | [x, y], _ => exact ⟨x, y, rfl⟩
  obtain ⟨x', y', rfl⟩ : ∃ x y, b' = [x, y] := by
    match b', hb' with
    | [x, y], _ => exact ⟨x, y, rfl⟩
  have : (m = 0 ∧ c = 1) ∨ (m = 1 ∧ c = 0) := by omega
  rcases this with ⟨rfl, rfl⟩ | ⟨rfl, rfl⟩ <;> simp [gat, setc]

/-- **rank-2 sub-case**: when the lattice has no axis besides the main and the conditional one,
monotonicity along the CONDITIONAL axis survives the running-max loop as well (rows 0 and `M-1`
are flattened exactly as far as needed) -/
theorem rmLoop_mono_cond_rank2 (tr : Trust) (hwf : TrustWF sizes tr) (hM : 2 ≤ sizes.getD tr.main 0)
    (h2 : sizes.length = 2) (w : W) (h : MonoAx sizes tr.cond w) :
    MonoAx sizes tr.cond
      (rmLoop (allIdx sizes) tr.main tr.cond (sizes.getD tr.main 0) (sizes.getD tr.cond 0) tr.pos w
        (sizes.getD tr.cond 0 - 1)).w := by
  intro idx hr hd hlt
  have hg := gridOK_of_inRange hwf hr
  have hbs := allIdx_gridOK hwf
  have h0 := h idx hr hd hlt
  rw [← gat_self hg w, ← gat_setc_cond hg w] at h0
  rw [← gat_self hg (rmLoop (allIdx sizes) tr.main tr.cond (sizes.getD tr.main 0) (sizes.getD tr.cond 0) tr.pos w
      (sizes.getD tr.cond 0 - 1)).w,
    ← gat_setc_cond hg (rmLoop (allIdx sizes) tr.main tr.cond (sizes.getD tr.main 0) (sizes.getD tr.cond 0) tr.pos w
      (sizes.getD tr.cond 0 - 1)).w,
    gat_rmLoop _ _ _ _ _ tr.pos w hg _ _ (by omega) _ le_rfl,
    gat_rmLoop _ _ _ _ _ tr.pos w hg _ _ hlt _ le_rfl]
  -- in rank 2 the reduction over "everything behind" sees a single grid value
  have hsame : ∀ b ∈ allIdx sizes, ∀ i j, gat w tr.main tr.cond i j b = gat w tr.main tr.cond i j idx := by
    intro b hb i j
    exact gat_rank2 (by rw [(mem_allIdx.mp hb).1, h2]) (by rw [hr.1, h2]) (by have := hwf.1; omega)
      (by have := hwf.2.1; omega) hwf.2.2 w i j
  generalize sizes.getD tr.main 0 = M at *
  generalize sizes.getD tr.cond 0 = N at *
  generalize coord idx tr.main = i at *
  generalize coord idx tr.cond = y at *
  have hM0 : ¬ ((0 : Nat) = M - 1) := by omega
  cases hp : tr.pos
  · -- direction −: layer y is written by iteration t+1, layer y+1 by iteration t, t = N-2-y
    have t1 : tau N false y = (N - 2 - y) + 1 := by simp [tau]; omega
    have t2 : tau N false (y + 1) = N - 2 - y := by simp [tau]; omega
    have c1 : (N - 2 - y) + 1 ≤ N - 1 := by omega
    have c2 : N - 2 - y ≤ N - 1 := by omega
    have hk : (N - 2 - y) + 1 < N := by omega
    have hl := rmLoop_lhs_mono (allIdx sizes) tr.main tr.cond M N false w (N - 2 - y)
    simp only [t1, t2, c1, c2, if_true]
    by_cases hiM : i = M - 1
    · have hi0 : ¬ i = 0 := by omega
      have hR := rmLoop_rhs_step_le (allIdx sizes) tr.main tr.cond M N hM false w hbs hk
      have hmx : maxOver (allIdx sizes) (rhsDiff w tr.main tr.cond M N false (N - 2 - y)) ≤
          gat w tr.main tr.cond (M - 1) (y + 1) idx - gat w tr.main tr.cond (M - 1) y idx := by
        rw [hiM] at h0
        refine maxOver_le _ _ (by linarith) (fun b hb => le_of_eq ?_)
        have e1 : jc N false (N - 2 - y) = y + 1 := by
          simp only [jc, Bool.false_eq_true, if_false]; omega
        have e2 : jn N false (N - 2 - y) = y := by
          simp only [jn, Bool.false_eq_true, if_false]; omega
        simp only [rhsDiff, e1, e2, hsame b hb]
      have hM1 : ¬ (M - 1 = 0) := by omega
      subst hiM
      simp only [hM1, if_false, if_true] at h0 ⊢
      linarith
    · simp only [hiM, if_false]
      split_ifs <;> linarith
  · -- direction +: layer y is written by iteration y, layer y+1 by iteration y+1
    have t1 : tau N true y = y := by simp [tau]
    have t2 : tau N true (y + 1) = y + 1 := by simp [tau]
    have c1 : y ≤ N - 1 := by omega
    have c2 : y + 1 ≤ N - 1 := by omega
    have hr' := rmLoop_rhs_mono (allIdx sizes) tr.main tr.cond M N true w y
    simp only [t1, t2, c1, c2, if_true]
    by_cases hi0 : i = 0
    · have hiM : ¬ i = M - 1 := by omega
      have hL := rmLoop_lhs_step_le (allIdx sizes) tr.main tr.cond M N hM true w hbs hlt
      have hmx : maxOver (allIdx sizes) (lhsDiff w tr.main tr.cond N true y) ≤
          gat w tr.main tr.cond 0 (y + 1) idx - gat w tr.main tr.cond 0 y idx := by
        rw [hi0] at h0
        refine maxOver_le _ _ (by linarith) (fun b hb => le_of_eq ?_)
        have e1 : jc N true y = y := by simp [jc]
        have e2 : jn N true y = y + 1 := by simp [jn]
        simp only [lhsDiff, e1, e2, hsame b hb]
      subst hi0
      simp only [hM0, if_false, if_true] at h0 ⊢
      linarith
    · simp only [hi0, if_false]
      split_ifs <;> linarith

end Tfl.Lat

namespace Tfl.Lat
open Tfl
variable {sizes : List Nat}

/-- rank-2 sub-case at the level of `trapezoidOne` -/
theorem trapezoidOne_rm_mono_cond_rank2 (ew : List Trust) (tr : Trust) (hmode : trapMode ew tr = .runningMax)
    (hwf : TrustWF sizes tr) (hM : 2 ≤ sizes.getD tr.main 0) (h2 : sizes.length = 2) (w : W)
    (h : MonoAx sizes tr.cond w) : MonoAx sizes tr.cond (trapezoidOne sizes ew tr w) := by
  rw [trapezoidOne_rm ew tr hmode]
  exact rmLoop_mono_cond_rank2 tr hwf hM h2 w h

/-- in a rank-2 lattice two well-formed trusts never live on different grids with disjoint roles -/
theorem rank2_not_compatible (h2 : sizes.length = 2) {tr e : Trust} (hwf : TrustWF sizes tr)
    (hwe : TrustWF sizes e) : ¬ Compatible tr e := by
  rintro ⟨h1, h3, h4⟩
  obtain ⟨a1, a2, a3⟩ := hwf
  obtain ⟨b1, b2, b3⟩ := hwe
  rw [h2] at a1 a2 b1 b2
  exact h4 ⟨by omega, by omega⟩

end Tfl.Lat

namespace Tfl.Lat
open Tfl
variable {sizes : List Nat}

/-! ### the whole trapezoid stage with Edgeworth trusts present (matching or not) -/

theorem trapMode_rm_mem {ew : List Trust} {tr : Trust} (h : trapMode ew tr = .runningMax) : tr ∈ ew := by
  unfold trapMode at h
  split at h
  · cases h
  · split at h
    · rename_i hc; exact List.contains_iff_mem.mp hc
    · cases h
theorem trapMode_mb_not_mem {ew : List Trust} {tr : Trust} (h : trapMode ew tr = .maxBehind) : tr ∉ ew := by
  unfold trapMode at h
  split at h
  · cases h
  · split at h
    · cases h
    · rename_i hc; exact fun hm => hc (List.contains_iff_mem.mpr hm)
theorem trapMode_mb_ne_nil {ew : List Trust} {tr : Trust} (h : trapMode ew tr = .maxBehind) : ew ≠ [] := by
  intro e; subst e; simp [trapMode] at h
/-- with at least one Edgeworth trust configured the mode is one of the two scalar modes -/
theorem trapMode_of_ne_nil {ew : List Trust} (tr : Trust) (h : ew ≠ []) :
    trapMode ew tr = .maxBehind ∨ trapMode ew tr = .runningMax := by
  unfold trapMode
  have : ew.isEmpty = false := by cases ew with
    | nil => exact absurd rfl h
    | cons a r => rfl
  simp only [this, Bool.false_eq_true, if_false]
  split
  · exact Or.inr rfl
  · exact Or.inl rfl

/-- one trapezoid trust in either scalar mode: it is established from any input; ALL configured
Edgeworth trusts (the matching one included), monotonicity off its conditional axis (in a rank-2
lattice: along every axis) and trapezoid trusts with another conditional axis are kept -/
theorem trapezoidOne_mixed_spec (ew : List Trust) (hew : ∀ e ∈ ew, TrustWF sizes e) (tr : Trust)
    (hmode : trapMode ew tr = .maxBehind ∨ trapMode ew tr = .runningMax)
    (hwf : TrustWF sizes tr) (hM : 2 ≤ sizes.getD tr.main 0) (hce : ∀ e ∈ ew, e = tr ∨ Compatible tr e)
    (w : W) (he : ∀ e ∈ ew, EdgeOK sizes e w) :
    TrapOK sizes tr (trapezoidOne sizes ew tr w) ∧
    (∀ e ∈ ew, EdgeOK sizes e (trapezoidOne sizes ew tr w)) ∧
    (∀ d, d < sizes.length → (d ≠ tr.cond ∨ sizes.length = 2) → MonoAx sizes d w →
      MonoAx sizes d (trapezoidOne sizes ew tr w)) ∧
    (∀ tr', tr'.cond ≠ tr.main → tr'.cond ≠ tr.cond → TrapOK sizes tr' w →
      TrapOK sizes tr' (trapezoidOne sizes ew tr w)) := by
  rcases hmode with hmode | hmode
  · obtain ⟨h1, h2, h3, h4⟩ := trapezoidOne_mb_spec (sizes := sizes) ew tr hmode hwf hM w
    refine ⟨h1, fun e hee => ?_, fun d hd hdc hm => ?_, h4⟩
    · rcases hce e hee with heq | hc
      · exact absurd (heq ▸ hee) (trapMode_mb_not_mem hmode)
      · exact h3 e (hew e hee) hc (he e hee)
    · rcases hdc with hdc | hr2
      · exact h2 d hd hdc hm
      · -- a non-matching trust next to an Edgeworth trust cannot exist in rank 2
        exfalso
        obtain ⟨e, hee⟩ : ∃ e, e ∈ ew := by
          cases hl : ew with
          | nil => exact absurd hl (trapMode_mb_ne_nil hmode)
          | cons a r => exact ⟨a, List.mem_cons_self ..⟩
        rcases hce e hee with heq | hc
        · exact absurd (heq ▸ hee) (trapMode_mb_not_mem hmode)
        · exact rank2_not_compatible hr2 hwf (hew e hee) hc
  · obtain ⟨h1, hm, h2, h3, h4⟩ := trapezoidOne_rm_spec (sizes := sizes) ew tr hmode hwf hM w
    refine ⟨h1, fun e hee => ?_, fun d hd hdc hmo => ?_, h4⟩
    · rcases hce e hee with heq | hc
      · rw [heq]; exact hm (heq ▸ he e hee)
      · exact h3 e (hew e hee) hc (he e hee)
    · by_cases e : d = tr.cond
      · rcases hdc with hdc | hr2
        · exact absurd e hdc
        · subst e; exact trapezoidOne_rm_mono_cond_rank2 ew tr hmode hwf hM hr2 w hmo
      · exact h2 d hd e hmo

/-- the whole trapezoid stage when Edgeworth trusts are configured and every trapezoid trust is
either non-matching (`maxBehind`) or matching (`runningMax`) -/
theorem approxTrapezoid_mixed_spec (ew : List Trust) (hew : ∀ e ∈ ew, TrustWF sizes e) :
    ∀ (trs : List Trust),
      (∀ tr ∈ trs, (trapMode ew tr = .maxBehind ∨ trapMode ew tr = .runningMax) ∧ TrustWF sizes tr ∧
        2 ≤ sizes.getD tr.main 0 ∧ ∀ e ∈ ew, e = tr ∨ Compatible tr e) →
      (∀ a ∈ trs, ∀ b ∈ trs, b.cond ≠ a.main) →
      trs.Pairwise (fun a b => a.cond ≠ b.cond) →
      ∀ (w : W) (done : List Trust),
        (∀ a ∈ done, ∀ b ∈ trs, a.cond ≠ b.main ∧ a.cond ≠ b.cond) →
        (∀ tr ∈ done, TrapOK sizes tr w) → (∀ e ∈ ew, EdgeOK sizes e w) →
        (∀ tr, tr ∈ done ∨ tr ∈ trs → TrapOK sizes tr (approxTrapezoid sizes ew trs w)) ∧
        (∀ e ∈ ew, EdgeOK sizes e (approxTrapezoid sizes ew trs w)) ∧
        (∀ d, d < sizes.length → (∀ tr ∈ trs, d ≠ tr.cond ∨ sizes.length = 2) → MonoAx sizes d w →
          MonoAx sizes d (approxTrapezoid sizes ew trs w)) := by
  intro trs
  induction trs with
  | nil =>
    intro _ _ _ w done _ hd he
    exact ⟨fun tr h => (by rcases h with h | h; exact hd tr h; cases h), he, fun d _ _ h => h⟩
  | cons t r ih =>
    intro hwf hroles hdist w done hcomp hd he
    rw [List.pairwise_cons] at hdist
    obtain ⟨hmode, hwt, hM, hce⟩ := hwf t (List.mem_cons_self ..)
    obtain ⟨h1, h3, h2, h4⟩ := trapezoidOne_mixed_spec (sizes := sizes) ew hew t hmode hwt hM hce w he
    have := ih (fun x hx => hwf x (List.mem_cons_of_mem _ hx))
      (fun a ha b hb => hroles a (List.mem_cons_of_mem _ ha) b (List.mem_cons_of_mem _ hb)) hdist.2
      (trapezoidOne sizes ew t w) (done ++ [t])
      (fun a ha b hb => by
        rcases List.mem_append.mp ha with h | h
        · exact hcomp a h b (List.mem_cons_of_mem _ hb)
        · simp at h; subst h
          exact ⟨hroles b (List.mem_cons_of_mem _ hb) a (List.mem_cons_self ..), hdist.1 b hb⟩)
      (fun x hx => by
        rcases List.mem_append.mp hx with h | h
        · exact h4 x (hcomp x h t (List.mem_cons_self ..)).1 (hcomp x h t (List.mem_cons_self ..)).2 (hd x h)
        · simp at h; subst h; exact h1)
      h3
    refine ⟨fun tr htr => ?_, this.2.1, fun d hd' hnc hm => ?_⟩
    · apply this.1
      rcases htr with h | h
      · exact Or.inl (List.mem_append_left _ h)
      · rcases List.mem_cons.mp h with e | e
        · exact Or.inl (by simp [e])
        · exact Or.inr e
    · exact this.2.2 d hd' (fun tr htr => hnc tr (List.mem_cons_of_mem _ htr))
        (h2 d hd' (hnc t (List.mem_cons_self ..)) hm)

end Tfl.Lat
