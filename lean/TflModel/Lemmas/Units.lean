import TflModel.Model.Units
import TflModel.Lemmas.LatticeExec
/-! Lemmas for C09: the unit-`u` index set of a reduction over all axes but the last, slices of
multi-unit lattice tensors, column reductions of matrices. -/
namespace Tfl.Units
open Tfl Tfl.Lat

/-! ### indices with a trailing unit coordinate -/
theorem coord_append_lt {idx : Idx} {d : Nat} (u : Nat) (h : d < idx.length) :
    coord (idx ++ [u]) d = coord idx d := by
  simp [coord, List.getD, List.getElem?_append_left h]
theorem coord_append_len (idx : Idx) (u : Nat) : coord (idx ++ [u]) idx.length = u := by
  simp [coord, List.getD]
theorem setc_append_lt {idx : Idx} {d : Nat} (u v : Nat) (h : d < idx.length) :
    setc (idx ++ [u]) d v = setc idx d v ++ [u] := by
  simp [setc, h]

theorem filter_range_eq (n u : Nat) (h : u < n) : (List.range n).filter (fun i => i == u) = [u] := by
  induction n with
  | zero => omega
  | succ n ih =>
    rw [List.range_succ, List.filter_append]
    by_cases hu : u < n
    · rw [ih hu]
      have : (n == u) = false := by simp; omega
      simp [List.filter, this]
    · have hn : u = n := by omega
      subst hn
      have : (List.range u).filter (fun i => i == u) = [] := by
        rw [List.filter_eq_nil_iff]; intro a ha; simp at ha ⊢; omega
      simp [this]

/-- **the generic lemma of C09**: the positions a reduction "over all axes but the last" visits for
output unit `u` are exactly the positions of the one-unit box, each extended by `u`, in the same
(row-major) order. Every such reduction (max / min / sum / any fold) of `f` at `u` is therefore the
same reduction of the unit-`u` slice of `f` over the one-unit box. -/
theorem unitIdx_eq (sizes : List Nat) (units u : Nat) (hu : u < units) :
    unitIdx sizes units u = (allIdx sizes).map (fun idx => idx ++ [u]) := by
  unfold unitIdx
  induction sizes with
  | nil =>
    simp only [List.nil_append, allIdx, List.length_nil, List.map_cons, List.map_nil]
    have : ((List.range units).flatMap fun i => [[i]]) = (List.range units).map (fun i => [i]) := by
      induction (List.range units) with
      | nil => rfl
      | cons a l ih => simp [List.flatMap_cons, ih]
    rw [this, List.filter_map]
    have h2 : ((fun idx : Idx => coord idx 0 == u) ∘ fun i => [i]) = fun i => i == u := by
      funext i; simp [coord]
    rw [h2, filter_range_eq units u hu]; rfl
  | cons n ns ih =>
    simp only [List.cons_append, allIdx, List.length_cons]
    rw [List.filter_flatMap, List.map_flatMap]
    congr 1
    funext i
    rw [List.filter_map, List.map_map]
    have h2 : ((fun idx : Idx => coord idx (ns.length + 1) == u) ∘ fun t => i :: t) =
        fun idx => coord idx ns.length == u := by
      funext t; simp [coord]
    rw [h2, ih, List.map_map]
    rfl


/-! ### slices -/

/-- two tensors agree on every index of length `n` (all the one-unit stages only ever read
indices of the length they were given: `setc` keeps lengths) -/
def AgreeLen (n : Nat) (f g : W) : Prop := ∀ idx : Idx, idx.length = n → f idx = g idx

theorem AgreeLen.refl (n : Nat) (f : W) : AgreeLen n f f := fun _ _ => rfl
theorem AgreeLen.trans {n : Nat} {f g k : W} (h1 : AgreeLen n f g) (h2 : AgreeLen n g k) : AgreeLen n f k :=
  fun i hi => (h1 i hi).trans (h2 i hi)
theorem AgreeLen.agreeOn {sizes : List Nat} {f g : W} (h : AgreeLen sizes.length f g) : AgreeOn sizes f g :=
  fun idx hr => h idx hr.1

theorem length_of_mem_allIdx {sizes : List Nat} {b : Idx} (h : b ∈ allIdx sizes) : b.length = sizes.length :=
  (mem_allIdx.mp h).1

theorem gat_slice (w : W) (u m c i j : Nat) (b : Idx) (hm : m < b.length) (hc : c < b.length) :
    gat w m c i j (b ++ [u]) = gat (slice w u) m c i j b := by
  simp only [gat, slice]
  rw [setc_append_lt u i hm, setc_append_lt u j (by simpa using hc)]

theorem eviol_slice (w : W) (u m c i j : Nat) (b : Idx) (hm : m < b.length) (hc : c < b.length) :
    eviol w m c i j (b ++ [u]) = eviol (slice w u) m c i j b := by
  simp only [eviol, gat_slice w u m c _ _ b hm hc]

theorem gat_congr {n : Nat} {f g : W} (h : AgreeLen n f g) (m c i j : Nat) {b : Idx} (hb : b.length = n) :
    gat f m c i j b = gat g m c i j b := by
  simp only [gat]; exact h _ (by simpa using hb)

theorem eviol_congr {n : Nat} {f g : W} (h : AgreeLen n f g) (m c i j : Nat) {b : Idx} (hb : b.length = n) :
    eviol f m c i j b = eviol g m c i j b := by
  simp only [eviol, gat_congr h m c _ _ hb]

theorem maxOver_map (bs : List Idx) (e : Idx → Idx) (f : Idx → ℚ) :
    maxOver (bs.map e) f = maxOver bs (fun b => f (e b)) := by
  simp [maxOver, List.foldl_map]

/-- **C09-T1, Edgeworth max-violation**: the multi-unit `tf.maximum(tf.reduce_max(diff, axis=all but
last), 0)` at unit `u` is the one-unit max-violation of the unit-`u` slice. -/
theorem maxViol_slice (sizes : List Nat) (units u : Nat) (hu : u < units) (f : Idx → ℚ) :
    maxViol sizes units f u = maxOver (allIdx sizes) (fun b => f (b ++ [u])) := by
  rw [maxViol, unitIdx_eq sizes units u hu, maxOver_map]

theorem maxViol_eviol (sizes : List Nat) (units u : Nat) (hu : u < units) (w w1 : W) (m c i j : Nat)
    (hm : m < sizes.length) (hc : c < sizes.length) (hw : AgreeLen sizes.length (slice w u) w1) :
    maxViol sizes units (eviol w m c i j) u = maxOver (allIdx sizes) (eviol w1 m c i j) := by
  rw [maxViol_slice sizes units u hu]
  apply maxOver_congr
  intro b hb
  have hl := length_of_mem_allIdx hb
  rw [eviol_slice w u m c i j b (by omega) (by omega)]
  exact eviol_congr hw m c i j hl

theorem maxViol_neg_eviol (sizes : List Nat) (units u : Nat) (hu : u < units) (w w1 : W) (m c i j : Nat)
    (hm : m < sizes.length) (hc : c < sizes.length) (hw : AgreeLen sizes.length (slice w u) w1) :
    maxViol sizes units (fun b => - eviol w m c i j b) u =
      maxOver (allIdx sizes) (fun b => - eviol w1 m c i j b) := by
  rw [maxViol_slice sizes units u hu]
  apply maxOver_congr
  intro b hb
  have hl := length_of_mem_allIdx hb
  rw [eviol_slice w u m c i j b (by omega) (by omega), eviol_congr hw m c i j hl]

theorem unitOf_append (sizes : List Nat) (idx : Idx) (u : Nat) (h : idx.length = sizes.length) :
    unitOf sizes (idx ++ [u]) = u := by
  unfold unitOf; rw [← h]; exact coord_append_len idx u

/-- one Edgeworth step: slice of the multi-unit step = one-unit step of the slice -/
theorem estepPosU_slice (sizes : List Nat) (units u : Nat) (hu : u < units) (m c : Nat)
    (hm : m < sizes.length) (hc : c < sizes.length) (w w1 : W) (p : Nat × Nat)
    (hw : AgreeLen sizes.length (slice w u) w1) :
    AgreeLen sizes.length (slice (estepPosU sizes units m c w p) u) (estepPos (allIdx sizes) m c w1 p) := by
  intro idx hl
  simp only [slice, estepPosU, estepPos]
  rw [coord_append_lt u (by omega : m < idx.length), coord_append_lt u (by omega : c < idx.length),
    unitOf_append sizes idx u hl, maxViol_eviol sizes units u hu w w1 m c p.1 p.2 hm hc hw]
  have := hw idx hl
  simp only [slice] at this
  rw [this]

theorem estepNegU_slice (sizes : List Nat) (units u : Nat) (hu : u < units) (m c : Nat)
    (hm : m < sizes.length) (hc : c < sizes.length) (w w1 : W) (p : Nat × Nat)
    (hw : AgreeLen sizes.length (slice w u) w1) :
    AgreeLen sizes.length (slice (estepNegU sizes units m c w p) u) (estepNeg (allIdx sizes) m c w1 p) := by
  intro idx hl
  simp only [slice, estepNegU, estepNeg]
  rw [coord_append_lt u (by omega : m < idx.length), coord_append_lt u (by omega : c < idx.length),
    unitOf_append sizes idx u hl, maxViol_neg_eviol sizes units u hu w w1 m c p.1 p.2 hm hc hw]
  have := hw idx hl
  simp only [slice] at this
  rw [this]

theorem foldl_slice {α : Type} (n u : Nat) (SU S1 : W → α → W)
    (h : ∀ w w1 a, AgreeLen n (slice w u) w1 → AgreeLen n (slice (SU w a) u) (S1 w1 a)) (l : List α) :
    ∀ w w1, AgreeLen n (slice w u) w1 → AgreeLen n (slice (l.foldl SU w) u) (l.foldl S1 w1) := by
  induction l with
  | nil => intro w w1 hw; exact hw
  | cons a r ih => intro w w1 hw; exact ih _ _ (h w w1 a hw)

theorem edgeworthOneU_slice (sizes : List Nat) (units u : Nat) (hu : u < units) (tr : Trust)
    (hm : tr.main < sizes.length) (hc : tr.cond < sizes.length) (w w1 : W)
    (hw : AgreeLen sizes.length (slice w u) w1) :
    AgreeLen sizes.length (slice (edgeworthOneU sizes units tr w) u) (edgeworthOne sizes tr w1) := by
  unfold edgeworthOneU edgeworthOne
  simp only
  split
  · exact foldl_slice _ u _ _ (fun a b p h => estepPosU_slice sizes units u hu _ _ hm hc a b p h) _ w w1 hw
  · exact foldl_slice _ u _ _ (fun a b p h => estepNegU_slice sizes units u hu _ _ hm hc a b p h) _ w w1 hw

theorem approxEdgeworthU_slice (sizes : List Nat) (units u : Nat) (hu : u < units) (trs : List Trust)
    (htr : ∀ tr ∈ trs, tr.main < sizes.length ∧ tr.cond < sizes.length) (w w1 : W)
    (hw : AgreeLen sizes.length (slice w u) w1) :
    AgreeLen sizes.length (slice (approxEdgeworthU sizes units trs w) u) (approxEdgeworth sizes trs w1) := by
  unfold approxEdgeworthU approxEdgeworth
  induction trs generalizing w w1 with
  | nil => exact hw
  | cons t r ih =>
    simp only [List.foldl_cons]
    exact ih (fun x hx => htr x (List.mem_cons_of_mem _ hx)) _ _
      (edgeworthOneU_slice sizes units u hu t (htr t (List.mem_cons_self ..)).1 (htr t (List.mem_cons_self ..)).2 w w1 hw)

/-! ### bounds -/

/-- **C09-T1, bounds reductions**: `reduce_min / reduce_max / reduce_sum` over all axes but the last at
unit `u` = the whole-box reduction of the unit-`u` slice. -/
theorem reduceMinButLast_slice (sizes : List Nat) (units u : Nat) (hu : u < units) (w : W) :
    reduceMinButLast sizes units w u = boxMin sizes (slice w u) := by
  unfold reduceMinButLast boxMin
  rw [unitIdx_eq sizes units u hu]
  cases allIdx sizes with
  | nil => rfl
  | cons i is => simp only [List.map_cons, List.map_map]; rfl
theorem reduceMaxButLast_slice (sizes : List Nat) (units u : Nat) (hu : u < units) (w : W) :
    reduceMaxButLast sizes units w u = boxMax sizes (slice w u) := by
  unfold reduceMaxButLast boxMax
  rw [unitIdx_eq sizes units u hu]
  cases allIdx sizes with
  | nil => rfl
  | cons i is => simp only [List.map_cons, List.map_map]; rfl
theorem reduceSumButLast_slice (sizes : List Nat) (units u : Nat) (hu : u < units) (w : W) :
    reduceSumButLast sizes units w u = rsum ((allIdx sizes).map (slice w u)) := by
  unfold reduceSumButLast
  rw [unitIdx_eq sizes units u hu, List.map_map]; rfl

theorem approxBoundsU_slice (sizes : List Nat) (units u : Nat) (hu : u < units) (lo hi : Option ℚ) (w w1 : W)
    (hw : AgreeLen sizes.length (slice w u) w1) :
    AgreeLen sizes.length (slice (approxBoundsU sizes units lo hi w) u) (approxBounds sizes lo hi w1) := by
  intro idx hl
  simp only [slice, approxBoundsU, approxBounds]
  rw [unitOf_append sizes idx u hl, reduceMinButLast_slice sizes units u hu, reduceMaxButLast_slice sizes units u hu,
    boxMin_congr hw.agreeOn, boxMax_congr hw.agreeOn]
  have := hw idx hl
  simp only [slice] at this
  rw [this]

/-! ### monotonicity: the unit axis is one more non-monotone dimension -/

theorem cummaxUpTo_slice (w : W) (u d : Nat) (idx : Idx) (hd : d < idx.length) (k : Nat) :
    cummaxUpTo w d (idx ++ [u]) k = cummaxUpTo (slice w u) d idx k := by
  induction k with
  | zero => simp only [cummaxUpTo, slice, setc_append_lt u _ hd]
  | succ k ih => simp only [cummaxUpTo, ih, slice, setc_append_lt u _ hd]

theorem cummaxUpTo_congr {n : Nat} {f g : W} (h : AgreeLen n f g) (d : Nat) {idx : Idx} (hl : idx.length = n)
    (k : Nat) : cummaxUpTo f d idx k = cummaxUpTo g d idx k := by
  induction k with
  | zero => simp only [cummaxUpTo]; exact h _ (by simpa using hl)
  | succ k ih => simp only [cummaxUpTo, ih]; rw [h _ (by simpa using hl)]

theorem cummaxAx_slice (n u d : Nat) (hd : d < n) (w w1 : W) (hw : AgreeLen n (slice w u) w1) :
    AgreeLen n (slice (cummaxAx w d) u) (cummaxAx w1 d) := by
  intro idx hl
  simp only [slice, cummaxAx]
  rw [coord_append_lt u (by omega : d < idx.length), cummaxUpTo_slice w u d idx (by omega),
    cummaxUpTo_congr hw d hl]

theorem cumminFrom_slice (w : W) (u d N : Nat) (idx : Idx) (hd : d < idx.length) (k : Nat) :
    cumminFrom w d N (idx ++ [u]) k = cumminFrom (slice w u) d N idx k := by
  induction k with
  | zero => simp only [cumminFrom, slice, setc_append_lt u _ hd]
  | succ k ih => simp only [cumminFrom, ih, slice, setc_append_lt u _ hd]

theorem cumminFrom_congr {n : Nat} {f g : W} (h : AgreeLen n f g) (d N : Nat) {idx : Idx} (hl : idx.length = n)
    (k : Nat) : cumminFrom f d N idx k = cumminFrom g d N idx k := by
  induction k with
  | zero => simp only [cumminFrom]; exact h _ (by simpa using hl)
  | succ k ih => simp only [cumminFrom, ih]; rw [h _ (by simpa using hl)]

theorem cumminAx_slice (n u d N : Nat) (hd : d < n) (w w1 : W) (hw : AgreeLen n (slice w u) w1) :
    AgreeLen n (slice (cumminAx w d N) u) (cumminAx w1 d N) := by
  intro idx hl
  simp only [slice, cumminAx]
  rw [coord_append_lt u (by omega : d < idx.length), cumminFrom_slice w u d N idx (by omega),
    cumminFrom_congr hw d N hl]

theorem getD_append_false (mono : List Bool) (d : Nat) :
    (mono ++ [false]).getD d false = mono.getD d false := by
  simp only [List.getD_eq_getElem?_getD]
  by_cases h : d < mono.length
  · rw [List.getElem?_append_left h]
  · rw [List.getElem?_append_right (by omega)]
    have : mono[d]? = none := by simp; omega
    rw [this]
    cases hk : d - mono.length with
    | zero => simp
    | succ k => simp

/-- appending the unit axis with monotonicity `0` does not change the list of projected dimensions -/
theorem monoDims_append (sizes : List Nat) (mono : List Bool) (units : Nat) (h : mono.length ≤ sizes.length) :
    monoDims (sizes ++ [units]) (mono ++ [false]) = monoDims sizes mono := by
  unfold monoDims
  simp only [List.length_append, List.length_cons, List.length_nil, zero_add, List.range_succ,
    List.filter_append, getD_append_false]
  have hh : mono[sizes.length]? = none := by simp; omega
  simp [hh]

theorem getD_append_lt (sizes : List Nat) (units d : Nat) (h : d < sizes.length) :
    (sizes ++ [units]).getD d 0 = sizes.getD d 0 := by
  simp only [List.getD_eq_getElem?_getD, List.getElem?_append_left h]

theorem approxMono_slice (sizes : List Nat) (mono : List Bool) (units u : Nat) (hml : mono.length ≤ sizes.length)
    (w w1 : W) (hw : AgreeLen sizes.length (slice w u) w1) :
    AgreeLen sizes.length (slice (approxMono (sizes ++ [units]) (mono ++ [false]) w) u) (approxMono sizes mono w1) := by
  unfold approxMono
  simp only [monoDims_append sizes mono units hml]
  have hdims : ∀ d ∈ monoDims sizes mono, d < sizes.length := fun d hd => (mem_monoDims.mp hd).1
  generalize monoDims sizes mono = dims at hdims
  -- running max sweep
  have hmax : ∀ (l : List Nat), (∀ d ∈ l, d < sizes.length) → ∀ a a1, AgreeLen sizes.length (slice a u) a1 →
      AgreeLen sizes.length (slice (l.foldl (fun acc d => cummaxAx acc d) a) u) (l.foldl (fun acc d => cummaxAx acc d) a1) := by
    intro l
    induction l with
    | nil => intro _ a a1 h; exact h
    | cons d r ih =>
      intro hl a a1 h
      exact ih (fun x hx => hl x (List.mem_cons_of_mem _ hx)) _ _
        (cummaxAx_slice _ u d (hl d (List.mem_cons_self ..)) a a1 h)
  have hmin : ∀ (l : List Nat), (∀ d ∈ l, d < sizes.length) → ∀ a a1, AgreeLen sizes.length (slice a u) a1 →
      AgreeLen sizes.length
        (slice (l.foldl (fun acc d => cumminAx acc d ((sizes ++ [units]).getD d 0)) a) u)
        (l.foldl (fun acc d => cumminAx acc d (sizes.getD d 0)) a1) := by
    intro l
    induction l with
    | nil => intro _ a a1 h; exact h
    | cons d r ih =>
      intro hl a a1 h
      simp only [List.foldl_cons]
      rw [getD_append_lt sizes units d (hl d (List.mem_cons_self ..))]
      exact ih (fun x hx => hl x (List.mem_cons_of_mem _ hx)) _ _
        (cumminAx_slice _ u d _ (hl d (List.mem_cons_self ..)) a a1 h)
  apply hmin dims hdims
  intro idx hl
  have h1 := hmax dims hdims w w1 hw idx hl
  have h0 := hw idx hl
  simp only [slice] at h1 h0 ⊢
  rw [h1, h0]

/-! ### trapezoid -/

theorem lhsDiff_slice (w : W) (u m c N : Nat) (pos : Bool) (j : Nat) (b : Idx) (hm : m < b.length)
    (hc : c < b.length) : lhsDiff w m c N pos j (b ++ [u]) = lhsDiff (slice w u) m c N pos j b := by
  simp only [lhsDiff, gat_slice w u m c _ _ b hm hc]
theorem rhsDiff_slice (w : W) (u m c M N : Nat) (pos : Bool) (j : Nat) (b : Idx) (hm : m < b.length)
    (hc : c < b.length) : rhsDiff w m c M N pos j (b ++ [u]) = rhsDiff (slice w u) m c M N pos j b := by
  simp only [rhsDiff, gat_slice w u m c _ _ b hm hc]
theorem lhsDiff_congr {n : Nat} {f g : W} (h : AgreeLen n f g) (m c N : Nat) (pos : Bool) (j : Nat) {b : Idx}
    (hb : b.length = n) : lhsDiff f m c N pos j b = lhsDiff g m c N pos j b := by
  simp only [lhsDiff, gat_congr h m c _ _ hb]
theorem rhsDiff_congr {n : Nat} {f g : W} (h : AgreeLen n f g) (m c M N : Nat) (pos : Bool) (j : Nat) {b : Idx}
    (hb : b.length = n) : rhsDiff f m c M N pos j b = rhsDiff g m c M N pos j b := by
  simp only [rhsDiff, gat_congr h m c _ _ hb]

theorem getR_map_range (n : Nat) (g : Nat → ℚ) (u : Nat) (h : u < n) :
    getR ((List.range n).map g) u = g u := by
  simp [getR, List.getD_eq_getElem?_getD, h]

theorem getR_replicate_zero (n u : Nat) : getR (List.replicate n 0) u = 0 := by
  simp only [getR, List.getD_eq_getElem?_getD]
  by_cases h : u < n
  · simp [h]
  · have : (List.replicate n (0 : ℚ))[u]? = none := by simp; omega
    rw [this]; rfl

/-- **C09-T1, trapezoid update**: entry `u` of the per-unit `_trapezoid_violation_update` vector =
the one-unit update of the slice (with the unit's own prior update) -/
theorem trapScalarU_slice (mode : TrapMode) (sizes : List Nat) (units u : Nat) (hu : u < units)
    (f : Idx → ℚ) (prior : List ℚ) :
    getR (trapScalarU mode sizes units f prior) u =
      trapScalar mode (allIdx sizes) (fun b => f (b ++ [u])) (getR prior u) := by
  unfold trapScalarU
  rw [getR_map_range units _ u hu]
  unfold trapScalar
  cases mode <;> simp only [unitIdx_eq sizes units u hu, maxOver_map]

theorem trapStepU_slice (sizes : List Nat) (units u : Nat) (hu : u < units) (m c M N : Nat) (pos : Bool)
    (mode : TrapMode) (hm : m < sizes.length) (hc : c < sizes.length) (s : TrapStateU) (s1 : TrapState) (j : Nat)
    (hw : AgreeLen sizes.length (slice s.w u) s1.w) (hl : getR s.lhs u = s1.lhs) (hr : getR s.rhs u = s1.rhs) :
    AgreeLen sizes.length (slice (trapStepU sizes units m c M N pos mode s j).w u)
        (trapStep (allIdx sizes) m c M N pos mode s1 j).w ∧
      getR (trapStepU sizes units m c M N pos mode s j).lhs u = (trapStep (allIdx sizes) m c M N pos mode s1 j).lhs ∧
      getR (trapStepU sizes units m c M N pos mode s j).rhs u = (trapStep (allIdx sizes) m c M N pos mode s1 j).rhs := by
  -- the lhs scalar
  have hlU : getR (trapScalarU mode sizes units (lhsDiff s.w m c N pos j) s.lhs) u =
      trapScalar mode (allIdx sizes) (lhsDiff s1.w m c N pos j) s1.lhs := by
    rw [trapScalarU_slice mode sizes units u hu, hl]
    apply trapScalar_congr
    intro b hb
    have hbl := length_of_mem_allIdx hb
    rw [lhsDiff_slice s.w u m c N pos j b (by omega) (by omega)]
    exact lhsDiff_congr hw m c N pos j hbl
  -- first half step
  have h1 : AgreeLen sizes.length
      (slice (fun idx =>
        if coord idx m = 0 ∧ coord idx c = jn N pos j then
          s.w idx - trapAmount mode (lhsDiff s.w m c N pos j idx)
            (getR (trapScalarU mode sizes units (lhsDiff s.w m c N pos j) s.lhs) (unitOf sizes idx))
        else s.w idx) u)
      (fun idx =>
        if coord idx m = 0 ∧ coord idx c = jn N pos j then
          s1.w idx - trapAmount mode (lhsDiff s1.w m c N pos j idx)
            (trapScalar mode (allIdx sizes) (lhsDiff s1.w m c N pos j) s1.lhs)
        else s1.w idx) := by
    intro idx hidx
    simp only [slice]
    rw [coord_append_lt u (by omega : m < idx.length), coord_append_lt u (by omega : c < idx.length),
      unitOf_append sizes idx u hidx, hlU, lhsDiff_slice s.w u m c N pos j idx (by omega) (by omega),
      lhsDiff_congr hw m c N pos j hidx]
    have := hw idx hidx
    simp only [slice] at this
    rw [this]
  have hrU : getR (trapScalarU mode sizes units (rhsDiff (fun idx =>
        if coord idx m = 0 ∧ coord idx c = jn N pos j then
          s.w idx - trapAmount mode (lhsDiff s.w m c N pos j idx)
            (getR (trapScalarU mode sizes units (lhsDiff s.w m c N pos j) s.lhs) (unitOf sizes idx))
        else s.w idx) m c M N pos j) s.rhs) u =
      trapScalar mode (allIdx sizes) (rhsDiff (fun idx =>
        if coord idx m = 0 ∧ coord idx c = jn N pos j then
          s1.w idx - trapAmount mode (lhsDiff s1.w m c N pos j idx)
            (trapScalar mode (allIdx sizes) (lhsDiff s1.w m c N pos j) s1.lhs)
        else s1.w idx) m c M N pos j) s1.rhs := by
    rw [trapScalarU_slice mode sizes units u hu, hr]
    apply trapScalar_congr
    intro b hb
    have hbl := length_of_mem_allIdx hb
    rw [rhsDiff_slice _ u m c M N pos j b (by omega) (by omega)]
    exact rhsDiff_congr h1 m c M N pos j hbl
  refine ⟨?_, hlU, hrU⟩
  intro idx hidx
  simp only [trapStepU, trapStep, slice]
  rw [coord_append_lt u (by omega : m < idx.length), coord_append_lt u (by omega : c < idx.length),
    unitOf_append sizes idx u hidx, hrU, hlU, rhsDiff_slice _ u m c M N pos j idx (by omega) (by omega),
    rhsDiff_congr h1 m c M N pos j hidx]
  have := h1 idx hidx
  simp only [slice, coord_append_lt u (by omega : m < idx.length), coord_append_lt u (by omega : c < idx.length),
    unitOf_append sizes idx u hidx, hlU] at this
  rw [this]

theorem trapezoidOneU_slice (sizes : List Nat) (units u : Nat) (hu : u < units) (ew : List Trust) (tr : Trust)
    (hm : tr.main < sizes.length) (hc : tr.cond < sizes.length) (w w1 : W)
    (hw : AgreeLen sizes.length (slice w u) w1) :
    AgreeLen sizes.length (slice (trapezoidOneU sizes units ew tr w) u) (trapezoidOne sizes ew tr w1) := by
  unfold trapezoidOneU trapezoidOne
  simp only
  have key : ∀ (l : List Nat) (s : TrapStateU) (s1 : TrapState),
      AgreeLen sizes.length (slice s.w u) s1.w → getR s.lhs u = s1.lhs → getR s.rhs u = s1.rhs →
      AgreeLen sizes.length
        (slice (l.foldl (trapStepU sizes units tr.main tr.cond (sizes.getD tr.main 0) (sizes.getD tr.cond 0) tr.pos
          (trapMode ew tr)) s).w u)
        (l.foldl (trapStep (allIdx sizes) tr.main tr.cond (sizes.getD tr.main 0) (sizes.getD tr.cond 0) tr.pos
          (trapMode ew tr)) s1).w := by
    intro l
    induction l with
    | nil => intro s s1 h _ _; exact h
    | cons j r ih =>
      intro s s1 h hl hr
      obtain ⟨a, b, c⟩ := trapStepU_slice sizes units u hu tr.main tr.cond (sizes.getD tr.main 0)
        (sizes.getD tr.cond 0) tr.pos (trapMode ew tr) hm hc s s1 j h hl hr
      exact ih _ _ a b c
  exact key _ ⟨w, _, _⟩ ⟨w1, 0, 0⟩ hw (getR_replicate_zero _ _) (getR_replicate_zero _ _)

theorem approxTrapezoidU_slice (sizes : List Nat) (units u : Nat) (hu : u < units) (ew trs : List Trust)
    (htr : ∀ tr ∈ trs, tr.main < sizes.length ∧ tr.cond < sizes.length) (w w1 : W)
    (hw : AgreeLen sizes.length (slice w u) w1) :
    AgreeLen sizes.length (slice (approxTrapezoidU sizes units ew trs w) u) (approxTrapezoid sizes ew trs w1) := by
  unfold approxTrapezoidU approxTrapezoid
  induction trs generalizing w w1 with
  | nil => exact hw
  | cons t r ih =>
    simp only [List.foldl_cons]
    exact ih (fun x hx => htr x (List.mem_cons_of_mem _ hx)) _ _
      (trapezoidOneU_slice sizes units u hu ew t (htr t (List.mem_cons_self ..)).1 (htr t (List.mem_cons_self ..)).2 w w1 hw)

/-- **C09-T1, `finalize_constraints`**: for every accepted configuration, unit count, unit `u` and
multi-unit kernel, the unit-`u` slice of the multi-unit finalisation (all stages on the
`sizes ++ [units]` tensor, reductions over all axes but the last) equals the one-unit finalisation
of the unit-`u` slice, at every index of the one-unit box. -/
theorem finalizeU_slice (c : Cfg) (units u : Nat) (hu : u < units) (hml : c.mono.length ≤ c.sizes.length)
    (htr : ∀ tr ∈ c.edgeworth ++ c.trapezoid, tr.main < c.sizes.length ∧ tr.cond < c.sizes.length)
    (w w1 : W) (hw : AgreeLen c.sizes.length (slice w u) w1) :
    AgreeLen c.sizes.length (slice (finalizeU c units w) u) (finalize c w1) := by
  unfold finalizeU finalize
  split
  · exact hw
  · have h1 := approxMono_slice c.sizes c.mono units u hml w w1 hw
    simp only
    split
    · exact h1
    · exact approxBoundsU_slice _ _ _ hu _ _ _ _
        (approxTrapezoidU_slice _ _ _ hu _ _ (fun tr h => htr tr (List.mem_append_right _ h)) _ _
          (approxEdgeworthU_slice _ _ _ hu _ (fun tr h => htr tr (List.mem_append_left _ h)) _ _ h1))

/-! ### matrices `(rows, units)` -/

theorem getR_zipWith (f : ℚ → ℚ → ℚ) (a b : List ℚ) (u : Nat) (ha : u < a.length) (hb : u < b.length) :
    getR (List.zipWith f a b) u = f (getR a u) (getR b u) := by
  simp [getR, List.getD_eq_getElem?_getD, ha, hb]

theorem getR_map (f : ℚ → ℚ) (a : List ℚ) (u : Nat) (ha : u < a.length) :
    getR (a.map f) u = f (getR a u) := by
  simp [getR, List.getD_eq_getElem?_getD, ha]

/-- every row has one entry per unit -/
def Rect (units : Nat) (m : Mat) : Prop := ∀ row ∈ m, row.length = units

theorem sumAxis0_acc (units u : Nat) (hu : u < units) (m : Mat) (hm : Rect units m) :
    ∀ acc : List ℚ, acc.length = units →
      (m.foldl vadd acc).length = units ∧ getR (m.foldl vadd acc) u = getR acc u + rsum (col m u) := by
  induction m with
  | nil => intro acc h; simp [col, rsum, h]
  | cons r rs ih =>
    intro acc h
    have hr := hm r (List.mem_cons_self ..)
    have hl : (vadd acc r).length = units := by simp [vadd, h, hr]
    obtain ⟨h1, h2⟩ := ih (fun x hx => hm x (List.mem_cons_of_mem _ hx)) (vadd acc r) hl
    refine ⟨h1, ?_⟩
    simp only [List.foldl_cons, h2, col, List.map_cons, rsum]
    rw [show getR (vadd acc r) u = getR acc u + getR r u from getR_zipWith _ _ _ _ (by omega) (by omega)]
    ring

/-- **C09-T1, column sums**: entry `u` of `tf.reduce_sum(m, axis=0)` is the sum of column `u` -/
theorem getR_sumAxis0 (units u : Nat) (hu : u < units) (m : Mat) (hm : Rect units m) :
    getR (sumAxis0 units m) u = rsum (col m u) := by
  have := (sumAxis0_acc units u hu m hm (List.replicate units 0) (by simp)).2
  rw [getR_replicate_zero, zero_add] at this
  exact this

theorem length_sumAxis0 (units : Nat) (m : Mat) (hm : Rect units m) (hpos : 0 < units) :
    (sumAxis0 units m).length = units :=
  (sumAxis0_acc units 0 hpos m hm (List.replicate units 0) (by simp)).1

theorem rmax_cons (x y : ℚ) (l : List ℚ) : rmax x (y :: l) = rmax (max x y) l := rfl

theorem maxAbsAxis0_acc (units u : Nat) (hu : u < units) (m : Mat) (hm : Rect units m) :
    ∀ acc : List ℚ, acc.length = units →
      getR (m.foldl (fun acc row => vmax acc (row.map Rat.abs)) acc) u =
        rmax (getR acc u) ((col m u).map Rat.abs) := by
  induction m with
  | nil => intro acc _; simp [col, rmax]
  | cons r rs ih =>
    intro acc h
    have hr := hm r (List.mem_cons_self ..)
    have hl : (vmax acc (r.map Rat.abs)).length = units := by simp [vmax, h, hr]
    rw [List.foldl_cons, ih (fun x hx => hm x (List.mem_cons_of_mem _ hx)) _ hl]
    simp only [col, List.map_cons, rmax_cons]
    rw [show getR (vmax acc (r.map Rat.abs)) u = max (getR acc u) (getR (r.map Rat.abs) u) from
      getR_zipWith _ _ _ _ (by omega) (by simp; omega), getR_map _ _ _ (by omega)]

/-- **C09-T1, column max-norm**: entry `u` of `tf.reduce_max(tf.abs(m), axis=0)` = `‖column u‖∞` -/
theorem getR_maxAbsAxis0 (units u : Nat) (hu : u < units) (m : Mat) (hm : Rect units m) :
    getR (maxAbsAxis0 units m) u = Tfl.Linear.normInf (col m u) := by
  have := maxAbsAxis0_acc units u hu m hm (List.replicate units 0) (by simp)
  rw [getR_replicate_zero] at this
  exact this

theorem col_map_rows (m : Mat) (f : ℚ → ℚ) (units u : Nat) (hu : u < units) (hm : Rect units m) :
    col (m.map (fun row => row.map f)) u = (col m u).map f := by
  simp only [col, List.map_map]
  apply List.map_congr_left
  intro row hrow
  exact getR_map f row u (by rw [hm row hrow]; exact hu)

theorem rect_map_rows (m : Mat) (f : ℚ → ℚ) (units : Nat) (hm : Rect units m) :
    Rect units (m.map (fun row => row.map f)) := by
  intro row hrow
  obtain ⟨r, hr, rfl⟩ := List.mem_map.mp hrow
  simpa using hm r hr

/-- a `(units)` vector combined into every row acts on column `u` through its entry `u` -/
theorem col_zipRows (f : ℚ → ℚ → ℚ) (m : Mat) (v : List ℚ) (units u : Nat) (hu : u < units) (hm : Rect units m)
    (hv : v.length = units) :
    col (m.map (fun row => List.zipWith f row v)) u = (col m u).map (fun x => f x (getR v u)) := by
  simp only [col, List.map_map]
  apply List.map_congr_left
  intro row hrow
  exact getR_zipWith f row v u (by rw [hm row hrow]; exact hu) (by omega)

open Tfl.Linear in
/-- **C09-T1, Linear normalisation**: column `u` of the multi-unit normalisation (`tf.norm(axis=0)`,
`tf.where(norm < eps, 1, norm)`, broadcast division) is the one-unit normalisation of column `u`. -/
theorem normalizeU_col (units u : Nat) (hu : u < units) (ord : NormOrd) (m : Mat) (hm : Rect units m) :
    col (normalizeU units ord m) u = normalize ord (col m u) := by
  cases ord with
  | none => rfl
  | l2 => rfl
  | l1 =>
    simp only [normalizeU, normalize, normsU, divRows]
    have hl : ((sumAxis0 units (m.map (fun row => row.map Rat.abs))).map
        (fun x => if x < normEps then 1 else x)).length = units := by
      rw [List.length_map]; exact length_sumAxis0 units _ (rect_map_rows m _ units hm) (by omega)
    rw [col_zipRows (· / ·) m _ units u hu hm hl, getR_map _ _ _ (by
        rw [length_sumAxis0 units _ (rect_map_rows m _ units hm) (by omega)]; exact hu),
      getR_sumAxis0 units u hu _ (rect_map_rows m _ units hm), col_map_rows m _ units u hu hm]
    rfl
  | linf =>
    simp only [normalizeU, normalize, normsU, divRows]
    have hlen : (maxAbsAxis0 units m).length = units := by
      unfold maxAbsAxis0
      have : ∀ (l : Mat) (acc : List ℚ), Rect units l → acc.length = units →
          (l.foldl (fun acc row => vmax acc (row.map Rat.abs)) acc).length = units := by
        intro l
        induction l with
        | nil => intro acc _ h; exact h
        | cons r rs ih =>
          intro acc hr h
          exact ih _ (fun x hx => hr x (List.mem_cons_of_mem _ hx)) (by
            simp [vmax, h, hr r (List.mem_cons_self ..)])
      exact this m _ hm (by simp)
    have hl : ((maxAbsAxis0 units m).map (fun x => if x < normEps then 1 else x)).length = units := by
      rw [List.length_map]; exact hlen
    rw [col_zipRows (· / ·) m _ units u hu hm hl, getR_map _ _ _ (by rw [hlen]; exact hu),
      getR_maxAbsAxis0 units u hu m hm]

/-- squared 2-norm per column (the order-2 path is compared through squares) -/
theorem getR_normSqU (units u : Nat) (hu : u < units) (m : Mat) (hm : Rect units m) :
    getR (normSqU units m) u = Tfl.Linear.normSq (col m u) := by
  unfold normSqU Tfl.Linear.normSq
  rw [getR_sumAxis0 units u hu _ (rect_map_rows m _ units hm), col_map_rows m _ units u hu hm]

/-! ### PWL: per-column `reduce_sum(heights, axis=0)` stages -/
open Tfl.PwlProj

theorem map_add_zero (l : List ℚ) : l.map (fun h => h + 0) = l := by simp

/-- the one-unit model's increasing bounds projection is the scalar core applied to the column sum -/
theorem projectBoundsInc_eq_core (bias : ℚ) (heights : List ℚ) (omin omax : ℚ) (minC maxC : BCT) :
    projectBoundsInc bias heights omin omax minC maxC =
      ((boundsIncCore (heights.length : ℚ) (rsum heights) bias omin omax minC maxC).1,
       heights.map (fun h => h + (boundsIncCore (heights.length : ℚ) (rsum heights) bias omin omax minC maxC).2)) := by
  unfold projectBoundsInc boundsIncCore
  cases maxC <;> cases minC <;> simp

theorem length_col (m : Mat) (u : Nat) : (col m u).length = m.length := by simp [col]

/-- **C09-T1, PWL bounds projection** (`_project_bounds_considering_monotonicity`, increasing branch):
bias entry `u` and height column `u` of the multi-unit stage = the one-unit stage on unit `u`. -/
theorem projectBoundsIncU_col (units u : Nat) (hu : u < units) (bias : List ℚ) (H : Mat) (hH : Rect units H)
    (omin omax : ℚ) (minC maxC : BCT) :
    (getR (projectBoundsIncU units bias H omin omax minC maxC).1 u,
      col (projectBoundsIncU units bias H omin omax minC maxC).2 u) =
    projectBoundsInc (getR bias u) (col H u) omin omax minC maxC := by
  rw [projectBoundsInc_eq_core, length_col, ← getR_sumAxis0 units u hu H hH]
  simp only [projectBoundsIncU, addRows, vadd]
  rw [List.map_map, getR_map_range units _ u hu]
  congr 1
  rw [col_zipRows (· + ·) H _ units u hu hH (by simp), List.map_map, getR_map_range units _ u hu]
  rfl

theorem squeezeInc_eq_core (bias : ℚ) (heights : List ℚ) (omin omax : ℚ) (minC maxC : BCT) :
    squeezeInc bias heights omin omax minC maxC =
      ((squeezeCore (rsum heights) bias omin omax minC maxC).1,
       heights.map (fun h => h * (squeezeCore (rsum heights) bias omin omax minC maxC).2)) := by
  unfold squeezeInc squeezeCore
  by_cases h : maxC = .none
  · simp [h]
  · simp [h]

/-- **C09-T1, PWL scaling** (`_squeeze_by_scaling`: `total = tf.reduce_sum(heights, axis=0)`) -/
theorem squeezeIncU_col (units u : Nat) (hu : u < units) (bias : List ℚ) (H : Mat) (hH : Rect units H)
    (omin omax : ℚ) (minC maxC : BCT) :
    (getR (squeezeIncU units bias H omin omax minC maxC).1 u,
      col (squeezeIncU units bias H omin omax minC maxC).2 u) =
    squeezeInc (getR bias u) (col H u) omin omax minC maxC := by
  rw [squeezeInc_eq_core, ← getR_sumAxis0 units u hu H hH]
  simp only [squeezeIncU, mulRows]
  rw [List.map_map, getR_map_range units _ u hu]
  congr 1
  rw [col_zipRows (· * ·) H _ units u hu hH (by simp), List.map_map, getR_map_range units _ u hu]
  rfl

/-! ### KFL reshape -/

/-- **C09-T1, KFL reshape**: block `u` of the `(L, units, dims, T)` view of the multi-unit kernel is the
`(L, 1, dims, T)` view of the one-unit kernel carrying columns `u*dims …` -/
theorem reshaped_unitKernel (dims : Nat) (k : Flat) (i u d t : Nat) :
    reshaped dims k i u d t = reshaped dims (unitKernel dims k u) i 0 d t := by
  simp [reshaped, unitKernel]

/-- the per-`(unit, term)` bound factor of the multi-unit `_approximately_project_bounds`
(`reduce_max(abs, axis=1)` then `reduce_prod(axis=3)` on the reshaped kernel) is `Kfl.maxOutput` of
that unit's term block -/
theorem maxOutputU_eq (L dims : Nat) (k : Flat) (u t : Nat) :
    maxOutputU L dims k u t = Tfl.Kfl.maxOutput (unitTerm L dims k u t) := by
  simp [maxOutputU, Tfl.Kfl.maxOutput, unitTerm, maxKeypoint, List.map_map, Function.comp_def]

theorem unitTerm_unitKernel (L dims : Nat) (k : Flat) (u t : Nat) :
    unitTerm L dims k u t = unitTerm L dims (unitKernel dims k u) 0 t := by
  simp [unitTerm, reshaped, unitKernel]

end Tfl.Units
