import TflModel.Lemmas.DykstraConv
import Mathlib.Algebra.BigOperators.Group.Finset.Basic
import Mathlib.Algebra.Order.BigOperators.Group.Finset
/-!
# Dykstra's algorithm with ONE correction per set, sets visited several times per cycle

`project_by_dykstra` keeps its roll-back tensors in a dict keyed by the constraint group. A constraint
that is listed twice is visited twice per pass and both visits read and overwrite the SAME tensor.
That is not Boyle–Dykstra's loop (there every position of the cycle has its own correction) but the
variant of Hundal and Deutsch ("Two generalizations of Dykstra's cyclic projections algorithm", 1997):
the correction subtracted at a visit of a set is the one stored at the most recent visit of that set.

Setting: slots `s : ℕ`, a map `P s` and a closed set `C s` per slot, a list `vs` of slots in visiting
order (any repetitions). `passGS / iterGS` is the model-shaped loop (`Tfl.Lat.dykstraPassS /
dykstraIterS` is the instance `V = Idx → ℚ`): the state is the current point and a LIST of corrections,
visit `s` reads entry `s` (`getD`) and overwrites it (`set`).

`dykstra_converges_slots`: in a finite-dimensional real inner product space, if on the admissible set
`S` every `P s` lands in `C s` and satisfies the variational inequality of the projection, the sets
are closed and have a common point, then the iterates converge to the point of `⋂_{s ∈ vs} C s` nearest
to the start. The proof is Boyle–Dykstra's with the ghost state indexed by slot (`passF`): every visit
satisfies the same one-step Lyapunov inequality (`visit_potential`), whatever slot it uses.
-/
namespace Tfl.DykConv
open Filter Topology
open scoped RealInnerProductSpace

/-! ## the loop with slots, over any carrier -/
section GenericS
variable {V : Type*} [Sub V] [Zero V]

/-- one pass; every map comes with the index of its correction in `cs` -/
def passGS : List ((V → V) × ℕ) → V → List V → V × List V
  | [], w, cs => (w, cs)
  | q :: ps, w, cs =>
    let r := visitG q.1 w (cs.getD q.2 0)
    passGS ps r.1 (cs.set q.2 r.2)

def iterGS (ps : List ((V → V) × ℕ)) : Nat → V × List V → V × List V
  | 0, s => s
  | n+1, s => iterGS ps n (passGS ps s.1 s.2)

theorem passGS_length (ps : List ((V → V) × ℕ)) (w : V) (cs : List V) :
    (passGS ps w cs).2.length = cs.length := by
  induction ps generalizing w cs with
  | nil => rfl
  | cons q r ih => simp [passGS, ih]

end GenericS

variable {E : Type*} [NormedAddCommGroup E] [InnerProductSpace ℝ E]

/-! ## the pass with ghost state indexed by slot -/
section GhostF

/-- ghost state: per slot the correction and the point the slot's map returned at its last visit -/
abbrev GS (E : Type*) := ℕ → E × E

/-- the pass on the ghost state; the third component is the list of points visited, in order -/
def passF (P : ℕ → E → E) : List ℕ → E → GS E → E × GS E × List E
  | [], w, st => (w, st, [])
  | s :: vs, w, st =>
    let r := visitG (P s) w (st s).1
    let rest := passF P vs r.1 (Function.update st s (r.2, r.1))
    (rest.1, rest.2.1, r.1 :: rest.2.2)

omit [InnerProductSpace ℝ E] in
theorem passF_trace_length (P : ℕ → E → E) (vs : List ℕ) (w : E) (st : GS E) :
    (passF P vs w st).2.2.length = vs.length := by
  induction vs generalizing w st with
  | nil => rfl
  | cons s vs ih => simp [passF, ih]

omit [InnerProductSpace ℝ E] in
/-- a slot that is not visited keeps its entry -/
theorem passF_untouched (P : ℕ → E → E) (vs : List ℕ) (w : E) (st : GS E) {s : ℕ} (hs : s ∉ vs) :
    (passF P vs w st).2.1 s = st s := by
  induction vs generalizing w st with
  | nil => rfl
  | cons s0 vs ih =>
    have h0 : s ≠ s0 := fun e => hs (e ▸ List.mem_cons_self ..)
    have h1 : s ∉ vs := fun e => hs (List.mem_cons_of_mem _ e)
    simp only [passF]
    rw [ih _ _ h1, Function.update_of_ne h0]

omit [InnerProductSpace ℝ E] in
theorem passF_dist_le (P : ℕ → E → E) (vs : List ℕ) (w : E) (st : GS E) :
    ‖w - (passF P vs w st).1‖ ≤ pathLen w (passF P vs w st).2.2 := by
  induction vs generalizing w st with
  | nil => simp [passF, pathLen]
  | cons s vs ih =>
    simp only [passF, pathLen]
    have := ih (visitG (P s) w (st s).1).1
      (Function.update st s ((visitG (P s) w (st s).1).2, (visitG (P s) w (st s).1).1))
    have h2 := norm_sub_le_norm_sub_add_norm_sub w (visitG (P s) w (st s).1).1
      (passF P vs (visitG (P s) w (st s).1).1
        (Function.update st s ((visitG (P s) w (st s).1).2, (visitG (P s) w (st s).1).1))).1
    linarith

omit [InnerProductSpace ℝ E] in
/-- at the end of a pass the ghost point of every visited slot is near the current point -/
theorem passF_ghost_near (P : ℕ → E → E) (vs : List ℕ) (w : E) (st : GS E) :
    ∀ s ∈ vs, ‖((passF P vs w st).2.1 s).2 - (passF P vs w st).1‖ ≤ pathLen w (passF P vs w st).2.2 := by
  induction vs generalizing w st with
  | nil => intro s hs; cases hs
  | cons s0 vs ih =>
    intro s hs
    simp only [passF, pathLen]
    set r := visitG (P s0) w (st s0).1 with hr
    set st1 := Function.update st s0 (r.2, r.1) with hst1
    have hn : 0 ≤ ‖w - r.1‖ := norm_nonneg _
    by_cases h : s ∈ vs
    · have := ih r.1 st1 s h
      linarith
    · have e : s = s0 := by
        rcases List.mem_cons.mp hs with e | e
        · exact e
        · exact absurd e h
      subst e
      rw [passF_untouched P vs r.1 st1 h, hst1, Function.update_self]
      have := passF_dist_le P vs r.1 st1
      simp only
      linarith

omit [InnerProductSpace ℝ E] in
theorem passF_corr_le (P : ℕ → E → E) (vs : List ℕ) (w : E) (st : GS E) {M : ℝ}
    (h : ∀ s, ‖(st s).1‖ ≤ M) :
    ∀ s, ‖((passF P vs w st).2.1 s).1‖ ≤ M + pathLen w (passF P vs w st).2.2 := by
  induction vs generalizing w st M with
  | nil => intro s; simpa [passF, pathLen] using h s
  | cons s0 vs ih =>
    intro s
    simp only [passF, pathLen]
    set r := visitG (P s0) w (st s0).1 with hr
    set st1 := Function.update st s0 (r.2, r.1) with hst1
    have hn : 0 ≤ ‖w - r.1‖ := norm_nonneg _
    have h1 : ∀ s, ‖(st1 s).1‖ ≤ M + ‖w - r.1‖ := by
      intro s
      by_cases e : s = s0
      · subst e
        rw [hst1, Function.update_self]
        simp only [hr, visitG]
        set c := (st s).1
        have e2 : P s (w - c) - (w - c) = c - (w - P s (w - c)) := by abel
        rw [e2]
        have := norm_sub_le c (w - P s (w - c))
        have := h s
        linarith
      · rw [hst1, Function.update_of_ne e]
        have := h s
        linarith
    have := ih r.1 st1 h1 s
    linarith

omit [NormedAddCommGroup E] [InnerProductSpace ℝ E] in
/-- the finite sum over the slots of `U` after one entry has been replaced -/
theorem sum_update_slot {M : Type*} [AddCommGroup M] (U : Finset ℕ) (st : GS E) {s0 : ℕ} (h0 : s0 ∈ U)
    (e : E × E) (g : E × E → M) :
    ∑ s ∈ U, g (Function.update st s0 e s) = ∑ s ∈ U, g (st s) - g (st s0) + g e := by
  rw [← Finset.add_sum_erase U _ h0, ← Finset.add_sum_erase U (fun s => g (st s)) h0]
  have : ∑ s ∈ U.erase s0, g (Function.update st s0 e s) = ∑ s ∈ U.erase s0, g (st s) := by
    refine Finset.sum_congr rfl (fun s hs => ?_)
    rw [Function.update_of_ne (Finset.ne_of_mem_erase hs)]
  rw [this, Function.update_self]
  abel

omit [InnerProductSpace ℝ E] in
/-- Dykstra's bookkeeping with shared slots: `w − Σ_slots c` is invariant along a pass -/
theorem passF_telescope (P : ℕ → E → E) (vs : List ℕ) (w : E) (st : GS E) (U : Finset ℕ)
    (hU : ∀ s ∈ vs, s ∈ U) :
    (passF P vs w st).1 - ∑ s ∈ U, ((passF P vs w st).2.1 s).1 = w - ∑ s ∈ U, (st s).1 := by
  induction vs generalizing w st with
  | nil => rfl
  | cons s0 vs ih =>
    simp only [passF]
    rw [ih _ _ (fun s hs => hU s (List.mem_cons_of_mem _ hs)),
      sum_update_slot U st (hU s0 (List.mem_cons_self ..)) _ Prod.fst]
    simp only [visitG]
    abel

variable {P : ℕ → E → E} {C : ℕ → Set E} {S : Set E}

theorem passF_inv (hsub : ∀ x ∈ S, ∀ y ∈ S, x - y ∈ S) {vs : List ℕ} {U : Finset ℕ}
    (hU : ∀ s ∈ vs, s ∈ U) (hk : ∀ s ∈ vs, HypK P C S s) {w : E} (hw : w ∈ S) {st : GS E}
    (h : ∀ s ∈ U, Inv C S s (st s)) :
    (passF P vs w st).1 ∈ S ∧ ∀ s ∈ U, Inv C S s ((passF P vs w st).2.1 s) := by
  induction vs generalizing w st with
  | nil => exact ⟨hw, h⟩
  | cons s0 vs ih =>
    simp only [passF]
    have h0 := hU s0 (List.mem_cons_self ..)
    obtain ⟨h1, h2⟩ := visit_inv hsub (hk s0 (List.mem_cons_self ..)) hw (h s0 h0)
    refine ih (fun s hs => hU s (List.mem_cons_of_mem _ hs))
      (fun s hs => hk s (List.mem_cons_of_mem _ hs)) h1 (fun s hs => ?_)
    by_cases e : s = s0
    · subst e; rw [Function.update_self]; exact h2
    · rw [Function.update_of_ne e]; exact h s hs

/-- `Σ_{s ∈ U} ⟪c_s, z − y_s⟫` -/
def GF (U : Finset ℕ) (z : E) (st : GS E) : ℝ := ∑ s ∈ U, ⟪(st s).1, z - (st s).2⟫

/-- `Σ_{s ∈ U} |⟪c_s, w − y_s⟫|` -/
def TF (U : Finset ℕ) (w : E) (st : GS E) : ℝ := ∑ s ∈ U, |⟪(st s).1, w - (st s).2⟫|

/-- the Lyapunov inequality of one pass, shared slots -/
theorem passF_potential (hsub : ∀ x ∈ S, ∀ y ∈ S, x - y ∈ S) {vs : List ℕ} {U : Finset ℕ}
    (hU : ∀ s ∈ vs, s ∈ U) (hk : ∀ s ∈ vs, HypK P C S s) (z : E) (hz : ∀ s ∈ vs, z ∈ C s) {w : E}
    (hw : w ∈ S) {st : GS E} (h : ∀ s ∈ U, Inv C S s (st s)) :
    ‖(passF P vs w st).1 - z‖ ^ 2 + 2 * GF U z (passF P vs w st).2.1 + pathSq w (passF P vs w st).2.2
      ≤ ‖w - z‖ ^ 2 + 2 * GF U z st := by
  induction vs generalizing w st with
  | nil => simp [passF, pathSq]
  | cons s0 vs ih =>
    have h0 := hU s0 (List.mem_cons_self ..)
    obtain ⟨h1, h2⟩ := visit_inv hsub (hk s0 (List.mem_cons_self ..)) hw (h s0 h0)
    set r := visitG (P s0) w (st s0).1 with hr
    have hst1 : ∀ s ∈ U, Inv C S s (Function.update st s0 (r.2, r.1) s) := by
      intro s hs
      by_cases e : s = s0
      · subst e; rw [Function.update_self]; exact h2
      · rw [Function.update_of_ne e]; exact h s hs
    have ih' := ih (fun s hs => hU s (List.mem_cons_of_mem _ hs))
      (fun s hs => hk s (List.mem_cons_of_mem _ hs))
      (fun s hs => hz s (List.mem_cons_of_mem _ hs)) h1 hst1
    have hG : GF U z (Function.update st s0 (r.2, r.1))
        = GF U z st - ⟪(st s0).1, z - (st s0).2⟫ + ⟪r.2, z - r.1⟫ := by
      unfold GF
      exact sum_update_slot U st h0 (r.2, r.1) (fun e => ⟪e.1, z - e.2⟫)
    have e : ⟪r.2, z - r.1⟫ = ⟪r.1 - (w - (st s0).1), z - r.1⟫ := rfl
    have hp := visit_potential w (st s0).1 (st s0).2 z r.1
    have hnn := (h s0 h0).2.2 _ h2.2.1
    simp only at hnn
    simp only [passF, pathSq]
    rw [← hr]
    rw [hG] at ih'
    linarith

theorem GF_nonneg {U : Finset ℕ} (z : E) (hz : ∀ s ∈ U, z ∈ C s) {st : GS E}
    (h : ∀ s ∈ U, Inv C S s (st s)) : 0 ≤ GF U z st :=
  Finset.sum_nonneg (fun s hs => (h s hs).2.2 z (hz s hs))

theorem TF_nonneg (U : Finset ℕ) (w : E) (st : GS E) : 0 ≤ TF U w st :=
  Finset.sum_nonneg (fun _ _ => abs_nonneg _)

theorem TF_le (U : Finset ℕ) (w : E) (st : GS E) {A B : ℝ} (hA : 0 ≤ A) (h1 : ∀ s ∈ U, ‖(st s).1‖ ≤ A)
    (h2 : ∀ s ∈ U, ‖(st s).2 - w‖ ≤ B) : TF U w st ≤ (U.card : ℝ) * (A * B) := by
  have : ∀ s ∈ U, |⟪(st s).1, w - (st s).2⟫| ≤ A * B := by
    intro s hs
    have := abs_real_inner_le_norm (st s).1 (w - (st s).2)
    have hn : ‖w - (st s).2‖ = ‖(st s).2 - w‖ := norm_sub_rev _ _
    have hm : ‖(st s).1‖ * ‖w - (st s).2‖ ≤ A * B := by
      rw [hn]; exact mul_le_mul (h1 s hs) (h2 s hs) (norm_nonneg _) hA
    linarith
  calc TF U w st ≤ ∑ _s ∈ U, A * B := Finset.sum_le_sum this
    _ = (U.card : ℝ) * (A * B) := by rw [Finset.sum_const, nsmul_eq_mul]

/-- `Σ ⟪c, p − y⟫ ≤ ⟪Σ c, p − w⟫ + Σ |⟪c, w − y⟫|` -/
theorem GF_le (U : Finset ℕ) (p w : E) (st : GS E) :
    GF U p st ≤ ⟪∑ s ∈ U, (st s).1, p - w⟫ + TF U w st := by
  unfold GF TF
  rw [sum_inner, ← Finset.sum_add_distrib]
  refine Finset.sum_le_sum (fun s _ => ?_)
  have e : p - (st s).2 = (p - w) + (w - (st s).2) := by abel
  have := le_abs_self ⟪(st s).1, w - (st s).2⟫
  rw [e, inner_add_right]
  linarith

end GhostF

/-! ## the sequence of passes -/
section SeqF
variable (P : ℕ → E → E) (vs : List ℕ) (x0 : E)

/-- point and ghost state after `n` passes from `(x0, zeros)`; the initial ghost points are `P s x0` -/
def seqF (n : ℕ) : E × GS E :=
  (fun s => ((passF P vs s.1 s.2).1, (passF P vs s.1 s.2).2.1))^[n] (x0, fun s => ((0 : E), P s x0))

/-- the points visited during pass `n + 1` -/
def traceF (n : ℕ) : List E := (passF P vs (seqF P vs x0 n).1 (seqF P vs x0 n).2).2.2

omit [InnerProductSpace ℝ E] in
theorem seqF_zero : seqF P vs x0 0 = (x0, fun s => ((0 : E), P s x0)) := rfl

omit [InnerProductSpace ℝ E] in
theorem seqF_succ (n : ℕ) :
    seqF P vs x0 (n + 1) = ((passF P vs (seqF P vs x0 n).1 (seqF P vs x0 n).2).1,
      (passF P vs (seqF P vs x0 n).1 (seqF P vs x0 n).2).2.1) :=
  Function.iterate_succ_apply' _ _ _

variable {P vs x0} {C : ℕ → Set E} {S : Set E}

/-- standing hypotheses (slots) -/
structure SetupF (P : ℕ → E → E) (C : ℕ → Set E) (S : Set E) (vs : List ℕ) (x0 : E) : Prop where
  sub : ∀ x ∈ S, ∀ y ∈ S, x - y ∈ S
  hk : ∀ s ∈ vs, HypK P C S s
  x0S : x0 ∈ S

theorem seqF_inv (H : SetupF P C S vs x0) (n : ℕ) :
    (seqF P vs x0 n).1 ∈ S ∧ ∀ s ∈ vs.toFinset, Inv C S s ((seqF P vs x0 n).2 s) := by
  induction n with
  | zero =>
    refine ⟨H.x0S, fun s hs => ?_⟩
    have hs' : s ∈ vs := List.mem_toFinset.mp hs
    refine ⟨?_, (H.hk s hs').lands _ H.x0S, fun y _ => ?_⟩
    · have := H.sub _ H.x0S _ H.x0S
      simpa [seqF_zero] using this
    · simp [seqF_zero]
  | succ n ih =>
    rw [seqF_succ]
    exact passF_inv H.sub (fun s hs => List.mem_toFinset.mpr hs) H.hk ih.1 ih.2

/-- the potential `‖w_n − z‖² + 2 Σ ⟪c, z − y⟫` -/
def PhiF (P : ℕ → E → E) (vs : List ℕ) (x0 z : E) (n : ℕ) : ℝ :=
  ‖(seqF P vs x0 n).1 - z‖ ^ 2 + 2 * GF vs.toFinset z (seqF P vs x0 n).2

def LpF (P : ℕ → E → E) (vs : List ℕ) (x0 : E) (n : ℕ) : ℝ :=
  pathLen (seqF P vs x0 n).1 (traceF P vs x0 n)

def SQpF (P : ℕ → E → E) (vs : List ℕ) (x0 : E) (n : ℕ) : ℝ :=
  pathSq (seqF P vs x0 n).1 (traceF P vs x0 n)

theorem PhiF_zero (z : E) : PhiF P vs x0 z 0 = ‖x0 - z‖ ^ 2 := by
  have : GF vs.toFinset z (fun s => ((0 : E), P s x0)) = 0 := by
    unfold GF
    exact Finset.sum_eq_zero (fun s _ => by simp)
  simp [PhiF, seqF_zero, this]

theorem PhiF_succ_le (H : SetupF P C S vs x0) {z : E} (hz : ∀ s ∈ vs, z ∈ C s) (n : ℕ) :
    PhiF P vs x0 z (n + 1) + SQpF P vs x0 n ≤ PhiF P vs x0 z n := by
  obtain ⟨h1, h2⟩ := seqF_inv H n
  have := passF_potential H.sub (fun s hs => List.mem_toFinset.mpr hs) H.hk z hz h1 h2
  simp only [PhiF, SQpF, traceF, seqF_succ]
  exact this

theorem PhiF_antitone (H : SetupF P C S vs x0) {z : E} (hz : ∀ s ∈ vs, z ∈ C s) :
    Antitone (PhiF P vs x0 z) :=
  antitone_nat_of_succ_le (fun n => by
    have := PhiF_succ_le H hz n
    have := pathSq_nonneg (seqF P vs x0 n).1 (traceF P vs x0 n)
    simp only [SQpF] at *
    linarith)

theorem norm_sq_le_PhiF (H : SetupF P C S vs x0) {z : E} (hz : ∀ s ∈ vs, z ∈ C s) (n : ℕ) :
    ‖(seqF P vs x0 n).1 - z‖ ^ 2 ≤ PhiF P vs x0 z n := by
  have := GF_nonneg z (fun s hs => hz s (List.mem_toFinset.mp hs)) (seqF_inv H n).2
  simp only [PhiF]; linarith

theorem norm_le_of_feasibleF (H : SetupF P C S vs x0) {z : E} (hz : ∀ s ∈ vs, z ∈ C s) (n : ℕ) :
    ‖(seqF P vs x0 n).1 - z‖ ≤ ‖x0 - z‖ := by
  have h1 := norm_sq_le_PhiF H hz n
  have h2 := PhiF_antitone H hz (Nat.zero_le n)
  rw [PhiF_zero] at h2
  exact (pow_le_pow_iff_left₀ (norm_nonneg _) (norm_nonneg _) two_ne_zero).mp (h1.trans h2)

theorem sum_SQpF_le (H : SetupF P C S vs x0) {z : E} (hz : ∀ s ∈ vs, z ∈ C s) (n : ℕ) :
    ∑ m ∈ Finset.range n, SQpF P vs x0 m ≤ ‖x0 - z‖ ^ 2 := by
  have key : ∀ n, ∑ m ∈ Finset.range n, SQpF P vs x0 m + PhiF P vs x0 z n ≤ ‖x0 - z‖ ^ 2 := by
    intro n
    induction n with
    | zero => simp [PhiF_zero]
    | succ n ih =>
      rw [Finset.sum_range_succ]
      have := PhiF_succ_le H hz n
      linarith
  have h1 := key n
  have h2 := norm_sq_le_PhiF H hz n
  have h3 : 0 ≤ ‖(seqF P vs x0 n).1 - z‖ ^ 2 := by positivity
  linarith

omit [InnerProductSpace ℝ E] in
theorem LpF_nonneg (n : ℕ) : 0 ≤ LpF P vs x0 n := pathLen_nonneg _ _

omit [InnerProductSpace ℝ E] in
theorem LpF_sq_le (n : ℕ) : LpF P vs x0 n ^ 2 ≤ (vs.length : ℝ) * SQpF P vs x0 n := by
  have := pathLen_sq_le (seqF P vs x0 n).1 (traceF P vs x0 n)
  rwa [traceF, passF_trace_length] at this

theorem summable_LpF_sq (H : SetupF P C S vs x0) {z : E} (hz : ∀ s ∈ vs, z ∈ C s) :
    Summable (fun n => LpF P vs x0 n ^ 2) := by
  have hS : Summable (SQpF P vs x0) :=
    summable_of_sum_range_le (fun n => pathSq_nonneg _ _) (sum_SQpF_le H hz)
  exact Summable.of_nonneg_of_le (fun n => sq_nonneg _) LpF_sq_le (hS.mul_left _)

omit [InnerProductSpace ℝ E] in
theorem ghost_nearF (n : ℕ) :
    ∀ s ∈ vs, ‖((seqF P vs x0 (n + 1)).2 s).2 - (seqF P vs x0 (n + 1)).1‖ ≤ LpF P vs x0 n := by
  simp only [LpF, traceF, seqF_succ]
  exact passF_ghost_near P vs _ _

omit [InnerProductSpace ℝ E] in
theorem corr_leF (n : ℕ) :
    ∀ s, ‖((seqF P vs x0 n).2 s).1‖ ≤ ∑ m ∈ Finset.range n, LpF P vs x0 m := by
  induction n with
  | zero => intro s; simp [seqF_zero]
  | succ n ih =>
    rw [Finset.sum_range_succ]
    have := passF_corr_le P vs (seqF P vs x0 n).1 (seqF P vs x0 n).2 ih
    simp only [LpF, traceF, seqF_succ] at this ⊢
    exact this

omit [InnerProductSpace ℝ E] in
theorem telescopeF (n : ℕ) :
    (seqF P vs x0 n).1 - ∑ s ∈ vs.toFinset, ((seqF P vs x0 n).2 s).1 = x0 := by
  induction n with
  | zero =>
    have : ∑ s ∈ vs.toFinset, (((fun s => ((0 : E), P s x0)) : GS E) s).1 = 0 :=
      Finset.sum_eq_zero (fun s _ => rfl)
    rw [seqF_zero]
    simp only
    rw [this, sub_zero]
  | succ n ih =>
    rw [seqF_succ]
    simp only
    rw [passF_telescope P vs _ _ vs.toFinset (fun s hs => List.mem_toFinset.mpr hs), ih]

/-- `Σ |⟪c, w − y⟫|` at the end of pass `n + 1` -/
theorem TF_succ_le (n : ℕ) :
    TF vs.toFinset (seqF P vs x0 (n + 1)).1 (seqF P vs x0 (n + 1)).2
      ≤ (vs.length : ℝ) * (LpF P vs x0 n * ∑ m ∈ Finset.range (n + 1), LpF P vs x0 m) := by
  have h0 : 0 ≤ ∑ m ∈ Finset.range (n + 1), LpF P vs x0 m :=
    Finset.sum_nonneg (fun m _ => LpF_nonneg m)
  have h1 := TF_le vs.toFinset (seqF P vs x0 (n + 1)).1 (seqF P vs x0 (n + 1)).2 h0
    (fun s _ => corr_leF (n + 1) s) (fun s hs => ghost_nearF n s (List.mem_toFinset.mp hs))
  have hc : (vs.toFinset.card : ℝ) ≤ (vs.length : ℝ) := by exact_mod_cast List.toFinset_card_le vs
  have hnn : 0 ≤ (∑ m ∈ Finset.range (n + 1), LpF P vs x0 m) * LpF P vs x0 n :=
    mul_nonneg h0 (LpF_nonneg n)
  have := mul_le_mul_of_nonneg_right hc hnn
  linarith [mul_comm (LpF P vs x0 n) (∑ m ∈ Finset.range (n + 1), LpF P vs x0 m)]

/-- approximate variational inequality at the iterate -/
theorem vi_approxF (H : SetupF P C S vs x0) {y : E} (hy : ∀ s ∈ vs, y ∈ C s) (n : ℕ) :
    ⟪x0 - (seqF P vs x0 n).1, y - (seqF P vs x0 n).1⟫
      ≤ TF vs.toFinset (seqF P vs x0 n).1 (seqF P vs x0 n).2 := by
  have h1 := GF_nonneg y (fun s hs => hy s (List.mem_toFinset.mp hs)) (seqF_inv H n).2
  have h2 := GF_le vs.toFinset y (seqF P vs x0 n).1 (seqF P vs x0 n).2
  have h3 : x0 - (seqF P vs x0 n).1 = -(∑ s ∈ vs.toFinset, ((seqF P vs x0 n).2 s).1) := by
    nth_rewrite 1 [← telescopeF (P := P) (vs := vs) (x0 := x0) n]; abel
  rw [h3, inner_neg_left]
  linarith

end SeqF

/-! ## convergence -/
section MainF
variable {P : ℕ → E → E} {vs : List ℕ} {x0 : E} {C : ℕ → Set E} {S : Set E}

theorem tendsto_LpF_zero (H : SetupF P C S vs x0) {z : E} (hz : ∀ s ∈ vs, z ∈ C s) :
    Tendsto (LpF P vs x0) atTop (𝓝 0) := by
  have h := (summable_LpF_sq H hz).tendsto_atTop_zero
  have h2 := (Real.continuous_sqrt.tendsto 0).comp h
  rw [Real.sqrt_zero] at h2
  refine h2.congr (fun n => ?_)
  simp only [Function.comp]
  exact Real.sqrt_sq (LpF_nonneg n)

/-- a subsequence of pass ends along which `Σ |⟪c, w − y⟫| → 0` -/
theorem exists_subseq_TF (H : SetupF P C S vs x0) {z : E} (hz : ∀ s ∈ vs, z ∈ C s) :
    ∃ φ : ℕ → ℕ, StrictMono φ ∧
      Tendsto (fun j => TF vs.toFinset (seqF P vs x0 (φ j + 1)).1 (seqF P vs x0 (φ j + 1)).2)
        atTop (𝓝 0) := by
  set r : ℝ := (vs.length : ℝ) with hr
  have hr0 : 0 ≤ r := Nat.cast_nonneg _
  have hfreq : ∀ j : ℕ, ∃ᶠ m in atTop,
      TF vs.toFinset (seqF P vs x0 (m + 1)).1 (seqF P vs x0 (m + 1)).2 < 1 / ((j : ℝ) + 1) := by
    intro j
    have hδ : (0 : ℝ) < 1 / ((j : ℝ) + 1) := by positivity
    have hε : (0 : ℝ) < 1 / ((j : ℝ) + 1) / (r + 1) := by positivity
    refine (frequently_mul_partial_sum_lt (LpF P vs x0) LpF_nonneg (summable_LpF_sq H hz) hε).mono ?_
    intro m hm
    refine lt_of_le_of_lt (TF_succ_le m) ?_
    set x := LpF P vs x0 m * ∑ k ∈ Finset.range (m + 1), LpF P vs x0 k
    have hx0 : 0 ≤ x := mul_nonneg (LpF_nonneg m) (Finset.sum_nonneg (fun k _ => LpF_nonneg k))
    have h1 : (r + 1) * x < 1 / ((j : ℝ) + 1) := by
      rw [lt_div_iff₀ (by linarith)] at hm
      linarith
    linarith
  obtain ⟨φ, hφ, hφT⟩ := Filter.extraction_forall_of_frequently hfreq
  refine ⟨φ, hφ, ?_⟩
  refine squeeze_zero (fun j => TF_nonneg _ _ _) (fun j => (hφT j).le) ?_
  exact tendsto_one_div_add_atTop_nhds_zero_nat

/-- **Dykstra with one correction per set (Hundal–Deutsch control)**, ghost-state form. -/
theorem seqF_tendsto [FiniteDimensional ℝ E] (H : SetupF P C S vs x0)
    (hclosed : ∀ s ∈ vs, IsClosed (C s)) {z : E} (hz : ∀ s ∈ vs, z ∈ C s) :
    ∃ p : E, (∀ s ∈ vs, p ∈ C s) ∧ (∀ y, (∀ s ∈ vs, y ∈ C s) → ⟪x0 - p, y - p⟫ ≤ 0) ∧
      Tendsto (fun n => (seqF P vs x0 n).1) atTop (𝓝 p) := by
  have : ProperSpace E := FiniteDimensional.proper_real E
  obtain ⟨φ, hφ, hφT⟩ := exists_subseq_TF H hz
  have hb : ∀ j, (seqF P vs x0 (φ j + 1)).1 ∈ Metric.closedBall z ‖x0 - z‖ := by
    intro j
    rw [mem_closedBall_iff_norm]
    exact norm_le_of_feasibleF H hz _
  obtain ⟨p, -, ψ, hψ, hp⟩ := tendsto_subseq_of_bounded Metric.isBounded_closedBall hb
  have hμw : Tendsto (fun j => (seqF P vs x0 (φ (ψ j) + 1)).1) atTop (𝓝 p) := hp
  have hμT : Tendsto (fun j => TF vs.toFinset (seqF P vs x0 (φ (ψ j) + 1)).1
      (seqF P vs x0 (φ (ψ j) + 1)).2) atTop (𝓝 0) := hφT.comp hψ.tendsto_atTop
  have hμL : Tendsto (fun j => LpF P vs x0 (φ (ψ j))) atTop (𝓝 0) :=
    (tendsto_LpF_zero H hz).comp ((hφ.comp hψ).tendsto_atTop)
  -- `p` lies in every set
  have hpC : ∀ s ∈ vs, p ∈ C s := by
    intro s hs
    rw [← (hclosed s hs).closure_eq, Metric.mem_closure_iff]
    intro ε hε
    have e1 : ∀ᶠ j in atTop, dist (seqF P vs x0 (φ (ψ j) + 1)).1 p < ε / 2 :=
      (Metric.tendsto_nhds.mp hμw) (ε / 2) (by positivity)
    have e2 : ∀ᶠ j in atTop, LpF P vs x0 (φ (ψ j)) < ε / 2 :=
      (tendsto_order.mp hμL).2 (ε / 2) (by positivity)
    obtain ⟨j, hj1, hj2⟩ := (e1.and e2).exists
    have hinv := (seqF_inv H (φ (ψ j) + 1)).2 s (List.mem_toFinset.mpr hs)
    refine ⟨((seqF P vs x0 (φ (ψ j) + 1)).2 s).2, hinv.2.1, ?_⟩
    have h3 := ghost_nearF (P := P) (vs := vs) (x0 := x0) (φ (ψ j)) s hs
    rw [dist_eq_norm] at hj1 ⊢
    have h4 := norm_sub_le_norm_sub_add_norm_sub p (seqF P vs x0 (φ (ψ j) + 1)).1
      ((seqF P vs x0 (φ (ψ j) + 1)).2 s).2
    rw [norm_sub_rev p (seqF P vs x0 (φ (ψ j) + 1)).1,
      norm_sub_rev (seqF P vs x0 (φ (ψ j) + 1)).1 ((seqF P vs x0 (φ (ψ j) + 1)).2 s).2] at h4
    linarith
  -- the variational inequality at `p`
  have hvi : ∀ y, (∀ s ∈ vs, y ∈ C s) → ⟪x0 - p, y - p⟫ ≤ 0 := by
    intro y hy
    have hlim : Tendsto (fun j => ⟪x0 - (seqF P vs x0 (φ (ψ j) + 1)).1,
        y - (seqF P vs x0 (φ (ψ j) + 1)).1⟫) atTop (𝓝 ⟪x0 - p, y - p⟫) :=
      Filter.Tendsto.inner (𝕜 := ℝ) (tendsto_const_nhds.sub hμw) (tendsto_const_nhds.sub hμw)
    exact le_of_tendsto_of_tendsto' hlim hμT (fun j => vi_approxF H hy _)
  refine ⟨p, hpC, hvi, ?_⟩
  set B := ‖x0 - z‖ with hB
  have hd : Tendsto (fun j => ‖(seqF P vs x0 (φ (ψ j) + 1)).1 - p‖) atTop (𝓝 0) :=
    tendsto_iff_norm_sub_tendsto_zero.mp hμw
  have hU : Tendsto (fun j => ‖(seqF P vs x0 (φ (ψ j) + 1)).1 - p‖ ^ 2
      + (4 * B) * ‖(seqF P vs x0 (φ (ψ j) + 1)).1 - p‖
      + 2 * TF vs.toFinset (seqF P vs x0 (φ (ψ j) + 1)).1 (seqF P vs x0 (φ (ψ j) + 1)).2)
      atTop (𝓝 0) := by
    have := ((hd.pow 2).add (hd.const_mul (4 * B))).add (hμT.const_mul 2)
    simpa using this
  have hPhiU : ∀ n, PhiF P vs x0 p n ≤ ‖(seqF P vs x0 n).1 - p‖ ^ 2
      + (4 * B) * ‖(seqF P vs x0 n).1 - p‖
      + 2 * TF vs.toFinset (seqF P vs x0 n).1 (seqF P vs x0 n).2 := by
    intro n
    have h1 := GF_le vs.toFinset p (seqF P vs x0 n).1 (seqF P vs x0 n).2
    have h2 : ∑ s ∈ vs.toFinset, ((seqF P vs x0 n).2 s).1 = (seqF P vs x0 n).1 - x0 := by
      exact eq_sub_of_add_eq
        (sub_eq_iff_eq_add'.mp (telescopeF (P := P) (vs := vs) (x0 := x0) n)).symm
    rw [h2] at h1
    have h3 := real_inner_le_norm ((seqF P vs x0 n).1 - x0) (p - (seqF P vs x0 n).1)
    have h4 : ‖(seqF P vs x0 n).1 - x0‖ ≤ 2 * B := by
      have := norm_le_of_feasibleF H hz n
      have e : (seqF P vs x0 n).1 - x0 = ((seqF P vs x0 n).1 - z) - (x0 - z) := by abel
      rw [e]
      exact (norm_sub_le _ _).trans (by linarith)
    have h5 : ‖p - (seqF P vs x0 n).1‖ = ‖(seqF P vs x0 n).1 - p‖ := norm_sub_rev _ _
    have h6 : ‖(seqF P vs x0 n).1 - x0‖ * ‖p - (seqF P vs x0 n).1‖
        ≤ 2 * B * ‖(seqF P vs x0 n).1 - p‖ := by
      rw [h5]; exact mul_le_mul_of_nonneg_right h4 (norm_nonneg _)
    simp only [PhiF]
    linarith
  rw [Metric.tendsto_atTop]
  intro ε hε
  have hev : ∀ᶠ j in atTop, ‖(seqF P vs x0 (φ (ψ j) + 1)).1 - p‖ ^ 2
      + (4 * B) * ‖(seqF P vs x0 (φ (ψ j) + 1)).1 - p‖
      + 2 * TF vs.toFinset (seqF P vs x0 (φ (ψ j) + 1)).1 (seqF P vs x0 (φ (ψ j) + 1)).2 < ε ^ 2 :=
    (tendsto_order.mp hU).2 (ε ^ 2) (by positivity)
  obtain ⟨j, hj⟩ := hev.exists
  refine ⟨φ (ψ j) + 1, fun n hn => ?_⟩
  have h1 := norm_sq_le_PhiF H hpC n
  have h2 := PhiF_antitone H hpC hn
  have h3 := hPhiU (φ (ψ j) + 1)
  rw [dist_eq_norm]
  exact lt_of_pow_lt_pow_left₀ 2 hε.le (by linarith)

end MainF

/-! ## the model-shaped loop is the projection of the ghost loop -/
section Final

omit [InnerProductSpace ℝ E] in
theorem getD_set_self {l : List E} {s : ℕ} (hs : s < l.length) (x : E) : (l.set s x).getD s 0 = x := by
  rw [List.getD_eq_getElem?_getD, List.getElem?_set_self hs]; rfl

omit [InnerProductSpace ℝ E] in
theorem getD_set_ne {l : List E} {s t : ℕ} (h : s ≠ t) (x : E) : (l.set s x).getD t 0 = l.getD t 0 := by
  rw [List.getD_eq_getElem?_getD, List.getD_eq_getElem?_getD, List.getElem?_set_ne h]

omit [InnerProductSpace ℝ E] in
/-- one pass: the list loop and the ghost loop compute the same point and the same corrections -/
theorem passGS_passF (P : ℕ → E → E) (vs : List ℕ) (w : E) (cs : List E) (st : GS E)
    (hm : ∀ s ∈ vs, s < cs.length) (h : ∀ s, (st s).1 = cs.getD s 0) :
    (passGS (vs.map (fun s => (P s, s))) w cs).1 = (passF P vs w st).1 ∧
      ∀ s, ((passF P vs w st).2.1 s).1 = (passGS (vs.map (fun s => (P s, s))) w cs).2.getD s 0 := by
  induction vs generalizing w cs st with
  | nil => exact ⟨rfl, h⟩
  | cons s0 vs ih =>
    have h0 := hm s0 (List.mem_cons_self ..)
    simp only [List.map_cons, passGS, passF]
    rw [← h s0]
    refine ih _ _ _ (fun s hs => by rw [List.length_set]; exact hm s (List.mem_cons_of_mem _ hs))
      (fun s => ?_)
    by_cases e : s = s0
    · subst e; rw [Function.update_self, getD_set_self h0]
    · rw [Function.update_of_ne e, getD_set_ne (Ne.symm e), h s]

omit [InnerProductSpace ℝ E] in
theorem iterGS_seqF (P : ℕ → E → E) (vs : List ℕ) (m : ℕ) (hm : ∀ s ∈ vs, s < m) (x0 : E) (n : ℕ) :
    (iterGS (vs.map (fun s => (P s, s))) n (x0, List.replicate m (0 : E))).1 = (seqF P vs x0 n).1 := by
  have key : ∀ n (w : E) (cs : List E) (st : GS E), cs.length = m → (∀ s, (st s).1 = cs.getD s 0) →
      (iterGS (vs.map (fun s => (P s, s))) n (w, cs)).1
        = ((fun s => ((passF P vs s.1 s.2).1, (passF P vs s.1 s.2).2.1))^[n] (w, st)).1 := by
    intro n
    induction n with
    | zero => intro w cs st _ _; rfl
    | succ n ih =>
      intro w cs st hl h
      obtain ⟨h1, h2⟩ := passGS_passF P vs w cs st (fun s hs => by rw [hl]; exact hm s hs) h
      simp only [iterGS, Function.iterate_succ_apply]
      rw [ih _ _ (passF P vs w st).2.1 (by rw [passGS_length, hl]) h2, h1]
  refine key n x0 _ _ (List.length_replicate ..) (fun s => ?_)
  by_cases hs : s < m
  · simp [List.getD_eq_getElem?_getD, hs]
  · simp [List.getD_eq_getElem?_getD, hs]

/-- **Theorem B (Dykstra with one correction per set, any cyclic order with repetitions), relative
to a set `S` of admissible points.** `vs` lists the slots in visiting order (a slot may occur several
times), `P s` is the map and `C s` the closed set of slot `s`, `m` bounds the slots. If on `S` every map
lands in its set and satisfies the projection's variational inequality and the sets have a common
point, then the `w` component of the slotted loop `iterGS` (visit = roll back what the slot holds, apply
the map, store the change in the slot; `n` passes from `(x0, zeros)`) converges to the point of
`⋂ C s` nearest to `x0`. -/
theorem dykstra_converges_slots [FiniteDimensional ℝ E] (vs : List ℕ) (m : ℕ) (P : ℕ → E → E)
    (C : ℕ → Set E) (S : Set E) (x0 : E) (hm : ∀ s ∈ vs, s < m)
    (hsub : ∀ x ∈ S, ∀ y ∈ S, x - y ∈ S) (hx0 : x0 ∈ S)
    (hmap : ∀ s ∈ vs, ∀ x ∈ S, P s x ∈ S)
    (hlands : ∀ s ∈ vs, ∀ x ∈ S, P s x ∈ C s)
    (hvi : ∀ s ∈ vs, ∀ x ∈ S, ∀ y ∈ C s, ⟪x - P s x, y - P s x⟫ ≤ 0)
    (hclosed : ∀ s ∈ vs, IsClosed (C s)) (hne : ∃ z, ∀ s ∈ vs, z ∈ C s) :
    ∃ p : E, (∀ s ∈ vs, p ∈ C s) ∧
      (∀ y, (∀ s ∈ vs, y ∈ C s) → ⟪x0 - p, y - p⟫ ≤ 0) ∧
      (∀ y, (∀ s ∈ vs, y ∈ C s) → ‖x0 - p‖ ^ 2 + ‖p - y‖ ^ 2 ≤ ‖x0 - y‖ ^ 2) ∧
      Tendsto (fun n => (iterGS (vs.map (fun s => (P s, s))) n (x0, List.replicate m (0 : E))).1)
        atTop (𝓝 p) := by
  obtain ⟨z, hz⟩ := hne
  have H : SetupF P C S vs x0 :=
    ⟨hsub, fun s hs => ⟨hmap s hs, hlands s hs, hvi s hs⟩, hx0⟩
  obtain ⟨p, hpC, hpvi, hlim⟩ := seqF_tendsto H hclosed hz
  refine ⟨p, hpC, hpvi, fun y hy => pythagoras_of_vi (hpvi y hy), ?_⟩
  refine hlim.congr (fun n => ?_)
  rw [iterGS_seqF P vs m hm]

end Final

end Tfl.DykConv
