import TflModel.Model.PwlEval
import Mathlib.Data.List.Basic
import Mathlib.Tactic.Linarith
import Mathlib.Tactic.Ring
import Mathlib.Algebra.Order.Field.Rat
import Mathlib.Algebra.Order.Field.Basic
/-! Lemmas for the PWL evaluation (`compute_interpolation_weights` / `PWLCalibration.call`):
the sum of clipped ramps is the piecewise-linear interpolation of the cumulative heights. -/
namespace Tfl.PwlEval
open Tfl

/-! ### one ramp -/

theorem ramp_of_le {x k l : Rat} (hl : 0 < l) (h : x ≤ k) : ramp x k l = 0 := by
  unfold ramp
  have : (x - k) / l ≤ 0 := div_nonpos_of_nonpos_of_nonneg (by linarith) hl.le
  exact max_eq_right (le_trans (min_le_left _ _) this)

theorem ramp_of_ge {x k l : Rat} (hl : 0 < l) (h : k + l ≤ x) : ramp x k l = 1 := by
  unfold ramp
  have : 1 ≤ (x - k) / l := by rw [le_div_iff₀ hl]; linarith
  rw [min_eq_right this]; exact max_eq_left (by norm_num)

theorem ramp_mid {x k l : Rat} (hl : 0 < l) (h1 : k ≤ x) (h2 : x ≤ k + l) :
    ramp x k l = (x - k) / l := by
  unfold ramp
  have a : (x - k) / l ≤ 1 := by rw [div_le_iff₀ hl]; linarith
  have b : 0 ≤ (x - k) / l := div_nonneg (by linarith) hl.le
  rw [min_eq_left a]; exact max_eq_left b

theorem ramp_nonneg (x k l : Rat) : 0 ≤ ramp x k l := le_max_right _ _

theorem ramp_le_one (x k l : Rat) : ramp x k l ≤ 1 :=
  max_le (min_le_right _ _) (by norm_num)

theorem ramp_mono {x y : Rat} (k : Rat) {l : Rat} (hl : 0 < l) (h : x ≤ y) :
    ramp x k l ≤ ramp y k l := by
  unfold ramp
  have : (x - k) / l ≤ (y - k) / l := div_le_div_of_nonneg_right (by linarith) hl.le
  exact max_le_max (min_le_min this le_rfl) le_rfl

/-! ### sums, prefixes -/

theorem rsum_append (a b : List Rat) : rsum (a ++ b) = rsum a + rsum b := by
  induction a with
  | nil => simp [rsum]
  | cons x xs ih => simp [rsum, ih, add_assoc]

theorem rsum_take_succ (hs : List Rat) (j : Nat) :
    rsum (hs.take (j + 1)) = rsum (hs.take j) + getR hs j := by
  induction hs generalizing j with
  | nil => simp [rsum, getR]
  | cons h t ih =>
    cases j with
    | zero => simp [rsum, getR]
    | succ j =>
      have := ih j
      simp only [List.take_succ_cons, rsum, getR, List.getD_cons_succ] at this ⊢
      rw [this]; ring

theorem rsum_take_nonneg {ls : List Rat} (hp : ∀ l ∈ ls, 0 < l) (j : Nat) : 0 ≤ rsum (ls.take j) := by
  induction ls generalizing j with
  | nil => simp [rsum]
  | cons l t ih =>
    cases j with
    | zero => simp [rsum]
    | succ j =>
      have h1 : 0 < l := hp l (by simp)
      have h2 := ih (fun a ha => hp a (by simp [ha])) j
      simp only [List.take_succ_cons, rsum]; linarith

theorem rsum_take_all (hs : List Rat) {j : Nat} (h : hs.length ≤ j) : rsum (hs.take j) = rsum hs := by
  rw [List.take_of_length_le h]

theorem getR_pos_of_mem {ls : List Rat} (hp : ∀ l ∈ ls, 0 < l) {j : Nat} (hj : j < ls.length) :
    0 < getR ls j := by
  have : getR ls j = ls[j] := by simp [getR, List.getD, hj]
  rw [this]; exact hp _ (List.getElem_mem hj)

/-- the `j`-th keypoint generated from the first keypoint `k` and the piece lengths -/
def kpAt (k : Rat) (lens : List Rat) (j : Nat) : Rat := k + rsum (lens.take j)
/-- the `j`-th cumulative output: bias plus the first `j` heights -/
def outAt (b : Rat) (hs : List Rat) (j : Nat) : Rat := b + rsum (hs.take j)

theorem kpAt_cons_succ (k l : Rat) (ls : List Rat) (j : Nat) :
    kpAt k (l :: ls) (j + 1) = kpAt (k + l) ls j := by
  simp [kpAt, rsum, add_assoc]
theorem outAt_cons_succ (b h : Rat) (hs : List Rat) (j : Nat) :
    outAt b (h :: hs) (j + 1) = outAt (b + h) hs j := by
  simp [outAt, rsum, add_assoc]
theorem kpAt_zero (k : Rat) (ls : List Rat) : kpAt k ls 0 = k := by simp [kpAt, rsum]
theorem outAt_zero (b : Rat) (hs : List Rat) : outAt b hs 0 = b := by simp [outAt, rsum]
theorem outAt_succ (b : Rat) (hs : List Rat) (j : Nat) :
    outAt b hs (j + 1) = outAt b hs j + getR hs j := by
  simp [outAt, rsum_take_succ, add_assoc]
theorem kpAt_succ (k : Rat) (ls : List Rat) (j : Nat) :
    kpAt k ls (j + 1) = kpAt k ls j + getR ls j := by
  simp [kpAt, rsum_take_succ, add_assoc]
theorem kpAt_ge {ls : List Rat} (hp : ∀ l ∈ ls, 0 < l) (k : Rat) (j : Nat) : k ≤ kpAt k ls j := by
  have := rsum_take_nonneg hp j
  unfold kpAt; linarith

/-! ### the sum of ramps -/

/-- `Σ_i ramp x k_i l_i * h_i` with the keypoints generated from `k` by adding the lengths -/
def rampSum (x : Rat) : Rat → List Rat → List Rat → Rat
  | k, l :: ls, h :: hs => ramp x k l * h + rampSum x (k + l) ls hs
  | _, _, _ => 0

theorem dot_ramps (x k : Rat) (lens hs : List Rat) :
    dot (List.zipWith (fun k l => ramp x k l) (cumsumExcl k lens) lens) hs = rampSum x k lens hs := by
  induction lens generalizing k hs with
  | nil => cases hs <;> simp [cumsumExcl, dot, rampSum]
  | cons l ls ih =>
    cases hs with
    | nil => simp [cumsumExcl, dot, rampSum]
    | cons h hs => simp [cumsumExcl, dot, rampSum, ih]

theorem rampSum_left {x k : Rat} {lens : List Rat} (hp : ∀ l ∈ lens, 0 < l) (hs : List Rat)
    (h : x ≤ k) : rampSum x k lens hs = 0 := by
  induction lens generalizing k hs with
  | nil => cases hs <;> simp [rampSum]
  | cons l ls ih =>
    cases hs with
    | nil => simp [rampSum]
    | cons h' hs =>
      have hl : 0 < l := hp l (by simp)
      simp only [rampSum, ramp_of_le hl h, zero_mul, zero_add]
      exact ih (fun a ha => hp a (by simp [ha])) hs (by linarith)

theorem rampSum_right {x k : Rat} {lens : List Rat} (hp : ∀ l ∈ lens, 0 < l) (hs : List Rat)
    (hlen : hs.length = lens.length) (h : k + rsum lens ≤ x) : rampSum x k lens hs = rsum hs := by
  induction lens generalizing k hs with
  | nil => cases hs <;> simp_all [rampSum, rsum]
  | cons l ls ih =>
    cases hs with
    | nil => simp at hlen
    | cons h' hs =>
      have hl : 0 < l := hp l (by simp)
      have hp' : ∀ a ∈ ls, 0 < a := fun a ha => hp a (by simp [ha])
      have hn : 0 ≤ rsum ls := by simpa using rsum_take_nonneg hp' ls.length
      simp only [rsum] at h
      have h1 : k + l ≤ x := by linarith
      simp only [rampSum, ramp_of_ge hl h1, one_mul, rsum]
      rw [ih hp' hs (by simpa using hlen) (by linarith)]

/-- **interpolation on piece `j`**: between the `j`-th and `(j+1)`-th keypoint the bias plus the sum
of ramps is the convex combination of the two cumulative outputs. -/
theorem rampSum_piece {x k b : Rat} {lens : List Rat} (hp : ∀ l ∈ lens, 0 < l) (hs : List Rat)
    (hlen : hs.length = lens.length) (j : Nat) (hj : j < lens.length)
    (h1 : kpAt k lens j ≤ x) (h2 : x ≤ kpAt k lens (j + 1)) :
    b + rampSum x k lens hs =
      (1 - (x - kpAt k lens j) / getR lens j) * outAt b hs j
        + (x - kpAt k lens j) / getR lens j * outAt b hs (j + 1) := by
  induction lens generalizing k b hs j with
  | nil => simp at hj
  | cons l ls ih =>
    cases hs with
    | nil => simp at hlen
    | cons h hs =>
      have hl : 0 < l := hp l (by simp)
      have hp' : ∀ a ∈ ls, 0 < a := fun a ha => hp a (by simp [ha])
      cases j with
      | zero =>
        have e0 : kpAt k (l :: ls) 0 = k := kpAt_zero _ _
        have e1 : kpAt k (l :: ls) 1 = k + l := by simp [kpAt, rsum]
        rw [e0] at h1 ⊢; rw [e1] at h2
        simp only [rampSum, ramp_mid hl h1 h2, rampSum_left hp' hs h2, outAt_zero, outAt_succ, getR,
          List.getD_cons_zero]
        ring
      | succ j =>
        rw [kpAt_cons_succ] at h1 ⊢
        rw [kpAt_cons_succ] at h2
        have hge : k + l ≤ x := le_trans (kpAt_ge hp' (k + l) j) h1
        have := ih hp' hs (by simpa using hlen) j (by simpa using hj) h1 h2 (b := b + h)
        simp only [rampSum, ramp_of_ge hl hge, one_mul, outAt_cons_succ, getR, List.getD_cons_succ] at this ⊢
        rw [← this]; ring

theorem rampSum_mono {x y k : Rat} {lens : List Rat} (hp : ∀ l ∈ lens, 0 < l) (hs : List Rat)
    (hh : ∀ j, 0 ≤ getR hs j) (h : x ≤ y) : rampSum x k lens hs ≤ rampSum y k lens hs := by
  induction lens generalizing k hs with
  | nil => cases hs <;> simp [rampSum]
  | cons l ls ih =>
    cases hs with
    | nil => simp [rampSum]
    | cons h' hs =>
      have hl : 0 < l := hp l (by simp)
      have h0 : 0 ≤ h' := by simpa [getR] using hh 0
      have := ih (fun a ha => hp a (by simp [ha])) hs (fun j => by simpa [getR] using hh (j + 1)) (k := k + l)
      simp only [rampSum]
      have := mul_le_mul_of_nonneg_right (ramp_mono k hl h) h0
      linarith

theorem rampSum_anti {x y k : Rat} {lens : List Rat} (hp : ∀ l ∈ lens, 0 < l) (hs : List Rat)
    (hh : ∀ j, getR hs j ≤ 0) (h : x ≤ y) : rampSum y k lens hs ≤ rampSum x k lens hs := by
  induction lens generalizing k hs with
  | nil => cases hs <;> simp [rampSum]
  | cons l ls ih =>
    cases hs with
    | nil => simp [rampSum]
    | cons h' hs =>
      have hl : 0 < l := hp l (by simp)
      have h0 : h' ≤ 0 := by simpa [getR] using hh 0
      have := ih (fun a ha => hp a (by simp [ha])) hs (fun j => by simpa [getR] using hh (j + 1)) (k := k + l)
      simp only [rampSum]
      have := mul_le_mul_of_nonpos_right (ramp_mono k hl h) h0
      linarith

/-- **bounded**: if every cumulative output lies in `[lo, hi]`, so does the function at every `x`. -/
theorem rampSum_bounded {x k b lo hi : Rat} {lens : List Rat} (hp : ∀ l ∈ lens, 0 < l) (hs : List Rat)
    (hlen : hs.length = lens.length)
    (hb : ∀ j, j ≤ lens.length → lo ≤ outAt b hs j ∧ outAt b hs j ≤ hi) :
    lo ≤ b + rampSum x k lens hs ∧ b + rampSum x k lens hs ≤ hi := by
  induction lens generalizing k b hs with
  | nil =>
    have := hb 0 (by simp)
    cases hs <;> simpa [rampSum, outAt_zero] using this
  | cons l ls ih =>
    cases hs with
    | nil => simp at hlen
    | cons h hs =>
      have hl : 0 < l := hp l (by simp)
      have hp' : ∀ a ∈ ls, 0 < a := fun a ha => hp a (by simp [ha])
      have b0 := hb 0 (by simp)
      have b1 := hb 1 (by simp)
      rw [outAt_zero] at b0
      rw [outAt_cons_succ, outAt_zero] at b1
      rcases le_total x (k + l) with hx | hx
      · have r0 := ramp_nonneg x k l
        have r1 := ramp_le_one x k l
        simp only [rampSum, rampSum_left hp' hs hx, add_zero]
        constructor
        · nlinarith [mul_nonneg (sub_nonneg.mpr r1) (sub_nonneg.mpr b0.1), mul_nonneg r0 (sub_nonneg.mpr b1.1)]
        · nlinarith [mul_nonneg (sub_nonneg.mpr r1) (sub_nonneg.mpr b0.2), mul_nonneg r0 (sub_nonneg.mpr b1.2)]
      · have := ih hp' hs (by simpa using hlen) (k := k + l) (b := b + h)
          (fun j hj => by simpa [outAt_cons_succ] using hb (j + 1) (by simpa using hj))
        simp only [rampSum, ramp_of_ge hl hx, one_mul]
        constructor <;> [linarith [this.1]; linarith [this.2]]

/-! ### the lists the layer stores / reports -/

theorem length_cumsumExcl (k : Rat) (lens : List Rat) : (cumsumExcl k lens).length = lens.length := by
  induction lens generalizing k with
  | nil => rfl
  | cons l ls ih => simp [cumsumExcl, ih]

theorem length_cumsumIncl (a : Rat) (hs : List Rat) : (cumsumIncl a hs).length = hs.length := by
  induction hs generalizing a with
  | nil => rfl
  | cons h t ih => simp [cumsumIncl, ih]

theorem getR_cumsumExcl (k : Rat) (lens : List Rat) {j : Nat} (hj : j < lens.length) :
    getR (cumsumExcl k lens) j = kpAt k lens j := by
  induction lens generalizing k j with
  | nil => simp at hj
  | cons l ls ih =>
    cases j with
    | zero => simp [cumsumExcl, getR, kpAt, rsum]
    | succ j =>
      have := ih (k + l) (j := j) (by simpa using hj)
      simp only [getR] at this
      simp only [cumsumExcl, getR, List.getD_cons_succ, this, kpAt_cons_succ]

theorem getR_cumsumIncl (a : Rat) (hs : List Rat) {j : Nat} (hj : j < hs.length) :
    getR (cumsumIncl a hs) j = a + rsum (hs.take (j + 1)) := by
  induction hs generalizing a j with
  | nil => simp at hj
  | cons h t ih =>
    cases j with
    | zero => simp [cumsumIncl, getR, rsum]
    | succ j =>
      have := ih (a + h) (j := j) (by simpa using hj)
      simp only [getR] at this
      simp only [cumsumIncl, getR, List.getD_cons_succ, this, List.take_succ_cons, rsum]
      ring

theorem map_add_cumsumExcl (a c : Rat) (lens : List Rat) :
    (cumsumExcl a lens).map (· + c) = cumsumExcl (a + c) lens := by
  induction lens generalizing a with
  | nil => rfl
  | cons l ls ih =>
    simp only [cumsumExcl, List.map_cons, ih]
    congr 2; ring

theorem dropLast_eq_cumsumExcl (a : Rat) (t : List Rat) :
    (a :: t).dropLast = cumsumExcl a (diffs (a :: t)) := by
  induction t generalizing a with
  | nil => simp [diffs, cumsumExcl]
  | cons b t ih =>
    simp only [List.dropLast_cons_cons, diffs, cumsumExcl, ih b]
    congr 2; ring

theorem length_diffs (a : Rat) (t : List Rat) : (diffs (a :: t)).length = t.length := by
  induction t generalizing a with
  | nil => rfl
  | cons b t ih => simp [diffs, ih b]

theorem sum_diffs (a : Rat) (t : List Rat) : a + rsum (diffs (a :: t)) = (a :: t).getLastD 0 := by
  induction t generalizing a with
  | nil => simp [diffs, rsum]
  | cons b t ih =>
    have := ih b
    simp only [diffs, rsum, List.getLastD_cons] at this ⊢
    rw [← this]; ring

/-- `all(input_keypoints[i] < input_keypoints[i + 1])` of `verify_hyperparameters` -/
def StrictIncr : List Rat → Prop
  | a :: b :: t => a < b ∧ StrictIncr (b :: t)
  | _ => True

theorem diffs_pos {kps : List Rat} (h : StrictIncr kps) : ∀ l ∈ diffs kps, 0 < l := by
  induction kps with
  | nil => simp [diffs]
  | cons a t ih =>
    cases t with
    | nil => simp [diffs]
    | cons b t =>
      intro l hl
      simp only [diffs, List.mem_cons] at hl
      rcases hl with rfl | hl
      · have := h.1; linarith
      · exact ih h.2 l hl

theorem rsum_pos {ls : List Rat} (hp : ∀ l ∈ ls, 0 < l) (hne : ls ≠ []) : 0 < rsum ls := by
  cases ls with
  | nil => exact absurd rfl hne
  | cons l t =>
    have h1 : 0 < l := hp l (by simp)
    have hp' : ∀ a ∈ t, 0 < a := fun a ha => hp a (by simp [ha])
    have h2 : 0 ≤ rsum t := by
      simpa using rsum_take_nonneg hp' t.length
    simp only [rsum]; linarith

theorem rsum_map_mul (ws : List Rat) (r : Rat) : rsum (ws.map (· * r)) = rsum ws * r := by
  induction ws with
  | nil => simp [rsum]
  | cons w t ih => simp [rsum, ih]; ring

theorem lastSlice_sum (k : Rat) {lens : List Rat} (h : lens ≠ []) :
    List.zipWith (· + ·) (lastSlice (cumsumExcl k lens)) (lastSlice lens) = [k + rsum lens] := by
  induction lens generalizing k with
  | nil => exact absurd rfl h
  | cons l ls ih =>
    cases ls with
    | nil => simp [cumsumExcl, lastSlice, rsum]
    | cons l' ls =>
      have := ih (k + l) (by simp)
      simp only [lastSlice, cumsumExcl, List.getLast?_cons_cons, rsum] at this ⊢
      rw [this]; congr 1; ring

theorem getR_append_left (a b : List Rat) {j : Nat} (hj : j < a.length) : getR (a ++ b) j = getR a j := by
  simp [getR, List.getD, List.getElem?_append_left hj]

theorem getR_append_length (a : List Rat) (v : Rat) : getR (a ++ [v]) a.length = v := by
  simp [getR, List.getD]

/-! ### well-formed layers (what `__init__`/`build` guarantee) and their normal form -/

/-- What `verify_hyperparameters` and the shapes of `build` guarantee, plus "softmax output = positive
weights summing to one" for learned interior keypoints. NOT included: the `weights_shape[0] ≥ 2` check
(`pwl_calibration_lib.verify_hyperparameters`: "weights must have shape [k, units] where k > 1") that
`build` runs on the kernel — see `Buildable` below; it only bites for `is_cyclic=True` with exactly two
keypoints (`buildable_iff`), a layer whose constructor succeeds and whose `build` raises `ValueError`.
Every evaluation theorem holds under the weaker `WF` (the formulas make sense for a one-row kernel). -/
structure WF (cfg : Cfg) (kernel ws : List Rat) : Prop where
  /-- at least two keypoints -/
  two : 2 ≤ cfg.inputKeypoints.length
  /-- strictly increasing keypoints -/
  incr : StrictIncr cfg.inputKeypoints
  /-- `num_weights = len(input_keypoints) - is_cyclic` kernel rows -/
  klen : kernel.length + (if cfg.isCyclic then 1 else 0) = cfg.inputKeypoints.length
  /-- one logit per piece -/
  wlen : cfg.learned = true → ws.length + 1 = cfg.inputKeypoints.length
  wpos : cfg.learned = true → ∀ w ∈ ws, 0 < w
  wsum : cfg.learned = true → rsum ws = 1

/-- a layer that EXISTS: `WF` plus `build`'s requirement of at least two kernel rows
(`verify_hyperparameters(weights_shape=…)`: `weights_shape[0] < 2` raises `ValueError`). -/
structure Buildable (cfg : Cfg) (kernel ws : List Rat) : Prop extends WF cfg kernel ws where
  /-- `num_weights = len(input_keypoints) - is_cyclic ≥ 2` -/
  krows : 2 ≤ kernel.length

/-- the extra requirement of `build` excludes exactly `is_cyclic` with two keypoints -/
theorem buildable_iff {cfg : Cfg} {kernel ws : List Rat} (h : WF cfg kernel ws) :
    Buildable cfg kernel ws ↔ (cfg.isCyclic = false ∨ 3 ≤ cfg.inputKeypoints.length) := by
  have hk := h.klen
  have h2 := h.two
  constructor
  · intro hb
    have := hb.krows
    by_cases hc : cfg.isCyclic = true
    · right; simp only [hc, if_true] at hk; omega
    · left; simpa using hc
  · rintro (hc | h3)
    · refine ⟨h, ?_⟩
      simp only [hc, Bool.false_eq_true, if_false, Nat.add_zero] at hk; omega
    · refine ⟨h, ?_⟩
      split_ifs at hk <;> omega

/-- heights of the pieces: `bias_and_heights[1:]` -/
def heights (cfg : Cfg) (kernel : List Rat) : List Rat := (biasAndHeights cfg kernel).tail

theorem range_pos {cfg : Cfg} {kernel ws : List Rat} (h : WF cfg kernel ws) : 0 < kpRange cfg := by
  obtain ⟨two, incr, -, -, -, -⟩ := h
  unfold kpRange
  cases hk : cfg.inputKeypoints with
  | nil => simp [hk] at two
  | cons a t =>
    rw [hk] at incr two
    have hne : diffs (a :: t) ≠ [] := by
      intro e
      have := length_diffs a t
      rw [e] at this
      simp at two this
      omega
    have := rsum_pos (diffs_pos incr) hne
    have e := sum_diffs a t
    simp only [List.headD_cons]
    linarith

theorem lengths_pos {cfg : Cfg} {kernel ws : List Rat} (h : WF cfg kernel ws) :
    ∀ l ∈ lengths cfg ws, 0 < l := by
  unfold lengths
  by_cases hl : cfg.learned = true
  · simp only [hl, if_true, List.mem_map]
    rintro l ⟨w, hw, rfl⟩
    exact mul_pos (h.wpos hl w hw) (range_pos h)
  · simp only [hl, if_false, Bool.false_eq_true]
    exact diffs_pos h.incr

theorem lengths_length {cfg : Cfg} {kernel ws : List Rat} (h : WF cfg kernel ws) :
    (lengths cfg ws).length + 1 = cfg.inputKeypoints.length := by
  unfold lengths
  by_cases hl : cfg.learned = true
  · simpa [hl] using h.wlen hl
  · simp only [hl, if_false, Bool.false_eq_true]
    have two := h.two
    cases hk : cfg.inputKeypoints with
    | nil => simp [hk] at two
    | cons a t => simp [length_diffs]

theorem interpKeypoints_eq {cfg : Cfg} {kernel ws : List Rat} (h : WF cfg kernel ws) :
    interpKeypoints cfg ws = cumsumExcl (kpMin cfg) (lengths cfg ws) := by
  unfold interpKeypoints
  by_cases hl : cfg.learned = true
  · simp only [hl, if_true, map_add_cumsumExcl, zero_add]
  · have two := h.two
    simp only [hl, if_false, Bool.false_eq_true, lengths, kpMin]
    cases hk : cfg.inputKeypoints with
    | nil => simp [hk] at two
    | cons a t => simp [dropLast_eq_cumsumExcl]

/-- the last keypoint is the first plus all lengths (for learned keypoints: because the weights sum to one) -/
theorem kpMin_add_lengths {cfg : Cfg} {kernel ws : List Rat} (h : WF cfg kernel ws) :
    kpMin cfg + rsum (lengths cfg ws) = cfg.inputKeypoints.getLastD 0 := by
  unfold lengths
  by_cases hl : cfg.learned = true
  · simp only [hl, if_true, rsum_map_mul, h.wsum hl, one_mul, kpMin, kpRange]; ring
  · have two := h.two
    simp only [hl, if_false, Bool.false_eq_true, kpMin]
    cases hk : cfg.inputKeypoints with
    | nil => simp [hk] at two
    | cons a t => simpa using sum_diffs a t

theorem biasAndHeights_eq {cfg : Cfg} {kernel ws : List Rat} (h : WF cfg kernel ws) :
    biasAndHeights cfg kernel = kernel.headD 0 :: heights cfg kernel ∧
      (heights cfg kernel).length = (lengths cfg ws).length := by
  have hl := lengths_length h
  have hk := h.klen
  have two := h.two
  unfold heights biasAndHeights
  cases kernel with
  | nil =>
    by_cases hc : cfg.isCyclic = true <;> simp [hc] at hk ⊢ <;> omega
  | cons b hs =>
    by_cases hc : cfg.isCyclic = true
    · simp [hc] at hk ⊢; omega
    · simp [hc] at hk ⊢; omega

/-- **normal form of the calibration**: bias plus the sum of ramps over the generated keypoints -/
theorem calibrate_eq {cfg : Cfg} {kernel ws : List Rat} (h : WF cfg kernel ws) (x : Rat) :
    calibrate cfg kernel ws x =
      kernel.headD 0 + rampSum x (kpMin cfg) (lengths cfg ws) (heights cfg kernel) := by
  unfold calibrate interpWeights
  rw [(biasAndHeights_eq h).1, interpKeypoints_eq h]
  simp only [dot, one_mul, dot_ramps]

/-! ### `keypoints_inputs()` / `keypoints_outputs()` -/

theorem lengths_ne_nil {cfg : Cfg} {kernel ws : List Rat} (h : WF cfg kernel ws) : lengths cfg ws ≠ [] := by
  intro e
  have := lengths_length h
  have two := h.two
  rw [e] at this
  simp at this; omega

theorem keypointsInputs_eq {cfg : Cfg} {kernel ws : List Rat} (h : WF cfg kernel ws) :
    keypointsInputs cfg ws =
      cumsumExcl (kpMin cfg) (lengths cfg ws) ++ [kpMin cfg + rsum (lengths cfg ws)] := by
  unfold keypointsInputs
  simp only [interpKeypoints_eq h, lastSlice_sum _ (lengths_ne_nil h)]

theorem length_keypointsInputs {cfg : Cfg} {kernel ws : List Rat} (h : WF cfg kernel ws) :
    (keypointsInputs cfg ws).length = cfg.inputKeypoints.length := by
  rw [keypointsInputs_eq h, List.length_append, length_cumsumExcl, ← lengths_length h]; rfl

theorem getR_keypointsInputs {cfg : Cfg} {kernel ws : List Rat} (h : WF cfg kernel ws) {j : Nat}
    (hj : j < cfg.inputKeypoints.length) :
    getR (keypointsInputs cfg ws) j = kpAt (kpMin cfg) (lengths cfg ws) j := by
  rw [keypointsInputs_eq h]
  have hl := lengths_length h
  rcases Nat.lt_or_ge j (lengths cfg ws).length with hlt | hge
  · rw [getR_append_left _ _ (by simpa [length_cumsumExcl] using hlt), getR_cumsumExcl _ _ hlt]
  · have e : j = (cumsumExcl (kpMin cfg) (lengths cfg ws)).length := by
      rw [length_cumsumExcl]; omega
    rw [e, getR_append_length, length_cumsumExcl]
    simp [kpAt]

theorem dropLast_append_getLastD (a : Rat) (t : List Rat) :
    (a :: t).dropLast ++ [(a :: t).getLastD 0] = a :: t := by
  induction t generalizing a with
  | nil => simp
  | cons b t ih =>
    have := ih b
    simp only [List.dropLast_cons_cons, List.getLastD_cons, List.cons_append] at this ⊢
    rw [this]

/-- with fixed keypoints `keypoints_inputs()` is the configured list -/
theorem keypointsInputs_fixed {cfg : Cfg} {kernel ws : List Rat} (h : WF cfg kernel ws)
    (hf : cfg.learned = false) : keypointsInputs cfg ws = cfg.inputKeypoints := by
  rw [keypointsInputs_eq h, kpMin_add_lengths h, ← interpKeypoints_eq h]
  have two := h.two
  simp only [interpKeypoints, hf, Bool.false_eq_true, if_false]
  cases hk : cfg.inputKeypoints with
  | nil => simp [hk] at two
  | cons a t => exact dropLast_append_getLastD a t

theorem getR_cons_cumsumIncl (b : Rat) (hs : List Rat) {j : Nat} (hj : j ≤ hs.length) :
    getR (b :: cumsumIncl b hs) j = outAt b hs j := by
  cases j with
  | zero => simp [getR, outAt_zero]
  | succ j =>
    have := getR_cumsumIncl b hs (j := j) (by omega)
    simp only [getR] at this
    simp only [getR, List.getD_cons_succ, this, outAt]

theorem length_keypointsOutputs {cfg : Cfg} {kernel ws : List Rat} (h : WF cfg kernel ws) :
    (keypointsOutputs cfg kernel).length = cfg.inputKeypoints.length := by
  have hk := h.klen
  have two := h.two
  unfold keypointsOutputs
  cases kernel with
  | nil => by_cases hc : cfg.isCyclic = true <;> simp [hc] at hk ⊢ <;> omega
  | cons b hs =>
    by_cases hc : cfg.isCyclic = true
    · simp [hc, cumsumIncl, length_cumsumIncl] at hk ⊢; omega
    · simp [hc, cumsumIncl, length_cumsumIncl] at hk ⊢; omega

/-- `keypoints_outputs()[j]` = bias + first `j` heights (including the closing height when cyclic) -/
theorem getR_keypointsOutputs {cfg : Cfg} {kernel ws : List Rat} (h : WF cfg kernel ws) {j : Nat}
    (hj : j < cfg.inputKeypoints.length) :
    getR (keypointsOutputs cfg kernel) j = outAt (kernel.headD 0) (heights cfg kernel) j := by
  have hk := h.klen
  have two := h.two
  unfold keypointsOutputs heights biasAndHeights
  cases kernel with
  | nil => by_cases hc : cfg.isCyclic = true <;> simp [hc] at hk <;> omega
  | cons b hs =>
    by_cases hc : cfg.isCyclic = true
    · simp only [hc, if_true, List.length_cons] at hk
      simp only [hc, if_true, cumsumIncl, zero_add, List.take_succ_cons, List.take_zero, List.headD_cons,
        List.cons_append, List.tail_cons]
      rcases Nat.lt_or_ge j (hs.length + 1) with hlt | hge
      · have e : (b :: (cumsumIncl b hs ++ [b])) = (b :: cumsumIncl b hs) ++ [b] := rfl
        rw [e, getR_append_left _ _ (by simpa [length_cumsumIncl] using hlt),
          getR_cons_cumsumIncl b hs (by omega)]
        simp only [outAt, List.take_append_of_le_length (Nat.lt_succ_iff.mp hlt)]
      · have ej : j = (b :: cumsumIncl b hs).length := by simp [length_cumsumIncl]; omega
        have e : (b :: (cumsumIncl b hs ++ [b])) = (b :: cumsumIncl b hs) ++ [b] := rfl
        rw [e, ej, getR_append_length]
        simp only [outAt, List.length_cons, length_cumsumIncl]
        rw [List.take_of_length_le (by simp), rsum_append]
        simp [rsum]
    · simp only [hc, Bool.false_eq_true, if_false, List.length_cons, add_zero] at hk
      simp only [hc, Bool.false_eq_true, if_false, cumsumIncl, zero_add, List.headD_cons, List.tail_cons]
      exact getR_cons_cumsumIncl b hs (by omega)

/-- `keypoints_outputs()[j]` is the cumulative kernel sum `Σ_{i ≤ j} kernel_i` -/
theorem getR_keypointsOutputs_cumsum (cfg : Cfg) (kernel : List Rat) {j : Nat} (hj : j < kernel.length) :
    getR (keypointsOutputs cfg kernel) j = rsum (kernel.take (j + 1)) := by
  unfold keypointsOutputs
  have e : getR (cumsumIncl 0 kernel) j = rsum (kernel.take (j + 1)) := by
    rw [getR_cumsumIncl 0 kernel hj, zero_add]
  by_cases hc : cfg.isCyclic = true
  · simp only [hc, if_true]
    rw [getR_append_left _ _ (by simpa [length_cumsumIncl] using hj), e]
  · simp only [hc, Bool.false_eq_true, if_false, e]

/-! ### small facts used by the property theorems -/

theorem rsum_heights_cyclic (cfg : Cfg) (kernel : List Rat) (hc : cfg.isCyclic = true) :
    rsum (heights cfg kernel) = 0 := by
  unfold heights biasAndHeights
  cases kernel with
  | nil => simp [hc, rsum]
  | cons b hs => simp [hc, rsum_append, rsum]

theorem rsum_nonneg_of_pos {ls : List Rat} (hp : ∀ l ∈ ls, 0 < l) : 0 ≤ rsum ls := by
  simpa using rsum_take_nonneg hp ls.length

theorem rsum_take_le {ls : List Rat} (hp : ∀ l ∈ ls, 0 < l) (j : Nat) : rsum (ls.take j) ≤ rsum ls := by
  have e : rsum ls = rsum (ls.take j) + rsum (ls.drop j) := by
    rw [← rsum_append, List.take_append_drop]
  have : 0 ≤ rsum (ls.drop j) := rsum_nonneg_of_pos (fun a ha => hp a (List.mem_of_mem_drop ha))
  linarith

theorem getR_of_le {l : List Rat} {j : Nat} (h : l.length ≤ j) : getR l j = 0 := by
  simp [getR, List.getD, List.getElem?_eq_none h]

end Tfl.PwlEval
