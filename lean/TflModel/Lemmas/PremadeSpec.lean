import TflModel.Lemmas.Premade
import TflModel.Lemmas.Ensembles
import Mathlib.Data.List.Basic
/-!
# Structural facts about the graphs `buildSpec` produces (C03)

Inversion lemmas for the four shapes of `buildSpecWith` (calibrated lattice, calibrated linear,
RTL ensemble, explicit ensemble), facts about `mkCalibrator`, `assignUnits`, the flattened RTL input,
and the index bound of `rtlStructure` that `Props/C17` does not export.
-/
namespace Tfl.Premade
open Tfl Tfl.Ensembles

/-! ## `mapMExcept` -/

theorem mapMExcept_ok {α β} {f : α → Except Err β} : ∀ {l : List α} {r : List β},
    mapMExcept f l = .ok r → List.Forall₂ (fun a b => f a = .ok b) l r
  | [], r, h => by simp only [mapMExcept, Except.ok.injEq] at h; subst h; exact .nil
  | a :: as, r, h => by
    unfold mapMExcept at h
    split at h
    · cases h
    · rename_i b hb
      split at h
      · cases h
      · rename_i bs hbs
        simp only [Except.ok.injEq] at h; subst h
        exact .cons hb (mapMExcept_ok hbs)

theorem forall₂_of_mem_right {α β} {R : α → β → Prop} {l : List α} {r : List β} (h : List.Forall₂ R l r)
    {b : β} (hb : b ∈ r) : ∃ a ∈ l, R a b := by
  induction h with
  | nil => cases hb
  | cons h0 _ ih =>
    rcases List.mem_cons.mp hb with rfl | hb
    · exact ⟨_, List.mem_cons_self, h0⟩
    · obtain ⟨a, ha, hr⟩ := ih hb
      exact ⟨a, List.mem_cons_of_mem _ ha, hr⟩

theorem forall₂_of_mem_left {α β} {R : α → β → Prop} {l : List α} {r : List β} (h : List.Forall₂ R l r)
    {a : α} (ha : a ∈ l) : ∃ b ∈ r, R a b := by
  induction h with
  | nil => cases ha
  | cons h0 _ ih =>
    rcases List.mem_cons.mp ha with rfl | ha
    · exact ⟨_, List.mem_cons_self, h0⟩
    · obtain ⟨b, hb, hr⟩ := ih ha
      exact ⟨b, List.mem_cons_of_mem _ hb, hr⟩

/-! ## `mkCalibrator` -/

/-- what the configuration asks for a feature with monotonicity `m` -/
inductive ReqOf : MonoSpec → Req → Prop
  | inc (c : Bool) : ReqOf (.inc c) .inc
  | dec (c : Bool) : ReqOf (.dec c) .dec
  | pair (ps : List (Nat × Nat)) (l : PairsKind) (a b : Nat) : (a, b) ∈ ps → ReqOf (.pairs ps l) (.pair a b)

theorem ReqOf.truthy {m : MonoSpec} {r : Req} (h : ReqOf m r) : m.truthy = true := by
  cases h with
  | inc => rfl
  | dec => rfl
  | pair ps l a b hab => cases ps with
    | nil => cases hab
    | cons _ _ => rfl

theorem mkCalibrator_basic {c : ModelConfig} {r : Range} {i u : Nat} {cal : Calibrator}
    (h : mkCalibrator c r i u = .ok cal) :
    cal.feature = i ∧ cal.units = u ∧ u ≠ 0 ∧
      cal.outMin = (outputRange r c (featAt c i)).1 ∧ cal.outMax = (outputRange r c (featAt c i)).2 := by
  unfold mkCalibrator at h
  simp only at h
  split_ifs at h with h0 h1
  · simp only [Except.ok.injEq] at h; subst h; exact ⟨rfl, rfl, h0, rfl, rfl⟩
  · split at h
    · cases h
    · simp only [Except.ok.injEq] at h; subst h; exact ⟨rfl, rfl, h0, rfl, rfl⟩

/-- the calibrator has the requested direction / pair (category pairs are a python `list` or `tuple`
by `verify_config`, so `build_multi_unit_calibration_layers` passes them on) -/
theorem mkCalibrator_meets {c : ModelConfig} {r : Range} {i u : Nat} {cal : Calibrator}
    (h : mkCalibrator c r i u = .ok cal) (hv : verifyFeature (featAt c i) = true) {rq : Req}
    (hreq : ReqOf (featAt c i).mono rq) : calMeets cal rq := by
  generalize hm : (featAt c i).mono = m at hreq
  unfold mkCalibrator at h
  simp only at h
  split_ifs at h with h0 h1
  · -- categorical
    simp only [Except.ok.injEq] at h; subst h
    have hnb : (featAt c i).numBuckets ≠ 0 := by simpa using h1
    cases hreq with
    | inc cn => simp [verifyFeature, hnb, hm] at hv
    | dec cn => simp [verifyFeature, hnb, hm] at hv
    | pair ps l a b hab =>
      have hl : l ≠ .other := by
        intro e
        subst e
        cases ps with
        | nil => cases hab
        | cons _ _ => simp [verifyFeature, hnb, hm] at hv
      have hh : pairsHonoured l = true := by cases l <;> simp_all [pairsHonoured]
      simp only [calMeets, hm, calPairs, calPairsWith, hh, if_true]
      exact hab
  · cases hreq with
    | inc cn =>
      simp only [hm, MonoSpec.canonical, Except.ok.injEq] at h
      subst h; simp [calMeets]
    | dec cn =>
      simp only [hm, MonoSpec.canonical, Except.ok.injEq] at h
      subst h; simp [calMeets]
    | pair ps l a b hab =>
      simp [hm, MonoSpec.canonical] at h

/-! ## `verifyConfig` -/

theorem verify_features {c : ModelConfig} (h : verifyConfig c = .ok ()) {i : Nat} (hi : i < c.features.length) :
    verifyFeature (featAt c i) = true := by
  unfold verifyConfig at h
  split_ifs at h with h1 h2 h3 h4 h5
  have : c.features.all verifyFeature = true := by simpa using h5
  rw [List.all_eq_true] at this
  apply this
  unfold featAt
  rw [List.getD_eq_getElem?_getD, List.getElem?_eq_getElem hi]
  exact List.getElem_mem hi

theorem sameSizes_spec {c : ModelConfig} (h : sameLatticeSizes c = true) {i : Nat} (hi : i < c.features.length) :
    (featAt c i).latticeSize = (featAt c 0).latticeSize := by
  unfold sameLatticeSizes at h
  rw [List.all_eq_true] at h
  have := h (featAt c i) (by
    unfold featAt
    rw [List.getD_eq_getElem?_getD, List.getElem?_eq_getElem hi]
    exact List.getElem_mem hi)
  simpa using this

theorem verify_rtl {c : ModelConfig} (h : verifyConfig c = .ok ()) (hk : c.kind = .ensemble) (hr : c.rtl = true) :
    2 ≤ c.numLattices ∧ sameLatticeSizes c = true := by
  unfold verifyConfig at h
  split_ifs at h with h1
  simp only [hk, hr, true_and, not_or, not_lt] at h1
  exact ⟨h1.1, by simpa using h1.2.1⟩

theorem verify_explicit {c : ModelConfig} (h : verifyConfig c = .ok ()) (hk : c.kind = .ensemble) (hr : c.rtl = false) :
    2 ≤ c.lattices.length := by
  unfold verifyConfig at h
  split_ifs at h with h1 h2
  simp only [hk, hr, true_and, not_lt] at h2
  exact h2

theorem verify_kfl {c : ModelConfig} (h : verifyConfig c = .ok ()) (hk : c.kind ≠ .linear) (hkfl : c.kfl = true) :
    sameLatticeSizes c = true := by
  unfold verifyConfig at h
  split_ifs at h with h1 h2 h3 h4
  have hk' : c.kind = .ensemble ∨ c.kind = .lattice := by
    cases hc : c.kind <;> simp_all
  simp only [hk', hkfl, true_and, not_or] at h4
  simpa using h4.1

theorem verify_lattices {c : ModelConfig} (h : verifyConfig c = .ok ()) (hk : c.kind = .ensemble) (hr : c.rtl = false) :
    ∀ l ∈ c.lattices, ∀ f ∈ l, f < c.features.length := by
  unfold verifyConfig at h
  split_ifs at h with h1 h2 h3
  simp only [hk, hr, true_and, Bool.not_eq_false] at h3
  intro l hl f hf
  rw [List.all_eq_true] at h3
  have := h3 l hl
  rw [List.all_eq_true] at this
  simpa using this f hf

/-! ## inversion of `buildSpecWith` -/

def allFeats (c : ModelConfig) : List Nat := List.range c.features.length

theorem buildSpec_lattice {rule : Feature → Bool} {c : ModelConfig} {g : LayerGraph}
    (h : buildSpecWith rule c = .ok g) (hk : c.kind = .lattice) :
    verifyConfig c = .ok () ∧ ∃ cals,
      mapMExcept (fun i => mkCalibrator c .toLattice i 1) (allFeats c) = .ok cals ∧
      g = { calibrators := cals, blocks := [mkLattice c ((allFeats c).map (fun i => (i, 0)))],
            rtl := false, combine := .single, outCal := mkOutCal c } := by
  unfold buildSpecWith at h
  split at h
  · cases h
  · rename_i hv
    simp only [hk] at h
    split at h
    · cases h
    · rename_i cals hc
      simp only [Except.ok.injEq] at h
      exact ⟨hv, cals, hc, h.symm⟩

theorem buildSpec_linear {rule : Feature → Bool} {c : ModelConfig} {g : LayerGraph}
    (h : buildSpecWith rule c = .ok g) (hk : c.kind = .linear) :
    verifyConfig c = .ok () ∧ ∃ cals,
      mapMExcept (fun i => mkCalibrator c (finalRange c) i 1) (allFeats c) = .ok cals ∧
      g = { calibrators := cals, blocks := [mkLinear c ((allFeats c).map (fun i => (i, 0)))],
            rtl := false, combine := .single, outCal := mkOutCal c } := by
  unfold buildSpecWith at h
  split at h
  · cases h
  · rename_i hv
    simp only [hk] at h
    split at h
    · cases h
    · rename_i cals hc
      simp only [Except.ok.injEq] at h
      exact ⟨hv, cals, hc, h.symm⟩

theorem buildSpec_rtl {rule : Feature → Bool} {c : ModelConfig} {g : LayerGraph}
    (h : buildSpecWith rule c = .ok g) (hk : c.kind = .ensemble) (hr : c.rtl = true) :
    verifyConfig c = .ok () ∧ ∃ cals bs cb,
      mapMExcept (fun i => mkCalibrator c .toLattice i (rtlUnits c i)) (allFeats c) = .ok cals ∧
      rtlBlocksWith rule c = .ok bs ∧ mkCombine c = .ok cb ∧
      g = { calibrators := cals, blocks := bs, rtl := true, combine := cb, outCal := mkOutCal c } := by
  unfold buildSpecWith at h
  split at h
  · cases h
  · rename_i hv
    simp only [hk, hr, if_true] at h
    split at h
    · cases h
    · rename_i cals hc
      split at h
      · cases h
      · rename_i bs hbs
        split at h
        · cases h
        · rename_i cb hcb
          simp only [Except.ok.injEq] at h
          exact ⟨hv, cals, bs, cb, hc, hbs, hcb, h.symm⟩

theorem buildSpec_explicit {rule : Feature → Bool} {c : ModelConfig} {g : LayerGraph}
    (h : buildSpecWith rule c = .ok g) (hk : c.kind = .ensemble) (hr : c.rtl = false) :
    verifyConfig c = .ok () ∧ ∃ cals cb,
      mapMExcept (fun i => mkCalibrator c .toLattice i (explicitUnits c.separateCalibrators c.lattices i))
        (sortNat (usedFeatures c.lattices)) = .ok cals ∧
      mkCombine c = .ok cb ∧
      g = { calibrators := cals,
            blocks := (assignUnits c.separateCalibrators [] c.lattices).map (mkLattice c),
            rtl := false, combine := cb, outCal := mkOutCal c } := by
  unfold buildSpecWith at h
  split at h
  · cases h
  · rename_i hv
    simp only [hk, hr, Bool.false_eq_true, if_false] at h
    split at h
    · cases h
    · rename_i cals hc
      split at h
      · cases h
      · rename_i cb hcb
        simp only [Except.ok.injEq] at h
        exact ⟨hv, cals, cb, hc, hcb, h.symm⟩

theorem mem_insertNat {x y : Nat} : ∀ {l : List Nat}, y ∈ insertNat x l ↔ y = x ∨ y ∈ l
  | [] => by simp [insertNat]
  | z :: zs => by
    unfold insertNat
    split_ifs
    · simp
    · simp only [List.mem_cons, mem_insertNat (l := zs)]
      constructor
      · rintro (h | h | h)
        · exact Or.inr (Or.inl h)
        · exact Or.inl h
        · exact Or.inr (Or.inr h)
      · rintro (h | h | h)
        · exact Or.inr (Or.inl h)
        · exact Or.inl h
        · exact Or.inr (Or.inr h)

theorem mem_sortNat {y : Nat} : ∀ {l : List Nat}, y ∈ sortNat l ↔ y ∈ l
  | [] => by simp [sortNat]
  | x :: xs => by simp [sortNat, mem_insertNat, mem_sortNat (l := xs)]

/-! ## `assignUnits` -/

theorem unitsRow_length (sep : Bool) : ∀ (seen fs : List Nat), (unitsRow sep seen fs).length = fs.length
  | _, [] => rfl
  | seen, f :: fs => by simp [unitsRow, unitsRow_length sep (f :: seen) fs]

/-- the calibrator unit of a submodel input is below the feature's total number of uses -/
theorem unitsRow_lt (sep : Bool) : ∀ (seen fs : List Nat) (p : Nat × Nat), p ∈ fs.zip (unitsRow sep seen fs) →
    p.1 ∈ fs ∧ p.2 < max (if sep then seen.count p.1 + fs.count p.1 else 0) 1
  | _, [], p, h => by simp [unitsRow] at h
  | seen, f :: fs, p, h => by
    simp only [unitsRow, List.zip_cons_cons, List.mem_cons] at h
    rcases h with rfl | h
    · refine ⟨List.mem_cons_self, ?_⟩
      cases sep <;> simp
    · obtain ⟨h1, h2⟩ := unitsRow_lt sep (f :: seen) fs p h
      refine ⟨List.mem_cons_of_mem _ h1, ?_⟩
      cases sep
      · simpa using h2
      · simp only [if_true] at h2 ⊢
        rw [List.count_cons] at h2
        rw [List.count_cons]
        omega

theorem assignUnits_length (sep : Bool) : ∀ (seen : List Nat) (ls : List (List Nat)),
    (assignUnits sep seen ls).length = ls.length
  | _, [] => rfl
  | seen, l :: ls => by simp [assignUnits, assignUnits_length sep (l.reverse ++ seen) ls]

theorem assignUnits_spec (sep : Bool) : ∀ (seen : List Nat) (ls : List (List Nat)) (row : List (Nat × Nat)),
    row ∈ assignUnits sep seen ls → ∀ p ∈ row,
      p.1 ∈ ls.flatten ∧ p.2 < max (if sep then seen.count p.1 + ls.flatten.count p.1 else 0) 1
  | _, [], row, h => by simp [assignUnits] at h
  | seen, l :: ls, row, h => by
    intro p hp
    simp only [assignUnits, List.mem_cons] at h
    rcases h with rfl | h
    · obtain ⟨h1, h2⟩ := unitsRow_lt sep seen l p hp
      refine ⟨by simp [h1], ?_⟩
      cases sep
      · simpa using h2
      · simp only [if_true, List.flatten_cons, List.count_append] at h2 ⊢
        omega
    · obtain ⟨h1, h2⟩ := assignUnits_spec sep (l.reverse ++ seen) ls row h p hp
      refine ⟨by simp [h1], ?_⟩
      cases sep
      · simpa using h2
      · simp only [if_true, List.flatten_cons, List.count_append, List.count_reverse] at h2 ⊢
        omega

/-! ## blocks built by `mkLattice` / `mkLinear` -/

theorem getD_map' {α β} (f : α → β) (l : List α) (d : Nat) (a : α) (b : β) (hd : d < l.length) :
    (l.map f).getD d b = f (l.getD d a) := by
  simp [List.getD_eq_getElem?_getD, hd]

theorem mkLattice_inputs (c : ModelConfig) (ins : List (Nat × Nat)) : (mkLattice c ins).inputs = ins := by
  unfold mkLattice; split_ifs <;> rfl
theorem mkLattice_kind (c : ModelConfig) (ins : List (Nat × Nat)) : (mkLattice c ins).kind ≠ .linear := by
  unfold mkLattice; split_ifs <;> simp
theorem mkLattice_monos (c : ModelConfig) (ins : List (Nat × Nat)) :
    (mkLattice c ins).monos = ins.map (fun p => axisMono (featAt c p.1).mono) := by
  unfold mkLattice; split_ifs <;> rfl
theorem mkLattice_sizes_length (c : ModelConfig) (ins : List (Nat × Nat)) :
    (mkLattice c ins).sizes.length = ins.length := by
  unfold mkLattice; split_ifs <;> simp
theorem mkLattice_bounds (c : ModelConfig) (ins : List (Nat × Nat)) :
    (mkLattice c ins).outMin = (outputRange (finalRange c) c default).1 ∧
    (mkLattice c ins).outMax = (outputRange (finalRange c) c default).2 := by
  unfold mkLattice; split_ifs <;> exact ⟨rfl, rfl⟩

theorem mkLattice_size (c : ModelConfig) (ins : List (Nat × Nat)) {d : Nat} (hd : d < ins.length)
    (hs : c.kfl = true → ∀ p ∈ ins, (featAt c p.1).latticeSize = (featAt c 0).latticeSize) :
    (mkLattice c ins).sizes.getD d 0 = (featAt c (ins.getD d default).1).latticeSize := by
  unfold mkLattice
  split_ifs with hk
  · simp only
    rw [getD_map' _ _ _ default _ hd]
    have h1 := hs hk (ins.getD d default) (by
      rw [List.getD_eq_getElem?_getD, List.getElem?_eq_getElem hd]; exact List.getElem_mem hd)
    have hne : ins ≠ [] := by intro e; subst e; simp at hd
    have h2 := hs hk (ins.head hne) (List.head_mem hne)
    have : (ins.map (·.1)).headD 0 = (ins.head hne).1 := by
      cases ins with
      | nil => exact absurd rfl hne
      | cons a t => rfl
    rw [this, h2, h1]
  · simp only
    rw [getD_map' _ _ _ default _ hd]

theorem mkLattice_mono_axis (c : ModelConfig) (ins : List (Nat × Nat)) {d : Nat} (hd : d < ins.length) :
    (mkLattice c ins).monos.getD d 0 = axisMono (featAt c (ins.getD d default).1).mono := by
  rw [mkLattice_monos, getD_map' _ _ _ default _ hd]

theorem axisMono_of_truthy {m : MonoSpec} (h : m.truthy = true) : axisMono m = 1 := by simp [axisMono, h]

theorem mkLinear_inputs (c : ModelConfig) (ins : List (Nat × Nat)) : (mkLinear c ins).inputs = ins := by
  unfold mkLinear; split_ifs <;> rfl
theorem mkLinear_kind (c : ModelConfig) (ins : List (Nat × Nat)) : (mkLinear c ins).kind = .linear := by
  unfold mkLinear; split_ifs <;> rfl

theorem mkLinear_mono_axis (c : ModelConfig) (ins : List (Nat × Nat)) {d : Nat} (hd : d < ins.length)
    (ht : (featAt c (ins.getD d default).1).mono.truthy = true) : (mkLinear c ins).monos.getD d 0 = 1 := by
  unfold mkLinear
  split_ifs
  · simp only; rw [getD_map' _ _ _ default _ hd]
  · simp only; rw [getD_map' _ _ _ default _ hd]; exact axisMono_of_truthy ht

/-! ## the flattened RTL input -/

def unitCols (c : ModelConfig) (fs : List Nat) : List (Nat × Nat) :=
  fs.flatMap (fun i => (List.range (rtlUnits c i)).map (fun u => (i, u)))

theorem rtlFlat_eq (c : ModelConfig) (rule : Feature → Bool) :
    rtlFlat c rule = unitCols c (rtlKey c rule true) ++ unitCols c (rtlKey c rule false) := by
  simp [rtlFlat, unitCols, List.flatMap_append]

theorem unitCols_length (c : ModelConfig) (fs : List Nat) : (unitCols c fs).length = (fs.map (rtlUnits c)).sum := by
  induction fs with
  | nil => rfl
  | cons a t ih => simp [unitCols, List.flatMap_cons] at ih ⊢

theorem mem_unitCols {c : ModelConfig} {fs : List Nat} {p : Nat × Nat} (h : p ∈ unitCols c fs) :
    p.1 ∈ fs ∧ p.2 < rtlUnits c p.1 := by
  simp only [unitCols, List.mem_flatMap, List.mem_map, List.mem_range] at h
  obtain ⟨i, hi, u, hu, rfl⟩ := h
  exact ⟨hi, hu⟩

theorem mem_rtlKey {c : ModelConfig} {rule : Feature → Bool} {b : Bool} {i : Nat} (h : i ∈ rtlKey c rule b) :
    i < c.features.length ∧ rule (featAt c i) = b := by
  simp only [rtlKey, List.mem_filter, List.mem_range, beq_iff_eq] at h
  exact h

/-- a flattened input index wired to a feature the rule files under `'increasing'` lies in the
increasing part of the flattened input -/
theorem rtlFlat_increasing (c : ModelConfig) (rule : Feature → Bool) {i : Nat}
    (hi : i < (rtlFlat c rule).length) (hr : rule (featAt c ((rtlFlat c rule).getD i default).1) = true) :
    i < ((rtlKey c rule true).map (rtlUnits c)).sum := by
  by_contra hge
  rw [← unitCols_length] at hge
  rw [rtlFlat_eq] at hi hr
  have hmem : (unitCols c (rtlKey c rule true) ++ unitCols c (rtlKey c rule false)).getD i default
      ∈ unitCols c (rtlKey c rule false) := by
    rw [List.getD_eq_getElem?_getD, List.getElem?_append_right (by omega)]
    have : i - (unitCols c (rtlKey c rule true)).length < (unitCols c (rtlKey c rule false)).length := by
      rw [List.length_append] at hi; omega
    rw [List.getElem?_eq_getElem this]
    exact List.getElem_mem this
  have := (mem_rtlKey (mem_unitCols hmem).1).2
  rw [this] at hr; cases hr

/-- … and one wired to a feature the rule does NOT file under `'increasing'` lies outside it -/
theorem rtlFlat_unconstrained (c : ModelConfig) (rule : Feature → Bool) {i : Nat}
    (_hi : i < (rtlFlat c rule).length) (hr : rule (featAt c ((rtlFlat c rule).getD i default).1) = false) :
    ¬ i < ((rtlKey c rule true).map (rtlUnits c)).sum := by
  intro hlt
  rw [← unitCols_length] at hlt
  rw [rtlFlat_eq] at hr
  have hmem : (unitCols c (rtlKey c rule true) ++ unitCols c (rtlKey c rule false)).getD i default
      ∈ unitCols c (rtlKey c rule true) := by
    rw [List.getD_eq_getElem?_getD, List.getElem?_append_left hlt, List.getElem?_eq_getElem hlt]
    exact List.getElem_mem hlt
  have := (mem_rtlKey (mem_unitCols hmem).1).2
  rw [this] at hr; cases hr

theorem rtlFlat_mem (c : ModelConfig) (rule : Feature → Bool) {i : Nat} (hi : i < (rtlFlat c rule).length) :
    ((rtlFlat c rule).getD i default).1 < c.features.length ∧
    ((rtlFlat c rule).getD i default).2 < rtlUnits c ((rtlFlat c rule).getD i default).1 := by
  have hm : (rtlFlat c rule).getD i default ∈ rtlFlat c rule := by
    rw [List.getD_eq_getElem?_getD, List.getElem?_eq_getElem hi]; exact List.getElem_mem hi
  generalize (rtlFlat c rule).getD i default = p at hm ⊢
  rw [rtlFlat_eq] at hm
  rcases List.mem_append.mp hm with h | h
  · exact ⟨(mem_rtlKey (mem_unitCols h).1).1, (mem_unitCols h).2⟩
  · exact ⟨(mem_rtlKey (mem_unitCols h).1).1, (mem_unitCols h).2⟩

theorem rtlFlat_length (c : ModelConfig) (rule : Feature → Bool) :
    (rtlFlat c rule).length =
      (rtlInputs ((rtlKey c rule true).map (rtlUnits c)) ((rtlKey c rule false).map (rtlUnits c))).length := by
  rw [length_rtlInputs, rtlFlat_eq, List.length_append, unitCols_length, unitCols_length]

/-! ## `rtlStructure`: shape, monotonicity tuples and index bound -/

/-- (the facts of `C17.rtl_structure` re-derived here together with the index bound) for every
pair of shuffles: `L` lattices; each has `r` slots, its monotonicity tuple marks exactly the slots
wired to `'increasing'` inputs, and every slot index is a valid flattened input index. -/
theorem rtlStructure_facts (inc unc : List Nat) (L r : Nat) (avoid : Bool) (perm1 perm2 : List Nat) (fuel : Nat)
    (s : Structure) (cap : Bool)
    (hpos : 0 < (rtlInputs inc unc).length)
    (hp1 : perm1.Perm (List.range (rtlInputs inc unc).length)) (hp2 : perm2.Perm (List.range (L * r)))
    (h : rtlStructure inc unc L r avoid perm1 perm2 fuel = .ok (s, cap)) :
    (s.flatMap (·.2)).length = L ∧
    ∀ g ∈ s, ∀ lat ∈ g.2, lat.length = r ∧ g.1 = lat.map (monoOf inc) ∧
      ∀ i ∈ lat, i < (rtlInputs inc unc).length := by
  unfold rtlStructure at h
  split_ifs at h with hsmall
  simp only [Except.ok.injEq, Prod.mk.injEq] at h
  obtain ⟨hs, _⟩ := h
  set flat := (rtlSlots inc unc L r avoid perm1 perm2 fuel).1 with hflat
  have hJ := applyPerm_perm perm1 _ hp1
  have hlenT : (tileTake (applyPerm perm1 (rtlInputs inc unc)) (L * r)).length = L * r :=
    length_tileTake _ (by rw [hJ.length_eq]; exact hpos) _
  have hperm : flat.Perm (tileTake (applyPerm perm1 (rtlInputs inc unc)) (L * r)) := by
    have h2 := applyPerm_perm perm2 (tileTake (applyPerm perm1 (rtlInputs inc unc)) (L * r))
      (by rw [hlenT]; exact hp2)
    rw [hflat]
    unfold rtlSlots
    simp only
    split_ifs
    · exact (rtlSwapLoop_perm L r fuel _).trans h2
    · exact h2
  have hlen : flat.length = L * r := by rw [hperm.length_eq]; exact hlenT
  have hmem : ∀ x ∈ flat, x ∈ rtlInputs inc unc := fun x hx =>
    hJ.subset (mem_tileTake (hperm.subset hx))
  have hsperm : s.Perm (groupLattices (chunks r L flat)) := by rw [← hs]; exact List.mergeSort_perm _ _
  have hlats : (s.flatMap (·.2)).Perm ((chunks r L flat).map latVal) := by
    refine (List.Perm.flatMap_right _ hsperm).trans ?_
    have := groupFold_flatMap_perm (chunks r L flat) []
    simpa [groupLattices_eq] using this
  refine ⟨by rw [hlats.length_eq, List.length_map]; simp [chunks], ?_⟩
  intro g hg lat hlat
  have hg' : g ∈ groupFold [] (chunks r L flat) := by
    rw [← groupLattices_eq]; exact hsperm.subset hg
  rcases mem_groupFold _ _ g hg' lat hlat with ⟨e', he', _⟩ | ⟨c, hc, hk, hv⟩
  · cases he'
  · have hcs : (sortLattice c).Perm c := List.mergeSort_perm _ _
    refine ⟨?_, ?_, ?_⟩
    · rw [hv, latVal, List.length_map, hcs.length_eq]; exact length_of_mem_chunks r L flat hlen hc
    · rw [hk, hv, latKey, latVal, List.map_map]
      apply List.map_congr_left
      intro x hx
      exact mono_of_mem_rtlInputs inc unc (hmem x (mem_of_mem_chunks r L flat hc (hcs.subset hx)))
    · intro i hi
      rw [hv, latVal, List.mem_map] at hi
      obtain ⟨x, hx, rfl⟩ := hi
      have hxm := hmem x (mem_of_mem_chunks r L flat hc (hcs.subset hx))
      have : x.idx ∈ (rtlInputs inc unc).map (·.idx) := List.mem_map_of_mem hxm
      rw [map_idx_rtlInputs] at this
      exact List.mem_range.mp this

/-! ## the three structural theorems, shape by shape -/

/-- the two shuffles of `RTL._get_rtl_structure` are permutations (of the flattened inputs resp.
of the lattice slots), and there is at least one input -/
structure RtlDraws (rule : Feature → Bool) (c : ModelConfig) : Prop where
  pos : 0 < (rtlFlat c rule).length
  p1 : c.perm1.Perm (List.range (rtlFlat c rule).length)
  p2 : c.perm2.Perm (List.range (c.numLattices * c.latticeRank))

theorem mem_allFeats {c : ModelConfig} {i : Nat} : i ∈ allFeats c ↔ i < c.features.length := by
  simp [allFeats]

theorem getD_mem {α} (l : List α) {d : Nat} (a : α) (hd : d < l.length) : l.getD d a ∈ l := by
  rw [List.getD_eq_getElem?_getD, List.getElem?_eq_getElem hd]; exact List.getElem_mem hd

/-- every calibrator of feature `f` has the requested direction / pair -/
theorem cals_meet {c : ModelConfig} {rng : Range} {units : Nat → Nat} {l : List Nat} {cals : List Calibrator}
    (hm : mapMExcept (fun i => mkCalibrator c rng i (units i)) l = .ok cals) (hv : verifyConfig c = .ok ())
    {f : Nat} (hf : f < c.features.length) {rq : Req} (hreq : ReqOf (featAt c f).mono rq) :
    ∀ cal ∈ cals, cal.feature = f → calMeets cal rq := by
  intro cal hcal hcf
  obtain ⟨i, _, hi⟩ := forall₂_of_mem_right (mapMExcept_ok hm) hcal
  have := (mkCalibrator_basic hi).1
  rw [hcf] at this; subst this
  exact mkCalibrator_meets hi (verify_features hv hf) hreq

theorem rtlBlocks_inv {rule : Feature → Bool} {c : ModelConfig} {bs : List Block}
    (h : rtlBlocksWith rule c = .ok bs) :
    ∃ s cap, Ensembles.rtlStructure ((rtlKey c rule true).map (rtlUnits c)) ((rtlKey c rule false).map (rtlUnits c))
        c.numLattices c.latticeRank true c.perm1 c.perm2 = .ok (s, cap) ∧
      bs = s.flatMap fun g => g.2.map (mkRtlBlock c (rtlFlat c rule) g.1) := by
  unfold rtlBlocksWith at h
  simp only at h
  split at h
  · cases h
  · rename_i s cap hs
    simp only [Except.ok.injEq] at h
    exact ⟨s, cap, hs, h.symm⟩

/-- facts about one lattice unit of the RTL layer -/
theorem rtlBlock_facts {rule : Feature → Bool} {c : ModelConfig} {bs : List Block}
    (h : rtlBlocksWith rule c = .ok bs) (hd : RtlDraws rule c) :
    bs.length = c.numLattices ∧
    ∀ b ∈ bs, b.kind ≠ .linear ∧ b.sizes.length = b.inputs.length ∧
      b.outMin = (outputRange (finalRange c) c default).1 ∧ b.outMax = (outputRange (finalRange c) c default).2 ∧
      ∀ d, d < b.inputs.length → ∃ i, i < (rtlFlat c rule).length ∧
        b.inputs.getD d default = (rtlFlat c rule).getD i default ∧
        b.sizes.getD d 0 = (featAt c 0).latticeSize ∧
        b.monos.getD d 0 = monoOf ((rtlKey c rule true).map (rtlUnits c)) i := by
  obtain ⟨s, cap, hs, rfl⟩ := rtlBlocks_inv h
  have hlen := rtlFlat_length c rule
  obtain ⟨hL, hfacts⟩ := rtlStructure_facts _ _ _ _ _ _ _ _ s cap (by rw [← hlen]; exact hd.pos)
    (by rw [← hlen]; exact hd.p1) hd.p2 hs
  constructor
  · rw [← hL, List.length_flatMap, List.length_flatMap]
    congr 1
    apply List.map_congr_left
    intro g _; simp
  · intro b hb
    simp only [List.mem_flatMap, List.mem_map] at hb
    obtain ⟨g, hg, lat, hlat, rfl⟩ := hb
    obtain ⟨_, hmono, hidx⟩ := hfacts g hg lat hlat
    refine ⟨?_, by simp [mkRtlBlock], rfl, rfl, ?_⟩
    · unfold mkRtlBlock; simp only; split_ifs <;> simp
    · intro d hd'
      have hdl : d < lat.length := by simpa [mkRtlBlock] using hd'
      have hi := hidx (lat.getD d 0) (getD_mem lat 0 hdl)
      rw [← hlen] at hi
      refine ⟨lat.getD d 0, hi, ?_, ?_, ?_⟩
      · simp only [mkRtlBlock]; rw [getD_map' _ _ _ 0 _ hdl]
      · simp only [mkRtlBlock]; rw [getD_map' _ _ _ 0 _ hdl]
      · simp only [mkRtlBlock]; rw [hmono, getD_map' _ _ _ 0 _ hdl]

/-- **key structural lemma (T2).** In a graph produced by the builders, a feature with a
non-trivial monotonicity meets only calibrators of the requested direction / pair, and every
lattice or linear axis it feeds is marked increasing — PROVIDED, for an RTL ensemble, the filing rule puts the feature under `'increasing'`. -/
theorem buildSpecWith_wired {rule : Feature → Bool} {c : ModelConfig} {g : LayerGraph}
    (h : buildSpecWith rule c = .ok g) {f : Nat} (hf : f < c.features.length) {rq : Req}
    (hreq : ReqOf (featAt c f).mono rq)
    (hrule : c.kind = .ensemble → c.rtl = true → rule (featAt c f) = true ∧ RtlDraws rule c) :
    Wired g f rq := by
  have ht := hreq.truthy
  cases hk : c.kind with
  | lattice =>
    obtain ⟨hv, cals, hc, rfl⟩ := buildSpec_lattice h hk
    refine ⟨cals_meet hc hv hf hreq, ?_⟩
    intro b hb d hd hfd
    simp only [List.mem_singleton] at hb; subst hb
    rw [mkLattice_inputs] at hd hfd
    rw [mkLattice_mono_axis _ _ hd, hfd]; exact axisMono_of_truthy ht
  | linear =>
    obtain ⟨hv, cals, hc, rfl⟩ := buildSpec_linear h hk
    refine ⟨cals_meet hc hv hf hreq, ?_⟩
    intro b hb d hd hfd
    simp only [List.mem_singleton] at hb; subst hb
    rw [mkLinear_inputs] at hd hfd
    exact mkLinear_mono_axis _ _ hd (by rw [hfd]; exact ht)
  | ensemble =>
    cases hr : c.rtl with
    | false =>
      obtain ⟨hv, cals, cb, hc, _, rfl⟩ := buildSpec_explicit h hk hr
      refine ⟨cals_meet hc hv hf hreq, ?_⟩
      intro b hb d hd hfd
      simp only [List.mem_map] at hb
      obtain ⟨row, _, rfl⟩ := hb
      rw [mkLattice_inputs] at hd hfd
      rw [mkLattice_mono_axis _ _ hd, hfd]; exact axisMono_of_truthy ht
    | true =>
      obtain ⟨hv, cals, bs, cb, hc, hbs, _, rfl⟩ := buildSpec_rtl h hk hr
      obtain ⟨hru, hdraw⟩ := hrule hk hr
      refine ⟨cals_meet hc hv hf hreq, ?_⟩
      intro b hb d hd hfd
      obtain ⟨_, hfacts⟩ := rtlBlock_facts hbs hdraw
      obtain ⟨_, _, _, _, hax⟩ := hfacts b hb
      obtain ⟨i, hi, hin, _, hmono⟩ := hax d hd
      rw [hmono]
      unfold monoOf
      rw [if_pos]
      apply rtlFlat_increasing c rule hi
      rw [← hin, hfd]; exact hru

/-- **the RTL filing rule decides the axis marks**: in an RTL ensemble built with the rule `rule`,
every lattice axis fed by a feature the rule does NOT file under `'increasing'` is unmarked. -/
theorem buildSpecWith_rtl_unmarked {rule : Feature → Bool} {c : ModelConfig} {g : LayerGraph}
    (h : buildSpecWith rule c = .ok g) (hk : c.kind = .ensemble) (hr : c.rtl = true)
    (hdraw : RtlDraws rule c) {f : Nat} (hrule : rule (featAt c f) = false) :
    ∀ b ∈ g.blocks, ∀ d, d < b.inputs.length → (b.inputs.getD d default).1 = f → b.monos.getD d 0 = 0 := by
  obtain ⟨hv, cals, bs, cb, hc, hbs, _, rfl⟩ := buildSpec_rtl h hk hr
  intro b hb d hd hfd
  obtain ⟨_, hfacts⟩ := rtlBlock_facts hbs hdraw
  obtain ⟨_, _, _, _, hax⟩ := hfacts b hb
  obtain ⟨i, hi, hin, _, hmono⟩ := hax d hd
  rw [hmono]
  unfold monoOf
  rw [if_neg]
  apply rtlFlat_unconstrained c rule hi
  rw [← hin, hfd]; exact hrule

theorem outputRange_toLattice (c : ModelConfig) (f : Feature) :
    outputRange .toLattice c f = (some 0, some ((f.latticeSize : ℚ) - 1)) := rfl

/-- **calibrator output ranges are the lattice input ranges** -/
theorem buildSpecWith_ranges {rule : Feature → Bool} {c : ModelConfig} {g : LayerGraph}
    (h : buildSpecWith rule c = .ok g)
    (hrtl : c.kind = .ensemble → c.rtl = true → RtlDraws rule c) : Ranges g := by
  cases hk : c.kind with
  | lattice =>
    obtain ⟨hv, cals, hc, rfl⟩ := buildSpec_lattice h hk
    constructor
    · intro b hb _
      simp only [List.mem_singleton] at hb; subst hb
      rw [mkLattice_sizes_length, mkLattice_inputs]
    · intro b hb d hd
      simp only [List.mem_singleton] at hb; subst hb
      rw [mkLattice_inputs] at hd ⊢
      have hp := getD_mem _ (default : Nat × Nat) hd
      obtain ⟨i, hi, hpi⟩ := List.mem_map.mp hp
      obtain ⟨cal, hcal, hmk⟩ := forall₂_of_mem_left (mapMExcept_ok hc) hi
      obtain ⟨b1, b2, _, b4, b5⟩ := mkCalibrator_basic hmk
      have hsz : c.kfl = true → ∀ p ∈ (allFeats c).map (fun i => (i, 0)),
          (featAt c p.1).latticeSize = (featAt c 0).latticeSize := by
        intro hkfl p hp'
        obtain ⟨j, hj, rfl⟩ := List.mem_map.mp hp'
        exact sameSizes_spec (verify_kfl hv (by rw [hk]; simp) hkfl) (mem_allFeats.mp hj)
      refine ⟨cal, hcal, by rw [b1, ← hpi], by rw [b2, ← hpi]; exact Nat.one_pos, fun _ => ?_⟩
      rw [b4, b5, mkLattice_size _ _ hd hsz, ← hpi]
      exact ⟨rfl, rfl⟩
  | linear =>
    obtain ⟨hv, cals, hc, rfl⟩ := buildSpec_linear h hk
    constructor
    · intro b hb hnl
      simp only [List.mem_singleton] at hb; subst hb
      exact absurd (mkLinear_kind _ _) hnl
    · intro b hb d hd
      simp only [List.mem_singleton] at hb; subst hb
      rw [mkLinear_inputs] at hd ⊢
      have hp := getD_mem _ (default : Nat × Nat) hd
      obtain ⟨i, hi, hpi⟩ := List.mem_map.mp hp
      obtain ⟨cal, hcal, hmk⟩ := forall₂_of_mem_left (mapMExcept_ok hc) hi
      obtain ⟨b1, b2, _, _, _⟩ := mkCalibrator_basic hmk
      exact ⟨cal, hcal, by rw [b1, ← hpi], by rw [b2, ← hpi]; exact Nat.one_pos,
        fun hnl => absurd (mkLinear_kind _ _) hnl⟩
  | ensemble =>
    cases hr : c.rtl with
    | false =>
      obtain ⟨hv, cals, cb, hc, _, rfl⟩ := buildSpec_explicit h hk hr
      constructor
      · intro b hb _
        simp only [List.mem_map] at hb
        obtain ⟨row, _, rfl⟩ := hb
        rw [mkLattice_sizes_length, mkLattice_inputs]
      · intro b hb d hd
        simp only [List.mem_map] at hb
        obtain ⟨row, hrow, rfl⟩ := hb
        rw [mkLattice_inputs] at hd ⊢
        have hp := getD_mem _ (default : Nat × Nat) hd
        obtain ⟨hp1, hp2⟩ := assignUnits_spec _ _ _ row hrow _ hp
        have hused : (row.getD d default).1 ∈ sortNat (usedFeatures c.lattices) := by
          rw [mem_sortNat]; unfold usedFeatures; rw [List.mem_eraseDups]; exact hp1
        obtain ⟨cal, hcal, hmk⟩ := forall₂_of_mem_left (mapMExcept_ok hc) hused
        obtain ⟨b1, b2, _, b4, b5⟩ := mkCalibrator_basic hmk
        have hlt : ∀ p ∈ row, p.1 < c.features.length := by
          intro p hp'
          obtain ⟨l, hl, hfl⟩ := List.mem_flatten.mp (assignUnits_spec _ _ _ row hrow p hp').1
          exact verify_lattices hv hk hr l hl _ hfl
        have hsz : c.kfl = true → ∀ p ∈ row, (featAt c p.1).latticeSize = (featAt c 0).latticeSize :=
          fun hkfl p hp' => sameSizes_spec (verify_kfl hv (by rw [hk]; simp) hkfl) (hlt p hp')
        refine ⟨cal, hcal, b1, ?_, fun _ => ?_⟩
        · rw [b2]; unfold explicitUnits
          simpa using hp2
        · rw [b4, b5, mkLattice_size _ _ hd hsz]; exact ⟨rfl, rfl⟩
    | true =>
      obtain ⟨hv, cals, bs, cb, hc, hbs, _, rfl⟩ := buildSpec_rtl h hk hr
      obtain ⟨_, hfacts⟩ := rtlBlock_facts hbs (hrtl hk hr)
      constructor
      · intro b hb _; exact (hfacts b hb).2.1
      · intro b hb d hd
        obtain ⟨_, _, _, _, hax⟩ := hfacts b hb
        obtain ⟨i, hi, hin, hsize, _⟩ := hax d hd
        obtain ⟨hlt, hu⟩ := rtlFlat_mem c rule hi
        rw [← hin] at hlt hu
        obtain ⟨cal, hcal, hmk⟩ := forall₂_of_mem_left (mapMExcept_ok hc) (mem_allFeats.mpr hlt)
        obtain ⟨b1, b2, _, b4, b5⟩ := mkCalibrator_basic hmk
        refine ⟨cal, hcal, b1, by rw [b2]; exact hu, fun _ => ?_⟩
        rw [b4, b5, hsize, outputRange_toLattice, sameSizes_spec (verify_rtl hv hk hr).2 hlt]
        exact ⟨rfl, rfl⟩

theorem mkCombine_facts {c : ModelConfig} {cb : Combine} (h : mkCombine c = .ok cb) :
    cb ≠ .single ∧ (c.outCalib = false → ∀ n ub, cb = .linear n ub → (c.outMin.isSome ∨ c.outMax.isSome) →
      n = true ∧ ub = false) := by
  unfold mkCombine at h
  by_cases h1 : c.useLinearCombination = true
  · simp only [h1, if_true] at h
    by_cases h2 : (c.outCalib || c.outMin.isSome || c.outMax.isSome) = true ∧ c.useBias = true
    · rw [if_pos h2] at h; cases h
    · rw [if_neg h2] at h
      simp only [Except.ok.injEq] at h; subst h
      refine ⟨by simp, fun ho n ub e hb => ?_⟩
      simp only [Combine.linear.injEq] at e
      obtain ⟨rfl, rfl⟩ := e
      have hn : (c.outCalib || c.outMin.isSome || c.outMax.isSome) = true := by
        rcases hb with hb | hb <;> simp [hb]
      refine ⟨hn, ?_⟩
      by_contra hne
      exact h2 ⟨hn, by simpa using hne⟩
  · simp only [h1, Bool.false_eq_true, if_false, Except.ok.injEq] at h
    subst h
    exact ⟨by simp, fun _ n ub e => by cases e⟩

theorem mkOutCal_some {c : ModelConfig} {oc : OutCal} (h : mkOutCal c = some oc) :
    oc.outMin = c.outMin ∧ oc.outMax = c.outMax ∧ c.outCalib = true := by
  unfold mkOutCal at h
  split_ifs at h with h1
  simp only [Option.some.injEq] at h; subst h; exact ⟨rfl, rfl, h1⟩

theorem mkOutCal_none {c : ModelConfig} (h : mkOutCal c = none) : c.outCalib = false := by
  unfold mkOutCal at h
  split_ifs at h with h1
  simpa using h1

theorem finalRange_model {c : ModelConfig} (h : c.outCalib = false) (f : Feature) :
    outputRange (finalRange c) c f = (c.outMin, c.outMax) := by
  simp [finalRange, h, outputRange]

/-- **the layer producing the model output carries the model's output bounds** -/
theorem buildSpecWith_bounds {rule : Feature → Bool} {c : ModelConfig} {g : LayerGraph}
    (h : buildSpecWith rule c = .ok g)
    (hrtl : c.kind = .ensemble → c.rtl = true → RtlDraws rule c) : BoundsWired c.outMin c.outMax g := by
  cases hk : c.kind with
  | lattice =>
    obtain ⟨hv, cals, hc, rfl⟩ := buildSpec_lattice h hk
    refine ⟨fun oc ho => ⟨(mkOutCal_some ho).1, (mkOutCal_some ho).2.1⟩, by simp, fun _ => rfl, ?_, ?_, ?_⟩
    · intro ho b hb _
      simp only [List.mem_singleton] at hb; subst hb
      have := mkLattice_bounds c ((allFeats c).map (fun i => (i, 0)))
      rw [finalRange_model (mkOutCal_none ho)] at this
      exact this
    · intro _ b hb hl
      simp only [List.mem_singleton] at hb; subst hb
      exact absurd hl (mkLattice_kind _ _)
    · intro _ n ub e; cases e
  | linear =>
    obtain ⟨hv, cals, hc, rfl⟩ := buildSpec_linear h hk
    refine ⟨fun oc ho => ⟨(mkOutCal_some ho).1, (mkOutCal_some ho).2.1⟩, by simp, fun _ => rfl, ?_, ?_, ?_⟩
    · intro _ b hb hnl
      simp only [List.mem_singleton] at hb; subst hb
      exact absurd (mkLinear_kind _ _) hnl
    · intro ho b hb _
      simp only [List.mem_singleton] at hb; subst hb
      have hoc := mkOutCal_none ho
      constructor
      · intro d hd cal hcal hcf
        obtain ⟨i, _, hi⟩ := forall₂_of_mem_right (mapMExcept_ok hc) hcal
        obtain ⟨_, _, _, b4, b5⟩ := mkCalibrator_basic hi
        rw [b4, b5, finalRange_model hoc]; exact ⟨rfl, rfl⟩
      · intro hb
        have hw : weightedAverage c = true := by
          unfold weightedAverage; rcases hb with hb | hb <;> simp [hb]
        unfold mkLinear; simp [hw]
    · intro _ n ub e; cases e
  | ensemble =>
    cases hr : c.rtl with
    | false =>
      obtain ⟨hv, cals, cb, hc, hcb, rfl⟩ := buildSpec_explicit h hk hr
      have h2 := verify_explicit hv hk hr
      obtain ⟨hns, hcomb⟩ := mkCombine_facts hcb
      refine ⟨fun oc ho => ⟨(mkOutCal_some ho).1, (mkOutCal_some ho).2.1⟩, ?_, fun e => absurd e hns, ?_, ?_, ?_⟩
      · intro e
        have := congrArg List.length e
        simp only [List.length_map, assignUnits_length, List.length_nil] at this
        omega
      · intro ho b hb _
        simp only [List.mem_map] at hb
        obtain ⟨row, _, rfl⟩ := hb
        have := mkLattice_bounds c row
        rw [finalRange_model (mkOutCal_none ho)] at this
        exact this
      · intro _ b hb hl
        simp only [List.mem_map] at hb
        obtain ⟨row, _, rfl⟩ := hb
        exact absurd hl (mkLattice_kind _ _)
      · intro ho n ub e hb; exact hcomb (mkOutCal_none ho) n ub e hb
    | true =>
      obtain ⟨hv, cals, bs, cb, hc, hbs, hcb, rfl⟩ := buildSpec_rtl h hk hr
      obtain ⟨hlen, hfacts⟩ := rtlBlock_facts hbs (hrtl hk hr)
      have h2 := (verify_rtl hv hk hr).1
      obtain ⟨hns, hcomb⟩ := mkCombine_facts hcb
      refine ⟨fun oc ho => ⟨(mkOutCal_some ho).1, (mkOutCal_some ho).2.1⟩, ?_, fun e => absurd e hns, ?_, ?_, ?_⟩
      · intro e
        simp only at e
        rw [e] at hlen; simp at hlen; omega
      · intro ho b hb _
        obtain ⟨_, _, e1, e2, _⟩ := hfacts b hb
        rw [e1, e2, finalRange_model (mkOutCal_none ho)]; exact ⟨rfl, rfl⟩
      · intro _ b hb hl
        exact absurd hl (hfacts b hb).1
      · intro ho n ub e hb; exact hcomb (mkOutCal_none ho) n ub e hb

/-- every calibrator of a built graph comes from `mkCalibrator` -/
theorem buildSpecWith_cals {rule : Feature → Bool} {c : ModelConfig} {g : LayerGraph}
    (h : buildSpecWith rule c = .ok g) :
    ∀ cal ∈ g.calibrators, ∃ rng u, mkCalibrator c rng cal.feature u = .ok cal := by
  have key : ∀ {rng : Range} {units : Nat → Nat} {l : List Nat} {cals : List Calibrator},
      mapMExcept (fun i => mkCalibrator c rng i (units i)) l = .ok cals →
      ∀ cal ∈ cals, ∃ rng u, mkCalibrator c rng cal.feature u = .ok cal := by
    intro rng units l cals hm cal hcal
    obtain ⟨i, _, hi⟩ := forall₂_of_mem_right (mapMExcept_ok hm) hcal
    have := (mkCalibrator_basic hi).1
    exact ⟨rng, units i, by rw [this]; exact hi⟩
  cases hk : c.kind with
  | lattice => obtain ⟨_, cals, hc, rfl⟩ := buildSpec_lattice h hk; exact key (units := fun _ => 1) hc
  | linear => obtain ⟨_, cals, hc, rfl⟩ := buildSpec_linear h hk; exact key (units := fun _ => 1) hc
  | ensemble =>
    cases hr : c.rtl with
    | false => obtain ⟨_, cals, _, hc, _, rfl⟩ := buildSpec_explicit h hk hr; exact key hc
    | true => obtain ⟨_, cals, _, _, hc, _, _, rfl⟩ := buildSpec_rtl h hk hr; exact key hc

theorem mkCalibrator_missing {c : ModelConfig} {r : Range} {i u : Nat} {cal : Calibrator}
    (h : mkCalibrator c r i u = .ok cal) : cal.missing = (featAt c i).default := by
  unfold mkCalibrator at h
  simp only at h
  split_ifs at h with h0 h1
  · simp only [Except.ok.injEq] at h; subst h; rfl
  · split at h
    · cases h
    · simp only [Except.ok.injEq] at h; subst h; rfl

/-- a feature whose monotonicity is a list of category pairs and whose calibrator was built is
categorical (a numeric feature with a list-valued monotonicity raises `ValueError`) -/
theorem mkCalibrator_pairs_categorical {c : ModelConfig} {r : Range} {i u : Nat} {cal : Calibrator}
    (h : mkCalibrator c r i u = .ok cal) {ps : List (Nat × Nat)} {l : PairsKind}
    (hm : (featAt c i).mono = .pairs ps l) : (featAt c i).numBuckets ≠ 0 := by
  intro hnb
  unfold mkCalibrator at h
  simp only at h
  split_ifs at h with h0 h1
  · simp [hnb] at h1
  · simp [hm, MonoSpec.canonical] at h

theorem buildSpecWith_verify {rule : Feature → Bool} {c : ModelConfig} {g : LayerGraph}
    (h : buildSpecWith rule c = .ok g) : verifyConfig c = .ok () := by
  cases hk : c.kind with
  | lattice => exact (buildSpec_lattice h hk).1
  | linear => exact (buildSpec_linear h hk).1
  | ensemble =>
    cases hr : c.rtl with
    | false => exact (buildSpec_explicit h hk hr).1
    | true => exact (buildSpec_rtl h hk hr).1

end Tfl.Premade
