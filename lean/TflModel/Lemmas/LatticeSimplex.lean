import TflModel.Lemmas.LatticeEval
/-!
# Simplex interpolation: flat indices = multi-indices, tie-independence, all-pairs monotonicity

* `ravel` / `strides` arithmetic: the code's `offset + cumsum(sorted strides)` gathers the kernel at
  the chain of multi-indices `lower, lower + e_{σ1}, …` (`walkF_eq_walkK`, `indices_ok`);
* the walk does not depend on how ties are ordered (`walkK_tie_indep`);
* moving one residual coordinate, inside a cell across ALL ordering regions, is monotone
  (`walkK_insert_mono`), the value on a cell face agrees from both sides (`walk_face`), hence
  monotonicity along an axis across any number of cells (`walk_mono_axis`).
-/
namespace Tfl.LatticeEval
open Tfl

/-! ## multi-index bookkeeping -/

theorem ext_getD {α : Type} (dflt : α) (l l' : List α) (hl : l.length = l'.length)
    (h : ∀ i, i < l.length → l.getD i dflt = l'.getD i dflt) : l = l' := by
  apply List.ext_getElem hl
  intro i h1 h2
  have := h i h1
  simpa [List.getD_eq_getElem?_getD, h1, h2] using this

@[simp] theorem length_bump (P : Idx) (d : Nat) : (bump P d).length = P.length := by
  simp [bump, setc]
theorem coord_bump (P : Idx) (d i : Nat) :
    coord (bump P d) i = if i = d ∧ d < P.length then coord P d + 1 else coord P i := by
  unfold bump setc coord
  simp only [List.getD_eq_getElem?_getD, List.getElem?_set]
  by_cases h : d = i
  · subst h
    by_cases h2 : d < P.length
    · simp [h2]
    · simp [h2]
  · have h' : ¬ i = d := fun e => h e.symm
    simp [h, h']
theorem coord_setc (P : Idx) (d v i : Nat) :
    coord (setc P d v) i = if i = d ∧ d < P.length then v else coord P i := by
  unfold setc coord
  simp only [List.getD_eq_getElem?_getD, List.getElem?_set]
  by_cases h : d = i
  · subst h
    by_cases h2 : d < P.length
    · simp [h2]
    · simp [h2]
  · have h' : ¬ i = d := fun e => h e.symm
    simp [h, h']
theorem coord_ge_length (P : Idx) (i : Nat) (h : P.length ≤ i) : coord P i = 0 := by
  simp [coord, List.getD_eq_getElem?_getD, h]

theorem bump_comm (P : Idx) (a b : Nat) : bump (bump P a) b = bump (bump P b) a := by
  apply ext_getD 0
  · simp
  · intro i _
    have h1 := coord_bump (bump P a) b i
    have h2 := coord_bump (bump P b) a i
    have h3 := coord_bump P a
    have h4 := coord_bump P b
    simp only [coord, length_bump] at h1 h2 h3 h4
    rw [h1, h2, h3, h3, h4, h4]
    by_cases hab : a = b
    · subst hab; rfl
    · split_ifs <;> first | rfl | omega

theorem mem_allIdx_iff : ∀ (sizes : List Nat) (P : Idx),
    P ∈ allIdx sizes ↔ P.length = sizes.length ∧ ∀ i, i < sizes.length → coord P i < sizes.getD i 0
  | [], P => by
    rw [mem_allIdx_nil]
    constructor
    · rintro rfl; simp
    · rintro ⟨h, _⟩; exact List.length_eq_zero_iff.mp h
  | n :: ns, [] => by
    constructor
    · intro h; obtain ⟨i, t, h, _⟩ := allIdx_cons_exists h; cases h
    · rintro ⟨h, _⟩; simp at h
  | n :: ns, i :: t => by
    rw [mem_allIdx_cons, mem_allIdx_iff ns t]
    constructor
    · rintro ⟨hi, hl, hc⟩
      refine ⟨by simp [hl], ?_⟩
      intro k hk
      cases k with
      | zero => simpa [coord] using hi
      | succ k => simpa [coord] using hc k (by simpa using hk)
    · rintro ⟨hl, hc⟩
      refine ⟨by simpa [coord] using hc 0 (by simp), by simpa using hl, ?_⟩
      intro k hk
      simpa [coord] using hc (k + 1) (by simpa using hk)

/-! ## row-major flat index -/

/-- `Σ_d idx_d · stride_d` -/
def ravel : List Nat → Idx → Nat
  | _ :: ns, i :: t => i * prodNat ns + ravel ns t
  | _, _ => 0

theorem length_flatMap_const {α β : Type} (l : List α) (g : α → List β) (M : Nat)
    (hg : ∀ a, (g a).length = M) : (l.flatMap g).length = l.length * M := by
  induction l with
  | nil => simp
  | cons a l ih => simp [List.flatMap_cons, ih, hg, Nat.succ_mul, Nat.add_comm]

theorem length_allIdx : ∀ sizes : List Nat, (allIdx sizes).length = prodNat sizes
  | [] => rfl
  | n :: ns => by
    simp only [allIdx, prodNat]
    rw [length_flatMap_const _ _ (prodNat ns) (fun i => by simp [length_allIdx ns])]
    simp

theorem getD_flatMap_block {α β : Type} (dflt : β) (g : α → List β) (M : Nat)
    (hg : ∀ a, (g a).length = M) : ∀ (l : List α) (i j : Nat) (hi : i < l.length), j < M →
    (l.flatMap g).getD (i * M + j) dflt = (g l[i]).getD j dflt
  | [], i, _, hi, _ => by simp at hi
  | a :: l, 0, j, _, hj => by
    simp only [List.flatMap_cons, Nat.zero_mul, Nat.zero_add, List.getElem_cons_zero,
      List.getD_eq_getElem?_getD]
    rw [List.getElem?_append_left (by rw [hg]; exact hj)]
  | a :: l, i + 1, j, hi, hj => by
    have ih := getD_flatMap_block dflt g M hg l i j (by simpa using hi) hj
    simp only [List.flatMap_cons, List.getElem_cons_succ, List.getD_eq_getElem?_getD] at ih ⊢
    rw [List.getElem?_append_right (by rw [hg]; nlinarith)]
    rw [hg]
    have : (i + 1) * M + j - M = i * M + j := by
      rw [Nat.succ_mul]; omega
    rw [this, ih]

/-- the flat kernel list, read at the row-major index of a box vertex, is that vertex's value -/
theorem getD_kernel : ∀ (sizes : List Nat) (K : W) (P : Idx), P ∈ allIdx sizes →
    ravel sizes P < prodNat sizes ∧ ((allIdx sizes).map K).getD (ravel sizes P) 0 = K P
  | [], K, P, h => by
    rw [mem_allIdx_nil.mp h]; simp [ravel, prodNat, allIdx]
  | n :: ns, K, P, h => by
    obtain ⟨i, t, rfl, hi, ht⟩ := allIdx_cons_exists h
    have ih := getD_kernel ns (fun t => K (i :: t)) t ht
    constructor
    · simp only [ravel, prodNat]
      have : (i + 1) * prodNat ns ≤ n * prodNat ns := Nat.mul_le_mul_right _ hi
      rw [Nat.succ_mul] at this
      omega
    · simp only [ravel, allIdx, List.map_flatMap, List.map_map]
      have hb := getD_flatMap_block (0 : ℚ)
        (fun i => (allIdx ns).map (K ∘ fun t => i :: t)) (prodNat ns)
        (fun a => by simp [length_allIdx]) (List.range n) i (ravel ns t) (by simpa using hi) ih.1
      rw [hb]
      simp only [List.getElem_range]
      exact ih.2

theorem bump_cons_zero (i : Nat) (t : Idx) : bump (i :: t) 0 = (i + 1) :: t := by
  simp [bump, setc, coord]
theorem bump_cons_succ (i : Nat) (t : Idx) (d : Nat) : bump (i :: t) (d + 1) = i :: bump t d := by
  simp [bump, setc, coord]

/-- raising coordinate `d` by one adds `stride_d` to the flat index -/
theorem ravel_bump : ∀ (sizes : List Nat) (P : Idx) (d : Nat), P.length = sizes.length → d < sizes.length →
    ravel sizes (bump P d) = ravel sizes P + (strides sizes).getD d 0
  | [], _, _, _, h => by simp at h
  | _ :: _, [], _, h, _ => by simp at h
  | n :: ns, i :: t, 0, _, _ => by
    rw [bump_cons_zero]; simp [ravel, strides, Nat.succ_mul]; omega
  | n :: ns, i :: t, d + 1, h, hd => by
    rw [bump_cons_succ]
    have := ravel_bump ns t d (by simpa using h) (by simpa using hd)
    simp [ravel, strides, this]; omega

/-! ## `np.cumprod([1] + sizes[::-1][:-1])[::-1]` is the list of suffix products -/

theorem prodNat_append (a b : List Nat) : prodNat (a ++ b) = prodNat a * prodNat b := by
  induction a with
  | nil => simp [prodNat]
  | cons x a ih => simp [prodNat, ih, Nat.mul_assoc]
theorem prodNat_reverse (a : List Nat) : prodNat a.reverse = prodNat a := by
  induction a with
  | nil => rfl
  | cons x a ih => simp [prodNat_append, prodNat, ih, Nat.mul_comm]
theorem cumprodFrom_append (a : Nat) (l : List Nat) (m : Nat) :
    cumprodFrom a (l ++ [m]) = cumprodFrom a l ++ [a * prodNat l * m] := by
  induction l generalizing a with
  | nil => simp [cumprodFrom, prodNat]
  | cons x l ih => simp [cumprodFrom, ih, prodNat, Nat.mul_assoc]
/-- suffix products `[∏ ns, ∏ ns.tail, …, 1]` -/
def sufP : List Nat → List Nat
  | [] => [1]
  | n :: ns => prodNat (n :: ns) :: sufP ns
theorem strides_cons_eq_sufP : ∀ (n : Nat) (ns : List Nat), strides (n :: ns) = sufP ns
  | _, [] => rfl
  | n, m :: t => by
    have := strides_cons_eq_sufP m t
    simp only [strides, sufP] at this ⊢
    rw [this]
theorem cumprod_reverse (a : Nat) : ∀ ns : List Nat,
    (a :: cumprodFrom a ns.reverse).reverse = (sufP ns).map (fun v => a * v)
  | [] => by simp [cumprodFrom, sufP]
  | m :: t => by
    have ih := cumprod_reverse a t
    simp only [List.reverse_cons, cumprodFrom_append, prodNat_reverse] at ih ⊢
    simp only [List.reverse_append, List.reverse_cons, List.reverse_nil, List.nil_append,
      List.cons_append] at ih ⊢
    simp only [sufP, List.map_cons, prodNat]
    rw [← ih]
    simp [Nat.mul_comm, Nat.mul_left_comm]
/-- the literal stride computation of the simplex code equals `stride_d = ∏_{e > d} size_e` -/
theorem stridesCode_eq (sizes : List Nat) (hs : sizes ≠ []) : stridesCode sizes = strides sizes := by
  match sizes, hs with
  | n :: ns, _ =>
    rw [strides_cons_eq_sufP]
    unfold stridesCode
    rw [List.reverse_cons, List.dropLast_concat]
    have := cumprod_reverse 1 ns
    simp only [cumprodFrom, Nat.mul_one] at this ⊢
    rw [this]; simp

/-! ## the chain of simplex vertices stays in the box -/

/-- `P` is a box vertex and every coordinate listed in `S` can still be raised by one -/
def Room (sizes : List Nat) (P : Idx) (S : List Nat) : Prop :=
  P.length = sizes.length ∧
    ∀ i, i < sizes.length → coord P i + (if i ∈ S then 1 else 0) < sizes.getD i 0

theorem Room.mem {sizes : List Nat} {P : Idx} {S : List Nat} (h : Room sizes P S) : P ∈ allIdx sizes := by
  rw [mem_allIdx_iff]
  refine ⟨h.1, fun i hi => ?_⟩
  have := h.2 i hi
  split_ifs at this <;> omega
theorem Room.slack {sizes : List Nat} {P : Idx} {S : List Nat} (h : Room sizes P S) {i : Nat} (hi : i ∈ S)
    (hl : i < sizes.length) : coord P i + 1 < sizes.getD i 0 := by
  have := h.2 i hl
  rwa [if_pos hi] at this
theorem Room.bump {sizes : List Nat} {P : Idx} {S S' : List Nat} (h : Room sizes P S) {a : Nat} (ha : a ∈ S)
    (hal : a < sizes.length) (hS' : ∀ i ∈ S', i ∈ S ∧ i ≠ a) : Room sizes (bump P a) S' := by
  refine ⟨by simp [h.1], fun i hi => ?_⟩
  rw [coord_bump]
  by_cases hia : i = a
  · subst hia
    have hn : i ∉ S' := fun hm => (hS' i hm).2 rfl
    have := h.slack ha hal
    simp only [hn, if_false, h.1, hal, and_self, if_true]
    omega
  · have := h.2 i hi
    simp only [hia, false_and, if_false]
    by_cases hm : i ∈ S'
    · rw [if_pos hm]; rw [if_pos (hS' i hm).1] at this; exact this
    · rw [if_neg hm]; split_ifs at this <;> omega
theorem Room.mono {sizes : List Nat} {P : Idx} {S S' : List Nat} (h : Room sizes P S)
    (hS' : ∀ i ∈ S', i ∈ S) : Room sizes P S' := by
  refine ⟨h.1, fun i hi => ?_⟩
  have := h.2 i hi
  by_cases hm : i ∈ S'
  · rw [if_pos hm]; rw [if_pos (hS' i hm)] at this; exact this
  · rw [if_neg hm]; split_ifs at this <;> omega

/-- index bridge: along a chain that stays in the box, gathering the flat kernel at
`ravel P + stride_{σ1} + … ` reads the kernel at the multi-indices `P + e_{σ1} + …` -/
theorem walkF_eq_walkK (sizes : List Nat) (K : W) : ∀ (L : List (ℚ × Nat)) (prev : ℚ) (P : Idx),
    Room sizes P (L.map (·.2)) → (L.map (·.2)).Nodup → (∀ i ∈ L.map (·.2), i < sizes.length) →
    walkF ((allIdx sizes).map K) (strides sizes) prev ((ravel sizes P : Nat) : Int) L = walkK K prev P L
  | [], prev, P, h, _, _ => by
    simp only [walkF, walkK, Int.toNat_natCast]
    rw [(getD_kernel sizes K P h.mem).2]
  | p :: rest, prev, P, h, hnd, hlt => by
    simp only [List.map_cons, List.nodup_cons] at hnd
    have hp : p.2 < sizes.length := hlt p.2 (by simp)
    have hroom : Room sizes (bump P p.2) (rest.map (·.2)) :=
      h.bump (a := p.2) (by simp) hp (fun i hi => ⟨by simp [hi], fun e => hnd.1 (e ▸ hi)⟩)
    have ih := walkF_eq_walkK sizes K rest p.1 (bump P p.2) hroom hnd.2
      (fun i hi => hlt i (by simp [hi]))
    simp only [walkF, walkK, Int.toNat_natCast]
    rw [(getD_kernel sizes K P h.mem).2, ← ih, ravel_bump sizes P p.2 h.1 hp]
    push_cast
    rfl

/-- all gather indices of such a chain are inside the kernel -/
theorem indices_ok (sizes : List Nat) : ∀ (L : List (ℚ × Nat)) (P : Idx) (acc a : Int),
    acc + a = ((ravel sizes P : Nat) : Int) →
    Room sizes P (L.map (·.2)) → (L.map (·.2)).Nodup → (∀ i ∈ L.map (·.2), i < sizes.length) →
    ∀ i ∈ cumsumFrom acc (a :: L.map (fun p => (((strides sizes).getD p.2 0 : Nat) : Int))),
      0 ≤ i ∧ i.toNat < prodNat sizes
  | [], P, acc, a, he, h, _, _ => by
    intro i hi
    simp only [List.map_nil, cumsumFrom, List.mem_singleton] at hi
    subst hi
    rw [he]
    exact ⟨by positivity, by simpa using (getD_kernel sizes (fun _ => 0) P h.mem).1⟩
  | p :: rest, P, acc, a, he, h, hnd, hlt => by
    intro i hi
    simp only [List.map_cons, List.nodup_cons] at hnd
    simp only [List.map_cons, cumsumFrom, List.mem_cons] at hi
    have hp : p.2 < sizes.length := hlt p.2 (by simp)
    rcases hi with rfl | hi
    · rw [he]
      exact ⟨by positivity, by simpa using (getD_kernel sizes (fun _ => 0) P h.mem).1⟩
    · have hroom : Room sizes (bump P p.2) (rest.map (·.2)) :=
        h.bump (a := p.2) (by simp) hp (fun i hi => ⟨by simp [hi], fun e => hnd.1 (e ▸ hi)⟩)
      have ih := indices_ok sizes rest (bump P p.2) (acc + a) (((strides sizes).getD p.2 0 : Nat) : Int)
        (by rw [he, ravel_bump sizes P p.2 h.1 hp]; push_cast; rfl) hroom hnd.2
        (fun i hi => hlt i (by simp [hi]))
      apply ih
      simp only [cumsumFrom, List.mem_cons]
      exact hi

/-! ## the walk does not depend on how ties are ordered -/

theorem walkK_move (K : W) (p : ℚ × Nat) (B : List (ℚ × Nat)) : ∀ (A : List (ℚ × Nat)) (prev : ℚ) (P : Idx),
    (∀ a ∈ A, a.1 = p.1) → walkK K prev P (A ++ p :: B) = walkK K prev P (p :: (A ++ B))
  | [], _, _, _ => rfl
  | a :: A, prev, P, hA => by
    have ha : a.1 = p.1 := hA a (by simp)
    have ih := walkK_move K p B A a.1 (bump P a.2) (fun b hb => hA b (by simp [hb]))
    simp only [List.cons_append, walkK] at ih ⊢
    rw [ih, ha, bump_comm P a.2 p.2]
    ring

/-- tie-independence: two descending arrangements of the same (value, position) pairs give the
same walk (vertices that differ carry weight zero) -/
theorem walkK_tie_indep (K : W) : ∀ (L L' : List (ℚ × Nat)) (prev : ℚ) (P : Idx),
    SortedDesc L → SortedDesc L' → L.Perm L' → walkK K prev P L = walkK K prev P L'
  | [], L', _, _, _, _, hp => by rw [hp.symm.eq_nil]
  | p :: rest, L', prev, P, hs, hs', hp => by
    have hmem : p ∈ L' := hp.mem_iff.mp (by simp)
    obtain ⟨A, B, rfl⟩ := List.append_of_mem hmem
    unfold SortedDesc at hs hs'
    rw [List.pairwise_cons] at hs
    have hs'' := List.pairwise_append.mp hs'
    have hA : ∀ a ∈ A, a.1 = p.1 := by
      intro a ha
      have h1 : p.1 ≤ a.1 := hs''.2.2 a ha p (by simp)
      have h2 : a.1 ≤ p.1 := by
        have : a ∈ p :: rest := hp.mem_iff.mpr (by simp [ha])
        rcases List.mem_cons.mp this with rfl | h
        · exact le_rfl
        · exact hs.1 a h
      exact le_antisymm h2 h1
    rw [walkK_move K p B A prev P hA]
    simp only [walkK]
    have hperm : rest.Perm (A ++ B) := (hp.trans List.perm_middle).cons_inv
    have hsAB : SortedDesc (A ++ B) :=
      List.Pairwise.sublist ((List.Sublist.refl A).append (List.sublist_cons_self p B)) hs'
    rw [walkK_tie_indep K rest (A ++ B) p.1 (bump P p.2) hs.2 hsAB hperm]

theorem walkK_append_zero (K : W) (σ : Nat) : ∀ (O : List (ℚ × Nat)) (prev : ℚ) (Q : Idx),
    walkK K prev Q (O ++ [((0 : ℚ), σ)]) = walkK K prev Q O
  | [], prev, Q => by simp [walkK]
  | o :: O, prev, Q => by
    simp only [List.cons_append, walkK]
    rw [walkK_append_zero K σ O o.1 (bump Q o.2)]

/-! ## all-pairs monotonicity in one residual coordinate, inside a cell -/

/-- moving the residual `t` of coordinate `d` upwards — across ANY number of ordering regions —
never lowers the walk, if raising coordinate `d` never lowers `K` on the box. `O` is the sorted list
of the other coordinates; `insertDesc` places `(t, d)` into it. -/
theorem walkK_insert_mono (sizes : List Nat) (K : W) (d : Nat) (hK : MonoAx sizes d K) :
    ∀ (O : List (ℚ × Nat)) (prev : ℚ) (P : Idx) (t t' : ℚ), SortedDesc O → t ≤ t' →
    Room sizes P (d :: O.map (·.2)) → (d :: O.map (·.2)).Nodup →
    (∀ i ∈ d :: O.map (·.2), i < sizes.length) →
    walkK K prev P (insertDesc (t, d) O) ≤ walkK K prev P (insertDesc (t', d) O)
  | [], prev, P, t, t', _, htt, hroom, _, hlt => by
    have hd : d < sizes.length := hlt d (by simp)
    have hk : K P ≤ K (bump P d) := hK P hroom.mem (hroom.slack (by simp) hd)
    simp only [insertDesc, walkK]
    nlinarith [mul_nonneg (sub_nonneg.mpr htt) (sub_nonneg.mpr hk)]
  | o :: rest, prev, P, t, t', hs, htt, hroom, hnd, hlt => by
    have hd : d < sizes.length := hlt d (by simp)
    have hk : K P ≤ K (bump P d) := hK P hroom.mem (hroom.slack (by simp) hd)
    unfold SortedDesc at hs
    rw [List.pairwise_cons] at hs
    simp only [List.map_cons, List.nodup_cons, List.mem_cons, not_or] at hnd
    have ho : o.2 < sizes.length := hlt o.2 (by simp)
    have hroom' : Room sizes (bump P o.2) (d :: rest.map (·.2)) := by
      apply hroom.bump (a := o.2) (by simp) ho
      intro i hi
      rcases List.mem_cons.mp hi with rfl | hi
      · exact ⟨by simp, hnd.1.1⟩
      · exact ⟨by simp [hi], fun e => hnd.2.1 (e ▸ hi)⟩
    have hnd' : (d :: rest.map (·.2)).Nodup := by
      simp only [List.nodup_cons]; exact ⟨hnd.1.2, hnd.2.2⟩
    have hlt' : ∀ i ∈ d :: rest.map (·.2), i < sizes.length := by
      intro i hi
      rcases List.mem_cons.mp hi with rfl | hi
      · exact hd
      · exact hlt i (by simp [hi])
    have ih := fun a b hab => walkK_insert_mono sizes K d hK rest o.1 (bump P o.2) a b hs.2 hab hroom' hnd' hlt'
    by_cases h1 : t' < o.1
    · -- both go deeper
      have h0 : t < o.1 := lt_of_le_of_lt htt h1
      simp only [insertDesc, h0, h1, if_true, walkK]
      have := ih t t' htt
      linarith
    · by_cases h0 : t < o.1
      · -- `t` goes deeper, `t'` is inserted here: compare through the tie `t = o.1`
        have hle : o.1 ≤ t' := not_lt.mp h1
        have hins : insertDesc (o.1, d) rest = (o.1, d) :: rest := by
          cases rest with
          | nil => rfl
          | cons q qs =>
            have : ¬ (o.1 < q.1) := not_lt.mpr (hs.1 q (by simp))
            simp [insertDesc, this]
        have h2 := ih t o.1 h0.le
        rw [hins] at h2
        simp only [insertDesc, h0, h1, if_true, if_false, walkK] at h2 ⊢
        rw [bump_comm P d o.2]
        nlinarith [mul_nonneg (sub_nonneg.mpr hle) (sub_nonneg.mpr hk)]
      · -- both are inserted here
        simp only [insertDesc, h0, h1, if_false, walkK]
        have e1 := walkK_prev K t t' (bump (bump P d) o.2) rest
        nlinarith [mul_nonneg (sub_nonneg.mpr htt) (sub_nonneg.mpr hk)]

/-! ## canonical arrangement: the other coordinates, with `(t, d)` inserted -/

theorem zipIdx_snd_nodup (l : List ℚ) : (l.zipIdx.map (·.2)).Nodup := by
  have : (l.zipIdx.map (·.2)) = List.range' 0 l.length := List.zipIdx_map_snd 0 l
  rw [this]; exact List.nodup_range' 1
theorem zipIdx_nodup (l : List ℚ) : l.zipIdx.Nodup := List.Nodup.of_map _ (zipIdx_snd_nodup l)
theorem mem_zipIdx_snd_lt {l : List ℚ} {p : ℚ × Nat} (h : p ∈ l.zipIdx) : p.2 < l.length := by
  have := List.mem_zipIdx (x := p.1) (i := p.2) (xs := l) (k := 0) (by simpa using h)
  omega

/-- the sorted other coordinates (everything but position `d`) -/
def others (r : List ℚ) (d : Nat) : List (ℚ × Nat) :=
  (sortDesc r.zipIdx).filter (fun p => p.2 ≠ d)

theorem zipIdx_set_perm (r : List ℚ) (d : Nat) (t : ℚ) (hd : d < r.length) :
    (r.set d t).zipIdx.Perm ((t, d) :: r.zipIdx.filter (fun p => p.2 ≠ d)) := by
  rw [List.perm_ext_iff_of_nodup (zipIdx_nodup _)]
  · rintro ⟨v, i⟩
    simp only [List.mem_zipIdx_iff_getElem?, List.getElem?_set, List.mem_cons, List.mem_filter,
      Prod.mk.injEq, decide_eq_true_eq]
    by_cases h : d = i
    · subst h; simp [hd, eq_comm]
    · have h' : ¬ i = d := fun e => h e.symm
      simp [h, h']
  · rw [List.nodup_cons]
    refine ⟨?_, (zipIdx_nodup r).filter _⟩
    simp [List.mem_filter]

theorem others_sorted (r : List ℚ) (d : Nat) : SortedDesc (others r d) :=
  List.Pairwise.sublist List.filter_sublist (sortDesc_sorted _)
theorem others_perm (r : List ℚ) (d : Nat) :
    (others r d).Perm (r.zipIdx.filter (fun p => p.2 ≠ d)) := (sortDesc_perm _).filter _
theorem others_mem {r : List ℚ} {d : Nat} {p : ℚ × Nat} (h : p ∈ others r d) :
    p ∈ r.zipIdx ∧ p.2 ≠ d := by
  have := (others_perm r d).mem_iff.mp h
  simpa [List.mem_filter] using this
theorem others_nodup (r : List ℚ) (d : Nat) : (d :: (others r d).map (·.2)).Nodup := by
  rw [List.nodup_cons]
  constructor
  · intro h
    obtain ⟨p, hp, e⟩ := List.mem_map.mp h
    exact (others_mem hp).2 e
  · have h1 : ((others r d).map (·.2)).Sublist ((sortDesc r.zipIdx).map (·.2)) :=
      List.Sublist.map _ List.filter_sublist
    have h2 : ((sortDesc r.zipIdx).map (·.2)).Nodup :=
      ((sortDesc_perm r.zipIdx).map _).nodup_iff.mpr (zipIdx_snd_nodup r)
    exact h2.sublist h1
theorem others_lt (r : List ℚ) (d : Nat) (hd : d < r.length) :
    ∀ i ∈ d :: (others r d).map (·.2), i < r.length := by
  intro i hi
  rcases List.mem_cons.mp hi with rfl | hi
  · exact hd
  · obtain ⟨p, hp, rfl⟩ := List.mem_map.mp hi
    exact mem_zipIdx_snd_lt (others_mem hp).1

/-- the code's sorted list for `r[d := t]` may be replaced by the canonical arrangement -/
theorem walk_canon (K : W) (r : List ℚ) (d : Nat) (hd : d < r.length) (t prev : ℚ) (P : Idx) :
    walkK K prev P (sortDesc (r.set d t).zipIdx) = walkK K prev P (insertDesc (t, d) (others r d)) := by
  apply walkK_tie_indep K _ _ prev P (sortDesc_sorted _) (insertDesc_sorted _ _ (others_sorted r d))
  exact (sortDesc_perm _).trans ((zipIdx_set_perm r d t hd).trans
    ((List.Perm.cons _ (others_perm r d).symm).trans (insertDesc_perm _ _).symm))

/-- continuity across a cell face: residual 1 in the lower cell = residual 0 in the upper cell -/
theorem walk_face (K : W) (r : List ℚ) (d : Nat) (hd : d < r.length) (h01 : ∀ v ∈ r, 0 ≤ v ∧ v ≤ 1)
    (P : Idx) :
    walkK K 1 P (sortDesc (r.set d 1).zipIdx) = walkK K 1 (bump P d) (sortDesc (r.set d 0).zipIdx) := by
  rw [walk_canon K r d hd, walk_canon K r d hd]
  have hv : ∀ p ∈ others r d, 0 ≤ p.1 ∧ p.1 ≤ 1 := fun p hp => h01 _ (mem_zipIdx_fst (others_mem hp).1)
  have hins : insertDesc ((1 : ℚ), d) (others r d) = (1, d) :: others r d := by
    cases hO : others r d with
    | nil => rfl
    | cons q qs =>
      have : ¬ ((1 : ℚ) < q.1) := not_lt.mpr (hv q (by rw [hO]; simp)).2
      simp [insertDesc, this]
  rw [hins, walkK_one_cons]
  have hs : SortedDesc (others r d ++ [((0 : ℚ), d)]) := by
    unfold SortedDesc
    rw [List.pairwise_append]
    refine ⟨others_sorted r d, by simp, ?_⟩
    intro a ha b hb
    simp only [List.mem_singleton] at hb
    subst hb
    exact (hv a ha).1
  rw [walkK_tie_indep K _ _ 1 (bump P d) (insertDesc_sorted _ _ (others_sorted r d)) hs
    ((insertDesc_perm _ _).trans (List.perm_append_singleton _ _).symm), walkK_append_zero]

theorem bump_setc (P : Idx) (d j : Nat) (hd : d < P.length) : bump (setc P d j) d = setc P d (j + 1) := by
  have : coord (setc P d j) d = j := by rw [coord_setc]; simp [hd]
  unfold bump
  rw [this]
  simp [setc, List.set_set]

/-- all-pairs monotonicity along axis `d`, across ordering regions AND cells: the simplex walk from
lower corner `P[d := j]` with residuals `r[d := t]` is non-decreasing in `(j, t)` (lexicographic,
i.e. in the coordinate `j + t`). -/
theorem walk_mono_axis (sizes : List Nat) (K : W) (d : Nat) (hK : MonoAx sizes d K) (P : Idx) (r : List ℚ)
    (hP : P.length = sizes.length) (hr : r.length = sizes.length) (hd : d < sizes.length)
    (hroom : ∀ i, i < sizes.length → i ≠ d → coord P i + 1 < sizes.getD i 0)
    (h01 : ∀ v ∈ r, 0 ≤ v ∧ v ≤ 1) (j j' : Nat) (t t' : ℚ) (ht : 0 ≤ t ∧ t ≤ 1) (ht' : 0 ≤ t' ∧ t' ≤ 1)
    (hj' : j' + 1 < sizes.getD d 0) (hle : j < j' ∨ (j = j' ∧ t ≤ t')) :
    walkK K 1 (setc P d j) (sortDesc (r.set d t).zipIdx)
      ≤ walkK K 1 (setc P d j') (sortDesc (r.set d t').zipIdx) := by
  have hdr : d < r.length := by rw [hr]; exact hd
  have hdP : d < P.length := by rw [hP]; exact hd
  -- inside one cell
  have within : ∀ (k : Nat) (a b : ℚ), k + 1 < sizes.getD d 0 → a ≤ b →
      walkK K 1 (setc P d k) (sortDesc (r.set d a).zipIdx)
        ≤ walkK K 1 (setc P d k) (sortDesc (r.set d b).zipIdx) := by
    intro k a b hk hab
    rw [walk_canon K r d hdr, walk_canon K r d hdr]
    apply walkK_insert_mono sizes K d hK _ 1 _ a b (others_sorted r d) hab _ (others_nodup r d)
    · intro i hi; rw [← hr]; exact others_lt r d hdr i hi
    · refine ⟨by simp [setc, hP], fun i hi => ?_⟩
      rw [coord_setc]
      by_cases hid : i = d
      · subst hid; simp only [hdP, and_self, if_true]; split_ifs <;> omega
      · have := hroom i hi hid
        simp only [hid, false_and, if_false]; split_ifs <;> omega
  -- across the face between cell k and cell k+1
  have face : ∀ k : Nat, walkK K 1 (setc P d k) (sortDesc (r.set d 1).zipIdx)
      = walkK K 1 (setc P d (k + 1)) (sortDesc (r.set d 0).zipIdx) := by
    intro k
    rw [walk_face K r d hdr h01, bump_setc P d k hdP]
  have up : ∀ m : Nat, j + m + 1 < sizes.getD d 0 →
      walkK K 1 (setc P d j) (sortDesc (r.set d t).zipIdx)
        ≤ walkK K 1 (setc P d (j + m + 1)) (sortDesc (r.set d 0).zipIdx) := by
    intro m
    induction m with
    | zero =>
      intro hm
      rw [← face j]
      exact within j t 1 (by omega) ht.2
    | succ m ih =>
      intro hm
      have h1 := ih (by omega)
      have h2 := within (j + m + 1) 0 1 (by omega) (by norm_num)
      rw [face (j + m + 1)] at h2
      exact le_trans h1 h2
  rcases hle with hlt | ⟨rfl, htt⟩
  · obtain ⟨m, rfl⟩ : ∃ m, j' = j + m + 1 := ⟨j' - j - 1, by omega⟩
    exact le_trans (up m (by omega)) (within (j + m + 1) 0 t' hj' ht'.1)
  · exact within j t t' hj' htt

/-! ## the cell the simplex code selects: lower corner, residuals, offset -/

/-- lower-corner coordinate the code computes for one dimension (0 for `2^d` lattices) -/
def cellCoord (two : Bool) (n : Nat) (y : ℚ) : Nat :=
  if two then 0 else (min (truncToInt y) ((n : Int) - 2)).toNat
/-- lower corner of the selected cell as a multi-index -/
def cellIdx (sizes : List Nat) (y : List ℚ) : Idx :=
  if allTwo sizes then sizes.map (fun _ => 0) else (lowerCorner sizes y).map Int.toNat

theorem getD_zipWith' {α β γ : Type} (f : α → β → γ) (a : List α) (b : List β) (i : Nat) (da : α) (db : β)
    (dc : γ) (ha : i < a.length) (hb : i < b.length) :
    (List.zipWith f a b).getD i dc = f (a.getD i da) (b.getD i db) := by
  simp [List.getD_eq_getElem?_getD, ha, hb]
theorem getD_map' {α β : Type} (f : α → β) (l : List α) (i : Nat) (d : α) :
    (l.map f).getD i (f d) = f (l.getD i d) := by
  simp only [List.getD_eq_getElem?_getD, List.getElem?_map]
  cases l[i]? <;> rfl

theorem length_lowerCorner (sizes : List Nat) (y : List ℚ) (h : y.length = sizes.length) :
    (lowerCorner sizes y).length = sizes.length := by simp [lowerCorner, h]
theorem length_residual (y : List ℚ) (l : List Int) (h : l.length = y.length) :
    (residual y l).length = y.length := by simp [residual, h]

theorem cellIdx_length (sizes : List Nat) (y : List ℚ) (h : y.length = sizes.length) :
    (cellIdx sizes y).length = sizes.length := by
  unfold cellIdx; split_ifs
  · simp
  · simp [length_lowerCorner sizes y h]

theorem coord_cellIdx (sizes : List Nat) (y : List ℚ) (h : y.length = sizes.length) (i : Nat)
    (hi : i < sizes.length) :
    coord (cellIdx sizes y) i = cellCoord (allTwo sizes) (sizes.getD i 0) (y.getD i 0) := by
  unfold cellIdx cellCoord coord
  split_ifs with h2
  · have := getD_map' (fun _ : Nat => (0 : Nat)) sizes i 0
    simpa using this
  · have h1 := getD_map' Int.toNat (lowerCorner sizes y) i 0
    simp only [Int.toNat_zero] at h1
    rw [h1]
    unfold lowerCorner
    rw [getD_zipWith' _ y sizes i 0 0 0 (by rw [h]; exact hi) hi]

theorem simplexSplit_resid_length (sizes : List Nat) (y : List ℚ) (h : y.length = sizes.length) :
    (simplexSplit sizes y).2.length = sizes.length := by
  unfold simplexSplit; split_ifs
  · exact h
  · simp [length_residual y _ (by rw [length_lowerCorner sizes y h, h]), h]

theorem cellCoord_spec (two : Bool) (n : Nat) (y : ℚ) (hn : 2 ≤ n) (h0 : 0 ≤ y) (h1 : y ≤ (n : ℚ) - 1) :
    cellCoord two n y + 2 ≤ n ∧
      (two = false → ((cellCoord two n y : Nat) : Int) = min (truncToInt y) ((n : Int) - 2)) := by
  unfold cellCoord
  cases two with
  | true => simp; exact hn
  | false =>
    have hb := resid_bounds n y hn h0 h1
    simp only at hb
    simp only [Bool.false_eq_true, if_false]
    constructor
    · have := hb.2.1; omega
    · intro _; exact Int.toNat_of_nonneg hb.1

theorem simplexSplit_resid_getD (sizes : List Nat) (y : List ℚ) (hs : ∀ n ∈ sizes, 2 ≤ n)
    (hy : InRange sizes y) (i : Nat) (hi : i < sizes.length) :
    (simplexSplit sizes y).2.getD i 0 = y.getD i 0 - (coord (cellIdx sizes y) i : ℚ) := by
  have hl := hy.length_eq
  rw [coord_cellIdx sizes y hl i hi]
  have hn : 2 ≤ sizes.getD i 0 := by
    have : sizes.getD i 0 = sizes[i] := by simp [List.getD_eq_getElem?_getD, hi]
    rw [this]; exact hs _ (List.getElem_mem hi)
  have hr := inRange_getD sizes y i hy hi
  unfold simplexSplit
  split_ifs with h2
  · simp [cellCoord, h2]
  · have h2' : allTwo sizes = false := by simpa using h2
    have hc := (cellCoord_spec false (sizes.getD i 0) (y.getD i 0) hn hr.1 hr.2).2 rfl
    simp only [h2']
    unfold residual
    rw [getD_zipWith' _ y (lowerCorner sizes y) i 0 0 0 (by rw [hl]; exact hi)
      (by rw [length_lowerCorner sizes y hl]; exact hi)]
    unfold lowerCorner
    rw [getD_zipWith' _ y sizes i 0 0 0 (by rw [hl]; exact hi) hi, ← hc]
    push_cast
    rfl

theorem ravel_zeros : ∀ sizes : List Nat, ravel sizes (sizes.map (fun _ => 0)) = 0
  | [] => rfl
  | n :: ns => by simp only [List.map_cons, ravel, ravel_zeros ns]; omega

theorem lowerOffset_eq_ravel : ∀ (sizes : List Nat) (y : List ℚ), (∀ n ∈ sizes, 2 ≤ n) → InRange sizes y →
    lowerOffset (strides sizes) (lowerCorner sizes y)
      = ((ravel sizes ((lowerCorner sizes y).map Int.toNat) : Nat) : Int)
  | [], [], _, _ => by simp [lowerOffset, lowerCorner, strides, ravel, isum]
  | [], _ :: _, _, h => by simp [InRange] at h
  | _ :: _, [], _, h => by simp [InRange] at h
  | n :: ns, yd :: ys, hs, h => by
    have ih := lowerOffset_eq_ravel ns ys (fun m hm => hs m (by simp [hm])) h.2
    have hb := resid_bounds n yd (hs n (by simp)) h.1.1 h.1.2
    simp only at hb
    simp only [lowerOffset, lowerCorner, strides, List.zipWith_cons_cons, isum, List.map_cons, ravel] at ih ⊢
    rw [ih]
    push_cast
    rw [Int.toNat_of_nonneg hb.1]

/-- the offset the code gathers from is the row-major index of the lower corner -/
theorem simplexSplit_offset (sizes : List Nat) (y : List ℚ) (hne : sizes ≠ []) (hs : ∀ n ∈ sizes, 2 ≤ n)
    (hy : InRange sizes y) : (simplexSplit sizes y).1 = ((ravel sizes (cellIdx sizes y) : Nat) : Int) := by
  unfold simplexSplit cellIdx
  split_ifs with h2
  · simp only [ravel_zeros]; rfl
  · simp only
    rw [stridesCode_eq sizes hne]
    exact lowerOffset_eq_ravel sizes y hs hy

/-- every coordinate of the selected lower corner leaves room for one step -/
theorem cellIdx_room (sizes : List Nat) (y : List ℚ) (hs : ∀ n ∈ sizes, 2 ≤ n) (hy : InRange sizes y)
    (i : Nat) (hi : i < sizes.length) : coord (cellIdx sizes y) i + 2 ≤ sizes.getD i 0 := by
  rw [coord_cellIdx sizes y hy.length_eq i hi]
  have hn : 2 ≤ sizes.getD i 0 := by
    have : sizes.getD i 0 = sizes[i] := by simp [List.getD_eq_getElem?_getD, hi]
    rw [this]; exact hs _ (List.getElem_mem hi)
  have hr := inRange_getD sizes y i hy hi
  exact (cellCoord_spec _ _ _ hn hr.1 hr.2).1

theorem truncToInt_mono {a b : ℚ} (h0 : 0 ≤ a) (h : a ≤ b) : truncToInt a ≤ truncToInt b := by
  rw [truncToInt_of_nonneg h0, truncToInt_of_nonneg (le_trans h0 h)]
  exact Rat.le_floor_iff.mpr (le_trans (Rat.floor_le a) h)
theorem cellCoord_mono (two : Bool) (n : Nat) {a b : ℚ} (h0 : 0 ≤ a) (h : a ≤ b) :
    cellCoord two n a ≤ cellCoord two n b := by
  unfold cellCoord
  cases two with
  | true => simp
  | false =>
    simp only [Bool.false_eq_true, if_false]
    exact Int.toNat_le_toNat (min_le_min (truncToInt_mono h0 h) le_rfl)

/-! ## vertices and axis-parallel edges: simplex = hypercube -/

theorem getD_set' {α : Type} (l : List α) (d i : Nat) (v dflt : α) :
    (l.set d v).getD i dflt = if i = d ∧ d < l.length then v else l.getD i dflt := by
  simp only [List.getD_eq_getElem?_getD, List.getElem?_set]
  by_cases h : d = i
  · subst h
    by_cases h2 : d < l.length
    · simp [h2]
    · simp [h2]
  · have h' : ¬ i = d := fun e => h e.symm
    simp [h, h']

@[simp] theorem length_bumpAll : ∀ (S : List Nat) (P : Idx), (bumpAll P S).length = P.length
  | [], _ => rfl
  | a :: S, P => by simp [bumpAll, length_bumpAll S]
theorem coord_bumpAll : ∀ (S : List Nat) (P : Idx) (i : Nat), S.Nodup → (∀ a ∈ S, a < P.length) →
    coord (bumpAll P S) i = coord P i + (if i ∈ S then 1 else 0)
  | [], _, _, _, _ => by simp [bumpAll]
  | a :: S, P, i, hnd, hlt => by
    rw [List.nodup_cons] at hnd
    have ih := coord_bumpAll S (bump P a) i hnd.2 (fun b hb => by simpa using hlt b (by simp [hb]))
    simp only [bumpAll]
    rw [ih, coord_bump]
    have ha : a < P.length := hlt a (by simp)
    by_cases hia : i = a
    · subst hia
      simp [hnd.1, ha]
    · simp [hia]

/-- the vertex `P + Σ_{i ≠ d, r_i = 1} e_i` -/
def raise (P : Idx) (r : List ℚ) (d : Nat) : Idx :=
  (List.range P.length).map (fun i => coord P i + (if i ≠ d ∧ r.getD i 0 = 1 then 1 else 0))
@[simp] theorem length_raise (P : Idx) (r : List ℚ) (d : Nat) : (raise P r d).length = P.length := by
  simp [raise]
theorem coord_raise (P : Idx) (r : List ℚ) (d i : Nat) (hi : i < P.length) :
    coord (raise P r d) i = coord P i + (if i ≠ d ∧ r.getD i 0 = 1 then 1 else 0) := by
  simp [raise, coord, List.getD_eq_getElem?_getD, hi]

theorem mem_sorted_iff (r : List ℚ) (p : ℚ × Nat) :
    p ∈ sortDesc r.zipIdx ↔ r[p.2]? = some p.1 := by
  rw [(sortDesc_perm _).mem_iff, List.mem_zipIdx_iff_getElem?]

/-- positions of the residuals equal to 1, as the walk meets them -/
def onesPos (r : List ℚ) : List Nat := ((sortDesc r.zipIdx).filter (fun p => p.1 = 1)).map (·.2)
theorem sorted_snd_nodup (r : List ℚ) : ((sortDesc r.zipIdx).map (·.2)).Nodup :=
  ((sortDesc_perm r.zipIdx).map _).nodup_iff.mpr (zipIdx_snd_nodup r)
theorem onesPos_nodup (r : List ℚ) : (onesPos r).Nodup :=
  (sorted_snd_nodup r).sublist (List.Sublist.map _ List.filter_sublist)
theorem mem_onesPos (r : List ℚ) (i : Nat) : i ∈ onesPos r ↔ i < r.length ∧ r.getD i 0 = 1 := by
  unfold onesPos
  simp only [List.mem_map, List.mem_filter, decide_eq_true_eq, mem_sorted_iff]
  constructor
  · rintro ⟨p, ⟨hp, h1⟩, rfl⟩
    have hlt : p.2 < r.length := by
      by_contra hc
      rw [List.getElem?_eq_none (by omega)] at hp
      cases hp
    exact ⟨hlt, by simp [List.getD_eq_getElem?_getD, hp, h1]⟩
  · rintro ⟨hlt, h1⟩
    refine ⟨(1, i), ⟨?_, rfl⟩, rfl⟩
    have : r.getD i 0 = r[i] := by simp [List.getD_eq_getElem?_getD, hlt]
    simp only [List.getElem?_eq_getElem hlt, Option.some.injEq]
    rw [← this, h1]

theorem bumpAll_ones_of_ne (P : Idx) (r : List ℚ) (d : Nat) (hl : r.length = P.length)
    (hne : r.getD d 0 ≠ 1) : bumpAll P (onesPos r) = raise P r d := by
  apply ext_getD 0
  · simp
  · intro i hi
    have hi' : i < P.length := by simpa using hi
    have h1 := coord_bumpAll (onesPos r) P i (onesPos_nodup r)
      (fun a ha => by rw [← hl]; exact ((mem_onesPos r a).mp ha).1)
    have h2 := coord_raise P r d i hi'
    simp only [coord] at h1 h2
    rw [h1, h2]
    congr 1
    have hiff : i ∈ onesPos r ↔ (i ≠ d ∧ r.getD i 0 = 1) := by
      rw [mem_onesPos]
      constructor
      · rintro ⟨_, h⟩; exact ⟨fun e => hne (e ▸ h), h⟩
      · rintro ⟨_, h⟩; exact ⟨by rw [hl]; exact hi', h⟩
    exact if_congr hiff rfl rfl

theorem bumpAll_ones_of_eq (P : Idx) (r : List ℚ) (d : Nat) (hl : r.length = P.length) (hd : d < P.length)
    (he : r.getD d 0 = 1) : bumpAll P (onesPos r) = bump (raise P r d) d := by
  apply ext_getD 0
  · simp
  · intro i hi
    have hi' : i < P.length := by simpa using hi
    have h1 := coord_bumpAll (onesPos r) P i (onesPos_nodup r)
      (fun a ha => by rw [← hl]; exact ((mem_onesPos r a).mp ha).1)
    have h2 := coord_bump (raise P r d) d i
    have h3 := coord_raise P r d i hi'
    simp only [coord, length_raise] at h1 h2 h3
    rw [h1, h2]
    by_cases hid : i = d
    · subst hid
      have hm : i ∈ onesPos r := (mem_onesPos r i).mpr ⟨by rw [hl]; exact hi', he⟩
      rw [if_pos hm, if_pos ⟨rfl, hd⟩, h3, if_neg (fun h => h.1 rfl)]
    · rw [if_neg (show ¬(i = d ∧ d < List.length P) from fun h => hid h.1), h3]
      congr 1
      have hiff : i ∈ onesPos r ↔ (i ≠ d ∧ r.getD i 0 = 1) := by
        rw [mem_onesPos]
        constructor
        · rintro ⟨_, h⟩; exact ⟨hid, h⟩
        · rintro ⟨_, h⟩; exact ⟨by rw [hl]; exact hi', h⟩
      exact if_congr hiff rfl rfl

/-- simplex walk at a point whose residuals are 0/1 except (possibly) coordinate `d`: the chord
between the two neighbouring vertices along `d` (endpoints `t = 0, 1` included) -/
theorem simplex_edge_walk (K : W) (P : Idx) (r : List ℚ) (d : Nat) (hl : r.length = P.length)
    (hd : d < P.length) (h01 : ∀ i, i < P.length → i ≠ d → r.getD i 0 = 0 ∨ r.getD i 0 = 1)
    (ht : 0 ≤ r.getD d 0 ∧ r.getD d 0 ≤ 1) :
    walkK K 1 P (sortDesc r.zipIdx)
      = (1 - r.getD d 0) * K (raise P r d) + r.getD d 0 * K (bump (raise P r d) d) := by
  have hs := sortDesc_sorted r.zipIdx
  have hval : ∀ p ∈ sortDesc r.zipIdx, p.2 < r.length ∧ p.1 = r.getD p.2 0 := by
    intro p hp
    have h := (mem_sorted_iff r p).mp hp
    have hlt : p.2 < r.length := by
      by_contra hc
      rw [List.getElem?_eq_none (by omega)] at h
      cases h
    exact ⟨hlt, by simp [List.getD_eq_getElem?_getD, h]⟩
  have hdr : d < r.length := by rw [hl]; exact hd
  rcases eq_or_lt_of_le ht.1 with h0 | h0
  · -- t = 0 : a vertex
    have hall : ∀ p ∈ sortDesc r.zipIdx, p.1 = 0 ∨ p.1 = 1 := by
      intro p hp
      obtain ⟨hlt, hv⟩ := hval p hp
      by_cases hpd : p.2 = d
      · left; rw [hv, hpd, ← h0]
      · rw [hv]; exact h01 p.2 (by rw [← hl]; exact hlt) hpd
    have := walkK_vertex K P _ hs hall
    rw [this]
    change K (bumpAll P (onesPos r)) = _
    rw [bumpAll_ones_of_ne P r d hl (by rw [← h0]; norm_num), ← h0]; ring
  · rcases eq_or_lt_of_le ht.2 with h1 | h1
    · -- t = 1 : a vertex
      have hall : ∀ p ∈ sortDesc r.zipIdx, p.1 = 0 ∨ p.1 = 1 := by
        intro p hp
        obtain ⟨hlt, hv⟩ := hval p hp
        by_cases hpd : p.2 = d
        · right; rw [hv, hpd, h1]
        · rw [hv]; exact h01 p.2 (by rw [← hl]; exact hlt) hpd
      have := walkK_vertex K P _ hs hall
      rw [this]
      change K (bumpAll P (onesPos r)) = _
      rw [bumpAll_ones_of_eq P r d hl hd h1, h1]; ring
    · -- 0 < t < 1 : inside the edge
      have hmem : (r.getD d 0, d) ∈ sortDesc r.zipIdx := by
        rw [mem_sorted_iff]
        simp [List.getD_eq_getElem?_getD, hdr]
      have h01' : ∀ p ∈ sortDesc r.zipIdx, p.2 ≠ d → p.1 = 0 ∨ p.1 = 1 := by
        intro p hp hpd
        obtain ⟨hlt, hv⟩ := hval p hp
        rw [hv]; exact h01 p.2 (by rw [← hl]; exact hlt) hpd
      have := walkK_edge K P _ d (r.getD d 0) hs (sorted_snd_nodup r) hmem h0 h1 h01'
      rw [this]
      change (1 - r.getD d 0) * K (bumpAll P (onesPos r)) + r.getD d 0 * K (bump (bumpAll P (onesPos r)) d) = _
      rw [bumpAll_ones_of_ne P r d hl (ne_of_lt h1)]

/-- the multilinear interpolant at the same point: the same chord -/
theorem hyper_edge_value (sizes : List Nat) (K : W) (x : List ℚ) (P : Idx) (r : List ℚ) (d : Nat)
    (hx : x.length = sizes.length) (hP : P.length = sizes.length) (hd : d < sizes.length)
    (hxr : ∀ i, i < sizes.length → x.getD i 0 = (coord P i : ℚ) + r.getD i 0)
    (hroom : ∀ i, i < sizes.length → coord P i + 2 ≤ sizes.getD i 0)
    (h01 : ∀ i, i < sizes.length → i ≠ d → r.getD i 0 = 0 ∨ r.getD i 0 = 1)
    (ht : 0 ≤ r.getD d 0 ∧ r.getD d 0 ≤ 1) :
    evalRec sizes x K = (1 - r.getD d 0) * K (raise P r d) + r.getD d 0 * K (bump (raise P r d) d) := by
  have hdP : d < P.length := by rw [hP]; exact hd
  have hcr : ∀ i, i < sizes.length → coord (raise P r d) i
      = coord P i + (if i ≠ d ∧ r.getD i 0 = 1 then 1 else 0) :=
    fun i hi => coord_raise P r d i (by rw [hP]; exact hi)
  have hxd := hxr d hd
  have hcell := evalRec_cell sizes d x K (coord P d) hx (by have := hroom d hd; omega)
    (by rw [hxd]; linarith [ht.1]) (by rw [hxd]; linarith [ht.2])
  have hmem0 : raise P r d ∈ allIdx sizes := by
    rw [mem_allIdx_iff]
    refine ⟨by simp [hP], fun i hi => ?_⟩
    rw [hcr i hi]
    have := hroom i hi
    split_ifs <;> omega
  have hmem1 : bump (raise P r d) d ∈ allIdx sizes := by
    rw [mem_allIdx_iff]
    refine ⟨by simp [hP], fun i hi => ?_⟩
    rw [coord_bump]
    have := hroom i hi
    by_cases hid : i = d
    · subst hid
      rw [if_pos ⟨rfl, by simpa using hdP⟩, hcr i hi, if_neg (fun h => h.1 rfl)]; omega
    · rw [if_neg (fun h => hid h.1), hcr i hi]; split_ifs <;> omega
  have hcast : ∀ (Q : Idx) (i : Nat), (Q.map (fun (v : Nat) => (v : ℚ))).getD i 0 = ((coord Q i : Nat) : ℚ) := by
    intro Q i
    have := getD_map' (fun v : Nat => (v : ℚ)) Q i 0
    simpa [coord] using this
  have e0 : x.set d ((coord P d : Nat) : ℚ) = (raise P r d).map (fun (v : Nat) => (v : ℚ)) := by
    apply ext_getD 0
    · simp [hx, hP]
    · intro i hi
      have hi' : i < sizes.length := by simpa [hx] using hi
      rw [getD_set', hcast, hcr i hi']
      by_cases hid : i = d
      · subst hid
        rw [if_pos ⟨rfl, by rw [hx]; exact hi'⟩, if_neg (fun h => h.1 rfl)]; simp
      · rw [if_neg (fun h => hid h.1), hxr i hi']
        rcases h01 i hi' hid with h | h
        · rw [if_neg (fun hh => by rw [h] at hh; exact absurd hh.2 (by norm_num)), h]; simp
        · rw [if_pos ⟨hid, h⟩, h]; push_cast; ring
  have e1 : x.set d (((coord P d : Nat) : ℚ) + 1) = (bump (raise P r d) d).map (fun (v : Nat) => (v : ℚ)) := by
    apply ext_getD 0
    · simp [hx, hP]
    · intro i hi
      have hi' : i < sizes.length := by simpa [hx] using hi
      rw [getD_set', hcast, coord_bump]
      by_cases hid : i = d
      · subst hid
        rw [if_pos ⟨rfl, by rw [hx]; exact hi'⟩, if_pos ⟨rfl, by simpa using hdP⟩, hcr i hi',
          if_neg (fun h => h.1 rfl)]
        push_cast; ring
      · rw [if_neg (fun h => hid h.1), if_neg (fun h => hid h.1), hcr i hi', hxr i hi']
        rcases h01 i hi' hid with h | h
        · rw [if_neg (fun hh => by rw [h] at hh; exact absurd hh.2 (by norm_num)), h]; simp
        · rw [if_pos ⟨hid, h⟩, h]; push_cast; ring
  rw [hcell, e0, e1]
  have v0 := evalRec_vertex sizes _ K hmem0
  have v1 := evalRec_vertex sizes _ K hmem1
  rw [v0, v1, hxd]
  ring

theorem getD_castIdx (Q : Idx) (i : Nat) :
    (Q.map (fun (v : Nat) => (v : ℚ))).getD i 0 = ((coord Q i : Nat) : ℚ) := by
  have := getD_map' (fun v : Nat => (v : ℚ)) Q i 0
  simpa [coord] using this

theorem getD_mem_of_lt (l : List ℚ) (i : Nat) (h : i < l.length) : l.getD i 0 ∈ l := by
  have : l.getD i 0 = l[i] := by simp [List.getD_eq_getElem?_getD, h]
  rw [this]; exact List.getElem_mem h

theorem set_getD_self (l : List ℚ) (d : Nat) : l.set d (l.getD d 0) = l := by
  apply ext_getD 0
  · simp
  · intro i _
    rw [getD_set']
    split_ifs with h
    · rw [h.1]
    · rfl
theorem setc_coord_self (P : Idx) (d : Nat) : setc P d (coord P d) = P := by
  apply ext_getD 0
  · simp [setc]
  · intro i _
    have := coord_setc P d (coord P d) i
    simp only [coord] at this ⊢
    rw [this]
    split_ifs with h
    · rw [h.1]
    · rfl

/-- all-pairs monotonicity of the simplex walk at the level of the cells the code selects: two
in-range points that differ only in coordinate `d` (`y_d ≤ w`, any distance: other ordering
regions, other cells) -/
theorem simplex_cell_mono (sizes : List Nat) (K : W) (d : Nat) (hs : ∀ n ∈ sizes, 2 ≤ n)
    (hd : d < sizes.length) (hm : MonoAx sizes d K) (y : List ℚ) (w : ℚ) (hy : InRange sizes y)
    (hy' : InRange sizes (y.set d w)) (hw : y.getD d 0 ≤ w) :
    walkK K 1 (cellIdx sizes y) (sortDesc (simplexSplit sizes y).2.zipIdx)
      ≤ walkK K 1 (cellIdx sizes (y.set d w)) (sortDesc (simplexSplit sizes (y.set d w)).2.zipIdx) := by
  have hl := hy.length_eq
  have hl' := hy'.length_eq
  have hdy : d < y.length := by rw [hl]; exact hd
  have hyd : (y.set d w).getD d 0 = w := by rw [getD_set']; simp [hdy]
  have hyi : ∀ i, i ≠ d → (y.set d w).getD i 0 = y.getD i 0 := by
    intro i hi; rw [getD_set']; simp [hi]
  -- abbreviations
  have hPl := cellIdx_length sizes y hl
  have hPl' := cellIdx_length sizes (y.set d w) hl'
  have hrl := simplexSplit_resid_length sizes y hl
  have hrl' := simplexSplit_resid_length sizes (y.set d w) hl'
  have hc := fun i hi => coord_cellIdx sizes y hl i hi
  have hc' := fun i hi => coord_cellIdx sizes (y.set d w) hl' i hi
  have hr := fun i hi => simplexSplit_resid_getD sizes y hs hy i hi
  have hr' := fun i hi => simplexSplit_resid_getD sizes (y.set d w) hs hy' i hi
  -- the upper point's cell and residuals differ only in coordinate d
  have eP : cellIdx sizes (y.set d w) = setc (cellIdx sizes y) d (coord (cellIdx sizes (y.set d w)) d) := by
    apply ext_getD 0
    · simp [setc, hPl, hPl']
    · intro i hi
      have hi' : i < sizes.length := by rw [← hPl']; exact hi
      have h1 := coord_setc (cellIdx sizes y) d (coord (cellIdx sizes (y.set d w)) d) i
      simp only [coord] at h1 ⊢
      rw [h1]
      by_cases hid : i = d
      · subst hid; rw [if_pos ⟨rfl, by rw [hPl]; exact hi'⟩]
      · rw [if_neg (fun h => hid h.1)]
        have a := hc i hi'
        have b := hc' i hi'
        simp only [coord] at a b
        rw [a, b, hyi i hid]
  have eR : (simplexSplit sizes (y.set d w)).2
      = (simplexSplit sizes y).2.set d ((simplexSplit sizes (y.set d w)).2.getD d 0) := by
    apply ext_getD 0
    · simp [hrl, hrl']
    · intro i hi
      have hi' : i < sizes.length := by rw [← hrl']; exact hi
      rw [getD_set']
      by_cases hid : i = d
      · subst hid; rw [if_pos ⟨rfl, by rw [hrl]; exact hi'⟩]
      · rw [if_neg (fun h => hid h.1), hr i hi', hr' i hi', hyi i hid, hc i hi', hc' i hi', hyi i hid]
  have h01 : ∀ v ∈ (simplexSplit sizes y).2, 0 ≤ v ∧ v ≤ 1 := simplexSplit_resid_mem sizes y hs hy
  have h01' := simplexSplit_resid_mem sizes (y.set d w) hs hy'
  have ht := h01 _ (getD_mem_of_lt _ d (by rw [hrl]; exact hd))
  have ht' := h01' _ (getD_mem_of_lt _ d (by rw [hrl']; exact hd))
  have hy0 := (inRange_getD sizes y d hy hd).1
  have key := walk_mono_axis sizes K d hm (cellIdx sizes y) (simplexSplit sizes y).2 hPl hrl hd
    (fun i hi _ => by have := cellIdx_room sizes y hs hy i hi; omega) h01
    (coord (cellIdx sizes y) d) (coord (cellIdx sizes (y.set d w)) d)
    ((simplexSplit sizes y).2.getD d 0) ((simplexSplit sizes (y.set d w)).2.getD d 0) ht ht'
    (by have := cellIdx_room sizes (y.set d w) hs hy' d hd; omega)
    (by
      have hj : coord (cellIdx sizes y) d ≤ coord (cellIdx sizes (y.set d w)) d := by
        rw [hc d hd, hc' d hd, hyd]; exact cellCoord_mono _ _ hy0 hw
      rcases Nat.lt_or_eq_of_le hj with h | h
      · exact Or.inl h
      · refine Or.inr ⟨h, ?_⟩
        rw [hr d hd, hr' d hd, hyd, h]; linarith)
  rw [setc_coord_self, set_getD_self, ← eP, ← eR] at key
  exact key

/-- the simplex walk is a convex combination (times `prev`) of kernel values at box vertices -/
theorem walkK_bounds (sizes : List Nat) (K : W) (lo hi : ℚ)
    (hK : ∀ idx ∈ allIdx sizes, lo ≤ K idx ∧ K idx ≤ hi) :
    ∀ (L : List (ℚ × Nat)) (prev : ℚ) (P : Idx), Room sizes P (L.map (·.2)) → (L.map (·.2)).Nodup →
    (∀ i ∈ L.map (·.2), i < sizes.length) → SortedDesc L → (∀ p ∈ L, p.1 ≤ prev) → (∀ p ∈ L, 0 ≤ p.1) →
    0 ≤ prev → lo * prev ≤ walkK K prev P L ∧ walkK K prev P L ≤ hi * prev
  | [], prev, P, h, _, _, _, _, _, h0 => by
    have := hK P h.mem
    simp only [walkK]
    constructor <;> nlinarith [this.1, this.2]
  | p :: rest, prev, P, h, hnd, hlt, hs, hle, hge, h0 => by
    simp only [List.map_cons, List.nodup_cons] at hnd
    unfold SortedDesc at hs
    rw [List.pairwise_cons] at hs
    have hp : p.2 < sizes.length := hlt p.2 (by simp)
    have hroom : Room sizes (bump P p.2) (rest.map (·.2)) :=
      h.bump (a := p.2) (by simp) hp (fun i hi => ⟨by simp [hi], fun e => hnd.1 (e ▸ hi)⟩)
    have ih := walkK_bounds sizes K lo hi hK rest p.1 (bump P p.2) hroom hnd.2
      (fun i hi => hlt i (by simp [hi])) hs.2 (fun q hq => hs.1 q hq) (fun q hq => hge q (by simp [hq]))
      (hge p (by simp))
    have hk := hK P h.mem
    have h1 : 0 ≤ prev - p.1 := sub_nonneg.mpr (hle p (by simp))
    simp only [walkK]
    constructor <;> nlinarith [ih.1, ih.2, hk.1, hk.2]

end Tfl.LatticeEval
