import TflModel.Lemmas.Verify
/-!
# the direction bookkeeping of the trust loop of `lattice_lib.verify_hyperparameters`

`trustStep` keeps `dirs : (main, cond) ↦ direction` and rejects a second trust on the same pair with
a DIFFERENT direction. Consequence (used by `Props/C01Accepted.lean`): in an accepted
configuration two trusts — Edgeworth or trapezoid — on the same pair of features have the same
direction, i.e. they are the same trust. Also: the pieces of `verifyLattice = .ok c`.
-/
namespace Tfl.Verify
open Tfl

theorem lookup_some_mem {α β} [BEq α] [LawfulBEq α] : ∀ (l : List (α × β)) (k : α) (v : β),
    l.lookup k = some v → (k, v) ∈ l := by
  intro l
  induction l with
  | nil => intro k v h; cases h
  | cons p r ih =>
    intro k v h
    obtain ⟨a, b⟩ := p
    simp only [List.lookup_cons] at h
    by_cases e : k = a
    · subst e
      simp only [beq_self_eq_true] at h
      cases h
      exact List.mem_cons_self ..
    · have : (k == a) = false := by simpa using e
      simp only [this] at h
      exact List.mem_cons_of_mem _ (ih k v h)

theorem lookup_none_not_mem {α β} [BEq α] [LawfulBEq α] : ∀ (l : List (α × β)) (k : α),
    l.lookup k = none → ∀ v, (k, v) ∉ l := by
  intro l
  induction l with
  | nil => intro k _ v h; cases h
  | cons p r ih =>
    intro k h v hm
    obtain ⟨a, b⟩ := p
    simp only [List.lookup_cons] at h
    by_cases e : k = a
    · subst e
      simp only [beq_self_eq_true] at h
      cases h
    · have : (k == a) = false := by simpa using e
      simp only [this] at h
      rcases List.mem_cons.mp hm with h1 | h1
      · exact e (by cases h1; rfl)
      · exact ih k h v h1

/-- the recorded directions form a function of the pair -/
def DirsFun (l : List ((Nat × Nat) × Int)) : Prop :=
  ∀ k d d', (k, d) ∈ l → (k, d') ∈ l → d = d'

theorem trustStep_dirs {n : Nat} {mono : Option (List Atom)} {acc acc' : TrustAcc} {t : CTrust}
    (h : trustStep n mono acc t = .ok acc') (hf : DirsFun acc.dirs) :
    acc'.dirs = ((atomNat t.main, atomNat t.cond), t.dir) :: acc.dirs ∧ DirsFun acc'.dirs := by
  simp only [trustStep, bind, Except.bind] at h
  split at h
  · cases h
  · split at h
    · cases h
    · split at h
      · cases h
      · split at h
        · cases h
        · split at h
          · rename_i d hd
            split at h
            · cases h
            · rename_i hdd
              simp only [pure, Except.pure, Except.ok.injEq] at h
              subst h
              refine ⟨rfl, ?_⟩
              have hdt : d = t.dir := by simpa using hdd
              have hmem := lookup_some_mem _ _ _ hd
              intro k x y hx hy
              rcases List.mem_cons.mp hx with e1 | e1 <;> rcases List.mem_cons.mp hy with e2 | e2
              · cases e1; cases e2; rfl
              · cases e1; rw [← hdt]; exact hf _ _ _ hmem e2
              · cases e2; rw [← hdt]; exact hf _ _ _ e1 hmem
              · exact hf _ _ _ e1 e2
          · rename_i hd
            simp only [pure, Except.pure, Except.ok.injEq] at h
            subst h
            refine ⟨rfl, ?_⟩
            have hno := lookup_none_not_mem _ _ hd
            intro k x y hx hy
            rcases List.mem_cons.mp hx with e1 | e1 <;> rcases List.mem_cons.mp hy with e2 | e2
            · cases e1; cases e2; rfl
            · cases e1; exact absurd e2 (hno _)
            · cases e2; exact absurd e1 (hno _)
            · exact hf _ _ _ e1 e2

theorem trustLoop_dirs {n : Nat} {mono : Option (List Atom)} :
    ∀ (ts : List CTrust) (acc acc' : TrustAcc), trustLoop n mono ts acc = .ok acc' → DirsFun acc.dirs →
      DirsFun acc'.dirs ∧ (∀ e ∈ acc.dirs, e ∈ acc'.dirs) ∧
      ∀ t ∈ ts, ((atomNat t.main, atomNat t.cond), t.dir) ∈ acc'.dirs := by
  intro ts
  induction ts with
  | nil =>
    intro acc acc' h hf
    simp only [trustLoop, Except.ok.injEq] at h
    subst h
    exact ⟨hf, fun e he => he, fun t ht => (by cases ht)⟩
  | cons t ts ih =>
    intro acc acc' h hf
    simp only [trustLoop, bind, Except.bind] at h
    split at h
    · cases h
    · rename_i acc1 h1
      obtain ⟨hd, hf1⟩ := trustStep_dirs h1 hf
      obtain ⟨hf', hsub, hall⟩ := ih acc1 acc' h hf1
      refine ⟨hf', fun e he => hsub e (by rw [hd]; exact List.mem_cons_of_mem _ he), ?_⟩
      intro t' ht'
      rcases List.mem_cons.mp ht' with e | e
      · subst e; exact hsub _ (by rw [hd]; exact List.mem_cons_self ..)
      · exact hall t' e

/-- **two accepted trusts on the same pair of features have the same direction** -/
theorem verifyTrusts_dirs {n : Nat} {mono : Option (List Atom)} {ew tp : Val} {all : List CTrust}
    (h : verifyTrusts n mono ew tp = .ok all) :
    ∀ t ∈ all, ∀ t' ∈ all, atomNat t.main = atomNat t'.main → atomNat t.cond = atomNat t'.cond → t.dir = t'.dir := by
  simp only [verifyTrusts, bind, Except.bind] at h
  split at h
  · cases h
  · split at h
    · cases h
    · rename_i o _
      split at h
      · cases h
      · rename_i acc hacc
        split at h
        · cases h
        · simp only [pure, Except.pure, Except.ok.injEq] at h
          subst h
          obtain ⟨hf, _, hall⟩ := trustLoop_dirs _ _ _ hacc (fun k d d' hd => (by cases hd))
          intro t ht t' ht' e1 e2
          have h1 := hall t ht
          have h2 := hall t' ht'
          rw [e1, e2] at h1
          exact hf _ _ _ h1 h2

/-- the pieces of an accepted lattice configuration -/
theorem verifyLattice_parts {r : RawLatFull} {c : LatCfg} (h : verifyLattice r = .ok c) :
    ∃ (mu : Option (List Atom) × Option (List Atom)) (all : List CTrust),
      parseSizes r.sizes = .ok c.sizes ∧ verifyShape c.sizes r.mono r.uni = .ok mu ∧
      verifyTrusts c.sizes.length mu.1 r.ew r.tp = .ok all ∧
      c.mono = mu.1 ∧ c.uni = mu.2 ∧ c.ew = all.take (seqLen r.ew) ∧ c.tp = all.drop (seqLen r.ew) ∧
      loGeHi c.lo c.hi = false := by
  simp only [verifyLattice, bind, Except.bind] at h
  split at h
  · cases h
  · rename_i sizes hs
    split at h
    · cases h
    · rename_i mu hmu
      split at h
      · cases h
      · rename_i all hall
        split at h
        · cases h
        · split at h
          · cases h
          · split at h
            · cases h
            · split at h
              · cases h
              · split at h
                · cases h
                · split at h
                  · cases h
                  · split at h
                    · cases h
                    · rename_i hb
                      split at h
                      · cases h
                      · split at h
                        · cases h
                        · simp only [pure, Except.pure, Except.ok.injEq] at h
                          subst h
                          exact ⟨mu, all, hs, hmu, hall, rfl, rfl, rfl, rfl, by simpa using hb⟩

/-- the dominance / joint-monotonicity pieces of an accepted lattice configuration -/
theorem verifyLattice_doms {r : RawLatFull} {c : LatCfg} (h : verifyLattice r = .ok c) :
    (∀ p ∈ c.md ++ c.rd, PairOK c.sizes.length c.mono true p) ∧ (∀ p ∈ c.jm, PairOK c.sizes.length c.mono false p) := by
  simp only [verifyLattice, bind, Except.bind] at h
  split at h
  · cases h
  · rename_i sizes hs
    split at h
    · cases h
    · rename_i mu hmu
      split at h
      · cases h
      · split at h
        · cases h
        · rename_i md hmd
          split at h
          · cases h
          · rename_i rd hrd
            split at h
            · cases h
            · rename_i jm hjm
              split at h
              · cases h
              · split at h
                · cases h
                · split at h
                  · cases h
                  · split at h
                    · cases h
                    · split at h
                      · cases h
                      · split at h
                        · cases h
                        · simp only [pure, Except.pure, Except.ok.injEq] at h
                          subst h
                          refine ⟨fun p hp => ?_, verifyDominances_spec hjm⟩
                          rcases List.mem_append.mp hp with e | e
                          · exact verifyDominances_spec hmd p e
                          · exact verifyDominances_spec hrd p e

end Tfl.Verify
