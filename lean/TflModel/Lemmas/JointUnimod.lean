import TflModel.Model.Dykstra
import TflModel.Lemmas.Idx
import Mathlib.Data.List.Nodup
import Mathlib.Data.List.Forall2
/-!
# Joint unimodality: multi-coordinate updates and the stencils of the (vertex, offsets) groups

`setcs` / `coordsOf` (write / read several coordinates at once), and what
`_project_partial_joint_unimodality` guarantees of the hyperplane it builds (`juStencil_ok`): the
stencil positions stay inside the lattice, are pairwise different, and the coefficient vector is
not zero. Locality of `hyperplaneGroup` follows.
-/
namespace Tfl.Lat
open Tfl

/-! ### `setcs`, `coordsOf` -/

@[simp] theorem length_setcs (idx : Idx) (dims pos : List Nat) : (setcs idx dims pos).length = idx.length := by
  induction dims generalizing idx pos with
  | nil => cases pos <;> rfl
  | cons d ds ih =>
    cases pos with
    | nil => rfl
    | cons v vs => simp [setcs, ih]

theorem coord_setcs_notin {idx : Idx} {dims pos : List Nat} {d : Nat} (h : d ∉ dims) :
    coord (setcs idx dims pos) d = coord idx d := by
  induction dims generalizing idx pos with
  | nil => cases pos <;> rfl
  | cons e ds ih =>
    cases pos with
    | nil => rfl
    | cons v vs =>
      have h1 : e ≠ d := fun he => h (he ▸ List.mem_cons_self ..)
      have h2 : d ∉ ds := fun hd => h (List.mem_cons_of_mem _ hd)
      simp only [setcs]
      rw [ih h2, coord_setc_ne _ h1]

theorem setc_setcs_comm {idx : Idx} {dims pos : List Nat} {d : Nat} (v : Nat) (h : d ∉ dims) :
    setc (setcs idx dims pos) d v = setcs (setc idx d v) dims pos := by
  induction dims generalizing idx pos with
  | nil => cases pos <;> rfl
  | cons e ds ih =>
    cases pos with
    | nil => rfl
    | cons u us =>
      have h1 : e ≠ d := fun he => h (he ▸ List.mem_cons_self ..)
      have h2 : d ∉ ds := fun hd => h (List.mem_cons_of_mem _ hd)
      simp only [setcs]
      rw [ih h2, setc_comm idx u v h1]

theorem coordsOf_setcs {idx : Idx} {dims pos : List Nat} (hn : dims.Nodup)
    (hl : ∀ d ∈ dims, d < idx.length) (hp : pos.length = dims.length) :
    coordsOf (setcs idx dims pos) dims = pos := by
  induction dims generalizing idx pos with
  | nil =>
    have : pos = [] := List.eq_nil_of_length_eq_zero (by simpa using hp)
    subst this; rfl
  | cons d ds ih =>
    cases pos with
    | nil => simp at hp
    | cons v vs =>
      have hd : d ∉ ds := (List.nodup_cons.mp hn).1
      have hds : ds.Nodup := (List.nodup_cons.mp hn).2
      have hdl : d < idx.length := hl d (List.mem_cons_self ..)
      have ih' := ih (idx := setc idx d v) hds
        (fun e he => by simpa using hl e (List.mem_cons_of_mem _ he)) (by simpa using hp)
      simp only [coordsOf, List.map_cons, setcs] at ih' ⊢
      rw [coord_setcs_notin hd, coord_setc_same _ hdl, ih']

theorem setcs_setcs {idx : Idx} {dims pos pos' : List Nat} (hn : dims.Nodup)
    (hp : pos.length = dims.length) (hp' : pos'.length = dims.length) :
    setcs (setcs idx dims pos) dims pos' = setcs idx dims pos' := by
  induction dims generalizing idx pos pos' with
  | nil =>
    have : pos = [] := List.eq_nil_of_length_eq_zero (by simpa using hp)
    subst this; rfl
  | cons d ds ih =>
    cases pos with
    | nil => simp at hp
    | cons v vs =>
      cases pos' with
      | nil => simp at hp'
      | cons v' vs' =>
        have hd : d ∉ ds := (List.nodup_cons.mp hn).1
        have hds : ds.Nodup := (List.nodup_cons.mp hn).2
        simp only [setcs]
        rw [setc_setcs_comm _ hd, setc_setc_same]
        exact ih hds (by simpa using hp) (by simpa using hp')

theorem setcs_coordsOf {idx : Idx} {dims : List Nat} (hl : ∀ d ∈ dims, d < idx.length) :
    setcs idx dims (coordsOf idx dims) = idx := by
  induction dims with
  | nil => rfl
  | cons d ds ih =>
    simp only [coordsOf, List.map_cons, setcs]
    rw [setc_coord_self (hl d (List.mem_cons_self ..))]
    exact ih (fun e he => hl e (List.mem_cons_of_mem _ he))

/-- the stencil position `pos` (coordinates along `dims`) is inside the lattice -/
def PosOK (sizes dims pos : List Nat) : Prop := List.Forall₂ (fun d v => v < sizes.getD d 0) dims pos

theorem PosOK.length_eq {sizes dims pos : List Nat} (h : PosOK sizes dims pos) : pos.length = dims.length :=
  (List.Forall₂.length_eq h).symm

theorem inRange_setcs {sizes : List Nat} {idx : Idx} {dims pos : List Nat} (hr : InRange sizes idx)
    (hp : PosOK sizes dims pos) : InRange sizes (setcs idx dims pos) := by
  induction hp generalizing idx with
  | nil => exact hr
  | cons h _ ih => exact ih (inRange_setc hr h)

theorem posOK_coordsOf {sizes : List Nat} {idx : Idx} {dims : List Nat} (hr : InRange sizes idx)
    (hd : ∀ d ∈ dims, d < sizes.length) : PosOK sizes dims (coordsOf idx dims) := by
  induction dims with
  | nil => exact List.Forall₂.nil
  | cons d ds ih =>
    exact List.Forall₂.cons (hr.2 d (hd d (List.mem_cons_self ..)))
      (ih (fun e he => hd e (List.mem_cons_of_mem _ he)))

/-- a position inside the box of the constrained dimensions' sizes is inside the lattice -/
theorem posOK_of_inRange {sizes dims pos : List Nat}
    (h : InRange (dims.map (fun d => sizes.getD d 0)) pos) : PosOK sizes dims pos := by
  induction dims generalizing pos with
  | nil =>
    have : pos = [] := List.eq_nil_of_length_eq_zero (by simpa using h.1)
    subst this; exact List.Forall₂.nil
  | cons d ds ih =>
    cases pos with
    | nil => have := h.1; simp at this
    | cons v vs =>
      have h0 := h.2 0 (by simp)
      refine List.Forall₂.cons (by simpa [coord] using h0) (ih ⟨by simpa using h.1, fun t ht => ?_⟩)
      have := h.2 (t + 1) (by simpa using ht)
      simpa [coord] using this

/-! ### the hyperplane of a (vertex, offsets) pair -/

/-- what the proofs need of a stencil -/
structure StencilOK (sizes dims : List Nat) (st : List (List Nat × Int)) : Prop where
  pos : ∀ pc ∈ st, PosOK sizes dims pc.1
  nodup : (st.map Prod.fst).Nodup
  nonzero : ∃ pc ∈ st, pc.2 ≠ 0

theorem mem_offsetsAll {n : Nat} {offs : List Int} (h : offs ∈ offsetsAll n) :
    offs.length = n ∧ ∀ o ∈ offs, o = -1 ∨ o = 1 := by
  induction n generalizing offs with
  | zero =>
    simp only [offsetsAll, List.mem_singleton] at h
    subst h; exact ⟨rfl, fun o ho => by cases ho⟩
  | succ n ih =>
    simp only [offsetsAll, List.mem_flatMap, List.mem_map, List.mem_cons, List.not_mem_nil, or_false] at h
    obtain ⟨o, ho, r, hr, rfl⟩ := h
    obtain ⟨h1, h2⟩ := ih hr
    refine ⟨by simp [h1], fun o' ho' => ?_⟩
    rcases List.mem_cons.mp ho' with rfl | ho'
    · exact ho
    · exact h2 o' ho'

/-- every term `juTerms` produces is a neighbour of `vertex` along one of the listed dimension
positions, inside the bounds, different from the vertex there, with a non-zero coefficient -/
theorem juTerms_spec {ub center vertex : List Nat} {offsets : List Int} {ts : List Nat}
    {terms : List (List Nat × Int)} (hoff : ∀ t ∈ ts, offsets.getD t 0 ≠ 0)
    (h : juTerms ub center vertex offsets ts = some terms) :
    ∀ pc ∈ terms, ∃ t ∈ ts, ∃ v : Nat, pc.1 = vertex.set t v ∧ v < ub.getD t 0 ∧ v ≠ vertex.getD t 0 ∧
      pc.2 ≠ 0 := by
  induction ts generalizing terms with
  | nil =>
    simp only [juTerms, Option.some.injEq] at h
    subst h; intro pc hpc; cases hpc
  | cons t ts ih =>
    have hoff' : ∀ t' ∈ ts, offsets.getD t' 0 ≠ 0 := fun t' ht' => hoff t' (List.mem_cons_of_mem _ ht')
    simp only [juTerms] at h
    split_ifs at h with hw hb
    · intro pc hpc
      obtain ⟨t', ht', r⟩ := ih hoff' h pc hpc
      exact ⟨t', List.mem_cons_of_mem _ ht', r⟩
    · cases hrest : juTerms ub center vertex offsets ts with
      | none => rw [hrest] at h; cases h
      | some rest =>
        rw [hrest] at h
        simp only [Option.map_some, Option.some.injEq] at h
        subst h
        intro pc hpc
        rcases List.mem_cons.mp hpc with rfl | hpc
        · have ho := hoff t (List.mem_cons_self ..)
          refine ⟨t, List.mem_cons_self .., ((vertex.getD t 0 : Int) + offsets.getD t 0).toNat, rfl, ?_, ?_, ?_⟩
          · omega
          · omega
          · exact mul_ne_zero hw ho
        · obtain ⟨t', ht', r⟩ := ih hoff' hrest pc hpc
          exact ⟨t', List.mem_cons_of_mem _ ht', r⟩

theorem juTerms_nodup {ub center vertex : List Nat} {offsets : List Int} {ts : List Nat}
    {terms : List (List Nat × Int)} (hoff : ∀ t ∈ ts, offsets.getD t 0 ≠ 0) (hts : ts.Nodup)
    (hlen : ∀ t ∈ ts, t < vertex.length)
    (h : juTerms ub center vertex offsets ts = some terms) : (terms.map Prod.fst).Nodup := by
  induction ts generalizing terms with
  | nil =>
    simp only [juTerms, Option.some.injEq] at h
    subst h; exact List.nodup_nil
  | cons t ts ih =>
    have hoff' : ∀ t' ∈ ts, offsets.getD t' 0 ≠ 0 := fun t' ht' => hoff t' (List.mem_cons_of_mem _ ht')
    have hts' := (List.nodup_cons.mp hts).2
    have hnot := (List.nodup_cons.mp hts).1
    have hlen' : ∀ t' ∈ ts, t' < vertex.length := fun t' ht' => hlen t' (List.mem_cons_of_mem _ ht')
    simp only [juTerms] at h
    split_ifs at h with hw hb
    · exact ih hoff' hts' hlen' h
    · cases hrest : juTerms ub center vertex offsets ts with
      | none => rw [hrest] at h; cases h
      | some rest =>
        rw [hrest] at h
        simp only [Option.map_some, Option.some.injEq] at h
        subst h
        simp only [List.map_cons, List.nodup_cons]
        refine ⟨?_, ih hoff' hts' hlen' hrest⟩
        intro hmem
        obtain ⟨pc, hpc, he⟩ := List.mem_map.mp hmem
        obtain ⟨t', ht', v, hv, _, _, _⟩ := juTerms_spec hoff' hrest pc hpc
        have hne : t' ≠ t := fun e => hnot (e ▸ ht')
        have htl : t < vertex.length := hlen t (List.mem_cons_self ..)
        have ho := hoff t (List.mem_cons_self ..)
        -- compare coordinate `t`
        have e1 : (pc.1).getD t 0 = vertex.getD t 0 := by
          rw [hv]; simp [List.getD_eq_getElem?_getD, List.getElem?_set_ne hne]
        have e2 : (vertex.set t ((vertex.getD t 0 : Int) + offsets.getD t 0).toNat).getD t 0
            = ((vertex.getD t 0 : Int) + offsets.getD t 0).toNat := by
          simp [List.getD_eq_getElem?_getD, htl]
        rw [he, e2] at e1
        omega

theorem inRange_set {ub vertex : List Nat} {t v : Nat} (hv : InRange ub vertex) (h : v < ub.getD t 0) :
    InRange ub (vertex.set t v) := inRange_setc (d := t) hv h

/-- **what `_project_partial_joint_unimodality` guarantees of its hyperplane**: for a vertex of the
constrained dimensions' box and offsets in `{-1, 1}`, the stencil positions are inside the lattice,
pairwise different, and some coefficient is non-zero. -/
theorem juStencil_ok {sizes dims vertex : List Nat} {offs : List Int} {st : List (List Nat × Int)}
    (hv : InRange (dims.map (fun d => sizes.getD d 0)) vertex)
    (hoffs : offs.length = dims.length ∧ ∀ o ∈ offs, o = -1 ∨ o = 1)
    (h : juStencil (dims.map (fun d => sizes.getD d 0)) vertex offs = some st) :
    StencilOK sizes dims st := by
  set ub := dims.map (fun d => sizes.getD d 0) with hub
  have hvl : vertex.length = dims.length := by rw [hv.1, hub, List.length_map]
  have hoff : ∀ t ∈ List.range offs.length, offs.getD t 0 ≠ 0 := by
    intro t ht
    have htl : t < offs.length := List.mem_range.mp ht
    have : offs.getD t 0 = offs[t] := by simp [List.getD_eq_getElem?_getD, htl]
    rw [this]
    rcases hoffs.2 _ (List.getElem_mem htl) with e | e <;> rw [e] <;> decide
  have hlen : ∀ t ∈ List.range offs.length, t < vertex.length := by
    intro t ht; rw [hvl, ← hoffs.1]; exact List.mem_range.mp ht
  unfold juStencil at h
  simp only at h
  split_ifs at h with hc
  cases hts : juTerms ub (ub.map (· / 2)) vertex offs (List.range offs.length) with
  | none => rw [hts] at h; cases h
  | some terms =>
    rw [hts] at h
    cases terms with
    | nil => cases h
    | cons p ps =>
      simp only [Option.some.injEq] at h
      subst h
      have hspec := juTerms_spec hoff hts
      have hnd := juTerms_nodup hoff List.nodup_range hlen hts
      refine ⟨?_, ?_, ?_⟩
      · intro pc hpc
        rcases List.mem_append.mp hpc with hpc | hpc
        · obtain ⟨t, _, v, hv', hb, _, _⟩ := hspec pc hpc
          rw [hv']
          exact posOK_of_inRange (inRange_set hv hb)
        · simp only [List.mem_singleton] at hpc
          subst hpc
          exact posOK_of_inRange hv
      · rw [List.map_append, List.nodup_append]
        refine ⟨hnd, by simp, ?_⟩
        intro a ha b hb
        simp only [List.map_cons, List.map_nil, List.mem_singleton] at hb
        subst hb
        obtain ⟨pc, hpc, rfl⟩ := List.mem_map.mp ha
        obtain ⟨t, ht, v, hv', _, hne, _⟩ := hspec pc hpc
        intro e
        have htl := hlen t ht
        have : (pc.1).getD t 0 = v := by rw [hv']; simp [List.getD_eq_getElem?_getD, htl]
        rw [e] at this
        exact hne this.symm
      · obtain ⟨t, _, v, _, _, _, hnz⟩ := hspec p (List.mem_cons_self ..)
        exact ⟨p, List.mem_append_left _ (List.mem_cons_self ..), hnz⟩

/-! ### locality -/

theorem hyperplaneGroup_local (sizes dims : List Nat) (valley : Bool) (st : List (List Nat × Int))
    (hst : ∀ pc ∈ st, PosOK sizes dims pc.1) : Local sizes (hyperplaneGroup dims valley st) := by
  intro f g h idx hr
  have e : ∀ pc ∈ st, f (setcs idx dims pc.1) = g (setcs idx dims pc.1) :=
    fun pc hpc => h _ (inRange_setcs hr (hst pc hpc))
  have em : st.map (fun pc => (pc.2 : Rat) * f (setcs idx dims pc.1))
      = st.map (fun pc => (pc.2 : Rat) * g (setcs idx dims pc.1)) :=
    List.map_congr_left (fun pc hpc => by rw [e pc hpc])
  simp only [hyperplaneGroup, em, h idx hr]

end Tfl.Lat
