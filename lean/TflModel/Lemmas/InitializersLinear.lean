import TflModel.Lemmas.Initializers
import Mathlib.Tactic.Linarith
import Mathlib.Tactic.Positivity
/-! C10-T1: the one-dimensional profiles of `lattice_lib.linear_initializer` (monotone, valley, peak)
and the minimum / maximum of the outer sum. -/
namespace Tfl.Init
open Tfl

/-- the `one_d` list of a valley (`unimodality = 1`) / peak (`-1`) dimension -/
def valleyList (R : ℚ) (s : Nat) : List ℚ := linspace R 0 ((s + 1) / 2) ++ (linspace 0 R ((s + 1) / 2)).drop (s % 2)
def peakList (R : ℚ) (s : Nat) : List ℚ := linspace 0 R ((s + 1) / 2) ++ (linspace R 0 ((s + 1) / 2)).drop (s % 2)

theorem oneD_valley (R : ℚ) (s : Nat) : oneD false 1 R s = valleyList R s := by
  simp [oneD, valleyList]
theorem oneD_peak (R : ℚ) (s : Nat) : oneD false (-1) R s = peakList R s := by
  simp [oneD, peakList]

/-- closed form of the valley profile: down from `R` to `0` on the first `h = (s+1)/2` vertices, then up -/
theorem getR_valley (R : ℚ) (s k : Nat) (hs : 3 ≤ s) (hk : k < s) :
    getR (valleyList R s) k =
      if k < (s + 1) / 2 then R - R * (k : ℚ) / ((((s + 1) / 2 : ℕ) : ℚ) - 1)
      else R * ((s % 2 + k - (s + 1) / 2 : ℕ) : ℚ) / ((((s + 1) / 2 : ℕ) : ℚ) - 1) := by
  have hh : 2 ≤ (s + 1) / 2 := by omega
  unfold valleyList
  rw [getR_append, length_linspace]
  split
  · rename_i h1
    rw [getR_linspace _ _ _ _ (by omega) h1]; ring
  · rename_i h1
    rw [getR_drop, getR_linspace _ _ _ _ (by omega) (by omega)]
    have : s % 2 + (k - (s + 1) / 2) = s % 2 + k - (s + 1) / 2 := by omega
    rw [this]; ring

theorem getR_peak (R : ℚ) (s k : Nat) (hs : 3 ≤ s) (hk : k < s) :
    getR (peakList R s) k =
      if k < (s + 1) / 2 then R * (k : ℚ) / ((((s + 1) / 2 : ℕ) : ℚ) - 1)
      else R - R * ((s % 2 + k - (s + 1) / 2 : ℕ) : ℚ) / ((((s + 1) / 2 : ℕ) : ℚ) - 1) := by
  have hh : 2 ≤ (s + 1) / 2 := by omega
  unfold peakList
  rw [getR_append, length_linspace]
  split
  · rename_i h1
    rw [getR_linspace _ _ _ _ (by omega) h1]; ring
  · rename_i h1
    rw [getR_drop, getR_linspace _ _ _ _ (by omega) (by omega)]
    have : s % 2 + (k - (s + 1) / 2) = s % 2 + k - (s + 1) / 2 := by omega
    rw [this]; ring

/-- the peak profile is `R` minus the valley profile -/
theorem getR_peak_eq (R : ℚ) (s k : Nat) (hs : 3 ≤ s) (hk : k < s) :
    getR (peakList R s) k = R - getR (valleyList R s) k := by
  rw [getR_peak R s k hs hk, getR_valley R s k hs hk]
  split <;> ring

theorem half_pos (s : Nat) (hs : 3 ≤ s) : (0 : ℚ) < (((s + 1) / 2 : ℕ) : ℚ) - 1 := by
  have : (2 : ℚ) ≤ (((s + 1) / 2 : ℕ) : ℚ) := by exact_mod_cast (by omega : 2 ≤ (s + 1) / 2)
  linarith

/-- **valley shape**: non-increasing on the pairs `k < s/2`, non-decreasing on the pairs `k ≥ s/2`
(exactly the unimodality constraint of the layer), for `R ≥ 0` -/
theorem valley_shape (R : ℚ) (hR : 0 ≤ R) (s k : Nat) (hs : 3 ≤ s) (hk : k + 1 < s) :
    (k < s / 2 → getR (valleyList R s) (k + 1) ≤ getR (valleyList R s) k) ∧
    (s / 2 ≤ k → getR (valleyList R s) k ≤ getR (valleyList R s) (k + 1)) := by
  have hp := half_pos s hs
  rw [getR_valley R s k hs (by omega), getR_valley R s (k + 1) hs hk]
  have hq : 0 ≤ R / ((((s + 1) / 2 : ℕ) : ℚ) - 1) := div_nonneg hR (le_of_lt hp)
  by_cases h1 : k + 1 < (s + 1) / 2
  · rw [if_pos h1, if_pos (by omega : k < (s + 1) / 2)]
    refine ⟨fun _ => ?_, fun h => by omega⟩
    have : R * ((k + 1 : ℕ) : ℚ) / ((((s + 1) / 2 : ℕ) : ℚ) - 1) =
        R * (k : ℚ) / ((((s + 1) / 2 : ℕ) : ℚ) - 1) + R / ((((s + 1) / 2 : ℕ) : ℚ) - 1) := by push_cast; ring
    rw [this]; linarith
  · by_cases h2 : k < (s + 1) / 2
    · -- k + 1 = h: the bottom of the valley
      have hk1 : k + 1 = (s + 1) / 2 := by omega
      rw [if_neg h1, if_pos h2]
      have e0 : R - R * (k : ℚ) / ((((s + 1) / 2 : ℕ) : ℚ) - 1) = 0 := by
        have : (k : ℚ) = (((s + 1) / 2 : ℕ) : ℚ) - 1 := by rw [← hk1]; push_cast; ring
        rw [this]; field_simp; ring
      rw [e0]
      rcases Nat.mod_two_eq_zero_or_one s with he | ho
      · have : s % 2 + (k + 1) - (s + 1) / 2 = 0 := by omega
        rw [this]; simp
      · have : s % 2 + (k + 1) - (s + 1) / 2 = 1 := by omega
        rw [this]
        refine ⟨fun h => by omega, fun _ => ?_⟩
        simpa using hq
    · rw [if_neg h1, if_neg h2]
      refine ⟨fun h => by omega, fun _ => ?_⟩
      have e : s % 2 + (k + 1) - (s + 1) / 2 = (s % 2 + k - (s + 1) / 2) + 1 := by omega
      rw [e]
      have : R * (((s % 2 + k - (s + 1) / 2) + 1 : ℕ) : ℚ) / ((((s + 1) / 2 : ℕ) : ℚ) - 1) =
          R * ((s % 2 + k - (s + 1) / 2 : ℕ) : ℚ) / ((((s + 1) / 2 : ℕ) : ℚ) - 1) + R / ((((s + 1) / 2 : ℕ) : ℚ) - 1) := by
        push_cast; ring
      rw [this]; linarith

/-- the valley profile stays in `[0, R]`, starts at `R` and touches `0` -/
theorem valley_range (R : ℚ) (hR : 0 ≤ R) (s k : Nat) (hs : 3 ≤ s) (hk : k < s) :
    0 ≤ getR (valleyList R s) k ∧ getR (valleyList R s) k ≤ R := by
  have hp := half_pos s hs
  rw [getR_valley R s k hs hk]
  split
  · rename_i h1
    have hk' : (k : ℚ) ≤ (((s + 1) / 2 : ℕ) : ℚ) - 1 := by
      have : ((k + 1 : ℕ) : ℚ) ≤ (((s + 1) / 2 : ℕ) : ℚ) := by exact_mod_cast h1
      push_cast at this; linarith
    have h0 : 0 ≤ R * (k : ℚ) / ((((s + 1) / 2 : ℕ) : ℚ) - 1) :=
      div_nonneg (mul_nonneg hR (by positivity)) (le_of_lt hp)
    have h2 : R * (k : ℚ) / ((((s + 1) / 2 : ℕ) : ℚ) - 1) ≤ R := by
      rw [div_le_iff₀ hp]; nlinarith
    constructor <;> linarith
  · rename_i h1
    have hj : ((s % 2 + k - (s + 1) / 2 : ℕ) : ℚ) ≤ (((s + 1) / 2 : ℕ) : ℚ) - 1 := by
      have : (((s % 2 + k - (s + 1) / 2) + 1 : ℕ) : ℚ) ≤ (((s + 1) / 2 : ℕ) : ℚ) := by exact_mod_cast (by omega)
      push_cast at this; linarith
    constructor
    · exact div_nonneg (mul_nonneg hR (by positivity)) (le_of_lt hp)
    · rw [div_le_iff₀ hp]; nlinarith

theorem valley_first (R : ℚ) (s : Nat) (hs : 3 ≤ s) : getR (valleyList R s) 0 = R := by
  rw [getR_valley R s 0 hs (by omega), if_pos (by omega)]; simp

theorem valley_bottom (R : ℚ) (s : Nat) (hs : 3 ≤ s) : getR (valleyList R s) ((s + 1) / 2 - 1) = 0 := by
  have hp := half_pos s hs
  rw [getR_valley R s _ hs (by omega), if_pos (by omega)]
  have : (((s + 1) / 2 - 1 : ℕ) : ℚ) = (((s + 1) / 2 : ℕ) : ℚ) - 1 := by
    rw [Nat.cast_sub (by omega)]; simp
  rw [this]; field_simp; ring

/-! ### minimum and maximum of the outer sum -/

/-- what `verify_hyperparameters` guarantees about the lists handed to `linear_initializer` -/
structure LinWF (sizes : List Nat) (monos : List Bool) (unimods : List Int) : Prop where
  rank_pos : 0 < sizes.length
  sizes_ge : ∀ d, d < sizes.length → 2 ≤ sizes.getD d 0
  mono_len : monos.length = sizes.length
  unimod_len : unimods.length = sizes.length
  unimod_val : ∀ d, d < sizes.length → unimods.getD d 0 ≠ 0 →
    (unimods.getD d 0 = 1 ∨ unimods.getD d 0 = -1) ∧ 3 ≤ sizes.getD d 0
  not_both : ∀ d, ¬ (monos.getD d false = true ∧ unimods.getD d 0 ≠ 0)

/-- is dimension `d` one of the `num_constraint_dims` dimensions that get a range? -/
def consDim (n : Nat) (monos : List Bool) (unimods : List Int) (d : Nat) : Bool :=
  (effMonos n monos unimods).getD d false || (unimods.getD d 0 != 0)

theorem filter_length_range (l : List Bool) :
    (l.filter id).length = ((List.range l.length).filter (fun d => l.getD d false)).length := by
  induction l using List.reverseRecOn with
  | nil => rfl
  | append_singleton r a ih =>
    rw [List.filter_append, List.length_append, ih, List.length_append, List.length_singleton, List.range_succ,
      List.filter_append, List.length_append]
    congr 1
    · congr 1
      apply List.filter_congr
      intro d hd
      have hd' : d < r.length := List.mem_range.mp hd
      simp [List.getD_eq_getElem?_getD, List.getElem?_append_left hd']
    · cases a <;> simp [List.getD_eq_getElem?_getD]

theorem filter_length_range_int (l : List Int) :
    (l.filter (· != 0)).length = ((List.range l.length).filter (fun d => l.getD d 0 != 0)).length := by
  induction l using List.reverseRecOn with
  | nil => rfl
  | append_singleton r a ih =>
    rw [List.filter_append, List.length_append, ih, List.length_append, List.length_singleton, List.range_succ,
      List.filter_append, List.length_append]
    congr 1
    · congr 1
      apply List.filter_congr
      intro d hd
      have hd' : d < r.length := List.mem_range.mp hd
      simp [List.getD_eq_getElem?_getD, List.getElem?_append_left hd']
    · by_cases ha : a = 0 <;> simp [List.getD_eq_getElem?_getD, ha]

theorem length_filter_or_disjoint (n : Nat) (p q : Nat → Bool) (h : ∀ d, ¬ (p d = true ∧ q d = true)) :
    ((List.range n).filter (fun d => p d || q d)).length =
      ((List.range n).filter p).length + ((List.range n).filter q).length := by
  induction n with
  | zero => rfl
  | succ n ih =>
    simp only [List.range_succ, List.filter_append, List.length_append, ih]
    have := h n
    cases hp : p n <;> cases hq : q n <;> simp_all <;> omega

/-- `num_constraint_dims` really is the number of dimensions that get a range -/
theorem numConstraintDims_eq (sizes : List Nat) (monos : List Bool) (unimods : List Int)
    (h : LinWF sizes monos unimods) :
    numConstraintDims sizes.length monos unimods =
      ((List.range sizes.length).filter (consDim sizes.length monos unimods)).length := by
  unfold numConstraintDims consDim effMonos
  have hc : countNonZeros monos unimods =
      ((List.range sizes.length).filter (fun d => monos.getD d false || (unimods.getD d 0 != 0))).length := by
    unfold countNonZeros
    rw [filter_length_range monos, filter_length_range_int unimods, h.mono_len, h.unimod_len]
    exact (length_filter_or_disjoint _ _ _ (fun d hd => h.not_both d ⟨hd.1, by simpa using hd.2⟩)).symm
  split
  · rename_i h0
    -- nothing constrained: every dimension gets a range
    have : (List.range sizes.length).filter
        (fun d => (List.replicate sizes.length true).getD d false || (unimods.getD d 0 != 0)) = List.range sizes.length := by
      apply List.filter_eq_self.mpr
      intro d hd
      have hd' : d < sizes.length := List.mem_range.mp hd
      simp [List.getD_eq_getElem?_getD, hd']
    rw [this]; simp
  · exact hc

theorem dimRange_nonneg (sizes : List Nat) (monos : List Bool) (unimods : List Int) (omin omax : ℚ)
    (hlt : omin ≤ omax) : 0 ≤ dimRange sizes.length monos unimods omin omax := by
  unfold dimRange
  exact div_nonneg (by linarith) (by positivity)

/-- per-dimension bounds of the contribution, and where they are attained -/
theorem contrib_bounds (sizes : List Nat) (monos : List Bool) (unimods : List Int) (omin omax : ℚ)
    (h : LinWF sizes monos unimods) (hlt : omin ≤ omax) (d : Nat) (hd : d < sizes.length) :
    (∀ k, k < sizes.getD d 0 →
      0 ≤ contrib sizes monos unimods omin omax d k ∧
      contrib sizes monos unimods omin omax d k ≤
        (if consDim sizes.length monos unimods d then dimRange sizes.length monos unimods omin omax else 0)) ∧
    (∃ k, k < sizes.getD d 0 ∧ contrib sizes monos unimods omin omax d k = 0) ∧
    (∃ k, k < sizes.getD d 0 ∧ contrib sizes monos unimods omin omax d k =
        (if consDim sizes.length monos unimods d then dimRange sizes.length monos unimods omin omax else 0)) := by
  have hR := dimRange_nonneg sizes monos unimods omin omax hlt
  have hs := h.sizes_ge d hd
  generalize hRdef : dimRange sizes.length monos unimods omin omax = R at hR ⊢
  by_cases hm : (effMonos sizes.length monos unimods).getD d false = true
  · -- monotone: linspace 0 R s
    have hcons : consDim sizes.length monos unimods d = true := by unfold consDim; rw [hm]; rfl
    have hsp : (0 : ℚ) < ((sizes.getD d 0 : ℕ) : ℚ) - 1 := by
      have : (2 : ℚ) ≤ ((sizes.getD d 0 : ℕ) : ℚ) := by exact_mod_cast hs
      linarith
    have hval : ∀ k, k < sizes.getD d 0 → contrib sizes monos unimods omin omax d k =
        R * (k : ℚ) / (((sizes.getD d 0 : ℕ) : ℚ) - 1) := by
      intro k hk
      simp only [contrib, oneD, hm, if_true, hRdef]
      rw [getR_linspace _ _ _ _ (by omega) hk]; ring
    rw [hcons]
    refine ⟨fun k hk => ?_, ⟨0, by omega, by rw [hval 0 (by omega)]; simp⟩,
      ⟨sizes.getD d 0 - 1, by omega, ?_⟩⟩
    · rw [hval k hk]
      have hk' : (k : ℚ) ≤ ((sizes.getD d 0 : ℕ) : ℚ) - 1 := by
        have : ((k + 1 : ℕ) : ℚ) ≤ ((sizes.getD d 0 : ℕ) : ℚ) := by exact_mod_cast hk
        push_cast at this; linarith
      refine ⟨div_nonneg (mul_nonneg hR (by positivity)) (le_of_lt hsp), ?_⟩
      simp only [if_true]
      rw [div_le_iff₀ hsp]; nlinarith
    · rw [hval _ (by omega), Nat.cast_sub (by omega)]
      simp only [if_true, Nat.cast_one]
      field_simp
  · have hm' : (effMonos sizes.length monos unimods).getD d false = false := by simpa using hm
    by_cases hu : unimods.getD d 0 = 0
    · -- free dimension
      have hcons : consDim sizes.length monos unimods d = false := by unfold consDim; rw [hm', hu]; rfl
      have hval : ∀ k, contrib sizes monos unimods omin omax d k = 0 :=
        fun k => contrib_free sizes monos unimods omin omax d k hm' hu
      rw [hcons]
      exact ⟨fun k _ => by rw [hval k]; simp, ⟨0, by omega, hval 0⟩, ⟨0, by omega, by rw [hval 0]; simp⟩⟩
    · have hcons : consDim sizes.length monos unimods d = true := by
        have : (unimods.getD d 0 != 0) = true := bne_iff_ne.mpr hu
        unfold consDim; rw [hm', this]; rfl
      obtain ⟨hv, hs3⟩ := h.unimod_val d hd hu
      rw [hcons]
      simp only [if_true]
      rcases hv with hv | hv
      · have hval : ∀ k, contrib sizes monos unimods omin omax d k = getR (valleyList R (sizes.getD d 0)) k := by
          intro k; simp only [contrib, hm', hv, hRdef, oneD_valley]
        refine ⟨fun k hk => by rw [hval k]; exact valley_range R hR _ k hs3 hk,
          ⟨(sizes.getD d 0 + 1) / 2 - 1, by omega, by rw [hval]; exact valley_bottom R _ hs3⟩,
          ⟨0, by omega, by rw [hval]; exact valley_first R _ hs3⟩⟩
      · have hval : ∀ k, contrib sizes monos unimods omin omax d k = getR (peakList R (sizes.getD d 0)) k := by
          intro k; simp only [contrib, hm', hv, hRdef, oneD_peak]
        refine ⟨fun k hk => ?_, ⟨0, by omega, ?_⟩, ⟨(sizes.getD d 0 + 1) / 2 - 1, by omega, ?_⟩⟩
        · rw [hval k, getR_peak_eq R _ k hs3 hk]
          have := valley_range R hR _ k hs3 hk
          constructor <;> linarith
        · rw [hval, getR_peak_eq R _ 0 hs3 (by omega), valley_first R _ hs3]; ring
        · rw [hval, getR_peak_eq R _ _ hs3 (by omega), valley_bottom R _ hs3]; ring

/-- coordinates chosen per dimension -/
theorem coord_map_range (n : Nat) (f : Nat → Nat) (d : Nat) (hd : d < n) :
    coord ((List.range n).map f) d = f d := by
  simp [coord, List.getD_eq_getElem?_getD, hd]

/-- **C10-T1 (d)**: over the box the linear initialisation has minimum `output_min` and maximum
`output_max` (both attained), i.e. its range is exactly the initialisation range. -/
theorem linearInit_min_max (sizes : List Nat) (monos : List Bool) (unimods : List Int) (omin omax : ℚ)
    (h : LinWF sizes monos unimods) (hlt : omin ≤ omax) :
    (∀ idx, InRange sizes idx →
      omin ≤ linearInit sizes monos unimods omin omax idx ∧ linearInit sizes monos unimods omin omax idx ≤ omax) ∧
    (∃ idx, InRange sizes idx ∧ linearInit sizes monos unimods omin omax idx = omin) ∧
    (∃ idx, InRange sizes idx ∧ linearInit sizes monos unimods omin omax idx = omax) := by
  have hb := contrib_bounds sizes monos unimods omin omax h hlt
  -- the sum of the per-dimension maxima is `output_max - output_min`
  have hsum : dsum sizes.length (fun d => if consDim sizes.length monos unimods d
      then dimRange sizes.length monos unimods omin omax else 0) = omax - omin := by
    rw [dsum_indicator, ← numConstraintDims_eq sizes monos unimods h]
    unfold dimRange
    have hne : (numConstraintDims sizes.length monos unimods : ℚ) ≠ 0 := by
      have : 0 < numConstraintDims sizes.length monos unimods := by
        unfold numConstraintDims; split
        · exact h.rank_pos
        · omega
      exact_mod_cast (by omega : numConstraintDims sizes.length monos unimods ≠ 0)
    field_simp
  refine ⟨fun idx hr => ?_, ?_, ?_⟩
  · rw [linearInit_eq]
    have h0 : dsum sizes.length (fun _ => (0 : ℚ)) ≤
        dsum sizes.length (fun d => contrib sizes monos unimods omin omax d (coord idx d)) :=
      dsum_le _ _ _ (fun d hd => ((hb d hd).1 _ (hr.2 d hd)).1)
    have h1 := dsum_le sizes.length (fun d => contrib sizes monos unimods omin omax d (coord idx d)) _
      (fun d hd => ((hb d hd).1 _ (hr.2 d hd)).2)
    have hz : dsum sizes.length (fun _ => (0 : ℚ)) = 0 := by
      have := dsum_indicator sizes.length (fun _ => false) (0 : ℚ)
      simpa using this
    rw [hsum] at h1
    constructor <;> linarith
  · -- the vertex that takes every dimension's minimiser
    choose! kmin hkmin using fun d (hd : d < sizes.length) => (hb d hd).2.1
    refine ⟨(List.range sizes.length).map kmin, ⟨by simp, fun d hd => ?_⟩, ?_⟩
    · rw [coord_map_range _ _ d hd]; exact (hkmin d hd).1
    · rw [linearInit_eq, dsum_congr _ _ (fun _ => (0 : ℚ)) (fun d hd => by
        rw [coord_map_range _ _ d hd]; exact (hkmin d hd).2)]
      have := dsum_indicator sizes.length (fun _ => false) (0 : ℚ)
      simp only [Bool.false_eq_true, if_false] at this
      rw [this]; ring
  · choose! kmax hkmax using fun d (hd : d < sizes.length) => (hb d hd).2.2
    refine ⟨(List.range sizes.length).map kmax, ⟨by simp, fun d hd => ?_⟩, ?_⟩
    · rw [coord_map_range _ _ d hd]; exact (hkmax d hd).1
    · rw [linearInit_eq]
      have e := dsum_congr sizes.length
        (fun d => contrib sizes monos unimods omin omax d (coord ((List.range sizes.length).map kmax) d))
        (fun d => if consDim sizes.length monos unimods d then dimRange sizes.length monos unimods omin omax else 0)
        (fun d hd => by rw [coord_map_range _ _ d hd]; exact (hkmax d hd).2)
      rw [e, hsum]; ring

end Tfl.Init
