import TflModel.Model.Dykstra
import TflModel.Lemmas.EdgeworthW
import Mathlib.Tactic.Linarith
import Mathlib.Tactic.Ring
/-!
# The range-dominance group step on the 2-D grid of its two dimensions

`rangeDomGroup M N dom weak i j` (model of `_project_partial_range_dominance`) reads and writes, in
every slice of the other dimensions, only the `(dom, weak)` grid `L a k`. `rdStep` is that step as a
function of the grid alone; `gat_rangeDomGroup` is the bridge. All facts about the step are proved on
`rdStep` and transported.

The constraint of vertex `(i, j)` is the half-space `rdDiff L ≤ 0`,
`rdDiff L = (L i (N−1) − L i 0) − (L (M−1) j − L 0 j)`, with coefficient vector `rdCoef`.
* at every vertex other than the two corners `(0, N−1)` and `(M−1, 0)` the four positions enter with
  coefficients ±1 (or two of them cancel: corners `(0, 0)`, `(M−1, N−1)`), and the step is
  `L − c·rdCoef` with `c = max (rdDiff L / ‖rdCoef‖², 0)`: the exact Euclidean projection (KKT form);
* at `(0, N−1)` and `(M−1, 0)` one position enters twice (coefficient ±2, `‖rdCoef‖² = 6`), the step
  moves only the two other positions by `diff / 2`: it lands on the hyperplane but along an oblique
  direction.
-/
namespace Tfl.Lat
open Tfl

/-- the violation of the range-dominance constraint of vertex `(i, j)` on the grid `L` -/
def rdDiff (M N i j : Nat) (L : Nat → Nat → ℚ) : ℚ :=
  (L i (N-1) - L i 0) - (L (M-1) j - L 0 j)

/-- coefficient of grid position `(a, k)` in `rdDiff` (positions that coincide add up) -/
def rdCoef (M N i j a k : Nat) : ℚ :=
  (if a = i ∧ k = N - 1 then 1 else 0) - (if a = i ∧ k = 0 then 1 else 0)
    - (if a = M - 1 ∧ k = j then 1 else 0) + (if a = 0 ∧ k = j then 1 else 0)

/-- `rangeDomGroup` on the grid of its two dimensions -/
def rdStep (M N i j : Nat) (L : Nat → Nat → ℚ) (a k : Nat) : ℚ :=
  let diff := rdDiff M N i j L
  if (i = 0 ∨ i = M - 1) ∧ (j = 0 ∨ j = N - 1) then
    let corr := max (diff / 2) 0
    let u1 : ℚ := if i = 0 then (if a = M - 1 ∧ k = j then corr else 0)
                    else (if a = 0 ∧ k = j then -corr else 0)
    let u2 : ℚ := if j = 0 then (if a = i ∧ k = N - 1 then -corr else 0)
                    else (if a = i ∧ k = 0 then corr else 0)
    L a k + u1 + u2
  else
    let corr := max (diff / 4) 0
    let u1 : ℚ := if a = i ∧ k = N - 1 then -corr else 0
    let u2 : ℚ := if a = i ∧ k = 0 then corr else 0
    let u3 : ℚ := if a = M - 1 ∧ k = j then corr else 0
    let u4 : ℚ := if a = 0 ∧ k = j then -corr else 0
    L a k + u1 + u2 + u3 + u4

theorem setc_grid4 {m c : Nat} (b : Idx) (h : m ≠ c) (a k x y : Nat) :
    setc (setc (setc (setc b m a) c k) m x) c y = setc (setc b m x) c y := by
  rw [setc_grid_main b h a k x, setc_setc_same]

/-- reading the grid at a grid point of the slice of `b` is reading the grid at `b` -/
theorem gat_grid {m c : Nat} {b : Idx} (hg : GridOK m c b) (w : W) (a k x y : Nat) :
    gat w m c x y (setc (setc b m a) c k) = gat w m c x y b := by
  unfold gat
  rw [setc_grid4 b hg.2.2]

/-- **bridge.** In the slice of any multi-index `b` (two distinct valid dimensions) the tensor-level
group map of the model is `rdStep` applied to the slice's grid. -/
theorem gat_rangeDomGroup (M N dom weak i j : Nat) (w : W) {b : Idx} (hg : GridOK dom weak b)
    (a k : Nat) :
    gat (rangeDomGroup M N dom weak i j w) dom weak a k b
      = rdStep M N i j (fun x y => gat w dom weak x y b) a k := by
  show rangeDomGroup M N dom weak i j w (setc (setc b dom a) weak k) = _
  simp only [rangeDomGroup, rdStep, rdDiff, coord_grid_m hg, coord_grid_c hg, gat_grid hg]
  rfl

/-- the two cases of the correction `max (d / n) 0` -/
theorem rd_corr_cases (d : ℚ) (n : ℚ) (hn : 0 < n) :
    (d ≤ 0 ∧ max (d / n) 0 = 0) ∨ (0 < d ∧ max (d / n) 0 = d / n) := by
  rcases le_or_gt d 0 with h | h
  · exact Or.inl ⟨h, max_eq_right (div_nonpos_of_nonpos_of_nonneg h hn.le)⟩
  · exact Or.inr ⟨h, max_eq_left (div_pos h hn).le⟩

theorem rd_pos3 (M i : Nat) (hM : 2 ≤ M) :
    i = 0 ∨ i = M - 1 ∨ (i ≠ 0 ∧ 0 ≠ i ∧ i ≠ M - 1 ∧ M - 1 ≠ i) := by omega

/-- **feasibility of the step (grid level), all sizes ≥ 2, every vertex.** After the step the
constraint of vertex `(i, j)` holds. -/
theorem rdStep_lands {M N i j : Nat} (hM : 2 ≤ M) (hN : 2 ≤ N) (L : Nat → Nat → ℚ) :
    rdDiff M N i j (rdStep M N i j L) ≤ 0 := by
  have m1 : M - 1 ≠ 0 := by omega
  have m2 : (0:Nat) ≠ M - 1 := by omega
  have n1 : N - 1 ≠ 0 := by omega
  have n2 : (0:Nat) ≠ N - 1 := by omega
  simp only [rdDiff]
  simp only [rdStep]
  generalize hd : rdDiff M N i j L = d
  simp only [rdDiff] at hd
  rcases rd_corr_cases d 2 (by norm_num) with ⟨h0, h2⟩ | ⟨h0, h2⟩ <;>
  rcases rd_corr_cases d 4 (by norm_num) with ⟨h0', h4⟩ | ⟨h0', h4⟩ <;>
  rcases rd_pos3 M i hM with rfl | rfl | ⟨a1, a2, a3, a4⟩ <;>
  rcases rd_pos3 N j hN with rfl | rfl | ⟨b1, b2, b3, b4⟩ <;>
  simp only [h2, h4] <;>
  simp [*] <;>
  linarith

/-- the step removes exactly the violation: the new value of the constraint is `min (old) 0`
(all sizes ≥ 2, every vertex, the two doubled corners included) -/
theorem rdStep_diff {M N i j : Nat} (hM : 2 ≤ M) (hN : 2 ≤ N) (L : Nat → Nat → ℚ) :
    rdDiff M N i j (rdStep M N i j L) = min (rdDiff M N i j L) 0 := by
  have m1 : M - 1 ≠ 0 := by omega
  have m2 : (0:Nat) ≠ M - 1 := by omega
  have n1 : N - 1 ≠ 0 := by omega
  have n2 : (0:Nat) ≠ N - 1 := by omega
  conv_lhs => simp only [rdDiff]
  simp only [rdStep]
  generalize hd : rdDiff M N i j L = d
  simp only [rdDiff] at hd
  rcases rd_corr_cases d 2 (by norm_num) with ⟨h0, h2⟩ | ⟨h0, h2⟩ <;>
  rcases rd_corr_cases d 4 (by norm_num) with ⟨h0', h4⟩ | ⟨h0', h4⟩ <;>
  rcases rd_pos3 M i hM with rfl | rfl | ⟨a1, a2, a3, a4⟩ <;>
  rcases rd_pos3 N j hN with rfl | rfl | ⟨b1, b2, b3, b4⟩ <;>
  simp only [h2, h4] <;>
  (first | rw [min_eq_left h0] | rw [min_eq_right h0.le]) <;>
  simp [*] <;>
  linarith

/-- `rdCoef` is the gradient of the linear form `rdDiff`: its value on the unit grid at `(x, y)` -/
theorem rdDiff_unit (M N i j x y : Nat) :
    rdDiff M N i j (fun a k => if a = x ∧ k = y then 1 else 0) = rdCoef M N i j x y := by
  have e : ∀ (p q : Nat), (if p = x ∧ q = y then (1:ℚ) else 0) = if x = p ∧ y = q then 1 else 0 :=
    fun p q => if_congr ⟨fun h => ⟨h.1.symm, h.2.symm⟩, fun h => ⟨h.1.symm, h.2.symm⟩⟩ rfl rfl
  simp only [rdDiff, rdCoef]
  rw [e i (N-1), e i 0, e (M-1) j, e 0 j]
  ring

/-- the multiplier of the step: `max (diff / ‖rdCoef‖², 0)` at the vertices where `‖rdCoef‖²` is 2
(corners) resp. 4 -/
def rdMult (M N i j : Nat) (L : Nat → Nat → ℚ) : ℚ :=
  if (i = 0 ∨ i = M - 1) ∧ (j = 0 ∨ j = N - 1) then max (rdDiff M N i j L / 2) 0
  else max (rdDiff M N i j L / 4) 0

theorem rdMult_nonneg (M N i j : Nat) (L : Nat → Nat → ℚ) : 0 ≤ rdMult M N i j L := by
  unfold rdMult; split_ifs <;> exact le_max_right _ _

/-- **stationarity at every vertex except the doubled corners `(0, N−1)`, `(M−1, 0)`:** the step is
`L − c · rdCoef` with `c = rdMult ≥ 0` — a move along the normal of the half-space. -/
theorem rdStep_normal {M N i j : Nat} (hM : 2 ≤ M) (hN : 2 ≤ N)
    (h1 : ¬ (i = 0 ∧ j = N - 1)) (h2 : ¬ (i = M - 1 ∧ j = 0)) (L : Nat → Nat → ℚ) (a k : Nat) :
    rdStep M N i j L a k = L a k - rdMult M N i j L * rdCoef M N i j a k := by
  have m1 : M - 1 ≠ 0 := by omega
  have m2 : (0:Nat) ≠ M - 1 := by omega
  have n1 : N - 1 ≠ 0 := by omega
  have n2 : (0:Nat) ≠ N - 1 := by omega
  simp only [rdStep, rdMult, rdCoef]
  generalize max (rdDiff M N i j L / 2) 0 = c2
  generalize max (rdDiff M N i j L / 4) 0 = c4
  rcases rd_pos3 M i hM with rfl | rfl | ⟨a1, a2, a3, a4⟩ <;>
  rcases rd_pos3 N j hN with rfl | rfl | ⟨b1, b2, b3, b4⟩ <;>
  (try simp only [true_and, and_true, not_true_eq_false] at h1 h2) <;>
  simp [*] <;>
  split_ifs <;> simp_all <;> ring

/-! ## the step at a non-doubled vertex is the half-space map `hyperplaneGroup` of joint unimodality -/

/-- the stencil (positions along `[dom, weak]` with integer coefficients) of the constraint of vertex
`(i, j)`; at the corners `(0, 0)` and `(M−1, N−1)` two of the four positions cancel -/
def rdStencil (M N i j : Nat) : List (List Nat × Int) :=
  if (i = 0 ∧ j = 0) ∨ (i = M - 1 ∧ j = N - 1) then [([0, N-1], 1), ([M-1, 0], -1)]
  else [([i, N-1], 1), ([i, 0], -1), ([M-1, j], -1), ([0, j], 1)]

theorem lookup_cons_ite (q p : List Nat) (c : Int) (st : List (List Nat × Int)) :
    List.lookup q ((p, c) :: st) = if q = p then some c else List.lookup q st := by
  by_cases h : q = p
  · subst h; simp [List.lookup]
  · have : (q == p) = false := by simpa using h
    simp [List.lookup, this, h]

/-- looking a grid position up in the stencil gives its coefficient `rdCoef` -/
theorem rdStencil_lookup {M N i j : Nat} (hM : 2 ≤ M) (hN : 2 ≤ N)
    (h1 : ¬ (i = 0 ∧ j = N - 1)) (h2 : ¬ (i = M - 1 ∧ j = 0)) (a k : Nat) (x f : ℚ) :
    (match (rdStencil M N i j).lookup [a, k] with
      | some c => x - f * (c : ℚ)
      | none => x) = x - f * rdCoef M N i j a k := by
  have m1 : M - 1 ≠ 0 := by omega
  have m2 : (0:Nat) ≠ M - 1 := by omega
  have n1 : N - 1 ≠ 0 := by omega
  have n2 : (0:Nat) ≠ N - 1 := by omega
  rcases rd_pos3 M i hM with rfl | rfl | ⟨a1, a2, a3, a4⟩ <;>
  rcases rd_pos3 N j hN with rfl | rfl | ⟨b1, b2, b3, b4⟩ <;>
  (try simp only [true_and, and_true, not_true_eq_false] at h1 h2) <;>
  simp only [rdStencil, rdCoef] <;>
  simp [*, lookup_cons_ite] <;>
  split_ifs <;> simp_all

end Tfl.Lat
