import TflModel.Lemmas.Regularizers
/-! Lemmas for C13, PWL kernels as the code handles them (second audit, row 33): the row-shaped model
(`lapRows`, `hessRows`, `wrinkleRows`: row slices, the wrap-around ROW `-reduce_sum(heights, axis=0)`,
`reduce_sum` over all entries) against the column-shaped one (`pwlReg` over `columns units x`).
For a rectangular matrix, column `u` of the row-shaped term matrix is the column-shaped term list of column
`u`, and the sum over all entries is the sum over the columns of the column sums. -/
namespace Tfl.Reg
open Tfl

/-- every row has `units` entries -/
def Rect (units : Nat) (m : List (List Rat)) : Prop := ∀ r ∈ m, r.length = units

theorem Rect.drop {units : Nat} {m : List (List Rat)} (h : Rect units m) (k : Nat) : Rect units (m.drop k) :=
  fun r hr => h r (List.mem_of_mem_drop hr)
theorem Rect.take {units : Nat} {m : List (List Rat)} (h : Rect units m) (k : Nat) : Rect units (m.take k) :=
  fun r hr => h r (List.mem_of_mem_take hr)
theorem Rect.append {units : Nat} {a b : List (List Rat)} (ha : Rect units a) (hb : Rect units b) :
    Rect units (a ++ b) := by
  intro r hr
  rcases List.mem_append.mp hr with h | h
  · exact ha r h
  · exact hb r h
theorem Rect.single {units : Nat} {r : List Rat} (h : r.length = units) : Rect units [r] := by
  intro s hs; simp only [List.mem_singleton] at hs; subst hs; exact h
theorem rect_wrapRow (units : Nat) (h : List (List Rat)) : Rect units [wrapRow units h] :=
  Rect.single (by simp [wrapRow, colSums])

@[simp] theorem rowDiffs_nil : rowDiffs [] = [] := rfl
@[simp] theorem rowDiffs_single (r : List Rat) : rowDiffs [r] = [] := rfl
@[simp] theorem rowDiffs_cons_cons (r s : List Rat) (t : List (List Rat)) :
    rowDiffs (r :: s :: t) = rowSub s r :: rowDiffs (s :: t) := by
  simp [rowDiffs, List.dropLast]

theorem Rect.rowDiffs {units : Nat} {m : List (List Rat)} (h : Rect units m) : Rect units (rowDiffs m) := by
  induction m with
  | nil => intro r hr; simp at hr
  | cons a t ih =>
    cases t with
    | nil => intro r hr; simp at hr
    | cons b t =>
      intro r hr
      rw [rowDiffs_cons_cons] at hr
      rcases List.mem_cons.mp hr with rfl | hr
      · simp [rowSub, h a (by simp), h b (by simp)]
      · exact ih (fun r hr => h r (List.mem_cons_of_mem _ hr)) r hr

theorem getR_rowSub {r s : List Rat} (h : r.length = s.length) (u : Nat) :
    getR (rowSub r s) u = getR r u - getR s u := by
  have := getR_linComb 1 (-1) h u
  simp only [linComb, one_mul, neg_mul] at this
  have e : rowSub r s = List.zipWith (fun x y => x + -y) r s := by
    unfold rowSub; congr 1; funext a b; ring
  rw [e, this]; ring

/-- column `u` of the row differences = differences of column `u` -/
theorem column_rowDiffs {units : Nat} {m : List (List Rat)} (h : Rect units m) (u : Nat) :
    column u (rowDiffs m) = diffs (column u m) := by
  induction m with
  | nil => rfl
  | cons a t ih =>
    cases t with
    | nil => rfl
    | cons b t =>
      have ih' := ih (fun r hr => h r (List.mem_cons_of_mem _ hr))
      simp only [column, List.map_cons, rowDiffs_cons_cons, diffs_cons_cons] at ih' ⊢
      rw [ih', getR_rowSub (by rw [h a (by simp), h b (by simp)])]

theorem column_append (u : Nat) (a b : List (List Rat)) : column u (a ++ b) = column u a ++ column u b := by
  simp [column]
theorem column_take (u k : Nat) (m : List (List Rat)) : column u (m.take k) = (column u m).take k := by
  simp [column, List.map_take]
theorem column_drop (u k : Nat) (m : List (List Rat)) : column u (m.drop k) = (column u m).drop k := by
  simp [column, List.map_drop]
theorem column_length (u : Nat) (m : List (List Rat)) : (column u m).length = m.length := by simp [column]

/-- the wrap-around row holds, in column `u`, minus the sum of that column's heights -/
theorem column_wrapRow {units u : Nat} (hu : u < units) (h : List (List Rat)) :
    column u [wrapRow units h] = [-(rsum (column u h))] := by
  simp only [column, wrapRow, colSums, List.map_cons, List.map_nil, List.map_map, getR, List.cons.injEq, and_true]
  simp [List.getD, hu]

/-- a row of length `units` listed entry by entry -/
theorem row_eq_map_range {units : Nat} {r : List Rat} (h : r.length = units) :
    r = (List.range units).map (fun u => getR r u) := by
  apply List.ext_getElem
  · simp [h]
  · intro i h1 h2
    simp [getR, List.getD, List.getElem?_eq_getElem h1]

/-- `reduce_sum` over all entries of a rectangular matrix = sum over its columns -/
theorem rsum_flatten_map_rect {units : Nat} {m : List (List Rat)} (h : Rect units m) (f : Rat → Rat) :
    rsum (m.flatten.map f) = rsum ((List.range units).map (fun u => rsum ((column u m).map f))) := by
  have e1 : rsum (m.flatten.map f) = rsum (m.map (fun r => rsum (r.map f))) := by
    rw [List.map_flatten, ← List.flatMap_id', ← rsum_flatMap]
    simp [List.flatMap_map]
  have e2 : ∀ r ∈ m, rsum (r.map f) = rsum ((List.range units).map (fun u => f (getR r u))) := by
    intro r hr
    conv_lhs => rw [row_eq_map_range (h r hr)]
    simp [List.map_map, Function.comp_def]
  rw [e1, rsum_map_congr e2, rsum_comm]
  apply rsum_map_congr
  intro u _
  simp only [column, List.map_map, Function.comp_def]

theorem sumAbs_flatten_rect {units : Nat} {m : List (List Rat)} (h : Rect units m) :
    sumAbs m.flatten = rsum ((List.range units).map (fun u => sumAbs (column u m))) :=
  rsum_flatten_map_rect h Rat.abs
theorem sumSq_flatten_rect {units : Nat} {m : List (List Rat)} (h : Rect units m) :
    sumSq m.flatten = rsum ((List.range units).map (fun u => sumSq (column u m))) :=
  rsum_flatten_map_rect h (fun x => x * x)

theorem pwlRegRows_eq (l1 l2 : Rat) (t : List (List Rat)) :
    pwlRegRows l1 l2 t = l1 * sumAbs t.flatten + l2 * sumSq t.flatten := by
  unfold pwlRegRows
  split
  · rename_i h
    simp only [Bool.and_eq_true, beq_iff_eq] at h
    simp [h.1, h.2]
  · exact combine_eq ..

/-- generic step: a rectangular term matrix whose column `u` is `terms (column u x)` for every `u < units`
gives the column-shaped regularizer of `columns units x` -/
theorem pwlRegRows_eq_pwlReg {units : Nat} (l1 l2 : Rat) (terms : List Rat → List Rat) (x T : List (List Rat))
    (hT : Rect units T) (hcol : ∀ u, u < units → column u T = terms (column u x)) :
    pwlRegRows l1 l2 T = pwlReg terms l1 l2 (columns units x) := by
  rw [pwlRegRows_eq, pwlReg_eq, sumAbs_flatten_rect hT, sumSq_flatten_rect hT, sumAbs_flatMap, sumSq_flatMap]
  simp only [columns, List.map_map, Function.comp_def]
  congr 2
  · apply rsum_map_congr; intro u hu; rw [hcol u (List.mem_range.mp hu)]
  · apply rsum_map_congr; intro u hu; rw [hcol u (List.mem_range.mp hu)]

/-! ### the three term matrices, column by column -/
theorem rect_lapRows {units : Nat} (cyc : Bool) {x : List (List Rat)} (h : Rect units x) :
    Rect units (lapRows cyc units x) := by
  unfold lapRows
  cases cyc
  · simpa using h.drop 1
  · simpa using (h.drop 1).append (rect_wrapRow units _)

theorem column_lapRows {units u : Nat} (hu : u < units) (cyc : Bool) (x : List (List Rat)) :
    column u (lapRows cyc units x) = pwlLapTerms cyc (column u x) := by
  unfold lapRows pwlLapTerms
  cases cyc
  · simp only [Bool.false_eq_true, if_false, column_drop]
  · simp only [if_true, column_append, column_wrapRow hu, column_drop]

theorem rect_hessRows {units : Nat} (cyc : Bool) {x : List (List Rat)} (h : Rect units x) :
    Rect units (hessRows cyc units x) := by
  unfold hessRows
  cases cyc
  · simpa using (h.drop 1).rowDiffs
  · simpa using (((h.drop 1).append (rect_wrapRow units _)).append ((h.drop 1).take 1)).rowDiffs

theorem column_hessRows {units u : Nat} (hu : u < units) (cyc : Bool) {x : List (List Rat)} (h : Rect units x) :
    column u (hessRows cyc units x) = pwlHessTerms cyc (column u x) := by
  unfold hessRows pwlHessTerms
  cases cyc
  · simp only [Bool.false_eq_true, if_false, column_rowDiffs (h.drop 1), column_drop]
  · simp only [if_true]
    rw [column_rowDiffs (((h.drop 1).append (rect_wrapRow units _)).append ((h.drop 1).take 1))]
    simp only [column_append, column_wrapRow hu, column_drop, column_take]

theorem rect_wrinkleRows {units : Nat} (cyc : Bool) {x : List (List Rat)} (h : Rect units x) :
    Rect units (wrinkleRows cyc units x) := by
  unfold wrinkleRows
  split
  · intro r hr; simp at hr
  · cases cyc
    · simpa using (h.drop 1).rowDiffs.rowDiffs
    · simpa using ((((h.drop 1).append (rect_wrapRow units _)).append ((h.drop 1).take 1)).append
        (((h.drop 1).drop 1).take 1)).rowDiffs.rowDiffs

theorem column_wrinkleRows {units u : Nat} (hu : u < units) (cyc : Bool) {x : List (List Rat)} (h : Rect units x) :
    column u (wrinkleRows cyc units x) = pwlWrinkleTerms cyc (column u x) := by
  unfold wrinkleRows pwlWrinkleTerms
  rw [column_length]
  split
  · rfl
  · cases cyc
    · simp only [Bool.false_eq_true, if_false]
      rw [column_rowDiffs (h.drop 1).rowDiffs, column_rowDiffs (h.drop 1), column_drop]
    · simp only [if_true]
      have hr := (((h.drop 1).append (rect_wrapRow units (x.drop 1))).append ((h.drop 1).take 1)).append
        (((h.drop 1).drop 1).take 1)
      rw [column_rowDiffs hr.rowDiffs, column_rowDiffs hr]
      simp only [column_append, column_wrapRow hu, column_drop, column_take]

end Tfl.Reg
