import TflModel.Lemmas.InitializersMore
/-! C10-T4: the KFL initialisers establish the premises of C07 (`KernelOk`, `BoundOkK`, `SOk`). -/
namespace Tfl.Init
open Tfl Tfl.Kfl

theorem sgn_sq (s : ℚ) : 0 ≤ sgn s * sgn s ∧ sgn s * sgn s ≤ 1 := by
  rcases sgn_cases s with ⟨_, h⟩ | ⟨_, h⟩ | ⟨_, h⟩ <;> rw [h] <;> norm_num

theorem nondec_of_pairwise : ∀ (l : List ℚ), l.Pairwise (· ≤ ·) → Nondec l
  | [], _ => trivial
  | [_], _ => trivial
  | x :: y :: r, h => by
    rw [List.pairwise_cons] at h
    exact ⟨h.1 y (List.mem_cons_self ..), nondec_of_pairwise (y :: r) h.2⟩

theorem pairwise_map_mul (c : ℚ) (hc : 0 ≤ c) (l : List ℚ) (h : l.Pairwise (· ≤ ·)) :
    (l.map (fun y => c * y)).Pairwise (· ≤ ·) := by
  rw [List.pairwise_map]
  exact h.imp (fun hab => mul_le_mul_of_nonneg_left hab hc)

theorem length_kflInitDim (dir : ℚ) (m : Bool) (sample : List ℚ) :
    (kflInitDim dir m sample).length = sample.length := by
  unfold kflInitDim; cases m <;> simp [length_isort]

/-- every initial weight is `sign(scale)² · (a uniform draw)` -/
theorem mem_kflInitDim {dir : ℚ} {m : Bool} {sample : List ℚ} {v : ℚ} (hv : v ∈ kflInitDim dir m sample) :
    ∃ x ∈ sample, v = dir * dir * x := by
  unfold kflInitDim at hv
  cases m
  · simp only [Bool.false_eq_true, if_false, List.map_map, List.mem_map, Function.comp] at hv
    obtain ⟨x, hx, rfl⟩ := hv
    exact ⟨x, hx, by ring⟩
  · simp only [if_true, List.mem_map] at hv
    obtain ⟨y, hy, rfl⟩ := hv
    obtain ⟨x, hx, rfl⟩ := List.mem_map.mp (mem_isort.mp hy)
    exact ⟨x, hx, by ring⟩

/-- monotone dimension: `sign(scale) ·` column is non-decreasing (sorted, then multiplied by `sign²`) -/
theorem nondec_kflInitDim (s : ℚ) (sample : List ℚ) :
    Nondec ((kflInitDim (sgn s) true sample).map (sgn s * ·)) := by
  unfold kflInitDim
  simp only [if_true, List.map_map]
  apply nondec_of_pairwise
  have : ((fun x => sgn s * x) ∘ fun x => sgn s * x) = fun y => (sgn s * sgn s) * y := by
    funext y; simp only [Function.comp]; ring
  rw [this]
  exact pairwise_map_mul _ (sgn_sq s).1 _ (pairwise_isort _)

/-- the uniform draws of one `(unit, term)` block: one column of `L` values in `[lo, hi]` per dimension -/
def SamplesOk (L : Nat) (ms : List Bool) (lo hi : ℚ) (samples : List (List ℚ)) : Prop :=
  samples.length = ms.length ∧ ∀ col ∈ samples, col.length = L ∧ ∀ x ∈ col, lo ≤ x ∧ x ≤ hi

theorem dimsOk_zipWith (L : Nat) (s lo hi : ℚ) (hlo : 0 ≤ lo) :
    ∀ (ms : List Bool) (samples : List (List ℚ)), SamplesOk L ms lo hi samples →
      DimsOk L (sgn s) ms (List.zipWith (kflInitDim (sgn s)) ms samples)
  | [], [], _ => trivial
  | [], _ :: _, h => by simp [SamplesOk] at h
  | _ :: _, [], h => by simp [SamplesOk] at h
  | m :: ms, col :: rest, h => by
    have hc := h.2 col (List.mem_cons_self ..)
    simp only [List.zipWith_cons_cons, DimsOk]
    refine ⟨⟨?_, ?_⟩, dimsOk_zipWith L s lo hi hlo ms rest
      ⟨by simpa using h.1, fun c hcm => h.2 c (List.mem_cons_of_mem _ hcm)⟩⟩
    · intro v hv
      obtain ⟨x, hx, rfl⟩ := mem_kflInitDim hv
      exact mul_nonneg (sgn_sq s).1 (le_trans hlo (hc.2 x hx).1)
    · intro hm
      subst hm
      exact ⟨by rw [length_kflInitDim]; exact hc.1, nondec_kflInitDim s col⟩

theorem kernelOk_kflInit (L : Nat) (ms : List Bool) (hany : ms.any id = true) (lo hi : ℚ) (hlo : 0 ≤ lo) :
    ∀ (scale : List ℚ) (samples : List (List (List ℚ))), (∀ smp ∈ samples, SamplesOk L ms lo hi smp) →
      KernelOk L ms scale (kflInit ms scale samples)
  | [], _, _ => by simp [kflInit, KernelOk]
  | _ :: _, [], _ => by simp [kflInit, KernelOk]
  | s :: ss, smp :: rest, h => by
    simp only [kflInit, KernelOk, kflInitTerm, hany, if_true]
    exact ⟨dimsOk_zipWith L s lo hi hlo ms smp (h smp (List.mem_cons_self ..)),
      kernelOk_kflInit L ms hany lo hi hlo ss rest (fun x hx => h x (List.mem_cons_of_mem _ hx))⟩

/-- entries of an initial term block are draws scaled by `sign² ∈ {0, 1}` -/
theorem mem_kflInitTerm {ms : List Bool} {s : ℚ} {samples : List (List ℚ)} {k : List ℚ} {v : ℚ}
    (hk : k ∈ kflInitTerm ms s samples) (hv : v ∈ k) :
    ∃ col ∈ samples, ∃ x ∈ col, ∃ c : ℚ, 0 ≤ c ∧ c ≤ 1 ∧ v = c * x := by
  unfold kflInitTerm at hk
  split at hk
  · obtain ⟨i, hi, rfl⟩ := List.mem_iff_getElem.mp hk
    simp only [List.getElem_zipWith] at hv
    obtain ⟨x, hx, rfl⟩ := mem_kflInitDim hv
    simp only [List.length_zipWith] at hi
    exact ⟨samples[i]'(by omega), List.getElem_mem _, x, hx, _, (sgn_sq s).1, (sgn_sq s).2, rfl⟩
  · exact ⟨k, hk, v, hv, 1, by norm_num, by norm_num, by ring⟩

theorem mem_kflInit {ms : List Bool} : ∀ {scale : List ℚ} {samples : List (List (List ℚ))} {kt : List (List ℚ)},
    kt ∈ kflInit ms scale samples → ∃ s smp, smp ∈ samples ∧ kt = kflInitTerm ms s smp
  | [], _, _, h => by simp [kflInit] at h
  | _ :: _, [], _, h => by simp [kflInit] at h
  | s :: ss, smp :: rest, kt, h => by
    simp only [kflInit, List.mem_cons] at h
    rcases h with rfl | h
    · exact ⟨s, smp, List.mem_cons_self .., rfl⟩
    · obtain ⟨s', smp', hm, e⟩ := mem_kflInit h
      exact ⟨s', smp', List.mem_cons_of_mem _ hm, e⟩

theorem maxAbs_le_one : ∀ (k : List ℚ), (∀ v ∈ k, |v| ≤ 1) → maxAbs k ≤ 1
  | [], _ => by simp [maxAbs]
  | x :: xs, h => by
    simp only [maxAbs]
    exact max_le (by rw [Tfl.Poset.ratAbs_eq]; exact h x (List.mem_cons_self ..))
      (maxAbs_le_one xs (fun v hv => h v (List.mem_cons_of_mem _ hv)))

theorem maxOutput_le_one : ∀ (kt : List (List ℚ)), (∀ k ∈ kt, ∀ v ∈ k, |v| ≤ 1) → maxOutput kt ≤ 1
  | [], _ => by simp [maxOutput, rprod]
  | k :: ks, h => by
    rw [maxOutput_cons]
    have h1 := maxAbs_le_one k (h k (List.mem_cons_self ..))
    have h2 := maxOutput_le_one ks (fun k' hk' => h k' (List.mem_cons_of_mem _ hk'))
    have h3 := maxAbs_nonneg k
    have h4 := maxOutput_nonneg ks
    nlinarith

/-- bound-side premise of C07 for the initial kernel: draws from `[0, 1]` when a bound is set -/
theorem boundOkK_kflInit (L : Nat) (ms : List Bool) (olo ohi : Option ℚ) (scale : List ℚ)
    (samples : List (List (List ℚ)))
    (h : ∀ smp ∈ samples, SamplesOk L ms (kflDefaultInitParams olo ohi).1 (kflDefaultInitParams olo ohi).2 smp) :
    BoundOkK olo ohi (kflInit ms scale samples) := by
  intro kt hkt
  obtain ⟨s, smp, hsmp, rfl⟩ := mem_kflInit hkt
  have hs := h smp hsmp
  have hent : ∀ k ∈ kflInitTerm ms s smp, ∀ v ∈ k, ∃ x c : ℚ,
      (kflDefaultInitParams olo ohi).1 ≤ x ∧ x ≤ (kflDefaultInitParams olo ohi).2 ∧ 0 ≤ c ∧ c ≤ 1 ∧ v = c * x := by
    intro k hk v hv
    obtain ⟨col, hcol, x, hx, c, hc0, hc1, rfl⟩ := mem_kflInitTerm hk hv
    exact ⟨x, c, ((hs.2 col hcol).2 x hx).1, ((hs.2 col hcol).2 x hx).2, hc0, hc1, rfl⟩
  unfold TermBoundOk
  cases olo <;> cases ohi <;> simp only [kflDefaultInitParams] at hent ⊢
  · intro k hk v hv
    obtain ⟨x, c, h1, _, h3, _, rfl⟩ := hent k hk v hv
    exact mul_nonneg h3 h1
  · intro k hk v hv
    obtain ⟨x, c, h1, _, h3, _, rfl⟩ := hent k hk v hv
    exact mul_nonneg h3 h1
  · apply maxOutput_le_one
    intro k hk v hv
    obtain ⟨x, c, h1, h2, h3, h4, rfl⟩ := hent k hk v hv
    rw [abs_le]; constructor <;> nlinarith

/-- scale-side premise of C07 for `scale_initializer` -/
theorem sOk_scaleInit (T : Nat) (olo ohi : Option ℚ) (hlh : ∀ l h, olo = some l → ohi = some h → l ≤ h) :
    SOk olo ohi (scaleInit T olo ohi) := by
  unfold SOk scaleInit
  cases olo <;> cases ohi <;> simp only
  · intro s hs; rw [(List.mem_replicate.mp hs).2]; norm_num
  · intro s hs; rw [(List.mem_replicate.mp hs).2]; norm_num
  · rename_i l h
    have := hlh l h rfl rfl
    intro s hs
    obtain ⟨t, _, rfl⟩ := List.mem_map.mp hs
    split <;> rw [abs_le] <;> constructor <;> linarith

end Tfl.Init
