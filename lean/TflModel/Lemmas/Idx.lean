import TflModel.Model.Core
import Mathlib.Tactic.Linarith
import Mathlib.Algebra.Order.Field.Rat
import Mathlib.Order.Lattice
import Mathlib.Data.List.Basic
/-! Multi-index lemmas: `coord` / `setc`, the box `InRange`, `allIdx`, tables. -/
namespace Tfl

@[simp] theorem length_setc (idx : Idx) (d v : Nat) : (setc idx d v).length = idx.length := by
  simp [setc]
@[simp] theorem coord_setc_same {idx : Idx} {d : Nat} (v : Nat) (h : d < idx.length) :
    coord (setc idx d v) d = v := by
  simp [coord, setc, List.getD, h]
@[simp] theorem coord_setc_ne {idx : Idx} {d d' : Nat} (v : Nat) (h : d ≠ d') :
    coord (setc idx d v) d' = coord idx d' := by
  simp [coord, setc, List.getD, List.getElem?_set_ne h]
@[simp] theorem setc_setc_same (idx : Idx) (d a b : Nat) : setc (setc idx d a) d b = setc idx d b := by
  simp [setc]
theorem setc_comm (idx : Idx) {d d' : Nat} (a b : Nat) (h : d ≠ d') :
    setc (setc idx d a) d' b = setc (setc idx d' b) d a := by
  simp [setc, List.set_comm _ _ h]
theorem setc_coord_self {idx : Idx} {d : Nat} (h : d < idx.length) : setc idx d (coord idx d) = idx := by
  simp [setc, coord, List.getD, h]
theorem setc_eq_self {idx : Idx} {d v : Nat} (h : d < idx.length) (hv : coord idx d = v) :
    setc idx d v = idx := by rw [← hv]; exact setc_coord_self h

/-- `idx` is a vertex of the box `sizes` -/
def InRange (sizes : List Nat) (idx : Idx) : Prop :=
  idx.length = sizes.length ∧ ∀ d, d < sizes.length → coord idx d < sizes.getD d 0

theorem inRange_setc {sizes : List Nat} {idx : Idx} {d v : Nat} (hr : InRange sizes idx)
    (hv : v < sizes.getD d 0) : InRange sizes (setc idx d v) := by
  refine ⟨by simpa using hr.1, fun d' hd' => ?_⟩
  by_cases h : d = d'
  · subst h; rw [coord_setc_same _ (by rw [hr.1]; exact hd')]; exact hv
  · rw [coord_setc_ne _ h]; exact hr.2 d' hd'

theorem mem_allIdx {sizes : List Nat} {idx : Idx} : idx ∈ allIdx sizes ↔ InRange sizes idx := by
  induction sizes generalizing idx with
  | nil =>
    simp only [allIdx, List.mem_singleton, InRange, List.length_nil]
    constructor
    · rintro rfl; exact ⟨rfl, fun d h => absurd h (Nat.not_lt_zero _)⟩
    · rintro ⟨h, _⟩; exact List.eq_nil_of_length_eq_zero h
  | cons n ns ih =>
    simp only [allIdx, List.mem_flatMap, List.mem_range, List.mem_map]
    constructor
    · rintro ⟨i, hi, t, ht, rfl⟩
      have := ih.mp ht
      refine ⟨by simp [this.1], fun d hd => ?_⟩
      cases d with
      | zero => simpa [coord] using hi
      | succ d =>
        have h2 := this.2 d (by simpa using hd)
        simpa [coord] using h2
    · rintro ⟨hl, hc⟩
      cases idx with
      | nil => simp at hl
      | cons i t =>
        refine ⟨i, by simpa [coord] using hc 0 (by simp), t, ?_, rfl⟩
        apply ih.mpr
        refine ⟨by simpa using hl, fun d hd => ?_⟩
        have := hc (d+1) (by simpa using hd)
        simpa [coord] using this

/-! ### tables -/
theorem lookup_map_self (l : List Idx) (f : W) (idx : Idx) (h : idx ∈ l) :
    (l.map (fun i => (i, f i))).lookup idx = some (f idx) := by
  induction l with
  | nil => cases h
  | cons a as ih =>
    simp only [List.map_cons, List.lookup_cons]
    by_cases e : idx = a
    · subst e; simp
    · have : (idx == a) = false := by simpa using e
      simp only [this]
      exact ih (by rcases List.mem_cons.mp h with h | h; exact absurd h e; exact h)

/-- on the box a tabulated function answers exactly like the function -/
theorem get_tabulate (sizes : List Nat) (f : W) (idx : Idx) (h : idx ∈ allIdx sizes) :
    (tabulate sizes f).get idx = f idx := by
  simp [Table.get, tabulate, lookup_map_self _ f idx h]

theorem get_tabulate' {sizes : List Nat} (f : W) {idx : Idx} (h : InRange sizes idx) :
    (tabulate sizes f).get idx = f idx := get_tabulate sizes f idx (mem_allIdx.mpr h)

/-- two tensors agree on every vertex of the box -/
def AgreeOn (sizes : List Nat) (f g : W) : Prop := ∀ idx, InRange sizes idx → f idx = g idx

theorem agreeOn_tabulate (sizes : List Nat) (f : W) : AgreeOn sizes (tabulate sizes f).get f :=
  fun _ h => get_tabulate' f h
theorem AgreeOn.symm {sizes : List Nat} {f g : W} (h : AgreeOn sizes f g) : AgreeOn sizes g f :=
  fun i hi => (h i hi).symm
theorem AgreeOn.trans {sizes : List Nat} {f g k : W} (h1 : AgreeOn sizes f g) (h2 : AgreeOn sizes g k) :
    AgreeOn sizes f k := fun i hi => (h1 i hi).trans (h2 i hi)
theorem AgreeOn.refl (sizes : List Nat) (f : W) : AgreeOn sizes f f := fun _ _ => rfl

/-- a stage whose in-box outputs depend only on in-box inputs -/
def Local (sizes : List Nat) (S : W → W) : Prop :=
  ∀ f g, AgreeOn sizes f g → AgreeOn sizes (S f) (S g)

theorem runStage_agree {sizes : List Nat} {S : W → W} (hS : Local sizes S) {t : Table} {f : W}
    (h : AgreeOn sizes t.get f) : AgreeOn sizes (runStage sizes S t).get (S f) :=
  (agreeOn_tabulate sizes (S t.get)).trans (hS _ _ h)

/-- executable fold (tabulating after every step) agrees on the box with the function-level fold -/
theorem foldl_runStage_agree {α : Type} {sizes : List Nat} (S : W → α → W)
    (hS : ∀ a, Local sizes (fun w => S w a)) (l : List α) :
    ∀ {t : Table} {f : W}, AgreeOn sizes t.get f →
      AgreeOn sizes (l.foldl (fun t a => runStage sizes (fun w => S w a) t) t).get (l.foldl S f) := by
  induction l with
  | nil => intro t f h; exact h
  | cons a l ih => intro t f h; exact ih (runStage_agree (hS a) h)

/-- monotone (non-decreasing) along axis `d` on the box `sizes` -/
def MonoAx (sizes : List Nat) (d : Nat) (w : W) : Prop :=
  ∀ idx, InRange sizes idx → d < sizes.length → coord idx d + 1 < sizes.getD d 0 →
    w idx ≤ w (setc idx d (coord idx d + 1))

theorem MonoAx.congr {sizes : List Nat} {d : Nat} {f g : W} (h : AgreeOn sizes f g)
    (hf : MonoAx sizes d f) : MonoAx sizes d g := by
  intro idx hr hd hlt
  rw [← h idx hr, ← h _ (inRange_setc hr hlt)]
  exact hf idx hr hd hlt

end Tfl
