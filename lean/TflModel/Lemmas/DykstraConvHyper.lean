import TflModel.Lemmas.DykstraConvStencil
import TflModel.Lemmas.JointUnimod
import TflModel.Lemmas.IdxReg
/-!
# Half-space projection over a finite stencil, and the joint-unimodality groups

* `hs_identity`, `hs_scalar`, `hs_lands_scalar`: for ANY coefficient vector `a ≠ 0` over a finite
  stencil, `v ↦ v − clip(a·v)/(a·a) · a` (`clip = min(·,0)` for the half-space `a·x ≥ 0`,
  `max(·,0)` for `a·x ≤ 0`) lands in the half-space, fixes it, and satisfies the projection's
  variational inequality.
* `hyperplaneGroup_lands / _fix / _vi`: the group map of `_project_onto_hyperplane` applies that
  projection in every slice of the non-constrained dimensions; slices are disjoint, so the map lands
  in the set of kernels satisfying the inequality in every slice and satisfies the box-sum
  variational inequality — it IS the Euclidean projection onto that set.
-/
namespace Tfl.DykConv
open Tfl Tfl.Lat

/-! ## the stencil level -/

/-- the half-space of direction `valley` (`a·x ≥ 0`) or peak (`a·x ≤ 0`), as a condition on `a·x` -/
def JuQ {K : Type*} [Zero K] [LE K] (valley : Bool) (s : K) : Prop := if valley then 0 ≤ s else s ≤ 0

/-- `min(s, 0)` (valley) or `max(s, 0)` (peak) -/
def clipV {K : Type*} [Zero K] [LinearOrder K] (valley : Bool) (s : K) : K := if valley then min s 0 else max s 0

variable {K : Type*} [Field K] [LinearOrder K] [IsStrictOrderedRing K]

omit [LinearOrder K] [IsStrictOrderedRing K] in
theorem hs_identity {ι : Type*} (l : List ι) (a v y : ι → K) (c : K) :
    (l.map (fun i => (v i - (v i - c * a i)) * (y i - (v i - c * a i)))).sum
      = c * ((l.map (fun i => a i * y i)).sum - (l.map (fun i => a i * v i)).sum
          + c * (l.map (fun i => a i * a i)).sum) := by
  induction l with
  | nil => simp
  | cons i l ih => simp only [List.map_cons, List.sum_cons, ih]; ring

omit [LinearOrder K] [IsStrictOrderedRing K] in
theorem hs_dot_identity {ι : Type*} (l : List ι) (a v : ι → K) (c : K) :
    (l.map (fun i => a i * (v i - c * a i))).sum
      = (l.map (fun i => a i * v i)).sum - c * (l.map (fun i => a i * a i)).sum := by
  induction l with
  | nil => simp
  | cons i l ih => simp only [List.map_cons, List.sum_cons, ih]; ring

/-- the variational inequality of the half-space projection, in terms of the three dot products -/
theorem hs_scalar (valley : Bool) (s N Sy : K) (hN : 0 < N) (hy : JuQ valley Sy) :
    (clipV valley s / N) * (Sy - s + (clipV valley s / N) * N) ≤ 0 := by
  have hc : clipV valley s / N * N = clipV valley s := div_mul_cancel₀ _ hN.ne'
  rw [hc]
  cases valley
  · simp only [JuQ, Bool.false_eq_true, if_false] at hy
    simp only [clipV, Bool.false_eq_true, if_false, max_def]
    split_ifs with h
    · simp
    · have h' : 0 < s := not_le.mp h
      have : 0 ≤ s / N := div_nonneg h'.le hN.le
      have e : Sy - s + s = Sy := by ring
      rw [e]
      exact mul_nonpos_of_nonneg_of_nonpos this hy
  · simp only [JuQ, if_true] at hy
    simp only [clipV, if_true, min_def]
    split_ifs with h
    · have : s / N ≤ 0 := div_nonpos_of_nonpos_of_nonneg h hN.le
      have e : Sy - s + s = Sy := by ring
      rw [e]
      exact mul_nonpos_of_nonpos_of_nonneg this hy
    · simp

/-- the projected point lies in the half-space -/
theorem hs_lands_scalar (valley : Bool) (s N : K) (hN : 0 < N) :
    JuQ valley (s - (clipV valley s / N) * N) := by
  rw [div_mul_cancel₀ _ hN.ne']
  cases valley
  · simp only [JuQ, clipV, Bool.false_eq_true, if_false, max_def]; split_ifs <;> linarith
  · simp only [JuQ, clipV, if_true, min_def]; split_ifs <;> linarith

omit [IsStrictOrderedRing K] in
/-- a point of the half-space is not moved -/
theorem clipV_of_feasible {valley : Bool} {s : K} (h : JuQ valley s) : clipV valley s = 0 := by
  cases valley
  · simp only [JuQ, Bool.false_eq_true, if_false] at h
    simp only [clipV, Bool.false_eq_true, if_false]; exact max_eq_right h
  · simp only [JuQ, if_true] at h
    simp only [clipV, if_true]; exact min_eq_right h

theorem sum_sq_pos {ι : Type*} (l : List ι) (a : ι → K) (h : ∃ i ∈ l, a i ≠ 0) :
    0 < (l.map (fun i => a i * a i)).sum := by
  induction l with
  | nil => obtain ⟨i, hi, _⟩ := h; cases hi
  | cons j l ih =>
    simp only [List.map_cons, List.sum_cons]
    have hnn : 0 ≤ (l.map (fun i => a i * a i)).sum :=
      List.sum_nonneg (fun x hx => by
        obtain ⟨i, _, rfl⟩ := List.mem_map.mp hx; exact mul_self_nonneg _)
    obtain ⟨i, hi, hne⟩ := h
    rcases List.mem_cons.mp hi with rfl | hi
    · have : 0 < a i * a i := mul_self_pos.mpr hne
      linarith
    · have := ih ⟨i, hi, hne⟩
      have := mul_self_nonneg (a j)
      linarith

/-! ## the group level -/
section Group
variable {sizes : List Nat} {dims : List Nat} {valley : Bool} {st : List (List Nat × Int)}

/-- `a · y` over the stencil of the slice of `idx`, for a real kernel -/
def juDotR (dims : List Nat) (st : List (List Nat × Int)) (y : Idx → ℝ) (idx : Idx) : ℝ :=
  (st.map (fun pc => (pc.2 : ℝ) * y (setcs idx dims pc.1))).sum

/-- the constraint set of a joint-unimodality group: the half-space inequality in every slice -/
def HyperF (sizes dims : List Nat) (valley : Bool) (st : List (List Nat × Int)) (y : Idx → ℝ) : Prop :=
  ∀ idx, InRange sizes idx → JuQ valley (juDotR dims st y idx)

/-- the correction factor `clip(a·w)/(a·a)` the model computes in the slice of `idx`, as a real -/
noncomputable def juFactor (dims : List Nat) (valley : Bool) (st : List (List Nat × Int)) (w : W) (idx : Idx) : ℝ :=
  clipV valley (juDotR dims st (fun i => (w i : ℝ)) idx) / (st.map (fun pc => (pc.2 : ℝ) * (pc.2 : ℝ))).sum

theorem lookup_of_mem {st : List (List Nat × Int)} (hn : (st.map Prod.fst).Nodup) {pc : List Nat × Int}
    (h : pc ∈ st) : st.lookup pc.1 = some pc.2 := by
  induction st with
  | nil => cases h
  | cons q st ih =>
    simp only [List.map_cons, List.nodup_cons] at hn
    rcases List.mem_cons.mp h with rfl | h
    · simp [List.lookup]
    · have hne : pc.1 ≠ q.1 := fun e => hn.1 (e ▸ List.mem_map.mpr ⟨pc, h, rfl⟩)
      have : (pc.1 == q.1) = false := by simpa using hne
      simp only [List.lookup, this]
      exact ih hn.2 h

theorem lookup_none_of_notin {st : List (List Nat × Int)} {k : List Nat} (h : k ∉ st.map Prod.fst) :
    st.lookup k = none := by
  induction st with
  | nil => rfl
  | cons q st ih =>
    simp only [List.map_cons, List.mem_cons, not_or] at h
    have : (k == q.1) = false := by simpa using h.1
    simp only [List.lookup, this]
    exact ih h.2

/-- the model's value, cast to ℝ: `w − factor · a` at a stencil point, `w` elsewhere -/
theorem hyperplaneGroup_cast (dims : List Nat) (valley : Bool) (st : List (List Nat × Int)) (w : W) (idx : Idx) :
    ((hyperplaneGroup dims valley st w idx : ℚ) : ℝ)
      = match st.lookup (coordsOf idx dims) with
        | some a => (w idx : ℝ) - juFactor dims valley st w idx * (a : ℝ)
        | none => (w idx : ℝ) := by
  simp only [hyperplaneGroup]
  cases st.lookup (coordsOf idx dims) with
  | none => rfl
  | some a =>
    simp only [juFactor, juDotR, clipV, rsum_eq_sum]
    cases valley <;> simp [Rat.cast_list_sum, Function.comp_def]

variable (hn : dims.Nodup) (hd : ∀ d ∈ dims, d < sizes.length) (hst : StencilOK sizes dims st)
include hn hd hst

omit hd in
/-- reading the stencil from any point of a slice gives the slice's values -/
theorem juDotR_setcs (y : Idx → ℝ) {b : Idx} {pos : List Nat} (hp : pos.length = dims.length) :
    juDotR dims st y (setcs b dims pos) = juDotR dims st y b := by
  unfold juDotR
  refine congrArg List.sum (List.map_congr_left (fun pc hpc => ?_))
  rw [setcs_setcs hn hp (hst.pos pc hpc).length_eq]

omit hd in
theorem juFactor_setcs (w : W) {b : Idx} {pos : List Nat} (hp : pos.length = dims.length) :
    juFactor dims valley st w (setcs b dims pos) = juFactor dims valley st w b := by
  unfold juFactor
  rw [juDotR_setcs hn hst _ hp]

/-- value of the group map on the stencil point `pc` of the slice of `b` -/
theorem hyperplaneGroup_at (w : W) {b : Idx} (hb : InRange sizes b) {pc : List Nat × Int} (hpc : pc ∈ st) :
    ((hyperplaneGroup dims valley st w (setcs b dims pc.1) : ℚ) : ℝ)
      = (w (setcs b dims pc.1) : ℝ) - juFactor dims valley st w b * (pc.2 : ℝ) := by
  have hl : ∀ d ∈ dims, d < b.length := fun d hdd => by rw [hb.1]; exact hd d hdd
  have hp := (hst.pos pc hpc).length_eq
  rw [hyperplaneGroup_cast, coordsOf_setcs hn hl hp, lookup_of_mem hst.nodup hpc]
  simp only
  rw [juFactor_setcs hn hst w hp]

omit hn hd in
theorem sumsq_pos : 0 < (st.map (fun pc => (pc.2 : ℝ) * (pc.2 : ℝ))).sum := by
  obtain ⟨pc, hpc, hne⟩ := hst.nonzero
  exact sum_sq_pos st (fun pc => (pc.2 : ℝ)) ⟨pc, hpc, by exact_mod_cast hne⟩

/-- **lands**: the output satisfies the half-space inequality in every slice -/
theorem hyperplaneGroup_lands (w : W) :
    HyperF sizes dims valley st (fun idx => ((hyperplaneGroup dims valley st w idx : ℚ) : ℝ)) := by
  intro idx hr
  have e : juDotR dims st (fun i => ((hyperplaneGroup dims valley st w i : ℚ) : ℝ)) idx
      = (st.map (fun pc => (pc.2 : ℝ) * ((w (setcs idx dims pc.1) : ℝ)
          - juFactor dims valley st w idx * (pc.2 : ℝ)))).sum := by
    unfold juDotR
    refine congrArg List.sum (List.map_congr_left (fun pc hpc => ?_))
    simp only [hyperplaneGroup_at hn hd hst w hr hpc]
  rw [e, hs_dot_identity st (fun pc => (pc.2 : ℝ)) (fun pc => (w (setcs idx dims pc.1) : ℝ))]
  exact hs_lands_scalar valley _ _ (sumsq_pos hst)

omit hn hd hst in
/-- **fixes feasible**: a kernel satisfying the inequality in the slice of `idx` is not moved there -/
theorem hyperplaneGroup_fix (w : W) {idx : Idx}
    (h : JuQ valley (juDotR dims st (fun i => (w i : ℝ)) idx)) :
    ((hyperplaneGroup dims valley st w idx : ℚ) : ℝ) = (w idx : ℝ) := by
  rw [hyperplaneGroup_cast]
  cases st.lookup (coordsOf idx dims) with
  | none => rfl
  | some a => simp only [juFactor, clipV_of_feasible h, zero_div, zero_mul, sub_zero]

/-- **variational inequality on the box**: slices are disjoint, the box sum splits into the stencil
sums of the slices, each `≤ 0` by the half-space inequality of the stencil. -/
theorem hyperplaneGroup_vi (w : W) (y : Idx → ℝ) (hy : HyperF sizes dims valley st y) :
    bsum sizes (fun idx => ((w idx : ℝ) - ((hyperplaneGroup dims valley st w idx : ℚ) : ℝ))
      * (y idx - ((hyperplaneGroup dims valley st w idx : ℚ) : ℝ))) ≤ 0 := by
  classical
  set G : Idx → ℝ := fun idx => ((hyperplaneGroup dims valley st w idx : ℚ) : ℝ) with hG
  set t : Idx → ℝ := fun idx => ((w idx : ℝ) - G idx) * (y idx - G idx) with ht
  set B := (allIdx sizes).toFinset with hB
  set Pset := (st.map Prod.fst).toFinset with hP
  obtain ⟨pc0, hpc0, _⟩ := hst.nonzero
  have hlen : ∀ {b : Idx}, InRange sizes b → ∀ d ∈ dims, d < b.length :=
    fun hb d hdd => by rw [hb.1]; exact hd d hdd
  -- vertices outside every stencil are not moved
  have t0 : ∀ idx, coordsOf idx dims ∉ Pset → t idx = 0 := by
    intro idx hnot
    have : G idx = (w idx : ℝ) := by
      simp only [hG]
      rw [hyperplaneGroup_cast, lookup_none_of_notin (by simpa [hP] using hnot)]
    simp only [ht, this, sub_self, zero_mul]
  rw [bsum_eq_finset]
  have h1 : ∑ idx ∈ B, t idx = ∑ idx ∈ B.filter (fun idx => coordsOf idx dims ∈ Pset), t idx := by
    refine (Finset.sum_filter_of_ne (fun idx _ hne => ?_)).symm
    by_contra hnot
    exact hne (t0 idx hnot)
  rw [h1]
  -- re-index by (slice representative, stencil position)
  set F0 := B.filter (fun idx => coordsOf idx dims = pc0.1) with hF0
  have h2 : ∑ idx ∈ B.filter (fun idx => coordsOf idx dims ∈ Pset), t idx
      = ∑ x ∈ F0 ×ˢ Pset, t (setcs x.1 dims x.2) := by
    symm
    refine Finset.sum_nbij' (fun x => setcs x.1 dims x.2)
      (fun idx => (setcs idx dims pc0.1, coordsOf idx dims)) ?_ ?_ ?_ ?_ ?_
    · rintro ⟨b, p⟩ hx
      obtain ⟨hb, hp⟩ := Finset.mem_product.mp hx
      obtain ⟨hbB, _⟩ := Finset.mem_filter.mp hb
      have hbr := mem_box.mp hbB
      obtain ⟨pc, hpc, rfl⟩ := List.mem_map.mp (List.mem_toFinset.mp hp)
      refine Finset.mem_filter.mpr ⟨mem_box.mpr (inRange_setcs hbr (hst.pos pc hpc)), ?_⟩
      simp only
      rw [coordsOf_setcs hn (hlen hbr) (hst.pos pc hpc).length_eq]
      exact hp
    · intro idx hi
      obtain ⟨hiB, hip⟩ := Finset.mem_filter.mp hi
      have hir := mem_box.mp hiB
      refine Finset.mem_product.mpr ⟨Finset.mem_filter.mpr
        ⟨mem_box.mpr (inRange_setcs hir (hst.pos pc0 hpc0)), ?_⟩, hip⟩
      exact coordsOf_setcs hn (hlen hir) (hst.pos pc0 hpc0).length_eq
    · rintro ⟨b, p⟩ hx
      obtain ⟨hb, hp⟩ := Finset.mem_product.mp hx
      obtain ⟨hbB, hb0⟩ := Finset.mem_filter.mp hb
      have hbr := mem_box.mp hbB
      obtain ⟨pc, hpc, rfl⟩ := List.mem_map.mp (List.mem_toFinset.mp hp)
      simp only
      rw [setcs_setcs hn (hst.pos pc hpc).length_eq (hst.pos pc0 hpc0).length_eq,
        coordsOf_setcs hn (hlen hbr) (hst.pos pc hpc).length_eq, ← hb0, setcs_coordsOf (hlen hbr)]
    · intro idx hi
      obtain ⟨hiB, _⟩ := Finset.mem_filter.mp hi
      have hir := mem_box.mp hiB
      simp only
      rw [setcs_setcs hn (hst.pos pc0 hpc0).length_eq (by simp [coordsOf]),
        setcs_coordsOf (hlen hir)]
    · intro x _; rfl
  rw [h2, Finset.sum_product]
  refine Finset.sum_nonpos (fun b hb => ?_)
  obtain ⟨hbB, _⟩ := Finset.mem_filter.mp hb
  have hbr := mem_box.mp hbB
  -- the inner sum is the stencil sum of the slice of `b`
  have h3 : ∑ p ∈ Pset, t (setcs b dims p) = (st.map (fun pc => t (setcs b dims pc.1))).sum := by
    rw [hP, List.sum_toFinset _ hst.nodup, List.map_map]; rfl
  rw [h3]
  have h4 : st.map (fun pc => t (setcs b dims pc.1))
      = st.map (fun pc => ((w (setcs b dims pc.1) : ℝ)
          - ((w (setcs b dims pc.1) : ℝ) - juFactor dims valley st w b * (pc.2 : ℝ)))
        * (y (setcs b dims pc.1)
          - ((w (setcs b dims pc.1) : ℝ) - juFactor dims valley st w b * (pc.2 : ℝ)))) := by
    refine List.map_congr_left (fun pc hpc => ?_)
    simp only [ht, hG]
    rw [hyperplaneGroup_at hn hd hst w hbr hpc]
  rw [h4, hs_identity st (fun pc => (pc.2 : ℝ)) (fun pc => (w (setcs b dims pc.1) : ℝ))
    (fun pc => y (setcs b dims pc.1))]
  exact hs_scalar valley _ _ _ (sumsq_pos hst) (hy b hbr)

omit hn hd in
theorem hyperF_local (y y' : Idx → ℝ) (h : ∀ idx, InRange sizes idx → y idx = y' idx)
    (hy : HyperF sizes dims valley st y) : HyperF sizes dims valley st y' := by
  intro idx hr
  have : juDotR dims st y' idx = juDotR dims st y idx := by
    unfold juDotR
    refine congrArg List.sum (List.map_congr_left (fun pc hpc => ?_))
    rw [h _ (inRange_setcs hr (hst.pos pc hpc))]
  rw [this]
  exact hy idx hr

end Group

theorem JuQ_closed (valley : Bool) : IsClosed {s : ℝ | JuQ valley s} := by
  cases valley
  · simp only [JuQ, Bool.false_eq_true, if_false]; exact isClosed_Iic
  · simp only [JuQ, if_true]; exact isClosed_Ici

theorem hyperF_closed (sizes dims : List Nat) (valley : Bool) (st : List (List Nat × Int)) :
    IsClosed {y : Idx → ℝ | HyperF sizes dims valley st y} := by
  have : {y : Idx → ℝ | HyperF sizes dims valley st y} = ⋂ idx, ⋂ (_ : InRange sizes idx),
      {y : Idx → ℝ | JuQ valley (juDotR dims st y idx)} := by
    ext y; simp [HyperF]
  rw [this]
  refine isClosed_iInter (fun idx => isClosed_iInter (fun _ => ?_))
  have hc : Continuous (fun y : Idx → ℝ => juDotR dims st y idx) := by
    unfold juDotR
    exact continuous_list_sum st (fun pc _ => continuous_const.mul (continuous_apply _))
  exact (JuQ_closed valley).preimage hc

theorem hyperF_zero (sizes dims : List Nat) (valley : Bool) (st : List (List Nat × Int)) :
    HyperF sizes dims valley st (fun _ => 0) := by
  intro idx _
  have : juDotR dims st (fun _ => (0 : ℝ)) idx = 0 := by
    unfold juDotR
    apply List.sum_eq_zero
    intro x hx
    obtain ⟨pc, _, rfl⟩ := List.mem_map.mp hx
    simp
  rw [this]
  cases valley <;> simp [JuQ]

end Tfl.DykConv
