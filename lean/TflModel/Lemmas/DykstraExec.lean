import TflModel.Model.Dykstra
import TflModel.Lemmas.LatticeExec
import TflModel.Lemmas.JointUnimod
/-! Executable Dykstra loop (`dykstraPassT` / `dykstraIterT`): table algebra, locality of every
group map of `Tfl.Lat.groups` (in-box outputs depend only on in-box inputs), and the agreement of
the table loop with the function-level loop on the box. -/
namespace Tfl.Lat
open Tfl

/-! ### tables: tabulation only sees the box -/

theorem tabulate_congr {sizes : List Nat} {f g : W} (h : AgreeOn sizes f g) :
    tabulate sizes f = tabulate sizes g := by
  unfold tabulate
  exact List.map_congr_left (fun idx hi => by rw [h idx (mem_allIdx.mp hi)])

theorem vals_tabulate (sizes : List Nat) (f : W) : Table.vals sizes (tabulate sizes f) = (allIdx sizes).map f := by
  unfold Table.vals
  exact List.map_congr_left (fun idx hi => get_tabulate sizes f idx hi)

theorem vals_eq_of_agree {sizes : List Nat} {t u : Table} (h : AgreeOn sizes t.get u.get) :
    Table.vals sizes t = Table.vals sizes u := by
  unfold Table.vals
  exact List.map_congr_left (fun idx hi => h idx (mem_allIdx.mp hi))

theorem agree_of_vals_eq {sizes : List Nat} {t u : Table} (h : Table.vals sizes t = Table.vals sizes u) :
    AgreeOn sizes t.get u.get := by
  intro idx hr
  exact List.map_inj_left.mp h idx (mem_allIdx.mpr hr)

/-- a table is normalised when it is the tabulation of its own lookup function (every table the
loop produces is) -/
def Normal (sizes : List Nat) (t : Table) : Prop := t = tabulate sizes t.get

theorem normal_tabulate (sizes : List Nat) (f : W) : Normal sizes (tabulate sizes f) :=
  (tabulate_congr (agreeOn_tabulate sizes f)).symm

theorem subT_zeroT (sizes : List Nat) (t : Table) : subT sizes t (zeroT sizes) = tabulate sizes t.get := by
  unfold subT
  apply tabulate_congr
  intro idx hr
  simp only [zeroT, get_tabulate' _ hr, sub_zero]

theorem subT_self (sizes : List Nat) (t : Table) : subT sizes t t = zeroT sizes := by
  unfold subT zeroT
  apply tabulate_congr
  intro idx _; simp

theorem subT_agree (sizes : List Nat) (a b : Table) :
    AgreeOn sizes (subT sizes a b).get (fun idx => a.get idx - b.get idx) := agreeOn_tabulate _ _

/-! ### locality of the group maps -/

theorem inGroup_lt {g n i : Nat} (h : inGroup g n i = true) : i + 1 < n := by
  simp only [inGroup, Bool.and_eq_true, decide_eq_true_eq] at h; exact h.1.2

theorem stencilBase_some {g n a i0 : Nat} (h : stencilBase g n a = some i0) :
    i0 + 1 < n ∧ (a = i0 ∨ a = i0 + 1) := by
  unfold stencilBase at h
  split_ifs at h with h1 h2
  · cases h; exact ⟨inGroup_lt h1, Or.inl rfl⟩
  · cases h; exact ⟨inGroup_lt h2.2, Or.inr (by omega)⟩

theorem rev_lt {N : Nat} (pos : Bool) {j : Nat} (h : j < N) : rev N pos j < N := by
  unfold rev; split_ifs <;> omega

theorem monoGroup_local (sizes : List Nat) (mono : Bool) (unimod : Int) (d g : Nat) :
    Local sizes (monoGroup (sizes.getD d 0) mono unimod d g) := by
  intro f f' h idx hr
  simp only [monoGroup]
  split_ifs with h1 h2
  · rw [h idx hr, h _ (inRange_setc hr (inGroup_lt h1))]
  · rw [h idx hr, h _ (inRange_setc hr (by have := inGroup_lt h2.2; omega))]
  · exact h idx hr


theorem edgeworthGroup_local (sizes : List Nat) (tr : Trust) (g0 g1 : Nat) :
    Local sizes (edgeworthGroup (sizes.getD tr.main 0) (sizes.getD tr.cond 0) tr g0 g1) := by
  intro f f' h idx hr
  simp only [edgeworthGroup]
  cases h0 : stencilBase g0 (sizes.getD tr.main 0) (coord idx tr.main) with
  | none => simpa using h idx hr
  | some i0 =>
    cases h1 : stencilBase g1 (sizes.getD tr.cond 0) (rev (sizes.getD tr.cond 0) tr.pos (coord idx tr.cond)) with
    | none => simpa using h idx hr
    | some j0 =>
      have hi := (stencilBase_some h0).1
      have hj := (stencilBase_some h1).1
      have r0 := rev_lt tr.pos (Nat.lt_of_succ_lt hj)
      have r1 := rev_lt tr.pos hj
      simp only [gat_agree h hr hi r0, gat_agree h hr (Nat.lt_of_succ_lt hi) r0, gat_agree h hr hi r1,
        gat_agree h hr (Nat.lt_of_succ_lt hi) r1, h idx hr]

theorem inRange_pos {sizes : List Nat} {idx : Idx} (hr : InRange sizes idx) {d : Nat} (hd : d < sizes.length) :
    0 < sizes.getD d 0 := by have := hr.2 d hd; omega

/-- `gat_agree` when the main axis may lie outside the rank (then `setc` is the identity) -/
theorem gat_agree' {sizes : List Nat} {f g : W} (h : AgreeOn sizes f g) {m c i j : Nat} {b : Idx}
    (hb : InRange sizes b) (hi : m < sizes.length → i < sizes.getD m 0) (hj : j < sizes.getD c 0) :
    gat f m c i j b = gat g m c i j b := by
  by_cases hm : m < sizes.length
  · exact gat_agree h hb (hi hm) hj
  · have : setc b m i = b := by
      unfold setc; exact List.set_eq_of_length_le (by rw [hb.1]; omega)
    simp only [gat, this]
    exact h _ (inRange_setc hb hj)

theorem trapezoidGroup_local (sizes : List Nat) (tr : Trust) (g : Nat) :
    Local sizes (trapezoidGroup (sizes.getD tr.main 0) (sizes.getD tr.cond 0) tr g) := by
  intro f f' h idx hr
  simp only [trapezoidGroup]
  cases h1 : stencilBase g (sizes.getD tr.cond 0) (rev (sizes.getD tr.cond 0) tr.pos (coord idx tr.cond)) with
  | none => simpa using h idx hr
  | some j0 =>
    have hj := (stencilBase_some h1).1
    have r0 := rev_lt tr.pos (Nat.lt_of_succ_lt hj)
    have r1 := rev_lt tr.pos hj
    have hM : tr.main < sizes.length → 0 < sizes.getD tr.main 0 := fun hd => inRange_pos hr hd
    have hM1 : tr.main < sizes.length → sizes.getD tr.main 0 - 1 < sizes.getD tr.main 0 := fun hd => by
      have := hM hd; omega
    simp only [gat_agree' h hr hM r0, gat_agree' h hr hM r1, gat_agree' h hr hM1 r0, gat_agree' h hr hM1 r1,
      h idx hr]

theorem monoDomGroup_local (sizes : List Nat) (dom weak g0 g1 : Nat) (g2 : Bool) :
    Local sizes (monoDomGroup (sizes.getD dom 0) (sizes.getD weak 0) dom weak g0 g1 g2) := by
  intro f f' h idx hr
  simp only [monoDomGroup]
  cases h0 : stencilBase g0 (sizes.getD dom 0) (coord idx dom) with
  | none => simpa using h idx hr
  | some i0 =>
    cases h1 : stencilBase g1 (sizes.getD weak 0) (coord idx weak) with
    | none => simpa using h idx hr
    | some j0 =>
      have hi := (stencilBase_some h0).1
      have hj := (stencilBase_some h1).1
      simp only [gat_agree h hr hi hj, gat_agree h hr (Nat.lt_of_succ_lt hi) hj,
        gat_agree h hr hi (Nat.lt_of_succ_lt hj), gat_agree h hr (Nat.lt_of_succ_lt hi) (Nat.lt_of_succ_lt hj),
        h idx hr]

theorem jointMonoGroup_local (sizes : List Nat) (d1 d2 g0 g1 : Nat) (g2 : Bool) :
    Local sizes (jointMonoGroup (sizes.getD d1 0) (sizes.getD d2 0) d1 d2 g0 g1 g2) := by
  intro f f' h idx hr
  simp only [jointMonoGroup]
  cases h0 : stencilBase g0 (sizes.getD d1 0) (coord idx d1) with
  | none => simpa using h idx hr
  | some i0 =>
    cases h1 : stencilBase g1 (sizes.getD d2 0) (coord idx d2) with
    | none => simpa using h idx hr
    | some j0 =>
      have hi := (stencilBase_some h0).1
      have hj := (stencilBase_some h1).1
      simp only [gat_agree h hr hi hj, gat_agree h hr (Nat.lt_of_succ_lt hi) hj,
        gat_agree h hr hi (Nat.lt_of_succ_lt hj), gat_agree h hr (Nat.lt_of_succ_lt hi) (Nat.lt_of_succ_lt hj),
        h idx hr]

theorem rangeDomGroup_local (sizes : List Nat) (dom weak i j : Nat) (hi : i < sizes.getD dom 0)
    (hj : j < sizes.getD weak 0) :
    Local sizes (rangeDomGroup (sizes.getD dom 0) (sizes.getD weak 0) dom weak i j) := by
  intro f f' h idx hr
  have hM1 : sizes.getD dom 0 - 1 < sizes.getD dom 0 := by omega
  have hN1 : sizes.getD weak 0 - 1 < sizes.getD weak 0 := by omega
  have hM0 : 0 < sizes.getD dom 0 := by omega
  have hN0 : 0 < sizes.getD weak 0 := by omega
  simp only [rangeDomGroup, gat_agree h hr hi hN1, gat_agree h hr hi hN0, gat_agree h hr hM1 hj,
    gat_agree h hr hM0 hj, h idx hr]


/-- **every group projection the Dykstra loop visits is local**: on the box its output depends only
on the input's values on the box (all stencil reads stay inside the lattice). -/
theorem groups_local (c : DCfg) : ∀ P ∈ groups c, Local c.sizes P := by
  intro P hP
  simp only [groups, List.mem_append, List.mem_flatMap, List.mem_range] at hP
  rcases hP with (((((hP | hP) | hP) | hP) | hP) | hP) | hP
  · obtain ⟨d, _, hP⟩ := hP
    split_ifs at hP
    · cases hP
    · obtain ⟨g, _, rfl⟩ := List.mem_map.mp hP
      exact monoGroup_local c.sizes _ _ d g
  · obtain ⟨tr, _, hP⟩ := hP
    obtain ⟨g, _, rfl⟩ := List.mem_map.mp hP
    exact edgeworthGroup_local c.sizes tr g.1 g.2
  · obtain ⟨tr, _, hP⟩ := hP
    obtain ⟨g, _, rfl⟩ := List.mem_map.mp hP
    exact trapezoidGroup_local c.sizes tr g
  · obtain ⟨p, _, hP⟩ := hP
    obtain ⟨g, _, rfl⟩ := List.mem_map.mp hP
    exact monoDomGroup_local c.sizes p.1 p.2 g.1 g.2.1 g.2.2
  · obtain ⟨p, _, i, hi, hP⟩ := hP
    obtain ⟨j, hj, rfl⟩ := List.mem_map.mp hP
    exact rangeDomGroup_local c.sizes p.1 p.2 i j hi (List.mem_range.mp hj)
  · obtain ⟨p, _, hP⟩ := hP
    obtain ⟨g, _, rfl⟩ := List.mem_map.mp hP
    exact jointMonoGroup_local c.sizes p.1 p.2 g.1 g.2.1 g.2.2
  · obtain ⟨ju, _, vertex, hv, hP⟩ := hP
    obtain ⟨offs, ho, hst⟩ := List.mem_filterMap.mp hP
    cases hs : juStencil (ju.dims.map (sz c)) vertex offs with
    | none => rw [hs] at hst; cases hst
    | some st =>
      rw [hs] at hst
      simp only [Option.map_some, Option.some.injEq] at hst
      subst hst
      have hok := juStencil_ok (sizes := c.sizes) (mem_allIdx.mp hv)
        (by simpa using mem_offsetsAll ho) hs
      exact hyperplaneGroup_local c.sizes ju.dims ju.valley st hok.pos

/-- membership in the joint-unimodality part of the schedule -/
theorem mem_juGroups {c : DCfg} {ju : JointUni} {vertex : List Nat} {offs : List Int}
    {st : List (List Nat × Int)} (hv : vertex ∈ allIdx (ju.dims.map (sz c)))
    (ho : offs ∈ offsetsAll ju.dims.length) (hs : juStencil (ju.dims.map (sz c)) vertex offs = some st) :
    StencilOK c.sizes ju.dims st :=
  juStencil_ok (sizes := c.sizes) (mem_allIdx.mp hv) (by simpa using mem_offsetsAll ho) hs


/-! ### the executable loop on a kernel that every group map fixes on the box -/

theorem runStage_fix {sizes : List Nat} {P : W → W} {t : Table} (ht : Normal sizes t)
    (h : AgreeOn sizes (P t.get) t.get) : runStage sizes P t = t := by
  unfold runStage
  rw [tabulate_congr h]; exact ht.symm

/-- normalised table, every group fixes it on the box: one pass returns literally the same state -/
theorem dykstraPassT_fix (sizes : List Nat) (ps : List (W → W)) (t : Table) (ht : Normal sizes t)
    (h : ∀ P ∈ ps, AgreeOn sizes (P t.get) t.get) :
    dykstraPassT sizes ps t (ps.map (fun _ => zeroT sizes)) = (t, ps.map (fun _ => zeroT sizes)) := by
  induction ps with
  | nil => rfl
  | cons P r ih =>
    have hr : subT sizes t (zeroT sizes) = t := by rw [subT_zeroT]; exact ht.symm
    simp only [dykstraPassT, List.map_cons, List.headD_cons, List.tail_cons, hr,
      runStage_fix ht (h P (List.mem_cons_self ..)), subT_self]
    rw [ih (fun Q hQ => h Q (List.mem_cons_of_mem _ hQ))]

theorem dykstraIterT_fix (sizes : List Nat) (ps : List (W → W)) (t : Table) (ht : Normal sizes t)
    (h : ∀ P ∈ ps, AgreeOn sizes (P t.get) t.get) (n : Nat) :
    dykstraIterT sizes ps n (t, ps.map (fun _ => zeroT sizes)) = (t, ps.map (fun _ => zeroT sizes)) := by
  induction n with
  | zero => rfl
  | succ n ih => simp only [dykstraIterT, dykstraPassT_fix sizes ps t ht h]; exact ih

/-- hypotheses transported to the normalised copy of the table -/
theorem fix_on_normalised {sizes : List Nat} {P : W → W} (hP : Local sizes P) {t : Table}
    (h : AgreeOn sizes (P t.get) t.get) :
    AgreeOn sizes (P (tabulate sizes t.get).get) (tabulate sizes t.get).get :=
  ((hP _ _ (agreeOn_tabulate sizes t.get)).trans h).trans (agreeOn_tabulate sizes t.get).symm

/-- ANY table (normalised or not): after the first pass the state is the normalised copy -/
theorem dykstraPassT_fix_any (sizes : List Nat) (ps : List (W → W)) (t : Table) (hne : ps ≠ [])
    (hloc : ∀ P ∈ ps, Local sizes P) (h : ∀ P ∈ ps, AgreeOn sizes (P t.get) t.get) :
    dykstraPassT sizes ps t (ps.map (fun _ => zeroT sizes))
      = (tabulate sizes t.get, ps.map (fun _ => zeroT sizes)) := by
  have h0 : ∀ P ∈ ps, AgreeOn sizes (P (tabulate sizes t.get).get) (tabulate sizes t.get).get :=
    fun P hP => fix_on_normalised (hloc P hP) (h P hP)
  have hn := normal_tabulate sizes t.get
  cases ps with
  | nil => exact absurd rfl hne
  | cons P r =>
    simp only [dykstraPassT, List.map_cons, List.headD_cons, List.tail_cons, subT_zeroT,
      runStage_fix hn (h0 P (List.mem_cons_self ..)), subT_self]
    rw [dykstraPassT_fix sizes r _ hn (fun Q hQ => h0 Q (List.mem_cons_of_mem _ hQ))]

theorem dykstraIterT_fix_any (sizes : List Nat) (ps : List (W → W)) (t : Table)
    (hloc : ∀ P ∈ ps, Local sizes P) (h : ∀ P ∈ ps, AgreeOn sizes (P t.get) t.get) (n : Nat) :
    Table.vals sizes (dykstraIterT sizes ps n (t, ps.map (fun _ => zeroT sizes))).1 = Table.vals sizes t := by
  cases n with
  | zero => rfl
  | succ n =>
    by_cases hne : ps = []
    · subst hne
      have : ∀ m, dykstraIterT sizes [] m (t, []) = (t, []) := by
        intro m; induction m with
        | zero => rfl
        | succ m ih => simpa [dykstraIterT, dykstraPassT] using ih
      simpa using congrArg (fun s => Table.vals sizes s.1) (this (n + 1))
    · simp only [dykstraIterT, dykstraPassT_fix_any sizes ps t hne hloc h]
      rw [dykstraIterT_fix sizes ps _ (normal_tabulate sizes t.get)
        (fun P hP => fix_on_normalised (hloc P hP) (h P hP))]
      rw [vals_tabulate]; rfl


/-! ### the executable loop computes, on the box, the function-level loop (any state) -/

/-- the `last_change` tables agree entry by entry with the function-level `last_change` tensors -/
def AgreeL (sizes : List Nat) (ts : List Table) (cs : List W) : Prop :=
  List.Forall₂ (fun t c => AgreeOn sizes (Table.get t) c) ts cs

theorem agreeL_zero (sizes : List Nat) {α : Type} (l : List α) :
    AgreeL sizes (l.map (fun _ => zeroT sizes)) (l.map (fun _ => fun _ => (0 : ℚ))) := by
  induction l with
  | nil => exact List.Forall₂.nil
  | cons a l ih => exact List.Forall₂.cons (agreeOn_tabulate sizes _) ih

theorem dykstraPassT_agree (sizes : List Nat) (ps : List (W → W)) (hloc : ∀ P ∈ ps, Local sizes P) :
    ∀ {t : Table} {w : W} {ts : List Table} {cs : List W}, AgreeOn sizes t.get w → AgreeL sizes ts cs →
      AgreeOn sizes (dykstraPassT sizes ps t ts).1.get (dykstraPass ps w cs).1 ∧
        AgreeL sizes (dykstraPassT sizes ps t ts).2 (dykstraPass ps w cs).2 := by
  induction ps with
  | nil => intro t w ts cs hw _; exact ⟨hw, List.Forall₂.nil⟩
  | cons P r ih =>
    intro t w ts cs hw hc
    have hhd : AgreeOn sizes (ts.headD (zeroT sizes)).get (cs.headD (fun _ => 0)) := by
      cases hc with
      | nil => exact agreeOn_tabulate sizes _
      | cons h _ => exact h
    have htl : AgreeL sizes ts.tail cs.tail := by
      cases hc with
      | nil => exact List.Forall₂.nil
      | cons _ h => exact h
    have hrolled : AgreeOn sizes (subT sizes t (ts.headD (zeroT sizes))).get
        (fun idx => w idx - (cs.headD (fun _ => 0)) idx) := by
      intro idx hr
      rw [subT_agree sizes _ _ idx hr]
      show t.get idx - _ = _
      rw [hw idx hr, hhd idx hr]
    have hw' := runStage_agree (hloc P (List.mem_cons_self ..)) hrolled
    have hch : AgreeOn sizes
        (subT sizes (runStage sizes P (subT sizes t (ts.headD (zeroT sizes))))
          (subT sizes t (ts.headD (zeroT sizes)))).get
        (visit P w (cs.headD (fun _ => 0))).2 := by
      intro idx hr
      rw [subT_agree sizes _ _ idx hr]
      show (runStage sizes P _).get idx - _ = _
      rw [hw' idx hr, hrolled idx hr]
      rfl
    obtain ⟨h1, h2⟩ := ih (fun Q hQ => hloc Q (List.mem_cons_of_mem _ hQ)) hw' htl
    exact ⟨h1, List.Forall₂.cons hch h2⟩

theorem dykstraIterT_agree (sizes : List Nat) (ps : List (W → W)) (hloc : ∀ P ∈ ps, Local sizes P) (n : Nat) :
    ∀ {t : Table} {w : W} {ts : List Table} {cs : List W}, AgreeOn sizes t.get w → AgreeL sizes ts cs →
      AgreeOn sizes (dykstraIterT sizes ps n (t, ts)).1.get (dykstraIter ps n (w, cs)).1 ∧
        AgreeL sizes (dykstraIterT sizes ps n (t, ts)).2 (dykstraIter ps n (w, cs)).2 := by
  induction n with
  | zero => intro t w ts cs hw hc; exact ⟨hw, hc⟩
  | succ n ih =>
    intro t w ts cs hw hc
    obtain ⟨h1, h2⟩ := dykstraPassT_agree sizes ps hloc hw hc
    exact ih h1 h2

end Tfl.Lat
