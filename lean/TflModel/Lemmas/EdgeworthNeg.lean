import TflModel.Lemmas.Edgeworth
/-! C01-T2 for direction -1: sweep from the top-right square down, lowering the bottom-left point. -/
namespace Tfl.Lat
open Tfl

theorem gat_estepNeg (bs : List Idx) (m c : Nat) (w : W) (p : Nat × Nat) {b : Idx} (hb : GridOK m c b)
    (a j : Nat) :
    gat (estepNeg bs m c w p) m c a j b =
      if a = p.1 ∧ j = p.2 then gat w m c a j b - maxOver bs (fun b => - eviol w m c p.1 p.2 b)
      else gat w m c a j b := by
  simp only [gat, estepNeg, coord_grid_m hb, coord_grid_c hb]

theorem estepNeg_fixes (bs : List Idx) (m c : Nat) (w : W) (i j : Nat) {b : Idx} (hb : b ∈ bs)
    (hg : GridOK m c b) : 0 ≤ eviol (estepNeg bs m c w (i, j)) m c i j b := by
  have h : - eviol w m c (i, j).1 (i, j).2 b ≤ maxOver bs (fun b => - eviol w m c (i, j).1 (i, j).2 b) :=
    le_maxOver bs (fun b => - eviol w m c (i, j).1 (i, j).2 b) hb
  unfold eviol
  rw [gat_estepNeg bs m c w _ hg, gat_estepNeg bs m c w _ hg, gat_estepNeg bs m c w _ hg,
    gat_estepNeg bs m c w _ hg]
  generalize maxOver bs (fun b => - eviol w m c (i, j).1 (i, j).2 b) = V at h ⊢
  simp only [eviol] at h
  have e1 : ¬ (i + 1 = i) := by omega
  have e2 : ¬ (j + 1 = j) := by omega
  simp only [e1, e2, false_and, and_false, if_false, and_self, if_true]
  linarith
theorem estepNeg_other (bs : List Idx) (m c : Nat) (w : W) (i j i' j' : Nat) {b : Idx}
    (hg : GridOK m c b) (h : ¬ ((i' = i ∨ i' + 1 = i) ∧ (j' = j ∨ j' + 1 = j))) :
    eviol (estepNeg bs m c w (i, j)) m c i' j' b = eviol w m c i' j' b := by
  simp only [eviol, gat_estepNeg bs m c w _ hg]
  split_ifs <;> first | rfl | (exfalso; omega)

theorem sweepNeg_good (bs : List Idx) (m c : Nat) (hbs : ∀ b ∈ bs, GridOK m c b) (ps : List (Nat × Nat))
    (hs : ps.Pairwise (fun p q => lexlt q p)) :
    ∀ (w : W) (done : List (Nat × Nat)),
      (∀ p ∈ done, ∀ q ∈ ps, lexlt q p) →
      (∀ p ∈ done, ∀ b ∈ bs, 0 ≤ eviol w m c p.1 p.2 b) →
      ∀ p, (p ∈ done ∨ p ∈ ps) → ∀ b ∈ bs, 0 ≤ eviol (ps.foldl (estepNeg bs m c) w) m c p.1 p.2 b := by
  induction ps with
  | nil => intro w done _ hg p hp b hb; simpa using hg p (by simpa using hp) b hb
  | cons q qs ih =>
    intro w done hlt hg p hp b hb
    rw [List.pairwise_cons] at hs
    simp only [List.foldl_cons]
    apply ih hs.2 (estepNeg bs m c w q) (done ++ [q])
    · intro p' hp' r hr
      rcases List.mem_append.mp hp' with h | h
      · exact hlt p' h r (List.mem_cons_of_mem _ hr)
      · simp at h; subst h; exact hs.1 r hr
    · intro p' hp' b' hb'
      rcases List.mem_append.mp hp' with h | h
      · have hl := hlt p' h q (List.mem_cons_self ..)
        rw [show q = (q.1, q.2) from rfl,
          estepNeg_other bs m c w q.1 q.2 p'.1 p'.2 (hbs b' hb') (by unfold lexlt at hl; omega)]
        exact hg p' h b' hb'
      · simp at h; subst h; exact estepNeg_fixes bs m c w _ _ hb' (hbs b' hb')
    · rcases hp with h | h
      · exact Or.inl (List.mem_append_left _ h)
      · rcases List.mem_cons.mp h with h | h
        · exact Or.inl (by simp [h])
        · exact Or.inr h
    · exact hb

def esweepNeg (bs : List Idx) (m c M N : Nat) (w : W) : W :=
  (pairsLex M N).reverse.foldl (estepNeg bs m c) w

/-- after the direction-(-1) sweep every square satisfies the reversed inequality -/
theorem esweepNeg_edgeworth (bs : List Idx) (m c M N : Nat) (hbs : ∀ b ∈ bs, GridOK m c b) (w : W)
    {i j : Nat} (hi : i + 1 < M) (hj : j + 1 < N) {b : Idx} (hb : b ∈ bs) :
    0 ≤ eviol (esweepNeg bs m c M N w) m c i j b := by
  have hp : (pairsLex M N).reverse.Pairwise (fun p q => lexlt q p) :=
    List.pairwise_reverse.mpr (pairsLex_pairwise M N)
  have := sweepNeg_good bs m c hbs _ hp w [] (by simp) (by simp)
    (i, j) (Or.inr (by simpa using mem_pairsLex.mpr ⟨hi, hj⟩)) b hb
  simpa [esweepNeg] using this

/-- the last column / last row are never modified -/
theorem gat_foldNeg_lastcol (bs : List Idx) (m c N : Nat) (ps : List (Nat × Nat))
    (hps : ∀ p ∈ ps, p.2 + 1 < N) (w : W) (a : Nat) {b : Idx} (hg : GridOK m c b) :
    gat (ps.foldl (estepNeg bs m c) w) m c a (N-1) b = gat w m c a (N-1) b := by
  induction ps generalizing w with
  | nil => rfl
  | cons q qs ih =>
    simp only [List.foldl_cons]
    rw [ih (fun p hp => hps p (List.mem_cons_of_mem _ hp)), gat_estepNeg _ _ _ _ _ hg]
    have := hps q (List.mem_cons_self ..)
    split_ifs with h
    · exfalso; omega
    · rfl
theorem gat_foldNeg_lastrow (bs : List Idx) (m c M : Nat) (ps : List (Nat × Nat))
    (hps : ∀ p ∈ ps, p.1 + 1 < M) (w : W) (j : Nat) {b : Idx} (hg : GridOK m c b) :
    gat (ps.foldl (estepNeg bs m c) w) m c (M-1) j b = gat w m c (M-1) j b := by
  induction ps generalizing w with
  | nil => rfl
  | cons q qs ih =>
    simp only [List.foldl_cons]
    rw [ih (fun p hp => hps p (List.mem_cons_of_mem _ hp)), gat_estepNeg _ _ _ _ _ hg]
    have := hps q (List.mem_cons_self ..)
    split_ifs with h
    · exfalso; omega
    · rfl

theorem gat_foldNeg_behind (bs : List Idx) (m c : Nat) (ps : List (Nat × Nat)) (w : W) (a j : Nat) {b b' : Idx}
    (hg : GridOK m c b) (hg' : GridOK m c b') :
    gat (ps.foldl (estepNeg bs m c) w) m c a j b' - gat (ps.foldl (estepNeg bs m c) w) m c a j b =
      gat w m c a j b' - gat w m c a j b := by
  induction ps generalizing w with
  | nil => rfl
  | cons q qs ih =>
    simp only [List.foldl_cons]; rw [ih, gat_estepNeg _ _ _ _ _ hg, gat_estepNeg _ _ _ _ _ hg']
    split_ifs <;> ring

theorem mem_pairsLex_rev {M N : Nat} {p : Nat × Nat} (h : p ∈ (pairsLex M N).reverse) :
    p.1 + 1 < M ∧ p.2 + 1 < N := by
  have : (p.1, p.2) ∈ pairsLex M N := by simpa using h
  exact mem_pairsLex.mp this

/-- monotonicity along the MAIN axis holds in every column, from the last column alone -/
theorem esweepNeg_mono_main (bs : List Idx) (m c M N : Nat) (hbs : ∀ b ∈ bs, GridOK m c b) (w : W)
    {b : Idx} (hb : b ∈ bs) (h0 : ∀ i, i + 1 < M → gat w m c i (N-1) b ≤ gat w m c (i+1) (N-1) b) :
    ∀ k j, j + k = N - 1 → ∀ i, i + 1 < M →
      gat (esweepNeg bs m c M N w) m c i j b ≤ gat (esweepNeg bs m c M N w) m c (i+1) j b := by
  intro k
  induction k with
  | zero =>
    intro j hj i hi
    have : j = N - 1 := by omega
    subst this
    simp only [esweepNeg,
      gat_foldNeg_lastcol bs m c N _ (fun p hp => (mem_pairsLex_rev hp).2) w _ (hbs b hb)]
    exact h0 i hi
  | succ k ih =>
    intro j hj i hi
    have e := esweepNeg_edgeworth bs m c M N hbs w hi (show j + 1 < N by omega) hb
    have mm := ih (j+1) (by omega) i hi
    simp only [eviol] at e
    linarith
/-- monotonicity along a monotone CONDITIONAL axis holds in every row, from the last row alone -/
theorem esweepNeg_mono_cond (bs : List Idx) (m c M N : Nat) (hbs : ∀ b ∈ bs, GridOK m c b) (w : W)
    {b : Idx} (hb : b ∈ bs) (h0 : ∀ j, j + 1 < N → gat w m c (M-1) j b ≤ gat w m c (M-1) (j+1) b) :
    ∀ k i, i + k = M - 1 → ∀ j, j + 1 < N →
      gat (esweepNeg bs m c M N w) m c i j b ≤ gat (esweepNeg bs m c M N w) m c i (j+1) b := by
  intro k
  induction k with
  | zero =>
    intro i hi j hj
    have : i = M - 1 := by omega
    subst this
    simp only [esweepNeg,
      gat_foldNeg_lastrow bs m c M _ (fun p hp => (mem_pairsLex_rev hp).1) w _ (hbs b hb)]
    exact h0 j hj
  | succ k ih =>
    intro i hi j hj
    have e := esweepNeg_edgeworth bs m c M N hbs w (show i + 1 < M by omega) hj hb
    have mm := ih (i+1) (by omega) j hj
    simp only [eviol] at e
    linarith

theorem estepNeg_fix (bs : List Idx) (m c : Nat) (w : W) (p : Nat × Nat)
    (h : ∀ b ∈ bs, 0 ≤ eviol w m c p.1 p.2 b) : estepNeg bs m c w p = w := by
  funext idx
  have : maxOver bs (fun b => - eviol w m c p.1 p.2 b) = 0 :=
    maxOver_eq_zero bs _ (fun b hb => by have := h b hb; linarith)
  simp only [estepNeg, this]
  split <;> simp

end Tfl.Lat
