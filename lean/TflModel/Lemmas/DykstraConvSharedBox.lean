import TflModel.Lemmas.DykstraConvBox
import TflModel.Lemmas.DykstraConvShared
import Mathlib.Data.List.GetD
/-!
# Dykstra with shared slots for the model's loop on ℚ-valued kernels over a box

`dykstra_box_converges_slots`: the function-level slotted loop `Tfl.Lat.dykstraIterS` (every group
visit reads and overwrites the `last_change` slot of its dict key; a key that occurs twice in the
schedule is visited twice per pass with ONE roll-back tensor) converges — after casting ℚ → ℝ — on
every vertex of the box to the kernel, feasible for all visited slots, that is nearest to the input.
Same bridge as `Lemmas/DykstraConvBox.lean`, with `Tfl.DykConv.dykstra_converges_slots` as the
abstract theorem.
-/
namespace Tfl.DykConv
open Tfl Tfl.Lat Filter Topology
open scoped RealInnerProductSpace

variable {sizes : List Nat}

theorem passS_cast {P : ℕ → W → W} (vs : List ℕ) (hloc : ∀ s ∈ vs, Local sizes (P s))
    (w : W) (cs : List W) :
    passGS (vs.map (fun s => (PE sizes P s, s))) (castE sizes w) (cs.map (castE sizes))
      = (castE sizes (dykstraPassS (vs.map (fun s => (P s, s))) w cs).1,
          (dykstraPassS (vs.map (fun s => (P s, s))) w cs).2.map (castE sizes)) := by
  induction vs generalizing w cs with
  | nil => rfl
  | cons s vs ih =>
    have hg : (cs.map (castE sizes)).getD s 0 = castE sizes (cs.getD s (fun _ => 0)) := by
      rw [← castE_zero (sizes := sizes), List.getD_map]
    simp only [List.map_cons, passGS, dykstraPassS, hg, visit_cast (hloc s (List.mem_cons_self ..)),
      ← List.map_set]
    exact ih (fun s' hs' => hloc s' (List.mem_cons_of_mem _ hs')) _ _

theorem iterS_cast {P : ℕ → W → W} (vs : List ℕ) (hloc : ∀ s ∈ vs, Local sizes (P s))
    (n : Nat) (w : W) (cs : List W) :
    iterGS (vs.map (fun s => (PE sizes P s, s))) n (castE sizes w, cs.map (castE sizes))
      = (castE sizes (dykstraIterS (vs.map (fun s => (P s, s))) n (w, cs)).1,
          (dykstraIterS (vs.map (fun s => (P s, s))) n (w, cs)).2.map (castE sizes)) := by
  induction n generalizing w cs with
  | zero => rfl
  | succ n ih =>
    simp only [iterGS, dykstraIterS, passS_cast vs hloc, ih]

/-- **C08, convergence with shared slots, generic over the group maps.** `vs`: the slot of every group
visit of a pass, in visiting order; `P s`, `F s`: the group map and the feasibility predicate (on real
kernels, closed, box-local) of slot `s`; `m` slots in the state. -/
theorem dykstra_box_converges_slots (sizes : List Nat) (vs : List ℕ) (m : ℕ) (P : ℕ → W → W)
    (F : ℕ → (Idx → ℝ) → Prop) (hm : ∀ s ∈ vs, s < m)
    (hloc : ∀ s ∈ vs, Local sizes (P s))
    (hFloc : ∀ s ∈ vs, ∀ y y' : Idx → ℝ, (∀ idx, InRange sizes idx → y idx = y' idx) → F s y → F s y')
    (hFclosed : ∀ s ∈ vs, IsClosed {y : Idx → ℝ | F s y})
    (hlands : ∀ s ∈ vs, ∀ w : W, F s (fun idx => (P s w idx : ℝ)))
    (hvi : ∀ s ∈ vs, ∀ (w : W) (y : Idx → ℝ), F s y →
      bsum sizes (fun idx => ((w idx : ℝ) - (P s w idx : ℝ)) * (y idx - (P s w idx : ℝ))) ≤ 0)
    (hne : ∃ y : Idx → ℝ, ∀ s ∈ vs, F s y) (w : W) :
    ∃ p : Idx → ℝ, (∀ s ∈ vs, F s p) ∧
      (∀ y : Idx → ℝ, (∀ s ∈ vs, F s y) →
        bsum sizes (fun idx => ((w idx : ℝ) - p idx) ^ 2) + bsum sizes (fun idx => (p idx - y idx) ^ 2)
          ≤ bsum sizes (fun idx => ((w idx : ℝ) - y idx) ^ 2)) ∧
      (∀ idx, InRange sizes idx → Tendsto (fun n =>
        (((dykstraIterS (vs.map (fun s => (P s, s))) n (w, List.replicate m (fun _ => 0))).1 idx : ℚ) : ℝ))
          atTop (𝓝 (p idx))) ∧
      Tendsto (fun n => bsum sizes (fun idx =>
        ((((dykstraIterS (vs.map (fun s => (P s, s))) n (w, List.replicate m (fun _ => 0))).1 idx : ℚ) : ℝ)
          - p idx) ^ 2)) atTop (𝓝 0) := by
  classical
  set C : ℕ → Set (EB sizes) := fun s => {x | F s (ofE x)} with hC
  set S : Set (EB sizes) := Set.range (castE sizes) with hS
  have hFE : ∀ s ∈ vs, ∀ y : Idx → ℝ, F s y ↔ toE sizes y ∈ C s := by
    intro s hs y
    exact ⟨hFloc s hs _ _ (fun idx hr => (ofE_toE y hr).symm),
      hFloc s hs _ _ (fun idx hr => ofE_toE y hr)⟩
  have hsub : ∀ x ∈ S, ∀ y ∈ S, x - y ∈ S := by
    rintro _ ⟨a, rfl⟩ _ ⟨b, rfl⟩
    exact ⟨_, castE_sub a b⟩
  have hmap : ∀ s ∈ vs, ∀ x ∈ S, PE sizes P s x ∈ S := fun s _ x _ => ⟨_, rfl⟩
  have hl : ∀ s ∈ vs, ∀ x ∈ S, PE sizes P s x ∈ C s := by
    intro s hs x _
    exact (hFE s hs _).mp (hlands s hs (secE x))
  have hv : ∀ s ∈ vs, ∀ x ∈ S, ∀ y ∈ C s, ⟪x - PE sizes P s x, y - PE sizes P s x⟫ ≤ 0 := by
    rintro s hs _ ⟨q, rfl⟩ y hy
    rw [PE_castE (hloc s hs), inner_EB]
    refine le_of_eq_of_le (bsum_congr (fun idx hr => ?_)) (hvi s hs q (ofE y) hy)
    rw [ofE_sub _ _ hr, ofE_sub _ _ hr]
    simp only [castE, ofE_toE _ hr]
  have hcl : ∀ s ∈ vs, IsClosed (C s) := fun s hs => (hFclosed s hs).preimage continuous_ofE
  have hne' : ∃ z, ∀ s ∈ vs, z ∈ C s := by
    obtain ⟨y, hy⟩ := hne
    exact ⟨toE sizes y, fun s hs => (hFE s hs y).mp (hy s hs)⟩
  obtain ⟨pE, hpC, -, hpyth, hlim⟩ :=
    dykstra_converges_slots vs m (PE sizes P) C S (castE sizes w) hm hsub ⟨w, rfl⟩ hmap hl hv hcl hne'
  have hiter : ∀ n, (iterGS (vs.map (fun s => (PE sizes P s, s))) n
        (castE sizes w, List.replicate m (0 : EB sizes))).1
      = castE sizes (dykstraIterS (vs.map (fun s => (P s, s))) n (w, List.replicate m (fun _ => 0))).1 := by
    intro n
    have h0 : List.replicate m (0 : EB sizes)
        = (List.replicate m (fun _ => 0 : W)).map (castE sizes) := by
      rw [List.map_replicate, castE_zero]
    rw [h0, iterS_cast vs hloc]
  simp only [hiter] at hlim
  refine ⟨ofE pE, hpC, fun y hy => ?_, fun idx hr => ?_, ?_⟩
  · have h := hpyth (toE sizes y) (fun s hs => (hFE s hs y).mp (hy s hs))
    rw [norm_sq_EB, norm_sq_EB, norm_sq_EB] at h
    refine le_of_eq_of_le ?_ (h.trans (le_of_eq ?_))
    · congr 1 <;> refine bsum_congr (fun idx hr => ?_)
      · rw [ofE_sub _ _ hr]; simp only [castE, ofE_toE _ hr]
      · rw [ofE_sub _ _ hr, ofE_toE _ hr]
    · refine bsum_congr (fun idx hr => ?_)
      rw [ofE_sub _ _ hr, ofE_toE _ hr]; simp only [castE, ofE_toE _ hr]
  · have hc : Continuous (fun x : EB sizes => ofE x idx) := (continuous_apply idx).comp continuous_ofE
    have := (hc.tendsto pE).comp hlim
    refine this.congr (fun n => ?_)
    simp only [Function.comp, castE, ofE_toE _ hr]
  · have h1 : Tendsto (fun n => ‖castE sizes
        (dykstraIterS (vs.map (fun s => (P s, s))) n (w, List.replicate m (fun _ => 0))).1 - pE‖ ^ 2)
        atTop (𝓝 0) := by
      have := (tendsto_iff_norm_sub_tendsto_zero.mp hlim).pow 2
      simpa using this
    refine h1.congr (fun n => ?_)
    rw [norm_sq_EB]
    refine bsum_congr (fun idx hr => ?_)
    rw [ofE_sub _ _ hr]; simp only [castE, ofE_toE _ hr]

end Tfl.DykConv
