import TflModel.Model.Lattice
import TflModel.Lemmas.Idx
import Mathlib.Data.List.Range
import Mathlib.Tactic.Ring
/-! C01-T2: the Edgeworth approximate projection (direction +1) on the `(m, c)` grid with
everything else "behind" it. -/
namespace Tfl.Lat
open Tfl

/-- the two grid axes are distinct, valid positions of the multi-index `b` -/
def GridOK (m c : Nat) (b : Idx) : Prop := m < b.length ∧ c < b.length ∧ m ≠ c

theorem coord_grid_m {m c : Nat} {b : Idx} (h : GridOK m c b) (i j : Nat) :
    coord (setc (setc b m i) c j) m = i := by
  rw [coord_setc_ne _ (Ne.symm h.2.2), coord_setc_same _ h.1]
theorem coord_grid_c {m c : Nat} {b : Idx} (h : GridOK m c b) (i j : Nat) :
    coord (setc (setc b m i) c j) c = j := by
  rw [coord_setc_same _ (by simpa using h.2.1)]

theorem maxOver_ge_init (f : Idx → ℚ) (bs : List Idx) (a : ℚ) :
    a ≤ bs.foldl (fun acc b => max acc (f b)) a := by
  induction bs generalizing a with
  | nil => simp
  | cons x xs ih => exact le_trans (le_max_left _ _) (ih _)
theorem maxOver_ge_mem (f : Idx → ℚ) (bs : List Idx) (a : ℚ) {b : Idx} (hb : b ∈ bs) :
    f b ≤ bs.foldl (fun acc b => max acc (f b)) a := by
  induction bs generalizing a with
  | nil => cases hb
  | cons x xs ih =>
    rcases List.mem_cons.mp hb with h | h
    · subst h; exact le_trans (le_max_right _ _) (maxOver_ge_init f xs _)
    · exact ih _ h
theorem maxOver_nonneg (bs : List Idx) (f : Idx → ℚ) : 0 ≤ maxOver bs f := maxOver_ge_init _ _ _
theorem le_maxOver (bs : List Idx) (f : Idx → ℚ) {b : Idx} (hb : b ∈ bs) : f b ≤ maxOver bs f :=
  maxOver_ge_mem _ _ _ hb
theorem maxOver_congr (bs : List Idx) (f g : Idx → ℚ) (h : ∀ b ∈ bs, f b = g b) :
    maxOver bs f = maxOver bs g := by
  unfold maxOver
  generalize (0 : ℚ) = a
  induction bs generalizing a with
  | nil => rfl
  | cons x xs ih =>
    simp only [List.foldl_cons, h x (List.mem_cons_self ..)]
    exact ih (fun b hb => h b (List.mem_cons_of_mem _ hb)) _
/-- if nothing is violated the reduction is zero -/
theorem maxOver_eq_zero (bs : List Idx) (f : Idx → ℚ) (h : ∀ b ∈ bs, f b ≤ 0) : maxOver bs f = 0 := by
  unfold maxOver
  induction bs with
  | nil => rfl
  | cons x xs ih =>
    simp only [List.foldl_cons, max_eq_left (h x (List.mem_cons_self ..))]
    exact ih (fun b hb => h b (List.mem_cons_of_mem _ hb))

/-- reading the grid after one step -/
theorem gat_estepPos (bs : List Idx) (m c : Nat) (w : W) (p : Nat × Nat) {b : Idx} (hb : GridOK m c b)
    (a j : Nat) :
    gat (estepPos bs m c w p) m c a j b =
      if a = p.1 + 1 ∧ j = p.2 + 1 then gat w m c a j b + maxOver bs (eviol w m c p.1 p.2)
      else gat w m c a j b := by
  simp only [gat, estepPos, coord_grid_m hb, coord_grid_c hb]

/-- the step fixes its own square at every behind-position -/
theorem estepPos_fixes (bs : List Idx) (m c : Nat) (w : W) (i j : Nat) {b : Idx} (hb : b ∈ bs)
    (hg : GridOK m c b) : eviol (estepPos bs m c w (i, j)) m c i j b ≤ 0 := by
  have h := le_maxOver bs (eviol w m c i j) hb
  simp only [eviol, gat_estepPos bs m c w _ hg] at *
  simp
  linarith
/-- the step does not touch a square that does not contain the modified point -/
theorem estepPos_other (bs : List Idx) (m c : Nat) (w : W) (i j i' j' : Nat) {b : Idx}
    (hg : GridOK m c b) (h : ¬ ((i' = i ∨ i' = i + 1) ∧ (j' = j ∨ j' = j + 1))) :
    eviol (estepPos bs m c w (i, j)) m c i' j' b = eviol w m c i' j' b := by
  simp only [eviol, gat_estepPos bs m c w _ hg]
  split_ifs <;> first | rfl | (exfalso; omega)

def lexlt (p q : Nat × Nat) : Prop := p.1 < q.1 ∨ (p.1 = q.1 ∧ p.2 < q.2)

/-- sweeping a lex-sorted list of squares keeps every earlier good square good and fixes the swept ones -/
theorem sweepPos_good (bs : List Idx) (m c : Nat) (hbs : ∀ b ∈ bs, GridOK m c b) (ps : List (Nat × Nat))
    (hs : ps.Pairwise lexlt) :
    ∀ (w : W) (done : List (Nat × Nat)),
      (∀ p ∈ done, ∀ q ∈ ps, lexlt p q) →
      (∀ p ∈ done, ∀ b ∈ bs, eviol w m c p.1 p.2 b ≤ 0) →
      ∀ p, (p ∈ done ∨ p ∈ ps) → ∀ b ∈ bs, eviol (ps.foldl (estepPos bs m c) w) m c p.1 p.2 b ≤ 0 := by
  induction ps with
  | nil => intro w done _ hg p hp b hb; simpa using hg p (by simpa using hp) b hb
  | cons q qs ih =>
    intro w done hlt hg p hp b hb
    rw [List.pairwise_cons] at hs
    simp only [List.foldl_cons]
    apply ih hs.2 (estepPos bs m c w q) (done ++ [q])
    · intro p' hp' r hr
      rcases List.mem_append.mp hp' with h | h
      · exact hlt p' h r (List.mem_cons_of_mem _ hr)
      · simp at h; subst h; exact hs.1 r hr
    · intro p' hp' b' hb'
      rcases List.mem_append.mp hp' with h | h
      · have hl := hlt p' h q (List.mem_cons_self ..)
        rw [show q = (q.1, q.2) from rfl,
          estepPos_other bs m c w q.1 q.2 p'.1 p'.2 (hbs b' hb') (by unfold lexlt at hl; omega)]
        exact hg p' h b' hb'
      · simp at h; subst h; exact estepPos_fixes bs m c w _ _ hb' (hbs b' hb')
    · rcases hp with h | h
      · exact Or.inl (List.mem_append_left _ h)
      · rcases List.mem_cons.mp h with h | h
        · exact Or.inl (by simp [h])
        · exact Or.inr h
    · exact hb

theorem mem_pairsLex {M N i j : Nat} : (i, j) ∈ pairsLex M N ↔ i + 1 < M ∧ j + 1 < N := by
  simp [pairsLex]; omega

theorem pairsLex_pairwise (M N : Nat) : (pairsLex M N).Pairwise lexlt := by
  unfold pairsLex
  rw [List.pairwise_flatMap]
  constructor
  · intro i _
    rw [List.pairwise_map]
    exact (List.pairwise_lt_range).imp (fun h => Or.inr ⟨rfl, h⟩)
  · exact (List.pairwise_lt_range).imp (fun {a b} h p hp q hq => by
      simp only [List.mem_map] at hp hq
      obtain ⟨_, _, rfl⟩ := hp; obtain ⟨_, _, rfl⟩ := hq
      exact Or.inl h)

/-- the direction-(+1) sweep of one trust -/
def esweepPos (bs : List Idx) (m c M N : Nat) (w : W) : W := (pairsLex M N).foldl (estepPos bs m c) w

/-- C01-T2(a): after the sweep every Edgeworth square holds at every behind-position -/
theorem esweepPos_edgeworth (bs : List Idx) (m c M N : Nat) (hbs : ∀ b ∈ bs, GridOK m c b) (w : W)
    {i j : Nat} (hi : i + 1 < M) (hj : j + 1 < N) {b : Idx} (hb : b ∈ bs) :
    eviol (esweepPos bs m c M N w) m c i j b ≤ 0 := by
  have := sweepPos_good bs m c hbs (pairsLex M N) (pairsLex_pairwise M N) w [] (by simp) (by simp)
    (i, j) (Or.inr (mem_pairsLex.mpr ⟨hi, hj⟩)) b hb
  simpa [esweepPos] using this

theorem gat_fold_col0 (bs : List Idx) (m c : Nat) (ps : List (Nat × Nat)) (w : W) (a : Nat) {b : Idx}
    (hg : GridOK m c b) : gat (ps.foldl (estepPos bs m c) w) m c a 0 b = gat w m c a 0 b := by
  induction ps generalizing w with
  | nil => rfl
  | cons q qs ih => simp only [List.foldl_cons]; rw [ih, gat_estepPos _ _ _ _ _ hg]; simp
theorem gat_fold_row0 (bs : List Idx) (m c : Nat) (ps : List (Nat × Nat)) (w : W) (j : Nat) {b : Idx}
    (hg : GridOK m c b) : gat (ps.foldl (estepPos bs m c) w) m c 0 j b = gat w m c 0 j b := by
  induction ps generalizing w with
  | nil => rfl
  | cons q qs ih => simp only [List.foldl_cons]; rw [ih, gat_estepPos _ _ _ _ _ hg]; simp

/-- every difference between two behind-positions of one grid point is untouched -/
theorem gat_fold_behind (bs : List Idx) (m c : Nat) (ps : List (Nat × Nat)) (w : W) (a j : Nat) {b b' : Idx}
    (hg : GridOK m c b) (hg' : GridOK m c b') :
    gat (ps.foldl (estepPos bs m c) w) m c a j b' - gat (ps.foldl (estepPos bs m c) w) m c a j b =
      gat w m c a j b' - gat w m c a j b := by
  induction ps generalizing w with
  | nil => rfl
  | cons q qs ih =>
    simp only [List.foldl_cons]; rw [ih, gat_estepPos _ _ _ _ _ hg, gat_estepPos _ _ _ _ _ hg']
    split_ifs <;> ring

/-- C01-T2(b): monotonicity along the MAIN axis holds in every column, from column 0 alone -/
theorem esweepPos_mono_main (bs : List Idx) (m c M N : Nat) (hbs : ∀ b ∈ bs, GridOK m c b) (w : W)
    {b : Idx} (hb : b ∈ bs) (h0 : ∀ i, i + 1 < M → gat w m c i 0 b ≤ gat w m c (i+1) 0 b) :
    ∀ j, j < N → ∀ i, i + 1 < M →
      gat (esweepPos bs m c M N w) m c i j b ≤ gat (esweepPos bs m c M N w) m c (i+1) j b := by
  intro j
  induction j with
  | zero => intro _ i hi; simp only [esweepPos, gat_fold_col0 _ _ _ _ _ _ (hbs b hb)]; exact h0 i hi
  | succ j ih =>
    intro hj i hi
    have e := esweepPos_edgeworth bs m c M N hbs w hi hj hb
    have mm := ih (by omega) i hi
    simp only [eviol] at e
    linarith
/-- C01-T2(b'): monotonicity along a monotone CONDITIONAL axis holds in every row, from row 0 alone -/
theorem esweepPos_mono_cond (bs : List Idx) (m c M N : Nat) (hbs : ∀ b ∈ bs, GridOK m c b) (w : W)
    {b : Idx} (hb : b ∈ bs) (h0 : ∀ j, j + 1 < N → gat w m c 0 j b ≤ gat w m c 0 (j+1) b) :
    ∀ i, i < M → ∀ j, j + 1 < N →
      gat (esweepPos bs m c M N w) m c i j b ≤ gat (esweepPos bs m c M N w) m c i (j+1) b := by
  intro i
  induction i with
  | zero => intro _ j hj; simp only [esweepPos, gat_fold_row0 _ _ _ _ _ _ (hbs b hb)]; exact h0 j hj
  | succ i ih =>
    intro hi j hj
    have e := esweepPos_edgeworth bs m c M N hbs w (show i + 1 < M by omega) hj hb
    have mm := ih (by omega) j hj
    simp only [eviol] at e
    linarith

/-- feasible ⇒ unchanged: if every square already holds, every step is the identity -/
theorem estepPos_fix (bs : List Idx) (m c : Nat) (w : W) (p : Nat × Nat)
    (h : ∀ b ∈ bs, eviol w m c p.1 p.2 b ≤ 0) : estepPos bs m c w p = w := by
  funext idx
  simp only [estepPos, maxOver_eq_zero bs _ h]
  split <;> simp

end Tfl.Lat
