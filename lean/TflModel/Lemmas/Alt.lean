import TflModel.Model.Alt
import TflModel.Lemmas.LatticeEval
import TflModel.Lemmas.Kfl
import TflModel.Lemmas.PwlEval
import Mathlib.Data.List.Basic
import Mathlib.Tactic.Linarith
import Mathlib.Tactic.Ring
import Mathlib.Algebra.Order.Field.Rat
import Mathlib.Algebra.Order.Field.Basic
/-!
# Lemmas for C14 / C15 (`Model/Alt.lean`)
-/
namespace Tfl.Alt
open Tfl

/-! ## (a) Σ/Π exchange: multilinear interpolation of an outer product is the product of 1-D
interpolations -/

open LatticeEval in
theorem sumR_succ' (n : Nat) (f : Nat → ℚ) : sumR (n + 1) f = f 0 + sumR n (fun i => f (i + 1)) := by
  simp only [sumR, List.range_succ_eq_map, List.map_cons, List.map_map, LatticeEval.rsum_cons]
  rfl

theorem absR_eq (z : ℚ) : LatticeEval.absR z = |z| := by
  unfold LatticeEval.absR
  split_ifs with h
  · rw [abs_of_neg h]
  · rw [abs_of_nonneg (not_lt.mp h)]

/-- the KFL hat weight of vertex `i` is the lattice hat weight -/
theorem kflHat_eq (i : Nat) (y : ℚ) : 1 - min (Rat.abs ((i : ℚ) - y)) 1 = LatticeEval.hat i y := by
  unfold LatticeEval.hat
  rw [Poset.ratAbs_eq, absR_eq, abs_sub_comm]

open LatticeEval in
/-- `Σ_j hat_{i+j}(y) · k_j`: the depthwise-convolution column of the KFL is the lattice's 1-D sum -/
theorem dot_hatFrom (y : ℚ) : ∀ (n i : Nat) (k : List ℚ),
    Kfl.dot (Kfl.hatFrom y i n) k = sumR n (fun j => hat (i + j) y * getR k j)
  | 0, _, _ => by simp [Kfl.hatFrom, Kfl.dot]
  | n + 1, i, [] => by
    simp only [Kfl.hatFrom, Kfl.dot]
    rw [sumR_congr (n + 1) _ (fun _ => 0) (fun j _ => by simp [getR]), sumR_const_zero]
  | n + 1, i, k0 :: ks => by
    rw [sumR_succ']
    have e : sumR n (fun j => hat (i + (j + 1)) y * getR (k0 :: ks) (j + 1))
        = sumR n (fun j => hat (i + 1 + j) y * getR ks j) := by
      apply sumR_congr
      intro j _
      have : i + 1 + j = i + (j + 1) := by omega
      rw [this]
      simp [getR]
    rw [e]
    simp only [Kfl.hatFrom, Kfl.dot, dot_hatFrom y n (i + 1) ks, kflHat_eq]
    simp [getR]

/-- one KFL factor is the 1-D interpolation of the lattice code at the (clipped) coordinate -/
theorem interp1_eq_interpHat (L : Nat) (hL : 1 ≤ L) (c : Bool) (x : ℚ) (k : List ℚ) (hx : Kfl.InR L c x) :
    Kfl.interp1 L c x k = LatticeEval.interpHat L (getR k) (Kfl.clipIn L c x) := by
  obtain ⟨h0, h1⟩ := Kfl.clipIn_range L hL c x hx
  unfold Kfl.interp1 LatticeEval.interpHat
  rw [Kfl.interpWeights_eq L _ h0 h1, dot_hatFrom]
  apply LatticeEval.sumR_congr
  intro j _
  simp

/-- product of the 1-D interpolations -/
def prodInterp : List Nat → List ℚ → List (List ℚ) → ℚ
  | n :: ns, x :: xs, k :: ks => LatticeEval.interpHat n (getR k) x * prodInterp ns xs ks
  | _, _, _ => 1

open LatticeEval in
/-- Σ/Π exchange (L2 applied to an outer product) -/
theorem evalRec_outerK : ∀ (ns : List Nat) (p : List ℚ) (kt : List (List ℚ)), p.length = ns.length →
    kt.length = ns.length → evalRec ns p (outerK kt) = prodInterp ns p kt
  | [], [], [], _, _ => by simp [evalRec, outerK, prodInterp]
  | [], _ :: _, _, h, _ => by simp at h
  | [], [], _ :: _, _, h => by simp at h
  | _ :: _, [], _, h, _ => by simp at h
  | _ :: _, _ :: _, [], _, h => by simp at h
  | n :: ns, x :: xs, k :: ks, hp, hk => by
    have ih := evalRec_outerK ns xs ks (by simpa using hp) (by simpa using hk)
    simp only [evalRec, prodInterp]
    have : ∀ i, evalRec ns xs (fun t => outerK (k :: ks) (i :: t)) = prodInterp ns xs ks * getR k i := by
      intro i
      have e : (fun t => outerK (k :: ks) (i :: t)) = (fun t => getR k i * outerK ks t) := by
        funext t; simp [outerK]
      rw [e, evalRec_smul, ih]; ring
    rw [interpHat_congr n _ (fun i => prodInterp ns xs ks * getR k i) x (fun i _ => this i), interpHat_smul]
    ring

open LatticeEval in
theorem evalRec_denseSum (ns : List Nat) (p : List ℚ) (hp : p.length = ns.length) :
    ∀ (scale : List ℚ) (K : List (List (List ℚ))), (∀ kt ∈ K, kt.length = ns.length) →
    evalRec ns p (denseSum scale K)
      = rsum (List.zipWith (fun s kt => s * prodInterp ns p kt) scale K)
  | [], _, _ => by
    have e : denseSum [] = fun _ _ => 0 := by funext K idx; simp [denseSum]
    simp only [e, List.zipWith_nil_left, rsum]
    have := evalRec_smul ns p 0 (fun _ => 0)
    simpa using this
  | _ :: _, [], _ => by
    have e : ∀ s ss, denseSum (s :: ss) [] = fun _ => 0 := by intro s ss; funext idx; simp [denseSum]
    simp only [e, List.zipWith_nil_right, rsum]
    have := evalRec_smul ns p 0 (fun _ => 0)
    simpa using this
  | s :: ss, kt :: ks, hK => by
    have e : denseSum (s :: ss) (kt :: ks) = fun idx => s * outerK kt idx + denseSum ss ks idx := by
      funext idx; simp [denseSum]
    rw [e, evalRec_add, evalRec_smul, evalRec_outerK ns p kt hp (hK kt (by simp)),
      evalRec_denseSum ns p hp ss ks (fun kt' h => hK kt' (by simp [h]))]
    simp

theorem inRange_replicate (L : Nat) : ∀ (dims : Nat) (xs : List ℚ), xs.length = dims →
    (∀ x ∈ xs, 0 ≤ x ∧ x ≤ (L : ℚ) - 1) → LatticeEval.InRange (kflSizes L dims) xs
  | 0, [], _, _ => by simp [kflSizes, LatticeEval.InRange]
  | 0, _ :: _, h, _ => by simp at h
  | _ + 1, [], h, _ => by simp at h
  | d + 1, x :: xs, h, hx => by
    have ih := inRange_replicate L d xs (by simpa using h) (fun y hy => hx y (by simp [hy]))
    simp only [kflSizes, List.replicate_succ, LatticeEval.InRange] at ih ⊢
    exact ⟨hx x (by simp), ih⟩

/-- the point the lattice code interpolates at, coordinate by coordinate -/
theorem clipOntoRange_replicate (L : Nat) : ∀ (dims : Nat) (xs : List ℚ), xs.length = dims →
    LatticeEval.clipOntoRange (kflSizes L dims) xs = xs.map (Kfl.clipIn L true)
  | 0, [], _ => by simp [kflSizes, LatticeEval.clipOntoRange]
  | 0, _ :: _, h => by simp at h
  | _ + 1, [], h => by simp at h
  | d + 1, x :: xs, h => by
    have ih := clipOntoRange_replicate L d xs (by simpa using h)
    simp only [kflSizes, List.replicate_succ, LatticeEval.clipOntoRange, List.zipWith_cons_cons,
      List.map_cons] at ih ⊢
    rw [ih]
    simp [LatticeEval.clipV, Kfl.clipIn]

/-- the product of the KFL's per-dimension factors is the product of lattice 1-D interpolations -/
theorem termProd_eq_prodInterp (L : Nat) (hL : 1 ≤ L) (c : Bool) : ∀ (dims : Nat) (xs : List ℚ)
    (kt : List (List ℚ)), xs.length = dims → kt.length = dims → (∀ x ∈ xs, Kfl.InR L c x) →
    Kfl.termProd L c xs kt = prodInterp (kflSizes L dims) (xs.map (Kfl.clipIn L c)) kt
  | 0, [], [], _, _, _ => by simp [Kfl.termProd, Kfl.termFactors, rprod, prodInterp, kflSizes]
  | 0, _ :: _, _, h, _, _ => by simp at h
  | 0, [], _ :: _, _, h, _ => by simp at h
  | _ + 1, [], _, h, _, _ => by simp at h
  | _ + 1, _ :: _, [], _, h, _ => by simp at h
  | d + 1, x :: xs, k :: ks, hx, hk, hr => by
    have ih := termProd_eq_prodInterp L hL c d xs ks (by simpa using hx) (by simpa using hk)
      (fun y hy => hr y (by simp [hy]))
    rw [Kfl.termProd_cons, ih, interp1_eq_interpHat L hL c x k (hr x (by simp))]
    simp [kflSizes, List.replicate_succ, prodInterp]

theorem scaled_eq_zipWith (L : Nat) (c : Bool) (xs : List ℚ) : ∀ (scale : List ℚ) (K : List (List (List ℚ))),
    Kfl.scaled L c xs scale K = List.zipWith (fun s kt => s * Kfl.termProd L c xs kt) scale K
  | [], _ => by simp [Kfl.scaled]
  | _ :: _, [] => by simp [Kfl.scaled]
  | s :: ss, kt :: ks => by simp [Kfl.scaled, scaled_eq_zipWith L c xs ss ks]

theorem zipWith_congr_right {α β γ : Type} (f g : α → β → γ) : ∀ (a : List α) (b : List β),
    (∀ y ∈ b, ∀ x, f x y = g x y) → List.zipWith f a b = List.zipWith g a b
  | [], _, _ => by simp
  | _ :: _, [], _ => by simp
  | x :: xs, y :: ys, h => by
    simp only [List.zipWith_cons_cons]
    rw [h y (by simp) x, zipWith_congr_right f g xs ys (fun y' hy' => h y' (by simp [hy']))]


/-! ## (b) `pwl_calibration_fn`: derived keypoints and kernels -/

open PwlEval in
theorem keypointsOf_eq (cfg : PwlFnCfg) (deltas : List ℚ) :
    keypointsOf cfg deltas = cumsumExcl cfg.inMin deltas := by
  unfold keypointsOf; rw [map_add_cumsumExcl, zero_add]

open PwlEval in
/-- the differences of the derived keypoints are the deltas again -/
theorem diffs_cumsum : ∀ (ls : List ℚ) (a : ℚ), diffs (cumsumExcl a ls ++ [a + rsum ls]) = ls
  | [], a => by simp [cumsumExcl, diffs]
  | [l], a => by
    simp only [cumsumExcl, rsum, List.cons_append, List.nil_append, diffs]
    congr 1; ring
  | l :: l' :: ls, a => by
    have ih := diffs_cumsum (l' :: ls) (a + l)
    simp only [cumsumExcl, rsum, List.cons_append, diffs] at ih ⊢
    have e : a + (l + (l' + rsum ls)) = a + l + (l' + rsum ls) := by ring
    rw [e, ih]
    congr 1; ring

open PwlEval in
theorem strictIncr_cumsum : ∀ (ls : List ℚ) (a : ℚ), (∀ l ∈ ls, 0 < l) →
    StrictIncr (cumsumExcl a ls ++ [a + rsum ls])
  | [], a, _ => by simp [cumsumExcl, StrictIncr]
  | [l], a, h => by
    have := h l (by simp)
    simp only [cumsumExcl, rsum, List.cons_append, List.nil_append, StrictIncr]
    exact ⟨by linarith, trivial⟩
  | l :: l' :: ls, a, h => by
    have ih := strictIncr_cumsum (l' :: ls) (a + l) (fun x hx => h x (by simp [hx]))
    have hl := h l (by simp)
    simp only [cumsumExcl, rsum, List.cons_append, StrictIncr] at ih ⊢
    have e : a + (l + (l' + rsum ls)) = a + l + (l' + rsum ls) := by ring
    rw [e]
    exact ⟨by linarith, ih⟩

open PwlEval in
theorem layerCfg_lengths (cfg : PwlFnCfg) (deltas : List ℚ) :
    lengths (layerCfg cfg deltas) [] = deltas := by
  simp [lengths, layerCfg, derivedKeypoints, diffs_cumsum]

open PwlEval in
theorem layerCfg_interpKeypoints (cfg : PwlFnCfg) (deltas : List ℚ) :
    interpKeypoints (layerCfg cfg deltas) [] = cumsumExcl cfg.inMin deltas := by
  simp [interpKeypoints, layerCfg, derivedKeypoints]

open PwlEval in
/-- the function's interpolation = the layer's `calibrate` on the derived keypoints / kernel -/
theorem calibrated_eq_calibrate (cfg : PwlFnCfg) (deltas kernel : List ℚ) (x : ℚ)
    (hcyc : cfg.cyclic = true →
      kernel = layerKernel cfg kernel ++ [-(rsum (layerKernel cfg kernel).tail)]) :
    calibrated cfg deltas kernel x
      = calibrate (layerCfg cfg deltas) (layerKernel cfg kernel) [] x := by
  unfold calibrated calibrate
  rw [layerCfg_lengths, layerCfg_interpKeypoints, keypointsOf_eq]
  have hw : Alt.interpWeights x (cumsumExcl cfg.inMin deltas) deltas
      = PwlEval.interpWeights x (cumsumExcl cfg.inMin deltas) deltas := rfl
  rw [hw]
  congr 1
  unfold biasAndHeights
  by_cases hc : cfg.cyclic = true
  · have := hcyc hc
    simp only [layerCfg, hc, if_true]
    exact this
  · simp [layerCfg, layerKernel, hc]

open PwlEval in
/-- the paired layer is well-formed (`verify_hyperparameters` / `build` of `PWLCalibration` accept it) -/
theorem layer_wf (cfg : PwlFnCfg) (deltas kernel : List ℚ) (hd : deltas ≠ [])
    (hpos : ∀ l ∈ deltas, 0 < l) (hlen : kernel.length = deltas.length + 1) :
    WF (layerCfg cfg deltas) (layerKernel cfg kernel) [] := by
  refine ⟨?_, ?_, ?_, ?_, ?_, ?_⟩
  · have : 0 < deltas.length := List.length_pos_iff.mpr hd
    simp [layerCfg, derivedKeypoints, length_cumsumExcl]; omega
  · exact strictIncr_cumsum deltas cfg.inMin hpos
  · by_cases hc : cfg.cyclic = true
    · simp [layerCfg, layerKernel, hc, derivedKeypoints, length_cumsumExcl, hlen]
    · simp [layerCfg, layerKernel, hc, derivedKeypoints, length_cumsumExcl, hlen]
  · intro h; simp [layerCfg] at h
  · intro h; simp [layerCfg] at h
  · intro h; simp [layerCfg] at h

open PwlEval in
/-- `v[1:] - v[:-1]` -/
theorem zipWith_sub_eq_diffs : ∀ v : List ℚ, List.zipWith (· - ·) v.tail v.dropLast = diffs v
  | [] => by simp [diffs]
  | [a] => by simp [diffs]
  | a :: b :: t => by
    have ih := zipWith_sub_eq_diffs (b :: t)
    simp only [List.tail_cons, List.dropLast_cons_cons, List.zipWith_cons_cons, diffs] at ih ⊢
    rw [ih]

open PwlEval in
theorem diffs_append_singleton : ∀ (t : List ℚ) (a b : ℚ),
    diffs ((a :: t) ++ [b]) = diffs (a :: t) ++ [b - (a :: t).getLastD 0]
  | [], a, b => by simp [diffs]
  | c :: t, a, b => by
    have ih := diffs_append_singleton t c b
    simp only [List.cons_append, diffs, List.getLastD_cons] at ih ⊢
    rw [ih]

open PwlEval in
/-- prefix sums of `[v_0, v_1 - v_0, …]` give back `v` -/
theorem rsum_take_diffs : ∀ (t : List ℚ) (a : ℚ) (j : Nat), j ≤ t.length →
    a + rsum ((diffs (a :: t)).take j) = getR (a :: t) j
  | _, a, 0, _ => by simp [getR]
  | [], _, j + 1, h => by simp at h
  | b :: t, a, j + 1, h => by
    have ih := rsum_take_diffs t b j (by simpa using h)
    simp only [diffs, List.take_succ_cons, rsum, getR, List.getD_cons_succ] at ih ⊢
    rw [← ih]; ring

/-- the squashed free outputs -/
def freeValues (cfg : PwlFnCfg) (sigmoid : ℚ → ℚ) (ko : List ℚ) : List ℚ :=
  ko.map (fun p => sigmoid p * (cfg.outMax - cfg.outMin) + cfg.outMin)

/-- the shape of `freeOutputs` on the squashed values -/
def freeShape (cyc : Bool) (v : List ℚ) : List ℚ :=
  (if cyc then v ++ v.take 1 else v).take 1
    ++ List.zipWith (· - ·) (if cyc then v ++ v.take 1 else v).tail (if cyc then v ++ v.take 1 else v).dropLast

theorem freeOutputs_eq (cfg : PwlFnCfg) (sigmoid : ℚ → ℚ) (ko : List ℚ) :
    freeOutputs cfg sigmoid ko = freeShape cfg.cyclic (freeValues cfg sigmoid ko) := rfl

open PwlEval in
theorem freeShape_false (a : ℚ) (t : List ℚ) : freeShape false (a :: t) = a :: diffs (a :: t) := by
  have := zipWith_sub_eq_diffs (a :: t)
  simp only [freeShape, Bool.false_eq_true, if_false, List.take_succ_cons, List.take_zero]
  rw [this]; rfl

open PwlEval in
theorem freeShape_true (a : ℚ) (t : List ℚ) :
    freeShape true (a :: t) = a :: (diffs (a :: t) ++ [a - (a :: t).getLastD 0]) := by
  simp only [freeShape, if_true, zipWith_sub_eq_diffs, List.take_succ_cons, List.take_zero]
  rw [diffs_append_singleton]
  simp

open PwlEval in
/-- the layer kernel for free outputs is `[v_0, v_1 - v_0, …]`, cyclic or not -/
theorem free_layerKernel (cfg : PwlFnCfg) (sigmoid : ℚ → ℚ) (ko : List ℚ) (hne : ko ≠ []) :
    layerKernel cfg (freeOutputs cfg sigmoid ko)
      = (freeValues cfg sigmoid ko).headD 0 :: diffs (freeValues cfg sigmoid ko) := by
  have hv : freeValues cfg sigmoid ko ≠ [] := by simpa [freeValues] using hne
  rw [freeOutputs_eq]
  unfold layerKernel
  cases hvv : freeValues cfg sigmoid ko with
  | nil => exact absurd hvv hv
  | cons a t =>
    by_cases hc : cfg.cyclic = true
    · simp only [hc, if_true, freeShape_true, List.headD_cons]
      rw [show a :: (diffs (a :: t) ++ [a - (a :: t).getLastD 0])
          = (a :: diffs (a :: t)) ++ [a - (a :: t).getLastD 0] by simp, List.dropLast_concat]
    · have hc' : cfg.cyclic = false := by simpa using hc
      simp [hc', freeShape_false]

open PwlEval in
/-- cyclic free outputs: the last entry of the derived kernel is the closing height the layer re-derives -/
theorem free_cyclic_closing (cfg : PwlFnCfg) (sigmoid : ℚ → ℚ) (ko : List ℚ) (hne : ko ≠ [])
    (hc : cfg.cyclic = true) :
    freeOutputs cfg sigmoid ko
      = layerKernel cfg (freeOutputs cfg sigmoid ko)
        ++ [-(rsum (layerKernel cfg (freeOutputs cfg sigmoid ko)).tail)] := by
  rw [free_layerKernel cfg sigmoid ko hne, freeOutputs_eq]
  have hv : freeValues cfg sigmoid ko ≠ [] := by simpa [freeValues] using hne
  cases hvv : freeValues cfg sigmoid ko with
  | nil => exact absurd hvv hv
  | cons a t =>
    have := sum_diffs a t
    simp only [hc, freeShape_true, List.headD_cons, List.tail_cons, List.cons_append, List.cons.injEq,
      true_and, List.append_cancel_left_eq]
    exact ⟨by linarith, trivial⟩


/-! ### increasing outputs -/

def incFull (omin : ℚ) (cmin : Bool) (s : List ℚ) : List ℚ :=
  if cmin then omin :: s else (s.take 1).map (· + omin) ++ s.drop 1
def incShape (omin : ℚ) (cmin cmax : Bool) (s : List ℚ) : List ℚ :=
  if cmax then incFull omin cmin s else (incFull omin cmin s).dropLast

theorem incOutputs_eq (cfg : PwlFnCfg) (softmax : List ℚ → List ℚ) (ko : List ℚ) :
    incOutputs cfg softmax ko
      = incShape cfg.outMin cfg.clampMin cfg.clampMax ((softmax (0 :: ko)).map (· * (cfg.outMax - cfg.outMin))) := rfl

theorem incFull_cons (omin : ℚ) (cmin : Bool) (s0 : ℚ) (st : List ℚ) :
    incFull omin cmin (s0 :: st) = if cmin then omin :: s0 :: st else (s0 + omin) :: st := by
  cases cmin <;> simp [incFull]

theorem incFull_length (omin : ℚ) (cmin : Bool) (s : List ℚ) (hs : s ≠ []) :
    (incFull omin cmin s).length = s.length + (if cmin then 1 else 0) := by
  cases s with
  | nil => exact absurd rfl hs
  | cons s0 st => rw [incFull_cons]; cases cmin <;> simp

theorem incShape_length (omin : ℚ) (cmin cmax : Bool) (s : List ℚ) (hs : s ≠ []) :
    (incShape omin cmin cmax s).length + (if cmax then 0 else 1) = s.length + (if cmin then 1 else 0) := by
  have h := incFull_length omin cmin s hs
  have hp : 0 < s.length := List.length_pos_iff.mpr hs
  unfold incShape
  cases cmax
  · simp only [Bool.false_eq_true, if_false, List.length_dropLast]; omega
  · simp only [if_true]; omega

/-- prefix sums of the full increment list -/
theorem incFull_prefix (omin : ℚ) (cmin : Bool) (s : List ℚ) (hs : s ≠ []) (m : Nat) :
    rsum ((incFull omin cmin s).take (m + 1)) = omin + rsum (s.take (m + (if cmin then 0 else 1))) := by
  cases s with
  | nil => exact absurd rfl hs
  | cons s0 st =>
    rw [incFull_cons]
    cases cmin
    · simp only [Bool.false_eq_true, if_false, List.take_succ_cons, rsum]; ring
    · simp only [if_true, List.take_succ_cons, rsum, Nat.add_zero]

theorem getR_incFull_succ (omin : ℚ) (cmin : Bool) (s : List ℚ) (hs : s ≠ []) (i : Nat) :
    getR (incFull omin cmin s) (i + 1) = getR s (i + (if cmin then 0 else 1)) := by
  cases s with
  | nil => exact absurd rfl hs
  | cons s0 st => rw [incFull_cons]; cases cmin <;> simp [getR]

theorem take_dropLast (l : List ℚ) (m : Nat) (h : m + 1 ≤ l.length) : l.dropLast.take m = l.take m := by
  rw [List.dropLast_eq_take, List.take_take]
  congr 1; omega

theorem getR_dropLast (l : List ℚ) (i : Nat) (h : i + 1 < l.length) : getR l.dropLast i = getR l i := by
  have h1 : i < l.dropLast.length := by simp; omega
  have h2 : i < l.length := by omega
  simp [getR, List.getD_eq_getElem?_getD, List.getElem?_eq_getElem h1, List.getElem?_eq_getElem h2]

theorem incShape_take (omin : ℚ) (cmin cmax : Bool) (s : List ℚ) (m : Nat)
    (h : m + 1 ≤ (incShape omin cmin cmax s).length) :
    (incShape omin cmin cmax s).take (m + 1) = (incFull omin cmin s).take (m + 1) := by
  unfold incShape at h ⊢
  cases cmax
  · simp only [Bool.false_eq_true, if_false] at h ⊢
    rw [List.length_dropLast] at h
    exact take_dropLast _ _ (by omega)
  · rfl

theorem getR_incShape (omin : ℚ) (cmin cmax : Bool) (s : List ℚ) (i : Nat)
    (h : i < (incShape omin cmin cmax s).length) :
    getR (incShape omin cmin cmax s) i = getR (incFull omin cmin s) i := by
  unfold incShape at h ⊢
  cases cmax
  · simp only [Bool.false_eq_true, if_false] at h ⊢
    rw [List.length_dropLast] at h
    exact getR_dropLast _ _ (by omega)
  · rfl

theorem rsum_take_nonneg' : ∀ (s : List ℚ), (∀ v ∈ s, 0 ≤ v) → ∀ m, 0 ≤ rsum (s.take m)
  | [], _, m => by simp
  | _ :: _, _, 0 => by simp
  | v :: s, h, m + 1 => by
    have := rsum_take_nonneg' s (fun x hx => h x (by simp [hx])) m
    have := h v (by simp)
    simp only [List.take_succ_cons, rsum]; linarith

theorem rsum_take_le' (s : List ℚ) (h : ∀ v ∈ s, 0 ≤ v) (m : Nat) : rsum (s.take m) ≤ rsum s := by
  have e : rsum s = rsum (s.take m) + rsum (s.drop m) := by
    rw [← PwlEval.rsum_append, List.take_append_drop]
  have : 0 ≤ rsum (s.drop m) := by
    have := rsum_take_nonneg' (s.drop m) (fun v hv => h v (List.mem_of_mem_drop hv)) (s.drop m).length
    rwa [List.take_length] at this
  linarith

theorem getR_nonneg (s : List ℚ) (h : ∀ v ∈ s, 0 ≤ v) (i : Nat) : 0 ≤ getR s i := by
  unfold getR
  rw [List.getD_eq_getElem?_getD]
  cases hi : s[i]? with
  | none => simp
  | some v => simpa using h v (List.mem_of_getElem? hi)

/-- every prefix sum of the derived increasing kernel lies between `omin` and `omin + Σ s` -/
theorem incShape_prefix_bounds (omin : ℚ) (cmin cmax : Bool) (s : List ℚ) (hs : s ≠ [])
    (hn : ∀ v ∈ s, 0 ≤ v) (j : Nat) (hj : j < (incShape omin cmin cmax s).length) :
    omin ≤ rsum ((incShape omin cmin cmax s).take (j + 1)) ∧
      rsum ((incShape omin cmin cmax s).take (j + 1)) ≤ omin + rsum s := by
  rw [incShape_take omin cmin cmax s j (by omega), incFull_prefix omin cmin s hs]
  have h1 := rsum_take_nonneg' s hn (j + (if cmin then 0 else 1))
  have h2 := rsum_take_le' s hn (j + (if cmin then 0 else 1))
  constructor <;> linarith

/-- the increments (all entries after the first) are non-negative -/
theorem incShape_tail_nonneg (omin : ℚ) (cmin cmax : Bool) (s : List ℚ) (hs : s ≠ [])
    (hn : ∀ v ∈ s, 0 ≤ v) (i : Nat) (hi : i + 1 < (incShape omin cmin cmax s).length) :
    0 ≤ getR (incShape omin cmin cmax s) (i + 1) := by
  rw [getR_incShape _ _ _ _ _ hi, getR_incFull_succ _ _ _ hs]
  exact getR_nonneg s hn _

/-- `clamp_min`: the first entry is the lower bound -/
theorem incShape_first (omin : ℚ) (cmax : Bool) (s : List ℚ) (hs : s ≠ []) :
    getR (incShape omin true cmax s) 0 = omin := by
  have hl := incShape_length omin true cmax s hs
  have hp : 0 < s.length := List.length_pos_iff.mpr hs
  rw [getR_incShape _ _ _ _ _ (by cases cmax <;> simp at hl <;> omega)]
  simp [incFull, getR]

/-- `clamp_max`: the whole kernel sums to `omin + Σ s` -/
theorem incShape_total (omin : ℚ) (cmin : Bool) (s : List ℚ) (hs : s ≠ []) :
    rsum (incShape omin cmin true s) = omin + rsum s := by
  have h := incFull_prefix omin cmin s hs (incFull omin cmin s).length
  have hl := incFull_length omin cmin s hs
  rw [List.take_of_length_le (by omega), List.take_of_length_le (by cases cmin <;> simp at hl ⊢ <;> omega)] at h
  simpa [incShape] using h


/-! ### hypotheses bundles and the `output_param_size` bookkeeping -/

/-- what the theorems use about `tf.nn.softmax` (exact arithmetic): length preserving, positive
weights summing to one -/
structure SoftmaxLike (sm : List ℚ → List ℚ) : Prop where
  len : ∀ l, (sm l).length = l.length
  pos : ∀ l, ∀ w ∈ sm l, 0 < w
  sum : ∀ l, l ≠ [] → rsum (sm l) = 1

/-- what the theorems use about `tf.sigmoid`: monotone with values in `[0, 1]` (the float sigmoid
saturates to exactly 0 and 1, hence the closed interval) -/
structure SigmoidLike (σ : ℚ → ℚ) : Prop where
  mono : ∀ a b, a ≤ b → σ a ≤ σ b
  lo : ∀ z, 0 ≤ σ z
  hi : ∀ z, σ z ≤ 1

/-- `output_param_size` as a function of the number of keypoints -/
def outSize (cfg : PwlFnCfg) (n : Nat) : Int :=
  (n : Int) - b2i cfg.clampMax - b2i cfg.clampMin - b2i cfg.cyclic
    + b2i cfg.missingInput.isSome - b2i cfg.missingOutput.isSome

theorem outputParamSize_eq (cfg : PwlFnCfg) (inLast : Option Nat) :
    outputParamSize cfg inLast = outSize cfg (numKeypoints inLast) := rfl

/-- what `_verify_pwl_calibration` guarantees (`n` keypoints, `outLen` output parameters per unit):
exactly the facts `verify_ok_valid` derives from `verifyPwlFn … = .ok ()`, including the non-degenerate
input range (a zero range is rejected since ff5f96e, fixed finding F-C15-d) -/
structure ValidPwl (cfg : PwlFnCfg) (n outLen : Nat) : Prop where
  inRange : cfg.inMin < cfg.inMax
  outRange : cfg.outMin ≤ cfg.outMax
  noneNoClamp : cfg.increasing = false → cfg.clampMin = false ∧ cfg.clampMax = false
  incNoCyclic : cfg.increasing = true → cfg.cyclic = false
  missing : cfg.missingOutput.isSome = true → cfg.missingInput.isSome = true
  two : 2 ≤ n
  size : (outLen : Int) = outSize cfg n

theorem verify_ok_valid (cfg : PwlFnCfg) (inLast : Option Nat) (r3 : Bool) (rows outLast cols : Nat)
    (h : verifyPwlFn cfg inLast r3 rows outLast cols = .ok ()) :
    ValidPwl cfg (numKeypoints inLast) outLast := by
  unfold verifyPwlFn at h
  split_ifs at h with h1 h2 h3 h4 h5 h6 h7 h8 h9 h10
  refine ⟨not_le.mp h1, not_lt.mp h3, ?_, ?_, ?_, ?_, ?_⟩
  · intro hi
    simp only [hi, Bool.not_false, Bool.true_and, Bool.or_eq_true, not_or] at h2
    exact ⟨by simpa using h2.1, by simpa using h2.2⟩
  · intro hi
    simpa [hi] using h4
  · intro ho
    simp only [ho, Bool.true_and] at h5
    cases hm : cfg.missingInput <;> simp [hm] at h5 ⊢
  · cases inLast <;> simp [numKeypoints]
  · rw [← outputParamSize_eq]; exact not_not.mp h9

theorem keypointParams_length (cfg : PwlFnCfg) (outRow : List ℚ) (n : Nat)
    (hv : ValidPwl cfg n outRow.length) :
    ((keypointParams cfg outRow).length : Int) = (n : Int) - b2i cfg.clampMax - b2i cfg.clampMin - b2i cfg.cyclic := by
  obtain ⟨-, -, h1, h2, h3, h4, h5⟩ := hv
  obtain ⟨imin, imax, omin, omax, units, inc, cmin, cmax, cyc, mi, mo⟩ := cfg
  simp only [keypointParams, outSize] at *
  cases mi <;> cases mo <;> cases inc <;> cases cmin <;> cases cmax <;> cases cyc <;>
    simp [b2i] at h1 h2 h3 h5 ⊢ <;> omega

theorem freeShape_length (cyc : Bool) (v : List ℚ) (hv : v ≠ []) :
    (freeShape cyc v).length = v.length + (if cyc then 1 else 0) := by
  cases v with
  | nil => exact absurd rfl hv
  | cons a t =>
    cases cyc
    · simp [freeShape_false, PwlEval.length_diffs]
    · simp [freeShape_true, PwlEval.length_diffs]

/-- **bookkeeping**: after padding / dropping, the derived kernel has exactly one entry per keypoint,
for every clamp / cyclic / missing combination -/
theorem kernelOutputs_length (cfg : PwlFnCfg) (sm : List ℚ → List ℚ) (sg : ℚ → ℚ) (outRow : List ℚ) (n : Nat)
    (hsm : ∀ l, (sm l).length = l.length) (hv : ValidPwl cfg n outRow.length) :
    (kernelOutputs cfg sm sg outRow).length = n := by
  have hk := keypointParams_length cfg outRow n hv
  have h2 := hv.two
  unfold kernelOutputs
  by_cases hi : cfg.increasing = true
  · have hc := hv.incNoCyclic hi
    simp only [hi, if_true]
    rw [incOutputs_eq]
    have hne : (sm (0 :: keypointParams cfg outRow)).map (· * (cfg.outMax - cfg.outMin)) ≠ [] := by
      intro e
      have := congrArg List.length e
      simp [hsm] at this
    have hl := incShape_length cfg.outMin cfg.clampMin cfg.clampMax _ hne
    simp only [List.length_map, hsm, List.length_cons] at hl
    simp only [hc, b2i] at hk
    cases h3 : cfg.clampMin <;> cases h4 : cfg.clampMax <;> simp [h3, h4] at hl hk ⊢ <;> omega
  · have hi' : cfg.increasing = false := by simpa using hi
    obtain ⟨c1, c2⟩ := hv.noneNoClamp hi'
    simp only [hi', Bool.false_eq_true, if_false]
    rw [freeOutputs_eq]
    simp only [c1, c2, b2i] at hk
    have hne : freeValues cfg sg (keypointParams cfg outRow) ≠ [] := by
      intro e
      have := congrArg List.length e
      simp [freeValues] at this
      cases h5 : cfg.cyclic <;> simp [h5, this] at hk <;> omega
    rw [freeShape_length _ _ hne]
    simp only [freeValues, List.length_map]
    cases h5 : cfg.cyclic <;> simp [h5] at hk ⊢ <;> omega


/-! ### the paired layer of a valid call: well-formed, same function, outputs within bounds -/

section core
variable (cfg : PwlFnCfg) (sm : List ℚ → List ℚ) (sg : ℚ → ℚ) (inRow outRow : List ℚ) (n : Nat)

theorem deltas_length (hsm : SoftmaxLike sm) : (keypointDeltas cfg sm inRow).length = inRow.length := by
  simp [keypointDeltas, hsm.len]

theorem deltas_pos (hsm : SoftmaxLike sm) (hr : cfg.inMin < cfg.inMax) :
    ∀ l ∈ keypointDeltas cfg sm inRow, 0 < l := by
  intro l hl
  simp only [keypointDeltas, List.mem_map] at hl
  obtain ⟨w, hw, rfl⟩ := hl
  exact mul_pos (hsm.pos _ w hw) (by linarith)

theorem deltas_sum (hsm : SoftmaxLike sm) (hne : inRow ≠ []) :
    cfg.inMin + rsum (keypointDeltas cfg sm inRow) = cfg.inMax := by
  simp only [keypointDeltas, PwlEval.rsum_map_mul, hsm.sum _ hne]; ring

/-- the paired layer is one `PWLCalibration` accepts -/
theorem paired_wf (hsm : SoftmaxLike sm) (hv : ValidPwl cfg n outRow.length) (hin : inRow.length + 1 = n) :
    PwlEval.WF (layerCfg cfg (keypointDeltas cfg sm inRow))
      (layerKernel cfg (kernelOutputs cfg sm sg outRow)) [] := by
  have h2 := hv.two
  apply layer_wf
  · intro e
    have := congrArg List.length e
    rw [deltas_length cfg sm inRow hsm, List.length_nil] at this
    omega
  · exact deltas_pos cfg sm inRow hsm hv.inRange
  · rw [kernelOutputs_length cfg sm sg outRow n hsm.len hv, deltas_length cfg sm inRow hsm]; omega

theorem keypointParams_ne_nil (hv : ValidPwl cfg n outRow.length) (hc : cfg.increasing = false) :
    keypointParams cfg outRow ≠ [] := by
  have hk := keypointParams_length cfg outRow n hv
  have h2 := hv.two
  obtain ⟨c1, c2⟩ := hv.noneNoClamp hc
  intro e
  rw [e] at hk
  simp only [c1, c2, b2i, List.length_nil] at hk
  cases h5 : cfg.cyclic <;> simp [h5] at hk <;> omega

/-- the function's interpolation is the paired layer's `calibrate` -/
theorem paired_eq (hv : ValidPwl cfg n outRow.length) (x : ℚ) :
    calibrated cfg (keypointDeltas cfg sm inRow) (kernelOutputs cfg sm sg outRow) x
      = PwlEval.calibrate (layerCfg cfg (keypointDeltas cfg sm inRow))
          (layerKernel cfg (kernelOutputs cfg sm sg outRow)) [] x := by
  apply calibrated_eq_calibrate
  intro hc
  have hi : cfg.increasing = false := by
    cases h : cfg.increasing
    · rfl
    · have := hv.incNoCyclic h; rw [hc] at this; cases this
  unfold kernelOutputs
  simp only [hi, Bool.false_eq_true, if_false]
  exact free_cyclic_closing cfg sg _ (keypointParams_ne_nil cfg outRow n hv hi) hc

/-- every reported output of the paired layer is a prefix sum of its kernel -/
theorem keypointsOutputs_entry (c : PwlEval.Cfg) (k : List ℚ) (hk : k ≠ []) (j : Nat)
    (hj : j < k.length + (if c.isCyclic then 1 else 0)) :
    ∃ i, i < k.length ∧ getR (PwlEval.keypointsOutputs c k) j = rsum (k.take (i + 1)) := by
  have hp : 0 < k.length := List.length_pos_iff.mpr hk
  rcases Nat.lt_or_ge j k.length with hlt | hge
  · exact ⟨j, hlt, PwlEval.getR_keypointsOutputs_cumsum c k hlt⟩
  · have hc : c.isCyclic = true := by
      cases h : c.isCyclic
      · simp [h] at hj; omega
      · rfl
    have ej : j = k.length := by simp [hc] at hj; omega
    refine ⟨0, hp, ?_⟩
    have h0 := PwlEval.getR_keypointsOutputs_cumsum c k hp
    rw [← h0, ej]
    unfold PwlEval.keypointsOutputs
    simp only [hc, if_true]
    have hcl : (PwlEval.cumsumIncl 0 k).length = k.length := PwlEval.length_cumsumIncl 0 k
    cases hcs : PwlEval.cumsumIncl 0 k with
    | nil => rw [hcs] at hcl; simp at hcl; omega
    | cons c0 ct =>
      rw [hcs] at hcl
      have : (c0 :: ct) ++ List.take 1 (c0 :: ct) = (c0 :: ct) ++ [c0] := by simp
      rw [this, ← hcl, PwlEval.getR_append_length, PwlEval.getR_append_left _ _ (by simp)]
      simp [getR]

theorem freeValues_bounds (hsg : SigmoidLike sg) (hr : cfg.outMin ≤ cfg.outMax) (ko : List ℚ) :
    ∀ v ∈ freeValues cfg sg ko, cfg.outMin ≤ v ∧ v ≤ cfg.outMax := by
  intro v hv
  simp only [freeValues, List.mem_map] at hv
  obtain ⟨p, _, rfl⟩ := hv
  have h0 := hsg.lo p
  have h1 := hsg.hi p
  constructor <;> nlinarith

theorem getR_mem_of_lt (l : List ℚ) (i : Nat) (h : i < l.length) : getR l i ∈ l := by
  simp only [getR, List.getD_eq_getElem?_getD, List.getElem?_eq_getElem h, Option.getD_some]
  exact List.getElem_mem h

theorem exists_getR_of_mem (l : List ℚ) (v : ℚ) (h : v ∈ l) : ∃ k, k < l.length ∧ getR l k = v := by
  obtain ⟨k, hk1, hk2⟩ := List.getElem_of_mem h
  refine ⟨k, hk1, ?_⟩
  unfold getR
  rw [List.getD_eq_getElem?_getD, List.getElem?_eq_getElem hk1, Option.getD_some, hk2]

/-- prefix sums of the paired layer's kernel lie within the output bounds -/
theorem paired_prefix_bounds (hsm : SoftmaxLike sm) (hsg : SigmoidLike sg) (hv : ValidPwl cfg n outRow.length)
    (i : Nat) (hi : i < (layerKernel cfg (kernelOutputs cfg sm sg outRow)).length) :
    cfg.outMin ≤ rsum ((layerKernel cfg (kernelOutputs cfg sm sg outRow)).take (i + 1)) ∧
      rsum ((layerKernel cfg (kernelOutputs cfg sm sg outRow)).take (i + 1)) ≤ cfg.outMax := by
  by_cases hinc : cfg.increasing = true
  · have hc := hv.incNoCyclic hinc
    have e : layerKernel cfg (kernelOutputs cfg sm sg outRow)
        = incShape cfg.outMin cfg.clampMin cfg.clampMax
            ((sm (0 :: keypointParams cfg outRow)).map (· * (cfg.outMax - cfg.outMin))) := by
      simp [layerKernel, hc, kernelOutputs, hinc, incOutputs_eq]
    rw [e] at hi ⊢
    have hne : (sm (0 :: keypointParams cfg outRow)).map (· * (cfg.outMax - cfg.outMin)) ≠ [] := by
      intro e'
      have := congrArg List.length e'
      simp [hsm.len] at this
    have hn : ∀ v ∈ (sm (0 :: keypointParams cfg outRow)).map (· * (cfg.outMax - cfg.outMin)), 0 ≤ v := by
      intro v hv'
      simp only [List.mem_map] at hv'
      obtain ⟨w, hw, rfl⟩ := hv'
      exact mul_nonneg (hsm.pos _ w hw).le (by linarith [hv.outRange])
    have hb := incShape_prefix_bounds cfg.outMin cfg.clampMin cfg.clampMax _ hne hn i hi
    have hs : rsum ((sm (0 :: keypointParams cfg outRow)).map (· * (cfg.outMax - cfg.outMin)))
        = cfg.outMax - cfg.outMin := by
      rw [PwlEval.rsum_map_mul, hsm.sum _ (by simp)]; ring
    rw [hs] at hb
    exact ⟨hb.1, by linarith [hb.2]⟩
  · have hinc' : cfg.increasing = false := by simpa using hinc
    have hne := keypointParams_ne_nil cfg outRow n hv hinc'
    have e : layerKernel cfg (kernelOutputs cfg sm sg outRow)
        = (freeValues cfg sg (keypointParams cfg outRow)).headD 0
            :: PwlEval.diffs (freeValues cfg sg (keypointParams cfg outRow)) := by
      simp only [kernelOutputs, hinc', Bool.false_eq_true, if_false]
      exact free_layerKernel cfg sg _ hne
    rw [e] at hi ⊢
    cases hvv : freeValues cfg sg (keypointParams cfg outRow) with
    | nil => simp [freeValues] at hvv; exact absurd hvv hne
    | cons a t =>
      rw [hvv] at hi
      simp only [List.headD_cons, List.length_cons, PwlEval.length_diffs] at hi
      simp only [List.headD_cons, List.take_succ_cons, rsum]
      rw [rsum_take_diffs t a i (by omega)]
      have hm := getR_mem_of_lt (a :: t) i (by simp; omega)
      exact freeValues_bounds cfg sg hsg hv.outRange (keypointParams cfg outRow) _ (by rw [hvv]; exact hm)

theorem layerKernel_ne_nil (hsm : SoftmaxLike sm) (hv : ValidPwl cfg n outRow.length) :
    layerKernel cfg (kernelOutputs cfg sm sg outRow) ≠ [] := by
  have hl := kernelOutputs_length cfg sm sg outRow n hsm.len hv
  have h2 := hv.two
  intro e
  have := congrArg List.length e
  unfold layerKernel at this
  split_ifs at this <;> simp [hl] at this <;> omega

/-- all reported outputs of the paired layer lie in `[keypoint_output_min, keypoint_output_max]` -/
theorem paired_outputs_bounded (hsm : SoftmaxLike sm) (hsg : SigmoidLike sg) (hv : ValidPwl cfg n outRow.length)
    (hin : inRow.length + 1 = n) (j : Nat)
    (hj : j < (layerCfg cfg (keypointDeltas cfg sm inRow)).inputKeypoints.length) :
    cfg.outMin ≤ getR (PwlEval.keypointsOutputs (layerCfg cfg (keypointDeltas cfg sm inRow))
        (layerKernel cfg (kernelOutputs cfg sm sg outRow))) j ∧
      getR (PwlEval.keypointsOutputs (layerCfg cfg (keypointDeltas cfg sm inRow))
        (layerKernel cfg (kernelOutputs cfg sm sg outRow))) j ≤ cfg.outMax := by
  have hwf := paired_wf cfg sm sg inRow outRow n hsm hv hin
  have hkl := hwf.klen
  obtain ⟨i, hi, e⟩ := keypointsOutputs_entry (layerCfg cfg (keypointDeltas cfg sm inRow))
    (layerKernel cfg (kernelOutputs cfg sm sg outRow)) (layerKernel_ne_nil cfg sm sg outRow n hsm hv) j
    (by rw [hkl]; exact hj)
  rw [e]
  exact paired_prefix_bounds cfg sm sg outRow n hsm hsg hv i hi


/-- `'increasing'`: the reported outputs of the paired layer are non-decreasing -/
theorem paired_outputs_monotone (hsm : SoftmaxLike sm) (hv : ValidPwl cfg n outRow.length)
    (hin : inRow.length + 1 = n) (hinc : cfg.increasing = true) (j : Nat)
    (hj : j + 1 < (layerCfg cfg (keypointDeltas cfg sm inRow)).inputKeypoints.length) :
    getR (PwlEval.keypointsOutputs (layerCfg cfg (keypointDeltas cfg sm inRow))
        (layerKernel cfg (kernelOutputs cfg sm sg outRow))) j ≤
      getR (PwlEval.keypointsOutputs (layerCfg cfg (keypointDeltas cfg sm inRow))
        (layerKernel cfg (kernelOutputs cfg sm sg outRow))) (j + 1) := by
  have hwf := paired_wf cfg sm sg inRow outRow n hsm hv hin
  have hkl := hwf.klen
  have hc := hv.incNoCyclic hinc
  have e : layerKernel cfg (kernelOutputs cfg sm sg outRow)
      = incShape cfg.outMin cfg.clampMin cfg.clampMax
          ((sm (0 :: keypointParams cfg outRow)).map (· * (cfg.outMax - cfg.outMin))) := by
    simp [layerKernel, hc, kernelOutputs, hinc, incOutputs_eq]
  have hcl : (layerCfg cfg (keypointDeltas cfg sm inRow)).isCyclic = false := by simp [layerCfg, hc]
  simp only [hcl, Bool.false_eq_true, if_false, Nat.add_zero] at hkl
  rw [PwlEval.getR_keypointsOutputs_cumsum _ _ (by omega), PwlEval.getR_keypointsOutputs_cumsum _ _ (by omega),
    PwlEval.rsum_take_succ _ (j + 1)]
  have hne : (sm (0 :: keypointParams cfg outRow)).map (· * (cfg.outMax - cfg.outMin)) ≠ [] := by
    intro e'
    have := congrArg List.length e'
    simp [hsm.len] at this
  have hn : ∀ v ∈ (sm (0 :: keypointParams cfg outRow)).map (· * (cfg.outMax - cfg.outMin)), 0 ≤ v := by
    intro v hv'
    simp only [List.mem_map] at hv'
    obtain ⟨w, hw, rfl⟩ := hv'
    exact mul_nonneg (hsm.pos _ w hw).le (by linarith [hv.outRange])
  have := incShape_tail_nonneg cfg.outMin cfg.clampMin cfg.clampMax _ hne hn j (by rw [← e]; omega)
  rw [← e] at this
  linarith

/-- `clamp_min`: the first reported output is exactly `keypoint_output_min` -/
theorem paired_first_output (hsm : SoftmaxLike sm) (hv : ValidPwl cfg n outRow.length)
    (hcm : cfg.clampMin = true) :
    getR (PwlEval.keypointsOutputs (layerCfg cfg (keypointDeltas cfg sm inRow))
        (layerKernel cfg (kernelOutputs cfg sm sg outRow))) 0 = cfg.outMin := by
  have hinc : cfg.increasing = true := by
    cases h : cfg.increasing
    · have := (hv.noneNoClamp h).1; rw [hcm] at this; cases this
    · rfl
  have hc := hv.incNoCyclic hinc
  have e : layerKernel cfg (kernelOutputs cfg sm sg outRow)
      = incShape cfg.outMin true cfg.clampMax
          ((sm (0 :: keypointParams cfg outRow)).map (· * (cfg.outMax - cfg.outMin))) := by
    simp [layerKernel, hc, kernelOutputs, hinc, incOutputs_eq, hcm]
  have hne : (sm (0 :: keypointParams cfg outRow)).map (· * (cfg.outMax - cfg.outMin)) ≠ [] := by
    intro e'
    have := congrArg List.length e'
    simp [hsm.len] at this
  have hk := layerKernel_ne_nil cfg sm sg outRow n hsm hv
  rw [PwlEval.getR_keypointsOutputs_cumsum _ _ (List.length_pos_iff.mpr hk), PwlEval.rsum_take_succ, e,
    incShape_first _ _ _ hne]
  simp

/-- `clamp_max`: the last reported output is exactly `keypoint_output_max` -/
theorem paired_last_output (hsm : SoftmaxLike sm) (hv : ValidPwl cfg n outRow.length)
    (hin : inRow.length + 1 = n) (hcm : cfg.clampMax = true) :
    getR (PwlEval.keypointsOutputs (layerCfg cfg (keypointDeltas cfg sm inRow))
        (layerKernel cfg (kernelOutputs cfg sm sg outRow)))
      ((layerCfg cfg (keypointDeltas cfg sm inRow)).inputKeypoints.length - 1) = cfg.outMax := by
  have hinc : cfg.increasing = true := by
    cases h : cfg.increasing
    · have := (hv.noneNoClamp h).2; rw [hcm] at this; cases this
    · rfl
  have hc := hv.incNoCyclic hinc
  have hwf := paired_wf cfg sm sg inRow outRow n hsm hv hin
  have hkl := hwf.klen
  have h2 := hwf.two
  have hcl : (layerCfg cfg (keypointDeltas cfg sm inRow)).isCyclic = false := by simp [layerCfg, hc]
  simp only [hcl, Bool.false_eq_true, if_false, Nat.add_zero] at hkl
  have e : layerKernel cfg (kernelOutputs cfg sm sg outRow)
      = incShape cfg.outMin cfg.clampMin true
          ((sm (0 :: keypointParams cfg outRow)).map (· * (cfg.outMax - cfg.outMin))) := by
    simp [layerKernel, hc, kernelOutputs, hinc, incOutputs_eq, hcm]
  have hne : (sm (0 :: keypointParams cfg outRow)).map (· * (cfg.outMax - cfg.outMin)) ≠ [] := by
    intro e'
    have := congrArg List.length e'
    simp [hsm.len] at this
  rw [PwlEval.getR_keypointsOutputs_cumsum _ _ (by omega), List.take_of_length_le (by omega), e,
    incShape_total _ _ _ hne, PwlEval.rsum_map_mul, hsm.sum _ (by simp)]
  ring

/-- the keypoints the paired layer reports are the derived ones: first `keypoint_input_min`, last
`keypoint_input_max` -/
theorem paired_keypoints (hsm : SoftmaxLike sm) (hv : ValidPwl cfg n outRow.length)
    (hin : inRow.length + 1 = n) :
    getR (PwlEval.keypointsInputs (layerCfg cfg (keypointDeltas cfg sm inRow)) []) 0 = cfg.inMin ∧
    getR (PwlEval.keypointsInputs (layerCfg cfg (keypointDeltas cfg sm inRow)) [])
      ((layerCfg cfg (keypointDeltas cfg sm inRow)).inputKeypoints.length - 1) = cfg.inMax := by
  have hwf := paired_wf cfg sm (fun _ => 0) inRow outRow n hsm hv hin
  have h2 := hv.two
  have hne : inRow ≠ [] := by intro e; rw [e] at hin; simp at hin; omega
  rw [PwlEval.keypointsInputs_fixed hwf rfl]
  have hdl := deltas_length cfg sm inRow hsm
  constructor
  · simp only [layerCfg, derivedKeypoints]
    cases hd : keypointDeltas cfg sm inRow with
    | nil => rw [hd, List.length_nil] at hdl; omega
    | cons d ds => simp [PwlEval.cumsumExcl, getR]
  · simp only [layerCfg, derivedKeypoints, List.length_append, PwlEval.length_cumsumExcl, List.length_cons,
      List.length_nil, Nat.add_sub_cancel]
    have := PwlEval.getR_append_length (PwlEval.cumsumExcl cfg.inMin (keypointDeltas cfg sm inRow))
      (cfg.inMin + rsum (keypointDeltas cfg sm inRow))
    rw [PwlEval.length_cumsumExcl] at this
    rw [this, deltas_sum cfg sm inRow hsm hne]

end core

/-! ## (c) CDF: entries, the row-major reshape ("sparsity gather"), bounds, monotonicity -/

theorem getR_range_map (n : Nat) (f : Nat → ℚ) (i : Nat) :
    getR ((List.range n).map f) i = if i < n then f i else 0 := by
  unfold getR
  rw [List.getD_eq_getElem?_getD]
  by_cases h : i < n
  · simp [h]
  · simp [h]

theorem getD_range_map {α : Type} (n : Nat) (f : Nat → List α) (i : Nat) :
    ((List.range n).map f).getD i [] = if i < n then f i else [] := by
  rw [List.getD_eq_getElem?_getD]
  by_cases h : i < n
  · simp [h]
  · simp [h]

theorem getR_append (a b : List ℚ) (p : Nat) :
    getR (a ++ b) p = if p < a.length then getR a p else getR b (p - a.length) := by
  unfold getR
  by_cases h : p < a.length
  · simp [h, List.getD_eq_getElem?_getD, List.getElem?_append_left h]
  · simp [h, List.getD_eq_getElem?_getD, List.getElem?_append_right (not_lt.mp h)]

/-- an `I × W` matrix given by its entries -/
def matOf (I W : Nat) (g : Nat → Nat → ℚ) : List (List ℚ) :=
  (List.range I).map fun i => (List.range W).map fun j => g i j

theorem matOf_succ (I W : Nat) (g : Nat → Nat → ℚ) :
    matOf (I + 1) W g = matOf I W g ++ [(List.range W).map (g I)] := by
  simp [matOf, List.range_succ]

theorem length_flatten_matOf (I W : Nat) (g : Nat → Nat → ℚ) : (matOf I W g).flatten.length = I * W := by
  induction I with
  | zero => simp [matOf]
  | succ I ih => rw [matOf_succ, List.flatten_append, List.length_append, ih]; simp; ring

/-- row-major flattening: position `p` holds entry `(p / W, p % W)` -/
theorem getR_flatten_matOf (W : Nat) (g : Nat → Nat → ℚ) : ∀ (I p : Nat),
    getR (matOf I W g).flatten p = if p < I * W then g (p / W) (p % W) else 0
  | 0, p => by simp [matOf, getR]
  | I + 1, p => by
    rw [matOf_succ, List.flatten_append, getR_append, length_flatten_matOf, getR_flatten_matOf W g I p]
    by_cases h : p < I * W
    · have : p < (I + 1) * W := by rw [Nat.add_mul]; omega
      simp [h, this]
    · simp only [h, if_false, List.flatten_cons, List.flatten_nil, List.append_nil, getR_range_map]
      have hle : I * W ≤ p := not_lt.mp h
      by_cases h2 : p < (I + 1) * W
      · have hlt : p - I * W < W := by rw [Nat.add_mul] at h2; omega
        have hd : p / W = I := Nat.div_eq_of_lt_le hle h2
        have hm : p % W = p - I * W := by
          have := Nat.div_add_mod p W
          rw [hd, Nat.mul_comm] at this; omega
        simp [h2, hlt, hd, hm]
      · have hlt : ¬ p - I * W < W := by rw [Nat.add_mul] at h2; omega
        simp [h2, hlt]

/-- entry `(r, u)` of a list-of-rows matrix (0 outside) -/
def entry (m : List (List ℚ)) (r u : Nat) : ℚ := getR (m.getD r []) u

theorem entry_matOf (I W : Nat) (g : Nat → Nat → ℚ) (r u : Nat) :
    entry (matOf I W g) r u = if r < I ∧ u < W then g r u else 0 := by
  unfold entry matOf
  rw [getD_range_map]
  by_cases h : r < I
  · simp [h, getR_range_map]
  · simp [h, getR]

theorem entry_reshapeRows (rows cols : Nat) (flat : List ℚ) (r u : Nat) :
    entry (reshapeRows rows cols flat) r u = if r < rows ∧ u < cols then getR flat (r * cols + u) else 0 := by
  unfold entry reshapeRows
  rw [getD_range_map]
  by_cases h : r < rows
  · simp [h, getR_range_map]
  · simp [h, getR]

/-- **sparsity gather**: with `units = factor · W`, output unit `u` of reshaped row `r` is entry
`(r · factor + u / W, u % W)` of the `(input_dim, W)` matrix — unit `u` reads the input dims
`≡ u / W (mod factor)` through kernel column `u % W` -/
theorem entry_reshape_gather (f I W : Nat) (g : Nat → Nat → ℚ) (r u : Nat) (hr : r < I / f)
    (hu : u < f * W) :
    entry (reshapeRows (I / f) (f * W) (matOf I W g).flatten) r u = g (r * f + u / W) (u % W) := by
  have hW : 0 < W := by
    rcases Nat.eq_zero_or_pos W with h | h
    · rw [h] at hu; simp at hu
    · exact h
  rw [entry_reshapeRows, getR_flatten_matOf]
  have e : r * (f * W) + u = u + (r * f) * W := by ring
  have hlt : r * (f * W) + u < I * W := by
    have h1 : (r + 1) * f ≤ I := by
      calc (r + 1) * f ≤ (I / f) * f := Nat.mul_le_mul_right f hr
        _ ≤ I := Nat.div_mul_le_self I f
    calc r * (f * W) + u < r * (f * W) + f * W := by omega
      _ = ((r + 1) * f) * W := by ring
      _ ≤ I * W := Nat.mul_le_mul_right W h1
  simp only [hr, hu, and_self, if_true, hlt]
  rw [e, Nat.add_mul_div_right _ _ hW, Nat.add_mul_mod_self_right, Nat.add_comm]

theorem rsum_bounds (a b : ℚ) : ∀ l : List ℚ, (∀ v ∈ l, a ≤ v ∧ v ≤ b) →
    a * (l.length : ℚ) ≤ rsum l ∧ rsum l ≤ b * (l.length : ℚ)
  | [], _ => by simp [rsum]
  | v :: l, h => by
    have ih := rsum_bounds a b l (fun x hx => h x (by simp [hx]))
    have hv := h v (by simp)
    simp only [rsum, List.length_cons]
    push_cast
    constructor <;> nlinarith [ih.1, ih.2, hv.1, hv.2]

theorem meanL_bounds (a b : ℚ) (l : List ℚ) (hne : l ≠ []) (h : ∀ v ∈ l, a ≤ v ∧ v ≤ b) :
    a ≤ meanL l ∧ meanL l ≤ b := by
  have hp : (0 : ℚ) < (l.length : ℚ) := by exact_mod_cast List.length_pos_iff.mpr hne
  obtain ⟨h1, h2⟩ := rsum_bounds a b l h
  unfold meanL
  exact ⟨by rw [le_div_iff₀ hp]; exact h1, by rw [div_le_iff₀ hp]; exact h2⟩

theorem rsum_le_of_index : ∀ (l l' : List ℚ), l.length = l'.length → (∀ i, getR l i ≤ getR l' i) →
    rsum l ≤ rsum l'
  | [], [], _, _ => le_rfl
  | [], _ :: _, h, _ => by simp at h
  | _ :: _, [], h, _ => by simp at h
  | a :: l, b :: l', h, hi => by
    have ih := rsum_le_of_index l l' (by simpa using h) (fun i => by simpa [getR] using hi (i + 1))
    have h0 : a ≤ b := by simpa [getR] using hi 0
    simp only [rsum]; linarith

theorem meanL_le (l l' : List ℚ) (hl : l.length = l'.length) (h : ∀ i, getR l i ≤ getR l' i) :
    meanL l ≤ meanL l' := by
  unfold meanL
  rw [hl]
  exact div_le_div_of_nonneg_right (rsum_le_of_index l l' hl h) (by positivity)

theorem relu6_bounds (z : ℚ) : 0 ≤ relu6 z ∧ relu6 z ≤ 6 := by
  unfold relu6
  simp only [min_def, max_def]
  split_ifs <;> constructor <;> linarith

theorem relu6_mono {a b : ℚ} (h : a ≤ b) : relu6 a ≤ relu6 b := by
  unfold relu6
  exact min_le_min (max_le_max h le_rfl) le_rfl

theorem basis_mono (a : Activation) (σ : ℚ → ℚ) (hσ : SigmoidLike σ) {z z' : ℚ} (h : z ≤ z') :
    basis a σ z ≤ basis a σ z' := by
  cases a
  · exact relu6_mono h
  · exact hσ.mono _ _ h

/-- one entry: a mean of `K ≥ 1` basis values, rescaled into `[0, 1]` -/
theorem cdfEntry_bounds (a : Activation) (σ : ℚ → ℚ) (hσ : SigmoidLike σ) (K : Nat) (hK : 1 ≤ K)
    (z : Nat → ℚ) : 0 ≤ cdfEntry a σ K z ∧ cdfEntry a σ K z ≤ 1 := by
  have hne : (List.range K).map (fun k => basis a σ (z k)) ≠ [] := by
    intro e; have := congrArg List.length e; simp at this; omega
  unfold cdfEntry
  cases a
  · have := meanL_bounds 0 6 _ hne (by
      intro v hv
      simp only [List.mem_map] at hv
      obtain ⟨k, _, rfl⟩ := hv
      exact relu6_bounds _)
    simp only [finish]
    constructor
    · exact div_nonneg this.1 (by norm_num)
    · rw [div_le_iff₀ (by norm_num)]; linarith [this.2]
  · have := meanL_bounds 0 1 _ hne (by
      intro v hv
      simp only [List.mem_map] at hv
      obtain ⟨k, _, rfl⟩ := hv
      exact ⟨hσ.lo _, hσ.hi _⟩)
    simpa [finish] using this

theorem cdfEntry_mono (a : Activation) (σ : ℚ → ℚ) (hσ : SigmoidLike σ) (K : Nat) (z z' : Nat → ℚ)
    (h : ∀ k, z k ≤ z' k) : cdfEntry a σ K z ≤ cdfEntry a σ K z' := by
  have hm : meanL ((List.range K).map (fun k => basis a σ (z k)))
      ≤ meanL ((List.range K).map (fun k => basis a σ (z' k))) := by
    apply meanL_le _ _ (by simp)
    intro i
    rw [getR_range_map, getR_range_map]
    split_ifs
    · exact basis_mono a σ hσ (h i)
    · exact le_rfl
  unfold cdfEntry
  cases a
  · simp only [finish]; exact div_le_div_of_nonneg_right hm (by norm_num)
  · simpa [finish] using hm

theorem layerCdfs_eq (a : Activation) (σ : ℚ → ℚ) (scale : List ℚ) (kernel : List (List (List ℚ)))
    (K W : Nat) (x : List ℚ) :
    layerCdfs a σ scale kernel K W x = matOf x.length W (fun i j =>
      cdfEntry a σ K (fun k => bgetR scale i * (getR x i - get3 kernel i k j))) := rfl

theorem fnCdfs_eq (a : Activation) (σ : ℚ → ℚ) (scaling : Option (List (List (List ℚ))))
    (loc : List (List (List ℚ))) (K W : Nat) (x : List ℚ) :
    fnCdfs a σ scaling loc K W x = matOf x.length W (fun i j =>
      cdfEntry a σ K (fun k => fnPre scaling loc x i k j)) := rfl

theorem getR_map_rows (m : List (List ℚ)) (u r : Nat) :
    getR (m.map (fun row => getR row u)) r = entry m r u := by
  unfold entry getR
  simp only [List.getD_eq_getElem?_getD, List.getElem?_map]
  cases m[r]? <;> simp

theorem length_sparsify (f I U W : Nat) (g : Nat → Nat → ℚ) :
    (sparsify f I U (matOf I W g)).length = if f ≠ 1 then I / f else I := by
  unfold sparsify
  split_ifs <;> simp [reshapeRows, matOf]

/-- entries of the stage before the reduction, in terms of the entries `g` -/
theorem entry_sparsify_cases (f I U W : Nat) (g : Nat → Nat → ℚ) (r u : Nat) :
    entry (sparsify f I U (matOf I W g)) r u = 0 ∨
      ∃ i j, i < I ∧ j < W ∧ entry (sparsify f I U (matOf I W g)) r u = g i j ∧
        ∀ g' : Nat → Nat → ℚ, entry (sparsify f I U (matOf I W g')) r u = g' i j := by
  unfold sparsify
  by_cases hf : f ≠ 1
  · simp only [hf, ne_eq, not_false_eq_true, if_true]
    rw [entry_reshapeRows]
    by_cases h1 : r < I / f ∧ u < U
    · simp only [h1, and_self, if_true]
      rw [getR_flatten_matOf]
      by_cases h2 : r * U + u < I * W
      · have hW : 0 < W := by
          rcases Nat.eq_zero_or_pos W with h | h
          · rw [h] at h2; simp at h2
          · exact h
        refine Or.inr ⟨(r * U + u) / W, (r * U + u) % W, ?_, Nat.mod_lt _ hW, by simp [h2], ?_⟩
        · exact Nat.div_lt_of_lt_mul (by rw [Nat.mul_comm W I]; exact h2)
        · intro g'
          rw [entry_reshapeRows, getR_flatten_matOf]
          simp [h1, h2]
      · left; simp [h2]
    · left; simp [h1]
  · simp only [hf, if_false]
    rw [entry_matOf]
    by_cases h1 : r < I ∧ u < W
    · refine Or.inr ⟨r, u, h1.1, h1.2, by simp [h1], ?_⟩
      intro g'; rw [entry_matOf]; simp [h1]
    · left; simp [h1]

theorem entry_sparsify_bounds (f I U W : Nat) (g : Nat → Nat → ℚ) (hg : ∀ i j, 0 ≤ g i j ∧ g i j ≤ 1)
    (r u : Nat) : 0 ≤ entry (sparsify f I U (matOf I W g)) r u ∧ entry (sparsify f I U (matOf I W g)) r u ≤ 1 := by
  rcases entry_sparsify_cases f I U W g r u with h | ⟨i, j, _, _, h, _⟩
  · rw [h]; norm_num
  · rw [h]; exact hg i j

theorem entry_sparsify_mono (f I U W : Nat) (g g' : Nat → Nat → ℚ) (hg : ∀ i j, i < I → j < W → g i j ≤ g' i j)
    (r u : Nat) : entry (sparsify f I U (matOf I W g)) r u ≤ entry (sparsify f I U (matOf I W g')) r u := by
  rcases entry_sparsify_cases f I U W g r u with h | ⟨i, j, hi, hj, h, h'⟩
  · rcases entry_sparsify_cases f I U W g' r u with h2 | ⟨i', j', hi', hj', h2, h2'⟩
    · rw [h, h2]
    · -- the entry of g' is g' i' j'; the same position of g is g i' j' which is 0
      have := h2' g
      rw [h] at this
      rw [h2, h]
      calc (0 : ℚ) = g i' j' := this
        _ ≤ g' i' j' := hg i' j' hi' hj'
  · rw [h, h' g']; exact hg i j hi hj

theorem entry_singleton (row : List ℚ) (r u : Nat) :
    entry [row] r u = if r = 0 then getR row u else 0 := by
  unfold entry
  cases r <;> simp [getR]

/-- entries of the reduction stage are within `[0, 1]` when the matrix entries are (rows non-empty) -/
theorem reduceStage_bounds (red : Reduction) (f I U W : Nat) (g : Nat → Nat → ℚ)
    (hg : ∀ i j, 0 ≤ g i j ∧ g i j ≤ 1) (hrows : 0 < (if f ≠ 1 then I / f else I)) (r u : Nat) :
    0 ≤ entry (reduceStage red f I U (matOf I W g)) r u ∧ entry (reduceStage red f I U (matOf I W g)) r u ≤ 1 := by
  unfold reduceStage
  cases red
  · simp only [entry_singleton]
    split_ifs
    · unfold reduceMeanRows
      rw [getR_range_map]
      split_ifs
      · have hne : (sparsify f I U (matOf I W g)).map (fun row => getR row u) ≠ [] := by
          intro e
          have := congrArg List.length e
          rw [List.length_map, length_sparsify, List.length_nil] at this
          omega
        apply meanL_bounds 0 1 _ hne
        intro v hv
        obtain ⟨k, _, hk⟩ := exists_getR_of_mem _ v hv
        rw [← hk, getR_map_rows]
        exact entry_sparsify_bounds f I U W g hg k u
      · norm_num
    · norm_num
  · exact entry_sparsify_bounds f I U W g hg r u

/-- the reduction stage is entrywise monotone in the matrix entries -/
theorem reduceStage_mono (red : Reduction) (f I U W : Nat) (g g' : Nat → Nat → ℚ)
    (hg : ∀ i j, i < I → j < W → g i j ≤ g' i j) (r u : Nat) :
    entry (reduceStage red f I U (matOf I W g)) r u ≤ entry (reduceStage red f I U (matOf I W g')) r u := by
  unfold reduceStage
  cases red
  · simp only [entry_singleton]
    split_ifs
    · unfold reduceMeanRows
      rw [getR_range_map, getR_range_map]
      split_ifs
      · apply meanL_le
        · simp [length_sparsify]
        · intro k
          rw [getR_map_rows, getR_map_rows]
          exact entry_sparsify_mono f I U W g g' hg k u
      · exact le_rfl
    · exact le_rfl
  · exact entry_sparsify_mono f I U W g g' hg r u

theorem verifyCdf_ok {f I U K W locI : Nat} (h : verifyCdf f I U K W locI = .ok ()) :
    1 ≤ K ∧ 0 < (if f ≠ 1 then I / f else I) ∧ W = U / f ∧ U % f = 0 ∧ I % f = 0 ∧ 1 ≤ f := by
  unfold verifyCdf at h
  split_ifs at h with h1 h2 h3 h4 h5
  have hK : 1 ≤ K := by omega
  have hI : 1 ≤ I := by omega
  have hf : 1 ≤ f := by omega
  refine ⟨hK, ?_, by omega, by omega, by omega, hf⟩
  split_ifs
  · have hIm : I % f = 0 := by omega
    have hle : f ≤ I := Nat.le_of_dvd (by omega) (Nat.dvd_of_mod_eq_zero hIm)
    exact Nat.div_pos hle (by omega)
  · omega

theorem nonNeg_nonneg (raw : List ℚ) (i : Nat) : 0 ≤ bgetR (nonNeg raw) i := by
  have h : ∀ v ∈ nonNeg raw, 0 ≤ v := by
    intro v hv
    simp only [nonNeg, List.mem_map] at hv
    obtain ⟨w, _, rfl⟩ := hv
    split_ifs with h
    · exact h
    · exact le_rfl
  unfold bgetR
  split_ifs <;> exact getR_nonneg _ h _


/-! ## (d) ParallelCombination, Aggregation, RTL -/

theorem mapM_ok {α β : Type} (f : α → Except Err β) (g : α → β) : ∀ l : List α,
    (∀ a ∈ l, f a = .ok (g a)) → l.mapM f = .ok (l.map g)
  | [], _ => rfl
  | a :: l, h => by
    rw [List.mapM_cons, h a (by simp), mapM_ok f g l (fun b hb => h b (by simp [hb]))]
    rfl

theorem mapM_error {α β : Type} (f : α → Except Err β) (e : Err) : ∀ l : List α,
    (∀ a ∈ l, f a = .error e ∨ ∃ b, f a = .ok b) → (∃ a ∈ l, f a = .error e) → l.mapM f = .error e
  | [], _, h => by obtain ⟨a, ha, _⟩ := h; simp at ha
  | a :: l, hall, hex => by
    rw [List.mapM_cons]
    rcases hall a (by simp) with h | ⟨b, h⟩
    · rw [h]; rfl
    · obtain ⟨a', ha', he⟩ := hex
      have : a' ∈ l := by
        rcases List.mem_cons.mp ha' with rfl | hm
        · rw [h] at he; cases he
        · exact hm
      rw [h, mapM_error f e l (fun c hc => hall c (by simp [hc])) ⟨a', this, he⟩]
      rfl

/-- re-attaching the row partition to the mapped flat values gives back the rows, mapped -/
theorem splitBy_flatten_map {α β : Type} (f : α → β) : ∀ batch : List (List α),
    splitBy (batch.map List.length) (batch.flatten.map f) = batch.map (fun ex => ex.map f)
  | [] => by simp [splitBy]
  | ex :: rest => by
    have ih := splitBy_flatten_map f rest
    simp only [List.map_cons, List.flatten_cons, List.map_append, splitBy]
    rw [List.take_left' (by simp), List.drop_left' (by simp), ih]


theorem entries_of_mem (P : ℚ → Prop) (out : List (List ℚ)) (h : ∀ r u, P (entry out r u)) :
    ∀ row ∈ out, ∀ v ∈ row, P v := by
  intro row hrow v hv
  obtain ⟨r, hr1, hr2⟩ := List.getElem_of_mem hrow
  obtain ⟨u, _, hu⟩ := exists_getR_of_mem row v hv
  have := h r u
  unfold entry at this
  rw [List.getD_eq_getElem?_getD, List.getElem?_eq_getElem hr1, Option.getD_some, hr2, hu] at this
  exact this


theorem getR_set (x : List ℚ) (d : Nat) (v : ℚ) (i : Nat) :
    getR (x.set d v) i = if i = d ∧ d < x.length then v else getR x i := by
  unfold getR
  rw [List.getD_eq_getElem?_getD, List.getD_eq_getElem?_getD, List.getElem?_set]
  by_cases h : d = i
  · subst h
    by_cases h2 : d < x.length
    · simp [h2]
    · simp [h2]
  · have : ¬ i = d := fun e => h e.symm
    simp [h, this]



/-! ### unfolding the `Except` wrappers of `CDF.call` / `cdf_fn` -/

theorem layerCall_ok {a : Activation} {σ : ℚ → ℚ} {red : Reduction} {f U : Nat} {scale : List ℚ}
    {kernel : List (List (List ℚ))} {K W : Nat} {x : List ℚ} {out : List (List ℚ)}
    (h : layerCall a σ red f U scale kernel K W x = .ok out) :
    verifyCdf f x.length U K W kernel.length = .ok () ∧ 1 ≤ U ∧
      out = reduceStage red f x.length U (layerCdfs a σ scale kernel K W x) := by
  unfold layerCall at h
  by_cases hc : K = 0 ∨ U = 0
  · simp [hc, bind, Except.bind] at h
  · cases hver : verifyCdf f x.length U K W kernel.length with
    | error e => simp [hc, hver, bind, Except.bind, pure, Except.pure] at h
    | ok _ =>
      simp only [hc, if_false, hver, bind, Except.bind, pure, Except.pure, Except.ok.injEq] at h
      exact ⟨rfl, by omega, h.symm⟩

theorem cdfFn_ok {a : Activation} {σ : ℚ → ℚ} {red : Reduction} {f U : Nat}
    {scaling : Option (List (List (List ℚ)))} {loc : List (List (List ℚ))} {K W : Nat} {x : List ℚ}
    {out : List (List ℚ)} (h : cdfFn a σ red f U scaling loc K W x = .ok out) :
    verifyCdf f x.length U K W loc.length = .ok () ∧
      out = reduceStage red f x.length U (fnCdfs a σ scaling loc K W x) := by
  unfold cdfFn at h
  cases hver : verifyCdf f x.length U K W loc.length with
  | error e => simp [hver, bind, Except.bind] at h
  | ok _ =>
    simp only [hver, bind, Except.bind, pure, Except.pure, Except.ok.injEq] at h
    exact ⟨rfl, h.symm⟩

/-- without keypoints every path of the verification ends in a `ValueError` (non-zero factor) -/
theorem verifyCdf_no_keypoints (f I U W locI : Nat) (hf : f ≠ 0) :
    verifyCdf f I U 0 W locI = .error .valueError := by
  unfold verifyCdf
  split_ifs <;> simp_all

/-- for at least one unit and a non-zero factor the layer's extra constructor check adds nothing -/
theorem layerCall_eq (a : Activation) (σ : ℚ → ℚ) (red : Reduction) (f U : Nat) (scale : List ℚ)
    (kernel : List (List (List ℚ))) (K W : Nat) (x : List ℚ) (hU : 1 ≤ U) (hf : 1 ≤ f) :
    layerCall a σ red f U scale kernel K W x
      = (do verifyCdf f x.length U K W kernel.length
            pure (reduceStage red f x.length U (layerCdfs a σ scale kernel K W x))) := by
  unfold layerCall
  by_cases hK : K = 0
  · subst hK
    rw [verifyCdf_no_keypoints _ _ _ _ _ (by omega)]
    simp [bind, Except.bind]
  · have : ¬ (K = 0 ∨ U = 0) := by omega
    simp [this]

/-! ### the sparsity factor as a Python `int` (fixes 1677739 / 75478be) -/

theorem sparsityOf_lt {f : Int} (h : f < 1) : sparsityOf f = .error .valueError := by
  simp [sparsityOf, h]

theorem sparsityOf_pos {f : Int} (h : 1 ≤ f) : sparsityOf f = .ok f.toNat := by
  have : ¬ f < 1 := by omega
  simp [sparsityOf, this]

theorem sparsityOf_natCast {n : Nat} (h : 1 ≤ n) : sparsityOf (n : Int) = .ok n := by
  rw [sparsityOf_pos (by omega)]; simp

/-- an accepted factor is at least 1 and is the natural number the model goes on with -/
theorem sparsityOf_ok {f : Int} {n : Nat} (h : sparsityOf f = .ok n) : 1 ≤ f ∧ (n : Int) = f ∧ 1 ≤ n := by
  unfold sparsityOf at h
  split_ifs at h with h1
  simp only [Except.ok.injEq] at h
  omega

/-- below 1 the constructor raises a `ValueError` whatever else is configured -/
theorem layerCallZ_lt {f : Int} (h : f < 1) (a : Activation) (σ : ℚ → ℚ) (red : Reduction) (U : Nat)
    (scale : List ℚ) (kernel : List (List (List ℚ))) (K W : Nat) (x : List ℚ) :
    layerCallZ a σ red f U scale kernel K W x = .error .valueError := by
  unfold layerCallZ
  rw [sparsityOf_lt h]
  by_cases hc : K = 0 ∨ U = 0 <;> simp [hc, bind, Except.bind]

theorem cdfFnZ_lt {f : Int} (h : f < 1) (a : Activation) (σ : ℚ → ℚ) (red : Reduction) (U : Nat)
    (scaling : Option (List (List (List ℚ)))) (loc : List (List (List ℚ))) (K W : Nat) (x : List ℚ) :
    cdfFnZ a σ red f U scaling loc K W x = .error .valueError := by
  unfold cdfFnZ
  rw [sparsityOf_lt h]
  rfl

/-- from 1 on the `int` entry point is the `Nat` one (the constructor check `K = 0 ∨ U = 0` is the first
statement of `layerCall` as well) -/
theorem layerCallZ_pos {f : Int} (h : 1 ≤ f) (a : Activation) (σ : ℚ → ℚ) (red : Reduction) (U : Nat)
    (scale : List ℚ) (kernel : List (List (List ℚ))) (K W : Nat) (x : List ℚ) :
    layerCallZ a σ red f U scale kernel K W x = layerCall a σ red f.toNat U scale kernel K W x := by
  unfold layerCallZ
  rw [sparsityOf_pos h]
  by_cases hc : K = 0 ∨ U = 0
  · simp [layerCall, hc, bind, Except.bind]
  · simp [hc, bind, Except.bind]

theorem cdfFnZ_pos {f : Int} (h : 1 ≤ f) (a : Activation) (σ : ℚ → ℚ) (red : Reduction) (U : Nat)
    (scaling : Option (List (List (List ℚ)))) (loc : List (List (List ℚ))) (K W : Nat) (x : List ℚ) :
    cdfFnZ a σ red f U scaling loc K W x = cdfFn a σ red f.toNat U scaling loc K W x := by
  unfold cdfFnZ
  rw [sparsityOf_pos h]
  rfl

theorem layerCallZ_ok {a : Activation} {σ : ℚ → ℚ} {red : Reduction} {f : Int} {U : Nat} {scale : List ℚ}
    {kernel : List (List (List ℚ))} {K W : Nat} {x : List ℚ} {out : List (List ℚ)}
    (h : layerCallZ a σ red f U scale kernel K W x = .ok out) :
    1 ≤ f ∧ layerCall a σ red f.toNat U scale kernel K W x = .ok out := by
  by_cases hf : f < 1
  · rw [layerCallZ_lt hf] at h; cases h
  · have hf1 : 1 ≤ f := by omega
    rw [layerCallZ_pos hf1] at h
    exact ⟨hf1, h⟩

theorem cdfFnZ_ok {a : Activation} {σ : ℚ → ℚ} {red : Reduction} {f : Int} {U : Nat}
    {scaling : Option (List (List (List ℚ)))} {loc : List (List (List ℚ))} {K W : Nat} {x : List ℚ}
    {out : List (List ℚ)} (h : cdfFnZ a σ red f U scaling loc K W x = .ok out) :
    1 ≤ f ∧ cdfFn a σ red f.toNat U scaling loc K W x = .ok out := by
  by_cases hf : f < 1
  · rw [cdfFnZ_lt hf] at h; cases h
  · have hf1 : 1 ≤ f := by omega
    rw [cdfFnZ_pos hf1] at h
    exact ⟨hf1, h⟩

theorem mem_tileUnits {α : Type} (units : Nat) (rows : List α) (a : α) (h : a ∈ tileUnits units rows) :
    a ∈ rows := by
  unfold tileUnits at h
  split at h
  · split_ifs at h
    · rw [List.mem_replicate] at h; simp [h.2]
    · exact h
  · exact h


end Tfl.Alt
