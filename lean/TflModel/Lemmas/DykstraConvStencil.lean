import TflModel.Lemmas.DykstraConvBox
import TflModel.Lemmas.DykstraExec
/-!
# Group maps made of disjoint stencils: `lands` and the box-sum variational inequality

A group of `project_by_dykstra` applies one small map to each of its stencils — pairs `(k, k+1)`
along an axis, or 2×2 squares along two axes — and the stencils of one parity group are disjoint.
This file proves, once and for all axes:
* `sum_pair_decomp`: a box sum splits into the sums over the pairs of a parity group plus the
  untouched vertices (pure re-indexing);
* `pairGroup_lands / pairGroup_vi`: a pair-stencil group map whose pair map lands in `Q` and
  satisfies the 2-point variational inequality lands in `Q` on every pair and satisfies the box-sum
  variational inequality;
* `sqGroup_lands / sqGroup_vi`: the same for 2×2 stencils along two independent axes.
An `Axis` abstracts "coordinate `d`" and "coordinate `d` read in reverse" (trust direction −1).
-/
namespace Tfl.DykConv
open Tfl Tfl.Lat

/-- a way to read / write one coordinate of a multi-index (plain or reversed): the data -/
structure Axis (sizes : List Nat) where
  n : Nat
  get : Idx → Nat
  set : Idx → Nat → Idx

/-- … and its laws on the box -/
structure Axis.Laws {sizes : List Nat} (A : Axis sizes) : Prop where
  get_lt : ∀ {idx}, InRange sizes idx → A.get idx < A.n
  get_set : ∀ {idx v}, InRange sizes idx → v < A.n → A.get (A.set idx v) = v
  set_set : ∀ {idx v v'}, A.set (A.set idx v) v' = A.set idx v'
  set_get : ∀ {idx}, InRange sizes idx → A.set idx (A.get idx) = idx
  inRange_set : ∀ {idx v}, InRange sizes idx → v < A.n → InRange sizes (A.set idx v)

/-- coordinate `d`, possibly read in reverse (`pos = false`) -/
def revAxis (sizes : List Nat) (d : Nat) (pos : Bool) : Axis sizes where
  n := sizes.getD d 0
  get := fun idx => rev (sizes.getD d 0) pos (coord idx d)
  set := fun idx v => setc idx d (rev (sizes.getD d 0) pos v)

theorem revAxis_laws (sizes : List Nat) (d : Nat) (pos : Bool) (hd : d < sizes.length) :
    (revAxis sizes d pos).Laws where
  get_lt := fun hr => rev_lt pos (hr.2 d hd)
  get_set := by
    intro idx v hr hv
    simp only [revAxis] at hv ⊢
    rw [coord_setc_same _ (by rw [hr.1]; exact hd)]
    unfold rev; split_ifs <;> omega
  set_set := by intro idx v v'; exact setc_setc_same _ _ _ _
  set_get := by
    intro idx hr
    have hl : d < idx.length := by rw [hr.1]; exact hd
    have := hr.2 d hd
    have e : rev (sizes.getD d 0) pos (rev (sizes.getD d 0) pos (coord idx d)) = coord idx d := by
      unfold rev; split_ifs <;> omega
    simp only [revAxis]
    rw [e]; exact setc_coord_self hl
  inRange_set := fun hr hv => inRange_setc hr (rev_lt pos hv)

/-- plain coordinate `d` -/
abbrev coordAxis (sizes : List Nat) (d : Nat) : Axis sizes := revAxis sizes d true

theorem coordAxis_get {sizes : List Nat} (d : Nat) (idx : Idx) :
    (coordAxis sizes d).get idx = coord idx d := by simp [coordAxis, revAxis, rev]
theorem coordAxis_set {sizes : List Nat} (d : Nat) (idx : Idx) (v : Nat) :
    (coordAxis sizes d).set idx v = setc idx d v := by simp [coordAxis, revAxis, rev]

/-- two axes that do not interfere -/
structure AxIndep {sizes : List Nat} (A1 A2 : Axis sizes) : Prop where
  get1_set2 : ∀ idx v, A1.get (A2.set idx v) = A1.get idx
  get2_set1 : ∀ idx v, A2.get (A1.set idx v) = A2.get idx
  comm : ∀ idx u v, A1.set (A2.set idx v) u = A2.set (A1.set idx u) v

theorem revAxis_indep {sizes : List Nat} {d1 d2 : Nat} (p1 p2 : Bool) (hne : d1 ≠ d2) :
    AxIndep (revAxis sizes d1 p1) (revAxis sizes d2 p2) where
  get1_set2 := fun idx v => by simp only [revAxis]; rw [coord_setc_ne _ (Ne.symm hne)]
  get2_set1 := fun idx v => by simp only [revAxis]; rw [coord_setc_ne _ hne]
  comm := fun idx u v => by simp only [revAxis]; exact setc_comm idx _ _ (Ne.symm hne)

section OneAxis
variable {sizes : List Nat} (A : Axis sizes) (g : Nat)

/-- `idx` is the lower element of a pair of the parity group `g` -/
def Axis.lower (idx : Idx) : Prop := inGroup g A.n (A.get idx) = true
/-- `idx` is the upper element of a pair of the parity group `g` -/
def Axis.upper (idx : Idx) : Prop := 1 ≤ A.get idx ∧ inGroup g A.n (A.get idx - 1) = true
def Axis.up (idx : Idx) : Idx := A.set idx (A.get idx + 1)
def Axis.dn (idx : Idx) : Idx := A.set idx (A.get idx - 1)

instance (idx : Idx) : Decidable (A.lower g idx) := by unfold Axis.lower; infer_instance
instance (idx : Idx) : Decidable (A.upper g idx) := by unfold Axis.upper; infer_instance

variable {A g}

theorem Axis.lower_lt {idx : Idx} (h : A.lower g idx) : A.get idx + 1 < A.n := inGroup_lt h

theorem Axis.not_upper_of_lower {idx : Idx} (h : A.lower g idx) : ¬ A.upper g idx := by
  intro h2
  simp only [Axis.lower, Axis.upper, inGroup, Bool.and_eq_true, decide_eq_true_eq, beq_iff_eq] at h h2
  omega

theorem Axis.up_facts (hA : A.Laws) {idx : Idx} (hr : InRange sizes idx) (h : A.lower g idx) :
    InRange sizes (A.up idx) ∧ A.get (A.up idx) = A.get idx + 1 ∧ A.upper g (A.up idx) ∧
      ¬ A.lower g (A.up idx) ∧ A.dn (A.up idx) = idx := by
  have hlt := Axis.lower_lt h
  have hg : A.get (A.up idx) = A.get idx + 1 := hA.get_set hr hlt
  have hu : A.upper g (A.up idx) := by
    unfold Axis.upper; rw [hg]; exact ⟨by omega, by rw [Nat.add_sub_cancel]; exact h⟩
  refine ⟨hA.inRange_set hr hlt, hg, hu, fun hl => Axis.not_upper_of_lower hl hu, ?_⟩
  unfold Axis.dn
  rw [hg, Nat.add_sub_cancel]
  unfold Axis.up
  rw [hA.set_set, hA.set_get hr]

theorem Axis.dn_facts (hA : A.Laws) {idx : Idx} (hr : InRange sizes idx) (h : A.upper g idx) :
    InRange sizes (A.dn idx) ∧ A.get (A.dn idx) = A.get idx - 1 ∧ A.lower g (A.dn idx) ∧
      A.up (A.dn idx) = idx := by
  have hlt := hA.get_lt hr
  have hg : A.get (A.dn idx) = A.get idx - 1 := hA.get_set hr (by omega)
  refine ⟨hA.inRange_set hr (by omega), hg, by unfold Axis.lower; rw [hg]; exact h.2, ?_⟩
  unfold Axis.up
  rw [hg, show A.get idx - 1 + 1 = A.get idx from Nat.sub_add_cancel h.1]
  unfold Axis.dn
  rw [hA.set_set, hA.set_get hr]

theorem stencilBase_lower {idx : Idx} (h : A.lower g idx) :
    stencilBase g A.n (A.get idx) = some (A.get idx) := by
  have h' : inGroup g A.n (A.get idx) = true := h
  unfold stencilBase; rw [if_pos h']

theorem stencilBase_upper {idx : Idx} (h : A.upper g idx) (hl : ¬ A.lower g idx) :
    stencilBase g A.n (A.get idx) = some (A.get idx - 1) := by
  have hl' : ¬ inGroup g A.n (A.get idx) = true := hl
  have h' : 1 ≤ A.get idx ∧ inGroup g A.n (A.get idx - 1) = true := h
  unfold stencilBase; rw [if_neg hl', if_pos h']

theorem stencilBase_neither {idx : Idx} (hl : ¬ A.lower g idx) (hu : ¬ A.upper g idx) :
    stencilBase g A.n (A.get idx) = none := by
  have hl' : ¬ inGroup g A.n (A.get idx) = true := hl
  have hu' : ¬ (1 ≤ A.get idx ∧ inGroup g A.n (A.get idx - 1) = true) := hu
  unfold stencilBase; rw [if_neg hl', if_neg hu']

/-- **pair decomposition of a box sum** along an axis and a parity group -/
theorem sum_pair_decomp {A : Axis sizes} (hA : A.Laws) (g : Nat) (f : Idx → ℝ) :
    ∑ idx ∈ (allIdx sizes).toFinset, f idx
      = ∑ idx ∈ (allIdx sizes).toFinset.filter (fun idx => A.lower g idx), (f idx + f (A.up idx))
        + ∑ idx ∈ (allIdx sizes).toFinset.filter (fun idx => ¬ A.lower g idx ∧ ¬ A.upper g idx), f idx := by
  set B := (allIdx sizes).toFinset with hB
  have hmemB : ∀ idx, idx ∈ B ↔ InRange sizes idx := fun idx => by simp [hB, mem_allIdx]
  have hsplit : ∀ idx ∈ B, f idx
      = (if A.lower g idx then f idx else 0) + (if A.upper g idx then f idx else 0)
        + (if ¬ A.lower g idx ∧ ¬ A.upper g idx then f idx else 0) := by
    intro idx _
    by_cases h1 : A.lower g idx
    · have h2 := Axis.not_upper_of_lower h1
      simp [h1, h2]
    · by_cases h2 : A.upper g idx <;> simp [h1, h2]
  rw [Finset.sum_congr rfl hsplit, Finset.sum_add_distrib, Finset.sum_add_distrib,
    ← Finset.sum_filter, ← Finset.sum_filter, ← Finset.sum_filter]
  have hmove : ∑ idx ∈ B.filter (fun idx => A.upper g idx), f idx
      = ∑ idx ∈ B.filter (fun idx => A.lower g idx), f (A.up idx) := by
    refine Finset.sum_nbij' (fun idx => A.dn idx) (fun idx => A.up idx) ?_ ?_ ?_ ?_ ?_
    · intro idx hi
      obtain ⟨hb, h1⟩ := Finset.mem_filter.mp hi
      obtain ⟨f1, _, f3, _⟩ := Axis.dn_facts hA ((hmemB idx).mp hb) h1
      exact Finset.mem_filter.mpr ⟨(hmemB _).mpr f1, f3⟩
    · intro idx hi
      obtain ⟨hb, h1⟩ := Finset.mem_filter.mp hi
      obtain ⟨f1, _, f3, _⟩ := Axis.up_facts hA ((hmemB idx).mp hb) h1
      exact Finset.mem_filter.mpr ⟨(hmemB _).mpr f1, f3⟩
    · intro idx hi
      obtain ⟨hb, h1⟩ := Finset.mem_filter.mp hi
      exact (Axis.dn_facts hA ((hmemB idx).mp hb) h1).2.2.2
    · intro idx hi
      obtain ⟨hb, h1⟩ := Finset.mem_filter.mp hi
      exact (Axis.up_facts hA ((hmemB idx).mp hb) h1).2.2.2.2
    · intro idx hi
      obtain ⟨hb, h1⟩ := Finset.mem_filter.mp hi
      rw [(Axis.dn_facts hA ((hmemB idx).mp hb) h1).2.2.2]
  rw [hmove, ← Finset.sum_add_distrib]

end OneAxis

theorem bsum_eq_finset (sizes : List Nat) (f : Idx → ℝ) :
    bsum sizes f = ∑ idx ∈ (allIdx sizes).toFinset, f idx :=
  (List.sum_toFinset f (nodup_allIdx sizes)).symm

theorem mem_box {sizes : List Nat} {idx : Idx} : idx ∈ (allIdx sizes).toFinset ↔ InRange sizes idx := by
  simp [mem_allIdx]

/-! ## pair-stencil groups -/
section PairGroup
variable {sizes : List Nat} (A : Axis sizes) (g : Nat)

/-- the group map that applies the pair map `pp b` to every pair `(b, up b)` of the parity group -/
def pairGroup (pp : Idx → ℚ → ℚ → ℚ × ℚ) (w : W) : W := fun idx =>
  if A.lower g idx then (pp idx (w idx) (w (A.up idx))).1
  else if A.upper g idx then (pp (A.dn idx) (w (A.dn idx)) (w idx)).2
  else w idx

/-- feasibility for a pair-stencil group: every pair of the group satisfies `Q b` -/
def PairF (Q : Idx → ℝ → ℝ → Prop) (y : Idx → ℝ) : Prop :=
  ∀ idx, InRange sizes idx → A.lower g idx → Q idx (y idx) (y (A.up idx))

variable {A g}

theorem pairGroup_at_pair (hA : A.Laws) (pp : Idx → ℚ → ℚ → ℚ × ℚ) (w : W) {idx : Idx} (hr : InRange sizes idx)
    (h : A.lower g idx) :
    pairGroup A g pp w idx = (pp idx (w idx) (w (A.up idx))).1 ∧
      pairGroup A g pp w (A.up idx) = (pp idx (w idx) (w (A.up idx))).2 := by
  obtain ⟨_, _, f3, f4, f5⟩ := Axis.up_facts hA hr h
  constructor
  · simp only [pairGroup, if_pos h]
  · simp only [pairGroup, if_neg f4, if_pos f3, f5]

theorem pairGroup_lands (hA : A.Laws) {pp : Idx → ℚ → ℚ → ℚ × ℚ} {Q : Idx → ℝ → ℝ → Prop}
    (hl : ∀ idx a b, InRange sizes idx → A.lower g idx → Q idx ((pp idx a b).1 : ℝ) ((pp idx a b).2 : ℝ))
    (w : W) : PairF A g Q (fun idx => (pairGroup A g pp w idx : ℝ)) := by
  intro idx hr h
  obtain ⟨e1, e2⟩ := pairGroup_at_pair hA pp w hr h
  simp only [e1, e2]
  exact hl idx _ _ hr h

theorem pairGroup_vi (hA : A.Laws) {pp : Idx → ℚ → ℚ → ℚ × ℚ} {Q : Idx → ℝ → ℝ → Prop}
    (hv : ∀ idx (a b : ℚ) (y1 y2 : ℝ), InRange sizes idx → A.lower g idx → Q idx y1 y2 →
      ((a : ℝ) - ((pp idx a b).1 : ℝ)) * (y1 - ((pp idx a b).1 : ℝ))
        + ((b : ℝ) - ((pp idx a b).2 : ℝ)) * (y2 - ((pp idx a b).2 : ℝ)) ≤ 0)
    (w : W) (y : Idx → ℝ) (hy : PairF A g Q y) :
    bsum sizes (fun idx => ((w idx : ℝ) - (pairGroup A g pp w idx : ℝ))
      * (y idx - (pairGroup A g pp w idx : ℝ))) ≤ 0 := by
  rw [bsum_eq_finset, sum_pair_decomp hA g]
  have h2 : ∑ idx ∈ (allIdx sizes).toFinset.filter (fun idx => ¬ A.lower g idx ∧ ¬ A.upper g idx),
      ((w idx : ℝ) - (pairGroup A g pp w idx : ℝ)) * (y idx - (pairGroup A g pp w idx : ℝ)) = 0 := by
    refine Finset.sum_eq_zero (fun idx hi => ?_)
    obtain ⟨_, h1, h2⟩ := Finset.mem_filter.mp hi
    simp only [pairGroup, if_neg h1, if_neg h2, sub_self, zero_mul]
  rw [h2, add_zero]
  refine Finset.sum_nonpos (fun idx hi => ?_)
  obtain ⟨hb, h⟩ := Finset.mem_filter.mp hi
  have hr := mem_box.mp hb
  obtain ⟨e1, e2⟩ := pairGroup_at_pair hA pp w hr h
  simp only [e1, e2]
  exact hv idx _ _ _ _ hr h (hy idx hr h)

theorem pairF_closed {Q : Idx → ℝ → ℝ → Prop}
    (hQ : ∀ idx, IsClosed {p : ℝ × ℝ | Q idx p.1 p.2}) : IsClosed {y : Idx → ℝ | PairF A g Q y} := by
  have : {y : Idx → ℝ | PairF A g Q y} = ⋂ idx, ⋂ (_ : InRange sizes idx), ⋂ (_ : A.lower g idx),
      {y : Idx → ℝ | Q idx (y idx) (y (A.up idx))} := by
    ext y; simp [PairF]
  rw [this]
  refine isClosed_iInter (fun idx => isClosed_iInter (fun _ => isClosed_iInter (fun _ => ?_)))
  have hc : Continuous (fun y : Idx → ℝ => (y idx, y (A.up idx))) :=
    (continuous_apply idx).prodMk (continuous_apply (A.up idx))
  exact (hQ idx).preimage hc

theorem pairF_local (hA : A.Laws) {Q : Idx → ℝ → ℝ → Prop} (y y' : Idx → ℝ)
    (h : ∀ idx, InRange sizes idx → y idx = y' idx) (hy : PairF A g Q y) : PairF A g Q y' := by
  intro idx hr hg
  rw [← h idx hr, ← h _ (Axis.up_facts hA hr hg).1]
  exact hy idx hr hg

end PairGroup

/-! ## 2×2-stencil groups along two independent axes -/
section SqGroup
variable {sizes : List Nat} (A1 A2 : Axis sizes) (g0 g1 : Nat)

/-- component of a quadruple `(v00, v01, v10, v11)` at offset `(a, b)` -/
def pick4 (a b : Nat) (q : ℚ × ℚ × ℚ × ℚ) : ℚ :=
  if a = 0 then (if b = 0 then q.1 else q.2.1) else (if b = 0 then q.2.2.1 else q.2.2.2)

/-- the group map that applies `sq` to the values `(L i0 j0, L i0 (j0+1), L (i0+1) j0, L (i0+1) (j0+1))`
of every 2×2 stencil of the parity group `(g0, g1)` -/
def sqGroup (sq : ℚ → ℚ → ℚ → ℚ → ℚ × ℚ × ℚ × ℚ) (w : W) : W := fun idx =>
  match stencilBase g0 A1.n (A1.get idx), stencilBase g1 A2.n (A2.get idx) with
  | some i0, some j0 =>
    pick4 (A1.get idx - i0) (A2.get idx - j0)
      (sq (w (A2.set (A1.set idx i0) j0)) (w (A2.set (A1.set idx i0) (j0 + 1)))
        (w (A2.set (A1.set idx (i0 + 1)) j0)) (w (A2.set (A1.set idx (i0 + 1)) (j0 + 1))))
  | _, _ => w idx

/-- feasibility for a 2×2-stencil group -/
def SqF (Q : ℝ → ℝ → ℝ → ℝ → Prop) (y : Idx → ℝ) : Prop :=
  ∀ idx, InRange sizes idx → A1.lower g0 idx → A2.lower g1 idx →
    Q (y idx) (y (A2.up idx)) (y (A1.up idx)) (y (A2.up (A1.up idx)))

variable {A1 A2 g0 g1}

theorem lower1_up2 (hI : AxIndep A1 A2) (idx : Idx) : A1.lower g0 (A2.up idx) ↔ A1.lower g0 idx := by
  unfold Axis.lower Axis.up; rw [hI.get1_set2]
theorem upper1_up2 (hI : AxIndep A1 A2) (idx : Idx) : A1.upper g0 (A2.up idx) ↔ A1.upper g0 idx := by
  unfold Axis.upper Axis.up; rw [hI.get1_set2]
theorem lower2_up1 (hI : AxIndep A1 A2) (idx : Idx) : A2.lower g1 (A1.up idx) ↔ A2.lower g1 idx := by
  unfold Axis.lower Axis.up; rw [hI.get2_set1]
theorem upper2_up1 (hI : AxIndep A1 A2) (idx : Idx) : A2.upper g1 (A1.up idx) ↔ A2.upper g1 idx := by
  unfold Axis.upper Axis.up; rw [hI.get2_set1]

theorem up1_up2 (hI : AxIndep A1 A2) (idx : Idx) : A1.up (A2.up idx) = A2.up (A1.up idx) := by
  unfold Axis.up; rw [hI.get1_set2, hI.get2_set1, hI.comm]

/-- the values of `sqGroup` on the four vertices of the stencil with base `b` -/
theorem sqGroup_at_square (hA1 : A1.Laws) (hA2 : A2.Laws) (hI : AxIndep A1 A2) (sq : ℚ → ℚ → ℚ → ℚ → ℚ × ℚ × ℚ × ℚ) (w : W) {b : Idx}
    (hr : InRange sizes b) (h1 : A1.lower g0 b) (h2 : A2.lower g1 b) :
    sqGroup A1 A2 g0 g1 sq w b
        = (sq (w b) (w (A2.up b)) (w (A1.up b)) (w (A2.up (A1.up b)))).1 ∧
      sqGroup A1 A2 g0 g1 sq w (A2.up b)
        = (sq (w b) (w (A2.up b)) (w (A1.up b)) (w (A2.up (A1.up b)))).2.1 ∧
      sqGroup A1 A2 g0 g1 sq w (A1.up b)
        = (sq (w b) (w (A2.up b)) (w (A1.up b)) (w (A2.up (A1.up b)))).2.2.1 ∧
      sqGroup A1 A2 g0 g1 sq w (A2.up (A1.up b))
        = (sq (w b) (w (A2.up b)) (w (A1.up b)) (w (A2.up (A1.up b)))).2.2.2 := by
  obtain ⟨r1, g1', u1, nl1, _⟩ := Axis.up_facts hA1 hr h1
  obtain ⟨r2, g2', u2, nl2, _⟩ := Axis.up_facts hA2 hr h2
  have h2' : A2.lower g1 (A1.up b) := (lower2_up1 hI b).mpr h2
  obtain ⟨r12, g12, u12, nl12, _⟩ := Axis.up_facts hA2 r1 h2'
  -- the four stencil points written from the base
  have e00 : A2.set (A1.set b (A1.get b)) (A2.get b) = b := by rw [hA1.set_get hr, hA2.set_get hr]
  have e01 : A2.set (A1.set b (A1.get b)) (A2.get b + 1) = A2.up b := by rw [hA1.set_get hr]; rfl
  have e10 : A2.set (A1.set b (A1.get b + 1)) (A2.get b) = A1.up b := by
    have : A2.get (A1.up b) = A2.get b := hI.get2_set1 _ _
    rw [← this]; exact hA2.set_get r1
  have e11 : A2.set (A1.set b (A1.get b + 1)) (A2.get b + 1) = A2.up (A1.up b) := by
    have : A2.get (A1.up b) = A2.get b := hI.get2_set1 _ _
    unfold Axis.up at this ⊢; rw [this]
  -- every stencil point sees the same `L`
  have L2 : ∀ x y, A2.set (A1.set (A2.up b) x) y = A2.set (A1.set b x) y := by
    intro x y; unfold Axis.up; rw [hI.comm, hA2.set_set]
  have L1 : ∀ x y, A2.set (A1.set (A1.up b) x) y = A2.set (A1.set b x) y := by
    intro x y; unfold Axis.up; rw [hA1.set_set]
  have L12 : ∀ x y, A2.set (A1.set (A2.up (A1.up b)) x) y = A2.set (A1.set b x) y := by
    intro x y; rw [← up1_up2 hI]; unfold Axis.up; rw [hA1.set_set, hI.comm, hA2.set_set]
  -- coordinates of the stencil points
  have c2_1 : A1.get (A2.up b) = A1.get b := hI.get1_set2 _ _
  have c1_2 : A2.get (A1.up b) = A2.get b := hI.get2_set1 _ _
  have c12_1 : A1.get (A2.up (A1.up b)) = A1.get b + 1 :=
    (hI.get1_set2 (A1.up b) (A2.get (A1.up b) + 1)).trans g1'
  have c12_2 : A2.get (A2.up (A1.up b)) = A2.get b + 1 := by rw [g12, c1_2]
  -- stencil bases
  have sb1 := stencilBase_lower h1
  have sb2 := stencilBase_lower h2
  have sb1u : stencilBase g0 A1.n (A1.get b + 1) = some (A1.get b) := by
    have := stencilBase_upper u1 nl1; rwa [g1', Nat.add_sub_cancel] at this
  have sb2u : stencilBase g1 A2.n (A2.get b + 1) = some (A2.get b) := by
    have := stencilBase_upper u2 nl2; rwa [g2', Nat.add_sub_cancel] at this
  refine ⟨?_, ?_, ?_, ?_⟩
  · simp only [sqGroup, sb1, sb2, e00, e01, e10, e11, Nat.sub_self, pick4, if_true]
  · simp only [sqGroup, c2_1, g2', sb1, sb2u, L2, e00, e01, e10, e11, Nat.sub_self,
      Nat.add_sub_cancel_left, pick4, if_true]
    simp
  · simp only [sqGroup, c1_2, g1', sb1u, sb2, L1, e00, e01, e10, e11, Nat.sub_self,
      Nat.add_sub_cancel_left, pick4, if_true]
    simp
  · simp only [sqGroup, c12_1, c12_2, sb1u, sb2u, L12, e00, e01, e10, e11,
      Nat.add_sub_cancel_left, pick4]
    simp

theorem sqGroup_lands (hA1 : A1.Laws) (hA2 : A2.Laws) (hI : AxIndep A1 A2) {sq : ℚ → ℚ → ℚ → ℚ → ℚ × ℚ × ℚ × ℚ}
    {Q : ℝ → ℝ → ℝ → ℝ → Prop}
    (hl : ∀ a b c d : ℚ, Q ((sq a b c d).1 : ℝ) ((sq a b c d).2.1 : ℝ) ((sq a b c d).2.2.1 : ℝ)
      ((sq a b c d).2.2.2 : ℝ)) (w : W) :
    SqF A1 A2 g0 g1 Q (fun idx => (sqGroup A1 A2 g0 g1 sq w idx : ℝ)) := by
  intro idx hr h1 h2
  obtain ⟨e1, e2, e3, e4⟩ := sqGroup_at_square hA1 hA2 hI sq w hr h1 h2
  simp only [e1, e2, e3, e4]
  exact hl _ _ _ _

theorem sqGroup_fix_of_none (sq : ℚ → ℚ → ℚ → ℚ → ℚ × ℚ × ℚ × ℚ) (w : W) {idx : Idx}
    (h : stencilBase g0 A1.n (A1.get idx) = none ∨ stencilBase g1 A2.n (A2.get idx) = none) :
    sqGroup A1 A2 g0 g1 sq w idx = w idx := by
  unfold sqGroup
  rcases h with h | h
  · rw [h]
  · rw [h]; cases stencilBase g0 A1.n (A1.get idx) <;> rfl

theorem sqGroup_vi (hA1 : A1.Laws) (hA2 : A2.Laws) (hI : AxIndep A1 A2) {sq : ℚ → ℚ → ℚ → ℚ → ℚ × ℚ × ℚ × ℚ}
    {Q : ℝ → ℝ → ℝ → ℝ → Prop}
    (hv : ∀ (a b c d : ℚ) (y1 y2 y3 y4 : ℝ), Q y1 y2 y3 y4 →
      ((a : ℝ) - ((sq a b c d).1 : ℝ)) * (y1 - ((sq a b c d).1 : ℝ))
        + ((b : ℝ) - ((sq a b c d).2.1 : ℝ)) * (y2 - ((sq a b c d).2.1 : ℝ))
        + ((c : ℝ) - ((sq a b c d).2.2.1 : ℝ)) * (y3 - ((sq a b c d).2.2.1 : ℝ))
        + ((d : ℝ) - ((sq a b c d).2.2.2 : ℝ)) * (y4 - ((sq a b c d).2.2.2 : ℝ)) ≤ 0)
    (w : W) (y : Idx → ℝ) (hy : SqF A1 A2 g0 g1 Q y) :
    bsum sizes (fun idx => ((w idx : ℝ) - (sqGroup A1 A2 g0 g1 sq w idx : ℝ))
      * (y idx - (sqGroup A1 A2 g0 g1 sq w idx : ℝ))) ≤ 0 := by
  set t : Idx → ℝ := fun idx => ((w idx : ℝ) - (sqGroup A1 A2 g0 g1 sq w idx : ℝ))
      * (y idx - (sqGroup A1 A2 g0 g1 sq w idx : ℝ)) with ht
  have t0 : ∀ idx, (stencilBase g0 A1.n (A1.get idx) = none ∨ stencilBase g1 A2.n (A2.get idx) = none) →
      t idx = 0 := by
    intro idx h
    simp only [ht, sqGroup_fix_of_none sq w h, sub_self, zero_mul]
  rw [bsum_eq_finset, sum_pair_decomp hA1 g0]
  have hz1 : ∑ idx ∈ (allIdx sizes).toFinset.filter (fun idx => ¬ A1.lower g0 idx ∧ ¬ A1.upper g0 idx),
      t idx = 0 := by
    refine Finset.sum_eq_zero (fun idx hi => ?_)
    obtain ⟨_, h1, h2⟩ := Finset.mem_filter.mp hi
    exact t0 idx (Or.inl (stencilBase_neither h1 h2))
  rw [hz1, add_zero, Finset.sum_filter, sum_pair_decomp hA2 g1]
  have hz2 : ∑ idx ∈ (allIdx sizes).toFinset.filter (fun idx => ¬ A2.lower g1 idx ∧ ¬ A2.upper g1 idx),
      (if A1.lower g0 idx then t idx + t (A1.up idx) else 0) = 0 := by
    refine Finset.sum_eq_zero (fun idx hi => ?_)
    obtain ⟨_, h1, h2⟩ := Finset.mem_filter.mp hi
    split_ifs
    · have h1' : ¬ A2.lower g1 (A1.up idx) := fun h => h1 ((lower2_up1 hI idx).mp h)
      have h2' : ¬ A2.upper g1 (A1.up idx) := fun h => h2 ((upper2_up1 hI idx).mp h)
      rw [t0 idx (Or.inr (stencilBase_neither h1 h2)),
        t0 _ (Or.inr (stencilBase_neither h1' h2')), add_zero]
    · rfl
  rw [hz2, add_zero]
  refine Finset.sum_nonpos (fun idx hi => ?_)
  obtain ⟨hb, h2⟩ := Finset.mem_filter.mp hi
  have hr := mem_box.mp hb
  by_cases h1 : A1.lower g0 idx
  · have h1' : A1.lower g0 (A2.up idx) := (lower1_up2 hI idx).mpr h1
    rw [if_pos h1, if_pos h1', up1_up2 hI]
    obtain ⟨e1, e2, e3, e4⟩ := sqGroup_at_square hA1 hA2 hI sq w hr h1 h2
    have := hv (w idx) (w (A2.up idx)) (w (A1.up idx)) (w (A2.up (A1.up idx))) _ _ _ _ (hy idx hr h1 h2)
    simp only [ht, e1, e2, e3, e4]
    linarith
  · have h1' : ¬ A1.lower g0 (A2.up idx) := fun h => h1 ((lower1_up2 hI idx).mp h)
    rw [if_neg h1, if_neg h1', add_zero]

theorem sqF_closed {Q : ℝ → ℝ → ℝ → ℝ → Prop}
    (hQ : IsClosed {p : ℝ × ℝ × ℝ × ℝ | Q p.1 p.2.1 p.2.2.1 p.2.2.2}) :
    IsClosed {y : Idx → ℝ | SqF A1 A2 g0 g1 Q y} := by
  have : {y : Idx → ℝ | SqF A1 A2 g0 g1 Q y} = ⋂ idx, ⋂ (_ : InRange sizes idx),
      ⋂ (_ : A1.lower g0 idx), ⋂ (_ : A2.lower g1 idx),
      {y : Idx → ℝ | Q (y idx) (y (A2.up idx)) (y (A1.up idx)) (y (A2.up (A1.up idx)))} := by
    ext y; simp [SqF]
  rw [this]
  refine isClosed_iInter (fun idx => isClosed_iInter (fun _ => isClosed_iInter (fun _ =>
    isClosed_iInter (fun _ => ?_))))
  have hc : Continuous (fun y : Idx → ℝ =>
      (y idx, y (A2.up idx), y (A1.up idx), y (A2.up (A1.up idx)))) :=
    (continuous_apply _).prodMk ((continuous_apply _).prodMk
      ((continuous_apply _).prodMk (continuous_apply _)))
  exact hQ.preimage hc

theorem sqF_local (hA1 : A1.Laws) (hA2 : A2.Laws) (hI : AxIndep A1 A2) {Q : ℝ → ℝ → ℝ → ℝ → Prop} (y y' : Idx → ℝ)
    (h : ∀ idx, InRange sizes idx → y idx = y' idx) (hy : SqF A1 A2 g0 g1 Q y) :
    SqF A1 A2 g0 g1 Q y' := by
  intro idx hr h1 h2
  have r1 := (Axis.up_facts hA1 hr h1).1
  have r2 := (Axis.up_facts hA2 hr h2).1
  have r12 := (Axis.up_facts hA2 r1 ((lower2_up1 hI idx).mpr h2)).1
  rw [← h idx hr, ← h _ r1, ← h _ r2, ← h _ r12]
  exact hy idx hr h1 h2

end SqGroup

/-! ## both parity groups together = all adjacent pairs / all 2×2 cells -/
section AllGroups
variable {sizes : List Nat}

/-- every adjacent pair along the axis satisfies `Q` -/
def AllPairs (A : Axis sizes) (Q : Idx → ℝ → ℝ → Prop) (y : Idx → ℝ) : Prop :=
  ∀ idx, InRange sizes idx → A.get idx + 1 < A.n → Q idx (y idx) (y (A.up idx))

/-- every 2×2 cell of the two axes satisfies `Q` -/
def AllSquares (A1 A2 : Axis sizes) (Q : ℝ → ℝ → ℝ → ℝ → Prop) (y : Idx → ℝ) : Prop :=
  ∀ idx, InRange sizes idx → A1.get idx + 1 < A1.n → A2.get idx + 1 < A2.n →
    Q (y idx) (y (A2.up idx)) (y (A1.up idx)) (y (A2.up (A1.up idx)))

theorem lower_parity {A : Axis sizes} {idx : Idx} (h : A.get idx + 1 < A.n) :
    A.lower (A.get idx % 2) idx ∧ A.get idx % 2 < 2 ∧ A.get idx % 2 + 1 < A.n := by
  have := Nat.mod_le (A.get idx) 2
  refine ⟨?_, Nat.mod_lt _ (by norm_num), by omega⟩
  simp only [Axis.lower, inGroup, Bool.and_eq_true, decide_eq_true_eq, beq_iff_eq]
  omega

/-- the parity groups the loop visits along an axis: `g ∈ {0, 1}` with `g + 1 < n` -/
def parities (n : Nat) : List Nat := [0, 1].filter (fun g => g + 1 < n)

theorem mem_parities {n g : Nat} : g ∈ parities n ↔ g < 2 ∧ g + 1 < n := by
  simp only [parities, List.mem_filter, decide_eq_true_eq, List.mem_cons, List.not_mem_nil, or_false]
  omega

theorem pairF_all_iff (A : Axis sizes) (Q : Idx → ℝ → ℝ → Prop) (y : Idx → ℝ) :
    (∀ g ∈ parities A.n, PairF A g Q y) ↔ AllPairs A Q y := by
  constructor
  · intro h idx hr hlt
    obtain ⟨h1, h2, h3⟩ := lower_parity hlt
    exact h _ (mem_parities.mpr ⟨h2, h3⟩) idx hr h1
  · intro h g _ idx hr hg
    exact h idx hr (Axis.lower_lt hg)

theorem sqF_all_iff (A1 A2 : Axis sizes) (Q : ℝ → ℝ → ℝ → ℝ → Prop) (y : Idx → ℝ) :
    (∀ g0 ∈ parities A1.n, ∀ g1 ∈ parities A2.n, SqF A1 A2 g0 g1 Q y) ↔ AllSquares A1 A2 Q y := by
  constructor
  · intro h idx hr hlt1 hlt2
    obtain ⟨h1, h2, h3⟩ := lower_parity hlt1
    obtain ⟨k1, k2, k3⟩ := lower_parity hlt2
    exact h _ (mem_parities.mpr ⟨h2, h3⟩) _ (mem_parities.mpr ⟨k2, k3⟩) idx hr h1 k1
  · intro h g0 _ g1 _ idx hr h1 h2
    exact h idx hr (Axis.lower_lt h1) (Axis.lower_lt h2)

end AllGroups

end Tfl.DykConv
