import TflModel.Model.Ensembles
import Mathlib.Data.List.Basic
import Mathlib.Data.List.Count
import Mathlib.Data.List.Nodup
import Mathlib.Data.List.Perm.Basic
import Mathlib.Data.List.Range
import Mathlib.Tactic.Ring
import Mathlib.Tactic.Linarith
import Mathlib.Tactic.FieldSimp
import Mathlib.Tactic.Positivity
import Mathlib.Data.Rat.Floor
/-!
# Lemmas for C17 (ensemble structures)
-/
namespace Tfl.Ensembles
open Tfl

/-! ### tile-and-truncate: the count lemma -/

theorem flatten_replicate_succ {α} (k : Nat) (L : List α) :
    (List.replicate (k+1) L).flatten = (List.replicate k L).flatten ++ L := by
  rw [List.replicate_succ', List.flatten_append]; simp

theorem length_flatten_replicate {α} (k : Nat) (L : List α) :
    (List.replicate k L).flatten.length = k * L.length := by
  induction k with
  | zero => simp
  | succ k ih => rw [flatten_replicate_succ, List.length_append, ih]; ring

theorem count_flatten_replicate (k : Nat) (L : List Nat) (x : Nat) :
    ((List.replicate k L).flatten).count x = k * L.count x := by
  induction k with
  | zero => simp
  | succ k ih => rw [flatten_replicate_succ, List.count_append, ih]; ring

/-- every element of a duplicate-free `L` occurs `total / n` or `total / n + 1` times in
`(L * (1 + total // n))[:total]` -/
theorem count_tileTake (L : List Nat) (hL : L.Nodup) (hpos : 0 < L.length) (total : Nat) {x : Nat}
    (hx : x ∈ L) :
    total / L.length ≤ (tileTake L total).count x ∧ (tileTake L total).count x ≤ total / L.length + 1 := by
  set n := L.length with hn
  set q := total / n with hq
  have hsplit : total = q * n + total % n := by rw [hq]; exact (Nat.div_add_mod' total n).symm
  have hlt : total % n < n := Nat.mod_lt _ hpos
  have h1 : tileTake L total = (List.replicate q L).flatten ++ L.take (total % n) := by
    unfold tileTake
    rw [← hn, ← hq, Nat.add_comm 1 q, flatten_replicate_succ]
    have hlen : (List.replicate q L).flatten.length = q * n := by rw [length_flatten_replicate]
    rw [List.take_append, hlen]
    have e1 : total - q * n = total % n := by omega
    rw [e1, List.take_of_length_le (by rw [hlen]; omega)]
  have hc1 : L.count x = 1 := List.count_eq_one_of_mem hL hx
  rw [h1, List.count_append, count_flatten_replicate, hc1, Nat.mul_one]
  have hsub : (L.take (total % n)).count x ≤ L.count x := (List.take_sublist _ _).count_le x
  omega

theorem length_tileTake {α} (L : List α) (hpos : 0 < L.length) (total : Nat) :
    (tileTake L total).length = total := by
  unfold tileTake
  rw [List.length_take, length_flatten_replicate]
  have h := Nat.div_add_mod total L.length
  have h2 := Nat.mod_lt total hpos
  have : total ≤ (1 + total / L.length) * L.length := by
    rw [Nat.add_mul, Nat.one_mul, Nat.mul_comm]; omega
  omega

theorem mem_tileTake {α} {L : List α} {total : Nat} {x : α} (h : x ∈ tileTake L total) : x ∈ L := by
  unfold tileTake at h
  have h1 := List.mem_of_mem_take h
  rw [List.mem_flatten] at h1
  obtain ⟨l, hl, hx⟩ := h1
  rw [List.mem_replicate] at hl
  rw [hl.2] at hx; exact hx

theorem map_tileTake {α β} (f : α → β) (L : List α) (total : Nat) :
    (tileTake L total).map f = tileTake (L.map f) total := by
  unfold tileTake
  rw [List.map_take, List.map_flatten, List.map_replicate, List.length_map]

/-! ### shuffles -/

theorem applyPerm_range {α} (l : List α) : applyPerm (List.range l.length) l = l := by
  unfold applyPerm
  induction l using List.reverseRecOn with
  | nil => simp
  | append_singleton l a ih =>
    rw [List.length_append, List.length_singleton, List.range_succ, List.filterMap_append]
    have h1 : List.filterMap (fun i => (l ++ [a])[i]?) (List.range l.length)
        = List.filterMap (fun i => l[i]?) (List.range l.length) := by
      apply List.filterMap_congr
      intro x hx
      rw [List.mem_range] at hx
      rw [List.getElem?_append_left hx]
    rw [h1, ih]; simp

/-- a shuffle is a permutation -/
theorem applyPerm_perm {α} (perm : List Nat) (l : List α) (h : perm.Perm (List.range l.length)) :
    (applyPerm perm l).Perm l := by
  have h1 : (applyPerm perm l).Perm (applyPerm (List.range l.length) l) := List.Perm.filterMap _ h
  rwa [applyPerm_range] at h1

/-! ### swapping two slots -/

theorem swapFlat_perm {α} [DecidableEq α] (l : List α) (p q : Nat) : (swapFlat l p q).Perm l := by
  unfold swapFlat
  cases hp : l[p]? with
  | none => exact List.Perm.refl _
  | some x =>
    cases hq : l[q]? with
    | none => exact List.Perm.refl _
    | some y =>
      simp only
      obtain ⟨hp1, hp2⟩ := List.getElem?_eq_some_iff.mp hp
      obtain ⟨hq1, hq2⟩ := List.getElem?_eq_some_iff.mp hq
      by_cases hpq : p = q
      · subst hpq
        have : x = y := by rw [← hp2, ← hq2]
        subst this
        rw [List.set_set]
        have : l.set p x = l := by rw [← hp2]; exact List.set_getElem_self hp1
        rw [this]
      · rw [List.perm_iff_count]
        intro b
        have hq' : q < (l.set p y).length := by simpa using hq1
        rw [List.count_set hq', List.count_set hp1, List.getElem_set, if_neg hpq, hp2, hq2]
        have hx : (x == b) = true → 1 ≤ l.count b := by
          intro h
          have : x = b := by simpa using h
          subst this
          exact List.count_pos_iff.mpr (by rw [← hp2]; exact List.getElem_mem hp1)
        split_ifs with h1 h2 h2
        · have := hx h1; omega
        · have := hx h1; omega
        · omega
        · omega


theorem foldl_fst_perm {σ γ α} (proj : σ → List α) (f : σ → γ → σ)
    (h : ∀ st c, (proj (f st c)).Perm (proj st)) : ∀ (cs : List γ) (st : σ), (proj (cs.foldl f st)).Perm (proj st)
  | [], _ => List.Perm.refl _
  | c :: cs, st => (foldl_fst_perm proj f h cs (f st c)).trans (h st c)

theorem rtlSwapStep_perm (r : Nat) (st : List RtlInput × Bool) (c : Nat × Nat × Nat × Nat) :
    (rtlSwapStep r st c).1.Perm st.1 := by
  unfold rtlSwapStep
  simp only
  split
  · split_ifs
    · exact List.Perm.refl _
    · exact swapFlat_perm _ _ _
    · exact List.Perm.refl _
  · exact List.Perm.refl _

theorem rtlSwapPass_perm (L r : Nat) (flat : List RtlInput) : (rtlSwapPass L r flat).1.Perm flat :=
  foldl_fst_perm (fun st : List RtlInput × Bool => st.1) (rtlSwapStep r) (rtlSwapStep_perm r) _ (flat, false)

theorem rtlSwapLoop_perm (L r : Nat) : ∀ (fuel : Nat) (flat : List RtlInput),
    (rtlSwapLoop L r fuel flat).1.Perm flat
  | 0, _ => List.Perm.refl _
  | fuel + 1, flat => by
    unfold rtlSwapLoop
    simp only
    split_ifs
    · exact (rtlSwapLoop_perm L r fuel _).trans (rtlSwapPass_perm L r flat)
    · exact rtlSwapPass_perm L r flat

/-! ### chunks -/

theorem length_chunk {α} (r L : Nat) (flat : List α) (hlen : flat.length = L * r) {k : Nat} (hk : k < L) :
    (chunk r flat k).length = r := by
  unfold chunk
  rw [List.length_take, List.length_drop, hlen]
  have : (k + 1) * r ≤ L * r := Nat.mul_le_mul_right r hk
  rw [Nat.succ_mul] at this
  omega

theorem flatten_chunks_take {α} (r : Nat) (flat : List α) : ∀ L : Nat,
    (chunks r L flat).flatten = flat.take (L * r)
  | 0 => by simp [chunks]
  | L + 1 => by
    have ih := flatten_chunks_take r flat L
    unfold chunks at ih ⊢
    rw [List.range_succ, List.map_append, List.flatten_append, ih]
    simp only [List.map_cons, List.map_nil, List.flatten_cons, List.flatten_nil, List.append_nil, chunk]
    rw [Nat.succ_mul, List.take_add]

theorem flatten_chunks {α} (r L : Nat) (flat : List α) (hlen : flat.length = L * r) :
    (chunks r L flat).flatten = flat := by
  rw [flatten_chunks_take, List.take_of_length_le (by omega)]

theorem length_of_mem_chunks {α} (r L : Nat) (flat : List α) (hlen : flat.length = L * r) {c : List α}
    (hc : c ∈ chunks r L flat) : c.length = r := by
  unfold chunks at hc
  rw [List.mem_map] at hc
  obtain ⟨k, hk, rfl⟩ := hc
  exact length_chunk r L flat hlen (List.mem_range.mp hk)

theorem mem_of_mem_chunks {α} (r L : Nat) (flat : List α) {c : List α} (hc : c ∈ chunks r L flat) {x : α}
    (hx : x ∈ c) : x ∈ flat := by
  unfold chunks at hc
  rw [List.mem_map] at hc
  obtain ⟨k, _, rfl⟩ := hc
  exact List.mem_of_mem_drop (List.mem_of_mem_take hx)

/-! ### the flattened inputs -/

theorem map_fst_groupTags (m : Nat) : ∀ (g : Nat) (sizes : List Nat),
    (groupTags m g sizes).map (·.1) = List.replicate sizes.sum m
  | _, [] => by simp [groupTags]
  | g, s :: ss => by
    simp only [groupTags, List.map_append, List.map_replicate, List.sum_cons, map_fst_groupTags m (g+1) ss]
    rw [List.replicate_add]

/-- the monotonicity of the input with flattened index `i`: the `'increasing'` key comes first -/
def monoOf (inc : List Nat) (i : Nat) : Nat := if i < inc.sum then 1 else 0

theorem length_rtlInputs (inc unc : List Nat) : (rtlInputs inc unc).length = inc.sum + unc.sum := by
  unfold rtlInputs
  rw [List.length_map, List.length_zipIdx]
  have h := congrArg List.length (map_fst_groupTags 1 0 inc)
  have h2 := congrArg List.length (map_fst_groupTags 0 inc.length unc)
  simp only [List.length_map, List.length_replicate] at h h2
  rw [List.length_append, h, h2]

theorem map_idx_rtlInputs (inc unc : List Nat) :
    (rtlInputs inc unc).map (·.idx) = List.range (rtlInputs inc unc).length := by
  unfold rtlInputs
  rw [List.map_map, List.length_map, List.length_zipIdx]
  have : ((fun x : RtlInput => x.idx) ∘ fun p : (Nat × Nat) × Nat => (⟨p.1.1, p.1.2, p.2⟩ : RtlInput)) = Prod.snd := by
    funext p; rfl
  rw [this, List.zipIdx_map_snd, List.range_eq_range']

theorem mono_of_mem_rtlInputs (inc unc : List Nat) {x : RtlInput} (hx : x ∈ rtlInputs inc unc) :
    x.mono = monoOf inc x.idx := by
  unfold rtlInputs at hx
  rw [List.mem_map] at hx
  obtain ⟨p, hp, rfl⟩ := hx
  obtain ⟨⟨m, g⟩, i⟩ := p
  rw [List.mem_zipIdx_iff_getElem?] at hp
  have h1 : ((groupTags 1 0 inc ++ groupTags 0 inc.length unc).map (·.1))[i]? = some m := by
    rw [List.getElem?_map]; simp [hp]
  rw [List.map_append, map_fst_groupTags, map_fst_groupTags] at h1
  unfold monoOf
  simp only
  by_cases hi : i < inc.sum
  · rw [List.getElem?_append_left (by simpa using hi)] at h1
    rw [if_pos hi]
    have := List.getElem?_eq_some_iff.mp h1
    obtain ⟨_, h⟩ := this
    simpa using h.symm
  · rw [List.getElem?_append_right (by simpa using hi)] at h1
    rw [if_neg hi]
    have := List.getElem?_eq_some_iff.mp h1
    obtain ⟨_, h⟩ := this
    simpa using h.symm

/-! ### grouping by monotonicity tuple -/

def latKey (lat : List RtlInput) : List Nat := (sortLattice lat).map (·.mono)
def latVal (lat : List RtlInput) : List Nat := (sortLattice lat).map (·.idx)

theorem mem_insertGroup : ∀ (acc : List (List Nat × List (List Nat))) (k v : List Nat)
    (e : List Nat × List (List Nat)), e ∈ insertGroup acc k v → ∀ w ∈ e.2,
    (∃ e' ∈ acc, e'.1 = e.1 ∧ w ∈ e'.2) ∨ (e.1 = k ∧ w = v)
  | [], k, v, e, he, w, hw => by
    simp only [insertGroup, List.mem_singleton] at he
    subst he
    simp only [List.mem_singleton] at hw
    exact Or.inr ⟨rfl, hw⟩
  | (k', vs) :: rest, k, v, e, he, w, hw => by
    unfold insertGroup at he
    split_ifs at he with hk
    · rcases List.mem_cons.mp he with rfl | he
      · rcases List.mem_append.mp hw with hw | hw
        · exact Or.inl ⟨(k', vs), List.mem_cons_self, rfl, hw⟩
        · exact Or.inr ⟨hk, by simpa using hw⟩
      · exact Or.inl ⟨e, List.mem_cons_of_mem _ he, rfl, hw⟩
    · rcases List.mem_cons.mp he with rfl | he
      · exact Or.inl ⟨(k', vs), List.mem_cons_self, rfl, hw⟩
      · rcases mem_insertGroup rest k v e he w hw with ⟨e', he', h1, h2⟩ | h
        · exact Or.inl ⟨e', List.mem_cons_of_mem _ he', h1, h2⟩
        · exact Or.inr h

theorem insertGroup_flatMap_perm : ∀ (acc : List (List Nat × List (List Nat))) (k v : List Nat),
    ((insertGroup acc k v).flatMap (·.2)).Perm (acc.flatMap (·.2) ++ [v])
  | [], k, v => by simp [insertGroup]
  | (k', vs) :: rest, k, v => by
    unfold insertGroup
    split_ifs with hk
    · simp only [List.flatMap_cons]
      rw [List.append_assoc, List.append_assoc]
      refine List.Perm.append_left _ ?_
      exact List.perm_append_comm
    · simp only [List.flatMap_cons]
      rw [List.append_assoc]
      exact List.Perm.append_left _ (insertGroup_flatMap_perm rest k v)

def groupFold (acc : List (List Nat × List (List Nat))) (lats : List (List RtlInput)) :=
  lats.foldl (fun acc lat =>
    let s := sortLattice lat
    insertGroup acc (s.map (·.mono)) (s.map (·.idx))) acc

theorem groupLattices_eq (lats : List (List RtlInput)) : groupLattices lats = groupFold [] lats := rfl

theorem mem_groupFold : ∀ (lats : List (List RtlInput)) (acc : List (List Nat × List (List Nat)))
    (e : List Nat × List (List Nat)), e ∈ groupFold acc lats → ∀ w ∈ e.2,
    (∃ e' ∈ acc, e'.1 = e.1 ∧ w ∈ e'.2) ∨ (∃ lat ∈ lats, e.1 = latKey lat ∧ w = latVal lat)
  | [], acc, e, he, w, hw => Or.inl ⟨e, he, rfl, hw⟩
  | lat :: lats, acc, e, he, w, hw => by
    unfold groupFold at he
    rw [List.foldl_cons] at he
    rcases mem_groupFold lats _ e he w hw with ⟨e', he', h1, h2⟩ | ⟨l, hl, h⟩
    · rcases mem_insertGroup acc _ _ e' he' w h2 with ⟨e'', he'', h3, h4⟩ | ⟨h3, h4⟩
      · exact Or.inl ⟨e'', he'', h3.trans h1, h4⟩
      · exact Or.inr ⟨lat, List.mem_cons_self, by rw [← h1, h3]; rfl, by rw [h4]; rfl⟩
    · exact Or.inr ⟨l, List.mem_cons_of_mem _ hl, h⟩

theorem groupFold_flatMap_perm : ∀ (lats : List (List RtlInput)) (acc : List (List Nat × List (List Nat))),
    ((groupFold acc lats).flatMap (·.2)).Perm (acc.flatMap (·.2) ++ lats.map latVal)
  | [], acc => by simp [groupFold]
  | lat :: lats, acc => by
    unfold groupFold
    rw [List.foldl_cons]
    refine (groupFold_flatMap_perm lats _).trans ?_
    rw [List.map_cons, ← List.singleton_append (l := List.map latVal lats), ← List.append_assoc]
    exact List.Perm.append_right _ (insertGroup_flatMap_perm acc _ _)

theorem flatten_map_latVal_perm : ∀ (lats : List (List RtlInput)),
    ((lats.map latVal).flatten).Perm ((lats.flatten).map (·.idx))
  | [] => by simp
  | lat :: lats => by
    simp only [List.map_cons, List.flatten_cons, List.map_append]
    exact List.Perm.append (List.Perm.map _ (List.mergeSort_perm _ _)) (flatten_map_latVal_perm lats)


/-! ### random ensemble -/

theorem exists_mem_set {ll : List (List Nat)} {i : Nat} (hi : i < ll.length) (a : List Nat)
    (h : ∀ x ∈ ll[i], x ∈ a) (x : Nat) (hx : ∃ l ∈ ll, x ∈ l) : ∃ l ∈ ll.set i a, x ∈ l := by
  obtain ⟨l, hl, hxl⟩ := hx
  obtain ⟨j, hj, rfl⟩ := List.getElem_of_mem hl
  by_cases hij : i = j
  · subst hij
    exact ⟨a, List.mem_set hi a, h x hxl⟩
  · refine ⟨ll[j], ?_, hxl⟩
    have : (ll.set i a)[j]'(by simpa using hj) = ll[j] := by rw [List.getElem_set, if_neg hij]
    rw [← this]; exact List.getElem_mem _

structure FirstInv (L r : Nat) (S : List Nat) (lats : List (List Nat)) : Prop where
  len : lats.length = L
  nodup : ∀ l ∈ lats, l.Nodup
  le : ∀ l ∈ lats, l.length ≤ r
  sub : ∀ l ∈ lats, ∀ x ∈ l, x ∈ S
  cover : ∀ x ∈ S, ∃ l ∈ lats, x ∈ l

theorem randomFirst_inv (L r : Nat) : ∀ (fs cs : List Nat) (lats out : List (List Nat)) (S : List Nat),
    FirstInv L r S lats → fs.Nodup → (∀ f ∈ fs, f ∉ S) → randomFirst L r fs cs lats = .ok out →
    FirstInv L r (S ++ fs) out
  | [], _, lats, out, S, inv, _, _, h => by
    simp only [randomFirst, Except.ok.injEq] at h
    subst h; simpa using inv
  | _ :: _, [], _, _, _, _, _, _, h => by simp [randomFirst] at h
  | f :: fs, c :: cs, lats, out, S, inv, hnd, hdis, h => by
    unfold randomFirst at h
    simp only at h
    split at h
    · split_ifs at h
    · rename_i i hi
      have hmem : i ∈ (List.range L).filter (fun i => (lats.getD i []).length < r) :=
        List.mem_of_getElem? hi
      rw [List.mem_filter, List.mem_range] at hmem
      obtain ⟨hiL, hlt⟩ := hmem
      have hlt : (lats.getD i []).length < r := by simpa using hlt
      have hil : i < lats.length := by rw [inv.len]; exact hiL
      have hget : lats.getD i [] = lats[i] := by simp [List.getD, hil]
      rw [hget] at h hlt
      have hli : lats[i] ∈ lats := List.getElem_mem _
      have hf : f ∉ S := hdis f List.mem_cons_self
      have inv' : FirstInv L r (S ++ [f]) (lats.set i (lats[i] ++ [f])) := by
        refine ⟨by simpa using inv.len, ?_, ?_, ?_, ?_⟩
        · intro l hl
          rcases List.mem_or_eq_of_mem_set hl with hl | rfl
          · exact inv.nodup l hl
          · rw [List.nodup_append]
            refine ⟨inv.nodup _ hli, List.nodup_singleton f, ?_⟩
            intro a ha b hb
            rw [List.mem_singleton] at hb
            subst hb
            intro hab; subst hab
            exact hf (inv.sub _ hli _ ha)
        · intro l hl
          rcases List.mem_or_eq_of_mem_set hl with hl | rfl
          · exact inv.le l hl
          · simp only [List.length_append, List.length_singleton]; omega
        · intro l hl x hx
          rcases List.mem_or_eq_of_mem_set hl with hl | rfl
          · exact List.mem_append_left _ (inv.sub l hl x hx)
          · rcases List.mem_append.mp hx with hx | hx
            · exact List.mem_append_left _ (inv.sub _ hli x hx)
            · exact List.mem_append_right _ hx
        · intro x hx
          rcases List.mem_append.mp hx with hx | hx
          · exact exists_mem_set hil _ (fun y hy => List.mem_append_left _ hy) x (inv.cover x hx)
          · exact ⟨_, List.mem_set hil _, List.mem_append_right _ hx⟩
      have := randomFirst_inv L r fs cs _ out (S ++ [f]) inv' (List.nodup_cons.mp hnd).2
        (by
          intro g hg hgs
          rcases List.mem_append.mp hgs with hgs | hgs
          · exact hdis g (List.mem_cons_of_mem _ hg) hgs
          · rw [List.mem_singleton] at hgs
            subst hgs
            exact (List.nodup_cons.mp hnd).1 hg) h
      simpa [List.append_assoc] using this

theorem filterMap_getElem?_facts (cands : List Nat) (hc : cands.Nodup) : ∀ (draw : List Nat),
    (∀ i ∈ draw, i < cands.length) → draw.Nodup →
    (draw.filterMap (fun i => cands[i]?)).length = draw.length ∧
    (draw.filterMap (fun i => cands[i]?)).Nodup ∧
    (∀ x ∈ draw.filterMap (fun i => cands[i]?), ∃ i ∈ draw, cands[i]? = some x)
  | [], _, _ => by simp
  | i :: d, hr, hnd => by
    have hi : i < cands.length := hr i List.mem_cons_self
    obtain ⟨ih1, ih2, ih3⟩ := filterMap_getElem?_facts cands hc d
      (fun j hj => hr j (List.mem_cons_of_mem _ hj)) (List.nodup_cons.mp hnd).2
    have he : cands[i]? = some cands[i] := List.getElem?_eq_getElem hi
    rw [List.filterMap_cons_some he]
    refine ⟨by simp [ih1], ?_, ?_⟩
    · rw [List.nodup_cons]
      refine ⟨?_, ih2⟩
      intro hmem
      obtain ⟨j, hj, hje⟩ := ih3 _ hmem
      obtain ⟨hjl, hjv⟩ := List.getElem?_eq_some_iff.mp hje
      have : j = i := (List.Nodup.getElem_inj_iff hc).mp hjv
      subst this
      exact (List.nodup_cons.mp hnd).1 hj
    · intro x hx
      rcases List.mem_cons.mp hx with rfl | hx
      · exact ⟨i, List.mem_cons_self, he⟩
      · obtain ⟨j, hj, hje⟩ := ih3 x hx
        exact ⟨j, List.mem_cons_of_mem _ hj, hje⟩

theorem choiceNoReplace_ok {cands : List Nat} {m : Nat} {draw ext : List Nat} (hc : cands.Nodup)
    (h : choiceNoReplace cands m draw = .ok ext) :
    ext.length = m ∧ ext.Nodup ∧ ∀ x ∈ ext, x ∈ cands := by
  unfold choiceNoReplace at h
  split_ifs at h with h1 h2
  simp only [Except.ok.injEq] at h
  simp only [Bool.or_eq_true, Bool.not_eq_true', not_or, Bool.not_eq_false, decide_eq_true_eq,
    decide_eq_false_iff_not, not_not, ne_eq] at h2
  obtain ⟨⟨hl, hall⟩, hnd⟩ := h2
  have hall' : ∀ i ∈ draw, i < cands.length := by
    intro i hi
    have := List.all_eq_true.mp hall i hi
    simpa using this
  obtain ⟨f1, f2, f3⟩ := filterMap_getElem?_facts cands hc draw hall' hnd
  subst h
  refine ⟨by rw [f1]; exact hl, f2, ?_⟩
  intro x hx
  obtain ⟨i, _, hi⟩ := f3 x hx
  exact List.mem_of_getElem? hi

theorem randomFill_ok (n r : Nat) : ∀ (lats ds out : List (List Nat)),
    randomFill n r lats ds = .ok out →
    (∀ l ∈ lats, l.Nodup ∧ l.length ≤ r ∧ ∀ x ∈ l, x < n) →
    out.length = lats.length ∧ (∀ l ∈ out, l.Nodup ∧ l.length = r ∧ ∀ x ∈ l, x < n) ∧
    (∀ x, (∃ l ∈ lats, x ∈ l) → ∃ l ∈ out, x ∈ l)
  | [], _, out, h, _ => by
    simp only [randomFill, Except.ok.injEq] at h
    subst h; simp
  | _ :: _, [], _, h, _ => by simp [randomFill] at h
  | lat :: lats, d :: ds, out, h, hl => by
    unfold randomFill at h
    simp only [bind, Except.bind, pure, Except.pure] at h
    split at h
    · cases h
    · rename_i ext hext
      split at h
      · cases h
      · rename_i rest hrest
        simp only [Except.ok.injEq] at h
        subst h
        obtain ⟨hnd, hle, hlt⟩ := hl lat List.mem_cons_self
        have hc : ((List.range n).filter (fun f => !lat.contains f)).Nodup := List.nodup_range.filter _
        obtain ⟨e1, e2, e3⟩ := choiceNoReplace_ok hc hext
        obtain ⟨r1, r2, r3⟩ := randomFill_ok n r lats ds rest hrest
          (fun l hl' => hl l (List.mem_cons_of_mem _ hl'))
        refine ⟨by simp [r1], ?_, ?_⟩
        · intro l hl'
          rcases List.mem_cons.mp hl' with rfl | hl'
          · refine ⟨?_, ?_, ?_⟩
            · rw [List.nodup_append]
              refine ⟨hnd, e2, ?_⟩
              intro a ha b hb hab
              subst hab
              have := e3 a hb
              rw [List.mem_filter] at this
              simp [ha] at this
            · rw [List.length_append, e1]; omega
            · intro x hx
              rcases List.mem_append.mp hx with hx | hx
              · exact hlt x hx
              · have := e3 x hx
                rw [List.mem_filter, List.mem_range] at this
                exact this.1
          · exact r2 l hl'
        · rintro x ⟨l, hl', hx⟩
          rcases List.mem_cons.mp hl' with rfl | hl'
          · exact ⟨_, List.mem_cons_self, List.mem_append_left _ hx⟩
          · obtain ⟨l', hl'', hx'⟩ := r3 x ⟨l, hl', hx⟩
            exact ⟨l', List.mem_cons_of_mem _ hl'', hx'⟩


/-! ### all-pairs cover -/

def Covered (lats : List (List Nat)) (a b : Nat) : Prop := ∃ l ∈ lats, a ∈ l ∧ b ∈ l
def Grows (lats lats' : List (List Nat)) : Prop := ∀ l ∈ lats, ∃ l' ∈ lats', l ⊆ l'
def SizeOk (r : Nat) (lats : List (List Nat)) : Prop := ∀ l ∈ lats, l.length ≤ r

theorem Grows.refl (lats : List (List Nat)) : Grows lats lats := fun l hl => ⟨l, hl, List.Subset.refl l⟩
theorem Grows.trans {a b c : List (List Nat)} (h1 : Grows a b) (h2 : Grows b c) : Grows a c := by
  intro l hl
  obtain ⟨l', hl', hs⟩ := h1 l hl
  obtain ⟨l'', hl'', hs'⟩ := h2 l' hl'
  exact ⟨l'', hl'', List.Subset.trans hs hs'⟩
theorem Covered.mono {a b : List (List Nat)} (h : Grows a b) {i j : Nat} (hc : Covered a i j) : Covered b i j := by
  obtain ⟨l, hl, hi, hj⟩ := hc
  obtain ⟨l', hl', hs⟩ := h l hl
  exact ⟨l', hl', hs hi, hs hj⟩

theorem subset_addIfAbsent (l : List Nat) (x : Nat) : l ⊆ addIfAbsent l x := by
  unfold addIfAbsent; split_ifs
  · exact List.Subset.refl l
  · exact List.subset_append_left l [x]
theorem mem_addIfAbsent (l : List Nat) (x : Nat) : x ∈ addIfAbsent l x := by
  unfold addIfAbsent; split_ifs with h
  · simpa using h
  · simp
theorem length_addIfAbsent (l : List Nat) (x : Nat) : (addIfAbsent l x).length ≤ l.length + 1 := by
  unfold addIfAbsent; split_ifs <;> simp

theorem grows_cons {lat lat' : List Nat} {rest rest' : List (List Nat)} (h : lat ⊆ lat') (hr : Grows rest rest') :
    Grows (lat :: rest) (lat' :: rest') := by
  intro l hl
  rcases List.mem_cons.mp hl with rfl | hl
  · exact ⟨lat', List.mem_cons_self, h⟩
  · obtain ⟨l', hl', hs⟩ := hr l hl
    exact ⟨l', List.mem_cons_of_mem _ hl', hs⟩

theorem addToHaving_some (r i j : Nat) : ∀ (lats out : List (List Nat)), addToHaving r i j lats = some out →
    Grows lats out ∧ Covered out i j ∧ (SizeOk r lats → SizeOk r out)
  | [], _, h => by simp [addToHaving] at h
  | lat :: rest, out, h => by
    unfold addToHaving at h
    split_ifs at h with h1 h2
    · simp only [Option.some.injEq] at h
      subst h
      have hi : i ∈ lat := by simpa using h1.2
      refine ⟨grows_cons (subset_addIfAbsent _ _) (Grows.refl _),
        ⟨_, List.mem_cons_self, subset_addIfAbsent _ _ hi, mem_addIfAbsent _ _⟩, ?_⟩
      intro hs l hl
      rcases List.mem_cons.mp hl with rfl | hl
      · have := length_addIfAbsent lat j; omega
      · exact hs l (List.mem_cons_of_mem _ hl)
    · simp only [Option.some.injEq] at h
      subst h
      have hj : j ∈ lat := by simpa using h2.2
      refine ⟨grows_cons (subset_addIfAbsent _ _) (Grows.refl _),
        ⟨_, List.mem_cons_self, mem_addIfAbsent _ _, subset_addIfAbsent _ _ hj⟩, ?_⟩
      intro hs l hl
      rcases List.mem_cons.mp hl with rfl | hl
      · have := length_addIfAbsent lat i; omega
      · exact hs l (List.mem_cons_of_mem _ hl)
    · cases hrec : addToHaving r i j rest with
      | none => simp [hrec] at h
      | some out' =>
        simp only [hrec, Option.map_some, Option.some.injEq] at h
        subst h
        obtain ⟨g, c, sz⟩ := addToHaving_some r i j rest out' hrec
        refine ⟨grows_cons (List.Subset.refl _) g, ?_, ?_⟩
        · obtain ⟨l, hl, h⟩ := c
          exact ⟨l, List.mem_cons_of_mem _ hl, h⟩
        · intro hs l hl
          rcases List.mem_cons.mp hl with rfl | hl
          · exact hs _ List.mem_cons_self
          · exact sz (fun l' hl' => hs l' (List.mem_cons_of_mem _ hl')) l hl

theorem addToRoomy_some (r i j : Nat) : ∀ (lats out : List (List Nat)), addToRoomy r i j lats = some out →
    Grows lats out ∧ Covered out i j ∧ (SizeOk r lats → SizeOk r out)
  | [], _, h => by simp [addToRoomy] at h
  | lat :: rest, out, h => by
    unfold addToRoomy at h
    split_ifs at h with h1
    · simp only [Option.some.injEq] at h
      subst h
      refine ⟨grows_cons (List.Subset.trans (subset_addIfAbsent _ _) (subset_addIfAbsent _ _)) (Grows.refl _),
        ⟨_, List.mem_cons_self, subset_addIfAbsent _ _ (mem_addIfAbsent _ _), mem_addIfAbsent _ _⟩, ?_⟩
      intro hs l hl
      rcases List.mem_cons.mp hl with rfl | hl
      · have := length_addIfAbsent (addIfAbsent lat i) j
        have := length_addIfAbsent lat i
        omega
      · exact hs l (List.mem_cons_of_mem _ hl)
    · cases hrec : addToRoomy r i j rest with
      | none => simp [hrec] at h
      | some out' =>
        simp only [hrec, Option.map_some, Option.some.injEq] at h
        subst h
        obtain ⟨g, c, sz⟩ := addToRoomy_some r i j rest out' hrec
        refine ⟨grows_cons (List.Subset.refl _) g, ?_, ?_⟩
        · obtain ⟨l, hl, h⟩ := c
          exact ⟨l, List.mem_cons_of_mem _ hl, h⟩
        · intro hs l hl
          rcases List.mem_cons.mp hl with rfl | hl
          · exact hs _ List.mem_cons_self
          · exact sz (fun l' hl' => hs l' (List.mem_cons_of_mem _ hl')) l hl

theorem addPair_facts (r : Nat) (hr : 2 ≤ r) (lats : List (List Nat)) (p : Nat × Nat) :
    Grows lats (addPair r lats p) ∧ Covered (addPair r lats p) p.1 p.2 ∧
    (SizeOk r lats → SizeOk r (addPair r lats p)) := by
  unfold addPair
  split_ifs with h
  · refine ⟨Grows.refl _, ?_, id⟩
    rw [List.any_eq_true] at h
    obtain ⟨l, hl, h⟩ := h
    simp only [Bool.and_eq_true, List.contains_iff_mem] at h
    exact ⟨l, hl, h⟩
  · cases h1 : addToHaving r p.1 p.2 lats with
    | some out => exact addToHaving_some r _ _ lats out h1
    | none =>
      cases h2 : addToRoomy r p.1 p.2 lats with
      | some out => exact addToRoomy_some r _ _ lats out h2
      | none =>
        simp only
        refine ⟨fun l hl => ⟨l, List.mem_append_left _ hl, List.Subset.refl l⟩, ?_, ?_⟩
        · refine ⟨_, List.mem_append_right _ (List.mem_singleton_self _), ?_, mem_addIfAbsent _ _⟩
          exact subset_addIfAbsent _ _ (List.mem_singleton_self _)
        · intro hs l hl
          rcases List.mem_append.mp hl with hl | hl
          · exact hs l hl
          · rw [List.mem_singleton] at hl
            subst hl
            have := length_addIfAbsent [p.1] p.2
            simp only [List.length_singleton] at this
            omega

theorem foldl_addPair_facts (r : Nat) (hr : 2 ≤ r) : ∀ (ps : List (Nat × Nat)) (lats : List (List Nat)),
    Grows lats (ps.foldl (addPair r) lats) ∧ (∀ p ∈ ps, Covered (ps.foldl (addPair r) lats) p.1 p.2) ∧
    (SizeOk r lats → SizeOk r (ps.foldl (addPair r) lats))
  | [], lats => ⟨Grows.refl _, fun _ h => (by cases h), id⟩
  | p :: ps, lats => by
    obtain ⟨g1, c1, s1⟩ := addPair_facts r hr lats p
    obtain ⟨g2, c2, s2⟩ := foldl_addPair_facts r hr ps (addPair r lats p)
    rw [List.foldl_cons]
    refine ⟨g1.trans g2, ?_, fun h => s2 (s1 h)⟩
    intro q hq
    rcases List.mem_cons.mp hq with rfl | hq
    · exact Covered.mono g2 c1
    · exact c2 q hq

theorem mem_allPairs {n i j : Nat} (hij : i < j) (hj : j < n) : (i, j) ∈ allPairs n := by
  unfold allPairs
  rw [List.mem_flatMap]
  refine ⟨i, List.mem_range.mpr (by omega), ?_⟩
  rw [List.mem_map]
  exact ⟨j, List.mem_filter.mpr ⟨List.mem_range.mpr hj, by simpa using hij⟩, rfl⟩

/-! ### all-pairs cover for EVERY rank (no `2 ≤ r`)

`addPair_facts` carries `2 ≤ r` only for its size clause (the fall-through lattice `{i, j}` has two
features).  The cover clause needs no rank hypothesis, and the size clause holds for every rank with the
bound `max r 2` (any `m` with `r ≤ m`, `2 ≤ m`).  For `r ≤ 1` no lattice ever has room, so every pair
gets its own two-feature lattice. -/

theorem addToHaving_size (r m i j : Nat) (hrm : r ≤ m) : ∀ (lats out : List (List Nat)),
    addToHaving r i j lats = some out → SizeOk m lats → SizeOk m out
  | [], _, h, _ => by simp [addToHaving] at h
  | lat :: rest, out, h, hs => by
    unfold addToHaving at h
    split_ifs at h with h1 h2
    · simp only [Option.some.injEq] at h
      subst h
      intro l hl
      rcases List.mem_cons.mp hl with rfl | hl
      · have := length_addIfAbsent lat j; omega
      · exact hs l (List.mem_cons_of_mem _ hl)
    · simp only [Option.some.injEq] at h
      subst h
      intro l hl
      rcases List.mem_cons.mp hl with rfl | hl
      · have := length_addIfAbsent lat i; omega
      · exact hs l (List.mem_cons_of_mem _ hl)
    · cases hrec : addToHaving r i j rest with
      | none => simp [hrec] at h
      | some out' =>
        simp only [hrec, Option.map_some, Option.some.injEq] at h
        subst h
        intro l hl
        rcases List.mem_cons.mp hl with rfl | hl
        · exact hs _ List.mem_cons_self
        · exact addToHaving_size r m i j hrm rest out' hrec
            (fun l' hl' => hs l' (List.mem_cons_of_mem _ hl')) l hl

theorem addToRoomy_size (r m i j : Nat) (hrm : r ≤ m) : ∀ (lats out : List (List Nat)),
    addToRoomy r i j lats = some out → SizeOk m lats → SizeOk m out
  | [], _, h, _ => by simp [addToRoomy] at h
  | lat :: rest, out, h, hs => by
    unfold addToRoomy at h
    split_ifs at h with h1
    · simp only [Option.some.injEq] at h
      subst h
      intro l hl
      rcases List.mem_cons.mp hl with rfl | hl
      · have := length_addIfAbsent (addIfAbsent lat i) j
        have := length_addIfAbsent lat i
        omega
      · exact hs l (List.mem_cons_of_mem _ hl)
    · cases hrec : addToRoomy r i j rest with
      | none => simp [hrec] at h
      | some out' =>
        simp only [hrec, Option.map_some, Option.some.injEq] at h
        subst h
        intro l hl
        rcases List.mem_cons.mp hl with rfl | hl
        · exact hs _ List.mem_cons_self
        · exact addToRoomy_size r m i j hrm rest out' hrec
            (fun l' hl' => hs l' (List.mem_cons_of_mem _ hl')) l hl

/-- `addPair_facts` for every rank: growth and cover unconditionally, sizes bounded by any `m ≥ max r 2`. -/
theorem addPair_facts_any (r m : Nat) (hrm : r ≤ m) (h2m : 2 ≤ m) (lats : List (List Nat)) (p : Nat × Nat) :
    Grows lats (addPair r lats p) ∧ Covered (addPair r lats p) p.1 p.2 ∧
    (SizeOk m lats → SizeOk m (addPair r lats p)) := by
  unfold addPair
  split_ifs with h
  · refine ⟨Grows.refl _, ?_, id⟩
    rw [List.any_eq_true] at h
    obtain ⟨l, hl, h⟩ := h
    simp only [Bool.and_eq_true, List.contains_iff_mem] at h
    exact ⟨l, hl, h⟩
  · cases h1 : addToHaving r p.1 p.2 lats with
    | some out =>
      exact ⟨(addToHaving_some r _ _ lats out h1).1, (addToHaving_some r _ _ lats out h1).2.1,
        addToHaving_size r m _ _ hrm lats out h1⟩
    | none =>
      cases h2 : addToRoomy r p.1 p.2 lats with
      | some out =>
        exact ⟨(addToRoomy_some r _ _ lats out h2).1, (addToRoomy_some r _ _ lats out h2).2.1,
          addToRoomy_size r m _ _ hrm lats out h2⟩
      | none =>
        simp only
        refine ⟨fun l hl => ⟨l, List.mem_append_left _ hl, List.Subset.refl l⟩, ?_, ?_⟩
        · refine ⟨_, List.mem_append_right _ (List.mem_singleton_self _), ?_, mem_addIfAbsent _ _⟩
          exact subset_addIfAbsent _ _ (List.mem_singleton_self _)
        · intro hs l hl
          rcases List.mem_append.mp hl with hl | hl
          · exact hs l hl
          · rw [List.mem_singleton] at hl
            subst hl
            have := length_addIfAbsent [p.1] p.2
            simp only [List.length_singleton] at this
            omega

theorem foldl_addPair_facts_any (r m : Nat) (hrm : r ≤ m) (h2m : 2 ≤ m) :
    ∀ (ps : List (Nat × Nat)) (lats : List (List Nat)),
    Grows lats (ps.foldl (addPair r) lats) ∧ (∀ p ∈ ps, Covered (ps.foldl (addPair r) lats) p.1 p.2) ∧
    (SizeOk m lats → SizeOk m (ps.foldl (addPair r) lats))
  | [], lats => ⟨Grows.refl _, fun _ h => (by cases h), id⟩
  | p :: ps, lats => by
    obtain ⟨g1, c1, s1⟩ := addPair_facts_any r m hrm h2m lats p
    obtain ⟨g2, c2, s2⟩ := foldl_addPair_facts_any r m hrm h2m ps (addPair r lats p)
    rw [List.foldl_cons]
    refine ⟨g1.trans g2, ?_, fun h => s2 (s1 h)⟩
    intro q hq
    rcases List.mem_cons.mp hq with rfl | hq
    · exact Covered.mono g2 c1
    · exact c2 q hq

theorem lt_of_mem_allPairs {n : Nat} {p : Nat × Nat} (h : p ∈ allPairs n) : p.1 < p.2 ∧ p.2 < n := by
  unfold allPairs at h
  rw [List.mem_flatMap] at h
  obtain ⟨i, _, h⟩ := h
  rw [List.mem_map] at h
  obtain ⟨j, hj, rfl⟩ := h
  rw [List.mem_filter] at hj
  exact ⟨by simpa using hj.2, List.mem_range.mp hj.1⟩

theorem mem_of_mem_applyPerm {α} {perm : List Nat} {l : List α} {x : α} (h : x ∈ applyPerm perm l) : x ∈ l := by
  unfold applyPerm at h
  rw [List.mem_filterMap] at h
  obtain ⟨i, _, hi⟩ := h
  exact List.mem_of_getElem? hi

theorem addToHaving_none_of_full (r i j : Nat) : ∀ (lats : List (List Nat)), (∀ l ∈ lats, r ≤ l.length) →
    addToHaving r i j lats = none
  | [], _ => rfl
  | lat :: rest, h => by
    have h0 := h lat List.mem_cons_self
    unfold addToHaving
    rw [if_neg (by omega), if_neg (by omega),
      addToHaving_none_of_full r i j rest (fun l hl => h l (List.mem_cons_of_mem _ hl))]
    rfl

theorem addToRoomy_none_of_full (r i j : Nat) : ∀ (lats : List (List Nat)), (∀ l ∈ lats, r ≤ l.length + 1) →
    addToRoomy r i j lats = none
  | [], _ => rfl
  | lat :: rest, h => by
    have h0 := h lat List.mem_cons_self
    unfold addToRoomy
    rw [if_neg (by omega), addToRoomy_none_of_full r i j rest (fun l hl => h l (List.mem_cons_of_mem _ hl))]
    rfl

/-- rank ≤ 1: a pair of two different features either is already together in a lattice or gets a NEW
two-feature lattice; lattices of two features stay lattices of two features. -/
theorem addPair_rank_le_one (r : Nat) (hr : r ≤ 1) (lats : List (List Nat)) (p : Nat × Nat) (hp : p.1 ≠ p.2)
    (h2 : ∀ l ∈ lats, l.length = 2) : ∀ l ∈ addPair r lats p, l.length = 2 := by
  unfold addPair
  split_ifs with h
  · exact h2
  · rw [addToHaving_none_of_full r _ _ lats (fun l hl => by rw [h2 l hl]; omega),
      addToRoomy_none_of_full r _ _ lats (fun l hl => by rw [h2 l hl]; omega)]
    intro l hl
    rcases List.mem_append.mp hl with hl | hl
    · exact h2 l hl
    · rw [List.mem_singleton] at hl
      subst hl
      unfold addIfAbsent
      rw [if_neg (by simpa using Ne.symm hp)]
      rfl

theorem foldl_addPair_rank_le_one (r : Nat) (hr : r ≤ 1) : ∀ (ps : List (Nat × Nat)) (lats : List (List Nat)),
    (∀ p ∈ ps, p.1 ≠ p.2) → (∀ l ∈ lats, l.length = 2) → ∀ l ∈ ps.foldl (addPair r) lats, l.length = 2
  | [], _, _, h2 => h2
  | p :: ps, lats, hp, h2 => by
    rw [List.foldl_cons]
    exact foldl_addPair_rank_le_one r hr ps _ (fun q hq => hp q (List.mem_cons_of_mem _ hq))
      (addPair_rank_le_one r hr lats p (hp p List.mem_cons_self) h2)


/-! ### Crystals: use allocation -/

theorem roundHalfEven_bounds (x : Rat) :
    x - 1 / 2 ≤ (roundHalfEven x : Rat) ∧ (roundHalfEven x : Rat) ≤ x + 1 / 2 := by
  have h1 := Rat.floor_le x
  have h2 := Rat.lt_floor_add_one x
  push_cast at h2
  unfold roundHalfEven
  simp only
  split_ifs <;> push_cast <;> constructor <;> linarith

theorem rsum_perm {l₁ l₂ : List Rat} (h : l₁.Perm l₂) : rsum l₁ = rsum l₂ := by
  induction h with
  | nil => rfl
  | cons x _ ih => simp only [rsum, ih]
  | swap x y l => simp only [rsum]; ring
  | trans _ _ ih1 ih2 => exact ih1.trans ih2

theorem rsum_eq_range (l : List Rat) : rsum l = rsum ((List.range l.length).map (fun i => l.getD i 0)) := by
  have : (List.range l.length).map (fun i => l.getD i 0) = l := by
    apply List.ext_getElem (by simp)
    intro i h1 h2
    simp [List.getD_eq_getElem?_getD, List.getElem?_eq_getElem h2]
  rw [this]

theorem rsum_nonneg {l : List Rat} (h : ∀ x ∈ l, 0 ≤ x) : 0 ≤ rsum l := by
  induction l with
  | nil => simp [rsum]
  | cons a l ih =>
    simp only [rsum]
    have := h a List.mem_cons_self
    have := ih (fun x hx => h x (List.mem_cons_of_mem _ hx))
    linarith

theorem rsum_le_length_mul {l : List Rat} {s : Rat} (h : ∀ x ∈ l, x ≤ s) : rsum l ≤ (l.length : Rat) * s := by
  induction l with
  | nil => simp [rsum]
  | cons a l ih =>
    simp only [rsum, List.length_cons]
    have := h a List.mem_cons_self
    have := ih (fun x hx => h x (List.mem_cons_of_mem _ hx))
    push_cast
    linarith

theorem isum_set (l : List Int) (f : Nat) (hf : f < l.length) (v : Int) :
    isum (l.set f v) = isum l - l.getD f 0 + v := by
  induction l generalizing f with
  | nil => simp at hf
  | cons a l ih =>
    cases f with
    | zero => simp [isum]; ring
    | succ f =>
      simp only [List.set_cons_succ, isum, List.getD_cons_succ]
      rw [ih f (by simpa using hf)]; ring

theorem isum_replicate (n : Nat) (v : Int) : isum (List.replicate n v) = n * v := by
  induction n with
  | zero => simp [isum]
  | succ n ih => simp only [List.replicate_succ, isum, ih]; push_cast; ring

/-- score of feature `f` -/
def sc (scores : List Rat) (f : Nat) : Rat := scores.getD f 0

theorem sortedDesc_head (scores : List Rat) : ∀ (f : Nat) (fs : List Nat), sortedDesc scores (f :: fs) = true →
    (∀ g ∈ fs, sc scores g ≤ sc scores f) ∧ sortedDesc scores fs = true
  | _, [], _ => ⟨fun _ h => (by cases h), rfl⟩
  | f, g :: rest, h => by
    simp only [sortedDesc, Bool.and_eq_true, decide_eq_true_eq] at h
    obtain ⟨h1, h2⟩ := h
    obtain ⟨h3, _⟩ := sortedDesc_head scores g rest h2
    refine ⟨?_, h2⟩
    intro x hx
    rcases List.mem_cons.mp hx with rfl | hx
    · exact h1
    · exact le_trans (h3 x hx) h1

/-- the invariant of the use-allocation loop before the features `fs` are processed -/
structure AllocInv (n L : Nat) (T : Int) (scores : List Rat) (fs : List Nat) (st : Alloc) : Prop where
  rs : st.rs = rsum (fs.map (sc scores))
  rem0 : 0 ≤ st.rem
  remle : st.rem ≤ (fs.length : Int) * ((L : Int) - 1)
  len : st.uses.length = n
  fresh : ∀ g ∈ fs, g < n ∧ st.uses.getD g 0 = 1
  rng : ∀ g, g < n → 1 ≤ st.uses.getD g 0 ∧ st.uses.getD g 0 ≤ (L : Int)
  total : isum st.uses + st.rem = T

theorem allocStep_inv (n L : Nat) (T : Int) (scores : List Rat) (hL : 1 ≤ L) (f : Nat) (fs : List Nat) (st : Alloc)
    (inv : AllocInv n L T scores (f :: fs) st) (hnd : (f :: fs).Nodup)
    (hpos : ∀ g ∈ f :: fs, 0 < sc scores g) (hmax : ∀ g ∈ fs, sc scores g ≤ sc scores f) :
    ∃ st', allocStep L scores st f = .ok st' ∧ AllocInv n L T scores fs st' := by
  have hs : 0 < sc scores f := hpos f List.mem_cons_self
  have hrs : st.rs = sc scores f + rsum (fs.map (sc scores)) := by rw [inv.rs]; rfl
  have htail : 0 ≤ rsum (fs.map (sc scores)) := rsum_nonneg (by
    intro x hx
    rw [List.mem_map] at hx
    obtain ⟨g, hg, rfl⟩ := hx
    exact (hpos g (List.mem_cons_of_mem _ hg)).le)
  have hrspos : 0 < st.rs := by rw [hrs]; linarith
  have hrsle : st.rs ≤ ((fs.length : Rat) + 1) * sc scores f := by
    rw [hrs]
    have := rsum_le_length_mul (l := fs.map (sc scores)) (s := sc scores f) (by
      intro x hx
      rw [List.mem_map] at hx
      obtain ⟨g, hg, rfl⟩ := hx
      exact hmax g hg)
    rw [List.length_map] at this
    linarith
  set x : Rat := (st.rem : Rat) * sc scores f / st.rs with hx
  obtain ⟨b1, b2⟩ := roundHalfEven_bounds x
  have hrem0 : (0 : Rat) ≤ (st.rem : Rat) := by exact_mod_cast inv.rem0
  have hx0 : 0 ≤ x := div_nonneg (mul_nonneg hrem0 hs.le) hrspos.le
  have hxle : x ≤ (st.rem : Rat) := by
    rw [hx, div_le_iff₀ hrspos]
    have : sc scores f ≤ st.rs := by rw [hrs]; linarith
    exact mul_le_mul_of_nonneg_left this hrem0
  -- x ≥ rem / m
  have hm : (0 : Rat) < (fs.length : Rat) + 1 := by positivity
  have hxge : (st.rem : Rat) / ((fs.length : Rat) + 1) ≤ x := by
    rw [hx, div_le_div_iff₀ hm hrspos]
    have := mul_le_mul_of_nonneg_left hrsle hrem0
    linarith
  set a : Int := roundHalfEven x with ha
  have ha0 : 0 ≤ a := by
    have : ((-1 : Int) : Rat) < (a : Rat) := by push_cast; linarith
    have : (-1 : Int) < a := by exact_mod_cast this
    omega
  have hale : a ≤ st.rem := by
    have : (a : Rat) < ((st.rem + 1 : Int) : Rat) := by push_cast; linarith
    have : a < st.rem + 1 := by exact_mod_cast this
    omega
  have hremle : (st.rem : Rat) ≤ ((fs.length : Rat) + 1) * ((L : Rat) - 1) := by
    have := inv.remle
    simp only [List.length_cons] at this
    have : (st.rem : Rat) ≤ (((fs.length + 1 : Nat) : Int) * ((L : Int) - 1) : Int) := by exact_mod_cast this
    push_cast at this
    linarith
  -- rem - a ≤ (m-1)(L-1) when not capped
  have hgap : st.rem - a ≤ (fs.length : Int) * ((L : Int) - 1) := by
    have h1 : (st.rem : Rat) - (a : Rat) ≤ (fs.length : Rat) * ((L : Rat) - 1) + 1 / 2 := by
      have h2 : (st.rem : Rat) - (st.rem : Rat) / ((fs.length : Rat) + 1)
          ≤ (fs.length : Rat) * ((L : Rat) - 1) := by
        have : (st.rem : Rat) - (st.rem : Rat) / ((fs.length : Rat) + 1)
            = (st.rem : Rat) * (fs.length : Rat) / ((fs.length : Rat) + 1) := by
          field_simp; ring
        rw [this, div_le_iff₀ hm]
        have hl0 : (0 : Rat) ≤ (fs.length : Rat) := by positivity
        nlinarith [mul_le_mul_of_nonneg_right hremle hl0]
      linarith
    have h3 : ((st.rem - a : Int) : Rat) < (((fs.length : Int) * ((L : Int) - 1) + 1 : Int) : Rat) := by
      push_cast; linarith
    have : st.rem - a < (fs.length : Int) * ((L : Int) - 1) + 1 := by exact_mod_cast h3
    omega
  have hL' : (0 : Int) ≤ (L : Int) - 1 := by omega
  set added : Int := min a ((L : Int) - 1) with hadd
  have hadd0 : 0 ≤ added := le_min ha0 hL'
  have haddL : added ≤ (L : Int) - 1 := min_le_right _ _
  have hadda : added ≤ a := min_le_left _ _
  have hf := inv.fresh f List.mem_cons_self
  refine ⟨⟨st.uses.set f (st.uses.getD f 0 + added), st.rem - added, st.rs - sc scores f⟩, ?_, ?_⟩
  · unfold allocStep
    simp only
    rw [if_neg (ne_of_gt hrspos)]
    rfl
  · refine ⟨?_, ?_, ?_, by simpa using inv.len, ?_, ?_, ?_⟩
    · simp only; rw [hrs]; ring
    · simp only; omega
    · simp only
      rcases min_choice a ((L : Int) - 1) with h | h
      · rw [hadd, h]; exact hgap
      · rw [hadd, h]
        have := inv.remle
        simp only [List.length_cons] at this
        push_cast at this
        nlinarith
    · intro g hg
      have hg' := inv.fresh g (List.mem_cons_of_mem _ hg)
      refine ⟨hg'.1, ?_⟩
      have hne : f ≠ g := by
        rintro rfl
        exact (List.nodup_cons.mp hnd).1 hg
      simp only [List.getD_eq_getElem?_getD, List.getElem?_set_ne hne]
      simpa [List.getD_eq_getElem?_getD] using hg'.2
    · intro g hg
      by_cases hfg : f = g
      · subst hfg
        simp only [List.getD_eq_getElem?_getD, List.getElem?_set_self (by rw [inv.len]; exact hg), Option.getD_some]
        rw [← List.getD_eq_getElem?_getD, hf.2]
        omega
      · simp only [List.getD_eq_getElem?_getD, List.getElem?_set_ne hfg]
        simpa [List.getD_eq_getElem?_getD] using inv.rng g hg
    · simp only
      rw [isum_set _ _ (by rw [inv.len]; exact hf.1)]
      have := inv.total
      omega


theorem allocLoop_inv (n L : Nat) (T : Int) (scores : List Rat) (hL : 1 ≤ L) : ∀ (fs : List Nat) (st : Alloc),
    AllocInv n L T scores fs st → fs.Nodup → (∀ g ∈ fs, 0 < sc scores g) → sortedDesc scores fs = true →
    ∃ st', allocLoop L scores fs st = .ok st' ∧ AllocInv n L T scores [] st'
  | [], st, inv, _, _, _ => ⟨st, rfl, inv⟩
  | f :: fs, st, inv, hnd, hpos, hso => by
    obtain ⟨hmax, hso'⟩ := sortedDesc_head scores f fs hso
    obtain ⟨st1, h1, inv1⟩ := allocStep_inv n L T scores hL f fs st inv hnd hpos hmax
    obtain ⟨st2, h2, inv2⟩ := allocLoop_inv n L T scores hL fs st1 inv1 (List.nodup_cons.mp hnd).2
      (fun g hg => hpos g (List.mem_cons_of_mem _ hg)) hso'
    refine ⟨st2, ?_, inv2⟩
    unfold allocLoop
    simp only [bind, Except.bind, h1, h2]

/-- **use allocation.** With `r ≤ n ≤ L·r` features, all importance scores positive and `order`
a descending sort of them, the allocation loop never divides by zero, the code's
`assert np.sum(features_uses) == total_feature_use` holds, and every feature gets between 1 and
`num_lattices` uses. -/
theorem allocUses_ok (n L r : Nat) (scores : List Rat) (order : List Nat) (hlen : scores.length = n)
    (h0 : 0 < n) (hrn : r ≤ n) (hn : n ≤ L * r) (hpos : ∀ s ∈ scores, 0 < s)
    (hperm : order.Perm (List.range n)) (hso : sortedDesc scores order = true) :
    ∃ uses, allocUses n L r scores order = .ok uses ∧ uses.length = n ∧ isum uses = ((L * r : Nat) : Int) ∧
      ∀ f, f < n → 1 ≤ uses.getD f 0 ∧ uses.getD f 0 ≤ (L : Int) := by
  have hL : 1 ≤ L := by
    rcases Nat.eq_zero_or_pos L with rfl | h
    · simp at hn; omega
    · exact h
  have hmem : ∀ g ∈ order, g < n := fun g hg => List.mem_range.mp (hperm.subset hg)
  have hscpos : ∀ g ∈ order, 0 < sc scores g := by
    intro g hg
    have hg' : g < scores.length := by rw [hlen]; exact hmem g hg
    unfold sc
    simp only [List.getD_eq_getElem?_getD, List.getElem?_eq_getElem hg', Option.getD_some]
    exact hpos _ (List.getElem_mem _)
  have hrep : ∀ g, g < n → (List.replicate n (1 : Int)).getD g 0 = 1 := by
    intro g hg
    simp [List.getD_eq_getElem?_getD, hg]
  have inv0 : AllocInv n L ((L * r : Nat) : Int) scores order
      ⟨List.replicate n 1, (L * r : Int) - n, rsum scores⟩ := by
    refine ⟨?_, ?_, ?_, by simp, ?_, ?_, ?_⟩
    · simp only
      rw [rsum_eq_range scores, hlen]
      exact (rsum_perm (List.Perm.map _ hperm)).symm
    · simp only
      have : (n : Int) ≤ ((L * r : Nat) : Int) := by exact_mod_cast hn
      push_cast at this; omega
    · simp only
      rw [hperm.length_eq, List.length_range]
      have h1 : L * r ≤ L * n := Nat.mul_le_mul_left L hrn
      have h2 : ((L * r : Nat) : Int) ≤ ((L * n : Nat) : Int) := by exact_mod_cast h1
      push_cast at h2
      nlinarith
    · intro g hg
      exact ⟨hmem g hg, hrep g (hmem g hg)⟩
    · intro g hg
      simp only
      rw [hrep g hg]
      omega
    · simp only
      rw [isum_replicate]
      push_cast; ring
  obtain ⟨st', h1, inv'⟩ := allocLoop_inv n L _ scores hL order _ inv0
    (hperm.nodup_iff.mpr List.nodup_range) hscpos hso
  have hrem : st'.rem = 0 := by
    have := inv'.remle
    have := inv'.rem0
    simp only [List.length_nil, Nat.cast_zero, zero_mul] at *
    omega
  have htot : isum st'.uses = ((L * r : Nat) : Int) := by
    have := inv'.total
    rw [hrem] at this
    omega
  refine ⟨st'.uses, ?_, inv'.len, htot, inv'.rng⟩
  unfold allocUses
  simp only [bind, Except.bind]
  have h1' : allocLoop L scores order ⟨List.replicate n 1, (↑L * ↑r : Int) - ↑n, rsum scores⟩ = .ok st' := h1
  rw [h1']
  simp only
  rw [if_neg (by push_cast at htot; rw [htot]; simp)]
  rfl


/-! ### Crystals: the round-robin add list -/

/-- round `u` of the round-robin: the features with more than `u` uses, in index order -/
def rrRow (uses : List Int) (u : Nat) : List Nat :=
  (uses.zipIdx).filterMap fun (p : Int × Nat) => if ((u : Int) + 1) ≤ p.1 then some p.2 else none

theorem addList_eq (uses : List Int) :
    addList uses = (List.range (uses.foldl max 0).toNat).flatMap (rrRow uses) := rfl

theorem foldl_max_ge : ∀ (l : List Int) (a : Int), a ≤ l.foldl max a ∧ ∀ x ∈ l, x ≤ l.foldl max a
  | [], a => ⟨le_refl _, fun _ h => by cases h⟩
  | y :: ys, a => by
    obtain ⟨h1, h2⟩ := foldl_max_ge ys (max a y)
    rw [List.foldl_cons]
    refine ⟨le_trans (le_max_left _ _) h1, ?_⟩
    intro x hx
    rcases List.mem_cons.mp hx with rfl | hx
    · exact le_trans (le_max_right _ _) h1
    · exact h2 x hx

theorem mem_rrRow (uses : List Int) (u f : Nat) :
    f ∈ rrRow uses u ↔ ∃ x, uses[f]? = some x ∧ (u : Int) + 1 ≤ x := by
  unfold rrRow
  rw [List.mem_filterMap]
  constructor
  · rintro ⟨⟨x, i⟩, hp, h⟩
    rw [List.mem_zipIdx_iff_getElem?] at hp
    simp only at hp h
    split_ifs at h with hc
    simp only [Option.some.injEq] at h
    subst h
    exact ⟨x, hp, hc⟩
  · rintro ⟨x, hx, hc⟩
    refine ⟨(x, f), ?_, by simp [hc]⟩
    rw [List.mem_zipIdx_iff_getElem?]
    exact hx

theorem filterMap_snd_eq {α} (c : α × Nat → Prop) [DecidablePred c] : ∀ l : List (α × Nat),
    l.filterMap (fun p => if c p then some p.2 else none) = (l.filter (fun p => decide (c p))).map (·.2)
  | [] => rfl
  | p :: l => by
    by_cases h : c p
    · simp [h, filterMap_snd_eq c l]
    · simp [h, filterMap_snd_eq c l]

theorem rrRow_nodup (uses : List Int) (u : Nat) : (rrRow uses u).Nodup := by
  unfold rrRow
  rw [filterMap_snd_eq (fun p : Int × Nat => (u : Int) + 1 ≤ p.1)]
  have hsub : List.Sublist (((uses.zipIdx).filter (fun p => decide ((u : Int) + 1 ≤ p.1))).map (·.2))
      ((uses.zipIdx).map (·.2)) := List.Sublist.map _ List.filter_sublist
  refine List.Nodup.sublist hsub ?_
  rw [List.zipIdx_map_snd]
  exact List.nodup_range'

theorem count_rrRow (uses : List Int) (u f : Nat) (hf : f < uses.length) :
    (rrRow uses u).count f = if (u : Int) + 1 ≤ uses.getD f 0 then 1 else 0 := by
  have hget : uses[f]? = some (uses.getD f 0) := by
    simp [List.getD_eq_getElem?_getD, List.getElem?_eq_getElem hf]
  split_ifs with hc
  · exact List.count_eq_one_of_mem (rrRow_nodup uses u) ((mem_rrRow uses u f).mpr ⟨_, hget, hc⟩)
  · apply List.count_eq_zero_of_not_mem
    intro hmem
    obtain ⟨x, hx, hc'⟩ := (mem_rrRow uses u f).mp hmem
    rw [hget] at hx
    simp only [Option.some.injEq] at hx
    subst hx
    exact hc hc'

theorem count_rr_prefix (uses : List Int) (f : Nat) (hf : f < uses.length) (h0 : 0 ≤ uses.getD f 0) :
    ∀ M : Nat, (((List.range M).flatMap (rrRow uses)).count f : Int) = min (M : Int) (uses.getD f 0)
  | 0 => by
    simp only [List.range_zero, List.flatMap_nil, List.count_nil, Nat.cast_zero]
    exact (min_eq_left h0).symm
  | M + 1 => by
    rw [List.range_succ, List.flatMap_append, List.count_append]
    simp only [List.flatMap_cons, List.flatMap_nil, List.append_nil]
    push_cast
    rw [count_rr_prefix uses f hf h0 M, count_rrRow uses M f hf]
    split_ifs with hc
    · rw [min_eq_left (by omega), min_eq_left (by omega)]; push_cast; ring
    · rw [min_eq_right (by omega), min_eq_right (by omega)]; simp

theorem length_rrRow_aux (u : Nat) : ∀ (l : List Int) (s : Nat),
    (((l.zipIdx s).filterMap fun (p : Int × Nat) => if ((u : Int) + 1) ≤ p.1 then some p.2 else none).length : Int)
      = isum (l.map fun x => if (u : Int) + 1 ≤ x then 1 else 0)
  | [], _ => by simp [isum]
  | x :: l, s => by
    rw [List.zipIdx_cons]
    by_cases hc : (u : Int) + 1 ≤ x
    · simp only [List.filterMap_cons, hc, if_true, List.length_cons, List.map_cons, isum]
      push_cast
      rw [length_rrRow_aux u l (s + 1)]; ring
    · simp only [List.filterMap_cons, hc, if_false, List.map_cons, isum]
      rw [length_rrRow_aux u l (s + 1)]; ring

theorem isum_min_succ (M : Nat) : ∀ (l : List Int), (∀ x ∈ l, 0 ≤ x) →
    isum (l.map fun x => min ((M : Int) + 1) x)
      = isum (l.map fun x => min (M : Int) x) + isum (l.map fun x => if (M : Int) + 1 ≤ x then 1 else 0)
  | [], _ => by simp [isum]
  | x :: l, h => by
    simp only [List.map_cons, isum]
    rw [isum_min_succ M l (fun y hy => h y (List.mem_cons_of_mem _ hy))]
    have hx := h x List.mem_cons_self
    split_ifs with hc
    · rw [min_eq_left (by omega), min_eq_left (by omega)]; ring
    · rw [min_eq_right (by omega), min_eq_right (by omega)]; ring

theorem length_rr_prefix (uses : List Int) (h0 : ∀ x ∈ uses, 0 ≤ x) : ∀ M : Nat,
    (((List.range M).flatMap (rrRow uses)).length : Int) = isum (uses.map fun x => min (M : Int) x)
  | 0 => by
    simp only [List.range_zero, List.flatMap_nil, List.length_nil, Nat.cast_zero]
    have : ∀ l : List Int, (∀ x ∈ l, 0 ≤ x) → isum (l.map fun x => min (0 : Int) x) = 0 := by
      intro l hl
      induction l with
      | nil => rfl
      | cons a l ih =>
        simp only [List.map_cons, isum]
        rw [ih (fun y hy => hl y (List.mem_cons_of_mem _ hy)), min_eq_left (hl a List.mem_cons_self)]; rfl
    exact (this uses h0).symm
  | M + 1 => by
    rw [List.range_succ, List.flatMap_append, List.length_append]
    simp only [List.flatMap_cons, List.flatMap_nil, List.append_nil]
    push_cast
    rw [length_rr_prefix uses h0 M, isum_min_succ M uses h0]
    congr 1
    exact length_rrRow_aux M uses 0

theorem isum_min_of_le (m : Int) : ∀ (l : List Int), (∀ x ∈ l, x ≤ m) → isum (l.map fun x => min m x) = isum l
  | [], _ => rfl
  | x :: l, h => by
    simp only [List.map_cons, isum]
    rw [isum_min_of_le m l (fun y hy => h y (List.mem_cons_of_mem _ hy)), min_eq_right (h x List.mem_cons_self)]

/-- **round-robin add list.** With non-negative uses: the add list has `Σ uses` entries, feature
`f` occurs exactly `uses[f]` times, and every entry is a feature index. -/
theorem addList_facts (uses : List Int) (h0 : ∀ x ∈ uses, 0 ≤ x) :
    ((addList uses).length : Int) = isum uses ∧
    (∀ f, f < uses.length → ((addList uses).count f : Int) = uses.getD f 0) ∧
    (∀ f ∈ addList uses, f < uses.length) := by
  obtain ⟨hm0, hmx⟩ := foldl_max_ge uses 0
  have hcast : (((uses.foldl max 0).toNat : Nat) : Int) = uses.foldl max 0 := Int.toNat_of_nonneg hm0
  refine ⟨?_, ?_, ?_⟩
  · rw [addList_eq, length_rr_prefix uses h0, hcast]
    exact isum_min_of_le _ uses hmx
  · intro f hf
    have hfm : uses.getD f 0 ∈ uses := by
      simp [List.getD_eq_getElem?_getD, List.getElem?_eq_getElem hf]
    rw [addList_eq, count_rr_prefix uses f hf (h0 _ hfm), hcast]
    exact min_eq_right (hmx _ hfm)
  · intro f hf
    rw [addList_eq, List.mem_flatMap] at hf
    obtain ⟨u, _, hu⟩ := hf
    obtain ⟨x, hx, _⟩ := (mem_rrRow uses u f).mp hu
    exact (List.getElem?_eq_some_iff.mp hx).1


/-! ### Crystals: greedy placement -/

theorem discPow_pos (c : Int) : 0 < discPow c := by
  unfold discPow; split_ifs <;> positivity

theorem addScore_full {t : List (List Rat)} {c : List (List Int)} {r : Nat} {e : Rat} {f : Nat} {lat : List Nat}
    (h : r ≤ lat.length) : addScore t c r e f lat = -2 := by
  unfold addScore; rw [if_pos h]

theorem addScore_nonfull {t : List (List Rat)} {c : List (List Int)} {r : Nat} {e : Rat} {f : Nat} {lat : List Nat}
    (ht : ∀ i j, 0 ≤ getT t i j) (he : 0 ≤ e) (h : lat.length < r) : -1 ≤ addScore t c r e f lat := by
  unfold addScore
  rw [if_neg (by omega)]
  split_ifs
  · exact le_refl _
  · linarith
  · have : 0 ≤ rsum (lat.map fun o => getT t f o * discPow (getC c f o)) := rsum_nonneg (by
      intro x hx
      rw [List.mem_map] at hx
      obtain ⟨o, _, rfl⟩ := hx
      exact mul_nonneg (ht f o) (discPow_pos _).le)
    linarith

/-- `bestCand` returns an index of a maximal score -/
theorem bestCand_spec (sc : List Rat) : ∀ (ss : List Rat) (i : Nat) (best : Rat × Nat),
    sc.drop i = ss → sc[best.2]? = some best.1 → (∀ (j : Nat) (x : Rat), j < i → sc[j]? = some x → x ≤ best.1) →
    ∃ v, sc[bestCand ss i best]? = some v ∧ ∀ (j : Nat) (x : Rat), sc[j]? = some x → x ≤ v
  | [], i, best, hd, hb, hmax => by
    refine ⟨best.1, hb, ?_⟩
    intro j x hx
    have hlen : sc.length ≤ i := by
      have := congrArg List.length hd
      simp at this; omega
    exact hmax j x (by have := (List.getElem?_eq_some_iff.mp hx).1; omega) hx
  | s :: ss, i, best, hd, hb, hmax => by
    have hi : sc[i]? = some s := by
      have := List.getElem?_drop (xs := sc) (i := i) (j := 0)
      rw [hd] at this
      simpa using this.symm
    have hd' : sc.drop (i + 1) = ss := by
      have : (sc.drop i).drop 1 = ss := by rw [hd]; rfl
      rwa [List.drop_drop] at this
    unfold bestCand
    apply bestCand_spec sc ss (i + 1) _ hd'
    · split_ifs
      · exact hi
      · exact hb
    · intro j x hj hx
      rcases Nat.lt_succ_iff_lt_or_eq.mp hj with hj | rfl
      · have := hmax j x hj hx
        split_ifs with hle
        · exact le_trans this hle
        · exact this
      · rw [hi] at hx
        simp only [Option.some.injEq] at hx
        subst hx
        split_ifs with hle
        · exact le_refl _
        · exact (not_le.mp hle).le

def tot (lats : List (List Nat)) : Nat := (lats.map List.length).sum

theorem tot_set_append : ∀ (lats : List (List Nat)) (b : Nat) (hb : b < lats.length) (f : Nat),
    tot (lats.set b (lats[b] ++ [f])) = tot lats + 1
  | lat :: lats, 0, _, f => by simp [tot]; omega
  | lat :: lats, b + 1, hb, f => by
    have := tot_set_append lats b (by simpa using hb) f
    simp only [tot, List.set_cons_succ, List.map_cons, List.sum_cons, List.getElem_cons_succ] at this ⊢
    omega

theorem tot_le (r : Nat) : ∀ (lats : List (List Nat)), (∀ lat ∈ lats, lat.length ≤ r) → tot lats ≤ lats.length * r
  | [], _ => by simp [tot]
  | lat :: lats, h => by
    have h1 := h lat List.mem_cons_self
    have h2 := tot_le r lats (fun l hl => h l (List.mem_cons_of_mem _ hl))
    simp only [tot, List.map_cons, List.sum_cons, List.length_cons] at h2 ⊢
    rw [Nat.succ_mul]; omega

theorem exists_nonfull (r : Nat) : ∀ (lats : List (List Nat)), tot lats < lats.length * r →
    ∃ i, ∃ h : i < lats.length, lats[i].length < r
  | [], h => by simp [tot] at h
  | lat :: lats, h => by
    by_cases hl : lat.length < r
    · exact ⟨0, by simp, by simpa using hl⟩
    · have : tot lats < lats.length * r := by
        simp only [tot, List.map_cons, List.sum_cons, List.length_cons] at h ⊢
        rw [Nat.succ_mul] at h; omega
      obtain ⟨i, hi, h'⟩ := exists_nonfull r lats this
      exact ⟨i + 1, by simpa using hi, by simpa using h'⟩

theorem all_full (r : Nat) : ∀ (lats : List (List Nat)), (∀ lat ∈ lats, lat.length ≤ r) →
    tot lats = lats.length * r → ∀ lat ∈ lats, lat.length = r
  | [], _, _ => fun _ h => by cases h
  | lat :: lats, hle, ht => by
    have h1 := hle lat List.mem_cons_self
    have hle' : ∀ l ∈ lats, l.length ≤ r := fun l hl => hle l (List.mem_cons_of_mem _ hl)
    have h2 := tot_le r lats hle'
    simp only [tot, List.map_cons, List.sum_cons, List.length_cons] at ht h2
    rw [Nat.succ_mul] at ht
    have h3 : tot lats = lats.length * r := by simp only [tot]; omega
    intro l hl
    rcases List.mem_cons.mp hl with rfl | hl
    · omega
    · exact all_full r lats hle' h3 l hl

/-- one greedy placement: as long as a slot is free the feature goes to a lattice that is not
full (a full lattice scores `-2`, every other at least `-1`) -/
theorem placeStep_facts (t : List (List Rat)) (r : Nat) (e : Rat) (ht : ∀ i j, 0 ≤ getT t i j) (he : 0 ≤ e)
    (st : List (List Nat) × List (List Int)) (f : Nat)
    (hle : ∀ lat ∈ st.1, lat.length ≤ r) (hroom : tot st.1 < st.1.length * r) :
    (placeStep t r e st f).1.length = st.1.length ∧
    (∀ lat ∈ (placeStep t r e st f).1, lat.length ≤ r) ∧
    tot (placeStep t r e st f).1 = tot st.1 + 1 ∧
    (∃ lat ∈ (placeStep t r e st f).1, f ∈ lat) ∧
    (∀ g, (∃ lat ∈ st.1, g ∈ lat) → ∃ lat ∈ (placeStep t r e st f).1, g ∈ lat) := by
  obtain ⟨i, hi, hfree⟩ := exists_nonfull r st.1 hroom
  unfold placeStep
  cases hsc : st.1.map (addScore t st.2 r e f) with
  | nil =>
    have hnil : st.1 = [] := List.map_eq_nil_iff.mp hsc
    rw [hnil] at hi
    simp at hi
  | cons s ss =>
    simp only
    set sc := s :: ss with hscd
    have hlen : sc.length = st.1.length := by rw [← hsc, List.length_map]
    obtain ⟨v, hv, hmax⟩ := bestCand_spec sc ss 1 (s, 0) (by simp [hscd]) (by simp [hscd])
      (by
        intro j x hj hx
        have : j = 0 := by omega
        subst this
        simp only [hscd, List.getElem?_cons_zero, Option.some.injEq] at hx
        subst hx; exact le_refl _)
    set b := bestCand ss 1 (s, 0) with hb
    have hbl : b < st.1.length := by rw [← hlen]; exact (List.getElem?_eq_some_iff.mp hv).1
    have hvb : v = addScore t st.2 r e f st.1[b] := by
      have h1 : sc[b]? = some (addScore t st.2 r e f st.1[b]) := by
        rw [← hsc, List.getElem?_map, List.getElem?_eq_getElem hbl]; rfl
      rw [hv] at h1
      exact Option.some.inj h1
    have hsi : sc[i]? = some (addScore t st.2 r e f st.1[i]) := by
      rw [← hsc, List.getElem?_map, List.getElem?_eq_getElem hi]; rfl
    have hge : -1 ≤ v := le_trans (addScore_nonfull ht he hfree) (hmax i _ hsi)
    have hbfree : st.1[b].length < r := by
      by_contra hfull
      rw [hvb, addScore_full (by omega)] at hge
      linarith
    have hgetD : st.1.getD b [] = st.1[b] := by
      simp [List.getD_eq_getElem?_getD, List.getElem?_eq_getElem hbl]
    rw [hgetD]
    refine ⟨by simp, ?_, tot_set_append st.1 b hbl f, ⟨_, List.mem_set hbl _, by simp⟩, ?_⟩
    · intro lat hlat
      rcases List.mem_or_eq_of_mem_set hlat with h | rfl
      · exact hle lat h
      · simp only [List.length_append, List.length_singleton]; omega
    · intro g hg
      exact exists_mem_set hbl _ (fun y hy => List.mem_append_left _ hy) g hg

theorem place_all (t : List (List Rat)) (r L : Nat) (e : Rat) (ht : ∀ i j, 0 ≤ getT t i j) (he : 0 ≤ e) :
    ∀ (al : List Nat) (st : List (List Nat) × List (List Int)),
    st.1.length = L → (∀ lat ∈ st.1, lat.length ≤ r) → tot st.1 + al.length = L * r →
    (al.foldl (placeStep t r e) st).1.length = L ∧
    (∀ lat ∈ (al.foldl (placeStep t r e) st).1, lat.length = r) ∧
    (∀ g, (g ∈ al ∨ ∃ lat ∈ st.1, g ∈ lat) → ∃ lat ∈ (al.foldl (placeStep t r e) st).1, g ∈ lat)
  | [], st, hL, hle, htot => by
    simp only [List.foldl_nil, List.length_nil, Nat.add_zero] at htot ⊢
    refine ⟨hL, all_full r st.1 hle (by rw [hL]; exact htot), ?_⟩
    rintro g (h | h)
    · cases h
    · exact h
  | f :: al, st, hL, hle, htot => by
    simp only [List.length_cons] at htot
    obtain ⟨p1, p2, p3, p4, p5⟩ := placeStep_facts t r e ht he st f hle (by rw [hL]; omega)
    obtain ⟨q1, q2, q3⟩ := place_all t r L e ht he al (placeStep t r e st f) (by rw [p1, hL]) p2
      (by rw [p3]; omega)
    rw [List.foldl_cons]
    refine ⟨q1, q2, ?_⟩
    rintro g (h | h)
    · rcases List.mem_cons.mp h with rfl | h
      · exact q3 g (Or.inr p4)
      · exact q3 g (Or.inl h)
    · exact q3 g (Or.inr (p5 g h))


/-! ### Crystals: the swap phase keeps lattice sizes and placed features -/

/-- `new` has as many lattices as `old`, of the same sizes, and every feature present in `old`
is present in `new` -/
def SwapOk (old new : List (List Nat)) : Prop :=
  new.length = old.length ∧ (∀ lat ∈ new, ∃ lat' ∈ old, lat.length = lat'.length) ∧
  (∀ g, (∃ lat ∈ old, g ∈ lat) → ∃ lat ∈ new, g ∈ lat)

theorem SwapOk.refl (l : List (List Nat)) : SwapOk l l :=
  ⟨rfl, fun lat h => ⟨lat, h, rfl⟩, fun _ h => h⟩

theorem SwapOk.trans {a b c : List (List Nat)} (h1 : SwapOk a b) (h2 : SwapOk b c) : SwapOk a c := by
  refine ⟨h2.1.trans h1.1, ?_, fun g hg => h2.2.2 g (h1.2.2 g hg)⟩
  intro lat hlat
  obtain ⟨l', hl', e⟩ := h2.2.1 lat hlat
  obtain ⟨l'', hl'', e'⟩ := h1.2.1 l' hl'
  exact ⟨l'', hl'', e.trans e'⟩

theorem swap_two (lats : List (List Nat)) (a b i0 i1 f0 f1 : Nat) (hab : a ≠ b) (ha : a < lats.length)
    (hb : b < lats.length) (h0 : lats[a][i0]? = some f0) (h1 : lats[b][i1]? = some f1) :
    SwapOk lats ((lats.set a (lats[a].set i0 f1)).set b (lats[b].set i1 f0)) := by
  obtain ⟨hi0, e0⟩ := List.getElem?_eq_some_iff.mp h0
  obtain ⟨hi1, e1⟩ := List.getElem?_eq_some_iff.mp h1
  set new := (lats.set a (lats[a].set i0 f1)).set b (lats[b].set i1 f0) with hnew
  have hlen : new.length = lats.length := by simp [hnew]
  have hna : new[a]'(by omega) = lats[a].set i0 f1 := by
    simp only [hnew]
    rw [List.getElem_set_ne (by omega), List.getElem_set_self]
  have hnb : new[b]'(by omega) = lats[b].set i1 f0 := by
    simp only [hnew]
    rw [List.getElem_set_self]
  have hnj : ∀ j (hj : j < lats.length), j ≠ a → j ≠ b → new[j]'(by omega) = lats[j] := by
    intro j hj h1 h2
    simp only [hnew]
    rw [List.getElem_set_ne (by omega), List.getElem_set_ne (by omega)]
  refine ⟨hlen, ?_, ?_⟩
  · intro lat hlat
    obtain ⟨j, hj, rfl⟩ := List.getElem_of_mem hlat
    have hj' : j < lats.length := by omega
    by_cases hja : j = a
    · subst hja
      exact ⟨lats[j], List.getElem_mem _, by rw [hna]; simp⟩
    · by_cases hjb : j = b
      · subst hjb
        exact ⟨lats[j], List.getElem_mem _, by rw [hnb]; simp⟩
      · exact ⟨lats[j], List.getElem_mem _, by rw [hnj j hj' hja hjb]⟩
  · rintro g ⟨lat, hlat, hg⟩
    obtain ⟨j, hj, rfl⟩ := List.getElem_of_mem hlat
    obtain ⟨k, hk, rfl⟩ := List.getElem_of_mem hg
    by_cases hja : j = a
    · subst hja
      by_cases hk0 : k = i0
      · subst hk0
        refine ⟨new[b]'(by omega), List.getElem_mem _, ?_⟩
        rw [hnb, e0]
        exact List.mem_set hi1 _
      · refine ⟨new[j]'(by omega), List.getElem_mem _, ?_⟩
        rw [hna]
        have : (lats[j].set i0 f1)[k]'(by simpa using hk) = lats[j][k] := List.getElem_set_ne (Ne.symm hk0) _
        rw [← this]; exact List.getElem_mem _
    · by_cases hjb : j = b
      · subst hjb
        by_cases hk1 : k = i1
        · subst hk1
          refine ⟨new[a]'(by omega), List.getElem_mem _, ?_⟩
          rw [hna, e1]
          exact List.mem_set hi0 _
        · refine ⟨new[j]'(by omega), List.getElem_mem _, ?_⟩
          rw [hnb]
          have : (lats[j].set i1 f0)[k]'(by simpa using hk) = lats[j][k] := List.getElem_set_ne (Ne.symm hk1) _
          rw [← this]; exact List.getElem_mem _
      · refine ⟨new[j]'(by omega), List.getElem_mem _, ?_⟩
        rw [hnj j hj hja hjb]; exact List.getElem_mem _

theorem getD_of_getElem? {lats : List (List Nat)} {a i f : Nat} (h : (lats.getD a [])[i]? = some f) :
    ∃ ha : a < lats.length, lats.getD a [] = lats[a] := by
  by_cases ha : a < lats.length
  · exact ⟨ha, by simp [List.getD_eq_getElem?_getD, List.getElem?_eq_getElem ha]⟩
  · have hnone : lats[a]? = none := List.getElem?_eq_none (by omega)
    have : lats.getD a [] = [] := by simp [List.getD_eq_getElem?_getD, hnone]
    rw [this] at h; simp at h

theorem crySwapStep_ok (t : List (List Rat)) (st : Cry) (q : Nat × Nat × Nat × Nat) (hq : q.1 ≠ q.2.1) :
    SwapOk st.lats (crySwapStep t st q).lats := by
  unfold crySwapStep
  simp only
  split
  · rename_i f0 f1 h0 h1
    obtain ⟨ha, ea⟩ := getD_of_getElem? h0
    obtain ⟨hb, eb⟩ := getD_of_getElem? h1
    split_ifs
    · exact SwapOk.refl _
    · rw [ea] at h0
      rw [eb] at h1
      rw [ea, eb]
      exact swap_two st.lats q.1 q.2.1 q.2.2.1 q.2.2.2 f0 f1 hq ha hb h0 h1
    · exact SwapOk.refl _
  · exact SwapOk.refl _

theorem fst_lt_of_mem_quads {L m : Nat} {q : Nat × Nat × Nat × Nat} (h : q ∈ quads L m) : q.1 < q.2.1 := by
  unfold quads at h
  simp only [List.mem_flatMap, List.mem_map, List.mem_filter, List.mem_range, decide_eq_true_eq] at h
  obtain ⟨a, _, b, ⟨_, hab⟩, i0, _, i1, _, rfl⟩ := h
  exact hab

theorem foldl_crySwap_ok (t : List (List Rat)) : ∀ (qs : List (Nat × Nat × Nat × Nat)) (st : Cry),
    (∀ q ∈ qs, q.1 ≠ q.2.1) → SwapOk st.lats (qs.foldl (crySwapStep t) st).lats
  | [], st, _ => SwapOk.refl _
  | q :: qs, st, h => by
    rw [List.foldl_cons]
    exact (crySwapStep_ok t st q (h q List.mem_cons_self)).trans
      (foldl_crySwap_ok t qs _ (fun q' hq' => h q' (List.mem_cons_of_mem _ hq')))

/-- the swap optimisation (whatever its cap) keeps the number of lattices, their sizes and every
placed feature -/
theorem crySwapLoop_ok (t : List (List Rat)) (L : Nat) : ∀ (fuel : Nat) (lats : List (List Nat)) (c : List (List Int)),
    SwapOk lats (crySwapLoop t L fuel lats c).1
  | 0, lats, _ => SwapOk.refl _
  | fuel + 1, lats, c => by
    unfold crySwapLoop
    simp only
    have hpass := foldl_crySwap_ok t (quads L (maxLen lats)) ⟨lats, c, false⟩
      (fun q hq => Nat.ne_of_lt (fst_lt_of_mem_quads hq))
    split_ifs
    · exact hpass.trans (crySwapLoop_ok t L fuel _ _)
    · exact hpass


/-! ### random ensemble: totality -/

/-- the draws of the first loop are values `np.random.choice(non_full_indices)` can return:
an index into the candidate list whenever that list is not empty -/
def ValidFirst (L r : Nat) : List Nat → List Nat → List (List Nat) → Prop
  | [], _, _ => True
  | _ :: _, [], _ => False
  | f :: fs, c :: cs, lats =>
    (((List.range L).filter (fun i => (lats.getD i []).length < r)) ≠ [] →
        c < ((List.range L).filter (fun i => (lats.getD i []).length < r)).length) ∧
      ∀ i, ((List.range L).filter (fun i => (lats.getD i []).length < r))[c]? = some i →
        ValidFirst L r fs cs (lats.set i (lats.getD i [] ++ [f]))

/-- the draws of the second loop are values `np.random.choice(cands, size=m, replace=False)` can
return: `m = rank - len(lattice)` distinct indices into the candidate list -/
def ValidFill (n r : Nat) : List (List Nat) → List (List Nat) → Prop
  | [], _ => True
  | _ :: _, [] => False
  | lat :: lats, d :: ds =>
    d.length = r - lat.length ∧ d.Nodup ∧
      (∀ i ∈ d, i < ((List.range n).filter (fun f => !lat.contains f)).length) ∧ ValidFill n r lats ds

theorem randomFirst_total (L r : Nat) : ∀ (fs cs : List Nat) (lats : List (List Nat)),
    lats.length = L → (∀ lat ∈ lats, lat.length ≤ r) → tot lats + fs.length ≤ L * r →
    ValidFirst L r fs cs lats → ∃ out, randomFirst L r fs cs lats = .ok out
  | [], _, lats, _, _, _, _ => ⟨lats, by simp [randomFirst]⟩
  | _ :: _, [], _, _, _, _, hv => by simp [ValidFirst] at hv
  | f :: fs, c :: cs, lats, hL, hle, htot, hv => by
    simp only [ValidFirst] at hv
    obtain ⟨hv1, hv2⟩ := hv
    simp only [List.length_cons] at htot
    obtain ⟨j, hj, hjfree⟩ := exists_nonfull r lats (by rw [hL]; omega)
    have hne : ((List.range L).filter (fun i => (lats.getD i []).length < r)) ≠ [] := by
      intro h
      rw [List.filter_eq_nil_iff] at h
      have := h j (List.mem_range.mpr (by omega))
      simp [List.getD_eq_getElem?_getD, List.getElem?_eq_getElem hj, hjfree] at this
    have hc := hv1 hne
    have hget := List.getElem?_eq_getElem hc
    set i := ((List.range L).filter (fun i => (lats.getD i []).length < r))[c] with hi
    have himem : i ∈ (List.range L).filter (fun i => (lats.getD i []).length < r) := List.getElem_mem _
    rw [List.mem_filter, List.mem_range] at himem
    obtain ⟨hiL, hifree⟩ := himem
    have hil : i < lats.length := by omega
    have hgetD : lats.getD i [] = lats[i] := by simp [List.getD_eq_getElem?_getD, List.getElem?_eq_getElem hil]
    have hifree' : lats[i].length < r := by rw [hgetD] at hifree; simpa using hifree
    have hrec := randomFirst_total L r fs cs (lats.set i (lats.getD i [] ++ [f])) (by simpa using hL)
      (by
        intro lat hlat
        rcases List.mem_or_eq_of_mem_set hlat with h | rfl
        · exact hle lat h
        · rw [hgetD]; simp only [List.length_append, List.length_singleton]; omega)
      (by rw [hgetD, tot_set_append lats i hil f]; omega)
      (hv2 i hget)
    obtain ⟨out, hout⟩ := hrec
    refine ⟨out, ?_⟩
    unfold randomFirst
    simp only [hget]
    exact hout

theorem cands_length (n : Nat) (lat : List Nat) :
    n ≤ ((List.range n).filter (fun f => !lat.contains f)).length + lat.length := by
  have h1 := List.length_eq_length_filter_add (l := List.range n) (fun f => lat.contains f)
  rw [List.length_range] at h1
  have hsub : ((List.range n).filter (fun f => lat.contains f)).length ≤ lat.length := by
    apply (List.subperm_of_subset (List.nodup_range.filter _) _).length_le
    intro x hx
    rw [List.mem_filter] at hx
    simpa using hx.2
  omega

theorem randomFill_total (n r : Nat) (hrn : r ≤ n) : ∀ (lats ds : List (List Nat)),
    ValidFill n r lats ds → ∃ out, randomFill n r lats ds = .ok out
  | [], _, _ => ⟨[], by simp [randomFill]⟩
  | _ :: _, [], hv => by simp [ValidFill] at hv
  | lat :: lats, d :: ds, hv => by
    simp only [ValidFill] at hv
    obtain ⟨h1, h2, h3, h4⟩ := hv
    obtain ⟨rest, hrest⟩ := randomFill_total n r hrn lats ds h4
    have hc := cands_length n lat
    have hchoice : choiceNoReplace ((List.range n).filter (fun f => !lat.contains f)) (r - lat.length) d
        = .ok (d.filterMap (fun i => ((List.range n).filter (fun f => !lat.contains f))[i]?)) := by
      unfold choiceNoReplace
      rw [if_neg (by omega), if_neg]
      simp only [Bool.or_eq_true, not_or, Bool.not_eq_true', Bool.not_eq_false]
      refine ⟨⟨by simpa using h1, ?_⟩, by simpa using h2⟩
      rw [List.all_eq_true]
      intro i hi
      simpa using h3 i hi
    refine ⟨(lat ++ d.filterMap (fun i => ((List.range n).filter (fun f => !lat.contains f))[i]?)) :: rest, ?_⟩
    unfold randomFill
    simp only [bind, Except.bind, pure, Except.pure, hchoice, hrest]


end Tfl.Ensembles
