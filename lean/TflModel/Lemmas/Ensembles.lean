import TflModel.Model.Ensembles
import Mathlib.Data.List.Basic
import Mathlib.Data.List.Count
import Mathlib.Data.List.Nodup
import Mathlib.Data.List.Perm.Basic
import Mathlib.Data.List.Range
import Mathlib.Tactic.Ring
import Mathlib.Tactic.Linarith
/-!
# Lemmas for C17 (ensemble structures)
-/
namespace Tfl.Ensembles
open Tfl

/-! ### tile-and-truncate: the count lemma -/

theorem flatten_replicate_succ {α} (k : Nat) (L : List α) :
    (List.replicate (k+1) L).flatten = (List.replicate k L).flatten ++ L := by
  rw [List.replicate_succ', List.flatten_append]; simp

theorem length_flatten_replicate {α} (k : Nat) (L : List α) :
    (List.replicate k L).flatten.length = k * L.length := by
  induction k with
  | zero => simp
  | succ k ih => rw [flatten_replicate_succ, List.length_append, ih]; ring

theorem count_flatten_replicate (k : Nat) (L : List Nat) (x : Nat) :
    ((List.replicate k L).flatten).count x = k * L.count x := by
  induction k with
  | zero => simp
  | succ k ih => rw [flatten_replicate_succ, List.count_append, ih]; ring

/-- every element of a duplicate-free `L` occurs `total / n` or `total / n + 1` times in
`(L * (1 + total // n))[:total]` -/
theorem count_tileTake (L : List Nat) (hL : L.Nodup) (hpos : 0 < L.length) (total : Nat) {x : Nat}
    (hx : x ∈ L) :
    total / L.length ≤ (tileTake L total).count x ∧ (tileTake L total).count x ≤ total / L.length + 1 := by
  set n := L.length with hn
  set q := total / n with hq
  have hsplit : total = q * n + total % n := by rw [hq]; exact (Nat.div_add_mod' total n).symm
  have hlt : total % n < n := Nat.mod_lt _ hpos
  have h1 : tileTake L total = (List.replicate q L).flatten ++ L.take (total % n) := by
    unfold tileTake
    rw [← hn, ← hq, Nat.add_comm 1 q, flatten_replicate_succ]
    have hlen : (List.replicate q L).flatten.length = q * n := by rw [length_flatten_replicate]
    rw [List.take_append, hlen]
    have e1 : total - q * n = total % n := by omega
    rw [e1, List.take_of_length_le (by rw [hlen]; omega)]
  have hc1 : L.count x = 1 := List.count_eq_one_of_mem hL hx
  rw [h1, List.count_append, count_flatten_replicate, hc1, Nat.mul_one]
  have hsub : (L.take (total % n)).count x ≤ L.count x := (List.take_sublist _ _).count_le x
  omega

theorem length_tileTake {α} (L : List α) (hpos : 0 < L.length) (total : Nat) :
    (tileTake L total).length = total := by
  unfold tileTake
  rw [List.length_take, length_flatten_replicate]
  have h := Nat.div_add_mod total L.length
  have h2 := Nat.mod_lt total hpos
  have : total ≤ (1 + total / L.length) * L.length := by
    rw [Nat.add_mul, Nat.one_mul, Nat.mul_comm]; omega
  omega

theorem mem_tileTake {α} {L : List α} {total : Nat} {x : α} (h : x ∈ tileTake L total) : x ∈ L := by
  unfold tileTake at h
  have h1 := List.mem_of_mem_take h
  rw [List.mem_flatten] at h1
  obtain ⟨l, hl, hx⟩ := h1
  rw [List.mem_replicate] at hl
  rw [hl.2] at hx; exact hx

theorem map_tileTake {α β} (f : α → β) (L : List α) (total : Nat) :
    (tileTake L total).map f = tileTake (L.map f) total := by
  unfold tileTake
  rw [List.map_take, List.map_flatten, List.map_replicate, List.length_map]

/-! ### shuffles -/

theorem applyPerm_range {α} (l : List α) : applyPerm (List.range l.length) l = l := by
  unfold applyPerm
  induction l using List.reverseRecOn with
  | nil => simp
  | append_singleton l a ih =>
    rw [List.length_append, List.length_singleton, List.range_succ, List.filterMap_append]
    have h1 : List.filterMap (fun i => (l ++ [a])[i]?) (List.range l.length)
        = List.filterMap (fun i => l[i]?) (List.range l.length) := by
      apply List.filterMap_congr
      intro x hx
      rw [List.mem_range] at hx
      rw [List.getElem?_append_left hx]
    rw [h1, ih]; simp

/-- a shuffle is a permutation -/
theorem applyPerm_perm {α} (perm : List Nat) (l : List α) (h : perm.Perm (List.range l.length)) :
    (applyPerm perm l).Perm l := by
  have h1 : (applyPerm perm l).Perm (applyPerm (List.range l.length) l) := List.Perm.filterMap _ h
  rwa [applyPerm_range] at h1

/-! ### swapping two slots -/

theorem swapFlat_perm {α} [DecidableEq α] (l : List α) (p q : Nat) : (swapFlat l p q).Perm l := by
  unfold swapFlat
  cases hp : l[p]? with
  | none => exact List.Perm.refl _
  | some x =>
    cases hq : l[q]? with
    | none => exact List.Perm.refl _
    | some y =>
      simp only
      obtain ⟨hp1, hp2⟩ := List.getElem?_eq_some_iff.mp hp
      obtain ⟨hq1, hq2⟩ := List.getElem?_eq_some_iff.mp hq
      by_cases hpq : p = q
      · subst hpq
        have : x = y := by rw [← hp2, ← hq2]
        subst this
        rw [List.set_set]
        have : l.set p x = l := by rw [← hp2]; exact List.set_getElem_self hp1
        rw [this]
      · rw [List.perm_iff_count]
        intro b
        have hq' : q < (l.set p y).length := by simpa using hq1
        rw [List.count_set hq', List.count_set hp1, List.getElem_set, if_neg hpq, hp2, hq2]
        have hx : (x == b) = true → 1 ≤ l.count b := by
          intro h
          have : x = b := by simpa using h
          subst this
          exact List.count_pos_iff.mpr (by rw [← hp2]; exact List.getElem_mem hp1)
        split_ifs with h1 h2 h2
        · have := hx h1; omega
        · have := hx h1; omega
        · omega
        · omega


theorem foldl_fst_perm {σ γ α} (proj : σ → List α) (f : σ → γ → σ)
    (h : ∀ st c, (proj (f st c)).Perm (proj st)) : ∀ (cs : List γ) (st : σ), (proj (cs.foldl f st)).Perm (proj st)
  | [], _ => List.Perm.refl _
  | c :: cs, st => (foldl_fst_perm proj f h cs (f st c)).trans (h st c)

theorem rtlSwapStep_perm (r : Nat) (st : List RtlInput × Bool) (c : Nat × Nat × Nat × Nat) :
    (rtlSwapStep r st c).1.Perm st.1 := by
  unfold rtlSwapStep
  simp only
  split
  · split_ifs
    · exact List.Perm.refl _
    · exact swapFlat_perm _ _ _
    · exact List.Perm.refl _
  · exact List.Perm.refl _

theorem rtlSwapPass_perm (L r : Nat) (flat : List RtlInput) : (rtlSwapPass L r flat).1.Perm flat :=
  foldl_fst_perm (fun st : List RtlInput × Bool => st.1) (rtlSwapStep r) (rtlSwapStep_perm r) _ (flat, false)

theorem rtlSwapLoop_perm (L r : Nat) : ∀ (fuel : Nat) (flat : List RtlInput),
    (rtlSwapLoop L r fuel flat).1.Perm flat
  | 0, _ => List.Perm.refl _
  | fuel + 1, flat => by
    unfold rtlSwapLoop
    simp only
    split_ifs
    · exact (rtlSwapLoop_perm L r fuel _).trans (rtlSwapPass_perm L r flat)
    · exact rtlSwapPass_perm L r flat

/-! ### chunks -/

theorem length_chunk {α} (r L : Nat) (flat : List α) (hlen : flat.length = L * r) {k : Nat} (hk : k < L) :
    (chunk r flat k).length = r := by
  unfold chunk
  rw [List.length_take, List.length_drop, hlen]
  have : (k + 1) * r ≤ L * r := Nat.mul_le_mul_right r hk
  rw [Nat.succ_mul] at this
  omega

theorem flatten_chunks_take {α} (r : Nat) (flat : List α) : ∀ L : Nat,
    (chunks r L flat).flatten = flat.take (L * r)
  | 0 => by simp [chunks]
  | L + 1 => by
    have ih := flatten_chunks_take r flat L
    unfold chunks at ih ⊢
    rw [List.range_succ, List.map_append, List.flatten_append, ih]
    simp only [List.map_cons, List.map_nil, List.flatten_cons, List.flatten_nil, List.append_nil, chunk]
    rw [Nat.succ_mul, List.take_add]

theorem flatten_chunks {α} (r L : Nat) (flat : List α) (hlen : flat.length = L * r) :
    (chunks r L flat).flatten = flat := by
  rw [flatten_chunks_take, List.take_of_length_le (by omega)]

theorem length_of_mem_chunks {α} (r L : Nat) (flat : List α) (hlen : flat.length = L * r) {c : List α}
    (hc : c ∈ chunks r L flat) : c.length = r := by
  unfold chunks at hc
  rw [List.mem_map] at hc
  obtain ⟨k, hk, rfl⟩ := hc
  exact length_chunk r L flat hlen (List.mem_range.mp hk)

theorem mem_of_mem_chunks {α} (r L : Nat) (flat : List α) {c : List α} (hc : c ∈ chunks r L flat) {x : α}
    (hx : x ∈ c) : x ∈ flat := by
  unfold chunks at hc
  rw [List.mem_map] at hc
  obtain ⟨k, _, rfl⟩ := hc
  exact List.mem_of_mem_drop (List.mem_of_mem_take hx)

/-! ### the flattened inputs -/

theorem map_fst_groupTags (m : Nat) : ∀ (g : Nat) (sizes : List Nat),
    (groupTags m g sizes).map (·.1) = List.replicate sizes.sum m
  | _, [] => by simp [groupTags]
  | g, s :: ss => by
    simp only [groupTags, List.map_append, List.map_replicate, List.sum_cons, map_fst_groupTags m (g+1) ss]
    rw [List.replicate_add]

/-- the monotonicity of the input with flattened index `i`: the `'increasing'` key comes first -/
def monoOf (inc : List Nat) (i : Nat) : Nat := if i < inc.sum then 1 else 0

theorem length_rtlInputs (inc unc : List Nat) : (rtlInputs inc unc).length = inc.sum + unc.sum := by
  unfold rtlInputs
  rw [List.length_map, List.length_zipIdx]
  have h := congrArg List.length (map_fst_groupTags 1 0 inc)
  have h2 := congrArg List.length (map_fst_groupTags 0 inc.length unc)
  simp only [List.length_map, List.length_replicate] at h h2
  rw [List.length_append, h, h2]

theorem map_idx_rtlInputs (inc unc : List Nat) :
    (rtlInputs inc unc).map (·.idx) = List.range (rtlInputs inc unc).length := by
  unfold rtlInputs
  rw [List.map_map, List.length_map, List.length_zipIdx]
  have : ((fun x : RtlInput => x.idx) ∘ fun p : (Nat × Nat) × Nat => (⟨p.1.1, p.1.2, p.2⟩ : RtlInput)) = Prod.snd := by
    funext p; rfl
  rw [this, List.zipIdx_map_snd, List.range_eq_range']

theorem mono_of_mem_rtlInputs (inc unc : List Nat) {x : RtlInput} (hx : x ∈ rtlInputs inc unc) :
    x.mono = monoOf inc x.idx := by
  unfold rtlInputs at hx
  rw [List.mem_map] at hx
  obtain ⟨p, hp, rfl⟩ := hx
  obtain ⟨⟨m, g⟩, i⟩ := p
  rw [List.mem_zipIdx_iff_getElem?] at hp
  have h1 : ((groupTags 1 0 inc ++ groupTags 0 inc.length unc).map (·.1))[i]? = some m := by
    rw [List.getElem?_map]; simp [hp]
  rw [List.map_append, map_fst_groupTags, map_fst_groupTags] at h1
  unfold monoOf
  simp only
  by_cases hi : i < inc.sum
  · rw [List.getElem?_append_left (by simpa using hi)] at h1
    rw [if_pos hi]
    have := List.getElem?_eq_some_iff.mp h1
    obtain ⟨_, h⟩ := this
    simpa using h.symm
  · rw [List.getElem?_append_right (by simpa using hi)] at h1
    rw [if_neg hi]
    have := List.getElem?_eq_some_iff.mp h1
    obtain ⟨_, h⟩ := this
    simpa using h.symm

/-! ### grouping by monotonicity tuple -/

def latKey (lat : List RtlInput) : List Nat := (sortLattice lat).map (·.mono)
def latVal (lat : List RtlInput) : List Nat := (sortLattice lat).map (·.idx)

theorem mem_insertGroup : ∀ (acc : List (List Nat × List (List Nat))) (k v : List Nat)
    (e : List Nat × List (List Nat)), e ∈ insertGroup acc k v → ∀ w ∈ e.2,
    (∃ e' ∈ acc, e'.1 = e.1 ∧ w ∈ e'.2) ∨ (e.1 = k ∧ w = v)
  | [], k, v, e, he, w, hw => by
    simp only [insertGroup, List.mem_singleton] at he
    subst he
    simp only [List.mem_singleton] at hw
    exact Or.inr ⟨rfl, hw⟩
  | (k', vs) :: rest, k, v, e, he, w, hw => by
    unfold insertGroup at he
    split_ifs at he with hk
    · rcases List.mem_cons.mp he with rfl | he
      · rcases List.mem_append.mp hw with hw | hw
        · exact Or.inl ⟨(k', vs), List.mem_cons_self, rfl, hw⟩
        · exact Or.inr ⟨hk, by simpa using hw⟩
      · exact Or.inl ⟨e, List.mem_cons_of_mem _ he, rfl, hw⟩
    · rcases List.mem_cons.mp he with rfl | he
      · exact Or.inl ⟨(k', vs), List.mem_cons_self, rfl, hw⟩
      · rcases mem_insertGroup rest k v e he w hw with ⟨e', he', h1, h2⟩ | h
        · exact Or.inl ⟨e', List.mem_cons_of_mem _ he', h1, h2⟩
        · exact Or.inr h

theorem insertGroup_flatMap_perm : ∀ (acc : List (List Nat × List (List Nat))) (k v : List Nat),
    ((insertGroup acc k v).flatMap (·.2)).Perm (acc.flatMap (·.2) ++ [v])
  | [], k, v => by simp [insertGroup]
  | (k', vs) :: rest, k, v => by
    unfold insertGroup
    split_ifs with hk
    · simp only [List.flatMap_cons]
      rw [List.append_assoc, List.append_assoc]
      refine List.Perm.append_left _ ?_
      exact List.perm_append_comm
    · simp only [List.flatMap_cons]
      rw [List.append_assoc]
      exact List.Perm.append_left _ (insertGroup_flatMap_perm rest k v)

def groupFold (acc : List (List Nat × List (List Nat))) (lats : List (List RtlInput)) :=
  lats.foldl (fun acc lat =>
    let s := sortLattice lat
    insertGroup acc (s.map (·.mono)) (s.map (·.idx))) acc

theorem groupLattices_eq (lats : List (List RtlInput)) : groupLattices lats = groupFold [] lats := rfl

theorem mem_groupFold : ∀ (lats : List (List RtlInput)) (acc : List (List Nat × List (List Nat)))
    (e : List Nat × List (List Nat)), e ∈ groupFold acc lats → ∀ w ∈ e.2,
    (∃ e' ∈ acc, e'.1 = e.1 ∧ w ∈ e'.2) ∨ (∃ lat ∈ lats, e.1 = latKey lat ∧ w = latVal lat)
  | [], acc, e, he, w, hw => Or.inl ⟨e, he, rfl, hw⟩
  | lat :: lats, acc, e, he, w, hw => by
    unfold groupFold at he
    rw [List.foldl_cons] at he
    rcases mem_groupFold lats _ e he w hw with ⟨e', he', h1, h2⟩ | ⟨l, hl, h⟩
    · rcases mem_insertGroup acc _ _ e' he' w h2 with ⟨e'', he'', h3, h4⟩ | ⟨h3, h4⟩
      · exact Or.inl ⟨e'', he'', h3.trans h1, h4⟩
      · exact Or.inr ⟨lat, List.mem_cons_self, by rw [← h1, h3]; rfl, by rw [h4]; rfl⟩
    · exact Or.inr ⟨l, List.mem_cons_of_mem _ hl, h⟩

theorem groupFold_flatMap_perm : ∀ (lats : List (List RtlInput)) (acc : List (List Nat × List (List Nat))),
    ((groupFold acc lats).flatMap (·.2)).Perm (acc.flatMap (·.2) ++ lats.map latVal)
  | [], acc => by simp [groupFold]
  | lat :: lats, acc => by
    unfold groupFold
    rw [List.foldl_cons]
    refine (groupFold_flatMap_perm lats _).trans ?_
    rw [List.map_cons, ← List.singleton_append (l := List.map latVal lats), ← List.append_assoc]
    exact List.Perm.append_right _ (insertGroup_flatMap_perm acc _ _)

theorem flatten_map_latVal_perm : ∀ (lats : List (List RtlInput)),
    ((lats.map latVal).flatten).Perm ((lats.flatten).map (·.idx))
  | [] => by simp
  | lat :: lats => by
    simp only [List.map_cons, List.flatten_cons, List.map_append]
    exact List.Perm.append (List.Perm.map _ (List.mergeSort_perm _ _)) (flatten_map_latVal_perm lats)


/-! ### random ensemble -/

theorem exists_mem_set {ll : List (List Nat)} {i : Nat} (hi : i < ll.length) (a : List Nat)
    (h : ∀ x ∈ ll[i], x ∈ a) (x : Nat) (hx : ∃ l ∈ ll, x ∈ l) : ∃ l ∈ ll.set i a, x ∈ l := by
  obtain ⟨l, hl, hxl⟩ := hx
  obtain ⟨j, hj, rfl⟩ := List.getElem_of_mem hl
  by_cases hij : i = j
  · subst hij
    exact ⟨a, List.mem_set hi a, h x hxl⟩
  · refine ⟨ll[j], ?_, hxl⟩
    have : (ll.set i a)[j]'(by simpa using hj) = ll[j] := by rw [List.getElem_set, if_neg hij]
    rw [← this]; exact List.getElem_mem _

structure FirstInv (L r : Nat) (S : List Nat) (lats : List (List Nat)) : Prop where
  len : lats.length = L
  nodup : ∀ l ∈ lats, l.Nodup
  le : ∀ l ∈ lats, l.length ≤ r
  sub : ∀ l ∈ lats, ∀ x ∈ l, x ∈ S
  cover : ∀ x ∈ S, ∃ l ∈ lats, x ∈ l

theorem randomFirst_inv (L r : Nat) : ∀ (fs cs : List Nat) (lats out : List (List Nat)) (S : List Nat),
    FirstInv L r S lats → fs.Nodup → (∀ f ∈ fs, f ∉ S) → randomFirst L r fs cs lats = .ok out →
    FirstInv L r (S ++ fs) out
  | [], _, lats, out, S, inv, _, _, h => by
    simp only [randomFirst, Except.ok.injEq] at h
    subst h; simpa using inv
  | _ :: _, [], _, _, _, _, _, _, h => by simp [randomFirst] at h
  | f :: fs, c :: cs, lats, out, S, inv, hnd, hdis, h => by
    unfold randomFirst at h
    simp only at h
    split at h
    · split_ifs at h
    · rename_i i hi
      have hmem : i ∈ (List.range L).filter (fun i => (lats.getD i []).length < r) :=
        List.mem_of_getElem? hi
      rw [List.mem_filter, List.mem_range] at hmem
      obtain ⟨hiL, hlt⟩ := hmem
      have hlt : (lats.getD i []).length < r := by simpa using hlt
      have hil : i < lats.length := by rw [inv.len]; exact hiL
      have hget : lats.getD i [] = lats[i] := by simp [List.getD, hil]
      rw [hget] at h hlt
      have hli : lats[i] ∈ lats := List.getElem_mem _
      have hf : f ∉ S := hdis f List.mem_cons_self
      have inv' : FirstInv L r (S ++ [f]) (lats.set i (lats[i] ++ [f])) := by
        refine ⟨by simpa using inv.len, ?_, ?_, ?_, ?_⟩
        · intro l hl
          rcases List.mem_or_eq_of_mem_set hl with hl | rfl
          · exact inv.nodup l hl
          · rw [List.nodup_append]
            refine ⟨inv.nodup _ hli, List.nodup_singleton f, ?_⟩
            intro a ha b hb
            rw [List.mem_singleton] at hb
            subst hb
            intro hab; subst hab
            exact hf (inv.sub _ hli _ ha)
        · intro l hl
          rcases List.mem_or_eq_of_mem_set hl with hl | rfl
          · exact inv.le l hl
          · simp only [List.length_append, List.length_singleton]; omega
        · intro l hl x hx
          rcases List.mem_or_eq_of_mem_set hl with hl | rfl
          · exact List.mem_append_left _ (inv.sub l hl x hx)
          · rcases List.mem_append.mp hx with hx | hx
            · exact List.mem_append_left _ (inv.sub _ hli x hx)
            · exact List.mem_append_right _ hx
        · intro x hx
          rcases List.mem_append.mp hx with hx | hx
          · exact exists_mem_set hil _ (fun y hy => List.mem_append_left _ hy) x (inv.cover x hx)
          · exact ⟨_, List.mem_set hil _, List.mem_append_right _ hx⟩
      have := randomFirst_inv L r fs cs _ out (S ++ [f]) inv' (List.nodup_cons.mp hnd).2
        (by
          intro g hg hgs
          rcases List.mem_append.mp hgs with hgs | hgs
          · exact hdis g (List.mem_cons_of_mem _ hg) hgs
          · rw [List.mem_singleton] at hgs
            subst hgs
            exact (List.nodup_cons.mp hnd).1 hg) h
      simpa [List.append_assoc] using this

theorem filterMap_getElem?_facts (cands : List Nat) (hc : cands.Nodup) : ∀ (draw : List Nat),
    (∀ i ∈ draw, i < cands.length) → draw.Nodup →
    (draw.filterMap (fun i => cands[i]?)).length = draw.length ∧
    (draw.filterMap (fun i => cands[i]?)).Nodup ∧
    (∀ x ∈ draw.filterMap (fun i => cands[i]?), ∃ i ∈ draw, cands[i]? = some x)
  | [], _, _ => by simp
  | i :: d, hr, hnd => by
    have hi : i < cands.length := hr i List.mem_cons_self
    obtain ⟨ih1, ih2, ih3⟩ := filterMap_getElem?_facts cands hc d
      (fun j hj => hr j (List.mem_cons_of_mem _ hj)) (List.nodup_cons.mp hnd).2
    have he : cands[i]? = some cands[i] := List.getElem?_eq_getElem hi
    rw [List.filterMap_cons_some he]
    refine ⟨by simp [ih1], ?_, ?_⟩
    · rw [List.nodup_cons]
      refine ⟨?_, ih2⟩
      intro hmem
      obtain ⟨j, hj, hje⟩ := ih3 _ hmem
      obtain ⟨hjl, hjv⟩ := List.getElem?_eq_some_iff.mp hje
      have : j = i := (List.Nodup.getElem_inj_iff hc).mp hjv
      subst this
      exact (List.nodup_cons.mp hnd).1 hj
    · intro x hx
      rcases List.mem_cons.mp hx with rfl | hx
      · exact ⟨i, List.mem_cons_self, he⟩
      · obtain ⟨j, hj, hje⟩ := ih3 x hx
        exact ⟨j, List.mem_cons_of_mem _ hj, hje⟩

theorem choiceNoReplace_ok {cands : List Nat} {m : Nat} {draw ext : List Nat} (hc : cands.Nodup)
    (h : choiceNoReplace cands m draw = .ok ext) :
    ext.length = m ∧ ext.Nodup ∧ ∀ x ∈ ext, x ∈ cands := by
  unfold choiceNoReplace at h
  split_ifs at h with h1 h2
  simp only [Except.ok.injEq] at h
  simp only [Bool.or_eq_true, Bool.not_eq_true', not_or, Bool.not_eq_false, decide_eq_true_eq,
    decide_eq_false_iff_not, not_not, ne_eq] at h2
  obtain ⟨⟨hl, hall⟩, hnd⟩ := h2
  have hall' : ∀ i ∈ draw, i < cands.length := by
    intro i hi
    have := List.all_eq_true.mp hall i hi
    simpa using this
  obtain ⟨f1, f2, f3⟩ := filterMap_getElem?_facts cands hc draw hall' hnd
  subst h
  refine ⟨by rw [f1]; exact hl, f2, ?_⟩
  intro x hx
  obtain ⟨i, _, hi⟩ := f3 x hx
  exact List.mem_of_getElem? hi

theorem randomFill_ok (n r : Nat) : ∀ (lats ds out : List (List Nat)),
    randomFill n r lats ds = .ok out →
    (∀ l ∈ lats, l.Nodup ∧ l.length ≤ r ∧ ∀ x ∈ l, x < n) →
    out.length = lats.length ∧ (∀ l ∈ out, l.Nodup ∧ l.length = r ∧ ∀ x ∈ l, x < n) ∧
    (∀ x, (∃ l ∈ lats, x ∈ l) → ∃ l ∈ out, x ∈ l)
  | [], _, out, h, _ => by
    simp only [randomFill, Except.ok.injEq] at h
    subst h; simp
  | _ :: _, [], _, h, _ => by simp [randomFill] at h
  | lat :: lats, d :: ds, out, h, hl => by
    unfold randomFill at h
    simp only [bind, Except.bind, pure, Except.pure] at h
    split at h
    · cases h
    · rename_i ext hext
      split at h
      · cases h
      · rename_i rest hrest
        simp only [Except.ok.injEq] at h
        subst h
        obtain ⟨hnd, hle, hlt⟩ := hl lat List.mem_cons_self
        have hc : ((List.range n).filter (fun f => !lat.contains f)).Nodup := List.nodup_range.filter _
        obtain ⟨e1, e2, e3⟩ := choiceNoReplace_ok hc hext
        obtain ⟨r1, r2, r3⟩ := randomFill_ok n r lats ds rest hrest
          (fun l hl' => hl l (List.mem_cons_of_mem _ hl'))
        refine ⟨by simp [r1], ?_, ?_⟩
        · intro l hl'
          rcases List.mem_cons.mp hl' with rfl | hl'
          · refine ⟨?_, ?_, ?_⟩
            · rw [List.nodup_append]
              refine ⟨hnd, e2, ?_⟩
              intro a ha b hb hab
              subst hab
              have := e3 a hb
              rw [List.mem_filter] at this
              simp [ha] at this
            · rw [List.length_append, e1]; omega
            · intro x hx
              rcases List.mem_append.mp hx with hx | hx
              · exact hlt x hx
              · have := e3 x hx
                rw [List.mem_filter, List.mem_range] at this
                exact this.1
          · exact r2 l hl'
        · rintro x ⟨l, hl', hx⟩
          rcases List.mem_cons.mp hl' with rfl | hl'
          · exact ⟨_, List.mem_cons_self, List.mem_append_left _ hx⟩
          · obtain ⟨l', hl'', hx'⟩ := r3 x ⟨l, hl', hx⟩
            exact ⟨l', List.mem_cons_of_mem _ hl'', hx'⟩


/-! ### all-pairs cover -/

def Covered (lats : List (List Nat)) (a b : Nat) : Prop := ∃ l ∈ lats, a ∈ l ∧ b ∈ l
def Grows (lats lats' : List (List Nat)) : Prop := ∀ l ∈ lats, ∃ l' ∈ lats', l ⊆ l'
def SizeOk (r : Nat) (lats : List (List Nat)) : Prop := ∀ l ∈ lats, l.length ≤ r

theorem Grows.refl (lats : List (List Nat)) : Grows lats lats := fun l hl => ⟨l, hl, List.Subset.refl l⟩
theorem Grows.trans {a b c : List (List Nat)} (h1 : Grows a b) (h2 : Grows b c) : Grows a c := by
  intro l hl
  obtain ⟨l', hl', hs⟩ := h1 l hl
  obtain ⟨l'', hl'', hs'⟩ := h2 l' hl'
  exact ⟨l'', hl'', List.Subset.trans hs hs'⟩
theorem Covered.mono {a b : List (List Nat)} (h : Grows a b) {i j : Nat} (hc : Covered a i j) : Covered b i j := by
  obtain ⟨l, hl, hi, hj⟩ := hc
  obtain ⟨l', hl', hs⟩ := h l hl
  exact ⟨l', hl', hs hi, hs hj⟩

theorem subset_addIfAbsent (l : List Nat) (x : Nat) : l ⊆ addIfAbsent l x := by
  unfold addIfAbsent; split_ifs
  · exact List.Subset.refl l
  · exact List.subset_append_left l [x]
theorem mem_addIfAbsent (l : List Nat) (x : Nat) : x ∈ addIfAbsent l x := by
  unfold addIfAbsent; split_ifs with h
  · simpa using h
  · simp
theorem length_addIfAbsent (l : List Nat) (x : Nat) : (addIfAbsent l x).length ≤ l.length + 1 := by
  unfold addIfAbsent; split_ifs <;> simp

theorem grows_cons {lat lat' : List Nat} {rest rest' : List (List Nat)} (h : lat ⊆ lat') (hr : Grows rest rest') :
    Grows (lat :: rest) (lat' :: rest') := by
  intro l hl
  rcases List.mem_cons.mp hl with rfl | hl
  · exact ⟨lat', List.mem_cons_self, h⟩
  · obtain ⟨l', hl', hs⟩ := hr l hl
    exact ⟨l', List.mem_cons_of_mem _ hl', hs⟩

theorem addToHaving_some (r i j : Nat) : ∀ (lats out : List (List Nat)), addToHaving r i j lats = some out →
    Grows lats out ∧ Covered out i j ∧ (SizeOk r lats → SizeOk r out)
  | [], _, h => by simp [addToHaving] at h
  | lat :: rest, out, h => by
    unfold addToHaving at h
    split_ifs at h with h1 h2
    · simp only [Option.some.injEq] at h
      subst h
      have hi : i ∈ lat := by simpa using h1.2
      refine ⟨grows_cons (subset_addIfAbsent _ _) (Grows.refl _),
        ⟨_, List.mem_cons_self, subset_addIfAbsent _ _ hi, mem_addIfAbsent _ _⟩, ?_⟩
      intro hs l hl
      rcases List.mem_cons.mp hl with rfl | hl
      · have := length_addIfAbsent lat j; omega
      · exact hs l (List.mem_cons_of_mem _ hl)
    · simp only [Option.some.injEq] at h
      subst h
      have hj : j ∈ lat := by simpa using h2.2
      refine ⟨grows_cons (subset_addIfAbsent _ _) (Grows.refl _),
        ⟨_, List.mem_cons_self, mem_addIfAbsent _ _, subset_addIfAbsent _ _ hj⟩, ?_⟩
      intro hs l hl
      rcases List.mem_cons.mp hl with rfl | hl
      · have := length_addIfAbsent lat i; omega
      · exact hs l (List.mem_cons_of_mem _ hl)
    · cases hrec : addToHaving r i j rest with
      | none => simp [hrec] at h
      | some out' =>
        simp only [hrec, Option.map_some, Option.some.injEq] at h
        subst h
        obtain ⟨g, c, sz⟩ := addToHaving_some r i j rest out' hrec
        refine ⟨grows_cons (List.Subset.refl _) g, ?_, ?_⟩
        · obtain ⟨l, hl, h⟩ := c
          exact ⟨l, List.mem_cons_of_mem _ hl, h⟩
        · intro hs l hl
          rcases List.mem_cons.mp hl with rfl | hl
          · exact hs _ List.mem_cons_self
          · exact sz (fun l' hl' => hs l' (List.mem_cons_of_mem _ hl')) l hl

theorem addToRoomy_some (r i j : Nat) : ∀ (lats out : List (List Nat)), addToRoomy r i j lats = some out →
    Grows lats out ∧ Covered out i j ∧ (SizeOk r lats → SizeOk r out)
  | [], _, h => by simp [addToRoomy] at h
  | lat :: rest, out, h => by
    unfold addToRoomy at h
    split_ifs at h with h1
    · simp only [Option.some.injEq] at h
      subst h
      refine ⟨grows_cons (List.Subset.trans (subset_addIfAbsent _ _) (subset_addIfAbsent _ _)) (Grows.refl _),
        ⟨_, List.mem_cons_self, subset_addIfAbsent _ _ (mem_addIfAbsent _ _), mem_addIfAbsent _ _⟩, ?_⟩
      intro hs l hl
      rcases List.mem_cons.mp hl with rfl | hl
      · have := length_addIfAbsent (addIfAbsent lat i) j
        have := length_addIfAbsent lat i
        omega
      · exact hs l (List.mem_cons_of_mem _ hl)
    · cases hrec : addToRoomy r i j rest with
      | none => simp [hrec] at h
      | some out' =>
        simp only [hrec, Option.map_some, Option.some.injEq] at h
        subst h
        obtain ⟨g, c, sz⟩ := addToRoomy_some r i j rest out' hrec
        refine ⟨grows_cons (List.Subset.refl _) g, ?_, ?_⟩
        · obtain ⟨l, hl, h⟩ := c
          exact ⟨l, List.mem_cons_of_mem _ hl, h⟩
        · intro hs l hl
          rcases List.mem_cons.mp hl with rfl | hl
          · exact hs _ List.mem_cons_self
          · exact sz (fun l' hl' => hs l' (List.mem_cons_of_mem _ hl')) l hl

theorem addPair_facts (r : Nat) (hr : 2 ≤ r) (lats : List (List Nat)) (p : Nat × Nat) :
    Grows lats (addPair r lats p) ∧ Covered (addPair r lats p) p.1 p.2 ∧
    (SizeOk r lats → SizeOk r (addPair r lats p)) := by
  unfold addPair
  split_ifs with h
  · refine ⟨Grows.refl _, ?_, id⟩
    rw [List.any_eq_true] at h
    obtain ⟨l, hl, h⟩ := h
    simp only [Bool.and_eq_true, List.contains_iff_mem] at h
    exact ⟨l, hl, h⟩
  · cases h1 : addToHaving r p.1 p.2 lats with
    | some out => exact addToHaving_some r _ _ lats out h1
    | none =>
      cases h2 : addToRoomy r p.1 p.2 lats with
      | some out => exact addToRoomy_some r _ _ lats out h2
      | none =>
        simp only
        refine ⟨fun l hl => ⟨l, List.mem_append_left _ hl, List.Subset.refl l⟩, ?_, ?_⟩
        · refine ⟨_, List.mem_append_right _ (List.mem_singleton_self _), ?_, mem_addIfAbsent _ _⟩
          exact subset_addIfAbsent _ _ (List.mem_singleton_self _)
        · intro hs l hl
          rcases List.mem_append.mp hl with hl | hl
          · exact hs l hl
          · rw [List.mem_singleton] at hl
            subst hl
            have := length_addIfAbsent [p.1] p.2
            simp only [List.length_singleton] at this
            omega

theorem foldl_addPair_facts (r : Nat) (hr : 2 ≤ r) : ∀ (ps : List (Nat × Nat)) (lats : List (List Nat)),
    Grows lats (ps.foldl (addPair r) lats) ∧ (∀ p ∈ ps, Covered (ps.foldl (addPair r) lats) p.1 p.2) ∧
    (SizeOk r lats → SizeOk r (ps.foldl (addPair r) lats))
  | [], lats => ⟨Grows.refl _, fun _ h => (by cases h), id⟩
  | p :: ps, lats => by
    obtain ⟨g1, c1, s1⟩ := addPair_facts r hr lats p
    obtain ⟨g2, c2, s2⟩ := foldl_addPair_facts r hr ps (addPair r lats p)
    rw [List.foldl_cons]
    refine ⟨g1.trans g2, ?_, fun h => s2 (s1 h)⟩
    intro q hq
    rcases List.mem_cons.mp hq with rfl | hq
    · exact Covered.mono g2 c1
    · exact c2 q hq

theorem mem_allPairs {n i j : Nat} (hij : i < j) (hj : j < n) : (i, j) ∈ allPairs n := by
  unfold allPairs
  rw [List.mem_flatMap]
  refine ⟨i, List.mem_range.mpr (by omega), ?_⟩
  rw [List.mem_map]
  exact ⟨j, List.mem_filter.mpr ⟨List.mem_range.mpr hj, by simpa using hij⟩, rfl⟩

end Tfl.Ensembles
