import TflModel.Model.Linear
import TflModel.Model.Categorical
import TflModel.Lemmas.Poset
/-! Lemmas for `linear_lib.project` / categorical `project`. -/
namespace Tfl.Linear
open Tfl Tfl.Poset

theorem getV_zipWith (f : Rat → Rat → Rat) (hf : f 0 0 = 0) (a b : List Rat)
    (h : a.length = b.length) (k : Nat) :
    getV (List.zipWith f a b) k = f (getV a k) (getV b k) := by
  unfold getV
  induction a generalizing b k with
  | nil => cases b with
    | nil => simp [hf]
    | cons y ys => simp at h
  | cons x xs ih => cases b with
    | nil => simp at h
    | cons y ys => cases k with
      | zero => simp
      | succ k => simpa using ih ys (by simpa using h) k

def getM (l : List Int) (k : Nat) : Int := l.getD k 0

theorem length_signClip (ms : List Int) (w : List Rat) : (signClip ms w).length = w.length := by
  induction ms generalizing w with
  | nil => cases w <;> simp [signClip]
  | cons m ms ih => cases w with
    | nil => simp [signClip]
    | cons x xs => simp [signClip, ih]

theorem signClip_spec (ms : List Int) (w : List Rat) (k : Nat) :
    getV (signClip ms w) k =
      if getM ms k = 1 then max (getV w k) 0 else if getM ms k = -1 then min (getV w k) 0 else getV w k := by
  induction ms generalizing w k with
  | nil => cases w <;> simp [signClip, getM]
  | cons m ms ih => cases w with
    | nil =>
      simp only [signClip, getV, List.getD_nil]
      split_ifs <;> simp
    | cons x xs => cases k with
      | zero => simp [signClip, getV, getM]
      | succ k =>
        have := ih xs k
        simpa [signClip, getV, getM] using this

/-- the sign condition of one entry -/
def SignOk (m : Int) (x : Rat) : Prop := (m = 1 → 0 ≤ x) ∧ (m = -1 → x ≤ 0)

theorem signClip_signOk (ms : List Int) (w : List Rat) (k : Nat) :
    SignOk (getM ms k) (getV (signClip ms w) k) := by
  rw [signClip_spec]
  constructor
  · intro h; simp [h]
  · intro h; simp [h]

theorem signClip_fix (ms : List Int) (w : List Rat) (h : ∀ k, SignOk (getM ms k) (getV w k)) :
    signClip ms w = w := by
  induction ms generalizing w with
  | nil => cases w <;> rfl
  | cons m ms ih => cases w with
    | nil => rfl
    | cons x xs =>
      have h0 := h 0
      simp only [getM, getV, List.getD_cons_zero] at h0
      have ht : ∀ k, SignOk (getM ms k) (getV xs k) := fun k => by simpa [getM, getV] using h (k + 1)
      simp only [signClip, ih xs ht]
      congr 1
      split_ifs with h1 h2
      · exact max_eq_left (h0.1 h1)
      · exact min_eq_left (h0.2 h2)
      · rfl

theorem mem_swapPairs {cs : Pairs} {a b : Nat} : (a, b) ∈ swapPairs cs ↔ (b, a) ∈ cs := by
  simp only [swapPairs, List.mem_map, Prod.mk.injEq]
  constructor
  · rintro ⟨⟨x, y⟩, hm, rfl, rfl⟩; exact hm
  · intro h; exact ⟨(b, a), h, rfl, rfl⟩

theorem isNode_swap {cs : Pairs} {k : Nat} : IsNode (swapPairs cs) k ↔ IsNode cs k := by
  constructor
  · rintro ⟨⟨a, b⟩, hm, h⟩
    exact ⟨(b, a), mem_swapPairs.mp hm, h.symm⟩
  · rintro ⟨⟨a, b⟩, hm, h⟩
    exact ⟨(b, a), mem_swapPairs.mpr hm, h.symm⟩

end Tfl.Linear
