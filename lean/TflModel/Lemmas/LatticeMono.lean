import TflModel.Model.Lattice
import TflModel.Lemmas.Idx
/-! L4 / C01-T1: running max / min along an axis and `_approximately_project_monotonicity`. -/
namespace Tfl.Lat
open Tfl

theorem cummaxUpTo_setc_same (w : W) (d : Nat) (idx : Idx) (a k : Nat) :
    cummaxUpTo w d (setc idx d a) k = cummaxUpTo w d idx k := by
  induction k with
  | zero => simp [cummaxUpTo]
  | succ k ih => simp [cummaxUpTo, ih]
theorem cumminFrom_setc_same (w : W) (d n : Nat) (idx : Idx) (a k : Nat) :
    cumminFrom w d n (setc idx d a) k = cumminFrom w d n idx k := by
  induction k with
  | zero => simp [cumminFrom]
  | succ k ih => simp [cumminFrom, ih]

theorem cummaxAx_mono_self (sizes : List Nat) (d : Nat) (w : W) : MonoAx sizes d (cummaxAx w d) := by
  intro idx hr hd _
  have hl : d < idx.length := by rw [hr.1]; exact hd
  simp only [cummaxAx, coord_setc_same _ hl, cummaxUpTo, cummaxUpTo_setc_same]
  exact le_max_left _ _

theorem cummaxAx_mono_other (sizes : List Nat) {d d' : Nat} (hne : d ≠ d') (hdl : d < sizes.length)
    (w : W) (hw : MonoAx sizes d' w) : MonoAx sizes d' (cummaxAx w d) := by
  intro idx hr hd' hlt
  have key : ∀ k, k ≤ coord idx d →
      cummaxUpTo w d idx k ≤ cummaxUpTo w d (setc idx d' (coord idx d' + 1)) k := by
    intro k
    induction k with
    | zero =>
      intro _
      simp only [cummaxUpTo]
      have h0 : InRange sizes (setc idx d 0) :=
        inRange_setc hr (lt_of_le_of_lt (Nat.zero_le _) (hr.2 d hdl))
      have := hw (setc idx d 0) h0 hd' (by rwa [coord_setc_ne _ hne])
      rw [coord_setc_ne _ hne, setc_comm _ _ _ hne] at this
      exact this
    | succ k ih =>
      intro hk
      simp only [cummaxUpTo]
      have hk1 : InRange sizes (setc idx d (k+1)) :=
        inRange_setc hr (lt_of_le_of_lt hk (hr.2 d hdl))
      have h1 := hw (setc idx d (k+1)) hk1 hd' (by rwa [coord_setc_ne _ hne])
      rw [coord_setc_ne _ hne, setc_comm _ _ _ hne] at h1
      exact max_le_max (ih (Nat.le_of_succ_le hk)) h1
  simp only [cummaxAx]
  rw [coord_setc_ne _ (Ne.symm hne)]
  exact key _ le_rfl

/-- running min from the top: own-axis monotone -/
theorem cumminAx_mono_self (sizes : List Nat) (d : Nat) (w : W) :
    MonoAx sizes d (cumminAx w d (sizes.getD d 0)) := by
  intro idx hr hd hlt
  have hl : d < idx.length := by rw [hr.1]; exact hd
  simp only [cumminAx, coord_setc_same _ hl, cumminFrom_setc_same]
  -- distance from the top: n-1-k  =  (n-1-(k+1)) + 1
  have e : sizes.getD d 0 - 1 - coord idx d = (sizes.getD d 0 - 1 - (coord idx d + 1)) + 1 := by omega
  rw [e]
  simp only [cumminFrom]
  exact min_le_left _ _

theorem cumminAx_mono_other (sizes : List Nat) {d d' : Nat} (hne : d ≠ d') (hdl : d < sizes.length)
    (w : W) (hw : MonoAx sizes d' w) : MonoAx sizes d' (cumminAx w d (sizes.getD d 0)) := by
  intro idx hr hd' hlt
  have key : ∀ k, k ≤ sizes.getD d 0 - 1 →
      cumminFrom w d (sizes.getD d 0) idx k ≤
        cumminFrom w d (sizes.getD d 0) (setc idx d' (coord idx d' + 1)) k := by
    intro k
    have hpos : 0 < sizes.getD d 0 := lt_of_le_of_lt (Nat.zero_le _) (hr.2 d hdl)
    induction k with
    | zero =>
      intro _
      simp only [cumminFrom]
      have h0 : InRange sizes (setc idx d (sizes.getD d 0 - 1)) := inRange_setc hr (by omega)
      have := hw _ h0 hd' (by rwa [coord_setc_ne _ hne])
      rw [coord_setc_ne _ hne, setc_comm _ _ _ hne] at this
      exact this
    | succ k ih =>
      intro hk
      simp only [cumminFrom]
      have hk1 : InRange sizes (setc idx d (sizes.getD d 0 - 1 - (k+1))) := inRange_setc hr (by omega)
      have h1 := hw _ hk1 hd' (by rwa [coord_setc_ne _ hne])
      rw [coord_setc_ne _ hne, setc_comm _ _ _ hne] at h1
      exact min_le_min (ih (Nat.le_of_succ_le hk)) h1
  simp only [cumminAx]
  rw [coord_setc_ne _ (Ne.symm hne)]
  exact key _ (by omega)

/-- the dimensions visited by the projection are exactly the monotone ones -/
theorem mem_monoDims {sizes : List Nat} {mono : List Bool} {d : Nat} :
    d ∈ monoDims sizes mono ↔ d < sizes.length ∧ mono.getD d false = true := by
  simp [monoDims]

/-- after the running-max sweep over a list of (distinct) dimensions the tensor is monotone along
each of them -/
theorem foldl_cummax_mono (sizes : List Nat) :
    ∀ (dims : List Nat) (w : W), dims.Nodup → (∀ d ∈ dims, d < sizes.length) →
      ∀ (keep : List Nat), (∀ d ∈ keep, MonoAx sizes d w) → (∀ d ∈ keep, d ∉ dims) →
      ∀ d, d ∈ keep ∨ d ∈ dims → MonoAx sizes d (dims.foldl (fun acc d => cummaxAx acc d) w) := by
  intro dims
  induction dims with
  | nil => intro w _ _ keep hk _ d hd; rcases hd with h | h; exact hk d h; cases h
  | cons a r ih =>
    intro w hnd hlt keep hk hdis d hd
    rw [List.nodup_cons] at hnd
    simp only [List.foldl_cons]
    apply ih (cummaxAx w a) hnd.2 (fun x hx => hlt x (List.mem_cons_of_mem _ hx)) (a :: keep)
    · intro x hx
      rcases List.mem_cons.mp hx with e | e
      · subst e; exact cummaxAx_mono_self sizes x w
      · have hne : a ≠ x := fun e' => hdis x e (e' ▸ List.mem_cons_self ..)
        exact cummaxAx_mono_other sizes hne (hlt a (List.mem_cons_self ..)) w (hk x e)
    · intro x hx
      rcases List.mem_cons.mp hx with e | e
      · subst e; exact hnd.1
      · exact fun h => hdis x e (List.mem_cons_of_mem _ h)
    · rcases hd with h | h
      · exact Or.inl (List.mem_cons_of_mem _ h)
      · rcases List.mem_cons.mp h with e | e
        · exact Or.inl (e ▸ List.mem_cons_self ..)
        · exact Or.inr e

theorem foldl_cummin_mono (sizes : List Nat) :
    ∀ (dims : List Nat) (w : W), dims.Nodup → (∀ d ∈ dims, d < sizes.length) →
      ∀ (keep : List Nat), (∀ d ∈ keep, MonoAx sizes d w) → (∀ d ∈ keep, d ∉ dims) →
      ∀ d, d ∈ keep ∨ d ∈ dims →
        MonoAx sizes d (dims.foldl (fun acc d => cumminAx acc d (sizes.getD d 0)) w) := by
  intro dims
  induction dims with
  | nil => intro w _ _ keep hk _ d hd; rcases hd with h | h; exact hk d h; cases h
  | cons a r ih =>
    intro w hnd hlt keep hk hdis d hd
    rw [List.nodup_cons] at hnd
    simp only [List.foldl_cons]
    apply ih (cumminAx w a (sizes.getD a 0)) hnd.2 (fun x hx => hlt x (List.mem_cons_of_mem _ hx)) (a :: keep)
    · intro x hx
      rcases List.mem_cons.mp hx with e | e
      · subst e; exact cumminAx_mono_self sizes x w
      · have hne : a ≠ x := fun e' => hdis x e (e' ▸ List.mem_cons_self ..)
        exact cumminAx_mono_other sizes hne (hlt a (List.mem_cons_self ..)) w (hk x e)
    · intro x hx
      rcases List.mem_cons.mp hx with e | e
      · subst e; exact hnd.1
      · exact fun h => hdis x e (List.mem_cons_of_mem _ h)
    · rcases hd with h | h
      · exact Or.inl (List.mem_cons_of_mem _ h)
      · rcases List.mem_cons.mp h with e | e
        · exact Or.inl (e ▸ List.mem_cons_self ..)
        · exact Or.inr e

theorem monoDims_nodup (sizes : List Nat) (mono : List Bool) : (monoDims sizes mono).Nodup :=
  List.Pairwise.filter _ List.nodup_range

/-- **C01-T1**: `_approximately_project_monotonicity` returns a kernel monotone along every
monotone dimension — for every rank, size vector and input kernel. -/
theorem approxMono_mono (sizes : List Nat) (mono : List Bool) (w : W) {d : Nat}
    (hd : d < sizes.length) (hm : mono.getD d false = true) :
    MonoAx sizes d (approxMono sizes mono w) := by
  unfold approxMono
  exact foldl_cummin_mono sizes _ _ (monoDims_nodup sizes mono)
    (fun x hx => (mem_monoDims.mp hx).1) [] (by simp) (by simp) d
    (Or.inr (mem_monoDims.mpr ⟨hd, hm⟩))

/-! ### feasible ⇒ unchanged -/
theorem cummaxUpTo_of_mono (sizes : List Nat) {d : Nat} (hd : d < sizes.length) (w : W)
    (hw : MonoAx sizes d w) (idx : Idx) (hr : InRange sizes idx) :
    ∀ k, k < sizes.getD d 0 → cummaxUpTo w d idx k = w (setc idx d k) := by
  intro k
  induction k with
  | zero => intro _; rfl
  | succ k ih =>
    intro hk
    simp only [cummaxUpTo, ih (by omega)]
    have hin : InRange sizes (setc idx d k) := inRange_setc hr (by omega)
    have hl : d < idx.length := by rw [hr.1]; exact hd
    have := hw _ hin hd (by rw [coord_setc_same _ hl]; exact hk)
    rw [coord_setc_same _ hl, setc_setc_same] at this
    exact max_eq_right this

theorem cummaxAx_fix (sizes : List Nat) {d : Nat} (hd : d < sizes.length) (w : W)
    (hw : MonoAx sizes d w) : AgreeOn sizes (cummaxAx w d) w := by
  intro idx hr
  simp only [cummaxAx]
  rw [cummaxUpTo_of_mono sizes hd w hw idx hr _ (hr.2 d hd),
    setc_coord_self (by rw [hr.1]; exact hd)]

theorem cumminFrom_of_mono (sizes : List Nat) {d : Nat} (hd : d < sizes.length) (w : W)
    (hw : MonoAx sizes d w) (idx : Idx) (hr : InRange sizes idx) :
    ∀ k, k < sizes.getD d 0 →
      cumminFrom w d (sizes.getD d 0) idx k = w (setc idx d (sizes.getD d 0 - 1 - k)) := by
  intro k
  induction k with
  | zero => intro _; rfl
  | succ k ih =>
    intro hk
    simp only [cumminFrom, ih (by omega)]
    have hin : InRange sizes (setc idx d (sizes.getD d 0 - 1 - (k+1))) := inRange_setc hr (by omega)
    have hl : d < idx.length := by rw [hr.1]; exact hd
    have := hw _ hin hd (by rw [coord_setc_same _ hl]; omega)
    rw [coord_setc_same _ hl, setc_setc_same] at this
    have e : sizes.getD d 0 - 1 - (k + 1) + 1 = sizes.getD d 0 - 1 - k := by omega
    rw [e] at this
    exact min_eq_right this

theorem cumminAx_fix (sizes : List Nat) {d : Nat} (hd : d < sizes.length) (w : W)
    (hw : MonoAx sizes d w) : AgreeOn sizes (cumminAx w d (sizes.getD d 0)) w := by
  intro idx hr
  simp only [cumminAx]
  have hc := hr.2 d hd
  rw [cumminFrom_of_mono sizes hd w hw idx hr _ (by omega)]
  have e : sizes.getD d 0 - 1 - (sizes.getD d 0 - 1 - coord idx d) = coord idx d := by omega
  rw [e, setc_coord_self (by rw [hr.1]; exact hd)]

/-! ### locality -/
theorem cummaxAx_local (sizes : List Nat) {d : Nat} (hd : d < sizes.length) :
    Local sizes (fun w => cummaxAx w d) := by
  intro f g h idx hr
  simp only [cummaxAx]
  have key : ∀ k, k < sizes.getD d 0 → cummaxUpTo f d idx k = cummaxUpTo g d idx k := by
    intro k
    induction k with
    | zero => intro hk; simp only [cummaxUpTo]; exact h _ (inRange_setc hr hk)
    | succ k ih =>
      intro hk
      simp only [cummaxUpTo, ih (by omega), h _ (inRange_setc hr hk)]
  exact key _ (hr.2 d hd)

theorem cumminAx_local (sizes : List Nat) {d : Nat} (hd : d < sizes.length) :
    Local sizes (fun w => cumminAx w d (sizes.getD d 0)) := by
  intro f g h idx hr
  simp only [cumminAx]
  have hc := hr.2 d hd
  have key : ∀ k, k < sizes.getD d 0 →
      cumminFrom f d (sizes.getD d 0) idx k = cumminFrom g d (sizes.getD d 0) idx k := by
    intro k
    induction k with
    | zero => intro hk; simp only [cumminFrom]; exact h _ (inRange_setc hr (by omega))
    | succ k ih =>
      intro hk
      have e := h (setc idx d (sizes.getD d 0 - 1 - (k + 1))) (inRange_setc hr (by omega))
      simp only [cumminFrom, ih (by omega), e]
  exact key _ (by omega)

end Tfl.Lat
