import TflModel.Lemmas.JointUnimod
import TflModel.Lemmas.Units
/-! C09: the Dykstra group projections only read coordinates below the rank, so running them on the
`sizes ++ [units]` tensor (lattice_lib.py:1918-1923) is running them on every unit slice. -/
namespace Tfl.Units
open Tfl Tfl.Lat

/-- a stage that commutes with taking the unit slice and only reads indices of its own length -/
def SliceStage (n : Nat) (G : W → W) : Prop :=
  (∀ (w : W) (u : Nat) (idx : Idx), idx.length = n → G w (idx ++ [u]) = G (slice w u) idx) ∧
  (∀ f g, AgreeLen n f g → AgreeLen n (G f) (G g))

theorem SliceStage.comm {n : Nat} {G : W → W} (h : SliceStage n G) (u : Nat) (w w1 : W)
    (hw : AgreeLen n (slice w u) w1) : AgreeLen n (slice (G w) u) (G w1) := by
  intro idx hl
  show G w (idx ++ [u]) = G w1 idx
  rw [h.1 w u idx hl]
  exact h.2 _ _ hw idx hl

theorem monoGroup_sliceStage (n size : Nat) (mono : Bool) (unimod : Int) (d g : Nat) (hd : d < n) :
    SliceStage n (monoGroup size mono unimod d g) := by
  refine ⟨fun w u idx hl => ?_, fun f g h idx hl => ?_⟩
  · have hd' : d < idx.length := by omega
    simp only [monoGroup, slice, coord_append_lt u hd', setc_append_lt u _ hd']
  · have e0 := h idx hl
    have e1 := h (setc idx d (coord idx d + 1)) (by simpa using hl)
    have e2 := h (setc idx d (coord idx d - 1)) (by simpa using hl)
    simp only [monoGroup, e0, e1, e2]

theorem edgeworthGroup_sliceStage (n M N : Nat) (tr : Trust) (g0 g1 : Nat) (hm : tr.main < n) (hc : tr.cond < n) :
    SliceStage n (edgeworthGroup M N tr g0 g1) := by
  refine ⟨fun w u idx hl => ?_, fun f g h idx hl => ?_⟩
  · have hm' : tr.main < idx.length := by omega
    have hc' : tr.cond < idx.length := by omega
    simp only [edgeworthGroup, coord_append_lt u hm', coord_append_lt u hc', gat_slice w u _ _ _ _ idx hm' hc']
    rfl
  · have e0 := h idx hl
    have eg : ∀ x y, gat f tr.main tr.cond x y idx = gat g tr.main tr.cond x y idx :=
      fun x y => gat_congr h _ _ x y hl
    simp only [edgeworthGroup, e0, eg]

theorem trapezoidGroup_sliceStage (n M N : Nat) (tr : Trust) (g0 : Nat) (hm : tr.main < n) (hc : tr.cond < n) :
    SliceStage n (trapezoidGroup M N tr g0) := by
  refine ⟨fun w u idx hl => ?_, fun f g h idx hl => ?_⟩
  · have hm' : tr.main < idx.length := by omega
    have hc' : tr.cond < idx.length := by omega
    simp only [trapezoidGroup, coord_append_lt u hm', coord_append_lt u hc', gat_slice w u _ _ _ _ idx hm' hc']
    rfl
  · have e0 := h idx hl
    have eg : ∀ x y, gat f tr.main tr.cond x y idx = gat g tr.main tr.cond x y idx :=
      fun x y => gat_congr h _ _ x y hl
    simp only [trapezoidGroup, e0, eg]

theorem monoDomGroup_sliceStage (n M N a b g0 g1 : Nat) (g2 : Bool) (ha : a < n) (hb : b < n) :
    SliceStage n (monoDomGroup M N a b g0 g1 g2) := by
  refine ⟨fun w u idx hl => ?_, fun f g h idx hl => ?_⟩
  · have ha' : a < idx.length := by omega
    have hb' : b < idx.length := by omega
    simp only [monoDomGroup, coord_append_lt u ha', coord_append_lt u hb', gat_slice w u _ _ _ _ idx ha' hb']
    rfl
  · have e0 := h idx hl
    have eg : ∀ x y, gat f a b x y idx = gat g a b x y idx := fun x y => gat_congr h _ _ x y hl
    simp only [monoDomGroup, e0, eg]

theorem jointMonoGroup_sliceStage (n M N a b g0 g1 : Nat) (g2 : Bool) (ha : a < n) (hb : b < n) :
    SliceStage n (jointMonoGroup M N a b g0 g1 g2) := by
  refine ⟨fun w u idx hl => ?_, fun f g h idx hl => ?_⟩
  · have ha' : a < idx.length := by omega
    have hb' : b < idx.length := by omega
    simp only [jointMonoGroup, coord_append_lt u ha', coord_append_lt u hb', gat_slice w u _ _ _ _ idx ha' hb']
    rfl
  · have e0 := h idx hl
    have eg : ∀ x y, gat f a b x y idx = gat g a b x y idx := fun x y => gat_congr h _ _ x y hl
    simp only [jointMonoGroup, e0, eg]

theorem rangeDomGroup_sliceStage (n M N a b i j : Nat) (ha : a < n) (hb : b < n) :
    SliceStage n (rangeDomGroup M N a b i j) := by
  refine ⟨fun w u idx hl => ?_, fun f g h idx hl => ?_⟩
  · have ha' : a < idx.length := by omega
    have hb' : b < idx.length := by omega
    simp only [rangeDomGroup, coord_append_lt u ha', coord_append_lt u hb', gat_slice w u _ _ _ _ idx ha' hb']
    rfl
  · have e0 := h idx hl
    have eg : ∀ x y, gat f a b x y idx = gat g a b x y idx := fun x y => gat_congr h _ _ x y hl
    simp only [rangeDomGroup, e0, eg]

theorem setcs_append_lt {idx : Idx} {dims : List Nat} (pos : List Nat) (u : Nat)
    (h : ∀ d ∈ dims, d < idx.length) : setcs (idx ++ [u]) dims pos = setcs idx dims pos ++ [u] := by
  induction dims generalizing idx pos with
  | nil => cases pos <;> rfl
  | cons d ds ih =>
    cases pos with
    | nil => rfl
    | cons v vs =>
      simp only [setcs]
      rw [setc_append_lt u v (h d (List.mem_cons_self ..))]
      exact ih vs (fun e he => by simpa using h e (List.mem_cons_of_mem _ he))

theorem coordsOf_append_lt {idx : Idx} {dims : List Nat} (u : Nat) (h : ∀ d ∈ dims, d < idx.length) :
    coordsOf (idx ++ [u]) dims = coordsOf idx dims := by
  unfold coordsOf
  exact List.map_congr_left (fun d hd => coord_append_lt u (h d hd))

theorem hyperplaneGroup_sliceStage (n : Nat) (dims : List Nat) (valley : Bool) (st : List (List Nat × Int))
    (hd : ∀ d ∈ dims, d < n) : SliceStage n (hyperplaneGroup dims valley st) := by
  refine ⟨fun w u idx hl => ?_, fun f g h idx hl => ?_⟩
  · have hd' : ∀ d ∈ dims, d < idx.length := fun d hdd => by rw [hl]; exact hd d hdd
    simp only [hyperplaneGroup, slice, coordsOf_append_lt u hd', setcs_append_lt _ u hd']
  · have e0 := h idx hl
    have es : ∀ pos, f (setcs idx dims pos) = g (setcs idx dims pos) :=
      fun pos => h _ (by simpa using hl)
    simp only [hyperplaneGroup, e0, es]

/-! ### the loop -/

/-- aligned lists of `last_change` tensors -/
def ChangesAgree (n u : Nat) : List W → List W → Prop
  | [], [] => True
  | c :: cs, d :: ds => AgreeLen n (slice c u) d ∧ ChangesAgree n u cs ds
  | _, _ => False

theorem dykstraPass_slice (n u : Nat) :
    ∀ (ps : List (W → W)), (∀ P ∈ ps, SliceStage n P) → ∀ (w w1 : W) (cs cs1 : List W),
      AgreeLen n (slice w u) w1 → ChangesAgree n u cs cs1 → cs.length = ps.length →
      AgreeLen n (slice (dykstraPass ps w cs).1 u) (dykstraPass ps w1 cs1).1 ∧
        ChangesAgree n u (dykstraPass ps w cs).2 (dykstraPass ps w1 cs1).2 ∧
        (dykstraPass ps w cs).2.length = ps.length := by
  intro ps
  induction ps with
  | nil => intro _ w w1 cs cs1 hw _ _; exact ⟨hw, trivial, rfl⟩
  | cons P ps ih =>
    intro hP w w1 cs cs1 hw hc hlen
    cases cs with
    | nil => simp at hlen
    | cons c cs =>
      cases cs1 with
      | nil => exact absurd hc (by simp [ChangesAgree])
      | cons c1 cs1 =>
        obtain ⟨hc0, hcr⟩ := hc
        have hroll : AgreeLen n (slice (fun idx => w idx - c idx) u) (fun idx => w1 idx - c1 idx) := by
          intro idx hl
          have a := hw idx hl
          have b := hc0 idx hl
          simp only [slice] at a b ⊢
          rw [a, b]
        have hproj := (hP P (List.mem_cons_self ..)).comm u _ _ hroll
        have hchange : AgreeLen n
            (slice (fun idx => P (fun idx => w idx - c idx) idx - (w idx - c idx)) u)
            (fun idx => P (fun idx => w1 idx - c1 idx) idx - (w1 idx - c1 idx)) := by
          intro idx hl
          have a := hproj idx hl
          have b := hroll idx hl
          simp only [slice] at a b ⊢
          rw [a, b]
        obtain ⟨r1, r2, r3⟩ := ih (fun Q hQ => hP Q (List.mem_cons_of_mem _ hQ)) _ _ cs cs1 hproj hcr
          (by simpa using hlen)
        simp only [dykstraPass, visit, List.headD_cons, List.tail_cons]
        exact ⟨r1, ⟨hchange, r2⟩, by simp [r3]⟩

theorem dykstraIter_slice (n u : Nat) (ps : List (W → W)) (hP : ∀ P ∈ ps, SliceStage n P) :
    ∀ (k : Nat) (w w1 : W) (cs cs1 : List W),
      AgreeLen n (slice w u) w1 → ChangesAgree n u cs cs1 → cs.length = ps.length →
      AgreeLen n (slice (dykstraIter ps k (w, cs)).1 u) (dykstraIter ps k (w1, cs1)).1 := by
  intro k
  induction k with
  | zero => intro w w1 cs cs1 hw _ _; exact hw
  | succ k ih =>
    intro w w1 cs cs1 hw hc hl
    obtain ⟨r1, r2, r3⟩ := dykstraPass_slice n u ps hP w w1 cs cs1 hw hc hl
    simp only [dykstraIter]
    exact ih _ _ _ _ r1 r2 r3

theorem changesAgree_zero (n u : Nat) (ps : List (W → W)) :
    ChangesAgree n u (ps.map (fun _ => fun _ => 0)) (ps.map (fun _ => fun _ => 0)) := by
  induction ps with
  | nil => trivial
  | cons _ _ ih => exact ⟨fun _ _ => rfl, ih⟩

/-! ### the group schedule on `sizes ++ [units]` is the one-unit schedule -/

/-- what `verify_hyperparameters` guarantees about the lists of a Dykstra configuration -/
structure DCfgWF (c : DCfg) : Prop where
  mono_len : c.mono.length ≤ c.sizes.length
  unimod_len : c.unimod.length ≤ c.sizes.length
  trusts : ∀ tr ∈ c.edgeworth ++ c.trapezoid, tr.main < c.sizes.length ∧ tr.cond < c.sizes.length
  pairs : ∀ p ∈ c.monoDom ++ c.rangeDom ++ c.jointMono, p.1 < c.sizes.length ∧ p.2 < c.sizes.length
  jus : ∀ ju ∈ c.jointUnimod, ∀ d ∈ ju.dims, d < c.sizes.length

theorem getD_append_zero (l : List Int) (d : Nat) : (l ++ [0]).getD d 0 = l.getD d 0 := by
  simp only [List.getD_eq_getElem?_getD]
  by_cases h : d < l.length
  · rw [List.getElem?_append_left h]
  · rw [List.getElem?_append_right (by omega)]
    have : l[d]? = none := by simp; omega
    rw [this]
    cases hk : d - l.length with
    | zero => simp
    | succ k => simp

theorem sz_dcfgU (c : DCfg) (units d : Nat) (h : d < c.sizes.length) : sz (dcfgU c units) d = sz c d := by
  simp only [sz, dcfgU]; exact getD_append_lt c.sizes units d h

/-- **C09-T1, Dykstra reshape**: appending the unit axis (with monotonicity / unimodality `0`) leaves
the list of group projections unchanged — the very same functions are applied to the bigger tensor. -/
theorem groups_dcfgU (c : DCfg) (units : Nat) (h : DCfgWF c) : groups (dcfgU c units) = groups c := by
  have hmono : c.mono.getD c.sizes.length false = false := by
    have : c.mono[c.sizes.length]? = none := by simp; exact h.mono_len
    simp [List.getD_eq_getElem?_getD, this]
  have huni : c.unimod.getD c.sizes.length 0 = 0 := by
    have : c.unimod[c.sizes.length]? = none := by simp; exact h.unimod_len
    simp [List.getD_eq_getElem?_getD, this]
  simp only [groups]
  refine congrArg₂ (· ++ ·) (congrArg₂ (· ++ ·) (congrArg₂ (· ++ ·) (congrArg₂ (· ++ ·) (congrArg₂ (· ++ ·)
    (congrArg₂ (· ++ ·) ?_ ?_) ?_) ?_) ?_) ?_) ?_
  · -- monotonicity groups
    simp only [dcfgU, List.length_append, List.length_cons, List.length_nil, zero_add, List.range_succ,
      List.flatMap_append, List.flatMap_cons, List.flatMap_nil, getD_append_false, getD_append_zero,
      hmono, huni, List.append_nil]
    simp only [Bool.not_false, BEq.rfl, Bool.and_self, if_true, List.append_nil]
    apply List.flatMap_congr
    intro d hd
    have hd' : d < c.sizes.length := List.mem_range.mp hd
    have := sz_dcfgU c units d hd'
    simp only [sz, dcfgU] at this
    simp only [sz, this]
    rfl
  · apply List.flatMap_congr
    intro tr htr
    have ht := h.trusts tr (List.mem_append_left _ htr)
    simp only [sz_dcfgU c units _ ht.1, sz_dcfgU c units _ ht.2]
  · apply List.flatMap_congr
    intro tr htr
    have ht := h.trusts tr (List.mem_append_right _ htr)
    simp only [sz_dcfgU c units _ ht.1, sz_dcfgU c units _ ht.2]
  · apply List.flatMap_congr
    intro p hp
    have ht := h.pairs p (List.mem_append_left _ (List.mem_append_left _ hp))
    simp only [sz_dcfgU c units _ ht.1, sz_dcfgU c units _ ht.2]
  · apply List.flatMap_congr
    intro p hp
    have ht := h.pairs p (List.mem_append_left _ (List.mem_append_right _ hp))
    simp only [sz_dcfgU c units _ ht.1, sz_dcfgU c units _ ht.2]
  · apply List.flatMap_congr
    intro p hp
    have ht := h.pairs p (List.mem_append_right _ hp)
    simp only [sz_dcfgU c units _ ht.1, sz_dcfgU c units _ ht.2]
  · apply List.flatMap_congr
    intro ju hju
    have : ju.dims.map (sz (dcfgU c units)) = ju.dims.map (sz c) :=
      List.map_congr_left (fun d hd => sz_dcfgU c units d (h.jus ju hju d hd))
    simp only [this]

theorem groups_sliceStage (c : DCfg) (h : DCfgWF c) : ∀ P ∈ groups c, SliceStage c.sizes.length P := by
  intro P hP
  unfold groups at hP
  simp only [List.mem_append, List.mem_flatMap, List.mem_map, List.mem_range, List.mem_filter,
    List.mem_filterMap] at hP
  rcases hP with (((((( ⟨d, hd, hP⟩ | ⟨tr, htr, hP⟩) | ⟨tr, htr, hP⟩) | ⟨p, hp, hP⟩) | ⟨p, hp, hP⟩) | ⟨p, hp, hP⟩) |
    ⟨ju, hju, vertex, _, offs, _, hP⟩)
  · split at hP
    · cases hP
    · simp only [List.mem_map, List.mem_filter] at hP
      obtain ⟨g, _, rfl⟩ := hP
      exact monoGroup_sliceStage _ _ _ _ _ _ hd
  · obtain ⟨g, _, rfl⟩ := hP
    have ht := h.trusts tr (List.mem_append_left _ htr)
    exact edgeworthGroup_sliceStage _ _ _ _ _ _ ht.1 ht.2
  · obtain ⟨g, _, rfl⟩ := hP
    have ht := h.trusts tr (List.mem_append_right _ htr)
    exact trapezoidGroup_sliceStage _ _ _ _ _ ht.1 ht.2
  · obtain ⟨g, _, rfl⟩ := hP
    have ht := h.pairs p (List.mem_append_left _ (List.mem_append_left _ hp))
    exact monoDomGroup_sliceStage _ _ _ _ _ _ _ _ ht.1 ht.2
  · obtain ⟨i, _, j, _, rfl⟩ := hP
    have ht := h.pairs p (List.mem_append_left _ (List.mem_append_right _ hp))
    exact rangeDomGroup_sliceStage _ _ _ _ _ _ _ ht.1 ht.2
  · obtain ⟨g, _, rfl⟩ := hP
    have ht := h.pairs p (List.mem_append_right _ hp)
    exact jointMonoGroup_sliceStage _ _ _ _ _ _ _ _ ht.1 ht.2
  · cases hs : juStencil (ju.dims.map (sz c)) vertex offs with
    | none => rw [hs] at hP; cases hP
    | some st =>
      rw [hs] at hP
      simp only [Option.map_some, Option.some.injEq] at hP
      subst hP
      exact hyperplaneGroup_sliceStage _ _ _ _ (h.jus ju hju)

end Tfl.Units
